#!/usr/bin/env python3
"""Confirm a seeded change produced by a sub-agent and record how our checks react.

  bin/keep_seeded.py /tmp/seeded/C01/a [extra-property ...]

Steps (all in scratch worktrees of /repo HEAD, never in /repo itself):
  1. the patch applies, `go build ./...` succeeds, the whole existing suite passes with it;
  2. the demonstration test FAILS with the patch and PASSES without it;
  3. `bin/verif check <property>` (quick tier, VERIF_REPO = patched worktree) for the property
     the change targets and any extra property named on the command line;
  4. everything is saved under /verif/seeded/<Cxx>-<v>/ (patch.diff, demo, meta.json).
"""
import json, os, re, shutil, subprocess, sys, time

ROOT = os.path.dirname(os.path.dirname(os.path.abspath(__file__)))
ENV = dict(os.environ, GOFLAGS="-mod=mod", GOPROXY="off", GOSUMDB="off", GOTOOLCHAIN="local")


def sh(cmd, cwd=None, timeout=3000, env=None):
    p = subprocess.run(cmd, cwd=cwd, shell=True, stdout=subprocess.PIPE, stderr=subprocess.STDOUT, text=True,
                       timeout=timeout, env=env or ENV)
    return p.returncode, p.stdout


def main():
    src = sys.argv[1].rstrip("/")
    extra = sys.argv[2:]
    meta = json.load(open(os.path.join(src, "meta.json")))
    prop = meta.get("property") or os.path.basename(os.path.dirname(src))
    variant = os.path.basename(src)
    demo_files = [f for f in os.listdir(src) if f.endswith("_test.go")]
    cmd = meta.get("demo_cmd", "")
    m = re.search(r"<(?:repo|worktree)>/([\w/.\-]+?)(?:/demo_mut_test\.go|/\s|/?\s&&|\s)", cmd)
    destdir = m.group(1).rstrip("/") if m else None
    if destdir and destdir.endswith(".go"):
        destdir = os.path.dirname(destdir)
    run = re.search(r"-run\s+'?\"?([^\s'\"]+)", cmd)
    runpat = run.group(1) if run else "TestDemo"
    tags = "-tags verif" if "-tags verif" in cmd else ""
    timeout_flag = re.search(r"-timeout\s+(\S+)", cmd)
    tflag = "-timeout " + timeout_flag.group(1) if timeout_flag else "-timeout 10m"
    if not destdir:
        print("cannot find demo destination in demo_cmd:", cmd)
        return 2
    wt_mut = "/tmp/wt-keep-%s-%s-mut" % (prop, variant)
    wt_head = "/tmp/wt-keep-%s-%s-head" % (prop, variant)
    rec = {"applies": False}
    try:
        for w in (wt_mut, wt_head):
            sh("git -C /repo worktree remove --force %s" % w)
            rc, out = sh("git -C /repo worktree add --detach %s HEAD -q" % w)
            if rc != 0:
                print(out)
                return 2
        rc, out = sh("git -C %s apply %s/patch.diff" % (wt_mut, src))
        rec["applies"] = rc == 0
        if rc != 0:
            print("patch does not apply:", out)
            return 2
        rc, out = sh("go build ./... && go build %s ./..." % tags, cwd=wt_mut)
        rec["builds"] = rc == 0
        rc, out = sh("go test -mod=mod -vet=off -count=1 -timeout 25m ./... 2>&1 | grep -v 'no test files' | grep -v '^ok'", cwd=wt_mut)
        rec["suite_passes_with_change"] = out.strip() == ""
        if out.strip():
            rec["suite_output"] = out[-1500:]
        for f in demo_files:
            shutil.copy(os.path.join(src, f), os.path.join(wt_mut, destdir, f))
            shutil.copy(os.path.join(src, f), os.path.join(wt_head, destdir, f))
        democmd = "go test -mod=mod -vet=off -count=1 %s %s -run '%s' ./%s/" % (tags, tflag, runpat, destdir)
        rc1, out1 = sh(democmd, cwd=wt_mut, timeout=1500)
        rc2, out2 = sh(democmd, cwd=wt_head, timeout=1500)
        rec["demo_cmd"] = democmd
        rec["demo_fails_with_change"] = rc1 != 0
        rec["demo_passes_without_change"] = rc2 == 0
        rec["demo_tail_with_change"] = out1[-600:]
        rec["demo_tail_without_change"] = out2[-300:]
        for f in demo_files:
            os.remove(os.path.join(wt_mut, destdir, f))
        checks = {}
        for p in [prop] + extra:
            t0 = time.time()
            env = dict(os.environ, VERIF_REPO=wt_mut)
            rc, out = sh("bin/verif check %s --tier quick" % p, cwd=ROOT, timeout=3000, env=env)
            line = [l for l in out.splitlines() if l.startswith(("VIOLATION", "BROKEN"))]
            summary = out.strip().splitlines()[-1] if out.strip() else ""
            info = {"exit": rc, "line": line[:1], "summary": summary, "wall_s": round(time.time() - t0, 1)}
            rp = os.path.join(ROOT, "build", os.environ.get("VERIF_ALT", "alt"), "replays", "%s-1-0.json" % p)
            if rc == 1 and os.path.exists(rp):
                d = json.load(open(rp))
                info["replay_kind"] = d.get("kind")
                info["oracle"] = d.get("oracle")
                info["what"] = str(d.get("what", ""))[:400]
            checks[p] = info
        rec["checks"] = checks
        rec["caught"] = any(c["exit"] == 1 for c in checks.values())
    finally:
        for w in (wt_mut, wt_head):
            sh("git -C /repo worktree remove --force %s" % w)
        sh("git -C /repo worktree prune")
    dest = os.path.join(ROOT, "seeded", "%s-%s" % (prop, variant))
    os.makedirs(dest, exist_ok=True)
    shutil.copy(os.path.join(src, "patch.diff"), dest)
    for f in demo_files:
        shutil.copy(os.path.join(src, f), os.path.join(dest, f + ".txt" if False else f.replace("_test.go", "_test.go.demo")))
    meta["confirmed_by_us"] = rec
    meta["repo_head"] = subprocess.run("git -C /repo rev-parse --short HEAD", shell=True, stdout=subprocess.PIPE, text=True).stdout.strip()
    json.dump(meta, open(os.path.join(dest, "meta.json"), "w"), indent=1)
    ok = rec.get("suite_passes_with_change") and rec.get("demo_fails_with_change") and rec.get("demo_passes_without_change")
    print("%s-%s: confirmed=%s caught=%s  %s" % (prop, variant, bool(ok), rec.get("caught"),
          "; ".join("%s:exit=%s %s" % (p, c["exit"], (c.get("oracle") or "")) for p, c in rec.get("checks", {}).items())))
    return 0


if __name__ == "__main__":
    sys.exit(main())
