#!/usr/bin/env python3
"""Regenerates 'Appendix S' of DESIGN.md from seeded/*/meta.json."""
import glob, json, os, re
ROOT = os.path.dirname(os.path.dirname(os.path.abspath(__file__)))
rows = []
audit = []
for p in sorted(glob.glob(os.path.join(ROOT, "seeded", "*", "meta.json"))):
    m = json.load(open(p))
    c = m.get("confirmed_by_us", {})
    ident = os.path.basename(os.path.dirname(p))
    if "-audit-" in ident:
        audit.append(ident)
        continue
    confirmed = bool(c.get("suite_passes_with_change") and c.get("demo_fails_with_change") and c.get("demo_passes_without_change"))
    checks = c.get("checks", {})
    verdicts = []
    for prop, info in checks.items():
        if info.get("exit") == 1:
            how = info.get("oracle") or ("correspondence (L1)" if "no-failing-input-found" in " ".join(info.get("line", [])) else "oracle")
            verdicts.append("%s: VIOLATION (%s)" % (prop, how))
        elif info.get("exit") == 0:
            verdicts.append("%s: not caught" % prop)
        else:
            verdicts.append("%s: exit %s" % (prop, info.get("exit")))
    title = (m.get("title") or "").replace("|", "/")[:110]
    needs = (m.get("needs") or "").replace("|", "/").replace("\n", " ")[:160]
    rows.append("| %s | %s | %s | %s | %s |" % (ident, title, needs, "yes" if confirmed else "NO (demo not reproducible here)", "; ".join(verdicts)))
table = ["| id | change | needs | confirmed (suite passes, demo fails/passes) | quick check verdict |", "|---|---|---|---|---|"] + rows
caught = sum(1 for r in rows if "VIOLATION" in r)
text = "\n".join(table) + "\n\n%d seeded changes recorded, %d reported as VIOLATION by the quick tier of the targeted check.\n" % (len(rows), caught)
if audit:
    text += "\nFurther %d changes (`seeded/*-audit-*`) were written during the coverage audits of the checks (by agents that could read /verif, to probe suspected gaps; no demonstration tests, package tests pass with each): they are regression inputs of `bin/seeded_regress`, whose last result is `seeded/REGRESSION.md`.\n" % len(audit)
d = open(os.path.join(ROOT, "DESIGN.md"), encoding="utf-8").read()
i = d.index("## Appendix S. Seeded changes")
d = d[:i] + "## Appendix S. Seeded changes\n\nEach change was produced by a sub-agent that saw only the property text and a scratch worktree of /repo; it compiles, passes the whole existing suite, and comes with a demonstration test that fails with the change and passes without it (re-run by `bin/keep_seeded.py`). Kept under `/verif/seeded/<id>/` (patch.diff, demo, meta.json with what was run). Where a change was first missed, the generator/oracle was strengthened (see the notes in meta.json and §11) and the change re-run.\n\n" + text
open(os.path.join(ROOT, "DESIGN.md"), "w", encoding="utf-8").write(d)
print(text[-200:])
