#!/usr/bin/env python3
"""Try a behaviour-preserving change (produced by a sub-agent that saw only the property text)
against our checks: the check must stay quiet.

  bin/keep_harmless.py /tmp/harmless/C01/a [extra-property ...]

Scratch worktree of /repo HEAD, patch applied, whole suite must pass, then `bin/verif check`
(quick tier, VERIF_REPO = patched worktree) for the targeted property (and extras).  Saved under
/verif/harmless/<Cxx>-<v>/ (patch.diff, meta.json with our result)."""
import json, os, shutil, subprocess, sys, time

ROOT = os.path.dirname(os.path.dirname(os.path.abspath(__file__)))
ENV = dict(os.environ, GOFLAGS="-mod=mod", GOPROXY="off", GOSUMDB="off", GOTOOLCHAIN="local")


def sh(cmd, cwd=None, timeout=3000, env=None):
    p = subprocess.run(cmd, cwd=cwd, shell=True, stdout=subprocess.PIPE, stderr=subprocess.STDOUT, text=True, timeout=timeout, env=env or ENV)
    return p.returncode, p.stdout


def main():
    src = sys.argv[1].rstrip("/")
    extra = sys.argv[2:]
    meta = json.load(open(os.path.join(src, "meta.json")))
    prop = meta.get("property") or os.path.basename(os.path.dirname(src))
    variant = os.path.basename(src)
    wt = "/tmp/wt-hl-%s-%s" % (prop, variant)
    rec = {}
    try:
        sh("git -C /repo worktree remove --force %s" % wt)
        rc, out = sh("git -C /repo worktree add --detach %s HEAD -q && git -C %s apply %s/patch.diff" % (wt, wt, src))
        rec["applies"] = rc == 0
        if rc != 0:
            print("patch does not apply:", out)
            return 2
        rc, out = sh("go build ./... && go test -mod=mod -vet=off -count=1 -timeout 25m ./... 2>&1 | grep -v 'no test files' | grep -v '^ok'", cwd=wt)
        rec["suite_passes_with_change"] = out.strip() == ""
        checks = {}
        for p in [prop] + extra:
            t0 = time.time()
            rc, out = sh("bin/verif check %s --tier quick" % p, cwd=ROOT, env=dict(ENV, VERIF_REPO=wt))
            line = [l for l in out.splitlines() if l.startswith(("VIOLATION", "BROKEN"))]
            info = {"exit": rc, "line": line[:1], "summary": out.strip().splitlines()[-1] if out.strip() else "", "wall_s": round(time.time() - t0, 1)}
            rp = os.path.join(ROOT, "build", os.environ.get("VERIF_ALT", "alt"), "replays", "%s-1-0.json" % p)
            if rc == 1 and os.path.exists(rp):
                d = json.load(open(rp))
                info["replay_kind"], info["oracle"], info["what"] = d.get("kind"), d.get("oracle"), str(d.get("what", ""))[:500]
            checks[p] = info
        rec["checks"] = checks
        rec["quiet"] = all(c["exit"] == 0 for c in checks.values())
    finally:
        sh("git -C /repo worktree remove --force %s" % wt)
        sh("git -C /repo worktree prune")
    dest = os.path.join(ROOT, "harmless", "%s-%s" % (prop, variant))
    os.makedirs(dest, exist_ok=True)
    shutil.copy(os.path.join(src, "patch.diff"), dest)
    meta["tried_by_us"] = rec
    meta["repo_head"] = subprocess.run("git -C /repo rev-parse --short HEAD", shell=True, stdout=subprocess.PIPE, text=True).stdout.strip()
    json.dump(meta, open(os.path.join(dest, "meta.json"), "w"), indent=1)
    print("%s-%s: suite=%s quiet=%s  %s" % (prop, variant, rec.get("suite_passes_with_change"), rec.get("quiet"),
          "; ".join("%s:exit=%s %s %s" % (p, c["exit"], c.get("oracle") or "", (c.get("what") or "")[:160]) for p, c in rec.get("checks", {}).items())))
    return 0


if __name__ == "__main__":
    sys.exit(main())
