"""Per-property configuration of the orchestrator (bin/verif)."""

COMMON_TRUSTED = [
    "Coq 8.16.1 kernel (coqc); vm_compute used by the in-Coq correspondence evaluation and by *_refuted/Example witnesses; no native_compute",
    "No axioms declared; Print Assumptions under every property theorem must say 'Closed under the global context' (checked on every run)",
    "Hand-written Gallina model tied to /repo by the correspondence check: Go harness (harness/, built against /repo's working tree with -tags verif) runs the implementation, writes inputs+observed outputs as Coq terms, coqc evaluates GC.Corr.<id>.check on them",
    "Go harness generators/oracles and the Python orchestrator bin/verif",
]

PROPS = {
    "C17": {
        "model": "coq/Model/Args.v (read_args: byte-at-a-time machine of varutil.ReadArguments; inject_args: argscope.InjectArgs/SeparateArgs)",
        "design_ref": "DESIGN.md §6 C17",
        "level_text": "Theorems over the byte-at-a-time model of ReadArguments for ALL byte strings / argument lists (totality, token round-trips for words, quoted, heredoc and continued arguments, stop-at-newline, InjectArgs numbering), kernel-checked, closed under the global context; the model is tied to the code by exhaustive (small alphabet) + random + structured differential evaluation inside Coq on every run.",
        "level_note": "Trusted: Coq kernel + vm_compute; the hand-written model (tied by the correspondence check only); the Go harness and bytes.Reader. The reference quoting function is Model/Args.v quote.",
        "trusted_base": ["bytes.Reader as the io.Reader (one byte per Read call is what ReadArguments asks for)"],
        "assumptions": [
            "the io.Reader delivers the bytes of the input in order and io.EOF at the end (bytes.Reader in the harness)",
            "reference quoting function = Model/Args.v quote (each argument in double quotes, \" as \\\", backslash emitted outside the quotes as \\\\)",
        ],
    },
}

HOOK_COMMITS = []

_WIP = "check not built yet in this round (work in progress; the property is applicable — see DESIGN.md §6)"
NOT_BUILT = {("C%02d" % i): _WIP for i in range(1, 21)}
