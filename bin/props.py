"""Per-property configuration of the orchestrator (bin/verif): one JSON file per property in
props.d/ (keys: model, design_ref, level_text, level_note, technique?, trusted_base[], assumptions[],
allowed_axioms[]?, harness_timeout{quick,thorough}?, widen?)."""
import glob, json, os

ROOT = os.path.dirname(os.path.dirname(os.path.abspath(__file__)))

COMMON_TRUSTED = [
    "Coq 8.16.1 kernel (coqc); vm_compute used by the in-Coq correspondence evaluation and by *_refuted/Example witnesses; no native_compute",
    "No axioms declared; Print Assumptions under every property theorem must say 'Closed under the global context' (checked on every run)",
    "Hand-written Gallina model tied to /repo by the correspondence check: Go harness (harness/, built against /repo's working tree with -tags verif) runs the implementation, writes inputs+observed outputs as Coq terms, coqc evaluates GC.Corr.<id>.check on them",
    "Go harness generators/oracles and the Python orchestrator bin/verif",
]

PROPS = {}
for _p in sorted(glob.glob(os.path.join(ROOT, "props.d", "C*.json"))):
    PROPS[os.path.basename(_p)[:-5]] = json.load(open(_p))

# commits in /repo that add the build-tag-guarded hooks
HOOK_COMMITS = ["2cc76a6", "245af10", "5e27928", "0c064d2"]

_WIP = "check not built yet in this round (work in progress; the property is applicable - see DESIGN.md section 6)"
NOT_BUILT = {("C%02d" % i): _WIP for i in range(1, 21)}
