#!/usr/bin/env python3
"""Regenerates MANIFEST.json from bin/props.py (single source of truth)."""
import json, os, sys
ROOT = os.path.dirname(os.path.dirname(os.path.abspath(__file__)))
sys.path.insert(0, os.path.join(ROOT, "bin"))
from props import PROPS, COMMON_TRUSTED, NOT_BUILT, HOOK_COMMITS

checks = []
for pid in sorted(PROPS):
    c = PROPS[pid]
    checks.append({
        "property_id": pid,
        "quick_cmd": "bin/verif check %s --tier quick" % pid,
        "thorough_cmd": "bin/verif check %s --tier thorough" % pid,
        "evidence_file": "/verif/evidence/%s.json" % pid,
        "replay_cmd_template": "bin/verif replay %s {path}" % pid,
        "engine": "coq-proof+correspondence",
        "level_claimed": {"category": "proof", "text": c["level_text"], "design_ref": c.get("design_ref", "")},
        "level_note": c["level_note"],
        "technique": c.get("technique", "Rocq/Coq machine-checked proof over an executable Gallina model + correspondence check (model evaluated by vm_compute on the implementation's observed inputs/outputs)"),
    })
m = {
    "version": 1,
    "setup_cmd": "bin/verif setup",
    "hooks": {
        "guard": "verif",
        "enable": "go build -tags verif (the harness module replaces github.com/goatcms/goatcore by /repo and is built with -tags verif on every check)",
        "baseline_off_cmd": "cd /repo && go test -mod=mod -json -vet=off -count=1 -timeout 25m ./...",
        "source_commits": HOOK_COMMITS,
        "add_only": True,
    },
    "engines": [{"name": "coq-proof+correspondence", "path": "bin/verif", "serves_properties": sorted(PROPS),
                 "kind_free_text": "Coq 8.16.1 development under coq/ (Model, Proofs, Props, Corr) + Go harness under harness/ + Python orchestrator"}],
    "checks": checks,
    "not_applicable": [{"property_id": p, "reason": r} for p, r in sorted(NOT_BUILT.items()) if p not in PROPS],
    "notes": "See DESIGN.md. Exit 0 = held, 1 = VIOLATION line, 2 = machinery broken. VERIF_SEED / VERIF_TIER honoured.",
}
json.dump(m, open(os.path.join(ROOT, "MANIFEST.json"), "w"), indent=1)
print("MANIFEST.json written:", len(checks), "checks;", len(m["not_applicable"]), "not claimed")
