(** Proofs about Model/TaskCounter.v: the counter is never negative, no lost wake-up, Wait returns
    exactly when the counter is zero. *)
From GC Require Import Common.Base Model.TaskCounter.
From Coq Require Import ZArith Lia ZifyBool ZifyNat.
Local Open Scope nat_scope.

Lemma nth_error_tupd {A} n m (x y : A) l :
  nth_error l n = Some y -> nth_error (tupd n x l) m = if Nat.eqb n m then Some x else nth_error l m.
Proof.
  revert n m; induction l as [|z l IH]; intros [|n] [|m] H; simpl in *; try discriminate; auto.
Qed.

Lemma pcl_upd n th th' ths m :
  nth_error ths n = Some th -> pcl (tupd n th' ths) m = if Nat.eqb n m then tt_pc th' else pcl ths m.
Proof.
  intros H. unfold pcl. rewrite (nth_error_tupd n m th' th ths H). destruct (Nat.eqb n m); auto.
Qed.

Lemma nth_error_wake ths m : nth_error (map wake ths) m = option_map wake (nth_error ths m).
Proof. apply nth_error_map. Qed.

Lemma pcl_wake ths m : pcl (map wake ths) m = match pcl ths m with TParked => TWoken | p => p end.
Proof.
  unfold pcl. rewrite nth_error_wake. destruct (nth_error ths m) as [th|]; cbn [option_map]; auto.
  unfold wake. destruct (tt_pc th) eqn:E; simpl; rewrite ?E; reflexivity.
Qed.

Definition TI (st : tstate) : Prop :=
  (0 <= tc_counter st)%Z /\
  forall m, pcl (tc_ths st) m <> TIdle ->
            tc_cond st = true /\ (pcl (tc_ths st) m = TParked -> tc_counter st <> 0%Z).

Lemma TI_init progs : TI (tinit progs).
Proof.
  split. simpl; lia. intros m N. elim N. unfold pcl, tinit. simpl. rewrite nth_error_map.
  destruct (nth_error progs m); reflexivity.
Qed.

Lemma wait_test_pc c todo out :
  tt_pc (wait_test c todo out) = if Z.eqb c 0 then TIdle else TParked.
Proof. unfold wait_test. destruct (Z.eqb c 0); reflexivity. Qed.

Lemma TI_step n st st' : TI st -> tstep n st = Some st' -> TI st'.
Proof.
  intros [NN I]. unfold tstep.
  destruct (nth_error (tc_ths st) n) as [th|] eqn:En; [|discriminate].
  destruct st as [c cd ths]. cbn [tc_counter tc_cond tc_ths] in *.
  destruct (tt_pc th) eqn:PC; [|discriminate|].
  - destruct (tt_todo th) as [|[d|] r]; [discriminate| |].
    + destruct (Z.ltb_spec (c + d) 0) as [LT|GE]; intros H; inversion H; subst st'; clear H; unfold TI; simpl.
      * split; auto. intros m. rewrite (pcl_upd n th) by auto. simpl.
        destruct (Nat.eqb n m); [congruence|]. apply I.
      * split; [lia|]. intros m.
        destruct (Z.eqb_spec (c + d) 0) as [Z0|Z0]; destruct cd; simpl.
        -- rewrite (pcl_upd n (wake th)) by (rewrite nth_error_wake, En; auto). simpl.
           destruct (Nat.eqb n m); [congruence|]. rewrite pcl_wake. intros N.
           destruct (pcl ths m) eqn:P; try congruence; split; auto; discriminate.
        -- rewrite (pcl_upd n th) by auto. simpl. destruct (Nat.eqb n m); [congruence|].
           intros N. destruct (I m N). discriminate.
        -- rewrite (pcl_upd n th) by auto. simpl. destruct (Nat.eqb n m); [congruence|].
           intros N. destruct (I m N). split; auto.
        -- rewrite (pcl_upd n th) by auto. simpl. destruct (Nat.eqb n m); [congruence|].
           intros N. destruct (I m N). discriminate.
    + intros H; inversion H; subst st'; clear H; unfold TI; simpl. split; auto.
      intros m. rewrite (pcl_upd n th) by auto. rewrite wait_test_pc.
      destruct (Nat.eqb n m).
      * destruct (Z.eqb_spec c 0); [congruence|]. auto.
      * intros N. destruct (I m N). auto.
  - intros H; inversion H; subst st'; clear H; unfold TI; simpl. split; auto.
    assert (CD : cd = true). { apply (I n). unfold pcl. rewrite En, PC. discriminate. }
    intros m. rewrite (pcl_upd n th) by auto. rewrite wait_test_pc.
    destruct (Nat.eqb n m).
    * destruct (Z.eqb_spec c 0); [congruence|]. auto.
    * intros N. destruct (I m N). auto.
Qed.

Lemma TI_reach progs sched : TI (trun sched (tinit progs)).
Proof.
  unfold trun. generalize (TI_init progs). generalize (tinit progs).
  induction sched as [|n sched IH]; intros st I; simpl; auto.
  apply IH. unfold tstep_or_skip. destruct (tstep n st) eqn:E; auto. eapply TI_step; eauto.
Qed.

(** no lost wake-up: a goroutine asleep in cond.Wait implies a non-zero counter, in every reachable
    state; the counter is never negative *)
Theorem no_lost_wakeup progs sched :
  let st := trun sched (tinit progs) in
  (0 <= tc_counter st)%Z /\
  forall m, pcl (tc_ths st) m = TParked -> tc_counter st <> 0%Z /\ tc_cond st = true.
Proof.
  intros st. destruct (TI_reach progs sched) as [NN I]. split; auto.
  intros m P. destruct (I m) as [A B]. fold st. rewrite P. discriminate. auto.
Qed.

Lemma waits_upd n th th' ths m :
  nth_error ths n = Some th ->
  waits_of (tupd n th' ths) m =
  if Nat.eqb n m then length (filter (fun o => match o with TOWait => true | _ => false end) (tt_out th'))
  else waits_of ths m.
Proof.
  intros H. unfold waits_of. rewrite (nth_error_tupd n m th' th ths H). destruct (Nat.eqb n m); auto.
Qed.

Lemma filter_snoc {A} (f : A -> bool) l x : length (filter f (l ++ [x])) = length (filter f l) + (if f x then 1 else 0).
Proof. rewrite filter_app, app_length. simpl. destruct (f x); reflexivity. Qed.

(** Wait returns exactly at zero: (1) a goroutine inside Wait, in a reachable state with counter 0,
    is not asleep, and its next step returns from Wait; (2) a step in which a Wait returns is taken
    with counter 0 and by the returning goroutine. *)
Theorem wait_returns_at_zero progs sched :
  let st := trun sched (tinit progs) in
  (forall m, tc_counter st = 0%Z -> pcl (tc_ths st) m <> TIdle ->
     exists st', tstep m st = Some st' /\ pcl (tc_ths st') m = TIdle /\
                 waits_of (tc_ths st') m = S (waits_of (tc_ths st) m) /\ tc_counter st' = 0%Z) /\
  (forall n m st', tstep n st = Some st' -> waits_of (tc_ths st') m <> waits_of (tc_ths st) m ->
     m = n /\ tc_counter st = 0%Z /\ tc_counter st' = 0%Z /\ pcl (tc_ths st') m = TIdle).
Proof.
  intros st. split.
  - intros m Z0 N. destruct (no_lost_wakeup progs sched) as [_ P]. fold st in P.
    unfold tstep. unfold pcl in N, P. specialize (P m). unfold waits_of at 2.
    destruct (nth_error (tc_ths st) m) as [th|] eqn:En; [|now elim N].
    destruct (tt_pc th) eqn:PC; [now elim N|destruct (P eq_refl); congruence|].
    eexists. split; [reflexivity|]. simpl. rewrite (pcl_upd m th) by auto. rewrite Nat.eqb_refl.
    rewrite (waits_upd m th) by auto. rewrite Nat.eqb_refl. unfold wait_test. rewrite Z0. simpl.
    rewrite filter_snoc. simpl. repeat split; auto. lia.
  - intros n m st'. unfold tstep.
    destruct (nth_error (tc_ths st) n) as [th|] eqn:En; [|discriminate].
    assert (W : forall c todo out,
      length (filter (fun o => match o with TOWait => true | _ => false end) (tt_out (wait_test c todo out))) <>
      length (filter (fun o => match o with TOWait => true | _ => false end) out) ->
      c = 0%Z /\ tt_pc (wait_test c todo out) = TIdle).
    { intros c todo out. unfold wait_test. destruct (Z.eqb_spec c 0); simpl; auto. intros X; now elim X. }
    assert (ME : waits_of (tc_ths st) n =
                 length (filter (fun o => match o with TOWait => true | _ => false end) (tt_out th))).
    { unfold waits_of. now rewrite En. }
    destruct (tt_pc th) eqn:PC; [|discriminate|].
    + destruct (tt_todo th) as [|[d|] r]; [discriminate| |].
      * destruct (Z.ltb_spec (tc_counter st + d) 0) as [LT|GE]; intros H; inversion H; subst st'; clear H; simpl.
        -- rewrite (waits_upd n th) by auto. destruct (Nat.eqb_spec n m) as [<-|]; [|intros X; now elim X].
           simpl. rewrite filter_snoc, ME. simpl. intros X. elim X. lia.
        -- assert (E : waits_of (tupd n {| tt_pc := TIdle; tt_todo := r; tt_out := tt_out th ++ [TOAdd true] |}
                         (if (tc_counter st + d =? 0)%Z && tc_cond st then map wake (tc_ths st) else tc_ths st)) m
                       = waits_of (tc_ths st) m).
           { destruct ((tc_counter st + d =? 0)%Z && tc_cond st).
             - rewrite (waits_upd n (wake th)) by (rewrite nth_error_wake, En; auto).
               destruct (Nat.eqb_spec n m) as [<-|]. simpl. rewrite filter_snoc, ME. simpl. lia.
               unfold waits_of. rewrite nth_error_wake. destruct (nth_error (tc_ths st) m) as [t0|]; simpl; auto.
               unfold wake. destruct (tt_pc t0); reflexivity.
             - rewrite (waits_upd n th) by auto. destruct (Nat.eqb_spec n m) as [<-|]; auto.
               simpl. rewrite filter_snoc, ME. simpl. lia. }
           rewrite E. intros X. now elim X.
      * intros H; inversion H; subst st'; clear H; simpl. rewrite (waits_upd n th), (pcl_upd n th) by auto.
        destruct (Nat.eqb_spec n m) as [<-|]; [|intros X; now elim X]. rewrite ME. intros X.
        destruct (W _ _ _ X). auto.
    + intros H; inversion H; subst st'; clear H; simpl. rewrite (waits_upd n th), (pcl_upd n th) by auto.
      destruct (Nat.eqb_spec n m) as [<-|]; [|intros X; now elim X]. rewrite ME. intros X.
      destruct (W _ _ _ X). auto.
Qed.
