(** C01: the memfs model (Model/Fs.v, a list of full paths) and the nested plain tree of named
    nodes (Model/PlainTree.v) are the same filespace on every history.

    Part 1: lemmas about the nested tree ([tget], [talter]).
    Part 2: every tree operation completely characterised (when it succeeds, what every path
            answers afterwards) - the mirror image of Proofs/C01Total.v.
    Part 3: the simulation: if the list model and the tree answer alike on every path before a
            history step, the step gives the same outcome (listings up to order) and they
            answer alike afterwards; hence for whole histories from the empty filespace. *)
From GC Require Import Common.Base Model.Paths Model.Fs Model.PlainTree
  Proofs.Paths Proofs.Fs Proofs.NonInterf Proofs.C01Total Proofs.C01Views.
From Coq Require Import Permutation.

(** * Part 1: the nested tree *)

Lemma bytes_eqb_neq a b : a <> b -> bytes_eqb a b = false.
Proof. intros H. destruct (bytes_eqb a b) eqn:E; [|reflexivity]. apply bytes_eqb_spec in E. contradiction. Qed.

Lemma bytes_eqb_sym a b : bytes_eqb a b = bytes_eqb b a.
Proof.
  destruct (bytes_eqb a b) eqn:E.
  - apply bytes_eqb_spec in E. subst. symmetry. apply bytes_eqb_refl.
  - symmetry. apply bytes_eqb_neq. intros ->. rewrite bytes_eqb_refl in E. discriminate.
Qed.

Lemma tfind_tset k n c cs : tfind k (tset n c cs) = if bytes_eqb n k then Some c else tfind k cs.
Proof.
  induction cs as [|[m c0] cs IH]; simpl.
  - rewrite (bytes_eqb_sym k n). reflexivity.
  - destruct (bytes_eqb n m) eqn:Enm; simpl.
    + apply bytes_eqb_spec in Enm. subst m. rewrite (bytes_eqb_sym k n).
      destruct (bytes_eqb n k); reflexivity.
    + destruct (bytes_eqb k m) eqn:Ekm.
      * apply bytes_eqb_spec in Ekm. subst m. rewrite Enm. reflexivity.
      * exact IH.
Qed.

Lemma tfind_tdel k n cs : tfind k (tdel n cs) = if bytes_eqb n k then None else tfind k cs.
Proof.
  unfold tdel. induction cs as [|[m c0] cs IH]; simpl.
  - destruct (bytes_eqb n k); reflexivity.
  - destruct (bytes_eqb n m) eqn:Enm; simpl.
    + apply bytes_eqb_spec in Enm. subst m. rewrite IH. rewrite (bytes_eqb_sym k n).
      destruct (bytes_eqb n k); reflexivity.
    + destruct (bytes_eqb k m) eqn:Ekm.
      * apply bytes_eqb_spec in Ekm. subst m. rewrite Enm. reflexivity.
      * exact IH.
Qed.

Lemma tfind_In n cs c : tfind n cs = Some c -> In (n, c) cs.
Proof.
  induction cs as [|[m c0] cs IH]; simpl; [discriminate|].
  destruct (bytes_eqb n m) eqn:E.
  - apply bytes_eqb_spec in E. subst. intros H; inversion H; subst. left; reflexivity.
  - intros H. right. apply IH. exact H.
Qed.

Lemma In_tfind n cs c : NoDup (map fst cs) -> In (n, c) cs -> tfind n cs = Some c.
Proof.
  induction cs as [|[m c0] cs IH]; simpl; intros Hnd Hin; [contradiction|].
  inversion Hnd as [|? ? Hnotin Hnd']; subst. destruct Hin as [Heq|Hin].
  - inversion Heq; subst. rewrite bytes_eqb_refl. reflexivity.
  - destruct (bytes_eqb n m) eqn:E.
    + apply bytes_eqb_spec in E. subst. exfalso. apply Hnotin. apply in_map_iff. exists (m, c). auto.
    + apply IH; assumption.
Qed.

Lemma tfind_None n cs : tfind n cs = None <-> ~ In n (map fst cs).
Proof.
  induction cs as [|[m c0] cs IH]; simpl.
  - split; [intros _ []|reflexivity].
  - destruct (bytes_eqb n m) eqn:E.
    + apply bytes_eqb_spec in E. subst. split; [discriminate|]. intros H. exfalso. apply H. left; reflexivity.
    + rewrite IH. split.
      * intros H [H1|H1]; [subst; rewrite bytes_eqb_refl in E; discriminate|contradiction].
      * intros H H1. apply H. right. exact H1.
Qed.

(** optional nodes *)
Definition og (o : option tree) (p : path) : option tree :=
  match o with Some T => tget T p | None => None end.
Definition tl (o : option tree) (p : path) : option entry :=
  match og o p with Some c => Some (ent c) | None => None end.

Lemma tl_Some T p : tl (Some T) p = tlookup T p.
Proof. reflexivity. Qed.

Lemma og_nil o : og o [] = o.
Proof. destruct o; reflexivity. Qed.

Lemma tget_app T a b : tget T (a ++ b) = match tget T a with Some c => tget c b | None => None end.
Proof.
  revert T; induction a as [|n a IH]; intros T; simpl; [reflexivity|].
  destruct T as [d|cs]; [reflexivity|]. destruct (tfind n cs); [apply IH|reflexivity].
Qed.

Lemma og_app o a b : og o (a ++ b) = og (og o a) b.
Proof. destruct o as [T|]; simpl; [|reflexivity]. rewrite tget_app. destruct (tget T a); reflexivity. Qed.

Lemma og_cons_dir cs n p : og (Some (TD cs)) (n :: p) = og (tfind n cs) p.
Proof. simpl. destruct (tfind n cs); reflexivity. Qed.

Lemma tl_nil_dir cs : tl (Some (TD cs)) [] = Some D.
Proof. reflexivity. Qed.

(** a file is on the way: some PROPER prefix of [p] is a file *)
Definition before_file (o : option tree) (p : path) : Prop :=
  exists a b d, p = a ++ b /\ b <> [] /\ og o a = Some (TF d).

Lemma before_file_cons_dir cs n p :
  before_file (Some (TD cs)) (n :: p) <-> before_file (tfind n cs) p.
Proof.
  split.
  - intros (a & b & d & Hp & Hb & Ha). destruct a as [|m a]; [simpl in Ha; discriminate|].
    simpl in Hp. inversion Hp; subst m p. rewrite og_cons_dir in Ha. exists a, b, d. auto.
  - intros (a & b & d & Hp & Hb & Ha). exists (n :: a), b, d. subst p.
    rewrite og_cons_dir. auto.
Qed.

Lemma before_file_none p : ~ before_file None p.
Proof. intros (a & b & d & _ & _ & H). discriminate. Qed.

(** a missing node stays missing only when the path is empty (then [f] said so) *)
Lemma talter_missing_gone mk f p : talter mk f p None = Some None -> p = [].
Proof.
  destruct p as [|n p]; [reflexivity|]. simpl. destruct mk; [|discriminate].
  destruct (talter true f p None) as [[?|]|]; discriminate.
Qed.

(** [f] never answers "the node goes" for a node that is not there *)
Definition keeps_missing (f : option tree -> option (option tree)) : Prop := f None <> Some None.

(** when the walk with creation fails *)
Lemma talter_mk_none f p : keeps_missing f -> forall o,
  talter true f p o = None <-> before_file o p \/ f (og o p) = None.
Proof.
  intros Hf. induction p as [|n p IH]; intros o.
  - simpl. rewrite og_nil. split; [auto|]. intros [(a & b & d & Hp & Hb & _)|H]; [|exact H].
    symmetry in Hp. apply app_eq_nil in Hp as [_ ->]. congruence.
  - cbn [talter]. destruct o as [[d|cs]|].
    + split; [intros _|reflexivity]. left. exists [], (n :: p), d. repeat split; discriminate.
    + rewrite before_file_cons_dir, og_cons_dir, <- IH.
      destruct (talter true f p (tfind n cs)) as [[c'|]|]; split; congruence.
    + change (og None (n :: p)) with (og None p). split.
      * intros H. right. destruct (talter true f p None) as [[c'|]|] eqn:E; try discriminate.
        -- exfalso. pose proof (talter_missing_gone _ _ _ E). subst p. simpl in E. exact (Hf E).
        -- apply IH in E as [E|E]; [destruct (before_file_none _ E)|exact E].
      * intros [H|H]; [destruct (before_file_none _ H)|].
        assert (E : talter true f p None = None) by (apply IH; right; exact H).
        rewrite E. reflexivity.
Qed.

(** when the walk without creation fails (for an [f] that refuses a missing node) *)
Lemma talter_nomk_none f p : f None = None -> forall o,
  talter false f p o = None <-> f (og o p) = None.
Proof.
  intros Hf. induction p as [|n p IH]; intros o.
  - simpl. rewrite og_nil. tauto.
  - cbn [talter]. destruct o as [[d|cs]|].
    + simpl. rewrite Hf. tauto.
    + rewrite og_cons_dir, <- IH. destruct (talter false f p (tfind n cs)) as [[c'|]|]; split; congruence.
    + simpl. rewrite Hf. tauto.
Qed.

Lemma tl_cons_dir cs n q : tl (Some (TD cs)) (n :: q) = tl (tfind n cs) q.
Proof. unfold tl. rewrite og_cons_dir. reflexivity. Qed.

Lemma tl_none q : tl None q = None.
Proof. reflexivity. Qed.

(** what every path answers after a successful walk *)
Lemma talter_get mk (f : option tree -> option (option tree)) p : forall o res, talter mk f p o = Some res ->
  exists r, f (og o p) = Some r /\
  forall q, tl res q =
    if is_prefix p q then tl r (skipn (length p) q)
    else if is_prefix q p then Some D else tl o q.
Proof.
  induction p as [|n p IH]; intros o res H.
  - simpl in H. exists res. rewrite og_nil. split; [exact H|]. intros q. reflexivity.
  - cbn [talter] in H. destruct o as [[d|cs]|]; [discriminate| |].
    + destruct (talter mk f p (tfind n cs)) as [r1|] eqn:E1; [|discriminate].
      destruct (IH _ _ E1) as (r & Hr & Hq). exists r. rewrite og_cons_dir. split; [exact Hr|].
      assert (Hres : exists cs', res = Some (TD cs') /\
                forall m, tfind m cs' = if bytes_eqb n m then r1 else tfind m cs).
      { destruct r1 as [c'|]; inversion H; subst res; eexists; (split; [reflexivity|]); intros m;
        [apply tfind_tset|apply tfind_tdel]. }
      destruct Hres as (cs' & -> & Hfind). intros q. destruct q as [|m q].
      * reflexivity.
      * rewrite !tl_cons_dir, Hfind. cbn [is_prefix length skipn].
        destruct (bytes_eqb n m) eqn:Enm.
        -- apply bytes_eqb_spec in Enm. subst m. rewrite bytes_eqb_refl. cbn [andb]. apply Hq.
        -- rewrite (bytes_eqb_sym m n), Enm. reflexivity.
    + destruct mk; [|discriminate].
      destruct (talter true f p None) as [[c'|]|] eqn:E1; try discriminate.
      destruct (IH _ _ E1) as (r & Hr & Hq). exists r. split; [exact Hr|].
      inversion H; subst res. intros q. destruct q as [|m q].
      * reflexivity.
      * rewrite tl_cons_dir, tl_none. cbn [tfind is_prefix length skipn].
        rewrite (bytes_eqb_sym m n).
        destruct (bytes_eqb n m) eqn:Enm.
        -- apply bytes_eqb_spec in Enm. subst m. cbn [andb].
           rewrite (Hq q), tl_none. reflexivity.
        -- reflexivity.
Qed.

Lemma talter_dir_stays mk f n p cs res :
  talter mk f (n :: p) (Some (TD cs)) = Some res -> exists cs', res = Some (TD cs').
Proof.
  cbn [talter]. destruct (talter mk f p (tfind n cs)) as [[c'|]|]; [| |discriminate];
  intros H; inversion H; eexists; reflexivity.
Qed.

Lemma tget_prefix_dir T a x c : tget T (a ++ x) = Some c -> x <> [] -> exists cs, tget T a = Some (TD cs).
Proof.
  rewrite tget_app. destruct (tget T a) as [[d|cs]|]; [|eauto|discriminate].
  destruct x; [congruence|discriminate].
Qed.

(** * Well-formed nested trees: child names are proper names and pairwise distinct *)
Inductive WFT : tree -> Prop :=
| WFT_F d : WFT (TF d)
| WFT_D cs : NoDup (map fst cs) -> (forall n c, In (n, c) cs -> good_name n = true /\ WFT c) -> WFT (TD cs).

Definition WFo (o : option tree) : Prop := match o with Some T => WFT T | None => True end.

Lemma tset_In n c cs m c' : In (m, c') (tset n c cs) -> (m = n /\ c' = c) \/ In (m, c') cs.
Proof.
  induction cs as [|[k c0] cs IH]; simpl.
  - intros [H|[]]. inversion H; auto.
  - destruct (bytes_eqb n k) eqn:E.
    + apply bytes_eqb_spec in E. subst k. intros [H|H]; [inversion H; auto|auto].
    + intros [H|H]; [auto|]. destruct (IH H); auto.
Qed.

Lemma tset_names n c cs :
  map fst (tset n c cs) = if existsb (bytes_eqb n) (map fst cs) then map fst cs else map fst cs ++ [n].
Proof.
  induction cs as [|[k c0] cs IH]; simpl; [reflexivity|].
  destruct (bytes_eqb n k) eqn:E; simpl; [reflexivity|]. rewrite IH.
  destruct (existsb (bytes_eqb n) (map fst cs)); reflexivity.
Qed.

Lemma WFT_tset n c cs : WFT (TD cs) -> good_name n = true -> WFT c -> WFT (TD (tset n c cs)).
Proof.
  intros H Hn Hc. inversion H as [|? Hnd Hall]; subst. constructor.
  - rewrite tset_names. destruct (existsb (bytes_eqb n) (map fst cs)) eqn:E; [exact Hnd|].
    apply NoDup_app_snoc; [exact Hnd|]. intros Hin.
    assert (existsb (bytes_eqb n) (map fst cs) = true)
      by (apply existsb_exists; exists n; split; [exact Hin|apply bytes_eqb_refl]).
    congruence.
  - intros m c' Hin. apply tset_In in Hin as [[-> ->]|Hin]; [auto|apply Hall; exact Hin].
Qed.

Lemma WFT_tdel n cs : WFT (TD cs) -> WFT (TD (tdel n cs)).
Proof.
  intros H. inversion H as [|? Hnd Hall]; subst. constructor.
  - unfold tdel. apply NoDup_map_filter. exact Hnd.
  - intros m c' Hin. unfold tdel in Hin. apply filter_In in Hin as [Hin _]. apply Hall. exact Hin.
Qed.

Lemma WFT_tfind n cs c : WFT (TD cs) -> tfind n cs = Some c -> good_name n = true /\ WFT c.
Proof. intros H Hf. inversion H as [|? Hnd Hall]; subst. apply Hall. apply tfind_In. exact Hf. Qed.

Lemma WFT_single n c : good_name n = true -> WFT c -> WFT (TD [(n, c)]).
Proof.
  intros Hn Hc. constructor.
  - simpl. constructor; [intros []|constructor].
  - intros m c' [H|[]]. inversion H; subst. auto.
Qed.

Lemma talter_WFT mk f p : (forall x r, WFo x -> f x = Some r -> WFo r) ->
  forall o res, good_path p = true -> WFo o -> talter mk f p o = Some res -> WFo res.
Proof.
  intros Hf. induction p as [|n p IH]; intros o res Hg Ho H.
  - simpl in H. eapply Hf; eauto.
  - simpl in Hg. apply andb_true_iff in Hg as [Hn Hg]. cbn [talter] in H.
    destruct o as [[d|cs]|]; [discriminate| |].
    + destruct (talter mk f p (tfind n cs)) as [r1|] eqn:E1; [|discriminate].
      assert (Hc : WFo (tfind n cs)).
      { destruct (tfind n cs) as [c|] eqn:Ef; [|exact I]. apply (WFT_tfind n cs c Ho Ef). }
      pose proof (IH _ _ Hg Hc E1) as Hr1.
      destruct r1 as [c'|]; inversion H; subst res; simpl.
      * apply WFT_tset; assumption.
      * apply WFT_tdel; assumption.
    + destruct mk; [|discriminate].
      destruct (talter true f p None) as [[c'|]|] eqn:E1; try discriminate.
      inversion H; subst res. simpl. apply WFT_single; [exact Hn|].
      apply (IH None (Some c') Hg I E1).
Qed.

Lemma tget_WFT T p c : WFT T -> tget T p = Some c -> WFT c /\ good_path p = true.
Proof.
  revert T; induction p as [|n p IH]; intros T HT H; simpl in H.
  - inversion H; subst. auto.
  - destruct T as [d|cs]; [discriminate|]. destruct (tfind n cs) as [c0|] eqn:Ef; [|discriminate].
    destruct (WFT_tfind n cs c0 HT Ef) as [Hn Hc0]. destruct (IH c0 Hc0 H) as [A B].
    split; [exact A|]. simpl. rewrite Hn, B. reflexivity.
Qed.

(** * Part 2: every tree operation, completely *)

(** a file lies on the way: some non-root prefix of [p], [p] included, is a file *)
Definition way_file (L : path -> option entry) (p : path) : bool :=
  existsb (fun q => match L q with Some (F _) => true | _ => false end) (prefixes p).

Lemma file_on_way_way t p : file_on_way t p = way_file (lookup t) p.
Proof. reflexivity. Qed.

Lemma way_file_spec L p : way_file L p = true <->
  exists a b d, p = a ++ b /\ a <> [] /\ L a = Some (F d).
Proof.
  unfold way_file, prefixes. rewrite existsb_exists. split.
  - intros (q & Hin & Hf). apply prefixes_from_spec in Hin as (a & b & Hp & Ha & Hq).
    simpl in Hq. subst q. destruct (L a) as [[d|]|] eqn:E; try discriminate. exists a, b, d. auto.
  - intros (a & b & d & Hp & Ha & Hl). exists a. split.
    + apply prefixes_from_spec. exists a, b. auto.
    + rewrite Hl. reflexivity.
Qed.

Lemma way_file_ext L1 L2 p : (forall q, L1 q = L2 q) -> way_file L1 p = way_file L2 p.
Proof. intros H. unfold way_file. apply existsb_ext_in. intros q _. rewrite H. reflexivity. Qed.

Lemma tlookup_file T a d : tlookup T a = Some (F d) <-> tget T a = Some (TF d).
Proof.
  unfold tlookup. destruct (tget T a) as [[d'|cs]|]; simpl; split; intros H; inversion H; reflexivity.
Qed.

Lemma tlookup_dir T a : tlookup T a = Some D <-> exists cs, tget T a = Some (TD cs).
Proof.
  unfold tlookup. destruct (tget T a) as [[d'|cs]|]; simpl; split; intros H;
  try discriminate; try (destruct H; discriminate); eauto.
Qed.

Lemma tlookup_none T a : tlookup T a = None <-> tget T a = None.
Proof. unfold tlookup. destruct (tget T a); split; intros H; congruence. Qed.

Lemma tlookup_app T a x : tlookup T (a ++ x) = tl (tget T a) x.
Proof. unfold tlookup, tl. rewrite tget_app. destruct (tget T a); reflexivity. Qed.

Lemma tl_file_below d x : x <> [] -> tl (Some (TF d)) x = None.
Proof. destruct x; [congruence|reflexivity]. Qed.

Lemma tl_empty_dir_below x : x <> [] -> tl (Some (TD [])) x = None.
Proof. destruct x; [congruence|reflexivity]. Qed.

Lemma prefix_split p q : is_prefix p q = true -> q = p ++ skipn (length p) q.
Proof. intros H. apply is_prefix_spec in H as [s ->]. rewrite skipn_app_exact. reflexivity. Qed.

Lemma is_prefix_antisym p q : is_prefix p q = true -> is_prefix q p = true -> p = q.
Proof.
  intros H1 H2. apply is_prefix_spec in H1 as [s ->]. apply is_prefix_length in H2.
  rewrite app_length in H2. destruct s; [rewrite app_nil_r; reflexivity|simpl in H2; lia].
Qed.

Lemma is_prefix_app_r p x : is_prefix (p ++ x) p = match x with [] => true | _ => false end.
Proof.
  destruct x as [|n x]; [rewrite app_nil_r; apply is_prefix_refl|].
  destruct (is_prefix (p ++ n :: x) p) eqn:E; [|reflexivity].
  apply is_prefix_length in E. rewrite app_length in E. simpl in E. lia.
Qed.

(** in a tree whose root is a directory: a file strictly before [p] = a file on the way to the
    parent of [p] *)
Lemma before_file_way cs0 p : p <> [] ->
  (before_file (Some (TD cs0)) p <-> way_file (tlookup (TD cs0)) (removelast p) = true).
Proof.
  intros Hne. rewrite way_file_spec. split.
  - intros (a & b & d & Hp & Hb & Ha). destruct a as [|n a]; [simpl in Ha; discriminate|].
    destruct b as [|x b] using rev_ind; [congruence|]. clear IHb.
    exists (n :: a), b, d. split; [|split; [discriminate|]].
    + subst p. rewrite app_assoc, removelast_last. reflexivity.
    + apply tlookup_file. exact Ha.
  - intros (a & b & d & Hp & Ha & Hl). exists a, (b ++ [last p []]), d. split; [|split].
    + rewrite app_assoc, <- Hp. apply app_removelast_last. exact Hne.
    + apply snoc_not_nil.
    + apply tlookup_file in Hl. exact Hl.
Qed.

Lemma way_file_false_prefix L p a : way_file L p = false -> is_prefix a p = true -> a <> [] ->
  forall d, L a <> Some (F d).
Proof.
  intros Hw Ha Hne d Hl. apply is_prefix_spec in Ha as [b ->].
  assert (way_file L (a ++ b) = true) by (apply way_file_spec; exists a, b, d; auto). congruence.
Qed.

Definition is_td (T : tree) : Prop := exists cs, T = TD cs.

Lemma talter_root_some mk f p T T' : talter_root mk f p T = Some T' -> talter mk f p (Some T) = Some (Some T').
Proof. unfold talter_root. destruct (talter mk f p (Some T)) as [[x|]|]; intros H; inversion H; reflexivity. Qed.

Lemma keeps_mkdir : keeps_missing f_mkdir.  Proof. discriminate. Qed.
Lemma keeps_write d : keeps_missing (f_write d).  Proof. discriminate. Qed.
Lemma keeps_insert S : keeps_missing (f_insert S).  Proof. discriminate. Qed.

(** mkdir *)
Theorem tmkdir_total cs0 p :
  match tmkdir (TD cs0) p with
  | None => way_file (tlookup (TD cs0)) p = true
  | Some T' => way_file (tlookup (TD cs0)) p = false /\ is_td T' /\
               forall q, tlookup T' q = if is_prefix q p then Some D else tlookup (TD cs0) q
  end.
Proof.
  set (T := TD cs0). unfold tmkdir.
  assert (Hnone : talter true f_mkdir p (Some T) = None <-> way_file (tlookup T) p = true).
  { rewrite (talter_mk_none f_mkdir p keeps_mkdir). rewrite way_file_spec. split.
    - intros [(a & b & d & Hp & Hb & Ha)|H].
      + destruct a as [|n a]; [simpl in Ha; discriminate|].
        exists (n :: a), b, d. split; [exact Hp|]. split; [discriminate|]. apply tlookup_file. exact Ha.
      + simpl in H. destruct (tget T p) as [[d|cs]|] eqn:E; try discriminate.
        exists p, [], d. rewrite app_nil_r. split; [reflexivity|]. split.
        * intros ->. simpl in E. discriminate.
        * apply tlookup_file. exact E.
    - intros (a & b & d & Hp & Ha & Hl). apply tlookup_file in Hl.
      destruct b as [|x b].
      + right. rewrite app_nil_r in Hp. subst a. simpl. rewrite Hl. reflexivity.
      + left. exists a, (x :: b), d. split; [exact Hp|]. split; [discriminate|exact Hl]. }
  destruct (talter_root true f_mkdir p T) as [T'|] eqn:E.
  - apply talter_root_some in E. split; [|split].
    + apply not_true_is_false. intros Ew. apply Hnone in Ew. congruence.
    + destruct p as [|n p].
      * simpl in E. inversion E. exists cs0. reflexivity.
      * destruct (talter_dir_stays _ _ _ _ _ _ E) as [cs' H]. inversion H. exists cs'. reflexivity.
    + destruct (talter_get _ _ _ _ _ E) as (r & Hr & Hq). intros q.
      change (tlookup T' q) with (tl (Some T') q). rewrite Hq. simpl in Hr.
      destruct (is_prefix p q) eqn:Epq.
      * pose proof (prefix_split p q Epq) as Hs. set (x := skipn (length p) q) in *. clearbody x. subst q.
        rewrite is_prefix_app_r, tlookup_app.
        destruct (tget T p) as [[d|cs]|]; try discriminate; inversion Hr; subst r.
        -- destruct x; reflexivity.
        -- destruct x; [reflexivity|]. rewrite tl_empty_dir_below by discriminate. reflexivity.
      * destruct (is_prefix q p); reflexivity.
  - assert (Ht : talter true f_mkdir p (Some T) = None).
    { unfold talter_root in E. destruct (talter true f_mkdir p (Some T)) as [[x|]|] eqn:E1; [discriminate| |reflexivity].
      exfalso. destruct p as [|n p].
      - simpl in E1. discriminate.
      - destruct (talter_dir_stays _ _ _ _ _ _ E1) as [cs' H]. discriminate. }
    apply Hnone. exact Ht.
Qed.

Lemma talter_root_none mk f p cs : p <> [] ->
  talter_root mk f p (TD cs) = None -> talter mk f p (Some (TD cs)) = None.
Proof.
  intros Hne. destruct p as [|n p]; [congruence|]. unfold talter_root.
  destruct (talter mk f (n :: p) (Some (TD cs))) as [[x|]|] eqn:E; [discriminate| |reflexivity].
  destruct (talter_dir_stays _ _ _ _ _ _ E) as [cs' H]. discriminate.
Qed.

Lemma talter_root_td mk f p cs T' : p <> [] -> talter_root mk f p (TD cs) = Some T' -> is_td T'.
Proof.
  intros Hne H. apply talter_root_some in H. destruct p as [|n p]; [congruence|].
  destruct (talter_dir_stays _ _ _ _ _ _ H) as [cs' E]. inversion E. exists cs'. reflexivity.
Qed.

(** write *)
Definition twrite_pre (T : tree) (p : path) : bool :=
  negb (way_file (tlookup T) (removelast p)) &&
  negb (match tlookup T p with Some D => true | _ => false end).

Theorem twrite_total cs0 p data : p <> [] ->
  match twrite (TD cs0) p data with
  | None => twrite_pre (TD cs0) p = false
  | Some T' => twrite_pre (TD cs0) p = true /\ is_td T' /\
      forall q, tlookup T' q =
        if path_eqb q p then Some (F data) else if is_prefix q p then Some D else tlookup (TD cs0) q
  end.
Proof.
  intros Hne. set (T := TD cs0). unfold twrite.
  assert (Hnone : talter true (f_write data) p (Some T) = None <-> twrite_pre T p = false).
  { rewrite (talter_mk_none _ p (keeps_write data)). unfold T. rewrite (before_file_way cs0 p Hne).
    fold T. unfold twrite_pre. simpl og.
    destruct (way_file (tlookup T) (removelast p)); cbn [negb andb].
    - split; auto.
    - unfold tlookup. destruct (tget T p) as [[d|cs]|]; simpl; split; intros H; try discriminate; auto;
      destruct H; discriminate. }
  destruct (talter_root true (f_write data) p T) as [T'|] eqn:E.
  - split; [|split].
    + apply talter_root_some in E. apply not_false_is_true. intros Ew. apply Hnone in Ew. congruence.
    + eapply talter_root_td; eauto.
    + apply talter_root_some in E. destruct (talter_get _ _ _ _ _ E) as (r & Hr & Hq). intros q.
      change (tlookup T' q) with (tl (Some T') q). rewrite Hq. simpl in Hr.
      destruct (is_prefix p q) eqn:Epq.
      * pose proof (prefix_split p q Epq) as Hs. set (x := skipn (length p) q) in *. clearbody x. subst q.
        assert (Hr' : r = Some (TF data)) by (destruct (tget T p) as [[d|cs]|]; try discriminate; inversion Hr; reflexivity).
        subst r. destruct x as [|n x].
        -- rewrite app_nil_r, path_eqb_refl. reflexivity.
        -- rewrite tl_file_below by discriminate.
           replace (path_eqb (p ++ n :: x) p) with false.
           2:{ symmetry. apply path_eqb_false. intros E1. apply (f_equal (@length name)) in E1.
               rewrite app_length in E1. simpl in E1. lia. }
           rewrite is_prefix_app_r, tlookup_app.
           destruct (tget T p) as [[d|cs]|]; try discriminate; reflexivity.
      * replace (path_eqb q p) with false; [reflexivity|].
        symmetry. apply path_eqb_false. intros ->. rewrite is_prefix_refl in Epq. discriminate.
  - apply Hnone. apply talter_root_none; assumption.
Qed.

(** remove and recursive remove *)
Definition tremove_pre (T : tree) (p : path) : bool :=
  match tget T p with Some (TF _) => true | Some (TD []) => true | _ => false end.

Lemma talter_delete_get f p T T' :
  (forall o r, f o = Some r -> r = None /\ o <> None) ->
  talter false f p (Some T) = Some (Some T') ->
  tget T p <> None /\ forall q, tlookup T' q = if is_prefix p q then None else tlookup T q.
Proof.
  intros Hf E. destruct (talter_get _ _ _ _ _ E) as (r & Hr & Hq). simpl in Hr.
  destruct (Hf _ _ Hr) as [-> Hex]. split; [exact Hex|]. intros q.
  change (tlookup T' q) with (tl (Some T') q). rewrite Hq.
  destruct (is_prefix p q) eqn:Epq; [reflexivity|].
  destruct (is_prefix q p) eqn:Eqp; [|reflexivity].
  apply is_prefix_spec in Eqp as [x ->]. destruct (tget T (q ++ x)) as [c|] eqn:Ec; [|congruence].
  assert (Hx : x <> []) by (intros ->; rewrite app_nil_r, is_prefix_refl in Epq; discriminate).
  destruct (tget_prefix_dir _ _ _ _ Ec Hx) as [cs Hcs]. change (tl (Some T) q) with (tlookup T q).
  symmetry. apply tlookup_dir. eauto.
Qed.

Theorem tremove_total cs0 p : p <> [] ->
  match tremove (TD cs0) p with
  | None => tremove_pre (TD cs0) p = false
  | Some T' => tremove_pre (TD cs0) p = true /\ is_td T' /\
      forall q, tlookup T' q = if is_prefix p q then None else tlookup (TD cs0) q
  end.
Proof.
  intros Hne. set (T := TD cs0). unfold tremove.
  assert (Hnone : talter false f_remove p (Some T) = None <-> tremove_pre T p = false).
  { rewrite (talter_nomk_none f_remove p eq_refl). unfold tremove_pre. simpl og.
    destruct (tget T p) as [[d|[|? ?]]|]; simpl; split; intros H; try discriminate; auto. }
  destruct (talter_root false f_remove p T) as [T'|] eqn:E.
  - split; [|split].
    + apply talter_root_some in E. apply not_false_is_true. intros Ew. apply Hnone in Ew. congruence.
    + eapply talter_root_td; eauto.
    + apply talter_root_some in E. apply (talter_delete_get f_remove p T T'); [|exact E].
      intros o r H. destruct o as [[d|[|? ?]]|]; simpl in H; inversion H; split; [reflexivity|discriminate|reflexivity|discriminate].
  - apply Hnone. apply talter_root_none; assumption.
Qed.

Definition texists (T : tree) (p : path) : bool := match tget T p with Some _ => true | None => false end.

Theorem tremove_all_total cs0 p : p <> [] ->
  match tremove_all (TD cs0) p with
  | None => texists (TD cs0) p = false
  | Some T' => texists (TD cs0) p = true /\ is_td T' /\
      forall q, tlookup T' q = if is_prefix p q then None else tlookup (TD cs0) q
  end.
Proof.
  intros Hne. set (T := TD cs0). unfold tremove_all.
  assert (Hnone : talter false f_remove_all p (Some T) = None <-> texists T p = false).
  { rewrite (talter_nomk_none f_remove_all p eq_refl). unfold texists. simpl og.
    destruct (tget T p); simpl; split; intros H; try discriminate; auto. }
  destruct (talter_root false f_remove_all p T) as [T'|] eqn:E.
  - split; [|split].
    + apply talter_root_some in E. apply not_false_is_true. intros Ew. apply Hnone in Ew. congruence.
    + eapply talter_root_td; eauto.
    + apply talter_root_some in E. apply (talter_delete_get f_remove_all p T T'); [|exact E].
      intros o r H. destruct o; simpl in H; inversion H; split; [reflexivity|discriminate].
  - apply Hnone. apply talter_root_none; assumption.
Qed.

(** copy *)
Definition tcopy_pre (k : copy_kind) (T : tree) (src dst : path) : bool :=
  match tlookup T src with Some e => kind_ok k e | None => false end &&
  negb (way_file (tlookup T) (removelast dst)) && negb (texists T dst).

Definition twith_parents (T : tree) (dst q : path) : option entry :=
  if is_prefix q (removelast dst) then Some D else tlookup T q.

Lemma texists_lookup T p : texists T p = match tlookup T p with Some _ => true | None => false end.
Proof. unfold texists, tlookup. destruct (tget T p); reflexivity. Qed.

Theorem tcopy_total k cs0 src dst : dst <> [] ->
  match tcopy k (TD cs0) src dst with
  | None => tcopy_pre k (TD cs0) src dst = false
  | Some T' => tcopy_pre k (TD cs0) src dst = true /\ is_td T' /\
      (forall x, tlookup T' (dst ++ x) =
                 match x with [] => tlookup (TD cs0) src | _ => twith_parents (TD cs0) dst (src ++ x) end) /\
      (forall q, is_prefix dst q = false -> tlookup T' q = twith_parents (TD cs0) dst q)
  end.
Proof.
  intros Hne. set (T := TD cs0). unfold tcopy, tcopy_pre.
  assert (Hsl : tlookup T src = match tget T src with Some c => Some (ent c) | None => None end) by reflexivity.
  rewrite Hsl. destruct (tget T src) as [e|] eqn:Es; [|reflexivity].
  assert (Hk : match k, e with
               | CAny, _ => true | CDirOnly, TD _ => true | CFileOnly, TF _ => true | _, _ => false
               end = kind_ok k (ent e)) by (destruct k, e; reflexivity).
  rewrite Hk. destruct (kind_ok k (ent e)) eqn:Ek; [|reflexivity]. cbn [negb andb].
  pose proof (tmkdir_total cs0 (removelast dst)) as Hm. fold T in Hm.
  destruct (tmkdir T (removelast dst)) as [T1|]; [|rewrite Hm; reflexivity].
  destruct Hm as (Hw & [cs1 ->] & L1). rewrite Hw. cbn [negb andb].
  (* the source is still there *)
  assert (Hsrc1 : tlookup (TD cs1) src = tlookup T src).
  { rewrite L1. destruct (is_prefix src (removelast dst)) eqn:Ep; [|reflexivity].
    rewrite Hsl. destruct src as [|n src']; [simpl in Es; inversion Es; reflexivity|].
    destruct e as [d|cs]; [|reflexivity]. exfalso.
    apply (way_file_false_prefix _ _ _ Hw Ep ltac:(discriminate) d). rewrite Hsl. reflexivity. }
  destruct (tget (TD cs1) src) as [sub|] eqn:ES.
  2:{ exfalso. apply tlookup_none in ES. rewrite Hsrc1, Hsl in ES. discriminate. }
  (* no file on the way in the tree with the parents *)
  assert (Hw1 : ~ before_file (Some (TD cs1)) dst).
  { rewrite (before_file_way cs1 dst Hne), way_file_spec. intros (a & b & d & Hp & Ha & Hl).
    rewrite L1 in Hl. rewrite Hp, is_prefix_app in Hl. discriminate. }
  assert (Hd1 : tlookup (TD cs1) dst = tlookup T dst)
    by (rewrite L1, not_prefix_of_parent by exact Hne; reflexivity).
  assert (Hnone : talter true (f_insert sub) dst (Some (TD cs1)) = None <-> texists T dst = true).
  { rewrite (talter_mk_none _ dst (keeps_insert sub)). rewrite texists_lookup, <- Hd1. simpl og.
    unfold tlookup. split.
    - intros [H|H]; [contradiction|]. destruct (tget (TD cs1) dst); [reflexivity|discriminate].
    - intros H. right. destruct (tget (TD cs1) dst); [reflexivity|discriminate]. }
  destruct (talter_root true (f_insert sub) dst (TD cs1)) as [T'|] eqn:E.
  - split; [|split; [|split]].
    + apply talter_root_some in E. destruct (texists T dst) eqn:Ex; [|reflexivity].
      exfalso. assert (H : talter true (f_insert sub) dst (Some (TD cs1)) = None) by (apply Hnone; reflexivity).
      congruence.
    + eapply talter_root_td; eauto.
    + apply talter_root_some in E. destruct (talter_get _ _ _ _ _ E) as (r & Hr & Hq). intros x.
      assert (Hr' : r = Some sub).
      { simpl in Hr. destruct (tget (TD cs1) dst); simpl in Hr; inversion Hr; reflexivity. }
      subst r. change (tlookup T' (dst ++ x)) with (tl (Some T') (dst ++ x)).
      rewrite Hq, is_prefix_app, skipn_app_exact.
      assert (Hx : tl (Some sub) x = tlookup (TD cs1) (src ++ x)) by (rewrite tlookup_app, ES; reflexivity).
      rewrite Hx. destruct x as [|n x].
      * rewrite app_nil_r. congruence.
      * unfold twith_parents. apply L1.
    + apply talter_root_some in E. destruct (talter_get _ _ _ _ _ E) as (r & Hr & Hq). intros q Hdq.
      change (tlookup T' q) with (tl (Some T') q). rewrite Hq, Hdq. unfold twith_parents.
      destruct (is_prefix q dst) eqn:Eqd.
      * rewrite proper_prefix_parent; [reflexivity|exact Eqd|].
        intros ->. rewrite is_prefix_refl in Hdq. discriminate.
      * change (tl (Some (TD cs1)) q) with (tlookup (TD cs1) q). apply L1.
  - apply talter_root_none in E; [|exact Hne]. apply Hnone in E. rewrite E. reflexivity.
Qed.

(** well-formedness is kept by every tree operation *)
Lemma talter_root_WFT mk f p T T' : (forall x r, WFo x -> f x = Some r -> WFo r) ->
  good_path p = true -> WFT T -> talter_root mk f p T = Some T' -> WFT T'.
Proof.
  intros Hf Hg HT H. apply talter_root_some in H.
  exact (talter_WFT mk f p Hf (Some T) (Some T') Hg HT H).
Qed.

Lemma WFT_empty : WFT (TD []).
Proof. constructor; [constructor|intros n c []]. Qed.

Lemma tmkdir_WFT T p T' : good_path p = true -> WFT T -> tmkdir T p = Some T' -> WFT T'.
Proof.
  apply talter_root_WFT. intros x r Hx H. destruct x as [[d|cs]|]; simpl in H; inversion H; subst; simpl; auto.
  apply WFT_empty.
Qed.

Lemma twrite_WFT T p d T' : good_path p = true -> WFT T -> twrite T p d = Some T' -> WFT T'.
Proof.
  apply talter_root_WFT. intros x r Hx H. destruct x as [[d0|cs]|]; simpl in H; inversion H; subst; simpl; constructor.
Qed.

Lemma tremove_WFT T p T' : good_path p = true -> WFT T -> tremove T p = Some T' -> WFT T'.
Proof.
  apply talter_root_WFT. intros x r Hx H. destruct x as [[d0|[|? ?]]|]; simpl in H; inversion H; subst; exact I.
Qed.

Lemma tremove_all_WFT T p T' : good_path p = true -> WFT T -> tremove_all T p = Some T' -> WFT T'.
Proof.
  apply talter_root_WFT. intros x r Hx H. destruct x; simpl in H; inversion H; subst; exact I.
Qed.

Lemma tcopy_WFT k T src dst T' : good_path dst = true -> WFT T -> tcopy k T src dst = Some T' -> WFT T'.
Proof.
  intros Hg HT H. unfold tcopy in H. destruct (tget T src) as [e|]; [|discriminate].
  match type of H with (if ?c then _ else _) = _ => destruct c; [discriminate|] end.
  destruct (tmkdir T (removelast dst)) as [T1|] eqn:Em; [|discriminate].
  assert (H1 : WFT T1) by (eapply tmkdir_WFT; [apply good_path_parent; exact Hg|exact HT|exact Em]).
  destruct (tget T1 src) as [sub|] eqn:Es; [|discriminate].
  destruct (tget_WFT _ _ _ H1 Es) as [Hsub _].
  revert H. apply talter_root_WFT; [|exact Hg|exact H1].
  intros x r Hx H. destruct x; simpl in H; inversion H; subst. exact Hsub.
Qed.

(** * Part 3: the list model and the nested tree are the same filespace *)

(** they answer alike on every path *)
Definition same_tree (t : fs) (T : tree) : Prop := forall q, lookup t q = tlookup T q.

Lemma same_tree_empty : same_tree [] (TD []).
Proof. intros [|n q]; reflexivity. Qed.

Lemma same_tree_root t T : same_tree t T -> is_td T.
Proof. intros H. specialize (H []). destruct T as [d|cs]; [discriminate|]. exists cs. reflexivity. Qed.

Lemma same_tree_cases t T p : same_tree t T ->
  match tget T p with
  | Some (TF d) => lookup t p = Some (F d)
  | Some (TD _) => lookup t p = Some D
  | None => lookup t p = None
  end.
Proof. intros H. rewrite (H p). unfold tlookup. destruct (tget T p) as [[d|cs]|]; reflexivity. Qed.

Lemma same_way t T p : same_tree t T -> file_on_way t p = way_file (tlookup T) p.
Proof. intros H. rewrite file_on_way_way. apply way_file_ext. exact H. Qed.

(** outcomes agree; listings up to order *)
Definition out_equiv (a b : out) : Prop :=
  match a, b with
  | RList l1, RList l2 => Permutation l1 l2
  | _, _ => a = b
  end.

Definition res_sim (r1 : option fs) (r2 : option tree) : Prop :=
  match r1, r2 with
  | Some t', Some T' => same_tree t' T' /\ WFT T'
  | None, None => True
  | _, _ => False
  end.

Lemma upd_sim t T r1 r2 : same_tree t T -> WFT T -> res_sim r1 r2 ->
  out_equiv (snd (upd t r1)) (snd (tupd T r2)) /\
  same_tree (fst (upd t r1)) (fst (tupd T r2)) /\ WFT (fst (tupd T r2)).
Proof. intros HR HT H. destruct r1, r2; simpl in *; try contradiction; tauto. Qed.

Lemma sim_mkdir t T p : WF t -> WFT T -> same_tree t T -> good_path p = true ->
  res_sim (mkdir_all t p) (tmkdir T p).
Proof.
  intros HWF HT HR Hg. destruct (same_tree_root _ _ HR) as [cs0 ->].
  pose proof (mkdir_all_total t p HWF Hg) as H1. pose proof (tmkdir_total cs0 p) as H2.
  pose proof (tmkdir_WFT (TD cs0) p) as HW.
  rewrite (same_way t _ p HR) in H1.
  destruct (mkdir_all t p) as [t'|], (tmkdir (TD cs0) p) as [T'|]; simpl.
  - destruct H1 as (_ & _ & L1). destruct H2 as (_ & _ & L2). split; [|eapply HW; eauto].
    intros q. rewrite L1, L2, (HR q). reflexivity.
  - destruct H1 as [H1 _]. congruence.
  - destruct H2 as [H2 _]. congruence.
  - exact I.
Qed.

Lemma sim_write t T p d : WF t -> WFT T -> same_tree t T -> good_path p = true -> p <> [] ->
  res_sim (write_at t p d) (twrite T p d).
Proof.
  intros HWF HT HR Hg Hne. destruct (same_tree_root _ _ HR) as [cs0 ->].
  pose proof (write_at_total t p d HWF Hg Hne) as H1. pose proof (twrite_total cs0 p d Hne) as H2.
  pose proof (twrite_WFT (TD cs0) p d) as HW.
  assert (Hpre : write_pre t p = twrite_pre (TD cs0) p).
  { unfold write_pre, twrite_pre, is_dir_at. rewrite (same_way t _ _ HR), (HR p). reflexivity. }
  rewrite Hpre in H1.
  destruct (write_at t p d) as [t'|], (twrite (TD cs0) p d) as [T'|]; simpl.
  - destruct H1 as (_ & _ & L1). destruct H2 as (_ & _ & L2). split; [|eapply HW; eauto].
    intros q. rewrite L1, L2, (HR q). reflexivity.
  - destruct H1 as [H1 _]. congruence.
  - destruct H2 as [H2 _]. congruence.
  - exact I.
Qed.

Lemma has_children_tree t T p cs : WF t -> same_tree t T -> tget T p = Some (TD cs) ->
  has_children t p = match cs with [] => false | _ => true end.
Proof.
  intros HWF HR Hp. destruct cs as [|[n c] cs].
  - destruct (has_children t p) eqn:E; [|reflexivity]. exfalso.
    apply (has_children_lookup t p HWF) in E as (x & Hx & Hl). apply Hl.
    rewrite (HR (p ++ x)), tlookup_app, Hp. apply tl_empty_dir_below. exact Hx.
  - apply (has_children_lookup t p HWF). exists [n]. split; [discriminate|].
    rewrite (HR (p ++ [n])), tlookup_app, Hp. unfold tl. simpl. rewrite bytes_eqb_refl. discriminate.
Qed.

Lemma sim_remove t T p : WF t -> WFT T -> same_tree t T -> good_path p = true -> p <> [] ->
  res_sim (remove_at t p) (tremove T p).
Proof.
  intros HWF HT HR Hg Hne. destruct (same_tree_root _ _ HR) as [cs0 ->].
  pose proof (tremove_total cs0 p Hne) as H2. pose proof (tremove_WFT (TD cs0) p) as HW.
  rewrite (remove_at_total t p HWF Hne).
  assert (Hpre : remove_pre t p = tremove_pre (TD cs0) p).
  { unfold remove_pre, tremove_pre, is_file_at, is_dir_at.
    pose proof (same_tree_cases t _ p HR) as Hc.
    destruct (tget (TD cs0) p) as [[d|cs]|] eqn:Ep; rewrite Hc; simpl; try reflexivity.
    rewrite (has_children_tree t _ p cs HWF HR Ep). destruct cs; reflexivity. }
  rewrite Hpre. destruct (tremove (TD cs0) p) as [T'|]; simpl.
  - destruct H2 as (-> & _ & L2). split; [|eapply HW; eauto].
    intros q. rewrite lookup_delete by exact Hne. rewrite L2, (HR q). reflexivity.
  - rewrite H2. exact I.
Qed.

Lemma sim_remove_all t T p : WF t -> WFT T -> same_tree t T -> good_path p = true -> p <> [] ->
  res_sim (remove_all_at t p) (tremove_all T p).
Proof.
  intros HWF HT HR Hg Hne. destruct (same_tree_root _ _ HR) as [cs0 ->].
  pose proof (tremove_all_total cs0 p Hne) as H2. pose proof (tremove_all_WFT (TD cs0) p) as HW.
  rewrite (remove_all_at_total t p HWF Hne).
  assert (Hpre : exists_at t p = texists (TD cs0) p).
  { unfold exists_at. rewrite texists_lookup, (HR p). reflexivity. }
  rewrite Hpre. destruct (tremove_all (TD cs0) p) as [T'|]; simpl.
  - destruct H2 as (-> & _ & L2). split; [|eapply HW; eauto].
    intros q. rewrite lookup_delete by exact Hne. rewrite L2, (HR q). reflexivity.
  - rewrite H2. exact I.
Qed.

Lemma sim_copy k t T src dst : WF t -> WFT T -> same_tree t T -> good_path dst = true -> dst <> [] ->
  res_sim (copy_at k t src dst) (tcopy k T src dst).
Proof.
  intros HWF HT HR Hg Hne. destruct (same_tree_root _ _ HR) as [cs0 ->].
  pose proof (copy_at_total k t src dst HWF Hg Hne) as H1. pose proof (tcopy_total k cs0 src dst Hne) as H2.
  pose proof (tcopy_WFT k (TD cs0) src dst) as HW.
  assert (Hpre : copy_pre k t src dst = tcopy_pre k (TD cs0) src dst).
  { unfold copy_pre, tcopy_pre, exists_at. rewrite (same_way t _ _ HR), texists_lookup, (HR src), (HR dst). reflexivity. }
  assert (Hwp : forall q, with_parents t dst q = twith_parents (TD cs0) dst q).
  { intros q. unfold with_parents, twith_parents. rewrite (HR q). reflexivity. }
  rewrite Hpre in H1.
  destruct (copy_at k t src dst) as [t'|], (tcopy k (TD cs0) src dst) as [T'|]; simpl.
  - destruct H1 as (_ & _ & A1 & B1). destruct H2 as (_ & _ & A2 & B2). split; [|eapply HW; eauto].
    intros q. destruct (is_prefix dst q) eqn:Ed.
    + rewrite (prefix_split dst q Ed). rewrite A1, A2, (HR src), Hwp. reflexivity.
    + rewrite (B1 q Ed), (B2 q Ed). apply Hwp.
  - destruct H1 as [H1 _]. congruence.
  - destruct H2 as [H2 _]. congruence.
  - exact I.
Qed.

(** listings: the names of a listing are pairwise distinct, in both models, and the two
    listings of a directory have the same members *)
Lemma children_names_nodup t p : NoDup (map fst t) -> NoDup (map fst (children t p)).
Proof.
  induction t as [|[q e] t IH]; simpl; intros Hnd; [constructor|].
  inversion Hnd as [|? ? Hnotin Hnd']; subst.
  destruct (is_prefix p q && Nat.eqb (length q) (S (length p))) eqn:E; [|auto].
  simpl. constructor; [|auto]. intros Hin.
  apply in_map_iff in Hin as ([n d] & Hn & Hin). simpl in Hn. subst n.
  apply children_In in Hin as (q' & e' & Hq' & -> & _).
  apply andb_true_iff in E as [E1 E2]. apply is_prefix_spec in E1 as [s ->].
  apply Nat.eqb_eq in E2. rewrite app_length in E2.
  destruct s as [|x [|y s]]; simpl in E2; try lia. rewrite last_last in Hq'.
  apply Hnotin. apply in_map_iff. exists (p ++ [x], e'). auto.
Qed.

Lemma tlist_names cs : map fst (tlist cs) = map fst cs.
Proof. unfold tlist. rewrite map_map. reflexivity. Qed.

Lemma listing_perm t T p cs : WF t -> WFT T -> same_tree t T -> tget T p = Some (TD cs) ->
  Permutation (children t p) (tlist cs).
Proof.
  intros HWF HT HR Hp. destruct (tget_WFT _ _ _ HT Hp) as [Hcs _].
  inversion Hcs as [|? Hnd Hall]; subst.
  apply NoDup_Permutation.
  - apply (NoDup_map_inv fst). apply children_names_nodup. apply HWF.
  - apply (NoDup_map_inv fst). rewrite tlist_names. exact Hnd.
  - intros [n d]. rewrite (listing_agrees t p n d HWF). split.
    + intros (e & Hl & ->). rewrite (HR (p ++ [n])), tlookup_app, Hp in Hl. unfold tl in Hl. simpl in Hl.
      destruct (tfind n cs) as [c|] eqn:Ef; [|discriminate]. inversion Hl; subst e.
      apply tfind_In in Ef. unfold tlist. apply in_map_iff. exists (n, c). split; [|exact Ef].
      destruct c; reflexivity.
    + intros Hin. unfold tlist in Hin. apply in_map_iff in Hin as ([m c] & Heq & Hin).
      simpl in Heq. inversion Heq; subst m d. exists (ent c). split; [|destruct c; reflexivity].
      rewrite (HR (p ++ [n])), tlookup_app, Hp. unfold tl. simpl.
      rewrite (In_tfind n cs c Hnd Hin). reflexivity.
Qed.

(** One step through the view with canonical base [b], any of the 16 operations, any raw
    arguments: same outcome, and the two trees answer alike afterwards. *)
Theorem step_sim b t T o : WF t -> WFT T -> same_tree t T -> good_path b = true ->
  out_equiv (snd (view_tree_step b t o)) (snd (tree_step b T o)) /\
  same_tree (fst (view_tree_step b t o)) (fst (tree_step b T o)) /\
  WFT (fst (tree_step b T o)).
Proof.
  intros HWF HT HR Hb.
  assert (Hsame : forall x, out_equiv x x) by (intros []; simpl; auto).
  destruct o; cbv beta iota zeta delta [view_tree_step tree_step];
  repeat match goal with
  | |- context [match reduce ?s with _ => _ end] => destruct (reduce s) eqn:?
  | |- context [match reduce_node ?s with _ => _ end] => destruct (reduce_node s) eqn:?
  end; cbn [fst snd]; try (split; [apply Hsame|split; assumption]).
  all: repeat match goal with
  | H : reduce_node _ = Some _ |- _ => apply reduce_node_good in H; destruct H
  | H : reduce _ = Some _ |- _ => apply reduce_good in H
  end.
  all: try (apply upd_sim; [exact HR|exact HT|]).
  all: try match goal with
  | |- res_sim (copy_at _ _ _ (?bb ++ ?d)) _ =>
    apply sim_copy; auto; [apply good_path_app; auto|destruct bb; destruct d; try discriminate; congruence]
  | |- res_sim (mkdir_all _ _) _ => apply sim_mkdir; auto; apply good_path_app; auto
  | |- res_sim (write_at _ (?bb ++ ?d) _) _ =>
    apply sim_write; auto; [apply good_path_app; auto|destruct bb; destruct d; try discriminate; congruence]
  | |- res_sim (remove_at _ (?bb ++ ?d)) _ =>
    apply sim_remove; auto; [apply good_path_app; auto|destruct bb; destruct d; try discriminate; congruence]
  | |- res_sim (remove_all_at _ (?bb ++ ?d)) _ =>
    apply sim_remove_all; auto; [apply good_path_app; auto|destruct bb; destruct d; try discriminate; congruence]
  end.
  (* the queries *)
  all: unfold is_dir_at, is_file_at, exists_at;
       match goal with |- context [tget ?TT ?p] =>
         pose proof (same_tree_cases _ TT p HR) as Hc;
         destruct (tget TT p) as [[d0|cs]|] eqn:Ep; rewrite Hc; cbn [fst snd]
       end; try (split; [apply Hsame|split; assumption]).
  (* ReadDir of a directory *)
  split; [|split; assumption]. simpl. eapply listing_perm; eauto.
Qed.

(** * Whole histories *)
Lemma tchain_chain_path chain : forall acc, tchain acc chain = chain_path acc chain.
Proof. induction chain as [|s c IH]; intros acc; simpl; [reflexivity|]. destruct (reduce s); [apply IH|reflexivity]. Qed.

Theorem hist_step_sim t T vo : WF t -> WFT T -> same_tree t T ->
  out_equiv (snd (hist_step t vo)) (snd (thist_step T vo)) /\
  same_tree (fst (hist_step t vo)) (fst (thist_step T vo)) /\
  WFT (fst (thist_step T vo)).
Proof.
  intros HWF HT HR. destruct vo as [chain o]. rewrite hist_step_is_tree_step.
  unfold thist_step. cbn [fst snd]. change (tchain [] chain) with (chain_path [] chain).
  destruct (chain_path [] chain) as [b|] eqn:E.
  - apply step_sim; auto. apply (chain_path_good chain [] b eq_refl E).
  - simpl. auto.
Qed.

Lemma fhist_run h : forall t, snd (fhist t h) = run_hist t h.
Proof.
  induction h as [|vo h IH]; intros t; simpl; [reflexivity|].
  destruct (hist_step t vo) as [t' o] eqn:E. specialize (IH t').
  destruct (fhist t' h) as [os tf]. simpl in *. rewrite IH. reflexivity.
Qed.

Lemma fhist_outs_length h : forall t, length (fst (fhist t h)) = length h.
Proof.
  induction h as [|vo h IH]; intros t; simpl; [reflexivity|].
  destruct (hist_step t vo) as [t' o]. specialize (IH t'). destruct (fhist t' h). simpl in *. lia.
Qed.

Theorem hist_sim h : forall t T, WF t -> WFT T -> same_tree t T ->
  Forall2 out_equiv (fst (fhist t h)) (fst (thist T h)) /\
  same_tree (snd (fhist t h)) (snd (thist T h)) /\
  WFT (snd (thist T h)).
Proof.
  induction h as [|vo h IH]; intros t T HWF HT HR; simpl.
  - split; [constructor|split; assumption].
  - destruct (hist_step_sim t T vo HWF HT HR) as (Ho & HR' & HT').
    pose proof (hist_step_WF t vo HWF) as HWF'.
    destruct (hist_step t vo) as [t' o]. destruct (thist_step T vo) as [T' o']. simpl in *.
    destruct (IH t' T' HWF' HT' HR') as (A & B & C).
    destruct (fhist t' h) as [os tf]. destruct (thist T' h) as [os' Tf]. simpl in *.
    split; [constructor; assumption|split; assumption].
Qed.

(** From the empty filespace: every history of the 16 operations, on the root and through
    views at any depth, with any raw strings and contents, gives in the memfs model the same
    outcomes (listings up to order) and the same observable tree as in the nested plain tree. *)
Theorem memfs_is_plain_tree h :
  Forall2 out_equiv (fst (fhist [] h)) (fst (thist (TD []) h)) /\
  same_tree (run_hist [] h) (snd (thist (TD []) h)) /\
  WFT (snd (thist (TD []) h)).
Proof.
  rewrite <- fhist_run. apply hist_sim; [exact WF_nil|exact WFT_empty|exact same_tree_empty].
Qed.

(** what [same_tree] means for the observer: kind and content of every path, and the listing
    of every directory (as a set of distinct names with kinds), coincide *)
Theorem same_tree_observations t T : WF t -> WFT T -> same_tree t T ->
  forall p,
    match tget T p with
    | Some (TF d) => lookup t p = Some (F d)
    | Some (TD cs) => lookup t p = Some D /\ Permutation (children t p) (tlist cs)
    | None => lookup t p = None
    end.
Proof.
  intros HWF HT HR p. pose proof (same_tree_cases t T p HR) as Hc.
  destruct (tget T p) as [[d|cs]|] eqn:Ep; auto. split; [exact Hc|]. eapply listing_perm; eauto.
Qed.
