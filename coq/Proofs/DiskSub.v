(** Proof audit of C02, part 3: re-rooting.  [sub b t] (Model/DiskHist.v) is the tree seen from
    the directory [b].  A memfs operation through the child view with base [b] is the SAME
    operation of a memfs ROOT on [sub b t] (same output, and the new tree re-rooted is the root's
    new tree) - for all 16 operations and all raw arguments, no precondition.  With the
    agreement of the two backends on one tree (Proofs/DiskFs.v) this compares a child of one
    backend with the root of the other. *)
From Coq Require Import Permutation.
From GC Require Import Common.Base Model.Paths Model.Fs Model.DiskFs Model.DiskHist
  Proofs.Paths Proofs.Fs Proofs.DiskFs.

(** * One entry *)
Definition sub1 (b q : path) (e : entry) : fs :=
  match (if is_prefix b q then Some (skipn (length b) q) else None) with
  | Some (n :: y) => [(n :: y, e)]
  | _ => []
  end.

Lemma sub_cons b q e t : sub b ((q, e) :: t) = sub1 b q e ++ sub b t.
Proof. unfold sub, subtree_moved. cbn [flat_map fst snd]. rewrite moved_entry. reflexivity. Qed.

Lemma sub_nil b : sub b [] = [].
Proof. reflexivity. Qed.

Lemma sub_app b t u : sub b (t ++ u) = sub b t ++ sub b u.
Proof. unfold sub, subtree_moved. apply flat_map_app. Qed.

Lemma sub1_in b n y e : sub1 b (b ++ n :: y) e = [(n :: y, e)].
Proof. unfold sub1. rewrite is_prefix_app, skipn_app_exact. reflexivity. Qed.

Lemma sub1_out (b q : path) e : (forall n y, q <> b ++ n :: y) -> sub1 b q e = [].
Proof.
  intros H. unfold sub1. destruct (is_prefix b q) eqn:E; [|reflexivity].
  apply is_prefix_spec in E as [s ->]. rewrite skipn_app_exact.
  destruct s as [|n y]; [reflexivity|]. exfalso. exact (H n y eq_refl).
Qed.

Lemma key_cases (b q : path) : (exists n y, q = b ++ n :: y) \/ (forall n y, q <> b ++ n :: y).
Proof.
  destruct (is_prefix b q) eqn:E.
  - apply is_prefix_spec in E as [s ->]. destruct s as [|n y].
    + right. intros n y H. apply (f_equal (@length name)) in H.
      rewrite !app_length in H. cbn [length] in H. lia.
    + left. exists n, y. reflexivity.
  - right. intros n y ->. rewrite is_prefix_app in E. discriminate.
Qed.

Lemma sub_single_in b n y e : sub b [(b ++ n :: y, e)] = [(n :: y, e)].
Proof. rewrite sub_cons, sub1_in, sub_nil. reflexivity. Qed.

(** * Small path facts *)
Lemma is_prefix_app_l (b p q : path) : is_prefix (b ++ p) (b ++ q) = is_prefix p q.
Proof. induction b as [|n b IH]; cbn [app is_prefix]; [reflexivity|]. rewrite bytes_eqb_refl. exact IH. Qed.

Lemma length_eqb_app_l (b p q : path) : Nat.eqb (length (b ++ p)) (length (b ++ q)) = Nat.eqb (length p) (length q).
Proof.
  rewrite !app_length. destruct (Nat.eqb (length p) (length q)) eqn:E.
  - apply Nat.eqb_eq in E. apply Nat.eqb_eq. lia.
  - apply Nat.eqb_neq in E. apply Nat.eqb_neq. lia.
Qed.

Lemma length_eqb_S_app_l (b p q : path) :
  Nat.eqb (length (b ++ p)) (S (length (b ++ q))) = Nat.eqb (length p) (S (length q)).
Proof.
  rewrite !app_length. destruct (Nat.eqb (length p) (S (length q))) eqn:E.
  - apply Nat.eqb_eq in E. apply Nat.eqb_eq. lia.
  - apply Nat.eqb_neq in E. apply Nat.eqb_neq. lia.
Qed.

Lemma last_app_cons {A} (b : list A) n y d : last (b ++ n :: y) d = last (n :: y) d.
Proof.
  induction b as [|x b IH]; [reflexivity|]. cbn [app]. 
  change (last (x :: b ++ n :: y) d) with (match b ++ n :: y with [] => x | _ => last (b ++ n :: y) d end).
  destruct (b ++ n :: y) eqn:E; [destruct b; discriminate|]. exact IH.
Qed.

Lemma removelast_app_cons {A} (b : list A) n y : removelast (b ++ n :: y) = b ++ removelast (n :: y).
Proof. apply removelast_app. discriminate. Qed.

(** an entry that is not strictly below [b] is not strictly below [b ++ p] either *)
Lemma out_not_below (b p q : path) : (forall n y, q <> b ++ n :: y) ->
  is_prefix (b ++ p) q && negb (Nat.eqb (length q) (length (b ++ p))) = false.
Proof.
  intros H. destruct (is_prefix (b ++ p) q) eqn:E; [|reflexivity].
  apply is_prefix_spec in E as [s ->]. cbn [andb].
  destruct (p ++ s) as [|n y] eqn:Eps.
  - apply app_eq_nil in Eps as [-> ->]. rewrite !app_nil_r, Nat.eqb_refl. reflexivity.
  - exfalso. apply (H n y). rewrite <- app_assoc, Eps. reflexivity.
Qed.

Lemma out_not_child (b p q : path) : (forall n y, q <> b ++ n :: y) ->
  is_prefix (b ++ p) q && Nat.eqb (length q) (S (length (b ++ p))) = false.
Proof.
  intros H. destruct (is_prefix (b ++ p) q) eqn:E; [|reflexivity].
  apply is_prefix_spec in E as [s ->]. cbn [andb].
  destruct (p ++ s) as [|n y] eqn:Eps.
  - apply app_eq_nil in Eps as [-> ->]. rewrite !app_nil_r. apply Nat.eqb_neq. lia.
  - exfalso. apply (H n y). rewrite <- app_assoc, Eps. reflexivity.
Qed.

(** * Lookups *)
Lemma lookup_sub b t x : is_dir_at t b = true -> lookup (sub b t) x = lookup t (b ++ x).
Proof.
  intros Hd. destruct x as [|n y].
  - rewrite app_nil_r. cbn [lookup]. symmetry. apply is_dir_lookup. exact Hd.
  - rewrite (lookup_nonroot (sub b t) (n :: y)) by discriminate.
    rewrite (lookup_nonroot t (b ++ n :: y)) by (intros E; apply app_eq_nil in E as [_ E]; discriminate).
    exact (assoc_moved t b [] (n :: y) ltac:(discriminate)).
Qed.

Lemma is_dir_sub b t x : is_dir_at t b = true -> is_dir_at (sub b t) x = is_dir_at t (b ++ x).
Proof. intros Hd. unfold is_dir_at. rewrite lookup_sub by exact Hd. reflexivity. Qed.
Lemma is_file_sub b t x : is_dir_at t b = true -> is_file_at (sub b t) x = is_file_at t (b ++ x).
Proof. intros Hd. unfold is_file_at. rewrite lookup_sub by exact Hd. reflexivity. Qed.
Lemma exists_sub b t x : is_dir_at t b = true -> exists_at (sub b t) x = exists_at t (b ++ x).
Proof. intros Hd. unfold exists_at. rewrite lookup_sub by exact Hd. reflexivity. Qed.

(** * Listings *)
Lemma children_sub b t p : children (sub b t) p = children t (b ++ p).
Proof.
  induction t as [|[q e] t IH]; [reflexivity|].
  rewrite sub_cons. cbn [children]. destruct (key_cases b q) as [(n & y & ->)|Hout].
  - rewrite sub1_in. cbn [app children]. rewrite is_prefix_app_l, length_eqb_S_app_l, last_app_cons, IH.
    reflexivity.
  - rewrite (sub1_out b q e Hout), (out_not_child b p q Hout). exact IH.
Qed.

Lemma has_children_sub b t p : has_children (sub b t) p = has_children t (b ++ p).
Proof.
  unfold has_children. induction t as [|[q e] t IH]; [reflexivity|].
  rewrite sub_cons. cbn [existsb fst]. destruct (key_cases b q) as [(n & y & ->)|Hout].
  - rewrite sub1_in. cbn [app existsb fst]. rewrite is_prefix_app_l, length_eqb_app_l, IH. reflexivity.
  - rewrite (sub1_out b q e Hout), (out_not_below b p q Hout). exact IH.
Qed.

(** * Mutations *)
Lemma delete_sub b t p : sub b (delete_subtree t (b ++ p)) = delete_subtree (sub b t) p.
Proof.
  unfold delete_subtree. induction t as [|[q e] t IH]; [reflexivity|].
  rewrite sub_cons. cbn [filter fst]. destruct (key_cases b q) as [(n & y & ->)|Hout].
  - rewrite sub1_in. cbn [app filter fst]. rewrite is_prefix_app_l.
    destruct (is_prefix p (n :: y)); cbn [negb].
    + exact IH.
    + rewrite sub_cons, sub1_in, IH. reflexivity.
  - rewrite (sub1_out b q e Hout). cbn [app].
    destruct (negb (is_prefix (b ++ p) q)); [|exact IH].
    rewrite sub_cons, (sub1_out b q e Hout). exact IH.
Qed.

Lemma replace_sub b t n y e : sub b (replace_entry t (b ++ n :: y) e) = replace_entry (sub b t) (n :: y) e.
Proof.
  induction t as [|[q e0] t IH]; [reflexivity|].
  cbn [replace_entry]. destruct (key_cases b q) as [(m & z & ->)|Hout].
  - rewrite path_eqb_app_l. rewrite (sub_cons b (b ++ m :: z) e0 t), sub1_in. cbn [app replace_entry].
    destruct (path_eqb (m :: z) (n :: y)).
    + rewrite sub_cons, sub1_in. reflexivity.
    + rewrite sub_cons, sub1_in, IH. reflexivity.
  - replace (path_eqb q (b ++ n :: y)) with false
      by (symmetry; apply path_eqb_false; apply Hout).
    rewrite !sub_cons, (sub1_out b q e0 Hout). exact IH.
Qed.

Lemma moved_sub b t s d : sub b (subtree_moved t (b ++ s) (b ++ d)) = subtree_moved (sub b t) s d.
Proof.
  induction t as [|[q e] t IH]; [reflexivity|].
  rewrite sub_cons. unfold subtree_moved at 1. cbn [flat_map fst snd].
  fold (subtree_moved t (b ++ s) (b ++ d)). rewrite sub_app, IH.
  destruct (key_cases b q) as [(n & y & ->)|Hout].
  - rewrite sub1_in. unfold subtree_moved at 2. cbn [app flat_map fst snd].
    fold (subtree_moved (sub b t) s d).
    rewrite is_prefix_app_l, length_eqb_app_l.
    destruct (is_prefix s (n :: y) && negb (Nat.eqb (length (n :: y)) (length s))) eqn:E; [|reflexivity].
    f_equal. rewrite app_length, <- (app_length b s).
    replace (skipn (length (b ++ s)) (b ++ n :: y)) with (skipn (length s) (n :: y)).
    2:{ rewrite app_length, skipn_app, (skipn_all2 b) by lia.
        replace (length b + length s - length b)%nat with (length s) by lia. reflexivity. }
    apply andb_true_iff in E as [E1 E2]. apply is_prefix_spec in E1 as [u Eu]. rewrite Eu, skipn_app_exact.
    destruct u as [|m u].
    + exfalso. rewrite app_nil_r in Eu. rewrite Eu, Nat.eqb_refl in E2. discriminate.
    + rewrite <- app_assoc. destruct (d ++ m :: u) as [|k v] eqn:Ed; [destruct d; discriminate|].
      rewrite sub_single_in. reflexivity.
  - rewrite (out_not_below b s q Hout), (sub1_out b q e Hout). reflexivity.
Qed.

(** * mkdir_all *)
Lemma prefixes_from_app a : forall pre r,
  prefixes_from pre (a ++ r) = prefixes_from pre a ++ prefixes_from (pre ++ a) r.
Proof.
  induction a as [|n a IH]; intros pre r; cbn [app prefixes_from].
  - rewrite app_nil_r. reflexivity.
  - rewrite IH, <- app_assoc. reflexivity.
Qed.

Lemma prefixes_from_map r : forall pre, prefixes_from pre r = map (app pre) (prefixes_from [] r).
Proof.
  induction r as [|n r IH]; intros pre; cbn [prefixes_from map app]; [reflexivity|].
  f_equal. rewrite (IH (pre ++ [n])), (IH [n]), map_map. apply map_ext.
  intros x. rewrite <- app_assoc. reflexivity.
Qed.

Lemma prefixes_from_nonnil p : forall pre x, In x (prefixes_from pre p) -> x <> [].
Proof.
  induction p as [|n p IH]; intros pre x Hin; cbn [prefixes_from] in Hin; [contradiction|].
  destruct Hin as [<-|Hin]; [apply snoc_not_nil|exact (IH _ _ Hin)].
Qed.

Lemma mkdir_chain_app l1 : forall t l2,
  mkdir_chain t (l1 ++ l2) =
  match mkdir_chain t l1 with Some t1 => mkdir_chain t1 l2 | None => None end.
Proof.
  induction l1 as [|q l1 IH]; intros t l2; cbn [app mkdir_chain]; [reflexivity|].
  destruct (lookup t q) as [[|]|]; [reflexivity|apply IH|apply IH].
Qed.

Lemma mkdir_all_under b r t : WF t -> is_dir_at t b = true ->
  mkdir_all t (b ++ r) = mkdir_chain t (map (app b) (prefixes r)).
Proof.
  intros HWF Hd. unfold mkdir_all, prefixes at 1.
  rewrite prefixes_from_app, mkdir_chain_app. cbn [app].
  pose proof (mkdir_all_noop t b HWF Hd) as Hn. unfold mkdir_all, prefixes in Hn. rewrite Hn.
  rewrite prefixes_from_map. reflexivity.
Qed.

Lemma mkdir_chain_sub b l : forall t, is_dir_at t b = true -> (forall x, In x l -> x <> []) ->
  mkdir_chain (sub b t) l = option_map (sub b) (mkdir_chain t (map (app b) l)).
Proof.
  induction l as [|x l IH]; intros t Hd Hne; cbn [map mkdir_chain]; [reflexivity|].
  rewrite (lookup_sub b t x Hd).
  assert (Hx : x <> []) by (apply Hne; left; reflexivity).
  assert (Hl : forall y, In y l -> y <> []) by (intros y Hy; apply Hne; right; exact Hy).
  destruct (lookup t (b ++ x)) as [[|]|] eqn:El.
  - reflexivity.
  - apply IH; assumption.
  - destruct x as [|n y]; [congruence|].
    assert (Hbx : b ++ n :: y <> []) by (intros E; apply app_eq_nil in E as [_ E]; discriminate).
    assert (Hd' : is_dir_at (t ++ [(b ++ n :: y, D)]) b = true) by (apply is_dir_at_snoc; assumption).
    specialize (IH (t ++ [(b ++ n :: y, D)]) Hd' Hl).
    rewrite sub_app, sub_single_in in IH. exact IH.
Qed.

Lemma mkdir_all_sub b r t : WF t -> is_dir_at t b = true ->
  mkdir_all (sub b t) r = option_map (sub b) (mkdir_all t (b ++ r)).
Proof.
  intros HWF Hd. rewrite (mkdir_all_under b r t HWF Hd). unfold mkdir_all at 1.
  apply mkdir_chain_sub; [exact Hd|]. intros x Hx. exact (prefixes_from_nonnil _ _ _ Hx).
Qed.

Lemma mkdir_all_keeps_dir t p t' b : WF t -> good_path p = true -> mkdir_all t p = Some t' ->
  is_dir_at t b = true -> WF t' /\ is_dir_at t' b = true.
Proof.
  intros HWF Gp Em Hd. destruct (mkdir_all_spec _ _ _ HWF Gp Em) as (W & _ & P1 & _).
  split; [exact W|]. unfold is_dir_at. rewrite (P1 b D); [reflexivity|]. apply is_dir_lookup. exact Hd.
Qed.

Lemma good_removelast_app b n y : good_path (b ++ n :: y) = true -> good_path (b ++ removelast (n :: y)) = true.
Proof. intros G. rewrite <- removelast_app_cons. apply good_removelast. exact G. Qed.

(** * write / remove / copy *)
Lemma write_at_sub b n y data t : WF t -> good_path (b ++ n :: y) = true -> is_dir_at t b = true ->
  write_at (sub b t) (n :: y) data = option_map (sub b) (write_at t (b ++ n :: y) data).
Proof.
  intros HWF G Hd. unfold write_at. rewrite removelast_app_cons.
  rewrite (mkdir_all_sub b (removelast (n :: y)) t HWF Hd).
  destruct (mkdir_all t (b ++ removelast (n :: y))) as [t1|] eqn:Em; cbn [option_map]; [|reflexivity].
  destruct (mkdir_all_keeps_dir _ _ _ b HWF (good_removelast_app b n y G) Em Hd) as [W1 Hd1].
  rewrite (lookup_sub b t1 (n :: y) Hd1).
  destruct (lookup t1 (b ++ n :: y)) as [[d0|]|]; cbn [option_map].
  - rewrite replace_sub. reflexivity.
  - reflexivity.
  - rewrite sub_app, sub_single_in. reflexivity.
Qed.

Lemma remove_at_sub b n y t : is_dir_at t b = true ->
  remove_at (sub b t) (n :: y) = option_map (sub b) (remove_at t (b ++ n :: y)).
Proof.
  intros Hd. unfold remove_at. rewrite removelast_app_cons.
  rewrite (is_dir_sub b t _ Hd), (lookup_sub b t _ Hd), has_children_sub.
  destruct (negb (is_dir_at t (b ++ removelast (n :: y)))); [reflexivity|].
  destruct (lookup t (b ++ n :: y)) as [[d0|]|]; cbn [option_map]; [| |reflexivity].
  - rewrite delete_sub. reflexivity.
  - destruct (has_children t (b ++ n :: y)); cbn [option_map]; [reflexivity|]. rewrite delete_sub. reflexivity.
Qed.

Lemma remove_all_at_sub b n y t : is_dir_at t b = true ->
  remove_all_at (sub b t) (n :: y) = option_map (sub b) (remove_all_at t (b ++ n :: y)).
Proof.
  intros Hd. unfold remove_all_at. rewrite removelast_app_cons.
  rewrite (is_dir_sub b t _ Hd), (lookup_sub b t _ Hd).
  destruct (negb (is_dir_at t (b ++ removelast (n :: y)))); [reflexivity|].
  destruct (lookup t (b ++ n :: y)) as [e|]; cbn [option_map]; [|reflexivity].
  rewrite delete_sub. reflexivity.
Qed.

Lemma copy_at_sub k b s n y t : WF t -> good_path (b ++ n :: y) = true -> is_dir_at t b = true ->
  copy_at k (sub b t) s (n :: y) = option_map (sub b) (copy_at k t (b ++ s) (b ++ n :: y)).
Proof.
  intros HWF G Hd. unfold copy_at. rewrite removelast_app_cons.
  rewrite (lookup_sub b t s Hd).
  destruct (lookup t (b ++ s)) as [e|]; [|reflexivity].
  destruct (negb match k, e with
                 | CAny, _ => true | CDirOnly, D => true | CFileOnly, F _ => true | _, _ => false end);
    [reflexivity|].
  rewrite (mkdir_all_sub b (removelast (n :: y)) t HWF Hd).
  destruct (mkdir_all t (b ++ removelast (n :: y))) as [t1|] eqn:Em; cbn [option_map]; [|reflexivity].
  destruct (mkdir_all_keeps_dir _ _ _ b HWF (good_removelast_app b n y G) Em Hd) as [W1 Hd1].
  rewrite (lookup_sub b t1 (n :: y) Hd1).
  destruct (lookup t1 (b ++ n :: y)) as [e1|]; [reflexivity|].
  destruct e as [data|]; cbn [option_map].
  - rewrite sub_app, sub_single_in. reflexivity.
  - rewrite sub_app, (sub_cons b (b ++ n :: y) D), sub1_in, moved_sub. reflexivity.
Qed.

Lemma upd_sub b t (r : option fs) :
  upd (sub b t) (option_map (sub b) r) = (sub b (fst (upd t r)), snd (upd t r)).
Proof. destruct r; reflexivity. Qed.

(** * The view is the root of the sub-tree: all 16 operations, any raw arguments *)
Theorem m_step_sub b t o : WF t -> good_path b = true -> is_dir_at t b = true ->
  m_step [] (sub b t) o = (sub b (fst (m_step b t o)), snd (m_step b t o)).
Proof.
  intros HWF Gb Hd.
  assert (Gbr : forall s r, reduce s = Some r -> good_path (b ++ r) = true).
  { intros s r Hr. apply good_app; [exact Gb|]. eapply reduce_good; eassumption. }
  destruct o; unfold m_step; cbn [app].
  - destruct (reduce src) as [sr|] eqn:Es; [|reflexivity].
    destruct (reduce dst) as [[|n dr]|] eqn:Ed; try reflexivity.
    rewrite (copy_at_sub CAny b sr n dr t HWF (Gbr _ _ Ed) Hd). apply upd_sub.
  - destruct (reduce src) as [sr|] eqn:Es; [|reflexivity].
    destruct (reduce dst) as [[|n dr]|] eqn:Ed; try reflexivity.
    rewrite (copy_at_sub CDirOnly b sr n dr t HWF (Gbr _ _ Ed) Hd). apply upd_sub.
  - destruct (reduce src) as [[|m sr]|] eqn:Es; try reflexivity.
    destruct (reduce dst) as [[|n dr]|] eqn:Ed; try reflexivity.
    rewrite (copy_at_sub CFileOnly b (m :: sr) n dr t HWF (Gbr _ _ Ed) Hd). apply upd_sub.
  - destruct (reduce p) as [r|]; [|reflexivity].
    rewrite (is_dir_sub b t r Hd), children_sub. destruct (is_dir_at t (b ++ r)); reflexivity.
  - destruct (reduce p) as [r|]; [|reflexivity]. rewrite (exists_sub b t r Hd). reflexivity.
  - destruct (reduce p) as [[|n r]|]; try reflexivity. rewrite (is_file_sub b t _ Hd). reflexivity.
  - destruct (reduce p) as [r|]; [|reflexivity]. rewrite (is_dir_sub b t r Hd). reflexivity.
  - destruct (reduce p) as [r|]; [|reflexivity]. rewrite (mkdir_all_sub b r t HWF Hd). apply upd_sub.
  - destruct (reduce p) as [[|n r]|]; try reflexivity. rewrite (lookup_sub b t _ Hd).
    destruct (lookup t (b ++ n :: r)) as [[d0|]|]; reflexivity.
  - destruct (reduce p) as [[|n r]|] eqn:Ep; try reflexivity.
    rewrite (write_at_sub b n r data t HWF (Gbr _ _ Ep) Hd). apply upd_sub.
  - destruct (reduce p) as [r|]; reflexivity.
  - destruct (reduce p) as [[|n r]|]; try reflexivity. rewrite (lookup_sub b t _ Hd).
    destruct (lookup t (b ++ n :: r)) as [[d0|]|]; reflexivity.
  - destruct (reduce p) as [[|n r]|] eqn:Ep; try reflexivity.
    rewrite (write_at_sub b n r (concat chunks) t HWF (Gbr _ _ Ep) Hd). apply upd_sub.
  - destruct (reduce p) as [[|n r]|]; try reflexivity. rewrite (remove_at_sub b n r t Hd). apply upd_sub.
  - destruct (reduce p) as [[|n r]|]; try reflexivity. rewrite (remove_all_at_sub b n r t Hd). apply upd_sub.
  - destruct (reduce p) as [r|]; [|reflexivity]. rewrite (lookup_sub b t r Hd).
    destruct (lookup t (b ++ r)) as [[d0|]|]; reflexivity.
Qed.

(** * The re-rooted tree is well formed, and the preconditions are the same seen from either side *)
Lemma WF_sub b t : WF t -> is_dir_at t b = true -> WF (sub b t).
Proof.
  intros HWF Hd. split.
  - apply NoDup_moved. exact (proj1 HWF).
  - intros p e Hin. apply In_moved in Hin as (x & Hx & Hp & Hin). cbn [app] in Hp. subst p.
    destruct (proj2 HWF _ _ Hin) as (_ & Hg & Hpar).
    split; [exact Hx|]. split.
    + apply good_path_app in Hg. tauto.
    + destruct x as [|n y]; [congruence|]. rewrite removelast_app_cons in Hpar.
      rewrite (is_dir_sub b t _ Hd). exact Hpar.
Qed.

Lemma pre_copy_file_sub b t sr dr : is_dir_at t b = true ->
  pre_copy_file (sub b t) sr dr (is_nil dr) = pre_copy_file t (b ++ sr) (b ++ dr) (is_nil dr).
Proof.
  intros Hd. unfold pre_copy_file. destruct dr as [|n dr].
  - cbn [is_nil negb]. rewrite !andb_false_r. reflexivity.
  - rewrite removelast_app_cons, (is_file_sub b t _ Hd), (exists_sub b t _ Hd), (is_dir_sub b t _ Hd).
    reflexivity.
Qed.

Lemma pre_copy_dir_sub b t sr dr : is_dir_at t b = true ->
  pre_copy_dir (sub b t) sr dr (is_nil dr) = pre_copy_dir t (b ++ sr) (b ++ dr) (is_nil dr).
Proof.
  intros Hd. unfold pre_copy_dir.
  rewrite (is_dir_sub b t _ Hd), (exists_sub b t _ Hd), is_prefix_app_l. reflexivity.
Qed.

Lemma pre_at_sub b t o : is_dir_at t b = true -> pre (sub b t) o = pre_at b t o.
Proof.
  intros Hd. destruct o; unfold pre, pre_at; cbn [app]; try reflexivity.
  - destruct (reduce src) as [sr|]; [|reflexivity]. destruct (reduce dst) as [dr|]; [|reflexivity].
    rewrite pre_copy_file_sub, pre_copy_dir_sub by exact Hd. reflexivity.
  - destruct (reduce src) as [sr|]; [|reflexivity]. destruct (reduce dst) as [dr|]; [|reflexivity].
    apply pre_copy_dir_sub. exact Hd.
  - destruct (reduce src) as [sr|]; [|reflexivity]. destruct (reduce dst) as [dr|]; [|reflexivity].
    apply pre_copy_file_sub. exact Hd.
  - destruct (reduce p) as [r|]; [|reflexivity]. rewrite (is_dir_sub b t _ Hd). reflexivity.
  - destruct (reduce p) as [r|]; [|reflexivity]. rewrite (is_dir_sub b t _ Hd). reflexivity.
  - destruct (reduce p) as [[|n r]|]; try reflexivity.
    rewrite removelast_app_cons, (is_dir_sub b t _ Hd). reflexivity.
  - destruct (reduce p) as [[|n r]|]; try reflexivity. rewrite (exists_sub b t _ Hd). reflexivity.
Qed.

(** * A child of one backend against the ROOT of the other *)
Theorem child_disk_root_mem b t o :
  WF t -> good_path b = true -> is_dir_at t b = true -> pre_at b t o = true ->
  sub b (fst (d_step b t o)) = fst (mem_step (sub b t) o) /\
  out_equiv (snd (d_step b t o)) (snd (mem_step (sub b t) o)).
Proof.
  intros HWF Gb Hd Hp. destruct (d_m_equiv b t o HWF Gb Hd Hp) as [A B].
  rewrite mem_step_m, (m_step_sub b t o HWF Gb Hd). cbn [fst snd]. rewrite A. split; [reflexivity|exact B].
Qed.

Theorem child_mem_root_disk b t o :
  WF t -> good_path b = true -> is_dir_at t b = true -> pre_at b t o = true ->
  fst (disk_step (sub b t) o) = sub b (fst (view_step (view_base b) t o)) /\
  out_equiv (snd (disk_step (sub b t) o)) (snd (view_step (view_base b) t o)).
Proof.
  intros HWF Gb Hd Hp.
  assert (Hp' : pre (sub b t) o = true) by (rewrite pre_at_sub; assumption).
  destruct (step_equiv_root (sub b t) o (WF_sub b t HWF Hd) Hp') as [A B].
  rewrite mem_step_m, (m_step_sub b t o HWF Gb Hd) in A, B. cbn [fst snd] in A, B.
  rewrite (view_step_m b t o Gb). split; assumption.
Qed.

Theorem child_disk_root_mem_history b : good_path b = true -> forall h td, WF td ->
  pre_hist_in b td h = true ->
  snd (fst (run_child_disk b td (sub b td) h)) = sub b (fst (fst (run_child_disk b td (sub b td) h))) /\
  WF (fst (fst (run_child_disk b td (sub b td) h))) /\
  Forall (fun p => out_equiv (fst p) (snd p)) (snd (run_child_disk b td (sub b td) h)).
Proof.
  intros Gb. induction h as [|o h IH]; intros td HWF Hp; cbn [run_child_disk].
  - split; [reflexivity|]. split; [exact HWF|constructor].
  - cbn [pre_hist_in] in Hp. apply andb_true_iff in Hp as [Hp Hh]. apply andb_true_iff in Hp as [Hd Hp].
    destruct (child_disk_root_mem b td o HWF Gb Hd Hp) as [A B]. rewrite <- A.
    specialize (IH (fst (d_step b td o)) (d_step_WF b td o HWF Gb) Hh).
    destruct (run_child_disk b (fst (d_step b td o)) (sub b (fst (d_step b td o))) h) as [[td' tm'] outs].
    cbn [fst snd] in *. destruct IH as (X & Y & Z).
    split; [exact X|]. split; [exact Y|]. constructor; [exact B|exact Z].
Qed.

Theorem child_mem_root_disk_history b : good_path b = true -> forall h tm, WF tm ->
  pre_hist_mview b tm h = true ->
  fst (fst (run_child_mem b (sub b tm) tm h)) = sub b (snd (fst (run_child_mem b (sub b tm) tm h))) /\
  WF (snd (fst (run_child_mem b (sub b tm) tm h))) /\
  Forall (fun p => out_equiv (fst p) (snd p)) (snd (run_child_mem b (sub b tm) tm h)).
Proof.
  intros Gb. induction h as [|o h IH]; intros tm HWF Hp; cbn [run_child_mem].
  - split; [reflexivity|]. split; [exact HWF|constructor].
  - cbn [pre_hist_mview] in Hp. apply andb_true_iff in Hp as [Hp Hh]. apply andb_true_iff in Hp as [Hd Hp].
    destruct (child_mem_root_disk b tm o HWF Gb Hd Hp) as [A B]. rewrite A.
    specialize (IH (fst (view_step (view_base b) tm o)) (view_step_WF _ tm o HWF) Hh).
    destruct (run_child_mem b (sub b (fst (view_step (view_base b) tm o))) (fst (view_step (view_base b) tm o)) h)
      as [[td' tm'] outs].
    cbn [fst snd] in *. destruct IH as (X & Y & Z).
    split; [exact X|]. split; [exact Y|]. constructor; [exact B|exact Z].
Qed.

(** * Disk child against disk root (through the two memfs facts) *)
Lemma out_equiv_sym a b : out_equiv a b -> out_equiv b a.
Proof.
  destruct a, b; cbn [out_equiv]; try tauto; try congruence.
  - apply Permutation_sym.
  - intros [H1 H2]. subst. split; [reflexivity|]. intros H. symmetry. exact (H2 H).
Qed.

Lemma out_equiv_trans a b c : out_equiv a b -> out_equiv b c -> out_equiv a c.
Proof.
  destruct a, b, c; cbn [out_equiv]; try tauto; try congruence.
  - apply Permutation_trans.
  - intros [H1 H2] [H3 H4]. subst. split; [reflexivity|]. intros H. rewrite (H2 H). exact (H4 H).
Qed.

Theorem child_disk_root_disk b t o :
  WF t -> good_path b = true -> is_dir_at t b = true -> pre_at b t o = true ->
  sub b (fst (d_step b t o)) = fst (disk_step (sub b t) o) /\
  out_equiv (snd (d_step b t o)) (snd (disk_step (sub b t) o)).
Proof.
  intros HWF Gb Hd Hp.
  destruct (child_disk_root_mem b t o HWF Gb Hd Hp) as [A B].
  assert (Hp' : pre (sub b t) o = true) by (rewrite pre_at_sub; assumption).
  destruct (step_equiv_root (sub b t) o (WF_sub b t HWF Hd) Hp') as [A' B'].
  split; [congruence|]. eapply out_equiv_trans; [exact B|]. apply out_equiv_sym. exact B'.
Qed.

(** the memfs fact in the vocabulary of the model: a child view is a root on the sub-tree *)
Theorem view_is_root_of_sub b t o : WF t -> good_path b = true -> is_dir_at t b = true ->
  mem_step (sub b t) o = (sub b (fst (view_step (view_base b) t o)), snd (view_step (view_base b) t o)).
Proof. intros HWF Gb Hd. rewrite mem_step_m, (view_step_m b t o Gb). apply m_step_sub; assumption. Qed.
