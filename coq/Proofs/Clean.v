(** path.Clean / varutil.CleanPath (Model/Paths.v [go_clean], [clean_path]) on strings of the
    form [X ++ "/" ++ canonical path]: cleaning factors through the canonical suffix.  This is
    what makes a sub-path view over a cache (fshelper.SubFS over fscache.Cache, which cleans
    instead of reducing) confined to its base. *)
From GC Require Import Common.Base Model.Paths Proofs.Paths.

(** the accumulator version of [clean_comps] *)
Fixpoint clean_stack (rooted : bool) (acc : list name) (l : list bytes) : list name :=
  match l with
  | [] => acc
  | v :: l' =>
    if is_empty v || is_dot v then clean_stack rooted acc l'
    else if is_dotdot v then
      match acc with
      | [] => if rooted then clean_stack rooted [] l' else clean_stack rooted [v] l'
      | top :: acc' =>
        if is_dotdot top then clean_stack rooted (v :: acc) l'
        else clean_stack rooted acc' l'
      end
    else clean_stack rooted (v :: acc) l'
  end.

Lemma clean_comps_stack rooted l : forall acc, clean_comps rooted acc l = rev (clean_stack rooted acc l).
Proof.
  induction l as [|v l IH]; intros acc; simpl; [reflexivity|].
  destruct (is_empty v || is_dot v); [apply IH|].
  destruct (is_dotdot v); [|apply IH].
  destruct acc as [|top acc']; [destruct rooted; apply IH|].
  destruct (is_dotdot top); apply IH.
Qed.

Lemma clean_stack_app rooted l1 : forall acc l2,
  clean_stack rooted acc (l1 ++ l2) = clean_stack rooted (clean_stack rooted acc l1) l2.
Proof.
  induction l1 as [|v l1 IH]; intros acc l2; simpl; [reflexivity|].
  destruct (is_empty v || is_dot v); [apply IH|].
  destruct (is_dotdot v); [|apply IH].
  destruct acc as [|top acc']; [destruct rooted; apply IH|].
  destruct (is_dotdot top); apply IH.
Qed.

Lemma clean_stack_harmless rooted l : forall acc, forallb harmless l = true ->
  clean_stack rooted acc l = rev (filter (fun v => negb (is_empty v)) l) ++ acc.
Proof.
  induction l as [|v l IH]; intros acc H; simpl; [reflexivity|].
  simpl in H. apply andb_true_iff in H as [Hv Hl]. unfold harmless in Hv.
  destruct (is_empty v) eqn:Ee; simpl.
  - apply IH. exact Hl.
  - simpl in Hv. destruct (good_name_facts _ Hv) as (_ & _ & Hd & Hdd). rewrite Hd, Hdd.
    rewrite IH by exact Hl. simpl. rewrite <- app_assoc. reflexivity.
Qed.

(** shape of the stack: good names on top of ".." entries (none when rooted) *)
Definition cs_shape (rooted : bool) (acc : list name) : Prop :=
  exists g dd, acc = g ++ dd /\ forallb good_name g = true /\ forallb is_dotdot dd = true /\
               (rooted = true -> dd = []).

Lemma is_dotdot_not_good v : is_dotdot v = true -> good_name v = false.
Proof. intros H. unfold good_name. rewrite H. simpl. rewrite andb_false_r. reflexivity. Qed.

Lemma clean_stack_shape rooted l : forall acc,
  forallb no_slash l = true -> cs_shape rooted acc -> cs_shape rooted (clean_stack rooted acc l).
Proof.
  induction l as [|v l IH]; intros acc Hns Hs; simpl; [exact Hs|].
  simpl in Hns. apply andb_true_iff in Hns as [Hv Hl].
  destruct (is_empty v || is_dot v) eqn:E1; [apply IH; assumption|].
  apply orb_false_iff in E1 as [Ee Ed].
  destruct (is_dotdot v) eqn:E2.
  - destruct Hs as (g & dd & -> & Hg & Hdd & Hr).
    destruct g as [|top g]; simpl.
    + destruct dd as [|top dd]; simpl.
      * destruct rooted; apply IH; try assumption.
        -- exists [], []. repeat split; auto.
        -- exists [], [v]. simpl. rewrite E2. repeat split; auto. discriminate.
      * simpl in Hdd. apply andb_true_iff in Hdd as [Ht Hdd]. rewrite Ht. apply IH; [assumption|].
        exists [], (v :: top :: dd). simpl. rewrite E2, Ht, Hdd. repeat split; auto.
        intros Hroot. specialize (Hr Hroot). discriminate.
    + simpl in Hg. apply andb_true_iff in Hg as [Ht Hg].
      assert (is_dotdot top = false) as ->.
      { destruct (is_dotdot top) eqn:X; [|reflexivity]. rewrite (is_dotdot_not_good _ X) in Ht. discriminate. }
      apply IH; [assumption|]. exists g, dd. repeat split; auto.
  - apply IH; [assumption|]. destruct Hs as (g & dd & -> & Hg & Hdd & Hr).
    exists (v :: g), dd. simpl. split; [reflexivity|]. split; [|split; assumption].
    rewrite Hg. unfold good_name. rewrite Ee, Hv, Ed, E2. reflexivity.
Qed.

Lemma join_first_not_slash l c r : forallb good_name l = true -> join l = c :: r -> N.eqb c SLASH = false.
Proof.
  destruct l as [|a l]; [discriminate|]. simpl forallb. intros H Hj. apply andb_true_iff in H as [Ha _].
  destruct (good_name_facts _ Ha) as (He & Hns & _). destruct a as [|a0 a]; [discriminate|].
  simpl in Hns. apply andb_true_iff in Hns as [Hc _]. apply negb_true_iff in Hc.
  destruct l; simpl in Hj; inversion Hj; subst; exact Hc.
Qed.

Lemma split_join_ns p : forallb no_slash p = true -> p <> [] -> split_slash (join p) = p.
Proof.
  induction p as [|a p IH]; intros Hg Hne; [congruence|].
  simpl in Hg. apply andb_true_iff in Hg as [Ha Hp].
  destruct p as [|b p].
  - simpl. apply split_slash_single. exact Ha.
  - change (join (a :: b :: p)) with (a ++ SLASH :: join (b :: p)).
    rewrite split_slash_app. rewrite (split_slash_single _ Ha).
    rewrite IH by (auto; discriminate). reflexivity.
Qed.

Lemma dotdot_no_slash v : is_dotdot v = true -> no_slash v = true.
Proof. intros H. apply bytes_eqb_spec in H. subst. reflexivity. Qed.

Lemma good_no_slash v : good_name v = true -> no_slash v = true.
Proof. intros H. destruct (good_name_facts _ H) as (_ & A & _). exact A. Qed.

(** reducing the join of a clean stack [dotdots ++ goods ++ canonical r] *)
Lemma reduce_comps_clean dd g r :
  forallb is_dotdot dd = true -> forallb good_name g = true -> good_path r = true ->
  reduce_comps [] (dd ++ g ++ r) = match dd with [] => Some (g ++ r) | _ => None end.
Proof.
  intros Hdd Hg Hr. destruct dd as [|d dd]; simpl.
  - rewrite reduce_comps_harmless.
    + simpl. rewrite good_path_filter; [reflexivity|]. unfold good_path in *. rewrite forallb_app, Hg, Hr. reflexivity.
    + apply good_path_harmless. unfold good_path in *. rewrite forallb_app, Hg, Hr. reflexivity.
  - simpl in Hdd. apply andb_true_iff in Hdd as [Hd _].
    assert (is_empty d = false /\ is_dot d = false) as [-> ->].
    { apply bytes_eqb_spec in Hd. subst. split; reflexivity. }
    simpl. rewrite Hd. reflexivity.
Qed.

Definition cred (s : bytes) : option path := reduce (clean_path s).

(** The key fact: cleaning [X ++ "/" ++ join r] and reducing the result appends [r] to what
    cleaning-and-reducing [X ++ "/"] gives, and fails exactly when that fails. *)
Theorem cred_prefix_join X r : good_path r = true ->
  cred (X ++ SLASH :: join r) = match cred (X ++ [SLASH]) with Some y => Some (y ++ r) | None => None end.
Proof.
  intros Hr. unfold cred, clean_path.
  (* both strings are non-empty and start with the same byte *)
  assert (Hform : forall tail, exists c rest, X ++ SLASH :: tail = c :: rest /\
            (forall tail', exists rest', X ++ SLASH :: tail' = c :: rest')).
  { intros tail. destruct X as [|c X]; simpl; eauto. }
  destruct (Hform (join r)) as (c & rest1 & E1 & Hsame). destruct (Hsame []) as (rest0 & E0).
  change (X ++ [SLASH]) with (X ++ SLASH :: []).
  unfold go_clean. rewrite E1, E0. rewrite <- E1, <- E0.
  set (rooted := N.eqb c SLASH).
  rewrite !split_slash_app, !clean_comps_stack, !clean_stack_app.
  set (A := clean_stack rooted [] (split_slash X)).
  destruct (split_join_harmless r Hr) as [R1 R2].
  rewrite (clean_stack_harmless rooted (split_slash (join r)) A R1), R2.
  change (split_slash []) with [@nil byte]. simpl (clean_stack rooted A [[]]).
  rewrite rev_app_distr, rev_involutive.
  (* shape of A *)
  assert (HA : cs_shape rooted A).
  { apply clean_stack_shape; [apply split_slash_no_slash|]. exists [], []. repeat split; auto. }
  destruct HA as (g & dd & EA & Hg & Hdd & Hroot).
  assert (HrevA : rev A = rev dd ++ rev g) by (rewrite EA, rev_app_distr; reflexivity).
  assert (Hg' : forallb good_name (rev g) = true).
  { rewrite forallb_forall in *. intros x Hx. apply Hg. apply in_rev. exact Hx. }
  assert (Hdd' : forallb is_dotdot (rev dd) = true).
  { rewrite forallb_forall in *. intros x Hx. apply Hdd. apply in_rev. exact Hx. }
  assert (Hns : forall tail, good_path tail = true -> forallb no_slash (rev A ++ tail) = true).
  { intros tail Ht. rewrite HrevA, !forallb_app. rewrite forallb_forall in Hg', Hdd'.
    apply andb_true_iff. split; [apply andb_true_iff; split|]; apply forallb_forall; intros x Hx.
    - apply dotdot_no_slash. auto.
    - apply good_no_slash. auto.
    - apply good_no_slash. unfold good_path in Ht. rewrite forallb_forall in Ht. auto. }
  (* what reduce makes of the cleaned string, for any canonical tail *)
  assert (Key : forall tail, good_path tail = true ->
    reduce (match (if rooted then SLASH :: join (rev A ++ tail)
                   else match rev A ++ tail with [] => [DOT] | _ => join (rev A ++ tail) end) with
            | c0 :: r0 => if N.eqb c0 SLASH then r0 else c0 :: r0
            | [] => []
            end)
    = match rev dd with [] => Some (rev g ++ tail) | _ => None end).
  { intros tail Ht.
    remember (rev A ++ tail) as L eqn:EL.
    assert (Hjoin : L <> [] ->
              reduce (join L) = match rev dd with [] => Some (rev g ++ tail) | _ => None end).
    { intros Hne. unfold reduce. rewrite split_join_ns by (subst L; auto using Hns).
      subst L. rewrite HrevA, <- app_assoc. apply reduce_comps_clean; assumption. }
    assert (Hnotslash : forall c0 r0, join L = c0 :: r0 -> rooted = false -> N.eqb c0 SLASH = false).
    { intros c0 r0 Hj Hroot'. subst L. rewrite HrevA in Hj. destruct (rev dd) as [|d rd] eqn:Erd.
      - simpl in Hj. apply (join_first_not_slash (rev g ++ tail) c0 r0); [|exact Hj].
        change (good_path (rev g ++ tail) = true). unfold good_path in *. rewrite forallb_app.
        apply andb_true_iff. split; assumption.
      - simpl in Hdd'. apply andb_true_iff in Hdd' as [Hd _]. apply bytes_eqb_spec in Hd. subst d.
        simpl in Hj. destruct ((rd ++ rev g) ++ tail); inversion Hj; subst; reflexivity. }
    destruct rooted eqn:Er.
    - (* rooted: "/" ++ join comps, one slash stripped *)
      change (N.eqb SLASH SLASH) with true. cbn iota.
      destruct L as [|a l].
      + rewrite (Hroot eq_refl) in *. simpl in HrevA. rewrite HrevA in EL.
        symmetry in EL. apply app_eq_nil in EL as [Eg Et]. subst tail. rewrite Eg. reflexivity.
      + apply Hjoin. discriminate.
    - destruct L as [|a l].
      + (* "." *)
        rewrite HrevA in EL. symmetry in EL. apply app_eq_nil in EL as [E1' Et]. apply app_eq_nil in E1' as [Edd Eg].
        rewrite Edd, Eg, Et. reflexivity.
      + pose proof (Hjoin ltac:(discriminate)) as HJ.
        destruct (join (a :: l)) as [|c0 r0] eqn:Ej.
        * exact HJ.
        * rewrite (Hnotslash c0 r0 eq_refl eq_refl). exact HJ. }
  pose proof (Key r Hr) as K1. pose proof (Key [] eq_refl) as K0. rewrite !app_nil_r in K0.
  etransitivity; [exact K1|].
  match goal with |- _ = match ?e with _ => _ end =>
    replace e with (match rev dd with [] => Some (rev g) | _ => None end) by (symmetry; exact K0) end.
  destruct (rev dd); reflexivity.
Qed.

(** * path.Clean is idempotent (as far as the reduction below can tell) *)

(** what a cleaned path looks like: empty, ".", or the join of ".." elements followed by good names *)
Lemma clean_path_shape s :
  clean_path s = [] \/ clean_path s = [DOT] \/
  exists dd g, forallb is_dotdot dd = true /\ forallb good_name g = true /\ dd ++ g <> [] /\
               clean_path s = join (dd ++ g).
Proof.
  unfold clean_path, go_clean. destruct s as [|c s']; [right; left; reflexivity|].
  set (rooted := N.eqb c SLASH). rewrite clean_comps_stack.
  assert (HA : cs_shape rooted (clean_stack rooted [] (split_slash (c :: s')))).
  { apply clean_stack_shape; [apply split_slash_no_slash|]. exists [], []. repeat split; auto. }
  destruct HA as (g & dd & EA & Hg & Hdd & Hroot). rewrite EA, rev_app_distr.
  assert (Hg' : forallb good_name (rev g) = true).
  { rewrite forallb_forall in *. intros x Hx. apply Hg. apply in_rev. exact Hx. }
  assert (Hdd' : forallb is_dotdot (rev dd) = true).
  { rewrite forallb_forall in *. intros x Hx. apply Hdd. apply in_rev. exact Hx. }
  destruct rooted eqn:Er.
  - rewrite (Hroot eq_refl). simpl rev. simpl app. change (N.eqb SLASH SLASH) with true. cbn iota.
    destruct (rev g) as [|a l] eqn:Eg; [left; reflexivity|].
    right. right. exists [], (a :: l). repeat split; auto. discriminate.
  - destruct (rev dd ++ rev g) as [|a l] eqn:El; [right; left; reflexivity|].
    right. right. exists (rev dd), (rev g). split; [exact Hdd'|]. split; [exact Hg'|].
    split; [intro X; assert (Y : rev dd ++ rev g = []) by exact X; rewrite El in Y; discriminate|]. rewrite <- El.
    destruct (join (rev dd ++ rev g)) as [|c0 r0] eqn:Ej; [symmetry; exact Ej|].
    assert (N.eqb c0 SLASH = false) as ->; [|symmetry; exact Ej].
    destruct (rev dd) as [|d rd].
    + simpl in Ej. eapply join_first_not_slash; [exact Hg'|exact Ej].
    + simpl in Hdd'. apply andb_true_iff in Hdd' as [Hd _]. apply bytes_eqb_spec in Hd. subst d.
      simpl in Ej. destruct (rd ++ rev g); inversion Ej; subst; reflexivity.
Qed.

Lemma clean_stack_dotdots dd : forall acc : list name, forallb is_dotdot dd = true -> forallb is_dotdot acc = true ->
  clean_stack false acc dd = rev dd ++ acc.
Proof.
  induction dd as [|d dd IH]; intros acc Hd Ha; simpl; [reflexivity|].
  simpl in Hd. apply andb_true_iff in Hd as [Hd Hdd].
  assert (is_empty d = false /\ is_dot d = false) as [-> ->].
  { apply bytes_eqb_spec in Hd. subst. split; reflexivity. }
  simpl. rewrite Hd. destruct acc as [|top acc'].
  - rewrite IH; [|exact Hdd|simpl; rewrite Hd; reflexivity]. rewrite <- app_assoc. reflexivity.
  - simpl in Ha. apply andb_true_iff in Ha as [Ht Ha']. rewrite Ht.
    rewrite IH; [|exact Hdd|simpl; rewrite Hd, Ht, Ha'; reflexivity]. rewrite <- app_assoc. reflexivity.
Qed.

Lemma clean_path_join_fixed dd g :
  forallb is_dotdot dd = true -> forallb good_name g = true -> dd ++ g <> [] ->
  clean_path (join (dd ++ g)) = join (dd ++ g).
Proof.
  intros Hdd Hg Hne.
  assert (Hns : forallb no_slash (dd ++ g) = true).
  { rewrite forallb_app. apply andb_true_iff. split; apply forallb_forall; intros x Hx.
    - apply dotdot_no_slash. rewrite forallb_forall in Hdd. auto.
    - apply good_no_slash. rewrite forallb_forall in Hg. auto. }
  assert (Hfirst : forall c0 r0, join (dd ++ g) = c0 :: r0 -> N.eqb c0 SLASH = false).
  { intros c0 r0 Ej. destruct dd as [|d rd].
    - simpl in Ej. eapply join_first_not_slash; [exact Hg|exact Ej].
    - simpl in Hdd. apply andb_true_iff in Hdd as [Hd _]. apply bytes_eqb_spec in Hd. subst d.
      simpl in Ej. destruct (rd ++ g); inversion Ej; subst; reflexivity. }
  unfold clean_path, go_clean.
  destruct (join (dd ++ g)) as [|c0 r0] eqn:Ej.
  - (* the join of a non-empty list of non-empty names is not empty *)
    exfalso. assert (Hs : split_slash (join (dd ++ g)) = dd ++ g) by (apply split_join_ns; assumption).
    rewrite Ej in Hs. simpl in Hs.
    destruct dd as [|d rd].
    + simpl in Hs. destruct g as [|a g']; [congruence|]. inversion Hs; subst. simpl in Hg. discriminate.
    + simpl in Hs. inversion Hs; subst. simpl in Hdd. discriminate.
  - cbv zeta. rewrite (Hfirst c0 r0 eq_refl). rewrite <- Ej. rewrite (split_join_ns _ Hns Hne).
    rewrite clean_comps_stack, clean_stack_app.
    rewrite (clean_stack_dotdots dd (@nil name) Hdd eq_refl), app_nil_r.
    rewrite (clean_stack_harmless false g (rev dd)) by (apply good_path_harmless; exact Hg).
    rewrite (good_path_filter g Hg), rev_app_distr, !rev_involutive.
    pose proof (Hfirst c0 r0 eq_refl) as Hc.
    assert (Hm : forall L : list name, L <> [] -> join L = c0 :: r0 ->
              match (match L with [] => [DOT] | _ :: _ => join L end) with
              | [] => [] | c :: r => if N.eqb c SLASH then r else c :: r end = join L).
    { intros L HL EL. destruct L as [|a l]; [congruence|]. rewrite EL, Hc. reflexivity. }
    exact (Hm (dd ++ g) Hne Ej).
Qed.

Theorem cred_clean_path s : cred (clean_path s) = cred s.
Proof.
  unfold cred. destruct (clean_path_shape s) as [E|[E|(dd & g & Hdd & Hg & Hne & E)]]; rewrite E.
  - reflexivity.
  - reflexivity.
  - rewrite clean_path_join_fixed by assumption. reflexivity.
Qed.
