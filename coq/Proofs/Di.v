(** Proofs about the dependency-provider model (Model/Di.v). *)
From Coq Require Import Lia ZifyBool ZifyNat ZifyN Relations.
From GC Require Import Common.Base Model.Di.

(** * Basics *)

Lemma upd_same {A} (f : name -> A) n a : upd f n a n = a.
Proof. unfold upd. rewrite N.eqb_refl. reflexivity. Qed.

Lemma upd_other {A} (f : name -> A) n a m : m <> n -> upd f n a m = f m.
Proof. intro H. unfold upd. apply N.eqb_neq in H. rewrite H. reflexivity. Qed.

Lemma mem_In n l : mem n l = true <-> In n l.
Proof.
  induction l as [|x l IH]; simpl.
  - split; [discriminate | tauto].
  - rewrite orb_true_iff, IH, N.eqb_eq. split; intros [H|H]; auto.
Qed.

Lemma mem_app n a b : mem n (a ++ b) = mem n a || mem n b.
Proof. induction a as [|x a IH]; simpl; [reflexivity|]. rewrite IH, orb_assoc. reflexivity. Qed.

Lemma in_add_key n ks : In n (add_key n ks).
Proof.
  unfold add_key. destruct (mem n ks) eqn:E.
  - apply mem_In; exact E.
  - apply in_or_app. right. left. reflexivity.
Qed.

Lemma incl_add_key n m ks : In m ks -> In m (add_key n ks).
Proof. unfold add_key. destruct (mem n ks); [auto|]. intro. apply in_or_app. auto. Qed.

Lemma isSome_false {A} (o : option A) : isSome o = false -> o = None.
Proof. destruct o; [discriminate | reflexivity]. Qed.

Lemma isSome_true {A} (o : option A) : isSome o = true -> o <> None.
Proof. destruct o; [discriminate | discriminate]. Qed.

(** * Block *)

Lemma block_blocked s : blocked (block s) = true.
Proof. unfold block. destruct (blocked s) eqn:E; [exact E | reflexivity]. Qed.

Lemma block_id s : blocked s = true -> block s = s.
Proof. intro H. unfold block. rewrite H. reflexivity. Qed.

Lemma block_idem s : block (block s) = block s.
Proof. apply block_id, block_blocked. Qed.

Lemma block_keys s : keys (block s) = keys s.
Proof. unfold block. destruct (blocked s); reflexivity. Qed.

Lemma block_stack s : stack (block s) = stack s.
Proof. unfold block. destruct (blocked s); reflexivity. Qed.

Lemma block_runs s : runs (block s) = runs s.
Proof. unfold block. destruct (blocked s); reflexivity. Qed.

Lemma eff_block s n : eff (block s) n = eff s n.
Proof.
  unfold block. destruct (blocked s); [reflexivity|].
  unfold eff; cbn.
  destruct (inst s n); destruct (fac s n) as [[? ?]|]; destruct (dinst s n); destruct (dfac s n) as [[? ?]|];
    reflexivity.
Qed.

(** * The invariant that links a frozen provider to its definition set *)

Definition effF (s : state) (n : name) : option edef :=
  match fac s n with
  | Some (id, p) => Some (EFac KFac id p)
  | None => match dfac s n with Some (id, p) => Some (EFac KDFac id p) | None => None end
  end.

Definition Built (D : defs) (s : state) (n : name) (t : token) : Prop :=
  exists k id p, D n = Some (EFac k id p) /\ tok_source t = (n, k, id) /\ Good D [] n /\
                 forall d, In (d, false) (deps p) -> inst s d <> None.

Record Inv (D : defs) (s : state) : Prop := {
  I_blk : blocked s = true;
  I_din : forall n, dinst s n = None;
  I_tab : forall n, match inst s n with
                    | Some t => D n = Some (EVal t) \/ Built D s n t
                    | None => D n = effF s n
                    end;
  I_stk : forall n, mem n (stack s) = true -> inst s n = None;
  I_key : forall n k id p, D n = Some (EFac k id p) -> In n (keys s)
}.

Lemma Good_not_mem D vis n : Good D vis n -> mem n vis = false.
Proof. destruct 1; assumption. Qed.

Lemma Good_weaken D vis n : Good D vis n ->
  forall vis', (forall m, mem m vis' = true -> mem m vis = true) -> Good D vis' n.
Proof.
  induction 1 as [vis n t Hm HD | vis n k id p Hm HD Hf Hn Hd IH]; intros vis' Hsub.
  - apply Good_val with t; [|exact HD].
    destruct (mem n vis') eqn:E; [|reflexivity]. apply Hsub in E. congruence.
  - apply Good_fac with k id p; try assumption.
    + destruct (mem n vis') eqn:E; [|reflexivity]. apply Hsub in E. congruence.
    + intros d Hin. apply IH; [exact Hin|]. intros m. cbn [mem]. rewrite !orb_true_iff.
      intros [H|H]; [left; exact H | right; apply Hsub; exact H].
Qed.

Lemma good_avoid D s : Inv D s -> forall vis d, Good D vis d -> inst s d <> None ->
  forall vis', (forall m, mem m vis' = true -> inst s m = None) -> Good D (vis ++ vis') d.
Proof.
  intros HI. induction 1 as [vis n t Hm HD | vis n k id p Hm HD Hf Hn Hd IH]; intros Hav vis' Hv.
  - apply Good_val with t; [|exact HD]. rewrite mem_app, Hm. cbn.
    destruct (mem n vis') eqn:E; [|reflexivity]. apply Hv in E. contradiction.
  - apply Good_fac with k id p; try assumption.
    + rewrite mem_app, Hm. cbn.
      destruct (mem n vis') eqn:E; [|reflexivity]. apply Hv in E. contradiction.
    + intros d Hin. change (n :: vis ++ vis') with ((n :: vis) ++ vis').
      apply IH; [exact Hin | | exact Hv].
      pose proof (I_tab D s HI n) as Ht. destruct (inst s n) as [t|]; [|contradiction].
      destruct Ht as [Ht | (k' & id' & p' & HD' & _ & _ & Hall)]; [congruence|].
      rewrite HD in HD'. inversion HD'; subst. apply Hall. exact Hin.
Qed.

Lemma cached_good D s d t : Inv D s -> inst s d = Some t -> Good D (stack s) d.
Proof.
  intros HI Hd.
  assert (Good D [] d) as HG.
  { pose proof (I_tab D s HI d) as Ht. rewrite Hd in Ht.
    destruct Ht as [Ht | (k & id & p & _ & _ & HG & _)]; [|exact HG].
    apply Good_val with t; [reflexivity | exact Ht]. }
  change (stack s) with ([] ++ stack s).
  apply good_avoid with s; try assumption.
  - congruence.
  - apply (I_stk D s HI).
Qed.

Lemma cached_source D s d t : Inv D s -> inst s d = Some t -> source D d = Some (tok_source t).
Proof.
  intros HI Hd. pose proof (I_tab D s HI d) as Ht. rewrite Hd in Ht. unfold source.
  destruct Ht as [Ht | (k & id & p & HD & Hs & _)]; rewrite ?Ht, ?HD; [reflexivity|].
  rewrite Hs. reflexivity.
Qed.

(** * Fuel measure: keys not on the stack *)

Definition avail (s : state) : nat :=
  length (filter (fun k => negb (mem k (stack s))) (keys s)).

Lemma filter_length_le {A} (p : A -> bool) l : (length (filter p l) <= length l)%nat.
Proof. induction l as [|x l IH]; simpl; [lia|]. destruct (p x); simpl; lia. Qed.

Lemma filter_length_mono {A} (p q : A -> bool) l :
  (forall x, q x = true -> p x = true) -> (length (filter q l) <= length (filter p l))%nat.
Proof.
  intro H. induction l as [|x l IH]; simpl; [lia|].
  destruct (q x) eqn:Eq.
  - rewrite (H x Eq). simpl. lia.
  - destruct (p x); simpl; lia.
Qed.

Lemma filter_length_lt {A} (p q : A -> bool) l a :
  (forall x, q x = true -> p x = true) -> In a l -> p a = true -> q a = false ->
  (length (filter q l) < length (filter p l))%nat.
Proof.
  intros H. induction l as [|x l IH]; simpl; [tauto|].
  intros [->|Hin] Hp Hq.
  - rewrite Hp, Hq. simpl. pose proof (filter_length_mono p q l H). lia.
  - specialize (IH Hin Hp Hq). destruct (q x) eqn:Eq.
    + rewrite (H x Eq). simpl. lia.
    + destruct (p x); simpl; lia.
Qed.

Lemma avail_le s : (avail s <= length (keys s))%nat.
Proof. apply filter_length_le. Qed.

Lemma avail_push n s : In n (keys s) -> mem n (stack s) = false -> (avail (push n s) < avail s)%nat.
Proof.
  intros Hin Hm. unfold avail. cbn [push stack keys].
  apply filter_length_lt with n; try assumption.
  - intros x. cbn [mem]. rewrite !negb_true_iff, orb_false_iff. tauto.
  - rewrite Hm. reflexivity.
  - cbn [mem]. rewrite N.eqb_refl. reflexivity.
Qed.

(** * The main refinement lemma *)

Definition rt (D : defs) := clos_refl_trans name (edge D).

Definition Post (D : defs) (s : state) (n : name) (s' : state) (r : gres) : Prop :=
  Inv D s' /\ stack s' = stack s /\ keys s' = keys s /\
  (forall m t, inst s m = Some t -> inst s' m = Some t) /\
  (forall m, runs s' m <> runs s m -> inst s m = None /\ mem m (stack s) = false /\ rt D n m) /\
  match r with
  | GOk t => inst s' n = Some t /\
             (inst s n = Some t \/
              (inst s n = None /\ Good D (stack s) n /\ source D n = Some (tok_source t) /\
               t_num t = runs s' n /\ runs s' n = N.succ (runs s n)))
  | GErr => inst s n = None /\ ~ Good D (stack s) n /\ inst s' n = None
  | GFuel => False
  end.

Definition PostDeps (D : defs) (s : state) (ds : list (name * bool)) (s' : state) (r : rres) : Prop :=
  Inv D s' /\ stack s' = stack s /\ keys s' = keys s /\
  (forall m t, inst s m = Some t -> inst s' m = Some t) /\
  (forall m, runs s' m <> runs s m ->
             inst s m = None /\ mem m (stack s) = false /\ exists d o, In (d, o) ds /\ rt D d m) /\
  match r with
  | ROk => forall d, In (d, false) ds -> inst s' d <> None /\ Good D (stack s) d
  | RErr => exists d, In (d, false) ds /\ ~ Good D (stack s) d
  | RFuel => False
  end.

Definition get_spec (D : defs) (g : state -> name -> state * gres) (b : nat) : Prop :=
  forall s n s' r, Inv D s -> (avail s < b)%nat -> g s n = (s', r) -> Post D s n s' r.

Lemma avail_same s s' : stack s' = stack s -> keys s' = keys s -> avail s' = avail s.
Proof. intros H1 H2. unfold avail. rewrite H1, H2. reflexivity. Qed.

Lemma deps_inv D g b : get_spec D g b ->
  forall ds s s' l r, Inv D s -> (avail s < b)%nat -> run_deps g s ds = (s', l, r) ->
  PostDeps D s ds s' r.
Proof.
  intros Hg. induction ds as [|[d opt] ds IH]; intros s s' l r HI Hb Hrun.
  - cbn in Hrun. inversion Hrun; subst. unfold PostDeps.
    split; [exact HI|]. split; [reflexivity|]. split; [reflexivity|]. split; [auto|].
    split; [intros m Hne; congruence|]. intros d [].
  - cbn [run_deps] in Hrun. destruct (g s d) as [s1 r1] eqn:Eg.
    pose proof (Hg s d s1 r1 HI Hb Eg) as (HI1 & Hst1 & Hk1 & Hmono1 & Hlazy1 & Hres1).
    assert (avail s1 < b)%nat as Hb1 by (rewrite (avail_same s s1); assumption).
    assert (forall s2 l2 r2, run_deps g s1 ds = (s2, l2, r2) ->
            (match r1 with GOk _ => True | GErr => opt = true | GFuel => False end) ->
            PostDeps D s ((d, opt) :: ds) s2 r2) as Hcont.
    { intros s2 l2 r2 Hrest Hr1.
      pose proof (IH s1 s2 l2 r2 HI1 Hb1 Hrest) as (HI2 & Hst2 & Hk2 & Hmono2 & Hlazy2 & Hres2).
      split; [exact HI2|]. split; [congruence|]. split; [congruence|].
      split; [intros m t Hm; apply Hmono2, Hmono1, Hm|].
      split.
      { intros m Hne. destruct (N.eq_dec (runs s1 m) (runs s m)) as [E|E].
        - rewrite <- E in Hne. destruct (Hlazy2 m Hne) as (Hn1 & Hms & d' & o' & Hin & Hrt).
          split; [|split].
          + destruct (inst s m) as [t|] eqn:Em; [|reflexivity]. apply Hmono1 in Em. congruence.
          + rewrite <- Hst1. exact Hms.
          + exists d', o'. split; [right; exact Hin | exact Hrt].
        - destruct (Hlazy1 m E) as (Hn & Hms & Hrt). split; [exact Hn|]. split; [exact Hms|].
          exists d, opt. split; [left; reflexivity | exact Hrt]. }
      destruct r2.
      - intros d' [Heq | Hin].
        + inversion Heq; subst d' opt. destruct r1 as [t| |]; [|discriminate|contradiction].
          destruct Hres1 as (Hs1 & Hor). split.
          * apply Hmono2 in Hs1. congruence.
          * destruct Hor as [Hc | (_ & HG & _)]; [|exact HG].
            apply (cached_good D s d t HI Hc).
        + destruct (Hres2 d' Hin) as (Ha & Hb'). split; [exact Ha|]. rewrite <- Hst1. exact Hb'.
      - destruct Hres2 as (d' & Hin & Hng). exists d'. split; [right; exact Hin|].
        rewrite <- Hst1. exact Hng.
      - exact Hres2. }
    destruct r1 as [t| |].
    + destruct (run_deps g s1 ds) as [[s2 l2] r2] eqn:Erest. inversion Hrun; subst.
      eapply Hcont; [reflexivity | exact I].
    + destruct opt.
      * destruct (run_deps g s1 ds) as [[s2 l2] r2] eqn:Erest. inversion Hrun; subst.
        eapply Hcont; [reflexivity | reflexivity].
      * inversion Hrun; subst. split; [exact HI1|]. split; [exact Hst1|]. split; [exact Hk1|].
        split; [exact Hmono1|]. split.
        { intros m Hne. destruct (Hlazy1 m Hne) as (Hn & Hms & Hrt). split; [exact Hn|].
          split; [exact Hms|].
          exists d, false. split; [left; reflexivity | exact Hrt]. }
        exists d. split; [left; reflexivity|]. apply Hres1.
    + destruct Hres1.
Qed.

Lemma Inv_push D s n : Inv D s -> inst s n = None -> Inv D (push n s).
Proof.
  intros HI Hn. destruct HI as [H1 H2 H3 H4 H5].
  constructor; cbn [push blocked dinst inst stack keys fac dfac]; auto.
  intros m Hm. cbn [mem] in Hm. apply orb_true_iff in Hm as [Hm|Hm].
  - apply N.eqb_eq in Hm. subst. exact Hn.
  - apply H4. exact Hm.
Qed.

Lemma Inv_pop D s : Inv D s -> Inv D (pop s).
Proof.
  intros [H1 H2 H3 H4 H5]. constructor; cbn [pop blocked dinst inst stack keys fac dfac]; auto.
  intros m Hm. apply H4. destruct (stack s) as [|x st]; [discriminate|].
  cbn [tl] in Hm. cbn [mem]. rewrite Hm. apply orb_true_r.
Qed.

(** storing the product of a factory *)
Lemma Inv_store D s n k id p t :
  Inv D s -> mem n (stack s) = false ->
  D n = Some (EFac k id p) -> tok_source t = (n, k, id) -> Good D [] n ->
  (forall d, In (d, false) (deps p) -> inst s d <> None) ->
  forall s', inst s' = upd (inst s) n (Some t) ->
    (forall m, m <> n -> fac s' m = fac s m) -> (forall m, m <> n -> dfac s' m = dfac s m) ->
    dinst s' = dinst s -> keys s' = keys s -> blocked s' = blocked s -> stack s' = stack s ->
    Inv D s'.
Proof.
  intros [H1 H2 H3 H4 H5] Hm HD Hsrc HG Hall s' Ei Ef Edf Edi Ek Eb Es.
  constructor.
  - congruence.
  - intro m. rewrite Edi. apply H2.
  - intro m. unfold Built. rewrite Ei. destruct (N.eq_dec m n) as [->|Hne].
    + rewrite upd_same. right. exists k, id, p. repeat split; try assumption.
      intros d Hin. destruct (N.eq_dec d n) as [->|Hdn]; [rewrite upd_same; discriminate|].
      rewrite upd_other by exact Hdn. apply Hall. exact Hin.
    + rewrite upd_other by exact Hne. specialize (H3 m). destruct (inst s m) as [tm|].
      * destruct H3 as [H3 | (k' & id' & p' & Ha & Hb & Hc & Hd)]; [left; exact H3|].
        right. exists k', id', p'. repeat split; try assumption.
        intros d Hin. destruct (N.eq_dec d n) as [->|Hdn]; [rewrite upd_same; discriminate|].
        rewrite upd_other by exact Hdn. apply Hd. exact Hin.
      * rewrite H3. unfold effF. rewrite (Ef m Hne), (Edf m Hne). reflexivity.
  - intros m Hmem. rewrite Es in Hmem. rewrite Ei.
    destruct (N.eq_dec m n) as [->|Hne]; [congruence|].
    rewrite upd_other by exact Hne. apply H4. exact Hmem.
  - intros m k' id' p' HDm. rewrite Ek. eapply H5. exact HDm.
Qed.

Lemma call_inv D g b s n k id p s' r :
  get_spec D g b -> Inv D s -> (avail s <= b)%nat ->
  mem n (stack s) = false -> inst s n = None -> D n = Some (EFac k id p) ->
  call g s n k id p = (s', r) -> Post D s n s' r.
Proof.
  intros Hg HI Hb Hm Hn HD Hcall. unfold call in Hcall.
  destruct (run_deps g (push n s) (deps p)) as [[s2 l2] r2] eqn:Edeps.
  assert (Inv D (push n s)) as HI1 by (apply Inv_push; assumption).
  assert (avail (push n s) < b)%nat as Hb1.
  { pose proof (avail_push n s (I_key D s HI n k id p HD) Hm). lia. }
  pose proof (deps_inv D g b Hg (deps p) (push n s) s2 l2 r2 HI1 Hb1 Edeps)
    as (HI2 & Hst2 & Hk2 & Hmono2 & Hlazy2 & Hres2).
  cbn [push stack keys inst runs] in Hst2, Hk2, Hmono2, Hlazy2, Hres2.
  assert (Inv D (pop s2)) as HI3 by (apply Inv_pop; exact HI2).
  assert (stack (pop s2) = stack s) as Hst3 by (cbn [pop stack]; rewrite Hst2; reflexivity).
  assert (runs s2 n = N.succ (runs s n)) as Hrn.
  { destruct (N.eq_dec (runs s2 n) (upd (runs s) n (N.succ (runs s n)) n)) as [E|E].
    - rewrite upd_same in E. exact E.
    - destruct (Hlazy2 n E) as (_ & Hms & _). cbn [mem] in Hms. rewrite N.eqb_refl in Hms. discriminate. }
  assert (forall m, runs s2 m <> runs s m -> inst s m = None /\ mem m (stack s) = false /\ rt D n m) as Hlazy.
  { intros m Hne. destruct (N.eq_dec (runs s2 m) (upd (runs s) n (N.succ (runs s n)) m)) as [E|E].
    - rewrite E in Hne. destruct (N.eq_dec m n) as [->|Hmn].
      + split; [exact Hn|]. split; [exact Hm | apply rt_refl].
      + rewrite upd_other in Hne by exact Hmn. congruence.
    - destruct (Hlazy2 m E) as (Hnm & Hms & d & o & Hin & Hrt). split; [exact Hnm|].
      cbn [mem] in Hms. apply orb_false_iff in Hms as [_ Hms]. split; [exact Hms|].
      apply rt_trans with d; [|exact Hrt]. apply rt_step. exists k, id, p, o. split; assumption. }
  assert (inst s2 n = None) as Hn2.
  { apply (I_stk D s2 HI2). rewrite Hst2. cbn [mem]. rewrite N.eqb_refl. reflexivity. }
  assert (~ Good D (stack s) n -> Post D s n (pop s2) GErr) as Herr.
  { intro Hng. split; [exact HI3|]. split; [exact Hst3|]. split; [exact Hk2|].
    split; [exact Hmono2|]. split; [exact Hlazy|]. split; [exact Hn|]. split; [exact Hng|].
    exact Hn2. }
  destruct r2.
  - destruct (fails p || returns_nil p) eqn:Efl.
    + inversion Hcall; subst. apply Herr. intro HG. inversion HG; subst; try congruence.
      rewrite HD in H0. inversion H0; subst. rewrite H1, H2 in Efl. discriminate.
    + apply orb_false_iff in Efl as [Ef1 Ef2].
      cbn [push runs] in Hcall. rewrite upd_same in Hcall.
      set (t := mkTok n k id (N.succ (runs s n))) in *.
      assert (Good D (stack s) n) as HGn.
      { apply Good_fac with k id p; try assumption. intros d Hin. apply Hres2. exact Hin. }
      assert (Good D [] n) as HG0.
      { apply Good_weaken with (stack s); [exact HGn|]. intros m Hmm. discriminate. }
      assert (mem n (stack (pop s2)) = false) as Hm3 by (rewrite Hst3; exact Hm).
      assert (forall d, In (d, false) (deps p) -> inst (pop s2) d <> None) as Hall
        by (intros d Hin; apply Hres2; exact Hin).
      assert (Inv D s' /\ inst s' = upd (inst s2) n (Some t) /\ stack s' = stack s /\
              keys s' = keys s /\ runs s' = runs s2 /\ r = GOk t) as (HI' & Ei' & Es' & Ek' & Er' & ->).
      { destruct k; inversion Hcall; subst s' r;
          (split; [eapply (Inv_store D (pop s2) n _ id p t HI3 Hm3 HD eq_refl HG0 Hall);
                   cbn [store_fac store_dfac pop inst fac dfac dinst keys blocked stack]; try reflexivity;
                   intros m Hne; apply upd_other; exact Hne
                  | cbn [store_fac store_dfac pop inst fac dfac dinst keys blocked stack runs];
                    repeat split; try reflexivity; try assumption ]). }
      split; [exact HI'|]. split; [exact Es'|]. split; [exact Ek'|].
      split.
      { intros m tm Hmt. rewrite Ei'. destruct (N.eq_dec m n) as [->|Hne]; [congruence|].
        rewrite upd_other by exact Hne. apply Hmono2. exact Hmt. }
      split; [rewrite Er'; exact Hlazy|].
      split; [rewrite Ei'; apply upd_same|].
      right. split; [exact Hn|]. split; [exact HGn|]. split.
      { unfold source. rewrite HD. reflexivity. }
      rewrite Er'. split; [cbn; symmetry; exact Hrn | exact Hrn].
  - inversion Hcall; subst. apply Herr. intro HG. destruct Hres2 as (d & Hin & Hng).
    inversion HG; subst; try congruence.
    rewrite HD in H0. inversion H0; subst. apply Hng. apply H3. exact Hin.
  - destruct Hres2.
Qed.

Lemma Post_hit D s n t : Inv D s -> inst s n = Some t -> Post D s n s (GOk t).
Proof.
  intros HI Hn. split; [exact HI|]. split; [reflexivity|]. split; [reflexivity|].
  split; [auto|]. split; [intros m Hne; congruence|]. split; [exact Hn | left; exact Hn].
Qed.

Lemma Post_miss D s n : Inv D s -> inst s n = None -> ~ Good D (stack s) n -> Post D s n s GErr.
Proof.
  intros HI Hn Hng. split; [exact HI|]. split; [reflexivity|]. split; [reflexivity|].
  split; [auto|]. split; [intros m Hne; congruence|]. auto.
Qed.

Lemma get_inv D : forall f, get_spec D (get f) f.
Proof.
  induction f as [|f IH]; intros s n s' r HI Hb Hget; [lia|].
  cbn [get] in Hget. rewrite (block_id s (I_blk D s HI)) in Hget.
  destruct (mem n (stack s)) eqn:Em.
  { inversion Hget; subst. apply Post_miss; [exact HI | apply (I_stk D s' HI); exact Em |].
    intro HG. apply Good_not_mem in HG. congruence. }
  pose proof (I_tab D s HI n) as Ht.
  destruct (inst s n) as [t|] eqn:En.
  { inversion Hget; subst. apply Post_hit; assumption. }
  unfold effF in Ht.
  destruct (fac s n) as [[id p]|] eqn:Ef.
  { eapply call_inv; try eassumption. lia. }
  destruct (dfac s n) as [[id p]|] eqn:Edf.
  { eapply call_inv; try eassumption. lia. }
  inversion Hget; subst. apply Post_miss; try assumption.
  intro HG. inversion HG; congruence.
Qed.

(** * Well-formed top-level states *)

Record WF (s : state) : Prop := {
  W_stk : stack s = [];
  W_key : forall n k id p, eff s n = Some (EFac k id p) -> In n (keys s);
  W_din : blocked s = true -> forall n, dinst s n = None;
  W_kin : blocked s = false -> forall n t, inst s n = Some t -> t_kind t = KInst
}.

Lemma WF_init : WF init.
Proof. constructor; cbn; try discriminate; reflexivity. Qed.

Lemma eff_frozen s n : dinst s n = None ->
  eff s n = match inst s n with Some t => Some (EVal t) | None => effF s n end.
Proof. intro H. unfold eff, effF. rewrite H. destruct (inst s n); reflexivity. Qed.

Lemma Inv_of_WF s : WF s -> blocked s = true -> Inv (eff s) s.
Proof.
  intros [H1 H2 H3 H4] Hb. constructor.
  - exact Hb.
  - apply H3. exact Hb.
  - intro n. rewrite (eff_frozen s n (H3 Hb n)). destruct (inst s n); [left|]; reflexivity.
  - intros n Hm. rewrite H1 in Hm. discriminate.
  - exact H2.
Qed.

Lemma block_dinst s n : dinst (block s) n = if blocked s then dinst s n else None.
Proof. unfold block. destruct (blocked s); reflexivity. Qed.

Lemma WF_block s : WF s -> WF (block s).
Proof.
  intros [H1 H2 H3 H4]. constructor.
  - rewrite block_stack. exact H1.
  - intros n k id p He. rewrite eff_block in He. rewrite block_keys. eapply H2. exact He.
  - intros _ n. rewrite block_dinst. destruct (blocked s) eqn:E; [apply H3; reflexivity | reflexivity].
  - rewrite block_blocked. discriminate.
Qed.

Lemma WF_of_Inv D s : Inv D s -> stack s = [] -> WF s.
Proof.
  intros HI Hs. constructor.
  - exact Hs.
  - intros n k id p He. rewrite (eff_frozen s n (I_din D s HI n)) in He.
    pose proof (I_tab D s HI n) as Ht. destruct (inst s n); [discriminate|].
    rewrite <- Ht in He. eapply (I_key D s HI). exact He.
  - intros _. apply (I_din D s HI).
  - rewrite (I_blk D s HI). discriminate.
Qed.


Lemma Get_block_eq s n : Get s n = Get (block s) n.
Proof. unfold Get, fuel_of. rewrite block_keys. cbn [get]. rewrite block_idem. reflexivity. Qed.

Lemma Inject_block_eq s d o fs : Inject s ((d, o) :: fs) = Inject (block s) ((d, o) :: fs).
Proof.
  unfold Inject, fuel_of. rewrite block_keys. cbn [run_deps get]. rewrite block_idem. reflexivity.
Qed.

Lemma fuel_ok s : (avail s < fuel_of s)%nat.
Proof. unfold fuel_of. pose proof (avail_le s). lia. Qed.

Lemma Get_inv D s n s' r : Inv D s -> Get s n = (s', r) -> Post D s n s' r.
Proof. intros HI H. eapply (get_inv D (fuel_of s)); [exact HI | apply fuel_ok | exact H]. Qed.

Lemma Inject_inv D s fs s' l r : Inv D s -> Inject s fs = (s', l, r) -> PostDeps D s fs s' r.
Proof.
  intros HI H. eapply (deps_inv D (get (fuel_of s)) (fuel_of s));
    [apply get_inv | exact HI | apply fuel_ok | exact H].
Qed.

(** the definition set of a (possibly not yet frozen) state *)
Definition defs_of (s : state) : defs := eff (block s).

Lemma Inv_defs_of s : WF s -> Inv (defs_of s) (block s).
Proof. intro H. apply Inv_of_WF; [apply WF_block; exact H | apply block_blocked]. Qed.

Lemma Get_WF s n s' r : WF s -> Get s n = (s', r) -> Post (defs_of s) (block s) n s' r.
Proof. intros H E. rewrite Get_block_eq in E. eapply Get_inv; [apply Inv_defs_of; exact H | exact E]. Qed.

(** * Frozen states reachable from a definition set *)

Definition Reach (D : defs) (s : state) : Prop := Inv D s /\ stack s = [].

Lemma Reach_block s : WF s -> Reach (defs_of s) (block s).
Proof. intro H. split; [apply Inv_defs_of; exact H|]. rewrite block_stack. apply (W_stk s H). Qed.

Lemma def_blocked s o : blocked s = true -> is_def o = true -> step s o = (s, UDef false).
Proof.
  intros Hb Hd. destruct o; try discriminate; cbn [step];
    unfold set_, set_default, add_factory, add_default_factory; rewrite Hb; reflexivity.
Qed.

(** what one step does to a frozen state *)
Definition StepFrame (D : defs) (s s' : state) : Prop :=
  Reach D s' /\ keys s' = keys s /\
  (forall m t, inst s m = Some t -> inst s' m = Some t) /\
  (forall m, runs s' m <> runs s m -> inst s m = None).

Lemma step_Reach D s o : Reach D s -> StepFrame D s (fst (step s o)).
Proof.
  intros [HI Hs].
  assert (StepFrame D s s) as Hrefl.
  { split; [split; assumption|]. split; [reflexivity|]. split; [auto|]. intros m Hne. congruence. }
  destruct o; try (rewrite def_blocked; [exact Hrefl | apply (I_blk D s HI) | reflexivity]).
  - cbn [step]. destruct (Get s n) as [s' r] eqn:E. cbn [fst].
    destruct (Get_inv D s n s' r HI E) as (HI' & Hst & Hk & Hmono & Hlazy & _).
    split; [split; [exact HI' | congruence]|]. split; [exact Hk|]. split; [exact Hmono|].
    intros m Hne. apply Hlazy. exact Hne.
  - cbn [step]. destruct (Inject s fs) as [[s' l] r] eqn:E. cbn [fst].
    destruct (Inject_inv D s fs s' l r HI E) as (HI' & Hst & Hk & Hmono & Hlazy & _).
    split; [split; [exact HI' | congruence]|]. split; [exact Hk|]. split; [exact Hmono|].
    intros m Hne. apply Hlazy. exact Hne.
Qed.

Lemma run_app ops1 ops2 s : run (ops1 ++ ops2) s = run ops2 (run ops1 s).
Proof. unfold run. apply fold_left_app. Qed.

Lemma run_cons o ops s : run (o :: ops) s = run ops (fst (step s o)).
Proof. reflexivity. Qed.

Lemma run_Reach D ops : forall s, Reach D s -> StepFrame D s (run ops s).
Proof.
  induction ops as [|o ops IH]; intros s HR.
  - cbn. destruct HR as [HI Hs]. split; [split; assumption|]. split; [reflexivity|].
    split; [auto|]. intros m Hne. congruence.
  - rewrite run_cons. destruct (step_Reach D s o HR) as (HR1 & Hk1 & Hm1 & Hl1).
    destruct (IH _ HR1) as (HR2 & Hk2 & Hm2 & Hl2).
    split; [exact HR2|]. split; [congruence|]. split; [intros m t H; apply Hm2, Hm1, H|].
    intros m Hne. destruct (N.eq_dec (runs (fst (step s o)) m) (runs s m)) as [E|E].
    + rewrite <- E in Hne. apply Hl2 in Hne.
      destruct (inst s m) eqn:Em; [|reflexivity]. apply Hm1 in Em. congruence.
    + apply Hl1. exact E.
Qed.

(** * WF is an invariant of every program *)

Lemma eff_upd_other_inst s n x m (s' : state) :
  m <> n -> inst s' = upd (inst s) n x -> fac s' = fac s -> dinst s' = dinst s -> dfac s' = dfac s ->
  eff s' m = eff s m.
Proof. intros Hne E1 E2 E3 E4. unfold eff. rewrite E1, E2, E3, E4, upd_other by exact Hne. reflexivity. Qed.

Ltac split_if :=
  repeat match goal with
         | |- context [if ?c then _ else _] => destruct c eqn:?; cbn [fst snd]
         end.

Lemma eff_other_gen (s s' : state) n m :
  m <> n ->
  (inst s' m = inst s m) -> (fac s' m = fac s m) -> (dinst s' m = dinst s m) -> (dfac s' m = dfac s m) ->
  eff s' m = eff s m.
Proof. intros _ E1 E2 E3 E4. unfold eff. rewrite E1, E2, E3, E4. reflexivity. Qed.

Lemma WF_def s o : WF s -> is_def o = true -> WF (fst (step s o)).
Proof.
  intros HW Hd.
  assert (forall s' n, stack s' = stack s -> keys s' = add_key n (keys s) -> blocked s' = false ->
            blocked s = false ->
            (forall m, m <> n -> eff s' m = eff s m) ->
            (forall m, dinst s' m <> None -> True) ->
            (forall m t, inst s' m = Some t -> inst s m = Some t \/ t_kind t = KInst) ->
            WF s') as Hgen.
  { intros s' n Es Ek Eb Hb He _ Hi. constructor.
    - rewrite Es. apply (W_stk s HW).
    - intros m k id p Hm. rewrite Ek. destruct (N.eq_dec m n) as [->|Hne]; [apply in_add_key|].
      apply incl_add_key. apply (W_key s HW m k id p). rewrite <- He by exact Hne. exact Hm.
    - rewrite Eb. discriminate.
    - intros _ m t Hm. destruct (Hi m t Hm) as [H|H]; [|exact H]. apply (W_kin s HW Hb m t H). }
  destruct o as [n v|n v|n id p|n id p| |]; try discriminate; cbn [step].
  - unfold set_. split_if; try exact HW.
    apply Hgen with n; cbn [stack keys blocked inst]; try reflexivity; try assumption; auto.
    + intros m Hne. apply eff_other_gen with n; cbn; try reflexivity; try assumption.
      apply upd_other; exact Hne.
    + intros m t. destruct (N.eq_dec m n) as [->|Hne].
      * rewrite upd_same. intro E. inversion E. right. reflexivity.
      * rewrite upd_other by exact Hne. auto.
  - unfold set_default. split_if; try exact HW.
    apply Hgen with n; cbn [stack keys blocked inst]; try reflexivity; try assumption; auto.
    intros m Hne. apply eff_other_gen with n; cbn; try reflexivity; try assumption.
    apply upd_other; exact Hne.
  - unfold add_factory. split_if; try exact HW.
    apply Hgen with n; cbn [stack keys blocked inst]; try reflexivity; try assumption; auto.
    intros m Hne. apply eff_other_gen with n; cbn; try reflexivity; try assumption;
      apply upd_other; exact Hne.
  - unfold add_default_factory. split_if; try exact HW.
    apply Hgen with n; cbn [stack keys blocked inst]; try reflexivity; try assumption; auto.
    intros m Hne. apply eff_other_gen with n; cbn; try reflexivity; try assumption;
      apply upd_other; exact Hne.
Qed.

Lemma WF_step s o : WF s -> WF (fst (step s o)).
Proof.
  intro HW. destruct (is_def o) eqn:Ed; [apply WF_def; assumption|].
  destruct o; try discriminate; cbn [step].
  - destruct (Get s n) as [s' r] eqn:E. cbn [fst].
    destruct (Get_WF s n s' r HW E) as (HI & Hst & _).
    apply (WF_of_Inv _ _ HI). rewrite Hst, block_stack. apply (W_stk s HW).
  - destruct fs as [|[d o] fs].
    + cbn. exact HW.
    + rewrite Inject_block_eq. destruct (Inject (block s) ((d, o) :: fs)) as [[s' l] r] eqn:E. cbn [fst].
      destruct (Inject_inv _ _ _ _ _ _ (Inv_defs_of s HW) E) as (HI & Hst & _).
      apply (WF_of_Inv _ _ HI). rewrite Hst, block_stack. apply (W_stk s HW).
Qed.

Lemma WF_run ops : forall s, WF s -> WF (run ops s).
Proof. induction ops as [|o ops IH]; intros s H; [exact H|]. rewrite run_cons. apply IH, WF_step, H. Qed.

Lemma WF_reachable ops : WF (run ops init).
Proof. apply WF_run, WF_init. Qed.

(** * Extensionality in the definition set *)

Definition deq (D D' : defs) : Prop := forall n, D n = D' n.

Lemma Good_ext D D' vis n : deq D D' -> Good D vis n -> Good D' vis n.
Proof.
  intros He. induction 1 as [vis n t Hm HD | vis n k id p Hm HD Hf Hn Hd IH].
  - apply Good_val with t; [exact Hm | rewrite <- He; exact HD].
  - apply Good_fac with k id p; try assumption. rewrite <- He; exact HD.
Qed.

Lemma edge_ext D D' a b : deq D D' -> edge D a b -> edge D' a b.
Proof. intros He (k & id & p & o & H1 & H2). exists k, id, p, o. rewrite <- He. auto. Qed.

Lemma req_edge_ext D D' a b : deq D D' -> req_edge D a b -> req_edge D' a b.
Proof. intros He (k & id & p & H1 & H2). exists k, id, p. rewrite <- He. auto. Qed.

Lemma rt_ext D D' a b : deq D D' -> rt D a b -> rt D' a b.
Proof.
  intros He. induction 1.
  - apply rt_step. eapply edge_ext; eassumption.
  - apply rt_refl.
  - eapply rt_trans; eassumption.
Qed.

Lemma ct_ext D D' a b : deq D D' ->
  clos_trans name (req_edge D) a b -> clos_trans name (req_edge D') a b.
Proof.
  intros He. induction 1.
  - apply t_step. eapply req_edge_ext; eassumption.
  - eapply t_trans; eassumption.
Qed.

Lemma deq_defs_of s : deq (defs_of s) (eff s).
Proof. intro n. apply eff_block. Qed.

Lemma deq_sym D D' : deq D D' -> deq D' D.
Proof. intros H n. symmetry. apply H. Qed.

(** * Fuel *)

Lemma fuel_get ops n : snd (Get (run ops init) n) <> GFuel.
Proof.
  destruct (Get (run ops init) n) as [s' r] eqn:E. cbn [snd].
  destruct (Get_WF _ _ _ _ (WF_reachable ops) E) as (_ & _ & _ & _ & _ & Hr).
  intro; subst. exact Hr.
Qed.

Lemma fuel_inject ops fs : snd (Inject (run ops init) fs) <> RFuel.
Proof.
  destruct fs as [|[d o] fs]; [cbn; discriminate|].
  rewrite Inject_block_eq.
  destruct (Inject (block (run ops init)) ((d, o) :: fs)) as [[s' l] r] eqn:E. cbn [snd].
  destruct (Inject_inv _ _ _ _ _ _ (Inv_defs_of _ (WF_reachable ops)) E) as (_ & _ & _ & _ & _ & Hr).
  intro; subst. exact Hr.
Qed.

(** * Lazy *)

Definition roots (o : op) : list name :=
  match o with OGet n => [n] | OInject fs => map fst fs | _ => [] end.

Lemma def_runs s o : is_def o = true -> runs (fst (step s o)) = runs s.
Proof.
  intro Hd. destruct o; try discriminate; cbn [step];
    unfold set_, set_default, add_factory, add_default_factory; split_if; reflexivity.
Qed.


Lemma lazy_wf s o m : WF s -> runs (fst (step s o)) m <> runs s m ->
  inst (block s) m = None /\
  exists r, In r (roots o) /\ clos_refl_trans name (edge (eff s)) r m.
Proof.
  intros HW Hne. destruct (is_def o) eqn:Ed; [rewrite def_runs in Hne by exact Ed; congruence|].
  destruct o; try discriminate; cbn [step] in Hne.
  - destruct (Get s n) as [s' r] eqn:E. cbn [fst] in Hne.
    destruct (Get_WF s n s' r HW E) as (_ & _ & _ & _ & Hlazy & _).
    rewrite block_runs in Hlazy. destruct (Hlazy m Hne) as (Hi & _ & Hrt).
    split; [exact Hi|]. exists n. split; [left; reflexivity|].
    apply (rt_ext _ _ _ _ (deq_defs_of s) Hrt).
  - destruct fs as [|[d o] fs]; [cbn in Hne; congruence|].
    rewrite Inject_block_eq in Hne.
    destruct (Inject (block s) ((d, o) :: fs)) as [[s' l] r] eqn:E. cbn [fst] in Hne.
    destruct (Inject_inv _ _ _ _ _ _ (Inv_defs_of s HW) E) as (_ & _ & _ & _ & Hlazy & _).
    rewrite block_runs in Hlazy. destruct (Hlazy m Hne) as (Hi & _ & d' & o' & Hin & Hrt).
    split; [exact Hi|]. exists d'. split.
    + cbn [roots]. apply (in_map fst) in Hin. exact Hin.
    + apply (rt_ext _ _ _ _ (deq_defs_of s) Hrt).
Qed.

Lemma lazy ops o m : let s := run ops init in
  runs (fst (step s o)) m <> runs s m ->
  inst (block s) m = None /\
  exists r, In r (roots o) /\ clos_refl_trans name (edge (eff s)) r m.
Proof. intros s. apply lazy_wf. apply WF_reachable. Qed.

(** * Once, same instance *)

Lemma Get_hit s n t : blocked s = true -> stack s = [] -> inst s n = Some t -> Get s n = (s, GOk t).
Proof.
  intros Hb Hs Hn. unfold Get, fuel_of. cbn [get]. rewrite (block_id s Hb), Hs. cbn [mem].
  rewrite Hn. reflexivity.
Qed.

Lemma Get_ok_Reach s n s1 t : WF s -> Get s n = (s1, GOk t) ->
  Reach (defs_of s) s1 /\ inst s1 n = Some t.
Proof.
  intros HW E. destruct (Get_WF s n s1 _ HW E) as (HI & Hst & _ & _ & _ & Hn & _).
  split; [split; [exact HI|]|exact Hn]. rewrite Hst, block_stack. apply (W_stk s HW).
Qed.

Lemma same_instance_wf s n s1 t ops' : WF s -> Get s n = (s1, GOk t) ->
  let s2 := run ops' s1 in
  Get s2 n = (s2, GOk t) /\ runs s2 n = runs s1 n /\ inst s2 n = Some t.
Proof.
  intros HW E s2. destruct (Get_ok_Reach s n s1 t HW E) as (HR & Hn).
  destruct (run_Reach _ ops' s1 HR) as ((HI2 & Hs2) & _ & Hmono & Hruns).
  fold s2 in HI2, Hs2, Hmono, Hruns.
  assert (inst s2 n = Some t) as Hn2 by (apply Hmono; exact Hn).
  split; [apply Get_hit; [apply (I_blk _ _ HI2) | exact Hs2 | exact Hn2]|].
  split; [|exact Hn2].
  destruct (N.eq_dec (runs s2 n) (runs s1 n)) as [Eq|Ne]; [exact Eq|].
  apply Hruns in Ne. congruence.
Qed.

(** * Inject = Gets *)

Lemma Inject_nil s : Inject s [] = (s, [], ROk).
Proof. reflexivity. Qed.

Lemma Inject_cons_wf s d o fs : WF s ->
  Inject s ((d, o) :: fs) =
  let (s1, r) := Get s d in
  match r with
  | GOk t => let '(s2, l, rr) := Inject s1 fs in (s2, Some t :: l, rr)
  | GErr => if o then let '(s2, l, rr) := Inject s1 fs in (s2, None :: l, rr) else (s1, [], RErr)
  | GFuel => (s1, [], RFuel)
  end.
Proof.
  intro HW. unfold Inject at 1. cbn [run_deps]. fold (Get s d).
  destruct (Get s d) as [s1 r] eqn:E.
  destruct (Get_WF s d s1 r HW E) as (_ & _ & Hk & _).
  assert (fuel_of s1 = fuel_of s) as Hf by (unfold fuel_of; rewrite Hk, block_keys; reflexivity).
  unfold Inject. rewrite Hf. reflexivity.
Qed.

(** * Frozen *)

Lemma blocked_after_get s n : WF s -> blocked (fst (Get s n)) = true.
Proof.
  intro HW. destruct (Get s n) as [s' r] eqn:E. cbn [fst].
  destruct (Get_WF s n s' r HW E) as (HI & _). apply (I_blk _ _ HI).
Qed.

Lemma blocked_after_inject s fs : WF s -> fs <> [] -> blocked (fst (fst (Inject s fs))) = true.
Proof.
  intros HW Hne. destruct fs as [|[d o] fs]; [congruence|]. rewrite Inject_block_eq.
  destruct (Inject (block s) ((d, o) :: fs)) as [[s' l] r] eqn:E. cbn [fst].
  destruct (Inject_inv _ _ _ _ _ _ (Inv_defs_of s HW) E) as (HI & _). apply (I_blk _ _ HI).
Qed.

Lemma blocked_run ops : forall s, WF s -> blocked s = true -> blocked (run ops s) = true.
Proof.
  intros s HW Hb.
  assert (Reach (eff s) s) as HR by (split; [apply Inv_of_WF; assumption | apply (W_stk s HW)]).
  destruct (run_Reach _ ops s HR) as ((HI & _) & _). apply (I_blk _ _ HI).
Qed.

Definition freezes (o : op) : bool :=
  match o with OGet _ => true | OInject (_ :: _) => true | _ => false end.

Lemma frozen ops1 rq ops2 o : freezes rq = true -> is_def o = true ->
  let s := run (ops1 ++ rq :: ops2) init in step s o = (s, UDef false).
Proof.
  intros Hf Hd s. apply def_blocked; [|exact Hd].
  unfold s. rewrite run_app, run_cons.
  pose proof (WF_reachable ops1) as HW.
  apply blocked_run; [apply WF_step; exact HW|].
  destruct rq as [| | | |n|fs]; try discriminate; cbn [step].
  - pose proof (blocked_after_get _ n HW) as H. destruct (Get (run ops1 init) n). exact H.
  - destruct fs as [|f fs]; [discriminate|].
    pose proof (blocked_after_inject _ (f :: fs) HW) as H.
    destruct (Inject (run ops1 init) (f :: fs)) as [[? ?] ?]. apply H. discriminate.
Qed.

(** * Cycles *)

Lemma Good_req_edge D vis n m : Good D vis n -> req_edge D n m -> Good D (n :: vis) m.
Proof.
  intros HG (k & id & p & HD & Hin). inversion HG; subst; [congruence|].
  rewrite HD in H0. inversion H0; subst. apply H3. exact Hin.
Qed.

Lemma Good_ct D n m : clos_trans name (req_edge D) n m ->
  forall vis, Good D vis n ->
  exists vis', Good D vis' m /\ forall x, mem x (n :: vis) = true -> mem x vis' = true.
Proof.
  intro H. apply clos_trans_t1n in H. induction H as [n m He | n y m He Hc IH]; intros vis HG.
  - exists (n :: vis). split; [eapply Good_req_edge; eassumption | auto].
  - pose proof (Good_req_edge D vis n y HG He) as HGy.
    destruct (IH _ HGy) as (vis' & HGm & Hsub).
    exists vis'. split; [exact HGm|]. intros x Hx. apply Hsub.
    change (mem x (y :: n :: vis)) with (N.eqb x y || mem x (n :: vis)).
    rewrite Hx. apply orb_true_r.
Qed.

Lemma Good_no_cycle D vis n : Good D vis n -> ~ clos_trans name (req_edge D) n n.
Proof.
  intros HG Hc. destruct (Good_ct D n n Hc vis HG) as (vis' & HG' & Hsub).
  apply Good_not_mem in HG'. rewrite Hsub in HG'; [discriminate|].
  cbn [mem]. rewrite N.eqb_refl. reflexivity.
Qed.

Lemma cycle_err ops n : let s := run ops init in
  clos_trans name (req_edge (eff s)) n n -> snd (Get s n) = GErr.
Proof.
  intros s Hc. pose proof (WF_reachable ops) as HW. fold s in HW.
  assert (forall vis, ~ Good (defs_of s) vis n) as Hng.
  { intros vis HG. apply (Good_no_cycle _ _ _ HG).
    apply (ct_ext _ _ _ _ (deq_sym _ _ (deq_defs_of s)) Hc). }
  destruct (Get s n) as [s' r] eqn:E. cbn [snd].
  destruct (Get_WF s n s' r HW E) as (_ & _ & _ & _ & _ & Hr).
  destruct r as [t| |]; [|reflexivity|contradiction].
  destruct Hr as (_ & [Hc' | (_ & HG & _)]).
  - exfalso. apply (Hng (stack (block s))). eapply cached_good; [apply Inv_defs_of; exact HW | exact Hc'].
  - exfalso. apply (Hng _ HG).
Qed.

(** * Get refines the memo-free resolution, from every reachable state *)

Definition refines_res (D : defs) (n : name) (r : gres) : Prop :=
  match r with
  | GOk t => Good D [] n /\ source D n = Some (tok_source t)
  | GErr => ~ Good D [] n
  | GFuel => False
  end.

Lemma Get_refines D s n s' r : Reach D s -> Get s n = (s', r) -> refines_res D n r.
Proof.
  intros [HI Hs] E. destruct (Get_inv D s n s' r HI E) as (_ & _ & _ & _ & _ & Hr).
  rewrite Hs in Hr. destruct r as [t| |]; cbn.
  - destruct Hr as (_ & [Hc | (_ & HG & Hsrc & _)]); [|auto].
    split; [|eapply cached_source; eassumption].
    rewrite <- Hs. eapply cached_good; eassumption.
  - apply Hr.
  - exact Hr.
Qed.

Lemma refines_ext D D' n r : deq D D' -> refines_res D n r -> refines_res D' n r.
Proof.
  intros He. destruct r as [t| |]; cbn; [| |auto].
  - intros [HG Hs]. split; [eapply Good_ext; eassumption|]. unfold source in *. rewrite <- He. exact Hs.
  - intros Hn HG. apply Hn. eapply Good_ext; [apply deq_sym; exact He | exact HG].
Qed.

Lemma refines ops reqs n : let s0 := run ops init in
  refines_res (eff s0) n (snd (Get (run reqs (block s0)) n)).
Proof.
  intros s0. pose proof (WF_reachable ops) as HW. fold s0 in HW.
  destruct (run_Reach _ reqs _ (Reach_block s0 HW)) as (HR & _).
  destruct (Get (run reqs (block s0)) n) as [s' r] eqn:E. cbn [snd].
  apply (refines_ext _ _ _ _ (deq_defs_of s0)). eapply Get_refines; eassumption.
Qed.

Lemma refines_same D n r1 r2 : refines_res D n r1 -> refines_res D n r2 ->
  is_ok r1 = is_ok r2 /\
  forall t1 t2, r1 = GOk t1 -> r2 = GOk t2 -> tok_source t1 = tok_source t2.
Proof.
  destruct r1 as [t1| |], r2 as [t2| |]; cbn; intros H1 H2; try contradiction;
    try (split; [reflexivity | intros; discriminate]).
  - split; [reflexivity|]. intros a b Ha Hb. inversion Ha; inversion Hb; subst.
    destruct H1 as [_ H1], H2 as [_ H2]. congruence.
  - exfalso. apply H2, H1.
  - exfalso. apply H1, H2.
Qed.

Lemma history_independent ops reqs n : let s0 := run ops init in
  let r1 := snd (Get (run reqs (block s0)) n) in
  let r0 := snd (Get s0 n) in
  is_ok r1 = is_ok r0 /\
  forall t1 t0, r1 = GOk t1 -> r0 = GOk t0 -> tok_source t1 = tok_source t0.
Proof.
  intros s0 r1 r0. apply (refines_same (eff s0) n).
  - apply refines.
  - unfold r0. rewrite Get_block_eq. apply (refines ops [] n).
Qed.

(** * An explicit definition wins over a default one, whatever the registration order *)

Definition XP (s : state) (n : name) : Prop :=
  (exists t, inst s n = Some t /\ explicit_kind (t_kind t) = true) \/
  (inst s n = None /\ fac s n <> None).

Definition explicit_def_on (o : op) (n : name) : bool :=
  match o with OSet m _ | OAddFactory m _ _ => N.eqb m n | _ => false end.

Lemma XP_source s n : XP s n ->
  exists src, source (eff s) n = Some src /\ explicit_kind (snd (fst src)) = true.
Proof.
  unfold source, eff. intros [(t & Hi & Hk) | (Hi & Hf)]; rewrite Hi.
  - eexists. split; [reflexivity | exact Hk].
  - destruct (fac s n) as [[id p]|]; [|congruence]. eexists. split; reflexivity.
Qed.

Lemma def_frame s o n : is_def o = true -> let s' := fst (step s o) in
  (inst s' n = inst s n \/
   (blocked s = false /\ inst s n = None /\ fac s n = None /\ exists v, inst s' n = Some (mkTok n KInst v 0) /\ o = OSet n v)) /\
  (fac s' n = fac s n \/ (blocked s = false /\ fac s n = None /\ exists id p, fac s' n = Some (id, p) /\ o = OAddFactory n id p)).
Proof.
  intros Hd. destruct o as [m v|m v|m id p|m id p| |]; try discriminate; cbn [step];
    unfold set_, set_default, add_factory, add_default_factory; split_if; cbn [fst inst fac]; auto.
  - destruct (N.eq_dec n m) as [->|Hne].
    + split; [right | left; reflexivity]. repeat split; try (apply isSome_false; assumption).
      exists v. rewrite upd_same. auto.
    + rewrite upd_other by exact Hne. auto.
  - destruct (N.eq_dec n m) as [->|Hne].
    + split; [left; reflexivity | right]. repeat split; try (apply isSome_false; assumption).
      exists id, p. rewrite upd_same. auto.
    + rewrite upd_other by exact Hne. auto.
Qed.

Lemma XP_def s o n : is_def o = true -> XP s n -> XP (fst (step s o)) n.
Proof.
  intros Hd HX. destruct (def_frame s o n Hd) as (Hi & Hf). cbv zeta in Hi, Hf.
  destruct HX as [(t & Ht & Hk) | (Hn & Hfn)].
  - left. exists t. split; [|exact Hk]. destruct Hi as [Hi | (_ & Hi & _)]; congruence.
  - destruct Hi as [Hi | (_ & _ & _ & v & Hv & _)].
    + right. split; [congruence|]. destruct Hf as [Hf | (_ & Hf & _)]; congruence.
    + left. eexists. split; [exact Hv | reflexivity].
Qed.

Lemma XP_accept s o n : WF s -> explicit_def_on o n = true -> snd (step s o) = UDef true ->
  XP (fst (step s o)) n.
Proof.
  intros HW He Hok.
  assert (blocked s = false) as Hb.
  { destruct (blocked s) eqn:Eb; [|reflexivity]. rewrite def_blocked in Hok; [discriminate | exact Eb |].
    destruct o; try discriminate; reflexivity. }
  destruct o as [m v| |m id p| | |]; try discriminate; cbn [explicit_def_on] in He;
    apply N.eqb_eq in He; subst m.
  - revert Hok. cbn [step]. unfold set_. rewrite Hb. split_if; cbn [snd fst]; try discriminate. intros _.
    left. eexists. cbn [inst]. rewrite upd_same. split; reflexivity.
  - revert Hok. cbn [step]. unfold add_factory. rewrite Hb. split_if; cbn [snd fst]; try discriminate. intros _.
    destruct (inst s n) as [t|] eqn:Ei.
    + left. exists t. cbn [inst]. split; [exact Ei|]. rewrite (W_kin s HW Hb n t Ei). reflexivity.
    + right. cbn [inst fac]. rewrite upd_same. split; [exact Ei | discriminate].
Qed.

Lemma source_Reach D s n : Reach D s -> source (eff s) n = source D n.
Proof.
  intros [HI _]. unfold source. rewrite (eff_frozen s n (I_din D s HI n)).
  pose proof (I_tab D s HI n) as Ht. destruct (inst s n) as [t|].
  - destruct Ht as [Ht | (k & id & p & HD & Hs & _)]; rewrite ?Ht, ?HD; [reflexivity|].
    unfold tok_source in Hs. congruence.
  - rewrite Ht. reflexivity.
Qed.

Lemma XP_of_source s n : WF s -> blocked s = true ->
  (exists src, source (eff s) n = Some src /\ explicit_kind (snd (fst src)) = true) -> XP s n.
Proof.
  intros HW Hb (src & Hs & Hk). unfold source in Hs.
  rewrite (eff_frozen s n (W_din s HW Hb n)) in Hs. unfold XP.
  destruct (inst s n) as [t|]; [left; exists t; split; [reflexivity|]; inversion Hs; subst; exact Hk|].
  right. split; [reflexivity|]. unfold effF in Hs. destruct (fac s n) as [[id p]|]; [discriminate|].
  destruct (dfac s n) as [[id p]|]; [|discriminate]. inversion Hs; subst. discriminate.
Qed.

Lemma XP_block s n : XP s n -> XP (block s) n.
Proof.
  unfold block. destruct (blocked s); [auto|]. unfold XP; cbn [inst fac].
  intros [(t & Hi & Hk) | (Hi & Hf)].
  - left. exists t. rewrite Hi. rewrite andb_false_r. auto.
  - right. rewrite Hi. destruct (fac s n); [|congruence]. cbn [isSome negb].
    rewrite andb_false_r. cbn. split; [reflexivity | discriminate].
Qed.

Lemma XP_step s o n : WF s -> XP s n -> XP (fst (step s o)) n.
Proof.
  intros HW HX. destruct (is_def o) eqn:Ed; [apply XP_def; assumption|].
  assert (forall s', StepFrame (defs_of s) (block s) s' -> XP s' n) as Hfr.
  { intros s' (HR & _). apply XP_of_source.
    - apply (WF_of_Inv _ _ (proj1 HR) (proj2 HR)).
    - apply (I_blk _ _ (proj1 HR)).
    - rewrite (source_Reach _ _ n HR).
      destruct (XP_source _ _ (XP_block s n HX)) as (src & Hs & Hk). exists src. split; [|exact Hk].
      exact Hs. }
  destruct o; try discriminate.
  - apply Hfr. pose proof (step_Reach _ _ (OGet n0) (Reach_block s HW)) as H.
    cbn [step] in *. rewrite <- Get_block_eq in H. exact H.
  - destruct fs as [|[d o] fs]; [exact HX|]. apply Hfr.
    pose proof (step_Reach _ _ (OInject ((d, o) :: fs)) (Reach_block s HW)) as H.
    cbn [step] in *. rewrite <- Inject_block_eq in H. exact H.
Qed.

Lemma XP_run ops n : forall s, WF s -> XP s n -> XP (run ops s) n.
Proof.
  induction ops as [|o ops IH]; intros s HW HX; [exact HX|].
  rewrite run_cons. apply IH; [apply WF_step; exact HW | apply XP_step; assumption].
Qed.

Lemma XP_get s n s' t : WF s -> XP s n -> Get s n = (s', GOk t) -> explicit_kind (t_kind t) = true.
Proof.
  intros HW HX E. destruct (XP_source _ _ (XP_block s n HX)) as (src & Hs & Hk).
  rewrite Get_block_eq in E.
  pose proof (Get_refines _ _ _ _ _ (Reach_block s HW) E) as [_ Hsrc].
  unfold defs_of in Hsrc. rewrite Hs in Hsrc. inversion Hsrc; subst. exact Hk.
Qed.

Lemma explicit_beats_default ops1 d ops2 n s' t :
  explicit_def_on d n = true -> snd (step (run ops1 init) d) = UDef true ->
  Get (run (ops1 ++ d :: ops2) init) n = (s', GOk t) -> explicit_kind (t_kind t) = true.
Proof.
  intros He Hok E. rewrite run_app, run_cons in E.
  pose proof (WF_reachable ops1) as HW.
  eapply XP_get; [| |exact E].
  - apply WF_run, WF_step, HW.
  - apply XP_run; [apply WF_step, HW|]. apply XP_accept; assumption.
Qed.

(** * The executable resolution agrees with [Good] *)

Lemma resolveb_sound D : forall f vis n, resolveb f D vis n = true -> Good D vis n.
Proof.
  induction f as [|f IH]; intros vis n H; [discriminate|]. cbn [resolveb] in H.
  destruct (mem n vis) eqn:Em; [discriminate|].
  destruct (D n) as [[t|k id p]|] eqn:ED; [| |discriminate].
  - apply Good_val with t; assumption.
  - apply andb_true_iff in H as [H H3]. apply andb_true_iff in H as [H1 H2].
    apply negb_true_iff in H1, H2.
    apply Good_fac with k id p; try assumption.
    intros d Hin. rewrite forallb_forall in H3. specialize (H3 _ Hin). cbn in H3. apply IH. exact H3.
Qed.

Lemma forall_fuel {A} (Q : nat -> A -> Prop) (l : list A) :
  (forall x, In x l -> exists f, forall f', (f <= f')%nat -> Q f' x) ->
  exists f, forall f', (f <= f')%nat -> forall x, In x l -> Q f' x.
Proof.
  induction l as [|a l IH]; intro H.
  - exists O. intros f' _ x [].
  - destruct (H a (or_introl eq_refl)) as (fa & Ha).
    destruct IH as (fl & Hl); [intros x Hx; apply H; right; exact Hx|].
    exists (Nat.max fa fl). intros f' Hf x [<-|Hx]; [apply Ha; lia | apply Hl; [lia | exact Hx]].
Qed.

Lemma resolveb_complete D vis n : Good D vis n ->
  exists f, forall f', (f <= f')%nat -> resolveb f' D vis n = true.
Proof.
  induction 1 as [vis n t Hm HD | vis n k id p Hm HD Hf Hn Hd IH].
  - exists 1%nat. intros f' Hle. destruct f'; [lia|]. cbn [resolveb]. rewrite Hm, HD. reflexivity.
  - destruct (forall_fuel (fun f' x => (snd x || resolveb f' D (n :: vis) (fst x)) = true) (deps p)) as (f & Hall).
    { intros [d [|]] Hin; [exists O; reflexivity|]. destruct (IH d Hin) as (f & Hfd). exists f. exact Hfd. }
    exists (S f). intros f' Hle. destruct f'; [lia|]. cbn [resolveb]. rewrite Hm, HD, Hf, Hn. cbn.
    apply forallb_forall. intros x Hx. apply Hall; [lia | exact Hx].
Qed.

Lemma resolveb_iff D vis n : Good D vis n <-> exists f, resolveb f D vis n = true.
Proof.
  split.
  - intro H. destruct (resolveb_complete D vis n H) as (f & Hf). exists f. apply Hf. lia.
  - intros (f & Hf). eapply resolveb_sound. exact Hf.
Qed.

(** * Statements over all programs [run ops init] *)

Lemma same_instance ops n s1 t ops' : Get (run ops init) n = (s1, GOk t) ->
  let s2 := run ops' s1 in
  Get s2 n = (s2, GOk t) /\ runs s2 n = runs s1 n /\ inst s2 n = Some t.
Proof. apply same_instance_wf, WF_reachable. Qed.

Lemma inject_cons ops d o fs : let s := run ops init in
  Inject s ((d, o) :: fs) =
  let (s1, r) := Get s d in
  match r with
  | GOk t => let '(s2, l, rr) := Inject s1 fs in (s2, Some t :: l, rr)
  | GErr => if o then let '(s2, l, rr) := Inject s1 fs in (s2, None :: l, rr) else (s1, [], RErr)
  | GFuel => (s1, [], RFuel)
  end.
Proof. intro s. apply Inject_cons_wf, WF_reachable. Qed.

(** the field of a later InjectTo gets the very instance an earlier Get returned *)
Lemma inject_same_instance ops n s1 t ops' o fs : Get (run ops init) n = (s1, GOk t) ->
  let s2 := run ops' s1 in
  Inject s2 ((n, o) :: fs) = let '(s3, l, rr) := Inject s2 fs in (s3, Some t :: l, rr).
Proof.
  intros E s2. pose proof (WF_reachable ops) as HW.
  destruct (Get_ok_Reach _ _ _ _ HW E) as ((HI1 & Hs1) & _).
  assert (WF s2) as HW2 by (apply WF_run, (WF_of_Inv _ _ HI1 Hs1)).
  rewrite (Inject_cons_wf s2 n o fs HW2).
  destruct (same_instance ops n s1 t ops' E) as (Hg & _). fold s2 in Hg. rewrite Hg. reflexivity.
Qed.

(** the construction number of a product is the value of its name's run counter *)
Lemma fresh_token ops n s1 t : let s := run ops init in
  Get s n = (s1, GOk t) -> inst (block s) n = None ->
  t_num t = runs s1 n /\ runs s1 n = N.succ (runs s n) /\ t_name t = n.
Proof.
  intros s E Hn. destruct (Get_WF s n s1 _ (WF_reachable ops) E) as (_ & _ & _ & _ & _ & _ & Hor).
  destruct Hor as [Hc | (_ & _ & Hsrc & Hnum & Hr)]; [congruence|].
  rewrite block_runs in Hr. split; [exact Hnum|]. split; [exact Hr|].
  unfold source, defs_of in Hsrc. rewrite (eff_frozen (block s) n) in Hsrc.
  - rewrite Hn in Hsrc. unfold effF in Hsrc.
    destruct (fac (block s) n) as [[? ?]|]; [inversion Hsrc; reflexivity|].
    destruct (dfac (block s) n) as [[? ?]|]; [inversion Hsrc; reflexivity | discriminate].
  - apply (W_din _ (WF_block s (WF_reachable ops)) (block_blocked s)).
Qed.

(** * Finding: the CONTENT of an instance depends on the request order
    n3 ?-> n0, n0 ?-> n1, n1 -> n3: every Get succeeds in every order with the same producer
    (as proved above), but whether n0's optional field n1 is filled depends on which name was
    requested first — and stays so for the life of the container. *)
Definition wiring_pgm : list op :=
  [OAddFactory 3 1 (mkProg [(0, true)] false false);
   OAddFactory 0 2 (mkProg [(1, true)] false false);
   OAddFactory 1 3 (mkProg [(3, false)] false false)].

Lemma wiring_depends_on_order :
  let s0 := run wiring_pgm init in
  let sa := fst (Get s0 0) in                 (* n0 requested first *)
  let sd := fst (Get (fst (Get s0 3)) 0) in   (* n3 requested first, then n0 *)
  is_ok (snd (Get s0 0)) = true /\ is_ok (snd (Get (fst (Get s0 3)) 0)) = true /\
  is_ok (snd (Get sa 1)) = true /\ is_ok (snd (Get sd 1)) = true /\
  wire sa 0 = [Some (mkTok 1 KFac 3 1)] /\ wire sd 0 = [None] /\
  wire (run [OGet 1; OGet 0; OGet 3] sd) 0 = [None].
Proof. vm_compute. repeat split. Qed.

(** * Registration order: when every call of a definition sequence is accepted, the effective
    definition set depends only on WHICH calls were made, not on their order *)
From Coq Require Import Permutation.

Fixpoint all_ok (ds : list op) (s : state) : bool :=
  match ds with
  | [] => true
  | o :: ds' => is_def o &&
                match snd (step s o) with UDef true => all_ok ds' (fst (step s o)) | _ => false end
  end.

Lemma all_ok_app a : forall b s, all_ok (a ++ b) s = all_ok a s && all_ok b (run a s).
Proof.
  induction a as [|o a IH]; intros b s; [reflexivity|].
  cbn [app all_ok]. rewrite run_cons. destruct (is_def o); [|reflexivity]. cbn [andb].
  destruct (snd (step s o)) as [[|]| |]; try reflexivity. apply IH.
Qed.

Record Char (ds : list op) (s : state) : Prop := {
  C_blk : blocked s = false;
  C_inst : forall n t, inst s n = Some t <-> exists v, In (OSet n v) ds /\ t = mkTok n KInst v 0;
  C_fac : forall n id p, fac s n = Some (id, p) <-> In (OAddFactory n id p) ds;
  C_dinst : forall n t, dinst s n = Some t <-> exists v, In (OSetDefault n v) ds /\ t = mkTok n KDef v 0;
  C_dfac : forall n, fac s n = None ->
                     forall id p, dfac s n = Some (id, p) <-> In (OAddDefaultFactory n id p) ds
}.

Lemma in_snoc {A} (x : A) l o : In x (l ++ [o]) <-> In x l \/ o = x.
Proof. rewrite in_app_iff. cbn. tauto. Qed.

Lemma char_init : Char [] init.
Proof.
  constructor; cbn; try reflexivity; intros; split; try discriminate; try tauto.
  - intros (v & [] & _).
  - intros (v & [] & _).
Qed.

Lemma char_step ds s o : Char ds s -> is_def o = true -> snd (step s o) = UDef true ->
  Char (ds ++ [o]) (fst (step s o)).
Proof.
  intros [Hb Hi Hf Hdi Hdf] Hd Hok.
  destruct o as [m v|m v|m id p|m id p| |]; try discriminate; revert Hok; cbn [step].
  - unfold set_. rewrite Hb. split_if; cbn [snd fst]; try discriminate. intros _.
    apply isSome_false in Heqb, Heqb0.
    constructor; cbn [blocked inst fac dinst dfac].
    + reflexivity.
    + intros n t. destruct (N.eq_dec n m) as [->|Hne].
      * rewrite upd_same. split.
        -- intro E. inversion E. exists v. split; [apply in_snoc; auto | reflexivity].
        -- intros (v' & Hin & ->). apply in_snoc in Hin as [Hin | Heq].
           ++ assert (inst s m = Some (mkTok m KInst v' 0)) as Hc by (apply Hi; eauto). congruence.
           ++ inversion Heq. reflexivity.
      * rewrite upd_other by exact Hne. rewrite Hi. split; intros (v' & Hin & ->); exists v'; split; auto.
        -- apply in_snoc; auto.
        -- apply in_snoc in Hin as [Hin | Heq]; [exact Hin | inversion Heq; congruence].
    + intros n id p. rewrite Hf, in_snoc. split; [auto | intros [H|H]; [exact H | discriminate]].
    + intros n t. rewrite Hdi. split; intros (v' & Hin & ->); exists v'; split; auto.
      * apply in_snoc; auto.
      * apply in_snoc in Hin as [Hin | Heq]; [exact Hin | discriminate].
    + intros n Hn id p. rewrite (Hdf n Hn), in_snoc. split; [auto | intros [H|H]; [exact H | discriminate]].
  - unfold set_default. rewrite Hb. split_if; cbn [snd fst]; try discriminate. intros _.
    apply isSome_false in Heqb, Heqb0.
    constructor; cbn [blocked inst fac dinst dfac].
    + reflexivity.
    + intros n t. rewrite Hi. split; intros (v' & Hin & ->); exists v'; split; auto.
      * apply in_snoc; auto.
      * apply in_snoc in Hin as [Hin | Heq]; [exact Hin | discriminate].
    + intros n id p. rewrite Hf, in_snoc. split; [auto | intros [H|H]; [exact H | discriminate]].
    + intros n t. destruct (N.eq_dec n m) as [->|Hne].
      * rewrite upd_same. split.
        -- intro E. inversion E. exists v. split; [apply in_snoc; auto | reflexivity].
        -- intros (v' & Hin & ->). apply in_snoc in Hin as [Hin | Heq].
           ++ assert (dinst s m = Some (mkTok m KDef v' 0)) as Hc by (apply Hdi; eauto). congruence.
           ++ inversion Heq. reflexivity.
      * rewrite upd_other by exact Hne. rewrite Hdi. split; intros (v' & Hin & ->); exists v'; split; auto.
        -- apply in_snoc; auto.
        -- apply in_snoc in Hin as [Hin | Heq]; [exact Hin | inversion Heq; congruence].
    + intros n Hn id p. rewrite (Hdf n Hn), in_snoc. split; [auto | intros [H|H]; [exact H | discriminate]].
  - unfold add_factory. rewrite Hb. split_if; cbn [snd fst]; try discriminate. intros _.
    apply isSome_false in Heqb.
    constructor; cbn [blocked inst fac dinst dfac].
    + reflexivity.
    + intros n t. rewrite Hi. split; intros (v' & Hin & ->); exists v'; split; auto.
      * apply in_snoc; auto.
      * apply in_snoc in Hin as [Hin | Heq]; [exact Hin | discriminate].
    + intros n id' p'. destruct (N.eq_dec n m) as [->|Hne].
      * rewrite upd_same, in_snoc. split.
        -- intro E. inversion E. auto.
        -- intros [Hin | Heq]; [apply Hf in Hin; congruence | inversion Heq; reflexivity].
      * rewrite upd_other by exact Hne. rewrite Hf, in_snoc.
        split; [auto | intros [H|H]; [exact H | inversion H; congruence]].
    + intros n t. rewrite Hdi. split; intros (v' & Hin & ->); exists v'; split; auto.
      * apply in_snoc; auto.
      * apply in_snoc in Hin as [Hin | Heq]; [exact Hin | discriminate].
    + intros n. destruct (N.eq_dec n m) as [->|Hne].
      * rewrite upd_same. discriminate.
      * rewrite !upd_other by exact Hne. intros Hn id' p'. rewrite (Hdf n Hn), in_snoc.
        split; [auto | intros [H|H]; [exact H | discriminate]].
  - unfold add_default_factory. rewrite Hb. split_if; cbn [snd fst]; try discriminate; intros _.
    + (* an explicit factory exists: silently ignored *)
      constructor; try assumption.
      * intros n t. rewrite Hi. split; intros (v' & Hin & ->); exists v'; split; auto.
        -- apply in_snoc; auto.
        -- apply in_snoc in Hin as [Hin | Heq]; [exact Hin | discriminate].
      * intros n id' p'. rewrite Hf, in_snoc. split; [auto | intros [H|H]; [exact H | discriminate]].
      * intros n t. rewrite Hdi. split; intros (v' & Hin & ->); exists v'; split; auto.
        -- apply in_snoc; auto.
        -- apply in_snoc in Hin as [Hin | Heq]; [exact Hin | discriminate].
      * intros n Hn id' p'. rewrite (Hdf n Hn), in_snoc. split; [auto|].
        intros [H|H]; [exact H|]. inversion H; subst. rewrite Hn in Heqb0. discriminate.
    + apply isSome_false in Heqb, Heqb0.
      constructor; cbn [blocked inst fac dinst dfac].
      * reflexivity.
      * intros n t. rewrite Hi. split; intros (v' & Hin & ->); exists v'; split; auto.
        -- apply in_snoc; auto.
        -- apply in_snoc in Hin as [Hin | Heq]; [exact Hin | discriminate].
      * intros n id' p'. rewrite Hf, in_snoc. split; [auto | intros [H|H]; [exact H | discriminate]].
      * intros n t. rewrite Hdi. split; intros (v' & Hin & ->); exists v'; split; auto.
        -- apply in_snoc; auto.
        -- apply in_snoc in Hin as [Hin | Heq]; [exact Hin | discriminate].
      * intros n Hn id' p'. destruct (N.eq_dec n m) as [->|Hne].
        -- rewrite upd_same, in_snoc. split.
           ++ intro E. inversion E. auto.
           ++ intros [Hin | Heq]; [apply (Hdf m Hn) in Hin; congruence | inversion Heq; reflexivity].
        -- rewrite upd_other by exact Hne. rewrite (Hdf n Hn), in_snoc.
           split; [auto | intros [H|H]; [exact H | inversion H; congruence]].
Qed.

Lemma char_run ds : all_ok ds init = true -> Char ds (run ds init).
Proof.
  induction ds as [|o ds IH] using rev_ind; intro H; [apply char_init|].
  rewrite all_ok_app in H. apply andb_true_iff in H as [H1 H2]. cbn [all_ok] in H2.
  apply andb_true_iff in H2 as [Hd Hs].
  rewrite run_app. cbn [run fold_left]. apply char_step; [apply IH; exact H1 | exact Hd |].
  destruct (snd (step (run ds init) o)) as [[|]| |]; try discriminate. reflexivity.
Qed.

Lemma opt_eq_of_iff {A} (a b : option A) : (forall x, a = Some x <-> b = Some x) -> a = b.
Proof.
  intro H. destruct a as [x|], b as [y|]; try reflexivity.
  - symmetry. apply (H x). reflexivity.
  - pose proof (proj1 (H x) eq_refl) as E. discriminate E.
  - pose proof (proj2 (H y) eq_refl) as E. discriminate E.
Qed.

Lemma order_independent ds ds' : Permutation ds ds' ->
  all_ok ds init = true -> all_ok ds' init = true ->
  forall n, eff (run ds init) n = eff (run ds' init) n.
Proof.
  intros HP H1 H2 n.
  destruct (char_run ds H1) as [_ Ai Af Adi Adf]. destruct (char_run ds' H2) as [_ Bi Bf Bdi Bdf].
  assert (forall x, In x ds <-> In x ds') as Hin
    by (intro x; split; apply Permutation_in; [exact HP | apply Permutation_sym; exact HP]).
  assert (inst (run ds init) n = inst (run ds' init) n) as Ei.
  { apply opt_eq_of_iff. intro t. rewrite Ai, Bi. split; intros (v & Hv & ->); exists v; split; auto; apply Hin; exact Hv. }
  assert (fac (run ds init) n = fac (run ds' init) n) as Ef.
  { apply opt_eq_of_iff. intros [id p]. rewrite Af, Bf. apply Hin. }
  assert (dinst (run ds init) n = dinst (run ds' init) n) as Edi.
  { apply opt_eq_of_iff. intro t. rewrite Adi, Bdi. split; intros (v & Hv & ->); exists v; split; auto; apply Hin; exact Hv. }
  unfold eff. rewrite <- Ei, <- Ef, <- Edi.
  destruct (inst (run ds init) n); [reflexivity|].
  destruct (fac (run ds init) n) as [[? ?]|] eqn:Efn; [reflexivity|].
  destruct (dinst (run ds init) n); [reflexivity|].
  assert (dfac (run ds init) n = dfac (run ds' init) n) as Edf.
  { apply opt_eq_of_iff. intros [id p]. rewrite (Adf n Efn), (Bdf n). apply Hin. congruence. }
  rewrite <- Edf. reflexivity.
Qed.

Lemma order_independent_outcome ds ds' reqs reqs' n : Permutation ds ds' ->
  all_ok ds init = true -> all_ok ds' init = true ->
  let r := snd (Get (run reqs (block (run ds init))) n) in
  let r' := snd (Get (run reqs' (block (run ds' init))) n) in
  is_ok r = is_ok r' /\ forall t t', r = GOk t -> r' = GOk t' -> tok_source t = tok_source t'.
Proof.
  intros HP H1 H2 r r'. apply (refines_same (eff (run ds init)) n).
  - apply refines.
  - apply (refines_ext (eff (run ds' init))); [|apply refines].
    intro m. symmetry. apply order_independent; assumption.
Qed.
