(** Proofs about the dependency-provider model (Model/Di.v), second layer: the statements the
    proof audit of C10 found missing or only partially stated in Proofs/Di.v.

    A. closed form of the effective definition set of EVERY definition sequence (no acceptance
       hypothesis): per name the first explicit call wins, otherwise the first default call;
       every request of every program is decided by the resolution over that closed form.
    B. InjectTo refines the same resolution from every reachable state (history independence of
       InjectTo, field by field).
    C. singletons whatever their origin: an instance present in any reachable state (Set, default
       folded in at the freeze, product made for a direct request, for an InjectTo field or as a
       dependency of another factory) is what every later request yields, its factory never runs
       again, the run counter of its name equals its construction number, and every token a
       factory product recorded in its fields is the stored singleton of that name.
    D. any name that requires (transitively) a name on a required cycle is an error. *)
From Coq Require Import Lia ZifyBool ZifyNat ZifyN Relations Permutation.
From GC Require Import Common.Base Model.Di Proofs.Di.

(** * A. First definition wins; explicit before default *)

Definition default_def_on (o : op) (n : name) : bool :=
  match o with OSetDefault m _ | OAddDefaultFactory m _ _ => N.eqb m n | _ => false end.

(** the definition a call asks for *)
Definition def_of (o : op) : option edef :=
  match o with
  | OSet n v => Some (EVal (mkTok n KInst v 0))
  | OSetDefault n v => Some (EVal (mkTok n KDef v 0))
  | OAddFactory n id p => Some (EFac KFac id p)
  | OAddDefaultFactory n id p => Some (EFac KDFac id p)
  | _ => None
  end.

Definition first_def (ds : list op) (n : name) : option op :=
  match find (fun o => explicit_def_on o n) ds with
  | Some o => Some o
  | None => find (fun o => default_def_on o n) ds
  end.

(** closed form of the definition set after the calls [ds] *)
Definition spec_eff (ds : list op) : defs :=
  fun n => match first_def ds n with Some o => def_of o | None => None end.

Definition nofreeze (o : op) : bool := negb (freezes o).

(** the calls of a program made before its first resolution, and the rest *)
Fixpoint def_prefix (ops : list op) : list op :=
  match ops with [] => [] | o :: r => if freezes o then [] else o :: def_prefix r end.
Fixpoint after_prefix (ops : list op) : list op :=
  match ops with [] => [] | o :: r => if freezes o then ops else after_prefix r end.

Definition xpart (s : state) (n : name) : option edef :=
  match inst s n with
  | Some t => Some (EVal t)
  | None => match fac s n with Some (id, p) => Some (EFac KFac id p) | None => None end
  end.

Definition dpart (s : state) (n : name) : option edef :=
  match dinst s n with
  | Some t => Some (EVal t)
  | None => match dfac s n with Some (id, p) => Some (EFac KDFac id p) | None => None end
  end.

Lemma eff_parts s n : eff s n = match xpart s n with Some e => Some e | None => dpart s n end.
Proof.
  unfold eff, xpart, dpart. destruct (inst s n); [reflexivity|].
  destruct (fac s n) as [[? ?]|]; reflexivity.
Qed.

Lemma nofreeze_blocked s o : nofreeze o = true -> blocked s = false ->
  blocked (fst (step s o)) = false.
Proof.
  intros Hn Hb. destruct o as [m v|m v|m id p|m id p|m|fs]; cbn [step];
    unfold set_, set_default, add_factory, add_default_factory; rewrite ?Hb;
    try (split_if; cbn [fst blocked]; first [assumption | reflexivity]).
  - cbv in Hn. discriminate Hn.
  - destruct fs; [cbn; exact Hb | cbv in Hn; discriminate Hn].
Qed.

Lemma eqb_sym_false m n : m <> n -> N.eqb m n = false /\ N.eqb n m = false.
Proof. intro H. split; apply N.eqb_neq; congruence. Qed.

Lemma xpart_step s o n : nofreeze o = true -> blocked s = false ->
  xpart (fst (step s o)) n =
  match xpart s n with
  | Some e => Some e
  | None => if explicit_def_on o n then def_of o else None
  end.
Proof.
  intros Hn Hb. unfold xpart.
  destruct o as [m v|m v|m id p|m id p|m|fs]; cbn [step explicit_def_on def_of];
    unfold set_, set_default, add_factory, add_default_factory; rewrite ?Hb.
  - destruct (N.eq_dec m n) as [->|Hne].
    + rewrite N.eqb_refl. destruct (inst s n) as [t|] eqn:Ei; cbn [isSome fst]; [rewrite Ei; reflexivity|].
      destruct (fac s n) as [[id p]|] eqn:Ef; cbn [isSome fst inst fac]; [rewrite Ei, Ef; reflexivity|].
      rewrite upd_same. reflexivity.
    + destruct (eqb_sym_false m n Hne) as [E1 E2]. rewrite E1.
      split_if; cbn [inst fac]; rewrite ?upd_other by congruence;
        destruct (inst s n); try reflexivity; destruct (fac s n) as [[? ?]|]; reflexivity.
  - split_if; cbn [inst fac]; destruct (inst s n); try reflexivity; destruct (fac s n) as [[? ?]|]; reflexivity.
  - destruct (N.eq_dec m n) as [->|Hne].
    + rewrite N.eqb_refl. destruct (fac s n) as [[id' p']|] eqn:Ef; cbn [isSome fst inst fac].
      * rewrite Ef. destruct (inst s n); reflexivity.
      * rewrite upd_same. destruct (inst s n); reflexivity.
    + destruct (eqb_sym_false m n Hne) as [E1 E2]. rewrite E1.
      split_if; cbn [inst fac]; rewrite ?upd_other by congruence;
        destruct (inst s n); try reflexivity; destruct (fac s n) as [[? ?]|]; reflexivity.
  - split_if; cbn [inst fac]; destruct (inst s n); try reflexivity; destruct (fac s n) as [[? ?]|]; reflexivity.
  - discriminate.
  - destruct fs; [|discriminate]. cbn. destruct (inst s n); try reflexivity; destruct (fac s n) as [[? ?]|]; reflexivity.
Qed.

Lemma dpart_step s o n : nofreeze o = true -> blocked s = false ->
  xpart s n = None -> explicit_def_on o n = false ->
  dpart (fst (step s o)) n =
  match dpart s n with
  | Some e => Some e
  | None => if default_def_on o n then def_of o else None
  end.
Proof.
  intros Hn Hb Hx He.
  assert (inst s n = None /\ fac s n = None) as [Hi Hf].
  { unfold xpart in Hx. destruct (inst s n); [discriminate|]. destruct (fac s n) as [[? ?]|]; [discriminate|]. auto. }
  unfold dpart.
  destruct o as [m v|m v|m id p|m id p|m|fs]; cbn [step explicit_def_on default_def_on def_of] in *;
    unfold set_, set_default, add_factory, add_default_factory; rewrite ?Hb.
  - split_if; cbn [dinst dfac]; destruct (dinst s n); try reflexivity; destruct (dfac s n) as [[? ?]|]; reflexivity.
  - destruct (N.eq_dec m n) as [->|Hne].
    + rewrite N.eqb_refl. destruct (dinst s n) as [t|] eqn:Ei; cbn [isSome fst]; [rewrite Ei; reflexivity|].
      destruct (dfac s n) as [[id p]|] eqn:Ef; cbn [isSome fst dinst dfac]; [rewrite Ei, Ef; reflexivity|].
      rewrite upd_same. reflexivity.
    + destruct (eqb_sym_false m n Hne) as [E1 E2]. rewrite E1.
      split_if; cbn [dinst dfac]; rewrite ?upd_other by congruence;
        destruct (dinst s n); try reflexivity; destruct (dfac s n) as [[? ?]|]; reflexivity.
  - assert (m <> n) as Hne by (intro; subst; rewrite N.eqb_refl in He; discriminate).
    split_if; cbn [dinst dfac]; rewrite ?upd_other by congruence;
      destruct (dinst s n); try reflexivity; destruct (dfac s n) as [[? ?]|]; reflexivity.
  - destruct (N.eq_dec m n) as [->|Hne].
    + rewrite N.eqb_refl, Hf. cbn [isSome].
      destruct (dfac s n) as [[id' p']|] eqn:Ef; cbn [isSome fst dinst dfac].
      * rewrite Ef. destruct (dinst s n); reflexivity.
      * rewrite upd_same. destruct (dinst s n); reflexivity.
    + destruct (eqb_sym_false m n Hne) as [E1 E2]. rewrite E1.
      split_if; cbn [dinst dfac]; rewrite ?upd_other by congruence;
        destruct (dinst s n); try reflexivity; destruct (dfac s n) as [[? ?]|]; reflexivity.
  - discriminate.
  - destruct fs; [|discriminate]. cbn. destruct (dinst s n); try reflexivity; destruct (dfac s n) as [[? ?]|]; reflexivity.
Qed.

Lemma find_snoc {A} (f : A -> bool) l o :
  find f (l ++ [o]) = match find f l with Some x => Some x | None => if f o then Some o else None end.
Proof. induction l as [|x l IH]; cbn; [reflexivity|]. destruct (f x); [reflexivity | exact IH]. Qed.

Lemma explicit_def_of o n : explicit_def_on o n = true -> exists e, def_of o = Some e.
Proof. destruct o; try discriminate; intros _; eexists; reflexivity. Qed.

Lemma default_def_of o n : default_def_on o n = true -> exists e, def_of o = Some e.
Proof. destruct o; try discriminate; intros _; eexists; reflexivity. Qed.

Definition found_def (f : op -> bool) (ds : list op) : option edef :=
  match find f ds with Some o => def_of o | None => None end.

Lemma first_wins_gen ds : forallb nofreeze ds = true ->
  blocked (run ds init) = false /\
  forall n, xpart (run ds init) n = found_def (fun o => explicit_def_on o n) ds /\
            (find (fun o => explicit_def_on o n) ds = None ->
             dpart (run ds init) n = found_def (fun o => default_def_on o n) ds).
Proof.
  induction ds as [|o ds IH] using rev_ind; intro Hall.
  - split; [reflexivity|]. intro n. split; reflexivity.
  - rewrite forallb_app in Hall. apply andb_true_iff in Hall as [Hds Ho]. cbn [forallb] in Ho.
    rewrite andb_true_r in Ho. destruct (IH Hds) as (Hb & Hn).
    rewrite run_app. cbn [run fold_left]. fold (run ds init). set (s := run ds init) in *.
    split; [apply nofreeze_blocked; assumption|].
    intro n. destruct (Hn n) as (Hx & Hd). unfold found_def in *. rewrite !find_snoc.
    rewrite (xpart_step s o n Ho Hb), Hx.
    destruct (find (fun o0 => explicit_def_on o0 n) ds) as [o0|] eqn:Ef.
    + apply find_some in Ef as [_ Ef]. destruct (explicit_def_of o0 n Ef) as (e & ->).
      split; [reflexivity | discriminate].
    + split; [destruct (explicit_def_on o n); reflexivity|].
      destruct (explicit_def_on o n) eqn:Eo; [discriminate|]. intros _.
      rewrite (dpart_step s o n Ho Hb); [|rewrite Hx; reflexivity | exact Eo].
      rewrite (Hd eq_refl).
      destruct (find (fun o0 => default_def_on o0 n) ds) as [o0|] eqn:Efd.
      * apply find_some in Efd as [_ Efd]. destruct (default_def_of o0 n Efd) as (e & ->). reflexivity.
      * destruct (default_def_on o n); reflexivity.
Qed.

Lemma first_wins ds n : forallb nofreeze ds = true -> eff (run ds init) n = spec_eff ds n.
Proof.
  intro Hall. destruct (first_wins_gen ds Hall) as (_ & Hn). destruct (Hn n) as (Hx & Hd).
  rewrite eff_parts, Hx. unfold spec_eff, first_def, found_def in *.
  destruct (find (fun o => explicit_def_on o n) ds) as [o0|] eqn:Ef.
  - apply find_some in Ef as [_ Ef]. destruct (explicit_def_of o0 n Ef) as (e & ->). reflexivity.
  - apply Hd. reflexivity.
Qed.

(** every program = the calls before its first resolution ++ the rest *)
Lemma prefix_split ops : ops = def_prefix ops ++ after_prefix ops.
Proof. induction ops as [|o r IH]; [reflexivity|]. cbn. destruct (freezes o); [reflexivity|]. cbn. f_equal. exact IH. Qed.

Lemma prefix_nofreeze ops : forallb nofreeze (def_prefix ops) = true.
Proof.
  induction ops as [|o r IH]; [reflexivity|]. cbn. destruct (freezes o) eqn:E; [reflexivity|].
  cbn. unfold nofreeze at 1. rewrite E. exact IH.
Qed.

Lemma after_prefix_head ops : after_prefix ops = [] \/
  exists rq r, after_prefix ops = rq :: r /\ freezes rq = true.
Proof.
  induction ops as [|o r IH]; [left; reflexivity|]. cbn. destruct (freezes o) eqn:E; [|exact IH].
  right. exists o, r. auto.
Qed.

Lemma step_block_eq s rq : freezes rq = true -> step s rq = step (block s) rq.
Proof.
  destruct rq as [| | | |n|fs]; try discriminate; intro Hf; cbn [step].
  - rewrite Get_block_eq. reflexivity.
  - destruct fs as [|[d o] fs]; [discriminate Hf|]. rewrite Inject_block_eq. reflexivity.
Qed.

(** the state every request of the program is served from *)
Lemma run_after_prefix ops : exists reqs,
  block (run ops init) = block (run reqs (block (run (def_prefix ops) init))).
Proof.
  assert (run ops init = run (after_prefix ops) (run (def_prefix ops) init)) as ->
    by (rewrite <- run_app, <- prefix_split; reflexivity).
  destruct (after_prefix_head ops) as [E | (rq & r & E & Hf)]; rewrite E.
  - exists []. cbn [run fold_left]. rewrite block_idem. reflexivity.
  - exists (rq :: r). rewrite !run_cons, <- (step_block_eq _ rq Hf). reflexivity.
Qed.

Lemma deq_first_wins ops : deq (eff (run (def_prefix ops) init)) (spec_eff (def_prefix ops)).
Proof. intro n. apply first_wins, prefix_nofreeze. Qed.

Lemma get_first_wins ops n :
  refines_res (spec_eff (def_prefix ops)) n (snd (Get (run ops init) n)).
Proof.
  destruct (run_after_prefix ops) as (reqs & E).
  rewrite Get_block_eq, E, <- Get_block_eq.
  apply (refines_ext _ _ _ _ (deq_first_wins ops)). apply refines.
Qed.

Lemma get_first_wins_expanded ops n : let D := spec_eff (def_prefix ops) in
  match snd (Get (run ops init) n) with
  | GOk t => Good D [] n /\ source D n = Some (tok_source t)
  | GErr => ~ Good D [] n
  | GFuel => False
  end.
Proof. exact (get_first_wins ops n). Qed.

(** explicit wins in every order, with no acceptance hypothesis: if the calls made before the
    first resolution contain ANY explicit call for [n] (accepted or refused), whatever else was
    called in whatever order, a successful request for [n] yields an explicitly defined instance. *)
Lemma spec_eff_explicit ds n d : In d ds -> explicit_def_on d n = true ->
  exists d0, In d0 ds /\ explicit_def_on d0 n = true /\ spec_eff ds n = def_of d0 /\
             find (fun o => explicit_def_on o n) ds = Some d0.
Proof.
  intros Hin He. unfold spec_eff, first_def.
  destruct (find (fun o => explicit_def_on o n) ds) as [d0|] eqn:Ef.
  - destruct (find_some _ _ Ef) as [H1 H2]. exists d0. auto.
  - exfalso. pose proof (find_none _ _ Ef d Hin) as H. cbv beta in H. congruence.
Qed.

Lemma explicit_source d0 n src : explicit_def_on d0 n = true ->
  match def_of d0 with
  | Some (EVal t) => Some (t_name t, t_kind t, t_id t)
  | Some (EFac k id _) => Some (n, k, id)
  | None => None
  end = Some src -> explicit_kind (snd (fst src)) = true.
Proof. destruct d0; try discriminate; cbn; intros _ E; inversion E; reflexivity. Qed.

Lemma explicit_wins_always ops d n s' t :
  In d (def_prefix ops) -> explicit_def_on d n = true ->
  Get (run ops init) n = (s', GOk t) -> explicit_kind (t_kind t) = true.
Proof.
  intros Hin He E. pose proof (get_first_wins ops n) as H. rewrite E in H. cbn in H.
  destruct H as [_ Hs]. destruct (spec_eff_explicit _ n d Hin He) as (d0 & _ & He0 & Hd0 & _).
  unfold source in Hs. rewrite Hd0 in Hs.
  apply (explicit_source d0 n _ He0) in Hs. exact Hs.
Qed.

(** default definitions never matter for a name that has an explicit call: two definition
    sequences with the same explicit calls for [n] in the same relative order (anything else added,
    removed or moved, default calls for [n] included) define [n] alike - by its first explicit call. *)
Lemma find_filter {A} (f : A -> bool) l : find f l = hd_error (filter f l).
Proof. induction l as [|x l IH]; [reflexivity|]. cbn. destruct (f x); [reflexivity | exact IH]. Qed.

Lemma defaults_never_matter ds ds' n :
  forallb nofreeze ds = true -> forallb nofreeze ds' = true ->
  filter (fun o => explicit_def_on o n) ds = filter (fun o => explicit_def_on o n) ds' ->
  filter (fun o => explicit_def_on o n) ds <> [] ->
  eff (run ds init) n = eff (run ds' init) n /\
  exists d, hd_error (filter (fun o => explicit_def_on o n) ds) = Some d /\
            eff (run ds init) n = def_of d.
Proof.
  intros H1 H2 Hf Hne. rewrite !first_wins by assumption. unfold spec_eff, first_def.
  rewrite !find_filter, <- Hf.
  destruct (filter (fun o => explicit_def_on o n) ds) as [|d l]; [congruence|]. cbn [hd_error].
  split; [reflexivity|]. exists d. auto.
Qed.

(** order in general: the definition of [n] depends on the calls only through the first
    explicit call for [n] and, if there is none, the first default call for [n] *)
Lemma order_only_through_first ds ds' n :
  forallb nofreeze ds = true -> forallb nofreeze ds' = true ->
  first_def ds n = first_def ds' n -> eff (run ds init) n = eff (run ds' init) n.
Proof. intros H1 H2 Hf. rewrite !first_wins by assumption. unfold spec_eff. rewrite Hf. reflexivity. Qed.

(** * B. InjectTo refines the memo-free resolution, field by field *)

(** [InjSpec D fs l r]: what InjectTo on tagged fields [fs] must answer over the definition set [D]:
    fields in declaration order; a resolvable field is filled by the producer the precedence order
    selects, an unresolvable optional field is left alone, the first unresolvable required field
    ends the call with an error and nothing after it is touched. *)
Inductive InjSpec (D : defs) : list (name * bool) -> list (option (name * kind * N)) -> rres -> Prop :=
| IS_nil : InjSpec D [] [] ROk
| IS_fill : forall d o fs src l r, Good D [] d -> source D d = Some src -> InjSpec D fs l r ->
    InjSpec D ((d, o) :: fs) (Some src :: l) r
| IS_skip : forall d fs l r, ~ Good D [] d -> InjSpec D fs l r ->
    InjSpec D ((d, true) :: fs) (None :: l) r
| IS_fail : forall d fs, ~ Good D [] d -> InjSpec D ((d, false) :: fs) [] RErr.

Definition srcs (l : list (option token)) : list (option (name * kind * N)) :=
  map (option_map tok_source) l.

Lemma InjSpec_fun D fs l r : InjSpec D fs l r -> forall l' r', InjSpec D fs l' r' -> l = l' /\ r = r'.
Proof.
  induction 1 as [|d o fs src l r HG Hs HI IH|d fs l r HG HI IH|d fs HG]; intros l' r' H';
    try clear HI; inversion H'; subst; try contradiction; try (split; reflexivity).
  - match goal with H : InjSpec D fs _ _ |- _ => destruct (IH _ _ H) as [-> ->] end.
    split; [congruence | reflexivity].
  - match goal with H : InjSpec D fs _ _ |- _ => destruct (IH _ _ H) as [-> ->] end.
    split; reflexivity.
Qed.

Lemma InjSpec_ext D D' fs l r : deq D D' -> InjSpec D fs l r -> InjSpec D' fs l r.
Proof.
  intros He. induction 1 as [|d o fs src l r HG Hs HI IH|d fs l r HG HI IH|d fs HG].
  - constructor.
  - apply IS_fill; [eapply Good_ext; eassumption | unfold source in *; rewrite <- He; exact Hs | exact IH].
  - apply IS_skip; [|exact IH]. intro H. apply HG. eapply Good_ext; [apply deq_sym; exact He | exact H].
  - apply IS_fail. intro H. apply HG. eapply Good_ext; [apply deq_sym; exact He | exact H].
Qed.

Lemma Inject_refines D : forall fs s s' l r, Reach D s -> Inject s fs = (s', l, r) ->
  InjSpec D fs (srcs l) r /\ Reach D s'.
Proof.
  induction fs as [|[d o] fs IH]; intros s s' l r HR E.
  - cbn in E. inversion E; subst. split; [constructor | exact HR].
  - assert (WF s) as HW by (apply (WF_of_Inv D); apply HR).
    rewrite (Inject_cons_wf s d o fs HW) in E.
    destruct (Get s d) as [s1 r1] eqn:Eg.
    pose proof (Get_refines D s d s1 r1 HR Eg) as Hr1.
    pose proof (step_Reach D s (OGet d) HR) as (HR1 & _). cbn [step] in HR1. rewrite Eg in HR1.
    cbn [fst] in HR1.
    destruct r1 as [t| |]; cbn in Hr1.
    + destruct (Inject s1 fs) as [[s2 l2] r2] eqn:E2. inversion E; subst.
      destruct (IH _ _ _ _ HR1 E2) as (HS & HR2). split; [|exact HR2].
      cbn [srcs map option_map]. apply IS_fill; tauto.
    + destruct o.
      * destruct (Inject s1 fs) as [[s2 l2] r2] eqn:E2. inversion E; subst.
        destruct (IH _ _ _ _ HR1 E2) as (HS & HR2). split; [|exact HR2].
        cbn [srcs map option_map]. apply IS_skip; assumption.
      * inversion E; subst. split; [apply IS_fail; exact Hr1 | exact HR1].
    + contradiction.
Qed.

Lemma inject_refines ops reqs fs : let s0 := run ops init in
  InjSpec (eff s0) fs (srcs (snd (fst (Inject (run reqs (block s0)) fs))))
          (snd (Inject (run reqs (block s0)) fs)).
Proof.
  intros s0. pose proof (WF_reachable ops) as HW. fold s0 in HW.
  destruct (run_Reach _ reqs _ (Reach_block s0 HW)) as (HR & _).
  destruct (Inject (run reqs (block s0)) fs) as [[s' l] r] eqn:E. cbn [fst snd].
  apply (InjSpec_ext _ _ _ _ _ (deq_defs_of s0)). eapply Inject_refines; eassumption.
Qed.

(** hence: whatever happened before (failed requests, cycles, skipped optional dependencies,
    refused definition calls), InjectTo fills the same fields from the same producers and
    returns the same result *)
Lemma inject_history_independent ops reqs reqs' fs : let s0 := run ops init in
  let a := Inject (run reqs (block s0)) fs in let b := Inject (run reqs' (block s0)) fs in
  srcs (snd (fst a)) = srcs (snd (fst b)) /\ snd a = snd b.
Proof.
  intros s0 a b. apply (InjSpec_fun (eff s0) fs); apply inject_refines.
Qed.

(** for every program: InjectTo is decided by the closed-form definition set *)
Lemma inject_first_wins ops fs : let a := Inject (run ops init) fs in
  InjSpec (spec_eff (def_prefix ops)) fs (srcs (snd (fst a))) (snd a).
Proof.
  intro a. unfold a. destruct fs as [|[d o] fs]; [cbn; constructor|].
  destruct (run_after_prefix ops) as (reqs & E).
  rewrite Inject_block_eq, E, <- Inject_block_eq.
  apply (InjSpec_ext _ _ _ _ _ (deq_first_wins ops)). apply inject_refines.
Qed.

(** * C. Singletons whatever their origin; tokens *)

Record Tok (s : state) : Prop := {
  T_num : forall n t, inst s n = Some t -> t_num t = runs s n /\ t_name t = n;
  T_wire : forall n t', In (Some t') (wire s n) -> inst s (t_name t') = Some t';
  T_din : forall n t, dinst s n = Some t -> t_num t = 0 /\ t_name t = n;
  T_zero : blocked s = false -> forall n, runs s n = 0
}.

Definition tok_spec (D : defs) (g : state -> name -> state * gres) (b : nat) : Prop :=
  forall s n s' r, Inv D s -> (avail s < b)%nat -> Tok s -> g s n = (s', r) -> Tok s'.

Lemma deps_tok D g b : get_spec D g b -> tok_spec D g b ->
  forall ds s s' l r, Inv D s -> (avail s < b)%nat -> Tok s -> run_deps g s ds = (s', l, r) ->
  Tok s' /\ forall d t', In (d, Some t') (combine (map fst ds) l) -> inst s' d = Some t' /\ t_name t' = d.
Proof.
  intros Hg Ht. induction ds as [|[d opt] ds IH]; intros s s' l r HI Hb HT Hrun.
  - cbn in Hrun. inversion Hrun; subst. split; [exact HT | intros d t' []].
  - cbn [run_deps] in Hrun. destruct (g s d) as [s1 r1] eqn:Eg.
    pose proof (Hg s d s1 r1 HI Hb Eg) as (HI1 & Hst1 & Hk1 & Hmono1 & _ & Hres1).
    pose proof (Ht s d s1 r1 HI Hb HT Eg) as HT1.
    assert (avail s1 < b)%nat as Hb1 by (rewrite (avail_same s s1); assumption).
    destruct r1 as [t| |].
    + destruct (run_deps g s1 ds) as [[s2 l2] r2] eqn:E2. inversion Hrun; subst.
      destruct (IH _ _ _ _ HI1 Hb1 HT1 E2) as (HT2 & Hl2).
      destruct (deps_inv D g b Hg ds s1 s' l2 r HI1 Hb1 E2) as (_ & _ & _ & Hmono2 & _).
      split; [exact HT2|]. cbn [map fst combine]. intros d' t' [Heq | Hin]; [|apply Hl2; exact Hin].
      inversion Heq; subst d' t'. destruct Hres1 as (Hs1 & _).
      split; [apply Hmono2; exact Hs1 | apply (T_num s1 HT1 d t Hs1)].
    + destruct opt.
      * destruct (run_deps g s1 ds) as [[s2 l2] r2] eqn:E2. inversion Hrun; subst.
        destruct (IH _ _ _ _ HI1 Hb1 HT1 E2) as (HT2 & Hl2).
        split; [exact HT2|]. cbn [map fst combine]. intros d' t' [Heq | Hin]; [discriminate | apply Hl2; exact Hin].
      * inversion Hrun; subst. split; [exact HT1|]. cbn [map fst combine]. intros d' t' [].
    + destruct Hres1.
Qed.

Lemma combine_in_some {A} (ds : list A) (l : list (option token)) t' :
  length ds = length l -> In (Some t') l -> exists d, In (d, Some t') (combine ds l).
Proof.
  revert l. induction ds as [|d ds IH]; intros [|x l] Hlen Hin; try discriminate; [destruct Hin|].
  cbn in Hlen. injection Hlen as Hlen. destruct Hin as [->|Hin].
  - exists d. left. reflexivity.
  - destruct (IH l Hlen Hin) as (d' & Hd'). exists d'. right. exact Hd'.
Qed.

Lemma run_deps_length g : forall ds s s' l r, run_deps g s ds = (s', l, r) -> r = ROk ->
  length ds = length l.
Proof.
  induction ds as [|[d opt] ds IH]; intros s s' l r E Hr; cbn [run_deps] in E.
  - inversion E. reflexivity.
  - destruct (g s d) as [s1 [t| |]].
    + destruct (run_deps g s1 ds) as [[s2 l2] r2] eqn:E2. inversion E; subst. cbn. f_equal. eapply IH; eauto.
    + destruct opt.
      * destruct (run_deps g s1 ds) as [[s2 l2] r2] eqn:E2. inversion E; subst. cbn. f_equal. eapply IH; eauto.
      * inversion E; subst. discriminate.
    + inversion E; subst. discriminate.
Qed.

Lemma Tok_pop s : Tok s -> Tok (pop s).
Proof. intros [H1 H2 H3 H4]. constructor; cbn [pop inst wire dinst blocked runs]; assumption. Qed.

Lemma Tok_push s n : blocked s = true -> inst s n = None -> Tok s -> Tok (push n s).
Proof.
  intros Hbl Hn [H1 H2 H3 H4]. constructor; cbn [push inst wire dinst blocked runs]; try assumption.
  - intros m t Hm. destruct (N.eq_dec m n) as [->|Hne]; [congruence|].
    rewrite upd_other by exact Hne. apply H1. exact Hm.
  - intro Hb. congruence.
Qed.

Lemma call_tok D g b s n k id p s' r :
  get_spec D g b -> tok_spec D g b -> Inv D s -> (avail s <= b)%nat ->
  mem n (stack s) = false -> inst s n = None -> D n = Some (EFac k id p) -> Tok s ->
  call g s n k id p = (s', r) -> Tok s'.
Proof.
  intros Hg Ht HI Hb Hm Hn HD HT Hcall.
  pose proof (call_inv D g b s n k id p s' r Hg HI Hb Hm Hn HD Hcall) as (_ & _ & _ & _ & _ & HPost).
  unfold call in Hcall.
  destruct (run_deps g (push n s) (deps p)) as [[s2 w] r2] eqn:Edeps.
  assert (Inv D (push n s)) as HI1 by (apply Inv_push; assumption).
  assert (avail (push n s) < b)%nat as Hb1.
  { pose proof (avail_push n s (I_key D s HI n k id p HD) Hm). lia. }
  assert (Tok (push n s)) as HT1 by (apply Tok_push; [apply (I_blk D s HI) | exact Hn | exact HT]).
  destruct (deps_tok D g b Hg Ht (deps p) (push n s) s2 w r2 HI1 Hb1 HT1 Edeps) as (HT2 & Hw).
  destruct (deps_inv D g b Hg (deps p) (push n s) s2 w r2 HI1 Hb1 Edeps) as (HI2 & Hst2 & _).
  cbn [push stack] in Hst2.
  assert (inst s2 n = None) as Hn2.
  { apply (I_stk D s2 HI2). rewrite Hst2. cbn [mem]. rewrite N.eqb_refl. reflexivity. }
  pose proof (Tok_pop s2 HT2) as HT3.
  destruct r2; [|inversion Hcall; subst; exact HT3|inversion Hcall; subst; exact HT3].
  destruct (fails p || returns_nil p); [inversion Hcall; subst; exact HT3|].
  set (t := mkTok n k id (runs (push n s) n)) in *.
  assert (inst s' = upd (inst s2) n (Some t) /\ wire s' = upd (wire s2) n w /\ runs s' = runs s2 /\
          dinst s' = dinst s2 /\ blocked s' = blocked s2 /\ r = GOk t) as (Ei & Ew & Er & Ed & Eb & ->).
  { destruct k; inversion Hcall; subst s' r; cbn; auto 10. }
  destruct HPost as (_ & [Hc | (_ & _ & _ & Hnum & _)]); [congruence|].
  assert (forall t', inst s2 (t_name t') = Some t' -> inst s' (t_name t') = Some t') as Hkeep.
  { intros t' H'. rewrite Ei. destruct (N.eq_dec (t_name t') n) as [E|Hne]; [rewrite E in H'; congruence|].
    rewrite upd_other by exact Hne. exact H'. }
  destruct HT2 as [A1 A2 A3 A4]. constructor.
  - intros m tm. rewrite Ei, Er. destruct (N.eq_dec m n) as [->|Hne].
    + rewrite upd_same. intro E. inversion E; subst tm. split; [rewrite <- Er; exact Hnum | reflexivity].
    + rewrite upd_other by exact Hne. apply A1.
  - intros m t'. rewrite Ew. destruct (N.eq_dec m n) as [->|Hne].
    + rewrite upd_same. intro Hin. apply Hkeep.
      destruct (combine_in_some (map fst (deps p)) w t') as (d & Hd); [|exact Hin|].
      * rewrite map_length. eapply run_deps_length; [exact Edeps | reflexivity].
      * destruct (Hw d t' Hd) as (H1 & H2). rewrite H2. exact H1.
    + rewrite upd_other by exact Hne. intro Hin. apply Hkeep. apply (A2 m t' Hin).
  - intros m tm. rewrite Ed. apply A3.
  - rewrite Eb, Er. exact A4.
Qed.

Lemma get_tok D : forall f, tok_spec D (get f) f.
Proof.
  induction f as [|f IH]; intros s n s' r HI Hb HT Hget; [lia|].
  cbn [get] in Hget. rewrite (block_id s (I_blk D s HI)) in Hget.
  destruct (mem n (stack s)) eqn:Em; [inversion Hget; subst; exact HT|].
  pose proof (I_tab D s HI n) as Htab.
  destruct (inst s n) as [t|] eqn:En; [inversion Hget; subst; exact HT|].
  unfold effF in Htab.
  destruct (fac s n) as [[id p]|] eqn:Ef.
  { eapply (call_tok D (get f) f); try eassumption; [apply get_inv | lia]. }
  destruct (dfac s n) as [[id p]|] eqn:Edf.
  { eapply (call_tok D (get f) f); try eassumption; [apply get_inv | lia]. }
  inversion Hget; subst. exact HT.
Qed.

Lemma Tok_init : Tok init.
Proof. constructor; cbn; try discriminate; try reflexivity. intros n t' []. Qed.

Lemma block_inst_some s n t : inst s n = Some t -> inst (block s) n = Some t.
Proof.
  intro H. unfold block. destruct (blocked s); [exact H|]. cbn [inst]. rewrite H. cbn [isSome negb].
  rewrite andb_false_r. reflexivity.
Qed.

Lemma Tok_block s : Tok s -> Tok (block s).
Proof.
  intros HT. unfold block. destruct (blocked s) eqn:Eb; [exact HT|].
  destruct HT as [H1 H2 H3 H4]. constructor; cbn [inst wire dinst blocked runs]; try discriminate.
  - intros n t. destruct (isSome (dinst s n) && negb (isSome (fac s n)) && negb (isSome (inst s n))); intro H.
    + destruct (H3 n t H) as (Ha & Hb). rewrite (H4 Eb n). auto.
    + apply H1. exact H.
  - intros n t' Hin. pose proof (H2 n t' Hin) as Hi. rewrite Hi. cbn [isSome negb].
    rewrite andb_false_r. reflexivity.
Qed.

Lemma Tok_def s o : is_def o = true -> Tok s -> Tok (fst (step s o)).
Proof.
  intros Hd HT. pose proof HT as [H1 H2 H3 H4].
  destruct o as [m v|m v|m id p|m id p| |]; try discriminate; cbn [step];
    unfold set_, set_default, add_factory, add_default_factory; split_if; try exact HT;
    constructor; cbn [inst wire dinst blocked runs]; try assumption.
  - intros n t. destruct (N.eq_dec n m) as [->|Hne].
    + rewrite upd_same. intro E. inversion E. cbn. split; [symmetry; apply H4; first [assumption | reflexivity] | reflexivity].
    + rewrite upd_other by exact Hne. apply H1.
  - intros n t' Hin. pose proof (H2 n t' Hin) as Hi.
    destruct (N.eq_dec (t_name t') m) as [E|Hne].
    + rewrite E in Hi. rewrite Hi in *. discriminate.
    + rewrite upd_other by exact Hne. exact Hi.
  - intros n t. destruct (N.eq_dec n m) as [->|Hne].
    + rewrite upd_same. intro E. inversion E. cbn. split; reflexivity.
    + rewrite upd_other by exact Hne. apply H3.
Qed.

Lemma Tok_step s o : WF s -> Tok s -> Tok (fst (step s o)).
Proof.
  intros HW HT. destruct (is_def o) eqn:Ed; [apply Tok_def; assumption|].
  destruct o as [| | | |n|fs]; try discriminate; cbn [step].
  - destruct (Get s n) as [s' r] eqn:E. cbn [fst]. rewrite Get_block_eq in E.
    eapply (get_tok (defs_of s) (fuel_of (block s)));
      [apply Inv_defs_of; exact HW | apply fuel_ok | apply Tok_block; exact HT | exact E].
  - destruct fs as [|[d o] fs]; [cbn; exact HT|]. rewrite Inject_block_eq.
    destruct (Inject (block s) ((d, o) :: fs)) as [[s' l] r] eqn:E. cbn [fst].
    eapply (deps_tok (defs_of s) (get (fuel_of (block s))) (fuel_of (block s)));
      [apply get_inv | apply get_tok | apply Inv_defs_of; exact HW | apply fuel_ok
       | apply Tok_block; exact HT | exact E].
Qed.

Lemma Tok_run ops : forall s, WF s -> Tok s -> Tok (run ops s).
Proof.
  induction ops as [|o ops IH]; intros s HW HT; [exact HT|].
  rewrite run_cons. apply IH; [apply WF_step; exact HW | apply Tok_step; assumption].
Qed.

Lemma Tok_reachable ops : Tok (run ops init).
Proof. apply Tok_run; [apply WF_init | apply Tok_init]. Qed.

(** an instance, once in the table, stays; the factories of its name never run again *)
Lemma inst_step s o n t : WF s -> inst s n = Some t ->
  inst (fst (step s o)) n = Some t /\ runs (fst (step s o)) n = runs s n.
Proof.
  intros HW Hn. destruct (is_def o) eqn:Ed.
  { split; [|rewrite def_runs by exact Ed; reflexivity].
    destruct (def_frame s o n Ed) as (Hi & _). cbv zeta in Hi.
    destruct Hi as [Hi | (_ & Hi & _)]; congruence. }
  pose proof (block_inst_some s n t Hn) as Hbn.
  destruct o as [| | | |m|fs]; try discriminate; cbn [step].
  - destruct (Get s m) as [s' r] eqn:E. cbn [fst].
    destruct (Get_WF s m s' r HW E) as (_ & _ & _ & Hmono & Hlazy & _).
    split; [apply Hmono; exact Hbn|].
    destruct (N.eq_dec (runs s' n) (runs s n)) as [Eq|Ne]; [exact Eq|].
    rewrite <- (block_runs s) in Ne. apply Hlazy in Ne. destruct Ne as (Ne & _). congruence.
  - destruct fs as [|[d o] fs]; [cbn; auto|]. rewrite Inject_block_eq.
    destruct (Inject (block s) ((d, o) :: fs)) as [[s' l] r] eqn:E. cbn [fst].
    destruct (Inject_inv _ _ _ _ _ _ (Inv_defs_of s HW) E) as (_ & _ & _ & Hmono & Hlazy & _).
    split; [apply Hmono; exact Hbn|].
    destruct (N.eq_dec (runs s' n) (runs s n)) as [Eq|Ne]; [exact Eq|].
    rewrite <- (block_runs s) in Ne. apply Hlazy in Ne. destruct Ne as (Ne & _). congruence.
Qed.

Lemma inst_run ops : forall s n t, WF s -> inst s n = Some t ->
  inst (run ops s) n = Some t /\ runs (run ops s) n = runs s n.
Proof.
  induction ops as [|o ops IH]; intros s n t HW Hn; [cbn; auto|].
  rewrite run_cons. destruct (inst_step s o n t HW Hn) as (H1 & H2).
  destruct (IH _ n t (WF_step s o HW) H1) as (H3 & H4). split; [exact H3 | congruence].
Qed.

Lemma Get_hit_block s n t : WF s -> inst s n = Some t -> Get s n = (block s, GOk t).
Proof.
  intros HW Hn. rewrite Get_block_eq. apply Get_hit.
  - apply block_blocked.
  - rewrite block_stack. apply (W_stk s HW).
  - apply block_inst_some. exact Hn.
Qed.

Lemma instance_forever_wf s n t ops' : WF s -> inst s n = Some t ->
  let s2 := run ops' s in
  Get s2 n = (block s2, GOk t) /\ runs s2 n = runs s n /\ inst s2 n = Some t.
Proof.
  intros HW Hn s2. destruct (inst_run ops' s n t HW Hn) as (H1 & H2). fold s2 in H1, H2.
  split; [|auto]. apply Get_hit_block; [apply WF_run; exact HW | exact H1].
Qed.

Lemma instance_forever ops n t ops' : let s := run ops init in inst s n = Some t ->
  let s2 := run ops' s in
  Get s2 n = (block s2, GOk t) /\ runs s2 n = runs s n /\ inst s2 n = Some t.
Proof. intros s. apply instance_forever_wf, WF_reachable. Qed.

(** the run counter of a name that has an instance is the construction number of that instance
    (0 for Set / SetDefault values): the successful run was the last run *)
Lemma token_invariant ops n t : inst (run ops init) n = Some t ->
  t_num t = runs (run ops init) n /\ t_name t = n.
Proof. apply (T_num _ (Tok_reachable ops)). Qed.

(** a field filled by InjectTo holds the stored instance of the field's name *)
Lemma Inject_fields_wf s fs s' l r : WF s -> Tok s -> Inject s fs = (s', l, r) ->
  forall d t, In (d, Some t) (combine (map fst fs) l) -> inst s' d = Some t /\ t_name t = d.
Proof.
  intros HW HT E. destruct fs as [|[d0 o0] fs]; [cbn in E; inversion E; subst; intros d t []|].
  rewrite Inject_block_eq in E.
  apply (deps_tok (defs_of s) (get (fuel_of (block s))) (fuel_of (block s)) (get_inv _ _) (get_tok _ _)
           _ _ _ _ _ (Inv_defs_of s HW) (fuel_ok _) (Tok_block s HT) E).
Qed.

Lemma inject_field_singleton ops fs s' l r d t ops' :
  Inject (run ops init) fs = (s', l, r) -> In (d, Some t) (combine (map fst fs) l) ->
  let s2 := run ops' s' in
  Get s2 d = (block s2, GOk t) /\ runs s2 d = runs s' d /\ inst s2 d = Some t /\ t_name t = d.
Proof.
  intros E Hin s2.
  destruct (Inject_fields_wf _ _ _ _ _ (WF_reachable ops) (Tok_reachable ops) E d t Hin) as (Hi & Hn).
  assert (WF s') as HW'.
  { pose proof (WF_step _ (OInject fs) (WF_reachable ops)) as H. cbn [step] in H. rewrite E in H. exact H. }
  destruct (instance_forever_wf s' d t ops' HW' Hi) as (H1 & H2 & H3). auto.
Qed.

(** every token a factory product recorded in its fields is the stored singleton of its name:
    the factories get, through the provider, the very instances every other request gets *)
Lemma wire_singleton ops n t' ops' : let s := run ops init in
  In (Some t') (wire s n) ->
  let s2 := run ops' s in
  Get s2 (t_name t') = (block s2, GOk t') /\ runs s2 (t_name t') = runs s (t_name t') /\
  inst s (t_name t') = Some t'.
Proof.
  intros s Hin s2. pose proof (T_wire _ (Tok_reachable ops) n t' Hin) as Hi. fold s in Hi.
  destruct (instance_forever ops (t_name t') t' ops' Hi) as (H1 & H2 & _). auto.
Qed.

(** * D. Anything that requires a name on a required cycle is an error *)

Lemma Good_rt D n m : clos_refl_trans name (req_edge D) n m ->
  forall vis, Good D vis n -> exists vis', Good D vis' m.
Proof.
  induction 1 as [n m He|n|n y m _ IH1 _ IH2]; intros vis HG.
  - exists (n :: vis). eapply Good_req_edge; eassumption.
  - exists vis. exact HG.
  - destruct (IH1 _ HG) as (v1 & H1). apply (IH2 _ H1).
Qed.

Lemma crt_req_ext D D' a b : deq D D' ->
  clos_refl_trans name (req_edge D) a b -> clos_refl_trans name (req_edge D') a b.
Proof.
  intros He. induction 1.
  - apply rt_step. eapply req_edge_ext; eassumption.
  - apply rt_refl.
  - eapply rt_trans; eassumption.
Qed.

Lemma cycle_reach_err ops n m : let s := run ops init in
  clos_refl_trans name (req_edge (eff s)) n m -> clos_trans name (req_edge (eff s)) m m ->
  snd (Get s n) = GErr.
Proof.
  intros s Hnm Hc. pose proof (WF_reachable ops) as HW. fold s in HW.
  assert (forall vis, ~ Good (defs_of s) vis n) as Hng.
  { intros vis HG.
    destruct (Good_rt _ n m (crt_req_ext _ _ _ _ (deq_sym _ _ (deq_defs_of s)) Hnm) vis HG) as (v' & HGm).
    apply (Good_no_cycle _ _ _ HGm). apply (ct_ext _ _ _ _ (deq_sym _ _ (deq_defs_of s)) Hc). }
  destruct (Get s n) as [s' r] eqn:E. cbn [snd].
  destruct (Get_WF s n s' r HW E) as (_ & _ & _ & _ & _ & Hr).
  destruct r as [t| |]; [|reflexivity|contradiction].
  destruct Hr as (_ & [Hc' | (_ & HG & _)]).
  - exfalso. apply (Hng (stack (block s))). eapply cached_good; [apply Inv_defs_of; exact HW | exact Hc'].
  - exfalso. apply (Hng _ HG).
Qed.

(** ... and an InjectTo with a required field for such a name fails at that field *)
Lemma cycle_reach_inject ops n m o fs : let s := run ops init in
  clos_refl_trans name (req_edge (eff s)) n m -> clos_trans name (req_edge (eff s)) m m ->
  Inject s ((n, o) :: fs) =
  if o then let '(s2, l, rr) := Inject (fst (Get s n)) fs in (s2, None :: l, rr)
  else (fst (Get s n), [], RErr).
Proof.
  intros s Hnm Hc. pose proof (cycle_reach_err ops n m Hnm Hc) as He. fold s in He.
  unfold s. rewrite (inject_cons ops n o fs). fold s.
  destruct (Get s n) as [s1 r1]. cbn [snd fst] in *. subst r1. reflexivity.
Qed.

(** * E. Lazy, the functional half: a request for a name that has a factory and no instance DOES
    run that factory, exactly once within the request (nested requests for the name hit the cycle
    check), whether the request then succeeds or fails *)

Lemma call_runs D g b s n k id p s' r :
  get_spec D g b -> Inv D s -> (avail s <= b)%nat ->
  mem n (stack s) = false -> inst s n = None -> D n = Some (EFac k id p) ->
  call g s n k id p = (s', r) -> runs s' n = N.succ (runs s n).
Proof.
  intros Hg HI Hb Hm Hn HD Hcall. unfold call in Hcall.
  destruct (run_deps g (push n s) (deps p)) as [[s2 w] r2] eqn:Edeps.
  assert (Inv D (push n s)) as HI1 by (apply Inv_push; assumption).
  assert (avail (push n s) < b)%nat as Hb1.
  { pose proof (avail_push n s (I_key D s HI n k id p HD) Hm). lia. }
  destruct (deps_inv D g b Hg (deps p) (push n s) s2 w r2 HI1 Hb1 Edeps) as (_ & _ & _ & _ & Hlazy2 & _).
  assert (runs s2 n = N.succ (runs s n)) as Hrn.
  { destruct (N.eq_dec (runs s2 n) (runs (push n s) n)) as [E|E].
    - cbn [push runs] in E. rewrite upd_same in E. exact E.
    - destruct (Hlazy2 n E) as (_ & Hms & _). cbn [push stack mem] in Hms.
      rewrite N.eqb_refl in Hms. discriminate. }
  assert (runs s' = runs s2) as ->; [|exact Hrn].
  destruct r2; [destruct (fails p || returns_nil p); [|destruct k]| |]; inversion Hcall; subst; reflexivity.
Qed.

Lemma first_need_runs_once_wf s n k id p : WF s -> eff s n = Some (EFac k id p) ->
  runs (fst (Get s n)) n = N.succ (runs s n).
Proof.
  intros HW He. rewrite Get_block_eq. rewrite <- (block_runs s).
  pose proof (Inv_defs_of s HW) as HI. set (b := block s) in *.
  assert (eff b n = Some (EFac k id p)) as Heb by (unfold b; rewrite eff_block; exact He).
  assert (stack b = []) as Hs by (unfold b; rewrite block_stack; apply (W_stk s HW)).
  rewrite (eff_frozen b n (I_din _ _ HI n)) in Heb.
  destruct (inst b n) as [t|] eqn:Hn; [discriminate|]. unfold effF in Heb.
  destruct (Get b n) as [s' r] eqn:E. cbn [fst].
  unfold Get, fuel_of in E. cbn [get] in E. rewrite (block_id b (I_blk _ _ HI)), Hs in E. cbn [mem] in E.
  rewrite Hn in E.
  pose proof (I_tab _ _ HI n) as Htab. rewrite Hn in Htab. unfold effF in Htab.
  assert (avail b <= length (keys b))%nat as Hav by apply avail_le.
  destruct (fac b n) as [[id' p']|].
  - eapply (call_runs _ (get (length (keys b))) (length (keys b))); try exact E; try eassumption;
      [apply get_inv | rewrite Hs; reflexivity].
  - destruct (dfac b n) as [[id' p']|]; [|discriminate].
    eapply (call_runs _ (get (length (keys b))) (length (keys b))); try exact E; try eassumption;
      [apply get_inv | rewrite Hs; reflexivity].
Qed.

Lemma first_need_runs_once ops n k id p : let s := run ops init in
  eff s n = Some (EFac k id p) -> runs (fst (Get s n)) n = N.succ (runs s n).
Proof. intro s. apply first_need_runs_once_wf, WF_reachable. Qed.

(** * F. What is not order independent: among explicit calls for one name the first wins *)
Lemma explicit_order_matters :
  let a := OSet 0 5 in let b := OAddFactory 0 6 (mkProg [] false false) in
  Permutation [a; b] [b; a] /\
  map (fun x => fst (fst x)) (run_obs [0] [a; b; OGet 0] init)
    = [UDef true; UDef true; UGet (GOk (mkTok 0 KInst 5 0))] /\
  map (fun x => fst (fst x)) (run_obs [0] [b; a; OGet 0] init)
    = [UDef true; UDef false; UGet (GOk (mkTok 0 KFac 6 1))].
Proof. cbv zeta. split; [apply perm_swap | vm_compute; split; reflexivity]. Qed.
