(** Proofs about Model/Json.v: string scanning and unescaping, bracket scanning, the object walk
    on rendered documents (read_leaf), the emitter as a document, write/read round trip, fuel. *)
From GC Require Import Common.Base Model.PlainMap Model.Json Proofs.PlainMap.
From Coq Require Import ZArith Lia ZifyBool ZifyNat ZifyN Permutation.

Local Open Scope N_scope.

(** * small helpers *)

Definition prepend {B} (a : bytes) (o : option (bytes * B)) : option (bytes * B) :=
  match o with Some (x, y) => Some (a ++ x, y) | None => None end.

Lemma prepend_nil {B} (o : option (bytes * B)) : prepend [] o = o.
Proof. destruct o as [[x y]|]; reflexivity. Qed.

Lemma cons_fst_prepend {B} x (o : option (bytes * B)) : cons_fst x o = prepend [x] o.
Proof. destruct o as [[a b]|]; reflexivity. Qed.

Lemma prepend_app {B} a b (o : option (bytes * B)) : prepend a (prepend b o) = prepend (a ++ b) o.
Proof. destruct o as [[x y]|]; simpl; [rewrite app_assoc|]; reflexivity. Qed.

Lemma omap_app_nil (o : option bytes) : omap (app []) o = o.
Proof. destruct o; reflexivity. Qed.

Lemma omap_app_app a b (o : option bytes) : omap (app a) (omap (app b) o) = omap (app (a ++ b)) o.
Proof. destruct o; simpl; [rewrite app_assoc|]; reflexivity. Qed.

Lemma omap_cons_app c (o : option bytes) : omap (cons c) o = omap (app [c]) o.
Proof. destruct o; reflexivity. Qed.

(** * whitespace *)

Lemma skipws_ws w r : all_ws w = true -> skipws (w ++ r) = skipws r.
Proof.
  induction w as [|c w IH]; simpl; intro H; [reflexivity|].
  apply andb_true_iff in H as [Hc Hw]. rewrite Hc. auto.
Qed.

Lemma skipws_nonws c r : is_ws c = false -> skipws (c :: r) = c :: r.
Proof. intro H. simpl. rewrite H. reflexivity. Qed.

Lemma skipws_ws_nonws w c r : all_ws w = true -> is_ws c = false -> skipws (w ++ c :: r) = c :: r.
Proof. intros. rewrite skipws_ws by assumption. apply skipws_nonws. assumption. Qed.

Lemma all_ws_app a b : all_ws (a ++ b) = all_ws a && all_ws b.
Proof. apply forallb_app. Qed.

(** * hex digits *)

Lemma hexval_not_special a h : hexval a = Some h -> N.eqb a QUOTE = false /\ N.eqb a BSL = false.
Proof.
  unfold hexval, QUOTE, BSL.
  destruct (N.leb 48 a && N.leb a 57) eqn:E1; [intros _; lia|].
  destruct (N.leb 65 a && N.leb a 70) eqn:E2; [intros _; lia|].
  destruct (N.leb 97 a && N.leb a 102) eqn:E3; [intros _; lia|]. discriminate.
Qed.

Lemma hex4_not_special a b c d r : hex4 a b c d = Some r ->
  (N.eqb a QUOTE = false /\ N.eqb a BSL = false) /\ (N.eqb b QUOTE = false /\ N.eqb b BSL = false) /\
  (N.eqb c QUOTE = false /\ N.eqb c BSL = false) /\ (N.eqb d QUOTE = false /\ N.eqb d BSL = false).
Proof.
  unfold hex4. destruct (hexval a) eqn:Ha; [|discriminate]. destruct (hexval b) eqn:Hb; [|discriminate].
  destruct (hexval c) eqn:Hc; [|discriminate]. destruct (hexval d) eqn:Hd; [|discriminate]. intros _.
  repeat split; eapply hexval_not_special; eauto.
Qed.

Lemma hexval_hexdigit n : n < 16 -> hexval (hexdigit n) = Some n.
Proof.
  intro H. unfold hexval, hexdigit. destruct (N.ltb n 10) eqn:E.
  - replace (N.leb 48 (48 + n) && N.leb (48 + n) 57) with true by lia. f_equal. lia.
  - replace (N.leb 48 (87 + n) && N.leb (87 + n) 57) with false by lia.
    replace (N.leb 65 (87 + n) && N.leb (87 + n) 70) with false by lia.
    replace (N.leb 97 (87 + n) && N.leb (87 + n) 102) with true by lia. f_equal. lia.
Qed.

(** * string literals: stringEnd and Unescape on rendered characters *)

Lemma basic_escape_not_u e x : basic_escape e = Some x -> N.eqb e 117 = false.
Proof.
  destruct (N.eqb e 117) eqn:E; [|reflexivity]. apply N.eqb_eq in E. subst e. vm_compute. discriminate.
Qed.

Definition plainb (x : byte) : bool := negb (N.eqb x QUOTE) && negb (N.eqb x BSL).

Lemma hex4_plain a b c d r : hex4 a b c d = Some r -> forallb plainb [a; b; c; d] = true.
Proof.
  intro H. apply hex4_not_special in H as [[A1 A2] [[B1 B2] [[C1 C2] [D1 D2]]]].
  unfold plainb. cbn [forallb]. rewrite A1, A2, B1, B2, C1, C2, D1, D2. reflexivity.
Qed.

Lemma str_end_plain w r : forallb plainb w = true ->
  str_end false (w ++ r) = prepend w (str_end false r).
Proof.
  induction w as [|x w IH]; intro H; [symmetry; apply prepend_nil|].
  cbn [forallb] in H. apply andb_true_iff in H as [Hx Hw]. unfold plainb in Hx.
  apply andb_true_iff in Hx as [H1 H2]. apply negb_true_iff in H1, H2.
  cbn [app str_end]. rewrite H1, H2, IH by assumption. rewrite cons_fst_prepend, prepend_app. reflexivity.
Qed.

Lemma str_end_esc y r : str_end false (BSL :: y :: r) = prepend [BSL; y] (str_end false r).
Proof.
  cbn [str_end]. change (N.eqb BSL QUOTE) with false. change (N.eqb BSL BSL) with true. cbn match.
  destruct (str_end false r) as [[a b]|]; reflexivity.
Qed.

Lemma str_end_char c r : jchar_ok c = true ->
  str_end false (render_char c ++ r) = prepend (render_char c) (str_end false r).
Proof.
  destruct c as [b|e|a b c d|a b c d a' b' c' d']; cbn [jchar_ok render_char]; intro H.
  - apply (str_end_plain [b]). cbn [forallb]. rewrite andb_true_r. exact H.
  - apply str_end_esc.
  - destruct (hex4 a b c d) eqn:E; [|discriminate]. apply hex4_plain in E.
    change ([BSL; 117; a; b; c; d] ++ r) with (BSL :: 117 :: ([a; b; c; d] ++ r)).
    rewrite str_end_esc, str_end_plain by assumption. rewrite prepend_app. reflexivity.
  - destruct (hex4 a b c d) eqn:E; [|discriminate]. destruct (hex4 a' b' c' d') eqn:E'; [|discriminate].
    apply hex4_plain in E. apply hex4_plain in E'.
    change ([BSL; 117; a; b; c; d; BSL; 117; a'; b'; c'; d'] ++ r)
      with (BSL :: 117 :: ([a; b; c; d] ++ BSL :: 117 :: ([a'; b'; c'; d'] ++ r))).
    rewrite str_end_esc, str_end_plain by assumption. rewrite str_end_esc, str_end_plain by assumption.
    rewrite !prepend_app. reflexivity.
Qed.

Lemma str_end_chars s r : forallb jchar_ok s = true ->
  str_end false (render_chars s ++ QUOTE :: r) = Some (render_chars s, r).
Proof.
  induction s as [|c s IH]; intro H.
  - reflexivity.
  - cbn [forallb] in H. apply andb_true_iff in H as [Hc Hs].
    unfold render_chars in *. cbn [flat_map]. rewrite <- app_assoc, str_end_char by assumption.
    rewrite IH by assumption. reflexivity.
Qed.

Lemma unescape_char c r : jchar_ok c = true ->
  unescape (render_char c ++ r) = omap (app (decode_char c)) (unescape r).
Proof.
  destruct c as [b|e|a b c d|a b c d a' b' c' d']; cbn [jchar_ok render_char decode_char app]; intro H.
  - apply andb_true_iff in H as [H1 H2]. apply negb_true_iff in H2.
    cbn [unescape]. rewrite H2. cbn [negb]. apply omap_cons_app.
  - destruct (basic_escape e) as [x|] eqn:E; [|discriminate].
    cbn [unescape]. change (N.eqb BSL BSL) with true. cbn [negb].
    rewrite (basic_escape_not_u _ _ E), E. apply omap_cons_app.
  - destruct (hex4 a b c d) as [r0|] eqn:E; [|discriminate].
    cbn [unescape]. change (N.eqb BSL BSL) with true. cbn [negb]. change (N.eqb 117 117) with true. cbn match.
    rewrite E, H. reflexivity.
  - destruct (hex4 a b c d) as [hi|] eqn:E; [|discriminate]. destruct (hex4 a' b' c' d') as [lo|] eqn:E'; [|discriminate].
    cbn [unescape]. change (N.eqb BSL BSL) with true. cbn [negb]. change (N.eqb 117 117) with true. cbn match.
    rewrite E. replace (is_surrogate hi) with true by (unfold is_surrogate; lia). cbn [negb].
    rewrite E'. replace (N.ltb lo 56320) with false by lia. reflexivity.
Qed.

Lemma unescape_chars s : forallb jchar_ok s = true -> unescape (render_chars s) = Some (decode s).
Proof.
  induction s as [|c s IH]; intro H; [reflexivity|].
  cbn [forallb] in H. apply andb_true_iff in H as [Hc Hs].
  unfold render_chars, decode in *. cbn [flat_map]. rewrite unescape_char by assumption.
  rewrite IH by assumption. reflexivity.
Qed.

(** * formatStringJSON as a list of characters of the strict subset *)

Definition echar (c : byte) : jchar :=
  if N.eqb c 34 || N.eqb c 92 then Esc c
  else if N.eqb c 10 then Esc 110
  else if N.eqb c 13 then Esc 114
  else if N.eqb c 9 then Esc 116
  else if N.ltb c 32 then EscU 48 48 (hexdigit (c / 16)) (hexdigit (c mod 16))
  else Raw c.
Definition echars (s : bytes) : list jchar := map echar s.

Lemma render_echar c : render_char (echar c) = escape_byte c.
Proof.
  unfold echar, escape_byte.
  destruct (N.eqb c 34 || N.eqb c 92); [reflexivity|].
  destruct (N.eqb c 10); [reflexivity|]. destruct (N.eqb c 13); [reflexivity|].
  destruct (N.eqb c 9); [reflexivity|]. destruct (N.ltb c 32); reflexivity.
Qed.

Lemma render_echars s : render_chars (echars s) = escape s.
Proof.
  unfold render_chars, echars, escape. induction s as [|c s IH]; [reflexivity|].
  cbn [map flat_map]. rewrite render_echar, IH. reflexivity.
Qed.

Lemma hex4_low c : c < 32 -> hex4 48 48 (hexdigit (c / 16)) (hexdigit (c mod 16)) = Some c.
Proof.
  intro H. unfold hex4. change (hexval 48) with (Some 0).
  assert (c / 16 < 16) by (apply N.div_lt_upper_bound; lia).
  assert (c mod 16 < 16) by (apply N.mod_lt; lia).
  rewrite !hexval_hexdigit by assumption. f_equal.
  pose proof (N.div_mod c 16). lia.
Qed.

Lemma echar_spec c : jchar_strict (echar c) = true /\ decode_char (echar c) = [c].
Proof.
  unfold echar.
  destruct (N.eqb c 34 || N.eqb c 92) eqn:E1.
  { apply orb_true_iff in E1 as [E|E]; apply N.eqb_eq in E; subst c; vm_compute; auto. }
  destruct (N.eqb c 10) eqn:E2. { apply N.eqb_eq in E2; subst c; vm_compute; auto. }
  destruct (N.eqb c 13) eqn:E3. { apply N.eqb_eq in E3; subst c; vm_compute; auto. }
  destruct (N.eqb c 9) eqn:E4. { apply N.eqb_eq in E4; subst c; vm_compute; auto. }
  destruct (N.ltb c 32) eqn:E5.
  - assert (Hc : c < 32) by lia. unfold jchar_strict. cbn [jchar_ok decode_char].
    rewrite (hex4_low c Hc). split.
    + unfold is_surrogate. lia.
    + unfold utf8_encode. replace (N.ltb c 128) with true by lia. reflexivity.
  - unfold jchar_strict. cbn [jchar_ok decode_char]. unfold QUOTE, BSL. split; [lia|reflexivity].
Qed.

Lemma echars_strict s : forallb jchar_strict (echars s) = true.
Proof.
  unfold echars. induction s as [|c s IH]; [reflexivity|]. cbn [map forallb].
  rewrite (proj1 (echar_spec c)), IH. reflexivity.
Qed.

Lemma strict_ok_chars s : forallb jchar_strict s = true -> forallb jchar_ok s = true.
Proof.
  induction s as [|c s IH]; [reflexivity|]. cbn [forallb]. intro H.
  apply andb_true_iff in H as [Hc Hs]. unfold jchar_strict in Hc. apply andb_true_iff in Hc as [Hc _].
  rewrite Hc, IH by assumption. reflexivity.
Qed.

Lemma echars_ok s : forallb jchar_ok (echars s) = true.
Proof. apply strict_ok_chars, echars_strict. Qed.

Lemma decode_echars s : decode (echars s) = s.
Proof.
  unfold decode, echars. induction s as [|c s IH]; [reflexivity|]. cbn [map flat_map].
  rewrite (proj2 (echar_spec c)), IH. reflexivity.
Qed.

(** unescape (escape v) = v for every byte string *)
Lemma unescape_escape v : unescape (escape v) = Some v.
Proof. rewrite <- render_echars, unescape_chars by apply echars_ok. rewrite decode_echars. reflexivity. Qed.

Lemma fmt_string_render s : fmt_string s = render_str (echars s).
Proof. unfold fmt_string, render_str. rewrite render_echars. reflexivity. Qed.

(** * bracket scanning over rendered documents *)

Definition bp (o c : byte) : Prop := (o = LBRACE /\ c = RBRACE) \/ (o = LBRACK /\ c = RBRACK).

Definition neutral (o c x : byte) : bool := negb (N.eqb x QUOTE) && negb (N.eqb x o) && negb (N.eqb x c).

Lemma scan_neutral o c L w r : forallb (neutral o c) w = true ->
  block_scan o c L false false (w ++ r) = prepend w (block_scan o c L false false r).
Proof.
  induction w as [|x w IH]; intro H; [symmetry; apply prepend_nil|].
  cbn [forallb] in H. apply andb_true_iff in H as [Hx Hw]. unfold neutral in Hx.
  apply andb_true_iff in Hx as [Hx H3]. apply andb_true_iff in Hx as [H1 H2].
  apply negb_true_iff in H1, H2, H3.
  cbn [app block_scan]. rewrite H1, H2, H3, IH by assumption.
  rewrite cons_fst_prepend, prepend_app. reflexivity.
Qed.

Lemma scan_in_plain o c L w r : forallb plainb w = true ->
  block_scan o c L true false (w ++ r) = prepend w (block_scan o c L true false r).
Proof.
  induction w as [|x w IH]; intro H; [symmetry; apply prepend_nil|].
  cbn [forallb] in H. apply andb_true_iff in H as [Hx Hw]. unfold plainb in Hx.
  apply andb_true_iff in Hx as [H1 H2]. apply negb_true_iff in H1, H2.
  cbn [app block_scan]. rewrite H1, H2, IH by assumption. rewrite cons_fst_prepend, prepend_app. reflexivity.
Qed.

Lemma scan_in_esc o c L y r :
  block_scan o c L true false (BSL :: y :: r) = prepend [BSL; y] (block_scan o c L true false r).
Proof.
  cbn [block_scan]. change (N.eqb BSL QUOTE) with false. change (N.eqb BSL BSL) with true. cbn match.
  destruct (block_scan o c L true false r) as [[a b]|]; reflexivity.
Qed.

Lemma scan_instr_char o c L ch r : jchar_ok ch = true ->
  block_scan o c L true false (render_char ch ++ r) = prepend (render_char ch) (block_scan o c L true false r).
Proof.
  destruct ch as [b|e|a b c0 d|a b c0 d a' b' c' d']; cbn [jchar_ok render_char]; intro H.
  - apply (scan_in_plain o c L [b]). cbn [forallb]. rewrite andb_true_r. exact H.
  - apply scan_in_esc.
  - destruct (hex4 a b c0 d) eqn:E; [|discriminate]. apply hex4_plain in E.
    change ([BSL; 117; a; b; c0; d] ++ r) with (BSL :: 117 :: ([a; b; c0; d] ++ r)).
    rewrite scan_in_esc, scan_in_plain by assumption. rewrite prepend_app. reflexivity.
  - destruct (hex4 a b c0 d) eqn:E; [|discriminate]. destruct (hex4 a' b' c' d') eqn:E'; [|discriminate].
    apply hex4_plain in E. apply hex4_plain in E'.
    change ([BSL; 117; a; b; c0; d; BSL; 117; a'; b'; c'; d'] ++ r)
      with (BSL :: 117 :: ([a; b; c0; d] ++ BSL :: 117 :: ([a'; b'; c'; d'] ++ r))).
    rewrite scan_in_esc, scan_in_plain by assumption. rewrite scan_in_esc, scan_in_plain by assumption.
    rewrite !prepend_app. reflexivity.
Qed.

Lemma scan_str o c L s r : forallb jchar_ok s = true ->
  block_scan o c L false false (render_str s ++ r) = prepend (render_str s) (block_scan o c L false false r).
Proof.
  intro H. unfold render_str. cbn [app block_scan]. change (N.eqb QUOTE QUOTE) with true. cbn match.
  rewrite cons_fst_prepend. rewrite <- app_assoc.
  assert (G : forall s, forallb jchar_ok s = true ->
     block_scan o c L true false (render_chars s ++ [QUOTE] ++ r) =
     prepend (render_chars s ++ [QUOTE]) (block_scan o c L false false r)).
  { clear. induction s as [|ch s IH]; intro H.
    - cbn [render_chars flat_map app block_scan]. change (N.eqb QUOTE QUOTE) with true. cbn match.
      apply cons_fst_prepend.
    - cbn [forallb] in H. apply andb_true_iff in H as [Hc Hs]. unfold render_chars in *. cbn [flat_map].
      rewrite <- !app_assoc, scan_instr_char by assumption. rewrite IH by assumption.
      rewrite prepend_app. rewrite <- ?app_assoc. reflexivity. }
  rewrite G by assumption. rewrite prepend_app. reflexivity.
Qed.

Scheme jv_mut := Induction for jv Sort Prop
with elems_mut := Induction for elems Sort Prop
with members_mut := Induction for members Sort Prop.
Combined Scheme jv_mutind from jv_mut, elems_mut, members_mut.

Definition sok (o c : byte) (L : Z) (X : bytes) : Prop :=
  forall r, block_scan o c L false false (X ++ r) = prepend X (block_scan o c L false false r).

Lemma sok_nil o c L : sok o c L [].
Proof. intro r. symmetry. apply prepend_nil. Qed.

Lemma sok_app o c L X Y : sok o c L X -> sok o c L Y -> sok o c L (X ++ Y).
Proof. intros HX HY r. rewrite <- app_assoc, HX, HY, prepend_app. reflexivity. Qed.

Lemma sok_neutral o c L w : forallb (neutral o c) w = true -> sok o c L w.
Proof. intros H r. apply scan_neutral. assumption. Qed.

Lemma sok_str o c L s : forallb jchar_ok s = true -> sok o c L (render_str s).
Proof. intros H r. apply scan_str. assumption. Qed.

Lemma ws_neutral o c w : bp o c -> all_ws w = true -> forallb (neutral o c) w = true.
Proof.
  intros B. induction w as [|x w IH]; [reflexivity|]. cbn [all_ws forallb]. intro H.
  apply andb_true_iff in H as [Hx Hw]. rewrite IH by assumption. rewrite andb_true_r.
  unfold neutral, is_ws, QUOTE in *. destruct B as [[-> ->]|[-> ->]]; unfold LBRACE, RBRACE, LBRACK, RBRACK; lia.
Qed.

Lemma num_neutral o c w : bp o c -> forallb is_numchar w = true -> forallb (neutral o c) w = true.
Proof.
  intros B. induction w as [|x w IH]; [reflexivity|]. cbn [forallb]. intro H.
  apply andb_true_iff in H as [Hx Hw]. rewrite IH by assumption. rewrite andb_true_r.
  unfold neutral, is_numchar, QUOTE in *. destruct B as [[-> ->]|[-> ->]]; unfold LBRACE, RBRACE, LBRACK, RBRACK; lia.
Qed.

Lemma sok_ws o c L w : bp o c -> all_ws w = true -> sok o c L w.
Proof. intros. apply sok_neutral, ws_neutral; assumption. Qed.

Lemma sok_const o c L w : bp o c ->
  forallb (neutral LBRACE RBRACE) w = true -> forallb (neutral LBRACK RBRACK) w = true -> sok o c L w.
Proof. intros [[-> ->]|[-> ->]] H1 H2; apply sok_neutral; assumption. Qed.

(** a bracketed block whose body is scan-neutral at every level >= 1 is scan-neutral at level >= 1 *)
Lemma sok_block o c L x y body : bp o c -> (1 <= L)%Z -> bp x y ->
  (forall L', (1 <= L')%Z -> sok o c L' body) -> sok o c L (x :: body ++ [y]).
Proof.
  intros B HL B' Hbody r.
  destruct B as [[-> ->]|[-> ->]]; destruct B' as [[-> ->]|[-> ->]].
  - cbn [app block_scan]. change (N.eqb LBRACE QUOTE) with false. change (N.eqb LBRACE LBRACE) with true. cbn match.
    rewrite <- app_assoc, Hbody by lia. cbn [app block_scan].
    change (N.eqb RBRACE QUOTE) with false. change (N.eqb RBRACE LBRACE) with false.
    change (N.eqb RBRACE RBRACE) with true. cbn match.
    replace (Z.eqb (L + 1 - 1) 0) with false by lia. replace (L + 1 - 1)%Z with L by lia.
    rewrite !cons_fst_prepend, !prepend_app. reflexivity.
  - apply (sok_app _ _ _ [LBRACK] (body ++ [RBRACK])).
    + apply sok_neutral. reflexivity.
    + apply sok_app; [apply Hbody; lia | apply sok_neutral; reflexivity].
  - apply (sok_app _ _ _ [LBRACE] (body ++ [RBRACE])).
    + apply sok_neutral. reflexivity.
    + apply sok_app; [apply Hbody; lia | apply sok_neutral; reflexivity].
  - cbn [app block_scan]. change (N.eqb LBRACK QUOTE) with false. change (N.eqb LBRACK LBRACK) with true. cbn match.
    rewrite <- app_assoc, Hbody by lia. cbn [app block_scan].
    change (N.eqb RBRACK QUOTE) with false. change (N.eqb RBRACK LBRACK) with false.
    change (N.eqb RBRACK RBRACK) with true. cbn match.
    replace (Z.eqb (L + 1 - 1) 0) with false by lia. replace (L + 1 - 1)%Z with L by lia.
    rewrite !cons_fst_prepend, !prepend_app. reflexivity.
Qed.

Lemma num_ok_chars t : num_ok t = true -> forallb is_numchar t = true.
Proof. destruct t; [discriminate|]. unfold num_ok. intro H. apply andb_true_iff in H as [_ H]. exact H. Qed.

Lemma scan_doc :
  (forall v, forall o c L, bp o c -> (1 <= L)%Z -> jv_ok false v = true -> sok o c L (render v)) /\
  (forall e, forall o c L, bp o c -> (1 <= L)%Z -> elems_ok false e = true -> sok o c L (render_elems e)) /\
  (forall m, forall o c L, bp o c -> (1 <= L)%Z -> members_ok false m = true -> sok o c L (render_members m)).
Proof.
  apply jv_mutind.
  - intros s o c L B HL H. apply sok_str. exact H.
  - intros t o c L B HL H. apply sok_neutral, num_neutral; [assumption|]. apply num_ok_chars. exact H.
  - intros o c L B HL _. apply sok_const; [assumption| |]; reflexivity.
  - intros o c L B HL _. apply sok_const; [assumption| |]; reflexivity.
  - intros o c L B HL _. apply sok_const; [assumption| |]; reflexivity.
  - intros e IH wend o c L B HL H. cbn [jv_ok] in H. apply andb_true_iff in H as [He Hw].
    cbn [render]. rewrite app_assoc. apply sok_block; [assumption|assumption|right; split; reflexivity|].
    intros L' HL'. apply sok_app; [apply IH; assumption | apply sok_ws; assumption].
  - intros m IH wend o c L B HL H. cbn [jv_ok] in H. apply andb_true_iff in H as [He Hw].
    cbn [render]. rewrite app_assoc. apply sok_block; [assumption|assumption|left; split; reflexivity|].
    intros L' HL'. apply sok_app; [apply IH; assumption | apply sok_ws; assumption].
  - intros. apply sok_nil.
  - intros w v IHv w' e IHe o c L B HL H. cbn [elems_ok] in H.
    apply andb_true_iff in H as [H He]. apply andb_true_iff in H as [H Hw'].
    apply andb_true_iff in H as [Hw Hv]. cbn [render_elems].
    apply sok_app; [apply sok_ws; assumption|]. apply sok_app; [apply IHv; assumption|].
    apply sok_app; [apply sok_ws; assumption|].
    destruct e as [|w0 v0 w0' e0]; [apply sok_nil|].
    apply (sok_app _ _ _ [COMMA]); [apply sok_const; [assumption| |]; reflexivity|].
    apply IHe; assumption.
  - intros. apply sok_nil.
  - intros w1 k w2 w3 v IHv w4 m IHm o c L B HL H. cbn [members_ok] in H.
    repeat (let X := fresh "H" in apply andb_true_iff in H as [H X]).
    cbn [render_members].
    apply sok_app; [apply sok_ws; assumption|]. apply sok_app; [apply sok_str; assumption|].
    apply sok_app; [apply sok_ws; assumption|].
    apply (sok_app _ _ _ [COLON]); [apply sok_const; [assumption| |]; reflexivity|].
    apply sok_app; [apply sok_ws; assumption|]. apply sok_app; [apply IHv; assumption|].
    apply sok_app; [apply sok_ws; assumption|].
    destruct m as [|w1' k' w2' w3' v' w4' m']; [apply sok_nil|].
    apply (sok_app _ _ _ [COMMA]); [apply sok_const; [assumption| |]; reflexivity|].
    apply IHm; assumption.
Qed.

(** blockEnd on a rendered array / object returns exactly that block *)
Lemma block_end_obj m wend r : members_ok false m = true -> all_ws wend = true ->
  block_end LBRACE RBRACE (render (JObj m wend) ++ r) = Some (render (JObj m wend), r).
Proof.
  intros Hm Hw. unfold block_end. cbn [render app block_scan].
  change (N.eqb LBRACE QUOTE) with false. change (N.eqb LBRACE LBRACE) with true. cbn match.
  assert (B : bp LBRACE RBRACE) by (left; split; reflexivity).
  rewrite <- !app_assoc.
  rewrite (proj2 (proj2 scan_doc) m LBRACE RBRACE 1%Z B) by (assumption || lia).
  rewrite (sok_ws LBRACE RBRACE 1%Z wend B Hw).
  cbn [app block_scan]. change (N.eqb RBRACE QUOTE) with false. change (N.eqb RBRACE LBRACE) with false.
  change (N.eqb RBRACE RBRACE) with true. cbn. rewrite <- ?app_assoc. reflexivity.
Qed.

Lemma block_end_arr e wend r : elems_ok false e = true -> all_ws wend = true ->
  block_end LBRACK RBRACK (render (JArr e wend) ++ r) = Some (render (JArr e wend), r).
Proof.
  intros Hm Hw. unfold block_end. cbn [render app block_scan].
  change (N.eqb LBRACK QUOTE) with false. change (N.eqb LBRACK LBRACK) with true. cbn match.
  assert (B : bp LBRACK RBRACK) by (right; split; reflexivity).
  rewrite <- !app_assoc.
  rewrite (proj1 (proj2 scan_doc) e LBRACK RBRACK 1%Z B) by (assumption || lia).
  rewrite (sok_ws LBRACK RBRACK 1%Z wend B Hw).
  cbn [app block_scan]. change (N.eqb RBRACK QUOTE) with false. change (N.eqb RBRACK LBRACK) with false.
  change (N.eqb RBRACK RBRACK) with true. cbn. rewrite <- ?app_assoc. reflexivity.
Qed.

(** * the object walk on rendered documents *)

Definition starts_delim (s : bytes) : bool := match s with [] => true | c :: _ => is_delim c end.

Lemma token_end_app t r : forallb (fun c => negb (is_delim c)) t = true -> starts_delim r = true ->
  token_end (t ++ r) = (t, r).
Proof.
  intros Ht Hr. induction t as [|c t IH].
  - destruct r as [|x r]; [reflexivity|]. cbn [app token_end]. cbn [starts_delim] in Hr. rewrite Hr. reflexivity.
  - cbn [forallb] in Ht. apply andb_true_iff in Ht as [Hc Ht]. apply negb_true_iff in Hc.
    cbn [app token_end]. rewrite Hc, IH by assumption. reflexivity.
Qed.

Lemma numchar_not_delim c : is_numchar c = true -> negb (is_delim c) = true.
Proof. unfold is_numchar, is_delim, is_ws, COMMA, RBRACE, RBRACK. lia. Qed.

Lemma starts_delim_ws w x r : all_ws w = true -> is_delim x = true -> starts_delim (w ++ x :: r) = true.
Proof.
  destruct w as [|c w]; cbn [app starts_delim all_ws forallb]; intros H Hx; [assumption|].
  apply andb_true_iff in H as [Hc _]. unfold is_delim. rewrite Hc. reflexivity.
Qed.

Lemma render_head v : jv_ok false v = true -> exists x t, render v = x :: t /\ is_ws x = false.
Proof.
  destruct v as [s|t| | | |e w|m w]; cbn [jv_ok render]; intro H.
  - eexists _, _. split; [reflexivity|reflexivity].
  - destruct t as [|c t]; [discriminate|]. exists c, t. split; [reflexivity|].
    unfold num_ok in H. apply andb_true_iff in H as [H _]. unfold is_digit_or_minus, is_ws in *. lia.
  - eexists _, _. split; reflexivity.
  - eexists _, _. split; reflexivity.
  - eexists _, _. split; reflexivity.
  - eexists _, _. split; reflexivity.
  - eexists _, _. split; reflexivity.
Qed.

Lemma skipws_brace_nonempty a b : skipws (a ++ RBRACE :: b) <> [].
Proof.
  induction a as [|c a IH]; cbn [app skipws].
  - change (is_ws RBRACE) with false. discriminate.
  - destruct (is_ws c); [assumption|discriminate].
Qed.

Lemma read_key_ok k w2 w3 x r : forallb jchar_ok k = true -> all_ws w2 = true -> all_ws w3 = true ->
  is_ws x = false ->
  read_key (render_chars k ++ QUOTE :: w2 ++ COLON :: w3 ++ x :: r) = Some (decode k, x :: r).
Proof.
  intros Hk H2 H3 Hx. unfold read_key. rewrite str_end_chars, unescape_chars by assumption.
  rewrite skipws_ws_nonws by (assumption || reflexivity).
  change (N.eqb COLON COLON) with true. cbn match. rewrite skipws_ws_nonws by assumption. reflexivity.
Qed.

Lemma av_close loop acc w tail : all_ws w = true -> after_value loop acc (w ++ RBRACE :: tail) = ROk acc.
Proof.
  intro H. unfold after_value. rewrite skipws_ws_nonws by (assumption || reflexivity).
  change (N.eqb RBRACE RBRACE) with true. reflexivity.
Qed.

Lemma av_comma loop acc w X : all_ws w = true -> skipws X <> [] ->
  after_value loop acc (w ++ COMMA :: X) = loop (skipws X) acc.
Proof.
  intros H HX. unfold after_value. rewrite skipws_ws_nonws by (assumption || reflexivity).
  change (N.eqb COMMA RBRACE) with false. change (N.eqb COMMA COMMA) with true. cbn match.
  destruct (skipws X); [contradiction|reflexivity].
Qed.

Section ValueStep.
  Variable each : bytes -> flatmap -> rres.
  Variable cont : flatmap -> bytes -> rres.
  Variable nk : bytes.

  Lemma vs_str s r acc : forallb jchar_ok s = true ->
    value_step each cont nk (render_str s ++ r) acc = cont (acc ++ [(nk, decode s)]) r.
  Proof.
    intro H. unfold render_str. cbn [app]. unfold value_step. change (N.eqb QUOTE QUOTE) with true. cbn match.
    rewrite <- app_assoc. cbn [app]. rewrite str_end_chars, unescape_chars by assumption. reflexivity.
  Qed.

  Lemma vs_num t r acc : num_ok t = true -> starts_delim r = true ->
    value_step each cont nk (t ++ r) acc = cont (acc ++ [(nk, t)]) r.
  Proof.
    intros H Hr. pose proof (num_ok_chars t H) as Hc.
    assert (Ht : token_end (t ++ r) = (t, r)).
    { apply token_end_app; [|assumption]. clear -Hc. induction t as [|c t IH]; [reflexivity|].
      cbn [forallb] in *. apply andb_true_iff in Hc as [H1 H2]. rewrite numchar_not_delim, IH by assumption. reflexivity. }
    destruct t as [|c t]; [discriminate|]. unfold num_ok in H. apply andb_true_iff in H as [Hd _].
    cbn [app] in *. unfold value_step. rewrite Ht.
    replace (N.eqb c QUOTE) with false by (unfold is_digit_or_minus, QUOTE in *; lia).
    replace (N.eqb c LBRACK) with false by (unfold is_digit_or_minus, LBRACK in *; lia).
    replace (N.eqb c LBRACE) with false by (unfold is_digit_or_minus, LBRACE in *; lia).
    replace (N.eqb c 116 || N.eqb c 102) with false by (unfold is_digit_or_minus in *; lia).
    replace (N.eqb c 117 || N.eqb c 110) with false by (unfold is_digit_or_minus in *; lia).
    rewrite Hd. reflexivity.
  Qed.

  Lemma vs_lit v r acc : (v = JTrue \/ v = JFalse \/ v = JNull) -> starts_delim r = true ->
    value_step each cont nk (render v ++ r) acc = cont acc r.
  Proof.
    intros Hv Hr.
    assert (Ht : token_end (render v ++ r) = (render v, r)).
    { apply token_end_app; [|assumption]. destruct Hv as [->|[->| ->]]; reflexivity. }
    destruct Hv as [->|[->| ->]]; cbn [render] in *.
    - unfold LIT_TRUE in *. cbn [app] in *. unfold value_step. rewrite Ht. reflexivity.
    - unfold LIT_FALSE in *. cbn [app] in *. unfold value_step. rewrite Ht. reflexivity.
    - unfold LIT_NULL in *. cbn [app] in *. unfold value_step. rewrite Ht. reflexivity.
  Qed.

  Lemma vs_arr e w r acc : elems_ok false e = true -> all_ws w = true ->
    value_step each cont nk (render (JArr e w) ++ r) acc = cont acc r.
  Proof.
    intros He Hw. pose proof (block_end_arr e w r He Hw) as B. cbn [render app] in *.
    unfold value_step. change (N.eqb LBRACK QUOTE) with false. change (N.eqb LBRACK LBRACK) with true.
    cbn match. rewrite B. reflexivity.
  Qed.

  Lemma vs_obj m w r acc : members_ok false m = true -> all_ws w = true ->
    value_step each cont nk (render (JObj m w) ++ r) acc =
    match each (render (JObj m w)) acc with ROk acc' => cont acc' r | e => e end.
  Proof.
    intros He Hw. pose proof (block_end_obj m w r He Hw) as B. cbn [render app] in *.
    unfold value_step. change (N.eqb LBRACE QUOTE) with false. change (N.eqb LBRACE LBRACK) with false.
    change (N.eqb LBRACE LBRACE) with true. cbn match. rewrite B. reflexivity.
  Qed.
End ValueStep.

Lemma obj_each_loop old f parent X acc : (1 <= f)%nat -> skipws X <> [] ->
  obj_each old (S f) parent (LBRACE :: X) acc = obj_loop old f parent (skipws X) acc.
Proof.
  intros Hf HX. cbn [obj_each]. change (skipws (LBRACE :: X)) with (LBRACE :: X).
  change (N.eqb LBRACE LBRACE) with true. cbn [negb].
  destruct (skipws X) as [|c1 t1]; [contradiction|].
  destruct (N.eqb c1 RBRACE) eqn:E; [|reflexivity].
  destruct f as [|f]; [lia|]. cbn [obj_loop]. rewrite E. reflexivity.
Qed.

Definition sep_members (m : members) : bytes :=
  match m with MNil => [] | MCons _ _ _ _ _ _ _ => COMMA :: render_members m end.

Lemma render_members_cons w1 k w2 w3 v w4 m :
  render_members (MCons w1 k w2 w3 v w4 m) =
  w1 ++ QUOTE :: render_chars k ++ QUOTE :: w2 ++ COLON :: w3 ++ render v ++ w4 ++ sep_members m.
Proof.
  cbn [render_members]. unfold render_str. cbn [app]. rewrite <- app_assoc. cbn [app].
  destruct m; reflexivity.
Qed.

Lemma length_sep_members m : (length (render_members m) <= length (sep_members m))%nat.
Proof. destruct m; [cbn; lia | cbn [sep_members length]; lia]. Qed.

Lemma len_next w1 k w2 w3 v w4 m' wend :
  (length (render_members m' ++ wend) + 3 <= length (render_members (MCons w1 k w2 w3 v w4 m') ++ wend))%nat.
Proof.
  rewrite render_members_cons. pose proof (length_sep_members m') as L0.
  repeat (progress (rewrite ?app_length; cbn [length])). lia.
Qed.

Lemma len_inner w1 k w2 w3 m2 w w4 m' wend :
  (length (render_members m2 ++ w) + 5 <= length (render_members (MCons w1 k w2 w3 (JObj m2 w) w4 m') ++ wend))%nat.
Proof.
  rewrite render_members_cons. cbn [render].
  repeat (progress (rewrite ?app_length; cbn [length])). lia.
Qed.

Lemma loop_ok old : forall fuel m parent wend tail acc,
  members_ok false m = true -> all_ws wend = true ->
  (length (render_members m ++ wend) < fuel)%nat ->
  obj_loop old fuel parent (skipws (render_members m ++ wend ++ RBRACE :: tail)) acc
  = ROk (acc ++ leaves_m old parent m).
Proof.
  induction fuel as [fuel IH] using lt_wf_ind. intros m parent wend tail acc Hm Hw Hlen.
  destruct fuel as [|f]; [lia|].
  destruct m as [|w1 k w2 w3 v w4 m'].
  - cbn [render_members app leaves_m]. rewrite skipws_ws_nonws by (assumption || reflexivity).
    cbn [obj_loop]. change (N.eqb RBRACE RBRACE) with true. cbn match. rewrite app_nil_r. reflexivity.
  - assert (Hnext : (length (render_members m' ++ wend) < f)%nat).
    { pose proof (len_next w1 k w2 w3 v w4 m' wend). clear - H Hlen. lia. }
    assert (Hinner : forall m2 w, v = JObj m2 w -> (length (render_members m2 ++ w) + 3 < f)%nat).
    { intros m2 w ->. pose proof (len_inner w1 k w2 w3 m2 w w4 m' wend). clear - H Hlen. lia. }
    clear Hlen.
    cbn [members_ok] in Hm.
    apply andb_true_iff in Hm as [Hm Hm']. apply andb_true_iff in Hm as [Hm Hw4].
    apply andb_true_iff in Hm as [Hm Hv]. apply andb_true_iff in Hm as [Hm Hw3].
    apply andb_true_iff in Hm as [Hm Hw2]. apply andb_true_iff in Hm as [Hw1 Hk].
    rewrite render_members_cons in *.
    destruct (render_head v Hv) as (x & tv & Ev & Hx).
    set (REST := w4 ++ sep_members m' ++ wend ++ RBRACE :: tail).
    assert (Etext : (w1 ++ QUOTE :: render_chars k ++ QUOTE :: w2 ++ COLON :: w3 ++ render v ++ w4 ++ sep_members m')
                      ++ wend ++ RBRACE :: tail
                    = w1 ++ QUOTE :: (render_chars k ++ QUOTE :: w2 ++ COLON :: w3 ++ x :: (tv ++ REST))).
    { unfold REST. rewrite Ev. repeat (rewrite <- ?app_assoc; cbn [app]). reflexivity. }
    rewrite Etext. rewrite skipws_ws_nonws by (assumption || reflexivity).
    cbn [obj_loop]. change (N.eqb QUOTE RBRACE) with false. change (N.eqb QUOTE QUOTE) with true. cbn [negb].
    rewrite read_key_ok by assumption. cbv zeta.
    change (x :: tv ++ REST) with ((x :: tv) ++ REST). rewrite <- Ev.
    (* what follows the value *)
    assert (HREST : starts_delim REST = true).
    { unfold REST. destruct m' as [|? ? ? ? ? ? ?]; cbn [sep_members app].
      - rewrite app_assoc. apply starts_delim_ws; [rewrite all_ws_app, Hw4, Hw; reflexivity|reflexivity].
      - apply starts_delim_ws; [assumption|reflexivity]. }
    assert (K : forall acc', after_value (obj_loop old f parent) acc' REST = ROk (acc' ++ leaves_m old parent m')).
    { intro acc'. unfold REST. destruct m' as [|w1' k' w2' w3' v' w4' m''].
      - cbn [sep_members app leaves_m]. rewrite app_assoc, av_close by (rewrite all_ws_app, Hw4, Hw; reflexivity).
        rewrite app_nil_r. reflexivity.
      - cbn [sep_members app]. rewrite av_comma; [|assumption|].
        + apply (IH f (Nat.lt_succ_diag_r f)); [assumption|assumption|exact Hnext].
        + rewrite app_assoc. apply skipws_brace_nonempty. }
    destruct v as [s|t| | | |e w|m2 w]; cbn [jv_ok] in Hv; cbn [leaves_m leaves_v].
    + cbn [render]. rewrite vs_str by assumption. rewrite K. rewrite <- app_assoc. reflexivity.
    + cbn [render]. rewrite vs_num by assumption. rewrite K. rewrite <- app_assoc. reflexivity.
    + rewrite vs_lit by auto. rewrite K. reflexivity.
    + rewrite vs_lit by auto. rewrite K. reflexivity.
    + rewrite vs_lit by auto. rewrite K. reflexivity.
    + apply andb_true_iff in Hv as [He Hwe]. rewrite vs_arr by assumption. rewrite K. reflexivity.
    + apply andb_true_iff in Hv as [Hm2 Hwe]. rewrite vs_obj by assumption.
      cbn [render].
      pose proof (Hinner m2 w eq_refl) as Hf.
      destruct f as [|f1]; [exfalso; clear - Hf; lia|].
      assert (H1 : (1 <= f1)%nat) by (clear - Hf; lia).
      assert (Hlt : (f1 < S (S f1))%nat) by (clear; lia).
      assert (Hb : (length (render_members m2 ++ w) < f1)%nat) by (clear - Hf; lia).
      rewrite obj_each_loop; [|exact H1|rewrite app_assoc; apply skipws_brace_nonempty].
      rewrite (IH f1 Hlt m2 _ w [] acc Hm2 Hwe Hb). rewrite K. rewrite <- app_assoc. reflexivity.
Qed.

Lemma obj_each_loop_ws old f parent w X acc : all_ws w = true -> (1 <= f)%nat -> skipws X <> [] ->
  obj_each old (S f) parent (w ++ LBRACE :: X) acc = obj_loop old f parent (skipws X) acc.
Proof.
  intros Hw Hf HX. rewrite <- (obj_each_loop old f parent X acc Hf HX).
  cbn [obj_each]. rewrite skipws_ws by assumption. reflexivity.
Qed.

(** C20_read_leaf: reading the rendered text of ANY document of the subset (any whitespace, any
    text after the closing brace) yields exactly the string / number leaves with decoded names
    and values, in document order.  Proved for both namings. *)
Lemma read_leaf_gen old : forall w m wend tail,
  all_ws w = true -> members_ok false m = true -> all_ws wend = true ->
  obj_each old (S (length (w ++ render (JObj m wend) ++ tail))) [] (w ++ render (JObj m wend) ++ tail) []
  = ROk (leaves_m old [] m).
Proof.
  intros w m wend tail Hw Hm Hwend. cbn [render app].
  rewrite obj_each_loop_ws; [|assumption| |].
  - rewrite <- !app_assoc. cbn [app]. rewrite loop_ok; [reflexivity|assumption|assumption|].
    repeat (progress (rewrite ?app_length; cbn [length])). lia.
  - repeat (progress (rewrite ?app_length; cbn [length])). lia.
  - rewrite <- !app_assoc. cbn [app]. rewrite app_assoc. apply skipws_brace_nonempty.
Qed.

Theorem read_leaf : forall w m wend tail,
  all_ws w = true -> members_ok false m = true -> all_ws wend = true ->
  read_json (w ++ render (JObj m wend) ++ tail) = ROk (doc_leaves m).
Proof. exact (read_leaf_gen false). Qed.

Theorem read_leaf_old : forall w m wend tail,
  all_ws w = true -> members_ok false m = true -> all_ws wend = true ->
  read_json_old (w ++ render (JObj m wend) ++ tail) = ROk (leaves_m true [] m).
Proof. exact (read_leaf_gen true). Qed.

(** * the emitter as a document *)

(** same recursion as [emit_loop], producing the members instead of their text *)
Fixpoint emit_doc (fm : bool) (fuel : nat) (prefix spaces : bytes) (l : flatmap)
  : option (members * flatmap) :=
  match fuel with
  | O => None
  | S f =>
    match l with
    | [] => Some (MNil, [])
    | (k, v) :: l' =>
      if negb (has_prefix k prefix) then Some (MNil, l)
      else
        let diff := skipn (length prefix) k in
        let nl := if fm then 10 :: spaces else [] in
        let cw := if fm then [32] else [] in
        match index_of DOT diff with
        | Some d =>
          match emit_doc fm f (firstn (length prefix + d + 1) k) (spaces ++ [32; 32]) l with
          | None => None
          | Some (pre, l1) =>
            match emit_doc fm f prefix spaces l1 with
            | None => None
            | Some (more, l2) => Some (MCons nl (echars (firstn d diff)) [] cw (JObj pre nl) [] more, l2)
            end
          end
        | None =>
          match emit_doc fm f prefix spaces l' with
          | None => None
          | Some (more, l2) => Some (MCons nl (echars diff) [] cw (JStr (echars v)) [] more, l2)
          end
        end
    end
  end.

Definition sep_json (first : bool) (m : members) : bytes :=
  if first then render_members m else sep_members m.

Lemma render_members_sep w1 k w2 w3 v w4 m :
  render_members (MCons w1 k w2 w3 v w4 m) =
  w1 ++ render_str k ++ w2 ++ COLON :: w3 ++ render v ++ w4 ++ sep_members m.
Proof. cbn [render_members]. destruct m; reflexivity. Qed.

Lemma emit_loop_doc fm : forall fuel prefix spaces first l,
  emit_loop fm fuel prefix spaces first l =
  match emit_doc fm fuel prefix spaces l with
  | Some (ms, rest) => Some (sep_json first ms, rest)
  | None => None
  end.
Proof.
  induction fuel as [|f IH]; intros prefix spaces first l; [reflexivity|].
  cbn [emit_loop emit_doc]. destruct l as [|[k v] l']; [destruct first; reflexivity|].
  destruct (negb (has_prefix k prefix)); [destruct first; reflexivity|].
  cbv zeta. destruct (index_of DOT (skipn (length prefix) k)) as [d|].
  - rewrite IH. destruct (emit_doc fm f (firstn (length prefix + d + 1) k) (spaces ++ [32; 32]) ((k, v) :: l')) as [[pre l1]|]; [|reflexivity].
    rewrite IH. destruct (emit_doc fm f prefix spaces l1) as [[more l2]|]; [|reflexivity].
    f_equal. f_equal. unfold sep_json at 3.
    assert (E : forall X, (if first then X else COMMA :: X) = (if first then [] else [COMMA]) ++ X)
      by (intro X; destruct first; reflexivity).
    transitivity ((if first then [] else [COMMA]) ++
                  render_members (MCons (if fm then 10 :: spaces else []) (echars (firstn d (skipn (length prefix) k))) []
                     (if fm then [32] else []) (JObj pre (if fm then 10 :: spaces else [])) [] more)).
    + rewrite render_members_sep. cbn [render]. rewrite <- fmt_string_render.
      unfold sep_json. cbn [app]. destruct fm; repeat (progress (rewrite <- ?app_assoc; cbn [app])); reflexivity.
    + destruct first; reflexivity.
  - rewrite IH. destruct (emit_doc fm f prefix spaces l') as [[more l2]|]; [|reflexivity].
    f_equal. f_equal.
    transitivity ((if first then [] else [COMMA]) ++
                  render_members (MCons (if fm then 10 :: spaces else []) (echars (skipn (length prefix) k)) []
                     (if fm then [32] else []) (JStr (echars v)) [] more)).
    + rewrite render_members_sep. cbn [render]. rewrite <- !fmt_string_render.
      unfold sep_json. cbn [app]. destruct fm; repeat (progress (rewrite <- ?app_assoc; cbn [app])); reflexivity.
    + destruct first; reflexivity.
Qed.

Lemma echars_flag (b : bool) s : forallb (if b then jchar_strict else jchar_ok) (echars s) = true.
Proof. destruct b; [apply echars_strict|apply echars_ok]. Qed.

Lemma emit_doc_ok fm (b : bool) : forall fuel prefix spaces l ms rest,
  all_ws spaces = true -> emit_doc fm fuel prefix spaces l = Some (ms, rest) -> members_ok b ms = true.
Proof.
  induction fuel as [|f IH]; intros prefix spaces l ms rest Hs H; [discriminate|].
  cbn [emit_doc] in H. destruct l as [|[k v] l']; [inversion H; reflexivity|].
  destruct (negb (has_prefix k prefix)); [inversion H; reflexivity|]. cbv zeta in H.
  assert (Hnl : all_ws (if fm then 10 :: spaces else []) = true) by (destruct fm; [cbn; exact Hs|reflexivity]).
  assert (Hcw : all_ws (if fm then [32] else []) = true) by (destruct fm; reflexivity).
  destruct (index_of DOT (skipn (length prefix) k)) as [d|].
  - destruct (emit_doc fm f (firstn (length prefix + d + 1) k) (spaces ++ [32; 32]) ((k, v) :: l')) as [[pre l1]|] eqn:E1; [|discriminate].
    destruct (emit_doc fm f prefix spaces l1) as [[more l2]|] eqn:E2; [|discriminate].
    assert (Hs' : all_ws (spaces ++ [32; 32]) = true) by (rewrite all_ws_app, Hs; reflexivity).
    inversion H; subst. cbn [members_ok jv_ok].
    repeat (apply andb_true_iff; split); try assumption; try reflexivity; try apply echars_flag.
    + eapply IH; [exact Hs'|exact E1].
    + eapply IH; [exact Hs|exact E2].
  - destruct (emit_doc fm f prefix spaces l') as [[more l2]|] eqn:E2; [|discriminate].
    inversion H; subst. cbn [members_ok jv_ok].
    repeat (apply andb_true_iff; split); try assumption; try reflexivity; try apply echars_flag.
    eapply IH; [exact Hs|exact E2].
Qed.

Lemma has_prefix_split k p : has_prefix k p = true -> k = p ++ skipn (length p) k.
Proof.
  revert k; induction p as [|x p IH]; intros k H; [reflexivity|].
  destruct k as [|y k]; [discriminate|]. cbn [has_prefix] in H. apply andb_true_iff in H as [H1 H2].
  apply N.eqb_eq in H1. subst y. cbn [length skipn app]. f_equal. apply IH. assumption.
Qed.

Lemma has_prefix_app p r : has_prefix (p ++ r) p = true.
Proof. induction p as [|x p IH]; [destruct r; reflexivity|]. cbn [app has_prefix]. rewrite N.eqb_refl, IH. reflexivity. Qed.

Lemma index_of_split x s d : index_of x s = Some d -> s = firstn d s ++ x :: skipn (S d) s /\ (d < length s)%nat.
Proof.
  revert d; induction s as [|c s IH]; intros d H; [discriminate|].
  cbn [index_of] in H. destruct (N.eqb c x) eqn:E.
  - inversion H; subst. apply N.eqb_eq in E. subst c. cbn. split; [reflexivity|lia].
  - destruct (index_of x s) as [d'|]; [|discriminate]. inversion H; subst.
    destruct (IH d' eq_refl) as [I1 I2]. cbn [firstn skipn app length]. split; [f_equal; exact I1|lia].
Qed.

Lemma firstn_prefix_seg (p diff : bytes) d rest :
  diff = firstn d diff ++ DOT :: rest -> (d < length diff)%nat ->
  firstn (length p + d + 1) (p ++ diff) = p ++ firstn d diff ++ [DOT].
Proof.
  intros E Hd. replace (length p + d + 1)%nat with (length p + (d + 1))%nat by lia.
  rewrite firstn_app_2. f_equal. rewrite E at 1.
  assert (L : length (firstn d diff) = d) by (apply firstn_length_le; lia).
  replace (d + 1)%nat with (length (firstn d diff) + 1)%nat by lia.
  rewrite firstn_app_2. reflexivity.
Qed.

(** the reader's prefix is the emitter's prefix: the leaves of the emitted members are exactly
    the entries consumed, for ALL keys (empty segments included) *)
Lemma emit_doc_leaves fm : forall fuel prefix spaces l ms rest,
  emit_doc fm fuel prefix spaces l = Some (ms, rest) -> l = leaves_m false prefix ms ++ rest.
Proof.
  induction fuel as [|f IH]; intros prefix spaces l ms rest H; [discriminate|].
  cbn [emit_doc] in H. destruct l as [|[k v] l']; [inversion H; reflexivity|].
  destruct (has_prefix k prefix) eqn:HP; cbn [negb] in H; [|inversion H; reflexivity]. cbv zeta in H.
  pose proof (has_prefix_split k prefix HP) as Ek.
  remember (skipn (length prefix) k) as diff eqn:Hdiff in *. clear Hdiff.
  destruct (index_of DOT diff) as [d|] eqn:Ed.
  - destruct (emit_doc fm f (firstn (length prefix + d + 1) k) (spaces ++ [32; 32]) ((k, v) :: l')) as [[pre l1]|] eqn:E1; [|discriminate].
    destruct (emit_doc fm f prefix spaces l1) as [[more l2]|] eqn:E2; [|discriminate].
    inversion H; subst ms rest. clear H.
    destruct (index_of_split _ _ _ Ed) as [Es Hd].
    assert (Epre : firstn (length prefix + d + 1) k = prefix ++ firstn d diff ++ [DOT]).
    { rewrite Ek at 1. eapply firstn_prefix_seg; eassumption. }
    rewrite Epre in E1.
    pose proof (IH _ _ _ _ _ E1) as I1. pose proof (IH _ _ _ _ _ E2) as I2.
    cbn [leaves_m leaves_v]. rewrite decode_echars. unfold key_of, child_of.
    rewrite <- app_assoc. rewrite I1, I2 at 1. rewrite <- app_assoc. reflexivity.
  - destruct (emit_doc fm f prefix spaces l') as [[more l2]|] eqn:E2; [|discriminate].
    inversion H; subst ms rest. clear H.
    pose proof (IH _ _ _ _ _ E2) as I2.
    cbn [leaves_m leaves_v app]. rewrite !decode_echars. unfold key_of. rewrite <- Ek.
    rewrite I2 at 1. reflexivity.
Qed.

Lemma emit_doc_top_rest fm : forall fuel prefix spaces l ms rest,
  prefix = [] -> emit_doc fm fuel prefix spaces l = Some (ms, rest) -> rest = [].
Proof.
  induction fuel as [|f IH]; intros prefix spaces l ms rest Hp H; [discriminate|].
  cbn [emit_doc] in H. destruct l as [|[k v] l']; [inversion H; reflexivity|].
  destruct (has_prefix k prefix) eqn:HP; cbn [negb] in H.
  2:{ subst prefix. destruct k; discriminate. }
  cbv zeta in H.
  destruct (index_of DOT (skipn (length prefix) k)) as [d|].
  - destruct (emit_doc fm f (firstn (length prefix + d + 1) k) (spaces ++ [32; 32]) ((k, v) :: l')) as [[pre l1]|]; [|discriminate].
    destruct (emit_doc fm f prefix spaces l1) as [[more l2]|] eqn:E2; [|discriminate].
    inversion H; subst. eapply IH; [reflexivity|eassumption].
  - destruct (emit_doc fm f prefix spaces l') as [[more l2]|] eqn:E2; [|discriminate].
    inversion H; subst. eapply IH; [reflexivity|eassumption].
Qed.

(** * fuel of the emitter *)

Lemma weight_cons k v l : weight ((k, v) :: l) = (S (length k) + weight l)%nat.
Proof. reflexivity. Qed.

Lemma has_prefix_length k p : has_prefix k p = true -> (length p <= length k)%nat.
Proof. intro H. rewrite (has_prefix_split k p H) at 1. rewrite app_length. lia. Qed.

Lemma has_prefix_firstn n k : has_prefix k (firstn n k) = true.
Proof. rewrite <- (firstn_skipn n k) at 1. apply has_prefix_app. Qed.

Lemma emit_doc_rest_weight fm : forall fuel prefix spaces l ms rest,
  emit_doc fm fuel prefix spaces l = Some (ms, rest) ->
  (weight rest <= weight l)%nat /\
  (forall k v l', l = (k, v) :: l' -> has_prefix k prefix = true -> (weight rest <= weight l')%nat).
Proof.
  induction fuel as [|f IH]; intros prefix spaces l ms rest H; [discriminate|].
  cbn [emit_doc] in H. destruct l as [|[k v] l'].
  { inversion H; subst. split; [lia|]. intros; discriminate. }
  destruct (has_prefix k prefix) eqn:HP; cbn [negb] in H.
  2:{ inversion H; subst. split; [lia|]. intros k0 v0 l0 E HP0. inversion E; subst. congruence. }
  cbv zeta in H.
  assert (G : (weight rest <= weight l')%nat).
  { destruct (index_of DOT (skipn (length prefix) k)) as [d|].
    - destruct (emit_doc fm f (firstn (length prefix + d + 1) k) (spaces ++ [32; 32]) ((k, v) :: l')) as [[pre l1]|] eqn:E1; [|discriminate].
      destruct (emit_doc fm f prefix spaces l1) as [[more l2]|] eqn:E2; [|discriminate].
      inversion H; subst.
      destruct (IH _ _ _ _ _ E1) as [_ A]. specialize (A k v l' eq_refl (has_prefix_firstn _ _)).
      destruct (IH _ _ _ _ _ E2) as [B _]. lia.
    - destruct (emit_doc fm f prefix spaces l') as [[more l2]|] eqn:E2; [|discriminate].
      inversion H; subst. destruct (IH _ _ _ _ _ E2) as [B _]. exact B. }
  split; [rewrite weight_cons; lia|]. intros k0 v0 l0 E _. inversion E; subst. exact G.
Qed.

Lemma emit_doc_fuel fm : forall fuel prefix spaces l,
  match l with
  | [] => (1 <= fuel)%nat
  | (k, _) :: _ => (weight l < fuel + Nat.min (length prefix) (length k))%nat
  end -> emit_doc fm fuel prefix spaces l <> None.
Proof.
  induction fuel as [|f IH]; intros prefix spaces l Hf.
  { destruct l as [|[k v] l']; [lia|]. rewrite weight_cons in Hf. lia. }
  cbn [emit_doc]. destruct l as [|[k v] l']; [discriminate|].
  destruct (has_prefix k prefix) eqn:HP; cbn [negb]; [|discriminate]. cbv zeta.
  pose proof (has_prefix_length _ _ HP) as Lp. rewrite weight_cons in Hf.
  assert (Hnext : forall l1, (weight l1 <= weight l')%nat -> emit_doc fm f prefix spaces l1 <> None).
  { intros l1 Hw. apply IH. destruct l1 as [|[k1 v1] l1']; lia. }
  destruct (index_of DOT (skipn (length prefix) k)) as [d|] eqn:Ed.
  - destruct (index_of_split _ _ _ Ed) as [_ Hd]. rewrite skipn_length in Hd.
    destruct (emit_doc fm f (firstn (length prefix + d + 1) k) (spaces ++ [32; 32]) ((k, v) :: l')) as [[pre l1]|] eqn:E1.
    + destruct (emit_doc_rest_weight fm _ _ _ _ _ _ E1) as [_ A].
      specialize (A k v l' eq_refl (has_prefix_firstn _ _)).
      destruct (emit_doc fm f prefix spaces l1) as [[more l2]|] eqn:E2; [discriminate|].
      exfalso. apply (Hnext l1 A). exact E2.
    + exfalso. revert E1. apply IH. rewrite weight_cons. rewrite firstn_length. lia.
  - destruct (emit_doc fm f prefix spaces l') as [[more l2]|] eqn:E2; [discriminate|].
    exfalso. apply (Hnext l' (Nat.le_refl _)). exact E2.
Qed.

(** * sorting *)

Lemma insert_kv_perm k v l : Permutation (insert_kv k v l) ((k, v) :: l).
Proof.
  induction l as [|[k' v'] l IH]; cbn [insert_kv]; [apply Permutation_refl|].
  destruct (bytes_ltb k k'); [apply Permutation_refl|].
  eapply Permutation_trans; [apply perm_skip; exact IH|apply perm_swap].
Qed.

Lemma sort_kv_perm l : Permutation (sort_kv l) l.
Proof.
  induction l as [|[k v] l IH]; cbn [sort_kv]; [constructor|].
  eapply Permutation_trans; [apply insert_kv_perm|apply perm_skip; exact IH].
Qed.

(** * the emitter's output *)

Lemma emit_as_doc fm m : exists ms,
  emit_doc fm (S (weight (sort_kv m))) [] [32; 32] (sort_kv m) = Some (ms, []) /\
  emit fm m = Some (render (JObj ms (if fm then [10] else []))).
Proof.
  destruct (emit_doc fm (S (weight (sort_kv m))) [] [32; 32] (sort_kv m)) as [[ms rest]|] eqn:E.
  - pose proof (emit_doc_top_rest fm _ _ _ _ _ _ eq_refl E) as ->. exists ms. split; [reflexivity|].
    unfold emit, emit_sorted. rewrite emit_loop_doc, E. reflexivity.
  - exfalso. revert E. apply emit_doc_fuel. destruct (sort_kv m) as [|[k v] l]; [lia|]. cbn [length]. lia.
Qed.

(** C20_emit_valid: for EVERY flat map the emitter terminates with a document of the strict
    subset (escapes only where RFC 8259 demands or allows them, no raw control characters). *)
Theorem emit_valid : forall fm m, exists d,
  emit fm m = Some (render d) /\ jv_ok true d = true.
Proof.
  intros fm m. destruct (emit_as_doc fm m) as (ms & E & Ht).
  exists (JObj ms (if fm then [10] else [])). split; [exact Ht|].
  cbn [jv_ok]. rewrite (emit_doc_ok fm true _ _ [32; 32] _ _ _ eq_refl E). destruct fm; reflexivity.
Qed.

(** C20_write_read: for EVERY flat map (any keys - empty segments, keys that are prefixes of one
    another - and ARBITRARY byte values), reading the emitted text (compact or formatted) yields
    exactly the entries of the map (sorted by key). *)
Theorem write_read_sorted : forall fm m,
  exists text, emit fm m = Some text /\ read_json text = ROk (sort_kv m).
Proof.
  intros fm m. destruct (emit_as_doc fm m) as (ms & E & Ht).
  exists (render (JObj ms (if fm then [10] else []))). split; [exact Ht|].
  assert (Hl : sort_kv m = doc_leaves ms).
  { rewrite (emit_doc_leaves fm _ _ _ _ _ _ E) at 1. apply app_nil_r. }
  rewrite Hl.
  pose proof (read_leaf [] ms (if fm then [10] else []) []) as R. cbn [app] in R. rewrite app_nil_r in R.
  apply R; [reflexivity| |destruct fm; reflexivity].
  apply (emit_doc_ok fm false _ _ [32; 32] _ _ _ eq_refl E).
Qed.

Theorem write_read : forall fm m, nodup_keys m = true ->
  exists text log, emit fm m = Some text /\ read_json text = ROk log /\
                   Permutation log m /\ flat_equiv log m.
Proof.
  intros fm m Hu. destruct (write_read_sorted fm m) as (text & He & Hr).
  exists text, (sort_kv m). split; [exact He|]. split; [exact Hr|]. split; [apply sort_kv_perm|].
  intro k. symmetry. apply functional_perm_lookup_last; [apply nodup_functional; exact Hu|].
  apply Permutation_sym, sort_kv_perm.
Qed.

(** * fuel of the reader: [read_json] never runs out, on any input *)

Lemma skipws_length s : (length (skipws s) <= length s)%nat.
Proof. induction s as [|c s IH]; cbn [skipws length]; [lia|]. destruct (is_ws c); cbn [length]; lia. Qed.

Lemma str_end_length : forall s esc a b, str_end esc s = Some (a, b) -> (length b < length s)%nat.
Proof.
  induction s as [|c s IH]; intros esc a b H; [discriminate|]. cbn [str_end] in H. cbn [length].
  assert (G : forall e, cons_fst c (str_end e s) = Some (a, b) -> (length b < S (length s))%nat).
  { intros e He. destruct (str_end e s) as [[x y]|] eqn:E; [|discriminate]. inversion He; subst.
    apply IH in E. lia. }
  destruct esc; [eapply G; eassumption|].
  destruct (N.eqb c QUOTE); [inversion H; subst; lia|].
  destruct (N.eqb c BSL); eapply G; eassumption.
Qed.

Lemma read_key_length t key r : read_key t = Some (key, r) -> (length r < length t)%nat.
Proof.
  unfold read_key. destruct (str_end false t) as [[rawkey t1]|] eqn:E; [|discriminate].
  destruct (unescape rawkey); [|discriminate].
  destruct (skipws t1) as [|c2 t2] eqn:E1; [discriminate|]. destruct (N.eqb c2 COLON); [|discriminate].
  intro H. inversion H; subst. apply str_end_length in E.
  pose proof (skipws_length t1). pose proof (skipws_length t2). rewrite E1 in *. cbn [length] in *. lia.
Qed.

Lemma block_scan_length o c : forall s L i e blk rest,
  block_scan o c L i e s = Some (blk, rest) -> (length blk + length rest = length s)%nat.
Proof.
  induction s as [|x s IH]; intros L i e blk rest H; [discriminate|]. cbn [block_scan] in H.
  assert (G : forall L' i' e', cons_fst x (block_scan o c L' i' e' s) = Some (blk, rest) ->
              (length blk + length rest = length (x :: s))%nat).
  { intros L' i' e' He. destruct (block_scan o c L' i' e' s) as [[a b]|] eqn:E; [|discriminate].
    inversion He; subst. apply IH in E. cbn [length]. lia. }
  destruct i.
  - destruct e; [eapply G; eassumption|]. destruct (N.eqb x QUOTE); [eapply G; eassumption|].
    destruct (N.eqb x BSL); eapply G; eassumption.
  - destruct (N.eqb x QUOTE); [eapply G; eassumption|]. destruct (N.eqb x o); [eapply G; eassumption|].
    destruct (N.eqb x c); [|eapply G; eassumption].
    destruct (Z.eqb (L - 1) 0); [inversion H; subst; cbn [length]; lia|eapply G; eassumption].
Qed.

Lemma token_end_length s : forall a b, token_end s = (a, b) -> (length b <= length s)%nat.
Proof.
  induction s as [|c s IH]; intros a b H; cbn [token_end] in H; [inversion H; subst; cbn; lia|].
  destruct (is_delim c); [inversion H; subst; lia|].
  destruct (token_end s) as [a' b'] eqn:E. inversion H; subst. specialize (IH _ _ eq_refl). cbn [length]. lia.
Qed.

Lemma after_value_nofuel loop acc rest :
  (forall x acc', (length x < length rest)%nat -> loop x acc' <> RFuel) ->
  after_value loop acc rest <> RFuel.
Proof.
  intro H. unfold after_value. pose proof (skipws_length rest) as L1.
  destruct (skipws rest) as [|d r]; [discriminate|]. destruct (N.eqb d RBRACE); [discriminate|].
  destruct (N.eqb d COMMA); [|discriminate]. pose proof (skipws_length r) as L2.
  destruct (skipws r) as [|x r'] eqn:E; [discriminate|]. apply H. cbn [length] in *. lia.
Qed.

Lemma value_step_nofuel each cont nk cur acc :
  (forall blk acc', (length blk <= length cur)%nat -> each blk acc' <> RFuel) ->
  (forall acc' rest, (length rest <= length cur)%nat -> cont acc' rest <> RFuel) ->
  value_step each cont nk cur acc <> RFuel.
Proof.
  intros He Hc. unfold value_step. destruct cur as [|v t3]; [discriminate|].
  destruct (N.eqb v QUOTE).
  { destruct (str_end false t3) as [[raw t4]|] eqn:E; [|discriminate]. destruct (unescape raw); [|discriminate].
    apply Hc. apply str_end_length in E. cbn [length]. lia. }
  destruct (N.eqb v LBRACK).
  { destruct (block_end LBRACK RBRACK (v :: t3)) as [[blk t4]|] eqn:E; [|discriminate].
    apply Hc. apply block_scan_length in E. lia. }
  destruct (N.eqb v LBRACE).
  { destruct (block_end LBRACE RBRACE (v :: t3)) as [[blk t4]|] eqn:E; [|discriminate].
    apply block_scan_length in E.
    destruct (each blk acc) eqn:E2; [apply Hc; lia|discriminate|].
    exfalso. revert E2. apply He. lia. }
  destruct (token_end (v :: t3)) as [tok t4] eqn:E. apply token_end_length in E.
  destruct (N.eqb v 116 || N.eqb v 102).
  { destruct (bytes_eqb tok LIT_TRUE || bytes_eqb tok LIT_FALSE); [apply Hc; exact E|discriminate]. }
  destruct (N.eqb v 117 || N.eqb v 110).
  { destruct (bytes_eqb tok LIT_NULL); [apply Hc; exact E|discriminate]. }
  destruct (is_digit_or_minus v); [apply Hc; exact E|discriminate].
Qed.

Lemma reader_nofuel old : forall fuel,
  (forall parent data acc, (length data < fuel)%nat -> obj_each old fuel parent data acc <> RFuel) /\
  (forall parent cur acc, (length cur < fuel)%nat -> obj_loop old fuel parent cur acc <> RFuel).
Proof.
  induction fuel as [|f [IHe IHl]]; [split; intros; lia|]. split.
  - intros parent data acc Hlen. cbn [obj_each]. pose proof (skipws_length data) as L1.
    destruct (skipws data) as [|c t]; [discriminate|]. destruct (negb (N.eqb c LBRACE)); [discriminate|].
    pose proof (skipws_length t) as L2. destruct (skipws t) as [|c1 t1]; [discriminate|].
    destruct (N.eqb c1 RBRACE); [discriminate|]. apply IHl. cbn [length] in *. lia.
  - intros parent cur acc Hlen. cbn [obj_loop]. destruct cur as [|c t]; [discriminate|].
    destruct (N.eqb c RBRACE); [discriminate|]. destruct (negb (N.eqb c QUOTE)); [discriminate|].
    destruct (read_key t) as [[key cur3]|] eqn:E; [|discriminate]. apply read_key_length in E.
    cbn [length] in Hlen. cbv zeta. apply value_step_nofuel.
    + intros blk acc' Hb. apply IHe. lia.
    + intros acc' rest Hr. apply after_value_nofuel. intros x acc'' Hx. apply IHl. lia.
Qed.

(** the fuel [S (length data)] supplied by [read_json] always suffices *)
Theorem read_json_fuel : forall data, read_json data <> RFuel.
Proof. intro data. unfold read_json. apply (proj1 (reader_nofuel false (S (length data)))). lia. Qed.

(** likewise the emitter: [emit] is total *)
Theorem emit_total : forall fm m, emit fm m <> None.
Proof. intros fm m. destruct (emit_as_doc fm m) as (ms & _ & H). rewrite H. discriminate. Qed.
