(** C01, the two quantifier dimensions that Proofs/Fs.v leaves open.

    1. Path spellings.  Proofs/Paths.v shows that reduction is canonical and idempotent; here
       the spellings the property names are shown equivalent for ARBITRARY strings around them:
       a leading slash, a trailing slash, a doubled slash, a dot segment, and a name followed
       by a dot-dot segment can be inserted or deleted anywhere without changing what the
       string reduces to; and an operation depends on its path strings only through what they
       reduce to.
    2. Child views at any depth.  Proofs/NonInterf.v treats ONE view whose base is a canonical
       path.  Here every chain of Filespace calls, of any length and with any raw strings, is
       shown to resolve to the view rooted at the concatenation of the reduced arguments (or to
       fail), so a history step through any chain is the tree-level operation on the prefixed
       path. *)
From GC Require Import Common.Base Model.Paths Model.Fs Proofs.Paths Proofs.Fs Proofs.NonInterf.

(** * Spellings *)

Lemma rc_app l1 : forall acc l2,
  reduce_comps acc (l1 ++ l2) =
  match reduce_comps acc l1 with Some p => reduce_comps (rev p) l2 | None => None end.
Proof.
  induction l1 as [|v l1 IH]; intros acc l2; simpl.
  - rewrite rev_involutive. reflexivity.
  - destruct (is_empty v || is_dot v); [apply IH|].
    destruct (is_dotdot v); [destruct acc; [reflexivity|apply IH]|apply IH].
Qed.

(** the loop of the reduction continued after a prefix [X] of the string *)
Definition reduce_after (X : bytes) (l : list bytes) : option path :=
  match reduce X with Some b => reduce_comps (rev b) l | None => None end.

Lemma reduce_cut X Y : reduce (X ++ SLASH :: Y) = reduce_after X (split_slash Y).
Proof. unfold reduce, reduce_after. rewrite split_slash_app, rc_app. reflexivity. Qed.

Lemma reduce_after_cons_skip X v l : is_empty v || is_dot v = true ->
  reduce_after X (v :: l) = reduce_after X l.
Proof. intros H. unfold reduce_after. destruct (reduce X); [|reflexivity]. simpl. rewrite H. reflexivity. Qed.

(** leading slash *)
Theorem reduce_leading_slash Y : reduce (SLASH :: Y) = reduce Y.
Proof. reflexivity. Qed.

(** trailing slash *)
Theorem reduce_trailing_slash X : reduce (X ++ [SLASH]) = reduce X.
Proof.
  rewrite reduce_cut. unfold reduce_after. destruct (reduce X); [|reflexivity].
  simpl. rewrite rev_involutive. reflexivity.
Qed.

(** doubled slash, anywhere *)
Theorem reduce_double_slash X Y : reduce (X ++ SLASH :: SLASH :: Y) = reduce (X ++ SLASH :: Y).
Proof. rewrite !reduce_cut. apply reduce_after_cons_skip. reflexivity. Qed.

(** a dot segment, anywhere and in front *)
Theorem reduce_dot_segment X Y : reduce (X ++ SLASH :: DOT :: SLASH :: Y) = reduce (X ++ SLASH :: Y).
Proof.
  rewrite !reduce_cut. change (DOT :: SLASH :: Y) with ([DOT] ++ SLASH :: Y).
  rewrite split_slash_app. apply reduce_after_cons_skip. reflexivity.
Qed.

Theorem reduce_leading_dot Y : reduce (DOT :: SLASH :: Y) = reduce Y.
Proof.
  change (DOT :: SLASH :: Y) with ([DOT] ++ SLASH :: Y). rewrite reduce_cut.
  unfold reduce_after. reflexivity.
Qed.

Theorem reduce_trailing_dot X : reduce (X ++ [SLASH; DOT]) = reduce X.
Proof.
  rewrite reduce_cut. unfold reduce_after. destruct (reduce X); [|reflexivity].
  simpl. rewrite rev_involutive. reflexivity.
Qed.

(** a name followed by a dot-dot segment, anywhere and in front *)
Lemma reduce_comps_name_up acc n l : good_name n = true ->
  reduce_comps acc (n :: [DOT; DOT] :: l) = reduce_comps acc l.
Proof.
  intros Hn. destruct (good_name_facts _ Hn) as (He & _ & Hd & Hdd).
  cbn [reduce_comps]. rewrite He, Hd, Hdd. reflexivity.
Qed.

Theorem reduce_inner_dotdot X n Y : good_name n = true ->
  reduce (X ++ SLASH :: n ++ SLASH :: DOT :: DOT :: SLASH :: Y) = reduce (X ++ SLASH :: Y).
Proof.
  intros Hn. destruct (good_name_facts _ Hn) as (_ & Hns & _).
  rewrite !reduce_cut. rewrite split_slash_app, (split_slash_single _ Hns).
  change (DOT :: DOT :: SLASH :: Y) with ([DOT; DOT] ++ SLASH :: Y). rewrite split_slash_app.
  unfold reduce_after. destruct (reduce X); [|reflexivity].
  cbn [app split_slash]. change (split_slash [DOT; DOT]) with [[DOT; DOT]]. cbn [app].
  apply reduce_comps_name_up. exact Hn.
Qed.

Theorem reduce_leading_dotdot n Y : good_name n = true ->
  reduce (n ++ SLASH :: DOT :: DOT :: SLASH :: Y) = reduce Y.
Proof.
  intros Hn. destruct (good_name_facts _ Hn) as (_ & Hns & _).
  unfold reduce. rewrite split_slash_app, (split_slash_single _ Hns).
  change (DOT :: DOT :: SLASH :: Y) with ([DOT; DOT] ++ SLASH :: Y). rewrite split_slash_app.
  change (split_slash [DOT; DOT]) with [[DOT; DOT]]. cbn [app].
  apply reduce_comps_name_up. exact Hn.
Qed.

Theorem reduce_trailing_dotdot X n : good_name n = true ->
  reduce (X ++ SLASH :: n ++ [SLASH; DOT; DOT]) = reduce X.
Proof.
  intros Hn. destruct (good_name_facts _ Hn) as (_ & Hns & _).
  rewrite reduce_cut. change [SLASH; DOT; DOT] with (SLASH :: [DOT; DOT]).
  rewrite split_slash_app, (split_slash_single _ Hns).
  unfold reduce_after. destruct (reduce X); [|reflexivity].
  change (split_slash [DOT; DOT]) with [[DOT; DOT]]. cbn [app].
  rewrite reduce_comps_name_up by exact Hn. simpl. rewrite rev_involutive. reflexivity.
Qed.

(** the string is only a spelling: every segment list reduces as its join does *)
Lemma split_join_raw l : forallb no_slash l = true -> l <> [] -> split_slash (join l) = l.
Proof.
  induction l as [|a l IH]; intros Hns Hne; [congruence|].
  simpl in Hns. apply andb_true_iff in Hns as [Ha Hl]. destruct l as [|b l].
  - simpl. apply split_slash_single. exact Ha.
  - change (join (a :: b :: l)) with (a ++ SLASH :: join (b :: l)).
    rewrite split_slash_app, (split_slash_single _ Ha), IH by (auto; discriminate). reflexivity.
Qed.

Theorem reduce_join_raw l : forallb no_slash l = true -> l <> [] -> reduce (join l) = reduce_comps [] l.
Proof. intros H1 H2. unfold reduce. rewrite split_join_raw by assumption. reflexivity. Qed.

(** Two operations of the same kind whose path strings reduce alike (and whose other arguments
    are equal) are the same operation. *)
Definition same_paths (o1 o2 : op) : Prop :=
  match o1, o2 with
  | OCopy s d, OCopy s' d' | OCopyDir s d, OCopyDir s' d' | OCopyFile s d, OCopyFile s' d' =>
    reduce s = reduce s' /\ reduce d = reduce d'
  | OReadDir s, OReadDir s' | OIsExist s, OIsExist s' | OIsFile s, OIsFile s' | OIsDir s, OIsDir s'
  | OMkdirAll s, OMkdirAll s' | OReadFile s, OReadFile s' | OFilespace s, OFilespace s'
  | ORemove s, ORemove s' | ORemoveAll s, ORemoveAll s' | OLstat s, OLstat s' => reduce s = reduce s'
  | OWriteFile s x, OWriteFile s' x' => reduce s = reduce s' /\ x = x'
  | OReader s x, OReader s' x' => reduce s = reduce s' /\ x = x'
  | OWriter s x, OWriter s' x' => reduce s = reduce s' /\ x = x'
  | _, _ => False
  end.

Lemma reduce_node_eq s s' : reduce s = reduce s' -> reduce_node s = reduce_node s'.
Proof. unfold reduce_node. intros ->. reflexivity. Qed.

Theorem mem_step_spelling t o1 o2 : same_paths o1 o2 -> mem_step t o1 = mem_step t o2.
Proof.
  destruct o1, o2; simpl; try contradiction; intros H;
  repeat match goal with H : _ /\ _ |- _ => destruct H end; subst;
  repeat match goal with
  | H : reduce ?a = reduce ?b |- _ =>
    rewrite ?(reduce_node_eq a b H); rewrite ?H; clear H
  end; reflexivity.
Qed.

Theorem view_step_spelling base t o1 o2 : same_paths o1 o2 -> view_step base t o1 = view_step base t o2.
Proof.
  destruct o1, o2; simpl; try contradiction; intros H;
  repeat match goal with H : _ /\ _ |- _ => destruct H end; subst;
  cbv beta iota zeta delta [view_step];
  repeat match goal with
  | H : reduce ?a = reduce ?b |- _ =>
    rewrite ?(reduce_node_eq a b H); rewrite ?H; clear H
  end; reflexivity.
Qed.

(** * Views at any depth *)

(** the canonical base of the view a chain of Filespace arguments leads to, starting at [acc] *)
Fixpoint chain_path (acc : path) (chain : list bytes) : option path :=
  match chain with
  | [] => Some acc
  | s :: c' => match reduce s with Some r => chain_path (acc ++ r) c' | None => None end
  end.

Lemma chain_path_good chain : forall acc b,
  good_path acc = true -> chain_path acc chain = Some b -> good_path b = true.
Proof.
  induction chain as [|s c IH]; intros acc b Ha H; simpl in H.
  - inversion H; subst. exact Ha.
  - destruct (reduce s) as [r|] eqn:Er; [|discriminate].
    apply (IH (acc ++ r) b); [|exact H]. apply good_path_app. split; [exact Ha|eapply reduce_good; eauto].
Qed.

Lemma chain_path_app c1 : forall acc c2,
  chain_path acc (c1 ++ c2) =
  match chain_path acc c1 with Some b => chain_path b c2 | None => None end.
Proof.
  induction c1 as [|s c1 IH]; intros acc c2; simpl; [reflexivity|].
  destruct (reduce s); [apply IH|reflexivity].
Qed.

Lemma chain_path_prefix chain : forall acc b, chain_path acc chain = Some b -> is_prefix acc b = true.
Proof.
  induction chain as [|s c IH]; intros acc b H; simpl in H.
  - inversion H; subst. apply is_prefix_refl.
  - destruct (reduce s) as [r|]; [|discriminate].
    eapply is_prefix_trans; [apply is_prefix_app|apply IH; exact H].
Qed.

Lemma sub_view_root s : sub_view None s =
  match reduce s with Some r => Some (view_base r) | None => None end.
Proof.
  unfold sub_view. destruct (reduce s) as [r|] eqn:E; [|reflexivity].
  rewrite (reduce_idempotent _ _ E). reflexivity.
Qed.

Lemma sub_view_view c s : good_path c = true ->
  sub_view (Some (view_base c)) s =
  match reduce s with Some r => Some (view_base (c ++ r)) | None => None end.
Proof.
  intros Hc. unfold sub_view. destruct (reduce s) as [r|] eqn:E; [|reflexivity].
  rewrite reduce_wrap_view; [reflexivity|exact Hc|eapply reduce_good; eauto].
Qed.

Lemma resolve_view_view chain : forall c, good_path c = true ->
  resolve_view (Some (view_base c)) chain =
  match chain_path c chain with Some b => Some (Some (view_base b)) | None => None end.
Proof.
  induction chain as [|s ch IH]; intros c Hc; simpl; [reflexivity|].
  rewrite sub_view_view by exact Hc. destruct (reduce s) as [r|] eqn:E; [|reflexivity].
  apply IH. apply good_path_app. split; [exact Hc|eapply reduce_good; eauto].
Qed.

(** Every chain of Filespace calls, with any raw arguments, either fails or yields exactly the
    view rooted at the concatenation of the reduced arguments. *)
Theorem resolve_view_spec chain :
  resolve_view None chain =
  match chain with
  | [] => Some None
  | _ => match chain_path [] chain with Some b => Some (Some (view_base b)) | None => None end
  end.
Proof.
  destruct chain as [|s ch]; [reflexivity|]. simpl. rewrite sub_view_root.
  destruct (reduce s) as [r|] eqn:E; [|reflexivity].
  apply resolve_view_view. eapply reduce_good; eauto.
Qed.

(** the root filespace is the view with the empty base *)
Lemma mem_step_is_tree_step t o : mem_step t o = view_tree_step [] t o.
Proof. destruct o; reflexivity. Qed.

(** A history step through ANY chain of views is the tree-level operation on the path prefixed
    with the chain's base; a chain that cannot be built reports an error and changes nothing. *)
Theorem hist_step_is_tree_step t chain o :
  hist_step t (chain, o) =
  match chain_path [] chain with
  | Some b => view_tree_step b t o
  | None => (t, RErr)
  end.
Proof.
  unfold hist_step. cbn [fst snd]. rewrite resolve_view_spec.
  destruct chain as [|s ch]; [apply mem_step_is_tree_step|].
  destruct (chain_path [] (s :: ch)) as [b|] eqn:E; [|reflexivity].
  apply view_step_is_tree_step. apply (chain_path_good (s :: ch) [] b eq_refl E).
Qed.

(** a view made from a view is the view at the concatenated base: nesting adds nothing *)
Theorem hist_step_nested t c1 c2 o b1 :
  chain_path [] c1 = Some b1 ->
  hist_step t (c1 ++ c2, o) =
  match chain_path b1 c2 with Some b => view_tree_step b t o | None => (t, RErr) end.
Proof. intros H. rewrite hist_step_is_tree_step, chain_path_app, H. reflexivity. Qed.

(** An operation that does not report plain success changes nothing - on the root, through a
    view, through any chain of views. *)
Lemma view_tree_step_unchanged b t o : snd (view_tree_step b t o) <> RUnit -> fst (view_tree_step b t o) = t.
Proof.
  destruct o; simpl;
  repeat match goal with
  | |- context [match reduce ?s with _ => _ end] => destruct (reduce s)
  | |- context [match reduce_node ?s with _ => _ end] => destruct (reduce_node s)
  end; simpl; try reflexivity;
  try (match goal with |- context [upd t ?r] => destruct r end; simpl; congruence).
  all: try (match goal with |- context [is_dir_at ?tt ?x] => destruct (is_dir_at tt x) end; reflexivity).
  all: try (match goal with |- context [lookup ?tt ?x] => destruct (lookup tt x) as [[|]|] end; reflexivity).
Qed.

Theorem hist_step_unchanged t vo : snd (hist_step t vo) <> RUnit -> fst (hist_step t vo) = t.
Proof.
  destruct vo as [chain o]. rewrite hist_step_is_tree_step.
  destruct (chain_path [] chain); [apply view_tree_step_unchanged|reflexivity].
Qed.

(** Nothing outside the view's base is touched, whatever the chain: an existing node at a path
    not below the base stays, and only ancestors of the base can appear. *)
Theorem hist_step_outside t chain o b q : WF t ->
  chain_path [] chain = Some b -> is_prefix b q = false ->
  (forall e, lookup t q = Some e -> lookup (fst (hist_step t (chain, o))) q = Some e) /\
  (lookup t q = None -> lookup (fst (hist_step t (chain, o))) q <> None ->
   lookup (fst (hist_step t (chain, o))) q = Some D /\ is_prefix q b = true).
Proof.
  intros HWF Hc Hq. rewrite hist_step_is_tree_step, Hc.
  assert (Hb : good_path b = true) by (apply (chain_path_good chain [] b eq_refl Hc)).
  rewrite <- view_step_is_tree_step by exact Hb. apply view_step_outside; assumption.
Qed.
