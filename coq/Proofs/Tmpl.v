(** Proofs about the template-provider model (C19). *)
From GC Require Import Common.Base Model.Tmpl.
From Coq Require Import Lia.
Local Open Scope nat_scope.

(* ------------------------------------------------------------------------------------------ *)
(** * A. Template sets *)

Lemma lookup_app n a b :
  lookup n (a ++ b) = match lookup n a with Some x => Some x | None => lookup n b end.
Proof.
  induction a as [|[k x] a IH]; simpl; auto. destruct (bytes_eqb k n); auto.
Qed.

Lemma lookup_notin n d : ~ In n (map fst d) -> lookup n d = None.
Proof.
  induction d as [|[k x] d IH]; simpl; auto. intros H.
  destruct (bytes_eqb k n) eqn:E.
  - apply bytes_eqb_spec in E. subst. exfalso. apply H. left. reflexivity.
  - apply IH. intro. apply H. right. assumption.
Qed.

Lemma parse_file_app f d :
  parse_file f d = match parse_file f [] with Some pre => Some (pre ++ d) | None => None end.
Proof.
  destruct f as [l|]; simpl; auto. destruct (has_dup (map fst l)); auto.
  rewrite app_nil_r. reflexivity.
Qed.

Lemma parse_files_app fl : forall d,
  parse_files fl d = match parse_files fl [] with Some pre => Some (pre ++ d) | None => None end.
Proof.
  induction fl as [|f fl IH]; intros d; simpl; auto.
  rewrite (parse_file_app f d). destruct (parse_file f []) as [pre|]; auto.
  rewrite (IH (pre ++ d)), (IH pre). destruct (parse_files fl []) as [pre2|]; auto.
  rewrite app_assoc. reflexivity.
Qed.


Lemma parse_files_names fl : forall d d', parse_files fl d = Some d' ->
  forall n, In n (map fst d') -> In n (files_names fl) \/ In n (map fst d).
Proof.
  induction fl as [|f fl IH]; intros d d' H n Hn; simpl in *.
  - inversion H; subst. right. assumption.
  - destruct f as [l|]; simpl in H; try discriminate.
    destruct (has_dup (map fst l)); try discriminate.
    destruct (IH _ _ H n Hn) as [H1|H1].
    + left. apply in_or_app. right. assumption.
    + rewrite map_app, in_app_iff in H1. destruct H1 as [H1|H1].
      * left. apply in_or_app. left. simpl. rewrite map_rev in H1. apply in_rev in H1. assumption.
      * right. assumption.
Qed.

Lemma view_spec_layers fs nm v Hd Ld Vd :
  parse_files (helper_files fs) [] = Some Hd ->
  parse_files (layout_files fs nm) [] = Some Ld ->
  parse_files (view_files fs v) [] = Some Vd ->
  view_spec fs nm v = Some (Vd ++ Ld ++ Hd).
Proof.
  intros H1 H2 H3. unfold view_spec, layout_spec, base_spec. rewrite H1.
  rewrite (parse_files_app (layout_files fs nm) Hd), H2.
  rewrite (parse_files_app (view_files fs v)), H3. reflexivity.
Qed.

Lemma layout_spec_layers fs nm Hd Ld :
  parse_files (helper_files fs) [] = Some Hd ->
  parse_files (layout_files fs nm) [] = Some Ld ->
  layout_spec fs nm = Some (Ld ++ Hd).
Proof.
  intros H1 H2. unfold layout_spec, base_spec. rewrite H1.
  rewrite (parse_files_app (layout_files fs nm) Hd), H2. reflexivity.
Qed.

Lemma base_spec_absent fs d n :
  base_spec fs = Some d -> ~ In n (files_names (helper_files fs)) -> lookup n d = None.
Proof.
  intros H Hn. apply lookup_notin. intro Hin.
  destruct (parse_files_names _ _ _ H n Hin) as [H1|H1]; auto.
Qed.

Lemma layout_spec_absent fs nm d n :
  layout_spec fs nm = Some d ->
  ~ In n (files_names (helper_files fs)) -> ~ In n (files_names (layout_files fs nm)) ->
  lookup n d = None.
Proof.
  unfold layout_spec. intros H Hh Hl. destruct (base_spec fs) as [b|] eqn:Hb; try discriminate.
  apply lookup_notin. intro Hin.
  destruct (parse_files_names _ _ _ H n Hin) as [H1|H1]; auto.
  destruct (parse_files_names _ _ _ Hb n H1) as [H2|H2]; auto.
Qed.

Lemma view_spec_absent fs nm v d n :
  view_spec fs nm v = Some d ->
  ~ In n (files_names (helper_files fs)) -> ~ In n (files_names (layout_files fs nm)) ->
  ~ In n (files_names (view_files fs v)) ->
  lookup n d = None.
Proof.
  unfold view_spec. intros H Hh Hl Hv. destruct (layout_spec fs nm) as [b|] eqn:Hb; try discriminate.
  apply lookup_notin. intro Hin.
  destruct (parse_files_names _ _ _ H n Hin) as [H1|H1]; auto.
  pose proof (layout_spec_absent _ _ _ n Hb Hh Hl) as Hnone.
  clear - H1 Hnone. induction b as [|[k x] b IH]; simpl in *; auto.
  destruct H1 as [H1|H1].
  - subst. rewrite bytes_eqb_refl in Hnone. discriminate.
  - destruct (bytes_eqb k n); try discriminate. auto.
Qed.

(* ------------------------------------------------------------------------------------------ *)
(** * Keys of the views cache *)

Lemma nocolon_cons x l : nocolon (x :: l) = true -> x <> COLON /\ nocolon l = true.
Proof.
  unfold nocolon. simpl. intros H. apply negb_true_iff in H. apply orb_false_iff in H as [H1 H2].
  split.
  - intro E. subst. vm_compute in H1. discriminate.
  - rewrite H2. reflexivity.
Qed.

Lemma str_key_inj nm : forall nm' v v',
  nocolon nm = true -> nocolon nm' = true -> nm ++ COLON :: v = nm' ++ COLON :: v' -> nm = nm' /\ v = v'.
Proof.
  induction nm as [|x nm IH]; intros [|y nm'] v v' H1 H2 E; simpl in E.
  - inversion E. auto.
  - inversion E; subst. apply nocolon_cons in H2 as [H2 _]. congruence.
  - inversion E; subst. apply nocolon_cons in H1 as [H1 _]. congruence.
  - inversion E; subst. apply nocolon_cons in H1 as [_ H1]. apply nocolon_cons in H2 as [_ H2].
    destruct (IH _ _ _ H1 H2 H3) as [-> ->]. auto.
Qed.

Lemma nocolon_defname l : nocolon l = true -> nocolon (defname l) = true.
Proof. destruct l; simpl; auto. Qed.

(** the key determines (layout, view): always for the current key, for the old string key when
    the layout names contain no ':' *)
Definition kok (fl : flavour) (nm : bytes) : Prop := inj_key fl = true \/ nocolon nm = true.

Lemma kok_defname fl l : kok fl l -> kok fl (defname l).
Proof. intros [H|H]; [left|right]; auto. apply nocolon_defname. exact H. Qed.

Lemma view_key_inj fl nm nm' v v' :
  kok fl nm -> kok fl nm' -> view_key fl nm v = view_key fl nm' v' -> nm = nm' /\ v = v'.
Proof.
  unfold view_key, kok. destruct (inj_key fl); intros H1 H2 E.
  - inversion E. auto.
  - destruct H1 as [H1|H1]; try discriminate. destruct H2 as [H2|H2]; try discriminate.
    inversion E. eapply str_key_inj; eauto.
Qed.

Lemma vkey_eqb_spec a b : vkey_eqb a b = true -> a = b.
Proof.
  destruct a, b; simpl; try discriminate.
  - intros H. apply bytes_eqb_spec in H. congruence.
  - intros H. apply andb_true_iff in H as [H1 H2].
    apply bytes_eqb_spec in H1. apply bytes_eqb_spec in H2. congruence.
Qed.

Lemma vassoc_In {A} k (l : list (vkey * A)) a : vassoc k l = Some a -> In (k, a) l.
Proof.
  induction l as [|[k' a'] l IH]; simpl; try discriminate.
  destruct (vkey_eqb k' k) eqn:E.
  - intros H. inversion H; subst. apply vkey_eqb_spec in E. subst. left. reflexivity.
  - intros H. right. auto.
Qed.

Lemma assoc_In {A} k (l : list (bytes * A)) a : assoc k l = Some a -> In (k, a) l.
Proof.
  induction l as [|[k' a'] l IH]; simpl; try discriminate.
  destruct (bytes_eqb k' k) eqn:E.
  - intros H. inversion H; subst. apply bytes_eqb_spec in E. subst. left. reflexivity.
  - intros H. right. auto.
Qed.

(* ------------------------------------------------------------------------------------------ *)
(** * B. Sequential provider: every answer is the specified pure function of the file set *)

Definition has_defs (p : pstate) (i : nat) (d : defs) : Prop :=
  exists o, nth_error (heap p) i = Some o /\ o_defs o = d.
(** an object the provider may still clone: right definitions and (html) never executed *)
Definition good_obj (fl : flavour) (p : pstate) (i : nat) (d : defs) : Prop :=
  exists o, nth_error (heap p) i = Some o /\ o_defs o = d /\ (html fl = true -> o_exec o = false).

Lemma good_has fl p i d : good_obj fl p i d -> has_defs p i d.
Proof. intros (o & H1 & H2 & _). exists o. auto. Qed.

Lemma has_defs_valid p i d : has_defs p i d -> i < length (heap p).
Proof. intros (o & H & _). apply nth_error_Some. congruence. Qed.

Definition hext (p p' : pstate) : Prop := exists extra, heap p' = heap p ++ extra.

Lemma hext_refl p : hext p p.
Proof. exists []. rewrite app_nil_r. reflexivity. Qed.
Lemma hext_trans p q r : hext p q -> hext q r -> hext p r.
Proof. intros [a Ha] [b Hb]. exists (a ++ b). rewrite Hb, Ha, app_assoc. reflexivity. Qed.
Lemma hext_len p q : hext p q -> length (heap p) <= length (heap q).
Proof. intros [a Ha]. rewrite Ha, app_length. lia. Qed.

Lemma has_defs_ext p p' i d : hext p p' -> has_defs p i d -> has_defs p' i d.
Proof.
  intros [e He] (o & H1 & H2). exists o. split; auto. rewrite He.
  rewrite nth_error_app1; auto. apply nth_error_Some. congruence.
Qed.
Lemma good_obj_ext fl p p' i d : hext p p' -> good_obj fl p i d -> good_obj fl p' i d.
Proof.
  intros [e He] (o & H1 & H2). exists o. split; auto. rewrite He.
  rewrite nth_error_app1; auto. apply nth_error_Some. congruence.
Qed.

Definition protected (p : pstate) (i : nat) : Prop :=
  c_base p = Some i \/ exists k, In (k, i) (c_lay p).

Record PInv (fl : flavour) (c : bool) (fs : tfs) (p : pstate) : Prop := {
  pi_unc : c = false -> c_base p = None /\ c_lay p = [] /\ c_view p = [];
  pi_base : forall i, c_base p = Some i -> exists d, base_spec fs = Some d /\ good_obj fl p i d;
  pi_lay : forall k i, In (k, i) (c_lay p) -> exists d, layout_spec fs k = Some d /\ good_obj fl p i d;
  pi_view : forall k i, In (k, i) (c_view p) ->
            exists nm v d, kok fl nm /\ k = view_key fl nm v /\ view_spec fs nm v = Some d /\ has_defs p i d;
  pi_sep : html fl = true -> forall k i, In (k, i) (c_view p) -> ~ protected p i
}.

Lemma PInv_init fl c fs : PInv fl c fs pinit.
Proof.
  split; simpl; auto; try (intros; contradiction); try discriminate.
Qed.

Lemma protected_valid fl c fs p i : PInv fl c fs p -> protected p i -> i < length (heap p).
Proof.
  intros I [H|[k H]].
  - destruct (pi_base _ _ _ _ I _ H) as (d & _ & G). eapply has_defs_valid, good_has, G.
  - destruct (pi_lay _ _ _ _ I _ _ H) as (d & _ & G). eapply has_defs_valid, good_has, G.
Qed.

Lemma viewid_valid fl c fs p k i : PInv fl c fs p -> In (k, i) (c_view p) -> i < length (heap p).
Proof.
  intros I H. destruct (pi_view _ _ _ _ I _ _ H) as (nm & v & d & _ & _ & _ & G).
  eapply has_defs_valid, G.
Qed.

Lemma PInv_heap fl c fs p x : PInv fl c fs p -> PInv fl c fs (with_heap (heap p ++ x) p).
Proof.
  intros I. assert (E : hext p (with_heap (heap p ++ x) p)) by (exists x; reflexivity).
  split; simpl.
  - apply (pi_unc _ _ _ _ I).
  - intros i H. destruct (pi_base _ _ _ _ I _ H) as (d & H1 & H2). exists d. split; auto.
    eapply good_obj_ext; eauto.
  - intros k i H. destruct (pi_lay _ _ _ _ I _ _ H) as (d & H1 & H2). exists d. split; auto.
    eapply good_obj_ext; eauto.
  - intros k i H. destruct (pi_view _ _ _ _ I _ _ H) as (nm & v & d & H1 & H2 & H3 & H4).
    exists nm, v, d. repeat split; auto. eapply has_defs_ext; eauto.
  - intros Hh k i H. apply (pi_sep _ _ _ _ I Hh k i H).
Qed.

Lemma new_good fl p d :
  good_obj fl (with_heap (heap p ++ [{| o_defs := d; o_exec := false |}]) p) (length (heap p)) d.
Proof.
  exists {| o_defs := d; o_exec := false |}. simpl. rewrite nth_error_app2 by lia.
  rewrite Nat.sub_diag. simpl. auto.
Qed.

Lemma PInv_set_base fl fs p i d :
  PInv fl true fs p -> base_spec fs = Some d -> good_obj fl p i d ->
  (html fl = true -> forall k, ~ In (k, i) (c_view p)) ->
  PInv fl true fs (set_base i p).
Proof.
  intros I Hs Hg Hf. split; simpl; try discriminate.
  - intros j H. inversion H; subst. exists d. auto.
  - apply (pi_lay _ _ _ _ I).
  - apply (pi_view _ _ _ _ I).
  - intros Hh k j H [P|[k' P]]; simpl in P.
    + inversion P; subst. apply (Hf Hh k H).
    + apply (pi_sep _ _ _ _ I Hh k j H). right. exists k'. assumption.
Qed.

Lemma PInv_set_lay fl fs p nm i d :
  PInv fl true fs p -> layout_spec fs nm = Some d -> good_obj fl p i d ->
  (html fl = true -> forall k, ~ In (k, i) (c_view p)) ->
  PInv fl true fs (set_lay nm i p).
Proof.
  intros I Hs Hg Hf. split; simpl; try discriminate.
  - apply (pi_base _ _ _ _ I).
  - intros k j [H|H].
    + inversion H; subst. exists d. auto.
    + apply (pi_lay _ _ _ _ I _ _ H).
  - apply (pi_view _ _ _ _ I).
  - intros Hh k j H [P|[k' [P|P]]]; simpl in P.
    + apply (pi_sep _ _ _ _ I Hh k j H). left. assumption.
    + inversion P; subst. apply (Hf Hh k H).
    + apply (pi_sep _ _ _ _ I Hh k j H). right. exists k'. assumption.
Qed.

Lemma PInv_set_view fl fs p nm v i d :
  PInv fl true fs p -> kok fl nm -> view_spec fs nm v = Some d -> has_defs p i d ->
  (html fl = true -> ~ protected p i) ->
  PInv fl true fs (set_view (view_key fl nm v) i p).
Proof.
  intros I Hc Hs Hg Hf. split; simpl; try discriminate.
  - apply (pi_base _ _ _ _ I).
  - apply (pi_lay _ _ _ _ I).
  - intros k j [H|H].
    + inversion H; subst. exists nm, v, d. auto.
    + apply (pi_view _ _ _ _ I _ _ H).
  - intros Hh k j [H|H] P.
    + inversion H; subst. apply (Hf Hh). exact P.
    + apply (pi_sep _ _ _ _ I Hh k j H). exact P.
Qed.

(** What a call may do to the state: the heap only grows and newly protected objects are new. *)
Definition grows (fl : flavour) (p p' : pstate) : Prop :=
  hext p p' /\ (html fl = true -> forall i, protected p' i -> protected p i \/ length (heap p) <= i).

Lemma grows_refl fl p : grows fl p p.
Proof. split. apply hext_refl. auto. Qed.
Lemma grows_trans fl p q r : grows fl p q -> grows fl q r -> grows fl p r.
Proof.
  intros [H1 H2] [H3 H4]. split. eapply hext_trans; eauto.
  intros Hh i H. destruct (H4 Hh i H) as [P|P].
  - apply H2; assumption.
  - right. pose proof (hext_len _ _ H1). lia.
Qed.

Definition rok (P : pstate -> nat -> defs -> Prop) (p' : pstate) (spec : option defs) (r : res nat) : Prop :=
  match r with
  | Ok i => exists d, spec = Some d /\ P p' i d
  | Err => spec = None
  | Panic => False
  end.

Lemma derive_good fl src files p d0 : good_obj fl p src d0 ->
  derive fl src files p =
  match parse_files files d0 with
  | None => (p, Err)
  | Some d => (with_heap (heap p ++ [{| o_defs := d; o_exec := false |}]) p, Ok (length (heap p)))
  end.
Proof.
  intros (o & Hn & Hd & He). unfold derive. rewrite Hn. subst d0.
  destruct (html fl) eqn:Hh; simpl.
  - rewrite (He eq_refl). destruct (parse_files files (o_defs o)); reflexivity.
  - destruct (parse_files files (o_defs o)); reflexivity.
Qed.

Lemma grows_alloc fl p x : grows fl p (with_heap (heap p ++ x) p).
Proof. split. exists x; reflexivity. intros _ i H. left. exact H. Qed.

Lemma fresh_not_view fl c fs p : PInv fl c fs p -> forall k, ~ In (k, length (heap p)) (c_view p).
Proof. intros I k H. pose proof (viewid_valid _ _ _ _ _ _ I H). lia. Qed.

Lemma fresh_not_protected fl c fs p : PInv fl c fs p -> ~ protected p (length (heap p)).
Proof. intros I H. pose proof (protected_valid _ _ _ _ _ I H). lia. Qed.

Lemma good_obj_caches fl p q i d : heap q = heap p -> good_obj fl p i d -> good_obj fl q i d.
Proof. intros E (o & H). exists o. rewrite E. exact H. Qed.
Lemma has_defs_caches p q i d : heap q = heap p -> has_defs p i d -> has_defs q i d.
Proof. intros E (o & H). exists o. rewrite E. exact H. Qed.

Definition newobj (d : defs) (p : pstate) : pstate :=
  with_heap (heap p ++ [{| o_defs := d; o_exec := false |}]) p.

Lemma post_alloc_base fl c fs p d (cond : bool) :
  PInv fl c fs p -> base_spec fs = Some d -> (cond = true -> c = true) ->
  let p' := cache_if cond (set_base (length (heap p))) (newobj d p) in
  PInv fl c fs p' /\ grows fl p p' /\ good_obj fl p' (length (heap p)) d.
Proof.
  intros I Hs Hc. assert (I1 : PInv fl c fs (newobj d p)) by (apply PInv_heap; assumption).
  pose proof (new_good fl p d) as G. fold (newobj d p) in G.
  destruct cond; simpl.
  - rewrite (Hc eq_refl) in *. split; [|split; [split|]].
    + apply PInv_set_base with (d := d); auto. intros _ k. simpl. apply (fresh_not_view _ _ _ _ I).
    + exists [{| o_defs := d; o_exec := false |}]. reflexivity.
    + intros _ i [P|[k P]]; simpl in P.
      * inversion P. right. lia.
      * left. right. exists k. exact P.
    + exact G.
  - split; [|split]; auto. apply grows_alloc.
Qed.

Lemma post_alloc_lay fl c fs p nm d (cond : bool) :
  PInv fl c fs p -> layout_spec fs nm = Some d -> (cond = true -> c = true) ->
  let p' := cache_if cond (set_lay nm (length (heap p))) (newobj d p) in
  PInv fl c fs p' /\ grows fl p p' /\ good_obj fl p' (length (heap p)) d.
Proof.
  intros I Hs Hc. assert (I1 : PInv fl c fs (newobj d p)) by (apply PInv_heap; assumption).
  pose proof (new_good fl p d) as G. fold (newobj d p) in G.
  destruct cond; simpl.
  - rewrite (Hc eq_refl) in *. split; [|split; [split|]].
    + apply PInv_set_lay with (d := d); auto. intros _ k. simpl. apply (fresh_not_view _ _ _ _ I).
    + exists [{| o_defs := d; o_exec := false |}]. reflexivity.
    + intros _ i [P|[k [P|P]]]; simpl in P.
      * left. left. exact P.
      * inversion P. right. lia.
      * left. right. exists k. exact P.
    + exact G.
  - split; [|split]; auto. apply grows_alloc.
Qed.

Lemma post_alloc_view fl c fs p nm v d (cond : bool) :
  PInv fl c fs p -> kok fl nm -> view_spec fs nm v = Some d -> (cond = true -> c = true) ->
  let p' := cache_if cond (set_view (view_key fl nm v) (length (heap p))) (newobj d p) in
  PInv fl c fs p' /\ grows fl p p' /\ has_defs p' (length (heap p)) d /\ ~ protected p' (length (heap p)).
Proof.
  intros I Hn Hs Hc. assert (I1 : PInv fl c fs (newobj d p)) by (apply PInv_heap; assumption).
  pose proof (new_good fl p d) as G. fold (newobj d p) in G. apply good_has in G.
  assert (NP : ~ protected (newobj d p) (length (heap p))) by apply (fresh_not_protected _ _ _ _ I).
  destruct cond; simpl.
  - rewrite (Hc eq_refl) in *. split; [|split; [split|split]].
    + apply PInv_set_view with (d := d); auto.
    + exists [{| o_defs := d; o_exec := false |}]. reflexivity.
    + intros _ i P. left. exact P.
    + exact G.
    + exact NP.
  - split; [|split]; auto. apply grows_alloc.
Qed.

(** base *)
Lemma build_base_post fl c fs p p' r :
  PInv fl c fs p -> build_base fl c fs p = (p', r) ->
  PInv fl c fs p' /\ grows fl p p' /\ rok (good_obj fl) p' (base_spec fs) r.
Proof.
  intros I H. unfold build_base in H.
  destruct (f_helpers fs) as [ch|] eqn:Hh.
  - assert (Hs : base_spec fs = parse_files (walk (f_ext fs) ch) []).
    { unfold base_spec, helper_files, dir_files. rewrite Hh. reflexivity. }
    destruct (parse_files (walk (f_ext fs) ch) []) as [d|] eqn:Hp.
    + unfold alloc in H. inversion H; subst; clear H.
      destruct (post_alloc_base fl c fs p d c I Hs (fun e => e)) as (A & B & C).
      split; [exact A|split; [exact B|]]. exists d. auto.
    + inversion H; subst. split; [exact I|split; [apply grows_refl|]]. simpl. congruence.
  - assert (Hs : base_spec fs = Some []).
    { unfold base_spec, helper_files, dir_files. rewrite Hh. reflexivity. }
    unfold alloc in H. inversion H; subst; clear H.
    destruct (post_alloc_base fl c fs p [] (c && negb (html fl)) I Hs) as (A & B & C).
    { intros E. apply andb_true_iff in E. tauto. }
    split; [exact A|split; [exact B|]]. exists []. auto.
Qed.

Lemma get_base_post fl c fs p p' r :
  PInv fl c fs p -> get_base fl c fs p = (p', r) ->
  PInv fl c fs p' /\ grows fl p p' /\ rok (good_obj fl) p' (base_spec fs) r.
Proof.
  intros I H. unfold get_base in H. destruct (c_base p) as [i|] eqn:Hc.
  - inversion H; subst. split; [exact I|split; [apply grows_refl|]].
    simpl. apply (pi_base _ _ _ _ I _ Hc).
  - eapply build_base_post; eauto.
Qed.

(** layout *)
Lemma layout_spec_unfold fs nm db :
  base_spec fs = Some db -> layout_spec fs nm = parse_files (layout_files fs nm) db.
Proof. intros H. unfold layout_spec. rewrite H. reflexivity. Qed.

Lemma build_layout_post fl c fs nm b p db p' r :
  PInv fl c fs p -> base_spec fs = Some db -> good_obj fl p b db ->
  build_layout fl c fs nm b p = (p', r) ->
  PInv fl c fs p' /\ grows fl p p' /\ rok (good_obj fl) p' (layout_spec fs nm) r.
Proof.
  intros I Hb Gb H. unfold build_layout in H.
  pose proof (layout_spec_unfold fs nm db Hb) as Hs. unfold layout_files, dir_files in Hs.
  destruct (assoc nm (f_layouts fs)) as [ch|] eqn:Ha.
  - rewrite (derive_good fl b _ p db Gb) in H.
    destruct (parse_files (walk (f_ext fs) ch) db) as [d|] eqn:Hp.
    + inversion H; subst; clear H.
      destruct (post_alloc_lay fl c fs p nm d c I Hs (fun e => e)) as (A & B & C).
      split; [exact A|split; [exact B|]]. exists d. auto.
    + inversion H; subst. split; [exact I|split; [apply grows_refl|]]. simpl. congruence.
  - simpl in Hs. destruct (html fl) eqn:Hh.
    + rewrite (derive_good fl b _ p db Gb) in H. simpl in H. inversion H; subst; clear H.
      destruct (post_alloc_lay fl c fs p nm db false I Hs) as (A & B & C); try discriminate.
      split; [exact A|split; [exact B|]]. exists db. auto.
    + inversion H; subst; clear H. destruct c; simpl.
      * split; [|split; [split|]].
        -- apply PInv_set_lay with (d := db); auto. rewrite Hh. discriminate.
        -- exists []. simpl. rewrite app_nil_r. reflexivity.
        -- rewrite Hh. discriminate.
        -- exists db. split; auto.
      * split; [exact I|split; [apply grows_refl|]]. exists db. auto.
Qed.

Lemma get_layout_post fl c fs nm p p' r :
  PInv fl c fs p -> get_layout fl c fs nm p = (p', r) ->
  PInv fl c fs p' /\ grows fl p p' /\ rok (good_obj fl) p' (layout_spec fs nm) r.
Proof.
  intros I H. unfold get_layout in H. destruct (assoc nm (c_lay p)) as [i|] eqn:Hc.
  - inversion H; subst. split; [exact I|split; [apply grows_refl|]].
    simpl. apply (pi_lay _ _ _ _ I _ _ (assoc_In _ _ _ Hc)).
  - destruct (get_base fl c fs p) as [p1 rb] eqn:Hg.
    destruct (get_base_post _ _ _ _ _ _ I Hg) as (I1 & G1 & R1).
    destruct rb as [b| |]; simpl in R1.
    + destruct R1 as (db & Hb & Gb).
      destruct (build_layout_post _ _ _ _ _ _ _ _ _ I1 Hb Gb H) as (I2 & G2 & R2).
      split; [exact I2|split; [eapply grows_trans; eauto|exact R2]].
    + inversion H; subst. split; [exact I1|split; [exact G1|]]. simpl.
      unfold layout_spec. rewrite R1. reflexivity.
    + contradiction.
Qed.

(** view *)
Lemma view_spec_unfold fs nm v dl :
  layout_spec fs nm = Some dl -> view_spec fs nm v = parse_files (view_files fs v) dl.
Proof. intros H. unfold view_spec. rewrite H. reflexivity. Qed.

Definition unprot (fl : flavour) (p : pstate) (r : res nat) : Prop :=
  html fl = true -> forall i, r = Ok i -> ~ protected p i.

Lemma build_view_post fl c fs nm v ly p dl p' r :
  PInv fl c fs p -> kok fl nm -> layout_spec fs nm = Some dl -> good_obj fl p ly dl ->
  build_view fl c fs (view_key fl nm v) v ly p = (p', r) ->
  PInv fl c fs p' /\ grows fl p p' /\ rok has_defs p' (view_spec fs nm v) r /\ unprot fl p' r.
Proof.
  intros I Hn Hl Gl H. unfold build_view in H.
  pose proof (view_spec_unfold fs nm v dl Hl) as Hs. unfold view_files, dir_files in Hs.
  destruct (assoc v (f_views fs)) as [ch|] eqn:Ha.
  - rewrite (derive_good fl ly _ p dl Gl) in H.
    destruct (parse_files (walk (f_ext fs) ch) dl) as [d|] eqn:Hp.
    + inversion H; subst; clear H.
      destruct (post_alloc_view fl c fs p nm v d c I Hn Hs (fun e => e)) as (A & B & C & D).
      split; [exact A|split; [exact B|split]]. exists d. auto.
      intros _ i E. inversion E; subst. exact D.
    + inversion H; subst. split; [exact I|split; [apply grows_refl|split]]. simpl. congruence.
      intros _ i E. discriminate.
  - simpl in Hs. destruct (html fl) eqn:Hh.
    + rewrite (derive_good fl ly _ p dl Gl) in H. simpl in H. inversion H; subst; clear H.
      destruct (post_alloc_view fl c fs p nm v dl c I Hn Hs (fun e => e)) as (A & B & C & D).
      split; [exact A|split; [exact B|split]]. exists dl. auto.
      intros _ i E. inversion E; subst. exact D.
    + inversion H; subst; clear H. destruct c; simpl.
      * split; [|split; [split|split]].
        -- apply PInv_set_view with (d := dl); auto. eapply good_has; eauto. rewrite Hh. discriminate.
        -- exists []. simpl. rewrite app_nil_r. reflexivity.
        -- rewrite Hh. discriminate.
        -- exists dl. split; auto. eapply good_has; eauto.
        -- intros E. rewrite Hh in E. discriminate.
      * split; [exact I|split; [apply grows_refl|split]]. exists dl. split; auto. eapply good_has; eauto.
        intros E. rewrite Hh in E. discriminate.
Qed.

Definition view_spec_req (fs : tfs) (l v : bytes) : option defs :=
  match v with [] => None | _ => view_spec fs (defname l) v end.

Lemma get_view_post fl c fs l v p p' r :
  PInv fl c fs p -> kok fl l -> get_view fl c fs l v p = (p', r) ->
  PInv fl c fs p' /\ grows fl p p' /\ rok has_defs p' (view_spec_req fs l v) r /\ unprot fl p' r.
Proof.
  intros I Hn H. unfold get_view in H. apply kok_defname in Hn.
  destruct v as [|x v].
  - inversion H; subst. split; [exact I|split; [apply grows_refl|split]]. reflexivity.
    intros _ i E. discriminate.
  - unfold view_spec_req. set (vv := x :: v) in *.
    destruct (vassoc (view_key fl (defname l) vv) (c_view p)) as [i|] eqn:Hc.
    + inversion H; subst. split; [exact I|split; [apply grows_refl|split]].
      * simpl. apply vassoc_In in Hc.
        destruct (pi_view _ _ _ _ I _ _ Hc) as (nm' & v' & d & H1 & H2 & H3 & H4).
        destruct (view_key_inj _ _ _ _ _ Hn H1 H2) as [-> ->]. exists d. auto.
      * intros Hh j E. inversion E; subst. apply vassoc_In in Hc. apply (pi_sep _ _ _ _ I Hh _ _ Hc).
    + destruct (get_layout fl c fs (defname l) p) as [p1 rl] eqn:Hg.
      destruct (get_layout_post _ _ _ _ _ _ _ I Hg) as (I1 & G1 & R1).
      destruct rl as [ly| |]; simpl in R1.
      * destruct R1 as (dl & Hl & Gl).
        destruct (build_view_post _ _ _ _ _ _ _ _ _ _ I1 Hn Hl Gl H) as (I2 & G2 & R2 & U2).
        split; [exact I2|split; [eapply grows_trans; eauto|split; [exact R2|exact U2]]].
      * inversion H; subst. split; [exact I1|split; [exact G1|split]]. simpl.
        unfold view_spec. rewrite R1. reflexivity. intros _ i E. discriminate.
      * contradiction.
Qed.

(** hand-out *)

Lemma unprot_uncached fl fs p r : PInv fl false fs p -> unprot fl p r.
Proof.
  intros I _ i _ [P|[k P]]; destruct (pi_unc _ _ _ _ I eq_refl) as (A & B & C).
  - congruence.
  - rewrite B in P. contradiction.
Qed.

Lemma handout_post fl c fs p0 p1 r spec p' r' :
  good_clone fl -> PInv fl c fs p1 -> grows fl p0 p1 -> rok (good_obj fl) p1 spec r ->
  handout fl c (p1, r) = (p', r') ->
  PInv fl c fs p' /\ grows fl p0 p' /\ rok has_defs p' spec r' /\ unprot fl p' r'.
Proof.
  intros Gf I G R H. unfold handout in H.
  destruct (c && clone_out fl) eqn:Hc.
  - destruct r as [i| |]; simpl in R.
    + destruct R as (d & Hs & Gd). rewrite (derive_good fl i [] p1 d Gd) in H. simpl in H.
      inversion H; subst; clear H. fold (newobj d p1).
      split; [apply PInv_heap; exact I|split; [|split]].
      * eapply grows_trans; eauto. apply grows_alloc.
      * exists d. split; auto. apply (good_has fl). apply new_good.
      * intros _ j E. inversion E; subst. apply (fresh_not_protected _ _ _ _ I).
    + injection H as <- <-. split; [exact I|split; [exact G|split]]. exact R. intros _ i E. discriminate.
    + contradiction.
  - inversion H; subst; clear H. split; [exact I|split; [exact G|split]].
    + destruct r' as [i| |]; simpl in *; auto. destruct R as (d & A & B). exists d. split; auto.
      eapply good_has; eauto.
    + destruct c.
      * simpl in Hc. intros Hh. rewrite (Gf Hh) in Hc. discriminate.
      * exact (unprot_uncached fl fs _ _ I).
Qed.

(* ------------------------------------------------------------------------------------------ *)
(** * Request sequences *)

Definition exec_obj (o : tobj) : tobj := {| o_defs := o_defs o; o_exec := true |}.

Lemma nth_mark_exec i : forall h j,
  nth_error (mark_exec i h) j =
  if Nat.eqb j i then option_map exec_obj (nth_error h j) else nth_error h j.
Proof.
  induction i as [|i IH]; intros [|o h] [|j]; simpl; auto.
  destruct (Nat.eqb j i); reflexivity.
Qed.

Lemma mark_exec_length i : forall h, length (mark_exec i h) = length h.
Proof. induction i; intros [|o h]; simpl; auto. Qed.

Lemma has_defs_set_exec p i j d : has_defs p j d -> has_defs (set_exec i p) j d.
Proof.
  intros (o & H1 & H2). unfold has_defs, set_exec. simpl. rewrite nth_mark_exec, H1.
  destruct (Nat.eqb j i); simpl; eauto.
Qed.

Lemma good_obj_set_exec fl p i j d :
  (html fl = true -> j <> i) -> good_obj fl p j d -> good_obj fl (set_exec i p) j d.
Proof.
  intros Hne (o & H1 & H2 & H3). unfold good_obj, set_exec. simpl. rewrite nth_mark_exec, H1.
  destruct (Nat.eqb j i) eqn:E; simpl.
  - apply Nat.eqb_eq in E. exists (exec_obj o). repeat split; auto.
    intros Hh. exfalso. apply (Hne Hh). exact E.
  - exists o. auto.
Qed.

Lemma PInv_set_exec fl c fs p i :
  PInv fl c fs p -> (html fl = true -> ~ protected p i) -> PInv fl c fs (set_exec i p).
Proof.
  intros I Hn. split; simpl.
  - apply (pi_unc _ _ _ _ I).
  - intros j H. destruct (pi_base _ _ _ _ I _ H) as (d & A & B). exists d. split; auto.
    apply good_obj_set_exec; auto. intros Hh E. subst. apply (Hn Hh). left. exact H.
  - intros k j H. destruct (pi_lay _ _ _ _ I _ _ H) as (d & A & B). exists d. split; auto.
    apply good_obj_set_exec; auto. intros Hh E. subst. apply (Hn Hh). right. exists k. exact H.
  - intros k j H. destruct (pi_view _ _ _ _ I _ _ H) as (nm & v & d & A & B & C & D).
    exists nm, v, d. repeat split; auto. apply has_defs_set_exec. exact D.
  - intros Hh k j H P. apply (pi_sep _ _ _ _ I Hh k j H). exact P.
Qed.

Record SInv (fl : flavour) (c : bool) (fs : tfs) (s : sstate) : Prop := {
  si_p : PInv fl c fs (sp s);
  si_len : length (sres s) = length (sobs s);
  si_tmpl : forall k i, nth_error (sres s) k = Some (Some i) ->
            exists d, nth_error (sobs s) k = Some (OTmpl d) /\ has_defs (sp s) i d;
  si_none : forall k, nth_error (sres s) k = Some None -> forall d, nth_error (sobs s) k <> Some (OTmpl d);
  si_unprot : html fl = true -> forall k i, nth_error (sres s) k = Some (Some i) -> ~ protected (sp s) i
}.

Lemma SInv_init fl c fs : SInv fl c fs sinit.
Proof.
  split; simpl; auto.
  - apply PInv_init.
  - intros [|k] i H; discriminate.
  - intros [|k] H; discriminate.
  - intros _ [|k] i H; discriminate.
Qed.

Lemma nth_error_snoc {A} (l : list A) x k y :
  nth_error (l ++ [x]) k = Some y -> nth_error l k = Some y \/ (k = length l /\ y = x).
Proof.
  intros H. destruct (Nat.lt_ge_cases k (length l)) as [L|L].
  - rewrite nth_error_app1 in H by assumption. auto.
  - rewrite nth_error_app2 in H by assumption.
    destruct (k - length l) as [|m] eqn:E; simpl in H.
    + inversion H. right. split; auto. lia.
    + destruct m; discriminate.
Qed.

Lemma nth_error_snoc_old {A} (l : list A) x k y :
  nth_error l k = Some y -> nth_error (l ++ [x]) k = Some y.
Proof.
  intros H. rewrite nth_error_app1; auto. apply nth_error_Some. congruence.
Qed.

Lemma nth_error_snoc_new {A} (l : list A) x : nth_error (l ++ [x]) (length l) = Some x.
Proof. rewrite nth_error_app2 by lia. rewrite Nat.sub_diag. reflexivity. Qed.

Lemma record_post fl c fs s p' r spec :
  SInv fl c fs s -> PInv fl c fs p' -> grows fl (sp s) p' -> rok has_defs p' spec r -> unprot fl p' r ->
  SInv fl c fs (record s (p', r)) /\ sobs (record s (p', r)) = sobs s ++ [of_opt spec].
Proof.
  intros S I [Hx Hg] R U. unfold record.
  assert (Eo : obs_of p' r = of_opt spec).
  { destruct r as [i| |]; simpl in *.
    - destruct R as (d & -> & o & H1 & H2). rewrite H1. subst. reflexivity.
    - subst. reflexivity.
    - contradiction. }
  split; [|simpl; rewrite Eo; reflexivity].
  split; simpl.
  - exact I.
  - rewrite !app_length, (si_len _ _ _ _ S). reflexivity.
  - intros k i H. apply nth_error_snoc in H as [H|[-> H]].
    + destruct (si_tmpl _ _ _ _ S _ _ H) as (d & A & B). exists d. split.
      * apply nth_error_snoc_old. exact A.
      * eapply has_defs_ext; eauto.
    + destruct r as [j| |]; simpl in H; try discriminate. inversion H; subst j.
      simpl in R. destruct R as (d & Hs & Hd). exists d. split; auto.
      rewrite (si_len _ _ _ _ S). rewrite nth_error_snoc_new. f_equal.
      simpl. destruct Hd as (o & H1 & H2). rewrite H1, H2. reflexivity.
  - intros k H d. apply nth_error_snoc in H as [H|[-> H]].
    + intros E. apply nth_error_snoc in E as [E|[E _]].
      * apply (si_none _ _ _ _ S _ H d E).
      * assert (k < length (sres s)) by (apply nth_error_Some; congruence).
        rewrite (si_len _ _ _ _ S) in *. lia.
    + rewrite (si_len _ _ _ _ S), nth_error_snoc_new.
      destruct r as [j| |]; simpl in *; try discriminate; try contradiction.
  - intros Hh k i H. apply nth_error_snoc in H as [H|[-> H]].
    + intros P. destruct (Hg Hh i P) as [P'|P'].
      * apply (si_unprot _ _ _ _ S Hh _ _ H P').
      * destruct (si_tmpl _ _ _ _ S _ _ H) as (d & _ & B). apply has_defs_valid in B. lia.
    + destruct r as [j| |]; simpl in H; try discriminate. inversion H; subst j.
      apply (U Hh i eq_refl).
Qed.

Definition qok (fl : flavour) (q : req) : Prop := inj_key fl = true \/ req_ok q = true.
Definition qsok (fl : flavour) (qs : list req) : Prop := inj_key fl = true \/ forallb req_ok qs = true.

Lemma step_req_post fl c fs s q :
  good_clone fl -> SInv fl c fs s -> qok fl q ->
  SInv fl c fs (step_req fl c fs s q) /\
  sobs (step_req fl c fs s q) = sobs s ++ [spec_req fs (sobs s) q].
Proof.
  intros Gf S Hq. pose proof (si_p _ _ _ _ S) as I. destruct q as [|l|l v|k]; cbn [step_req spec_req].
  - unfold req_base. destruct (get_base fl c fs (sp s)) as [p1 r1] eqn:Hg.
    destruct (get_base_post _ _ _ _ _ _ I Hg) as (I1 & G1 & R1).
    destruct (handout fl c (p1, r1)) as [p' r'] eqn:Hh.
    destruct (handout_post _ _ _ _ _ _ _ _ _ Gf I1 G1 R1 Hh) as (I2 & G2 & R2 & U2).
    apply (record_post _ _ _ _ _ _ _ S I2 G2 R2 U2).
  - unfold req_layout. destruct (get_layout fl c fs (defname l) (sp s)) as [p1 r1] eqn:Hg.
    destruct (get_layout_post _ _ _ _ _ _ _ I Hg) as (I1 & G1 & R1).
    destruct (handout fl c (p1, r1)) as [p' r'] eqn:Hh.
    destruct (handout_post _ _ _ _ _ _ _ _ _ Gf I1 G1 R1 Hh) as (I2 & G2 & R2 & U2).
    apply (record_post _ _ _ _ _ _ _ S I2 G2 R2 U2).
  - unfold req_view. destruct (get_view fl c fs l v (sp s)) as [p' r'] eqn:Hg.
    destruct (get_view_post _ _ _ _ _ _ _ _ I Hq Hg) as (I2 & G2 & R2 & U2).
    destruct (record_post _ _ _ _ _ _ _ S I2 G2 R2 U2) as (A & B). split; auto.
    rewrite B. unfold view_spec_req. destruct v; reflexivity.
  - destruct (nth_error (sres s) k) as [[i|]|] eqn:Hk.
    + destruct (si_tmpl _ _ _ _ S _ _ Hk) as (d & A & B). rewrite A.
      assert (Eo : obs_of (sp s) (Ok i) = OTmpl d).
      { simpl. destruct B as (o & H1 & H2). rewrite H1, H2. reflexivity. }
      split; [|cbn [sobs]; rewrite Eo; reflexivity].
      assert (I' : PInv fl c fs (set_exec i (sp s))).
      { apply PInv_set_exec; auto. intros Hh. apply (si_unprot _ _ _ _ S Hh _ _ Hk). }
      split; cbn [sp sres sobs].
      * exact I'.
      * rewrite !app_length, (si_len _ _ _ _ S). reflexivity.
      * intros k' j H. apply nth_error_snoc in H as [H|[-> H]].
        -- destruct (si_tmpl _ _ _ _ S _ _ H) as (d' & A' & B'). exists d'. split.
           ++ apply nth_error_snoc_old. exact A'.
           ++ apply has_defs_set_exec. exact B'.
        -- inversion H; subst j. exists d. split.
           ++ rewrite (si_len _ _ _ _ S), nth_error_snoc_new. rewrite <- Eo. reflexivity.
           ++ apply has_defs_set_exec. exact B.
      * intros k' H d'. apply nth_error_snoc in H as [H|[-> H]]; try discriminate.
        intros E. apply nth_error_snoc in E as [E|[E _]].
        -- apply (si_none _ _ _ _ S _ H d' E).
        -- assert (k' < length (sres s)) by (apply nth_error_Some; congruence).
           rewrite (si_len _ _ _ _ S) in *. lia.
      * intros Hh k' j H. apply nth_error_snoc in H as [H|[-> H]].
        -- apply (si_unprot _ _ _ _ S Hh _ _ H).
        -- inversion H; subst j. apply (si_unprot _ _ _ _ S Hh _ _ Hk).
    + assert (Es : spec_req fs (sobs s) (RExec k) = OSkip).
      { simpl. destruct (nth_error (sobs s) k) as [[d| | |]|] eqn:E; auto.
        exfalso. apply (si_none _ _ _ _ S _ Hk d E). }
      simpl in Es. rewrite Es. split; [|reflexivity].
      split; simpl.
      * exact I.
      * rewrite !app_length, (si_len _ _ _ _ S). reflexivity.
      * intros k' j H. apply nth_error_snoc in H as [H|[-> H]]; try discriminate.
        destruct (si_tmpl _ _ _ _ S _ _ H) as (d' & A' & B'). exists d'. split; auto.
        apply nth_error_snoc_old. exact A'.
      * intros k' H d'. apply nth_error_snoc in H as [H|[-> H]].
        -- intros E. apply nth_error_snoc in E as [E|[E _]].
           ++ apply (si_none _ _ _ _ S _ H d' E).
           ++ assert (k' < length (sres s)) by (apply nth_error_Some; congruence).
              rewrite (si_len _ _ _ _ S) in *. lia.
        -- rewrite (si_len _ _ _ _ S), nth_error_snoc_new. discriminate.
      * intros Hh k' j H. apply nth_error_snoc in H as [H|[-> H]]; try discriminate.
        apply (si_unprot _ _ _ _ S Hh _ _ H).
    + assert (Es : spec_req fs (sobs s) (RExec k) = OSkip).
      { simpl. apply nth_error_None in Hk. rewrite (si_len _ _ _ _ S) in Hk.
        apply nth_error_None in Hk. rewrite Hk. reflexivity. }
      simpl in Es. rewrite Es. split; [|reflexivity].
      split; simpl.
      * exact I.
      * rewrite !app_length, (si_len _ _ _ _ S). reflexivity.
      * intros k' j H. apply nth_error_snoc in H as [H|[-> H]]; try discriminate.
        destruct (si_tmpl _ _ _ _ S _ _ H) as (d' & A' & B'). exists d'. split; auto.
        apply nth_error_snoc_old. exact A'.
      * intros k' H d'. apply nth_error_snoc in H as [H|[-> H]].
        -- intros E. apply nth_error_snoc in E as [E|[E _]].
           ++ apply (si_none _ _ _ _ S _ H d' E).
           ++ assert (k' < length (sres s)) by (apply nth_error_Some; congruence).
              rewrite (si_len _ _ _ _ S) in *. lia.
        -- rewrite (si_len _ _ _ _ S), nth_error_snoc_new. discriminate.
      * intros Hh k' j H. apply nth_error_snoc in H as [H|[-> H]]; try discriminate.
        apply (si_unprot _ _ _ _ S Hh _ _ H).
Qed.

Definition spec_step (fs : tfs) (prev : list obs) (q : req) : list obs := prev ++ [spec_req fs prev q].

Lemma run_from_spec fl c fs qs : good_clone fl -> forall s,
  SInv fl c fs s -> qsok fl qs ->
  SInv fl c fs (fold_left (step_req fl c fs) qs s) /\
  sobs (fold_left (step_req fl c fs) qs s) = fold_left (spec_step fs) qs (sobs s).
Proof.
  intros Gf. induction qs as [|q qs IH]; intros s S H; simpl in *.
  - auto.
  - assert (H1 : qok fl q /\ qsok fl qs).
    { destruct H as [H|H]; [split; left; exact H|].
      apply andb_true_iff in H as [A B]. split; right; assumption. }
    destruct H1 as [H1 H2].
    destruct (step_req_post fl c fs s q Gf S H1) as (S' & E).
    destruct (IH _ S' H2) as (S'' & E'). split; auto. rewrite E', E. reflexivity.
Qed.

(** Every answer of a provider (html or text, caching on or off) is the specified one. *)
Theorem run_spec fl c fs qs :
  good_clone fl -> qsok fl qs -> run_obs fl c fs qs = spec_run fs qs.
Proof.
  intros Gf H. unfold run_obs, run, spec_run.
  destruct (run_from_spec fl c fs qs Gf sinit (SInv_init fl c fs) H) as (_ & E).
  exact E.
Qed.


Lemma spec_req_pure fs prev q : pure_req q = true -> spec_req fs prev q = spec_req fs [] q.
Proof. destruct q; simpl; auto. discriminate. Qed.

Lemma spec_fold_prefix fs qs : forall acc, exists e, fold_left (spec_step fs) qs acc = acc ++ e.
Proof.
  induction qs as [|q qs IH]; intros acc; simpl.
  - exists []. rewrite app_nil_r. reflexivity.
  - destruct (IH (spec_step fs acc q)) as [e E]. rewrite E. unfold spec_step.
    exists ([spec_req fs acc q] ++ e). rewrite app_assoc. reflexivity.
Qed.

Lemma spec_run_nth fs qs : forall prev i q,
  nth_error qs i = Some q -> pure_req q = true ->
  nth_error (fold_left (spec_step fs) qs prev) (length prev + i) = Some (spec_req fs [] q).
Proof.
  induction qs as [|a qs IH]; intros prev [|i] q H Hp; simpl in *; try discriminate.
  - inversion H; subst a. destruct (spec_fold_prefix fs qs (spec_step fs prev q)) as [e E].
    rewrite E. unfold spec_step. rewrite <- app_assoc. rewrite Nat.add_0_r.
    rewrite nth_error_app2 by lia. rewrite Nat.sub_diag. simpl.
    rewrite (spec_req_pure _ _ _ Hp). reflexivity.
  - specialize (IH (spec_step fs prev a) i q H Hp).
    assert (L : length (spec_step fs prev a) = length prev + 1)
      by (unfold spec_step; rewrite app_length; simpl; lia).
    rewrite L in IH.
    replace (length prev + S i) with (length prev + 1 + i) by lia. exact IH.
Qed.

(** The answer to the i-th request (not an Execute) depends on the file set only. *)
Theorem answers_pure fl c fs qs i q :
  good_clone fl -> qsok fl qs -> nth_error qs i = Some q -> pure_req q = true ->
  nth_error (run_obs fl c fs qs) i = Some (spec_req fs [] q).
Proof.
  intros Gf H Hi Hp. rewrite (run_spec fl c fs qs Gf H). unfold spec_run.
  apply (spec_run_nth fs qs [] i q Hi Hp).
Qed.

(* ------------------------------------------------------------------------------------------ *)
(** * C. Concurrent first use *)

(** ** Mutual exclusion *)

Lemma holdsW_cons lk q f st :
  holdsW lk (TRun q (f :: st)) = (Nat.eqb (lock_of (fst f)) lk && phaseW (snd f)) || holdsW lk (TRun q st).
Proof. reflexivity. Qed.
Lemma holdsR_cons lk q f st :
  holdsR lk (TRun q (f :: st)) = (Nat.eqb (lock_of (fst f)) lk && phaseR (snd f)) || holdsR lk (TRun q st).
Proof. reflexivity. Qed.

Lemma ret_holds' q r lv ph rest lk :
  (holdsW lk (ret q r rest) = true -> holdsW lk (TRun q ((lv, ph) :: rest)) = true) /\
  (holdsR lk (ret q r rest) = true -> holdsR lk (TRun q ((lv, ph) :: rest)) = true).
Proof.
  rewrite holdsW_cons, holdsR_cons. unfold ret.
  destruct rest as [|[lv' ph'] rest'].
  - destruct q; simpl; split; intros; discriminate.
  - destruct ph'; try (split; intros H; rewrite H; apply orb_true_r).
    destruct r; rewrite !holdsW_cons, !holdsR_cons; simpl;
      split; intros H; rewrite H; apply orb_true_r.
Qed.

(** A step adds a holding only through the lock operation it performs. *)
Lemma tstep_holds fl c fs p th p' th' a lk :
  tstep fl c fs p th = Some (p', th', a) ->
  (holdsW lk th' = true -> holdsW lk th = true \/ a = ALock lk) /\
  (holdsR lk th' = true -> holdsR lk th = true \/ a = ARLock lk).
Proof.
  intros H. destruct th as [q st|q r|q r]; simpl in H; try discriminate.
  - destruct st as [|[lv ph] rest]; try discriminate.
    destruct ph as [| | |hit| | | |sub|r].
    + inversion H; subst; clear H. rewrite !holdsW_cons, !holdsR_cons. simpl.
      rewrite !andb_false_r, andb_true_r. simpl. split; auto.
      destruct (Nat.eqb (lock_of lv) lk) eqn:E; simpl; auto.
      apply Nat.eqb_eq in E. subst. auto.
    + inversion H; subst; clear H. rewrite !holdsW_cons, !holdsR_cons. simpl. auto.
    + destruct (cache_read fl lv p).
      * inversion H; subst; clear H.
        destruct (ret_holds' q (Ok n) lv PReadU rest lk) as [A B]. split; intros X; left; auto.
      * inversion H; subst; clear H. rewrite !holdsW_cons, !holdsR_cons. simpl. auto.
    + destruct hit.
      * inversion H; subst; clear H.
        destruct (ret_holds' q (Ok n) lv (PRUnlock (Some n)) rest lk) as [A B]. split; intros X; left; auto.
      * inversion H; subst; clear H. rewrite !holdsW_cons, !holdsR_cons. simpl.
        rewrite !andb_false_r. simpl. split; auto. intros X. left. rewrite X. apply orb_true_r.
    + inversion H; subst; clear H. rewrite !holdsW_cons, !holdsR_cons. simpl.
      rewrite !andb_false_r, andb_true_r. simpl. split; auto.
      destruct (Nat.eqb (lock_of lv) lk) eqn:E; simpl; auto.
      apply Nat.eqb_eq in E. subst. auto.
    + destruct (cache_read fl lv p).
      * inversion H; subst; clear H. rewrite !holdsW_cons, !holdsR_cons. simpl. auto.
      * destruct lv; inversion H; subst; clear H; rewrite !holdsW_cons, !holdsR_cons; simpl;
          unfold start; destruct (locked_fast fl); simpl; rewrite ?andb_false_r; simpl; auto.
    + discriminate.
    + destruct (build fl c fs lv sub p) as [p2 r2]. inversion H; subst; clear H.
      rewrite !holdsW_cons, !holdsR_cons. simpl. auto.
    + inversion H; subst; clear H.
      destruct (ret_holds' q r lv (PUnlock r) rest lk) as [A B]. split; intros X; left; auto.
  - destruct (handout fl c (p, r)) as [p2 r2]. inversion H; subst; clear H.
    split; intros X; discriminate.
Qed.

Lemma nth_set_nth_eq {A} (l : list A) : forall t a x,
  nth_error (set_nth t a l) t = Some x -> x = a.
Proof.
  induction l as [|y l IH]; intros [|t] a x H; simpl in *; try discriminate.
  - inversion H. reflexivity.
  - eapply IH; eauto.
Qed.
Lemma nth_set_nth_neq {A} (l : list A) : forall t a j,
  j <> t -> nth_error (set_nth t a l) j = nth_error l j.
Proof.
  induction l as [|y l IH]; intros [|t] a [|j] H; simpl in *; auto; try congruence.
Qed.

Lemma others_ok_spec chk : forall l t, others_ok chk t l = true ->
  forall j th, j <> t -> nth_error l j = Some th -> chk th = true.
Proof.
  induction l as [|x l IH]; intros t H j th Hne Hj.
  - destruct j; discriminate.
  - destruct t as [|t]; simpl in H.
    + destruct j as [|j]; try congruence. simpl in Hj.
      rewrite forallb_forall in H. apply H. eapply nth_error_In; eauto.
    + apply andb_true_iff in H as [H1 H2]. destruct j as [|j]; simpl in Hj.
      * inversion Hj; subst. exact H1.
      * apply (IH t H2 j th); auto.
Qed.

Definition ME (thr : list thread) : Prop :=
  forall t1 t2 th1 th2 lk, t1 <> t2 ->
    nth_error thr t1 = Some th1 -> nth_error thr t2 = Some th2 ->
    holdsW lk th1 = true -> holdsW lk th2 = false /\ holdsR lk th2 = false.

Lemma not_true_false b : (b = true -> False) -> b = false.
Proof. destruct b; auto. intros H. exfalso. auto. Qed.

Lemma cstep_ME fl c fs s t s' : ME (cthr s) -> cstep fl c fs s t = Some s' -> ME (cthr s').
Proof.
  intros M H. unfold cstep in H.
  destruct (nth_error (cthr s) t) as [th|] eqn:Ht; try discriminate.
  destruct (tstep fl c fs (cp s) th) as [[[p' th'] a]|] eqn:Hs; try discriminate.
  match type of H with (if ?e then _ else _) = _ => destruct e eqn:En end; try discriminate.
  inversion H; subst; clear H. simpl.
  intros t1 t2 th1 th2 lk Hne H1 H2 HW.
  destruct (tstep_holds _ _ _ _ _ _ _ _ lk Hs) as [TW TR].
  destruct (Nat.eq_dec t1 t) as [E1|E1]; destruct (Nat.eq_dec t2 t) as [E2|E2]; try congruence.
  - (* the stepping thread holds W *)
    subst t1. apply nth_set_nth_eq in H1. subst th1.
    rewrite nth_set_nth_neq in H2 by assumption.
    destruct (TW HW) as [Hold|Ha].
    + apply (M t t2 th th2 lk); auto.
    + subst a. pose proof (others_ok_spec _ _ _ En t2 th2 E2 H2) as X.
      apply andb_true_iff in X as [X1 X2]. apply negb_true_iff in X1. apply negb_true_iff in X2. auto.
  - (* another thread holds W; the stepping thread must not hold anything on lk *)
    subst t2. apply nth_set_nth_eq in H2. subst th2.
    rewrite nth_set_nth_neq in H1 by assumption.
    destruct (M t1 t th1 th lk Hne H1 Ht HW) as [OW OR].
    split; apply not_true_false; intros X.
    + destruct (TW X) as [Hold|Ha]; try congruence. subst a.
      pose proof (others_ok_spec _ _ _ En t1 th1 E1 H1) as Y.
      apply andb_true_iff in Y as [Y1 _]. apply negb_true_iff in Y1. congruence.
    + destruct (TR X) as [Hold|Ha]; try congruence. subst a.
      pose proof (others_ok_spec _ _ _ En t1 th1 E1 H1) as Y.
      apply negb_true_iff in Y. congruence.
  - rewrite nth_set_nth_neq in H1 by assumption. rewrite nth_set_nth_neq in H2 by assumption.
    apply (M t1 t2 th1 th2 lk); auto.
Qed.

(** no unlocked read anywhere (post-F25 flavours) *)
Definition is_readu (ph : phase) : bool := match ph with PReadU => true | _ => false end.
Definition noU (th : thread) : bool := forallb (fun f : frame => negb (is_readu (snd f))) (stack_of th).

Lemma ret_noU q r rest : noU (TRun q rest) = true -> noU (ret q r rest) = true.
Proof.
  unfold ret. destruct rest as [|[lv' ph'] rest']; intros H.
  - destruct q; reflexivity.
  - destruct ph'; auto. unfold noU in *. simpl in *. destruct r; simpl; auto.
Qed.

Lemma tstep_noU fl c fs p th p' th' a :
  locked_fast fl = true -> noU th = true -> tstep fl c fs p th = Some (p', th', a) -> noU th' = true.
Proof.
  intros Hl N H. destruct th as [q st|q r|q r]; simpl in H; try discriminate.
  - destruct st as [|[lv ph] rest]; try discriminate.
    assert (Nr : noU (TRun q rest) = true).
    { unfold noU in *. simpl in N. apply andb_true_iff in N. tauto. }
    destruct ph as [| | |hit| | | |sub|r]; try discriminate.
    + inversion H; subst. exact Nr.
    + inversion H; subst. exact Nr.
    + destruct hit; inversion H; subst. apply ret_noU; auto. exact Nr.
    + inversion H; subst. exact Nr.
    + destruct (cache_read fl lv p).
      * inversion H; subst. exact Nr.
      * destruct lv; inversion H; subst; unfold noU in *; simpl in *; unfold start; rewrite ?Hl; simpl; auto.
    + destruct (build fl c fs lv sub p). inversion H; subst. exact Nr.
    + inversion H; subst. apply ret_noU; auto.
  - destruct (handout fl c (p, r)). inversion H; subst. reflexivity.
Qed.

Definition NoU (thr : list thread) : Prop := forall t th, nth_error thr t = Some th -> noU th = true.

Lemma cstep_NoU fl c fs s t s' :
  locked_fast fl = true -> NoU (cthr s) -> cstep fl c fs s t = Some s' -> NoU (cthr s').
Proof.
  intros Hl N H. unfold cstep in H.
  destruct (nth_error (cthr s) t) as [th|] eqn:Ht; try discriminate.
  destruct (tstep fl c fs (cp s) th) as [[[p' th'] a]|] eqn:Hs; try discriminate.
  match type of H with (if ?e then _ else _) = _ => destruct e eqn:En end; try discriminate.
  inversion H; subst; clear H. simpl. intros j thj Hj.
  destruct (Nat.eq_dec j t) as [E|E].
  - subst j. apply nth_set_nth_eq in Hj. subst. eapply tstep_noU; eauto.
  - rewrite nth_set_nth_neq in Hj by assumption. eapply N; eauto.
Qed.

(** accesses happen under the lock *)
Lemma at_write_holds lk th : at_write lk th = true -> holdsW lk th = true.
Proof.
  unfold at_write, top, holdsW. destruct (stack_of th) as [|[lv ph] rest]; try discriminate.
  destruct ph; try discriminate. intros H. simpl. rewrite H. reflexivity.
Qed.
Lemma at_read_holds lk th :
  noU th = true -> at_read lk th = true -> holdsW lk th = true \/ holdsR lk th = true.
Proof.
  unfold at_read, top, holdsW, holdsR, noU. destruct (stack_of th) as [|[lv ph] rest]; try discriminate.
  destruct ph; try discriminate; simpl; intros N H; rewrite H; simpl; auto; discriminate.
Qed.

Lemma existsb_nth {A} (f : A -> bool) l : existsb f l = true -> exists j x, nth_error l j = Some x /\ f x = true.
Proof.
  intros H. apply existsb_exists in H as (x & Hin & Hf).
  apply In_nth_error in Hin as [j Hj]. eauto.
Qed.

Lemma race_in_witness lk : forall l, race_in lk l = true ->
  exists i j a b, i <> j /\ nth_error l i = Some a /\ nth_error l j = Some b /\
                  at_write lk a = true /\ (at_read lk b || at_write lk b) = true.
Proof.
  induction l as [|x l IH]; simpl; try discriminate. intros H.
  apply orb_true_iff in H as [H|H]; [apply orb_true_iff in H as [H|H]|].
  - apply andb_true_iff in H as [H1 H2]. apply existsb_nth in H2 as (j & b & Hj & Hb).
    exists 0, (S j), x, b. repeat split; auto.
  - apply andb_true_iff in H as [H1 H2]. apply existsb_nth in H2 as (j & b & Hj & Hb).
    exists (S j), 0, b, x. repeat split; auto.
  - destruct (IH H) as (i & j & a & b & A & B & C & D & E).
    exists (S i), (S j), a, b. repeat split; auto.
Qed.

Lemma no_race s : ME (cthr s) -> NoU (cthr s) -> raceb s = false.
Proof.
  intros M N. unfold raceb. apply not_true_false. intros H.
  assert (exists lk, race_in lk (cthr s) = true) as [lk R].
  { apply orb_true_iff in H as [H|H]; [apply orb_true_iff in H as [H|H]|]; eauto. }
  destruct (race_in_witness lk _ R) as (i & j & a & b & Hne & Hi & Hj & Wa & Rb).
  apply at_write_holds in Wa. destruct (M i j a b lk Hne Hi Hj Wa) as [OW OR].
  apply orb_true_iff in Rb as [Rb|Rb].
  - destruct (at_read_holds lk b (N _ _ Hj) Rb); congruence.
  - apply at_write_holds in Rb. congruence.
Qed.

Lemma ME_init fl qs : ME (cthr (cinit fl qs)).
Proof.
  intros t1 t2 th1 th2 lk _ H1 _ HW. exfalso. simpl in H1.
  rewrite nth_error_map in H1. destruct (nth_error qs t1) as [q|]; try discriminate.
  inversion H1; subst. destruct q as [|l|l [|x v]]; unfold thread_init, start in HW;
    destruct (locked_fast fl); unfold holdsW in HW; simpl in HW; rewrite ?andb_false_r in HW;
    simpl in HW; discriminate HW.
Qed.

Lemma NoU_init fl qs : locked_fast fl = true -> NoU (cthr (cinit fl qs)).
Proof.
  intros Hl t th H. simpl in H. rewrite nth_error_map in H.
  destruct (nth_error qs t) as [q|]; try discriminate. inversion H; subst.
  destruct q as [|l|l [|x v]]; unfold thread_init, start, noU; rewrite ?Hl; reflexivity.
Qed.

Lemma crun_inv (P : cstate -> Prop) fl c fs :
  (forall s t s', P s -> cstep fl c fs s t = Some s' -> P s') ->
  forall sched s, P s -> P (crun fl c fs sched s).
Proof.
  intros Hstep. induction sched as [|t sched IH]; intros s H; simpl; auto.
  apply IH. unfold crun_step. destruct (cstep fl c fs s t) eqn:E; auto. eapply Hstep; eauto.
Qed.

Theorem race_free fl c fs qs sched :
  locked_fast fl = true -> raceb (crun fl c fs sched (cinit fl qs)) = false.
Proof.
  intros Hl.
  assert (X : ME (cthr (crun fl c fs sched (cinit fl qs))) /\ NoU (cthr (crun fl c fs sched (cinit fl qs)))).
  { apply (crun_inv (fun s => ME (cthr s) /\ NoU (cthr s))).
    - intros s t s' [M N] H. split. eapply cstep_ME; eauto. eapply cstep_NoU; eauto.
    - split. apply ME_init. apply NoU_init. exact Hl. }
  destruct X. apply no_race; assumption.
Qed.

(** ** Every finished thread holds the specified template *)

Definition level_spec (fs : tfs) (lv : level) : option defs :=
  match lv with
  | LvB => base_spec fs
  | LvL nm => layout_spec fs nm
  | LvV nm v => view_spec fs nm v
  end.
Definition sub (lv : level) : option level :=
  match lv with LvB => None | LvL _ => Some LvB | LvV nm _ => Some (LvL nm) end.
Definition req_level (q : creq) : level :=
  match q with CBase => LvB | CLayout l => LvL (defname l) | CView l v => LvV (defname l) v end.
Definition creq_specd (fs : tfs) (q : creq) : option defs :=
  match q with
  | CBase => base_spec fs
  | CLayout l => layout_spec fs (defname l)
  | CView l v => match v with [] => None | _ => view_spec fs (defname l) v end
  end.

Definition rokP (fl : flavour) (fs : tfs) (lv : level) (p : pstate) (r : res nat) : Prop :=
  match lv with
  | LvV _ _ => rok has_defs p (level_spec fs lv) r
  | _ => rok (good_obj fl) p (level_spec fs lv) r
  end.

Definition frame_ok (fl : flavour) (fs : tfs) (p : pstate) (f : frame) : Prop :=
  let (lv, ph) := f in
  match ph with
  | PRUnlock (Some i) => rokP fl fs lv p (Ok i)
  | PBuild i => match sub lv with
                | None => True
                | Some lv' => exists d, level_spec fs lv' = Some d /\ good_obj fl p i d
                end
  | PUnlock r => rokP fl fs lv p r
  | PCall => False
  | _ => True
  end.

Fixpoint chain_ok (fs : tfs) (lvtop : level) (rest : list frame) (q : creq) : Prop :=
  match rest with
  | [] => lvtop = req_level q /\ level_spec fs lvtop = creq_specd fs q
  | (lv', ph') :: rest' => ph' = PCall /\ sub lv' = Some lvtop /\ chain_ok fs lv' rest' q
  end.

Definition thread_ok (fl : flavour) (fs : tfs) (p : pstate) (th : thread) : Prop :=
  match th with
  | TRun q [] => False
  | TRun q ((lv, ph) :: rest) => (inj_key fl = true \/ creq_ok q = true) /\ frame_ok fl fs p (lv, ph) /\ chain_ok fs lv rest q
  | THand q r => rok (good_obj fl) p (creq_specd fs q) r /\ (match q with CView _ _ => False | _ => True end)
  | TDone q r => rok has_defs p (creq_specd fs q) r
  end.

Lemma rok_ext (P Q : pstate -> nat -> defs -> Prop) p p' spec r :
  (forall i d, P p i d -> Q p' i d) -> rok P p spec r -> rok Q p' spec r.
Proof.
  intros H. destruct r; simpl; auto. intros (d & A & B). exists d. auto.
Qed.

Lemma rokP_ext fl fs lv p p' r : hext p p' -> rokP fl fs lv p r -> rokP fl fs lv p' r.
Proof.
  intros H. destruct lv; simpl; apply rok_ext; intros i d;
    try apply good_obj_ext; try apply has_defs_ext; auto.
Qed.

Lemma thread_ok_ext fl fs p p' th : hext p p' -> thread_ok fl fs p th -> thread_ok fl fs p' th.
Proof.
  intros H. destruct th as [q [|[lv ph] rest]|q r|q r]; simpl; auto.
  - intros (A & B & C). repeat split; auto.
    destruct ph as [| | |[i|]| | | |i|r]; auto.
    + eapply rokP_ext; eauto.
    + destruct (sub lv); auto. destruct B as (d & B1 & B2). exists d. split; auto.
      eapply good_obj_ext; eauto.
    + eapply rokP_ext; eauto.
  - intros (A & B). split; auto. eapply rok_ext; [|exact A]. intros i d. apply good_obj_ext. exact H.
  - apply rok_ext. intros i d. apply has_defs_ext. exact H.
Qed.

Lemma chain_LvV fl fs nm v rest q :
  chain_ok fs (LvV nm v) rest q -> (inj_key fl = true \/ creq_ok q = true) -> kok fl nm.
Proof.
  destruct rest as [|[lv' ph'] rest']; simpl.
  - intros [E _] H. destruct q as [|l|l v']; simpl in E; try discriminate.
    inversion E; subst. simpl in H. apply kok_defname. exact H.
  - intros (_ & E & _). destruct lv'; simpl in E; discriminate.
Qed.

Lemma cache_read_ok fl c fs lv p i :
  PInv fl c fs p -> (forall nm v, lv = LvV nm v -> kok fl nm) ->
  cache_read fl lv p = Some i -> rokP fl fs lv p (Ok i).
Proof.
  intros I Hn H. destruct lv as [|nm|nm v]; simpl in *.
  - apply (pi_base _ _ _ _ I _ H).
  - apply (pi_lay _ _ _ _ I _ _ (assoc_In _ _ _ H)).
  - apply vassoc_In in H. destruct (pi_view _ _ _ _ I _ _ H) as (nm' & v' & d & H1 & H2 & H3 & H4).
    destruct (view_key_inj _ _ _ _ _ (Hn _ _ eq_refl) H1 H2) as [-> ->]. exists d. auto.
Qed.

Lemma level_spec_sub_none fs lv lv' : sub lv' = Some lv -> level_spec fs lv = None -> level_spec fs lv' = None.
Proof.
  destruct lv' as [|nm|nm v]; simpl; intros E H; inversion E; subst; simpl in H.
  - unfold layout_spec. rewrite H. reflexivity.
  - unfold view_spec. rewrite H. reflexivity.
Qed.

Lemma ret_ok fl fs p q r lv rest :
  (inj_key fl = true \/ creq_ok q = true) -> rokP fl fs lv p r -> chain_ok fs lv rest q -> thread_ok fl fs p (ret q r rest).
Proof.
  intros Hq R C. unfold ret. destruct rest as [|[lv' ph'] rest']; simpl in C.
  - destruct C as [E1 E2]. subst lv. unfold rokP in R. rewrite E2 in R.
    destruct q; simpl in *; auto.
  - destruct C as (-> & Hs & C).
    assert (Rg : rok (good_obj fl) p (level_spec fs lv) r).
    { destruct lv; auto. destruct lv'; simpl in Hs; discriminate. }
    destruct r as [i| |]; simpl in Rg.
    + simpl. repeat split; auto. rewrite Hs. exact Rg.
    + simpl. repeat split; auto. pose proof (level_spec_sub_none fs _ _ Hs Rg) as X.
      unfold rokP. destruct lv'; simpl; exact X.
    + contradiction.
Qed.

Lemma handout_ok fl c fs p1 r spec p' r' :
  PInv fl c fs p1 -> rok (good_obj fl) p1 spec r -> handout fl c (p1, r) = (p', r') ->
  PInv fl c fs p' /\ hext p1 p' /\ rok has_defs p' spec r'.
Proof.
  intros I R H. unfold handout in H. destruct (c && clone_out fl).
  - destruct r as [i| |]; simpl in R.
    + destruct R as (d & Hs & Gd). rewrite (derive_good fl i [] p1 d Gd) in H. simpl in H.
      inversion H; subst; clear H. fold (newobj d p1).
      split; [apply PInv_heap; exact I|split].
      * eexists; reflexivity.
      * exists d. split; auto. apply (good_has fl). apply new_good.
    + injection H as <- <-. split; [exact I|split; [apply hext_refl|exact R]].
    + contradiction.
  - injection H as <- <-. split; [exact I|split; [apply hext_refl|]].
    eapply rok_ext; [|exact R]. intros i d. apply good_has.
Qed.

Lemma tstep_ok fl c fs p th p' th' a :
  PInv fl c fs p -> thread_ok fl fs p th -> tstep fl c fs p th = Some (p', th', a) ->
  PInv fl c fs p' /\ hext p p' /\ thread_ok fl fs p' th'.
Proof.
  intros I T H. destruct th as [q st|q r|q r]; simpl in H; try discriminate.
  - destruct st as [|[lv ph] rest]; try discriminate. destruct T as (Hq & F & C).
    assert (Hn : forall nm v, lv = LvV nm v -> kok fl nm).
    { intros nm v E. subst lv. eapply chain_LvV; eauto. }
    destruct ph as [| | |hit| | | |sb|r].
    + inversion H; subst. split; [exact I|split; [apply hext_refl|]]. simpl. auto.
    + inversion H; subst. split; [exact I|split; [apply hext_refl|]]. simpl. repeat split; auto.
      destruct (cache_read fl lv p') eqn:E; auto. eapply cache_read_ok; eauto.
    + destruct (cache_read fl lv p) eqn:E.
      * inversion H; subst. split; [exact I|split; [apply hext_refl|]].
        apply ret_ok with (lv := lv); auto. eapply cache_read_ok; eauto.
      * inversion H; subst. split; [exact I|split; [apply hext_refl|]]. simpl. auto.
    + destruct hit.
      * inversion H; subst. split; [exact I|split; [apply hext_refl|]].
        apply ret_ok with (lv := lv); auto.
      * inversion H; subst. split; [exact I|split; [apply hext_refl|]]. simpl. auto.
    + inversion H; subst. split; [exact I|split; [apply hext_refl|]]. simpl. auto.
    + destruct (cache_read fl lv p) eqn:E.
      * inversion H; subst. split; [exact I|split; [apply hext_refl|]]. simpl. repeat split; auto.
        eapply cache_read_ok; eauto.
      * destruct lv; inversion H; subst; (split; [exact I|split; [apply hext_refl|]]); simpl;
          repeat split; auto; unfold start; destruct (locked_fast fl); exact Logic.I.
    + simpl in F. contradiction.
    + destruct (build fl c fs lv sb p) as [p2 r2] eqn:Hb. inversion H; subst; clear H.
      destruct lv as [|nm|nm v]; simpl in Hb, F.
      * destruct (build_base_post _ _ _ _ _ _ I Hb) as (I2 & [X _] & R2).
        split; [exact I2|split; [exact X|]]. simpl. repeat split; auto.
      * destruct F as (d & Hd & Gd).
        destruct (build_layout_post _ _ _ _ _ _ _ _ _ I Hd Gd Hb) as (I2 & [X _] & R2).
        split; [exact I2|split; [exact X|]]. simpl. repeat split; auto.
      * destruct F as (d & Hd & Gd).
        destruct (build_view_post _ _ _ _ _ _ _ _ _ _ I (Hn _ _ eq_refl) Hd Gd Hb) as (I2 & [X _] & R2 & _).
        split; [exact I2|split; [exact X|]]. simpl. repeat split; auto.
    + inversion H; subst. split; [exact I|split; [apply hext_refl|]].
      apply ret_ok with (lv := lv); auto.
  - destruct T as [R Hq]. destruct (handout fl c (p, r)) as [p2 r2] eqn:Hh.
    inversion H; subst; clear H.
    destruct (handout_ok _ _ _ _ _ _ _ _ I R Hh) as (I2 & X & R2).
    split; [exact I2|split; [exact X|]]. exact R2.
Qed.

Definition DInv (fl : flavour) (c : bool) (fs : tfs) (s : cstate) : Prop :=
  PInv fl c fs (cp s) /\ forall t th, nth_error (cthr s) t = Some th -> thread_ok fl fs (cp s) th.

Lemma cstep_DInv fl c fs s t s' : DInv fl c fs s -> cstep fl c fs s t = Some s' -> DInv fl c fs s'.
Proof.
  intros [I T] H. unfold cstep in H.
  destruct (nth_error (cthr s) t) as [th|] eqn:Ht; try discriminate.
  destruct (tstep fl c fs (cp s) th) as [[[p' th'] a]|] eqn:Hs; try discriminate.
  match type of H with (if ?e then _ else _) = _ => destruct e eqn:En end; try discriminate.
  inversion H; subst; clear H. simpl.
  destruct (tstep_ok _ _ _ _ _ _ _ _ I (T _ _ Ht) Hs) as (I2 & X & T2).
  split; auto. intros j thj Hj. simpl in Hj. destruct (Nat.eq_dec j t) as [E|E].
  - subst j. apply nth_set_nth_eq in Hj. subst. exact T2.
  - rewrite nth_set_nth_neq in Hj by assumption. eapply thread_ok_ext; eauto.
Qed.

Definition cqsok (fl : flavour) (qs : list creq) : Prop := inj_key fl = true \/ forallb creq_ok qs = true.

Lemma DInv_init fl c fs qs : cqsok fl qs -> DInv fl c fs (cinit fl qs).
Proof.
  intros Hq. split. apply PInv_init. intros t th H. simpl in H. rewrite nth_error_map in H.
  destruct (nth_error qs t) as [q|] eqn:E; try discriminate. inversion H; subst; clear H.
  assert (Q : inj_key fl = true \/ creq_ok q = true).
  { destruct Hq as [Hq|Hq]; [left; exact Hq|right].
    rewrite forallb_forall in Hq. apply (Hq q (nth_error_In _ _ E)). }
  destruct q as [|l|l [|x v]]; simpl; auto; repeat split; auto;
    unfold start; destruct (locked_fast fl); exact Logic.I.
Qed.

Lemma creq_spec_specd fs q : creq_spec fs q = of_opt (creq_specd fs q).
Proof. destruct q as [|l|l [|x v]]; reflexivity. Qed.

Theorem conc_answers fl c fs qs sched t q r :
  cqsok fl qs ->
  nth_error (cthr (crun fl c fs sched (cinit fl qs))) t = Some (TDone q r) ->
  obs_of (cp (crun fl c fs sched (cinit fl qs))) r = creq_spec fs q.
Proof.
  intros Hq H.
  assert (D : DInv fl c fs (crun fl c fs sched (cinit fl qs))).
  { apply (crun_inv (DInv fl c fs)). intros; eapply cstep_DInv; eauto. apply DInv_init. exact Hq. }
  destruct D as [_ T]. specialize (T _ _ H). simpl in T. rewrite creq_spec_specd.
  destruct r as [i| |]; simpl in *.
  - destruct T as (d & -> & o & H1 & H2). rewrite H1, H2. reflexivity.
  - rewrite T. reflexivity.
  - contradiction.
Qed.

(** A thread keeps its request; the i-th thread serves the i-th request. *)

Lemma ret_req q r rest : req_of (ret q r rest) = q.
Proof. unfold ret. destruct rest as [|[lv [ ]] rest']; try reflexivity; destruct q; destruct r; reflexivity. Qed.

Lemma tstep_req fl c fs p th p' th' a : tstep fl c fs p th = Some (p', th', a) -> req_of th' = req_of th.
Proof.
  intros H. destruct th as [q st|q r|q r]; simpl in H; try discriminate.
  - destruct st as [|[lv ph] rest]; try discriminate.
    destruct ph as [| | |[i|]| | | |sb|r]; try discriminate;
      try (inversion H; subst; try apply ret_req; reflexivity).
    + destruct (cache_read fl lv p); inversion H; subst; try apply ret_req; reflexivity.
    + destruct (cache_read fl lv p); [|destruct lv]; inversion H; subst; reflexivity.
    + destruct (build fl c fs lv sb p). inversion H; subst. reflexivity.
  - destruct (handout fl c (p, r)). inversion H; subst. reflexivity.
Qed.

Definition Reqs (qs : list creq) (s : cstate) : Prop := map req_of (cthr s) = qs.

Lemma map_set_nth {A B} (f : A -> B) (l : list A) : forall t a x,
  nth_error l t = Some x -> f a = f x -> map f (set_nth t a l) = map f l.
Proof.
  induction l as [|y l IH]; intros [|t] a x H E; simpl in *; try discriminate.
  - inversion H; subst. rewrite E. reflexivity.
  - f_equal. eapply IH; eauto.
Qed.

Lemma cstep_Reqs fl c fs qs s t s' : Reqs qs s -> cstep fl c fs s t = Some s' -> Reqs qs s'.
Proof.
  unfold Reqs. intros R H. unfold cstep in H.
  destruct (nth_error (cthr s) t) as [th|] eqn:Ht; try discriminate.
  destruct (tstep fl c fs (cp s) th) as [[[p' th'] a]|] eqn:Hs; try discriminate.
  match type of H with (if ?e then _ else _) = _ => destruct e eqn:En end; try discriminate.
  inversion H; subst; clear H. simpl. erewrite map_set_nth; eauto. eapply tstep_req; eauto.
Qed.

Lemma Reqs_init fl qs : Reqs qs (cinit fl qs).
Proof.
  unfold Reqs. simpl. rewrite map_map. rewrite <- (map_id qs) at 2. apply map_ext.
  intros [|l|l [|x v]]; reflexivity.
Qed.

Theorem conc_reqs fl c fs qs sched :
  map req_of (cthr (crun fl c fs sched (cinit fl qs))) = qs.
Proof.
  apply (crun_inv (Reqs qs)). intros; eapply cstep_Reqs; eauto. apply Reqs_init.
Qed.

(* ------------------------------------------------------------------------------------------ *)
(** * Statements in the property's own words *)

Lemma good_html_now : good html_now. Proof. split; [intros _|]; reflexivity. Qed.
Lemma good_text_now : good text_now. Proof. split; [intros H; discriminate H|reflexivity]. Qed.

Theorem layers fl c fs qs i l v Hd Ld Vd :
  good fl -> nth_error qs i = Some (RView l v) -> v <> [] ->
  dir_defs (helper_files fs) = Some Hd ->
  dir_defs (layout_files fs (defname l)) = Some Ld ->
  dir_defs (view_files fs v) = Some Vd ->
  exists d, nth_error (run_obs fl c fs qs) i = Some (OTmpl d) /\
    forall n, lookup n d = match lookup n Vd with
                           | Some b => Some b
                           | None => match lookup n Ld with Some b => Some b | None => lookup n Hd end
                           end.
Proof.
  intros [Gf Gk] Hi Hv H1 H2 H3. pose proof (or_introl Gk : qsok fl qs) as Hq. exists (Vd ++ Ld ++ Hd). split.
  - rewrite (answers_pure fl c fs qs i _ Gf Hq Hi eq_refl). simpl.
    destruct v; try congruence. rewrite (view_spec_layers fs _ _ Hd Ld Vd H1 H2 H3). reflexivity.
  - intros n. rewrite !lookup_app. reflexivity.
Qed.

Theorem layers_err fl c fs qs i l v :
  good fl -> nth_error qs i = Some (RView l v) ->
  (v = [] \/ dir_defs (helper_files fs) = None \/ dir_defs (layout_files fs (defname l)) = None \/
   dir_defs (view_files fs v) = None) ->
  nth_error (run_obs fl c fs qs) i = Some OErr.
Proof.
  intros [Gf Gk] Hi H. pose proof (or_introl Gk : qsok fl qs) as Hq. rewrite (answers_pure fl c fs qs i _ Gf Hq Hi eq_refl). simpl.
  destruct v as [|x v]; auto. destruct H as [H|H]; try discriminate.
  unfold dir_defs in H. unfold view_spec, layout_spec, base_spec.
  destruct (parse_files (helper_files fs) []) as [Hd|]; auto.
  rewrite (parse_files_app (layout_files fs (defname l)) Hd).
  destruct (parse_files (layout_files fs (defname l)) []) as [Ld|]; auto.
  - rewrite (parse_files_app (view_files fs (x :: v))).
    destruct (parse_files (view_files fs (x :: v)) []); auto.
    destruct H as [H|[H|H]]; discriminate.
Qed.

Theorem isolation fl c fs qs i q n v1 :
  good fl -> nth_error qs i = Some q ->
  only_in_view fs n v1 ->
  match q with RBase | RLayout _ => True | RView _ v2 => v2 <> v1 | RExec _ => False end ->
  exists o, nth_error (run_obs fl c fs qs) i = Some o /\ absent n o.
Proof.
  intros [Gf Gk] Hi (_ & Hh & Hl & Hv) Hc. pose proof (or_introl Gk : qsok fl qs) as Hq. exists (spec_req fs [] q). split.
  - apply answers_pure; auto. destruct q; auto.
  - destruct q as [|l|l v2|k]; simpl in *; try contradiction.
    + destruct (base_spec fs) eqn:E; simpl; auto. eapply base_spec_absent; eauto.
    + destruct (layout_spec fs (defname l)) eqn:E; simpl; auto. eapply layout_spec_absent; eauto.
    + destruct v2 as [|x v2]; simpl; auto.
      destruct (view_spec fs (defname l) (x :: v2)) eqn:E; simpl; auto.
      eapply view_spec_absent; eauto.
Qed.

Theorem cache_transparent fl fs qs :
  good fl -> run_obs fl true fs qs = run_obs fl false fs qs.
Proof. intros [Gf Gk]. rewrite !(run_spec fl _ fs qs Gf (or_introl Gk)). reflexivity. Qed.

Theorem providers_agree c c' fs qs :
  run_obs html_now c fs qs = run_obs text_now c' fs qs.
Proof.
  rewrite (run_spec html_now c fs qs (proj1 good_html_now) (or_introl eq_refl)),
          (run_spec text_now c' fs qs (proj1 good_text_now) (or_introl eq_refl)).
  reflexivity.
Qed.

(** the pre-7035bfe key is also fine as long as layout names contain no ':' *)
Theorem run_spec_oldkey fl c fs qs :
  good_clone fl -> forallb req_ok qs = true -> run_obs fl c fs qs = spec_run fs qs.
Proof. intros Gf H. apply run_spec; auto. right. exact H. Qed.

Theorem run_spec_good fl c fs qs : good fl -> run_obs fl c fs qs = spec_run fs qs.
Proof. intros [Gf Gk]. apply run_spec; auto. left. exact Gk. Qed.

Theorem twice fl c fs qs i j q :
  good fl -> nth_error qs i = Some q -> nth_error qs j = Some q ->
  pure_req q = true -> nth_error (run_obs fl c fs qs) i = nth_error (run_obs fl c fs qs) j.
Proof.
  intros [Gf Gk] Hi Hj Hp. pose proof (or_introl Gk : qsok fl qs) as H.
  rewrite (answers_pure fl c fs qs i q Gf H Hi Hp), (answers_pure fl c fs qs j q Gf H Hj Hp). reflexivity.
Qed.

Theorem conc_answers_full fl c fs qs sched t q r :
  inj_key fl = true ->
  nth_error (cthr (crun fl c fs sched (cinit fl qs))) t = Some (TDone q r) ->
  nth_error qs t = Some q /\ obs_of (cp (crun fl c fs sched (cinit fl qs))) r = creq_spec fs q.
Proof.
  intros Hq H. split.
  - pose proof (conc_reqs fl c fs qs sched) as R. rewrite <- R.
    rewrite nth_error_map, H. reflexivity.
  - eapply conc_answers; eauto. left. exact Hq.
Qed.

Theorem conc_equal fl c fs qs sched t1 t2 q r1 r2 :
  inj_key fl = true ->
  let s := crun fl c fs sched (cinit fl qs) in
  nth_error (cthr s) t1 = Some (TDone q r1) -> nth_error (cthr s) t2 = Some (TDone q r2) ->
  obs_of (cp s) r1 = obs_of (cp s) r2.
Proof.
  intros Hq s H1 H2. unfold s in *.
  rewrite (conc_answers fl c fs qs sched t1 q r1 (or_introl Hq) H1), (conc_answers fl c fs qs sched t2 q r2 (or_introl Hq) H2).
  reflexivity.
Qed.

(* ------------------------------------------------------------------------------------------ *)
(** * D. Deadlock freedom and termination of the concurrent protocol *)

(** ** Shape of a thread: the innermost frame is active, every frame below it waits at [PCall]
    for the level directly below its own.  Hence the mutexes held by the frames of one thread
    have strictly increasing numbers from the innermost frame outwards (base < layouts < views). *)

Fixpoint chain_wf (lvtop : level) (rest : list frame) : Prop :=
  match rest with
  | [] => True
  | (lv', ph') :: rest' => ph' = PCall /\ sub lv' = Some lvtop /\ chain_wf lv' rest'
  end.

Definition wf_thread (th : thread) : Prop :=
  match th with
  | TRun _ [] => False
  | TRun _ ((lv, ph) :: rest) => ph <> PCall /\ chain_wf lv rest
  | _ => True
  end.

Definition WF (s : cstate) : Prop := forall t th, nth_error (cthr s) t = Some th -> wf_thread th.

Lemma start_not_call fl : start fl <> PCall.
Proof. unfold start. destruct (locked_fast fl); discriminate. Qed.

Lemma ret_wf q r rest : (forall lv, chain_wf lv rest -> True) ->
  match rest with [] => True | (lv', ph') :: rest' => ph' = PCall /\ chain_wf lv' rest' end ->
  wf_thread (ret q r rest).
Proof.
  intros _ H. unfold ret. destruct rest as [|[lv' ph'] rest'].
  - destruct q; exact I.
  - destruct H as [-> C]. destruct r; simpl; split; auto; discriminate.
Qed.

Lemma chain_wf_tail lv rest : chain_wf lv rest ->
  match rest with [] => True | (lv', ph') :: rest' => ph' = PCall /\ chain_wf lv' rest' end.
Proof. destruct rest as [|[lv' ph'] rest']; simpl; tauto. Qed.

Lemma tstep_wf fl c fs p th p' th' a :
  wf_thread th -> tstep fl c fs p th = Some (p', th', a) -> wf_thread th'.
Proof.
  intros W H. destruct th as [q st|q r|q r]; simpl in H; try discriminate.
  - destruct st as [|[lv ph] rest]; try discriminate. destruct W as [Hc C].
    pose proof (chain_wf_tail _ _ C) as Ct.
    destruct ph as [| | |hit| | | |sb|r].
    + inversion H; subst. simpl. split; [discriminate|exact C].
    + inversion H; subst. simpl. split; [discriminate|exact C].
    + destruct (cache_read fl lv p).
      * inversion H; subst. apply ret_wf; auto.
      * inversion H; subst. simpl. split; [discriminate|exact C].
    + destruct hit.
      * inversion H; subst. apply ret_wf; auto.
      * inversion H; subst. simpl. split; [discriminate|exact C].
    + inversion H; subst. simpl. split; [discriminate|exact C].
    + destruct (cache_read fl lv p).
      * inversion H; subst. simpl. split; [discriminate|exact C].
      * destruct lv; inversion H; subst; simpl.
        -- split; [discriminate|exact C].
        -- split; [apply start_not_call|]. repeat split; auto.
        -- split; [apply start_not_call|]. repeat split; auto.
    + congruence.
    + destruct (build fl c fs lv sb p). inversion H; subst. simpl. split; [discriminate|exact C].
    + inversion H; subst. apply ret_wf; auto.
  - destruct (handout fl c (p, r)). inversion H; subst. exact I.
Qed.

Lemma cstep_WF fl c fs s t s' : WF s -> cstep fl c fs s t = Some s' -> WF s'.
Proof.
  intros W H. unfold cstep in H.
  destruct (nth_error (cthr s) t) as [th|] eqn:Ht; try discriminate.
  destruct (tstep fl c fs (cp s) th) as [[[p' th'] a]|] eqn:Hs; try discriminate.
  match type of H with (if ?e then _ else _) = _ => destruct e eqn:En end; try discriminate.
  inversion H; subst; clear H. intros j thj Hj. simpl in Hj.
  destruct (Nat.eq_dec j t) as [E|E].
  - subst j. apply nth_set_nth_eq in Hj. subst. eapply tstep_wf; eauto.
  - rewrite nth_set_nth_neq in Hj by assumption. eapply W; eauto.
Qed.

Lemma WF_init fl qs : WF (cinit fl qs).
Proof.
  intros t th H. simpl in H. rewrite nth_error_map in H.
  destruct (nth_error qs t) as [q|]; try discriminate. inversion H; subst.
  destruct q as [|l|l [|x v]]; simpl; auto; split; auto; apply start_not_call.
Qed.

Lemma WF_reach fl c fs qs sched : WF (crun fl c fs sched (cinit fl qs)).
Proof.
  apply (crun_inv WF). intros; eapply cstep_WF; eauto. apply WF_init.
Qed.

(** ** The lock order *)

Lemma sub_lock lv lv' : sub lv' = Some lv -> lock_of lv' = S (lock_of lv).
Proof. destruct lv'; simpl; intros H; inversion H; reflexivity. Qed.

Lemma chain_wf_above lv rest : chain_wf lv rest ->
  forall f, In f rest -> lock_of lv < lock_of (fst f) /\ snd f = PCall.
Proof.
  revert lv. induction rest as [|[lv' ph'] rest' IH]; intros lv C f Hin; simpl in *; try contradiction.
  destruct C as (-> & Hs & C). apply sub_lock in Hs. destruct Hin as [<-|Hin].
  - simpl. split; [lia|reflexivity].
  - destruct (IH _ C f Hin). split; [lia|assumption].
Qed.

(** Whoever holds mutex [lk] either holds it in its active (innermost) frame, or its active
    frame works on a mutex with a smaller number. *)
Lemma holder_cases th lk : wf_thread th ->
  holdsW lk th = true \/ holdsR lk th = true ->
  exists q lv ph rest, th = TRun q ((lv, ph) :: rest) /\
    ((lock_of lv = lk /\ (phaseW ph || phaseR ph) = true) \/ lock_of lv < lk).
Proof.
  intros W H. destruct th as [q st|q r|q r]; try (destruct H; discriminate).
  destruct st as [|[lv ph] rest]; try contradiction. destruct W as [_ C].
  exists q, lv, ph, rest. split; auto.
  rewrite holdsW_cons, holdsR_cons in H. cbn [fst snd] in H.
  assert (Hrest : forall g, existsb (fun f : frame => Nat.eqb (lock_of (fst f)) lk && g (snd f)) rest = true ->
                            lock_of lv < lk).
  { intros g E. apply existsb_exists in E as (f & Hin & Hf). apply andb_true_iff in Hf as [Hf _].
    apply Nat.eqb_eq in Hf. destruct (chain_wf_above _ _ C f Hin). lia. }
  destruct H as [H|H]; apply orb_true_iff in H as [H|H].
  - apply andb_true_iff in H as [H1 H2]. apply Nat.eqb_eq in H1. left. rewrite H2. auto.
  - right. apply (Hrest phaseW). exact H.
  - apply andb_true_iff in H as [H1 H2]. apply Nat.eqb_eq in H1. left. rewrite H2. split; auto. apply orb_true_r.
  - right. apply (Hrest phaseR). exact H.
Qed.

(** No lock upgrade, no recursive locking: the mutex a thread is about to RLock or Lock is not
    held by that thread itself.  (The model's enabledness test looks at the OTHER threads only,
    so this is what makes it the enabledness of sync.RWMutex.) *)
Lemma no_self_lock th lk : wf_thread th ->
  next_act th = ARLock lk \/ next_act th = ALock lk ->
  holdsW lk th = false /\ holdsR lk th = false.
Proof.
  intros W H. destruct th as [q st|q r|q r]; try (split; reflexivity).
  destruct st as [|[lv ph] rest]; try contradiction. destruct W as [_ C].
  unfold next_act, top in H. cbn [stack_of act_of] in H.
  assert (E : lock_of lv = lk /\ phaseW ph = false /\ phaseR ph = false).
  { destruct ph; destruct H as [H|H]; try discriminate; inversion H; auto. }
  destruct E as (<- & E1 & E2).
  rewrite holdsW_cons, holdsR_cons. cbn [fst snd]. rewrite E1, E2, !andb_false_r. cbn [orb].
  split; apply not_true_false; intros X; apply existsb_exists in X as (f & Hin & Hf);
    apply andb_true_iff in Hf as [Hf _]; apply Nat.eqb_eq in Hf;
    destruct (chain_wf_above _ _ C f Hin); lia.
Qed.

(** The step function agrees with [next_act]. *)
Lemma tstep_total fl c fs p q lv ph rest : ph <> PCall ->
  exists p' th', tstep fl c fs p (TRun q ((lv, ph) :: rest)) = Some (p', th', act_of lv ph).
Proof.
  intros Hc. cbn [tstep]. destruct ph as [| | |[i|]| | | |sb|r]; try congruence; cbn [act_of]; eauto.
  - destruct (cache_read fl lv p); eauto.
  - destruct (cache_read fl lv p); [eauto|destruct lv; eauto].
  - destruct (build fl c fs lv sb p). eauto.
Qed.

Lemma tstep_act fl c fs p th p' th' a :
  tstep fl c fs p th = Some (p', th', a) -> a = next_act th.
Proof.
  intros H. destruct th as [q st|q r|q r]; simpl in H; try discriminate.
  - destruct st as [|[lv ph] rest]; try discriminate. unfold next_act, top. cbn [stack_of].
    destruct ph as [| | |[i|]| | | |sb|r]; try discriminate; cbn [act_of];
      try (inversion H; reflexivity).
    + destruct (cache_read fl lv p); inversion H; reflexivity.
    + destruct (cache_read fl lv p); [|destruct lv]; inversion H; reflexivity.
    + destruct (build fl c fs lv sb p). inversion H; reflexivity.
  - destruct (handout fl c (p, r)). inversion H. reflexivity.
Qed.

(** ** Enabledness *)

Lemma others_ok_false chk : forall l t, others_ok chk t l = false ->
  exists j th, j <> t /\ nth_error l j = Some th /\ chk th = false.
Proof.
  induction l as [|x l IH]; intros t H; [destruct t; discriminate|].
  destruct t as [|t]; simpl in H.
  - assert (E : exists y, In y l /\ chk y = false).
    { clear -H. induction l as [|y l IH]; simpl in H; try discriminate.
      destruct (chk y) eqn:Ey; simpl in H.
      - destruct (IH H) as (z & A & B). exists z. split; [right|]; auto.
      - exists y. split; [left|]; auto. }
    destruct E as (y & Hin & Hy). apply In_nth_error in Hin as [j Hj].
    exists (S j), y. repeat split; auto.
  - destruct (chk x) eqn:Ex; simpl in H.
    + destruct (IH t H) as (j & th & A & B & C). exists (S j), th. repeat split; auto.
    + exists 0, x. repeat split; auto.
Qed.

Lemma pend_ok_false pend lk t : forall l i, pend_ok pend lk t i l = false ->
  exists j th, i + j <> t /\ nth_error l j = Some th /\ wantsW lk th = true.
Proof.
  induction l as [|x l IH]; intros i H; simpl in H; try discriminate.
  apply andb_false_iff in H as [H|H].
  - apply orb_false_iff in H as [H1 H2]. apply Nat.eqb_neq in H1.
    apply negb_false_iff in H2. apply andb_true_iff in H2 as [_ H2].
    exists 0, x. repeat split; auto. lia.
  - destruct (IH _ H) as (j & th & A & B & C). exists (S j), th. repeat split; auto. lia.
Qed.

Lemma pend_ok_none lk t : forall l i, pend_ok (fun _ => false) lk t i l = true.
Proof. induction l as [|x l IH]; intros i; simpl; auto. rewrite IH, orb_true_r. reflexivity. Qed.

Lemma cstep_wp_none fl c fs s t : cstep_wp (fun _ => false) fl c fs s t = cstep fl c fs s t.
Proof.
  unfold cstep_wp, cstep. destruct (nth_error (cthr s) t); auto.
  destruct (tstep fl c fs (cp s) t0) as [[[p' th'] [|lk|lk]]|]; auto.
  rewrite pend_ok_none, andb_true_r. reflexivity.
Qed.

(** A step under writer preference is a step of the plain semantics, with the same result. *)
Lemma cstep_wp_cstep pend fl c fs s t s' :
  cstep_wp pend fl c fs s t = Some s' -> cstep fl c fs s t = Some s'.
Proof.
  unfold cstep_wp, cstep. destruct (nth_error (cthr s) t); auto.
  destruct (tstep fl c fs (cp s) t0) as [[[p' th'] [|lk|lk]]|]; auto.
  destruct (others_ok (fun o => negb (holdsW lk o)) t (cthr s)); simpl; auto.
  destruct (pend_ok pend lk t 0 (cthr s)); auto. discriminate.
Qed.

(** a thread whose next step needs no lock is enabled *)
Lemma free_enabled pend fl c fs s t q lv ph rest :
  nth_error (cthr s) t = Some (TRun q ((lv, ph) :: rest)) -> ph <> PCall -> act_of lv ph = ANone ->
  exists s', cstep_wp pend fl c fs s t = Some s'.
Proof.
  intros Ht Hc Ha. destruct (tstep_total fl c fs (cp s) q lv ph rest Hc) as (p' & th' & Hs).
  unfold cstep_wp. rewrite Ht, Hs, Ha. eauto.
Qed.

Section Progress.
  Variables (pend : nat -> bool) (fl : flavour) (c : bool) (fs : tfs) (s : cstate).
  Hypothesis W : WF s.

  Definition can_step : Prop := exists t s', cstep_wp pend fl c fs s t = Some s'.

  (** If threads working on mutexes below [n] guarantee progress, then so does a holder of a
      mutex up to [n]: it is either in its critical section (its next step needs no lock) or it
      works on a smaller mutex. *)
  Lemma holder_progress n :
    (forall t q lv ph rest, nth_error (cthr s) t = Some (TRun q ((lv, ph) :: rest)) -> lock_of lv < n -> can_step) ->
    forall j thj k, nth_error (cthr s) j = Some thj -> k <= n ->
      holdsW k thj = true \/ holdsR k thj = true -> can_step.
  Proof.
    intros IH j thj k Hj Hk Hh.
    destruct (holder_cases thj k (W _ _ Hj) Hh) as (q & lv & ph & rest & -> & [[E Hp]|Hlt]).
    - destruct (W _ _ Hj) as [Hc _].
      assert (Ha : act_of lv ph = ANone) by (destruct ph; try reflexivity; discriminate Hp).
      destruct (free_enabled pend fl c fs s j q lv ph rest Hj Hc Ha) as [s' Hs']. exists j, s'. exact Hs'.
    - apply (IH j q lv ph rest Hj). lia.
  Qed.

  Lemma progress_lt : forall n t q lv ph rest,
    nth_error (cthr s) t = Some (TRun q ((lv, ph) :: rest)) -> lock_of lv < n -> can_step.
  Proof.
    induction n as [|n IH]; intros t q lv ph rest Ht Hn; [lia|].
    assert (Hk : lock_of lv <= n) by lia.
    pose proof (holder_progress n IH) as HP.
    (* a thread about to Lock: blocked only by a holder *)
    assert (HL : forall t q lv rest, nth_error (cthr s) t = Some (TRun q ((lv, PLock) :: rest)) ->
                                      lock_of lv <= n -> can_step).
    { clear t q lv ph rest Ht Hn Hk. intros t q lv rest Ht Hk.
      destruct (tstep_total fl c fs (cp s) q lv PLock rest ltac:(discriminate)) as (p' & th' & Hs).
      cbn [act_of] in Hs.
      destruct (others_ok (fun o => negb (holdsW (lock_of lv) o) && negb (holdsR (lock_of lv) o)) t (cthr s)) eqn:En.
      - exists t. unfold cstep_wp. rewrite Ht, Hs, En. eauto.
      - apply others_ok_false in En as (j & thj & Hne & Hj & Hchk).
        apply (HP j thj (lock_of lv) Hj Hk).
        apply andb_false_iff in Hchk as [X|X]; apply negb_false_iff in X; auto. }
    destruct (W _ _ Ht) as [Hc _].
    destruct ph as [| | |hit| | | |sb|r]; try congruence;
      try (destruct (free_enabled pend fl c fs s t q lv _ rest Ht Hc eq_refl) as [s' Hs']; exists t, s'; exact Hs').
    - (* RLock: blocked by a writer holding the mutex, or by a pending writer *)
      destruct (tstep_total fl c fs (cp s) q lv PRLock rest Hc) as (p' & th' & Hs). cbn [act_of] in Hs.
      destruct (others_ok (fun o => negb (holdsW (lock_of lv) o)) t (cthr s)) eqn:En.
      + destruct (pend_ok pend (lock_of lv) t 0 (cthr s)) eqn:Ep.
        * exists t. unfold cstep_wp. rewrite Ht, Hs, En, Ep. cbn [andb]. eauto.
        * apply pend_ok_false in Ep as (j & thj & _ & Hj & Hw).
          unfold wantsW, top in Hw. destruct thj as [q' [|[lv' ph'] rest']|q' r'|q' r']; try discriminate.
          cbn [stack_of] in Hw. destruct ph'; try discriminate. apply Nat.eqb_eq in Hw.
          apply (HL j q' lv' rest' Hj). lia.
      + apply others_ok_false in En as (j & thj & Hne & Hj & Hchk).
        apply negb_false_iff in Hchk. apply (HP j thj (lock_of lv) Hj Hk). auto.
    - apply (HL t q lv rest Ht Hk).
  Qed.

  Lemma forallb_false_nth {A} (f : A -> bool) : forall l, forallb f l = false ->
    exists j x, nth_error l j = Some x /\ f x = false.
  Proof.
    induction l as [|x l IH]; simpl; try discriminate. intros H.
    destruct (f x) eqn:E; simpl in H.
    - destruct (IH H) as (j & y & A1 & A2). exists (S j), y. auto.
    - exists 0, x. auto.
  Qed.

  (** Progress: a state in which not every thread has returned has an enabled step. *)
  Lemma progress : all_done s = false -> can_step.
  Proof.
    intros H. apply forallb_false_nth in H as (t & th & Ht & Hth).
    destruct th as [q st|q r|q r]; try discriminate.
    - destruct st as [|[lv ph] rest].
      + exact (False_ind _ (W _ _ Ht)).
      + apply (progress_lt (S (lock_of lv)) t q lv ph rest Ht). lia.
    - exists t. unfold cstep_wp. rewrite Ht. cbn [tstep]. destruct (handout fl c (cp s, r)). eauto.
  Qed.

  Lemma no_deadlock_wf : (forall t, cstep_wp pend fl c fs s t = None) -> all_done s = true.
  Proof.
    intros H. destruct (all_done s) eqn:E; auto.
    destruct (progress E) as (t & s' & Hs). rewrite H in Hs. discriminate.
  Qed.
End Progress.

Theorem no_deadlock_wp pend fl c fs qs sched :
  (forall t, cstep_wp pend fl c fs (crun fl c fs sched (cinit fl qs)) t = None) ->
  all_done (crun fl c fs sched (cinit fl qs)) = true.
Proof. apply no_deadlock_wf. apply WF_reach. Qed.

Theorem no_deadlock fl c fs qs sched :
  (forall t, cstep fl c fs (crun fl c fs sched (cinit fl qs)) t = None) ->
  all_done (crun fl c fs sched (cinit fl qs)) = true.
Proof.
  intros H. apply (no_deadlock_wp (fun _ => false)). intros t. rewrite cstep_wp_none. apply H.
Qed.

Theorem no_upgrade fl c fs qs sched t th lk :
  nth_error (cthr (crun fl c fs sched (cinit fl qs))) t = Some th ->
  next_act th = ARLock lk \/ next_act th = ALock lk ->
  holdsW lk th = false /\ holdsR lk th = false.
Proof. intros Ht. apply no_self_lock. eapply WF_reach; eauto. Qed.

(** ** Termination: every step decreases the measure *)

Lemma ret_msr q r rest : thread_msr (ret q r rest) <= S (stack_msr rest).
Proof.
  unfold ret. destruct rest as [|[lv' ph'] rest'].
  - destruct q; simpl; lia.
  - destruct ph'; simpl; try lia. destruct r; simpl; unfold frame_msr; simpl; lia.
Qed.

Lemma start_msr fl n : phase_msr n (start fl) <= 7 + 7 * n.
Proof. unfold start. destruct (locked_fast fl); simpl; lia. Qed.

Lemma tstep_msr fl c fs p th p' th' a :
  tstep fl c fs p th = Some (p', th', a) -> thread_msr th' < thread_msr th.
Proof.
  intros H. destruct th as [q st|q r|q r]; simpl in H; try discriminate.
  - destruct st as [|[lv ph] rest]; try discriminate.
    pose proof (ret_msr q) as R.
    cbn [thread_msr stack_msr]. unfold frame_msr at 1. cbn [fst snd].
    destruct ph as [| | |hit| | | |sb|r]; try discriminate.
    + inversion H; subst. simpl. lia.
    + inversion H; subst. simpl. lia.
    + destruct (cache_read fl lv p); inversion H; subst.
      * specialize (R (Ok n) rest). simpl. lia.
      * simpl. lia.
    + destruct hit; inversion H; subst.
      * specialize (R (Ok n) rest). simpl. lia.
      * simpl. lia.
    + inversion H; subst. simpl. lia.
    + destruct (cache_read fl lv p).
      * inversion H; subst. simpl. lia.
      * destruct lv; inversion H; subst; cbn [thread_msr stack_msr]; unfold frame_msr; cbn [fst snd lock_of].
        -- simpl. lia.
        -- pose proof (start_msr fl 0). simpl in *. lia.
        -- pose proof (start_msr fl 1). simpl in *. lia.
    + destruct (build fl c fs lv sb p). inversion H; subst. simpl. lia.
    + inversion H; subst. specialize (R r rest). simpl. lia.
  - destruct (handout fl c (p, r)). inversion H; subst. simpl. lia.
Qed.

Lemma total_set_nth : forall l t a x,
  nth_error l t = Some x -> thread_msr a < thread_msr x -> total_msr (set_nth t a l) < total_msr l.
Proof.
  induction l as [|y l IH]; intros [|t] a x H Hlt; simpl in *; try discriminate.
  - inversion H; subst. lia.
  - specialize (IH t a x H Hlt). lia.
Qed.

Lemma cstep_msr fl c fs s t s' :
  cstep fl c fs s t = Some s' -> total_msr (cthr s') < total_msr (cthr s).
Proof.
  intros H. unfold cstep in H.
  destruct (nth_error (cthr s) t) as [th|] eqn:Ht; try discriminate.
  destruct (tstep fl c fs (cp s) th) as [[[p' th'] a]|] eqn:Hs; try discriminate.
  match type of H with (if ?e then _ else _) = _ => destruct e eqn:En end; try discriminate.
  inversion H; subst; clear H. simpl. eapply total_set_nth; eauto. eapply tstep_msr; eauto.
Qed.

Lemma thread_init_msr fl q : thread_msr (thread_init fl q) <= 22.
Proof.
  destruct q as [|l|l [|x v]]; simpl; unfold frame_msr; simpl.
  - pose proof (start_msr fl 0). simpl in *. lia.
  - pose proof (start_msr fl 1). simpl in *. lia.
  - lia.
  - pose proof (start_msr fl 2). simpl in *. lia.
Qed.

Lemma cinit_msr fl qs : total_msr (cthr (cinit fl qs)) <= 22 * length qs.
Proof.
  simpl. induction qs as [|q qs IH]; simpl; [lia|].
  pose proof (thread_init_msr fl q). lia.
Qed.

(** Steps taken plus what is left never exceeds what was left at the beginning. *)
Lemma csteps_msr fl c fs : forall sched s,
  csteps fl c fs sched s + total_msr (cthr (crun fl c fs sched s)) <= total_msr (cthr s).
Proof.
  induction sched as [|t sched IH]; intros s; simpl; [lia|].
  unfold crun_step. destruct (cstep fl c fs s t) as [s'|] eqn:E.
  - specialize (IH s'). apply cstep_msr in E. fold (crun fl c fs sched s'). lia.
  - apply IH.
Qed.

Theorem bounded_steps fl c fs qs sched :
  csteps fl c fs sched (cinit fl qs) <= 22 * length qs.
Proof.
  pose proof (csteps_msr fl c fs sched (cinit fl qs)). pose proof (cinit_msr fl qs). lia.
Qed.

(** ** Every reachable state can be driven to the end *)

Lemma finish_from pend fl c fs : forall m s, WF s -> total_msr (cthr s) <= m ->
  exists sched', all_done (crun fl c fs sched' s) = true /\
                 crun_wp pend fl c fs sched' s = crun fl c fs sched' s.
Proof.
  induction m as [|m IH]; intros s W Hm.
  - destruct (all_done s) eqn:E.
    + exists []. split; [exact E|reflexivity].
    + destruct (progress pend fl c fs s W E) as (t & s' & Hs).
      apply cstep_wp_cstep in Hs. apply cstep_msr in Hs. lia.
  - destruct (all_done s) eqn:E.
    + exists []. split; [exact E|reflexivity].
    + destruct (progress pend fl c fs s W E) as (t & s' & Hs).
      pose proof (cstep_wp_cstep _ _ _ _ _ _ _ Hs) as Hs2.
      assert (W' : WF s') by (eapply cstep_WF; eauto).
      destruct (IH s' W') as (sched' & A & B). { apply cstep_msr in Hs2. lia. }
      exists (t :: sched'). simpl. unfold crun_step, crun_wp_step. rewrite Hs, Hs2.
      split; [exact A|exact B].
Qed.

Lemma crun_app fl c fs a b s : crun fl c fs (a ++ b) s = crun fl c fs b (crun fl c fs a s).
Proof. unfold crun. apply fold_left_app. Qed.

(** The continuation consists of steps that are enabled even under writer preference with the
    pending writers [pend]. *)
Theorem can_finish_wp pend fl c fs qs sched :
  exists sched',
    all_done (crun fl c fs (sched ++ sched') (cinit fl qs)) = true /\
    crun_wp pend fl c fs sched' (crun fl c fs sched (cinit fl qs)) = crun fl c fs (sched ++ sched') (cinit fl qs).
Proof.
  destruct (finish_from pend fl c fs _ (crun fl c fs sched (cinit fl qs)) (WF_reach fl c fs qs sched) (le_n _))
    as (sched' & A & B).
  exists sched'. rewrite crun_app. split; assumption.
Qed.

Lemma all_done_nth s t th : all_done s = true -> nth_error (cthr s) t = Some th ->
  exists q r, th = TDone q r.
Proof.
  intros H Ht. unfold all_done in H. rewrite forallb_forall in H.
  specialize (H th (nth_error_In _ _ Ht)). destruct th; try discriminate. eauto.
Qed.

Theorem can_finish fl c fs qs sched :
  exists sched', let s := crun fl c fs (sched ++ sched') (cinit fl qs) in
    all_done s = true /\
    (inj_key fl = true -> forall t q, nth_error qs t = Some q ->
       exists r, nth_error (cthr s) t = Some (TDone q r) /\ obs_of (cp s) r = creq_spec fs q).
Proof.
  destruct (can_finish_wp (fun _ => false) fl c fs qs sched) as (sched' & A & _).
  exists sched'. cbv zeta. split; [exact A|]. intros Hk t q Hq.
  pose proof (conc_reqs fl c fs qs (sched ++ sched')) as R.
  assert (Ht : exists th, nth_error (cthr (crun fl c fs (sched ++ sched') (cinit fl qs))) t = Some th).
  { destruct (nth_error (cthr (crun fl c fs (sched ++ sched') (cinit fl qs))) t) as [th|] eqn:E; eauto.
    rewrite <- R, nth_error_map, E in Hq. discriminate. }
  destruct Ht as [th Ht]. destruct (all_done_nth _ _ _ A Ht) as (q' & r & ->).
  destruct (conc_answers_full fl c fs qs (sched ++ sched') t q' r Hk Ht) as [Hq' Ho].
  assert (q' = q) by congruence. subst q'. exists r. split; assumption.
Qed.
