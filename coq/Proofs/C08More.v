(** C08More.v - lemmas added by the proof audit of C08 (Props/C08.v, third part).
    Model: Model/Loop.v and Model/LoopLive.v, unchanged.

    A. history accounting: callbacks begun = callbacks returned + callbacks in flight, in every
       reachable state; after Wait returned every callback begun has returned and neither list
       changes any more;
    B. the error list is exact: every entry is a failure that happened; a kill without a Kill event
       of the environment leaves an entry; so an EMPTY error list after Wait (no Kill event)
       means that the callbacks made AND returned are exactly the selected nodes;
    C. a declarative description of the selected set (an inductive relation) equivalent to the
       executable [sel_list] that the correspondence check evaluates;
    D. termination under every weakly fair INFINITE schedule [f : nat -> tid]. *)
From GC Require Import Common.Base Model.Loop Model.LoopLive Proofs.Loop Proofs.LoopLive.
From Coq Require Import Permutation Lia Arith.
Close Scope N_scope.
Open Scope nat_scope.

Ltac brk8 H :=
  repeat match type of H with
         | context [match ?x with _ => _ end] => destruct x eqn:?; try discriminate H
         end.
Ltac inv8 H := inversion H; subst; clear H.

(** ---------- A. callbacks begun, returned, in flight *)

Definition cfl (c : cstate) : list item := match c with CRun it => [it] | _ => [] end.
Definition flight (s : state) : list item := flat_map cfl (cons s).

Lemma flight_length s : length (flight s) = running s.
Proof.
  unfold flight, running. induction (cons s) as [|c l IH]; cbn; auto.
  rewrite app_length, IH. destruct c; reflexivity.
Qed.

Lemma flight_exited s : all_exited s = true -> flight s = [].
Proof.
  unfold flight, all_exited. induction (cons s) as [|c l IH]; cbn; auto.
  intros H. apply andb_true_iff in H as [A B]. rewrite (IH B). destruct c; try discriminate; reflexivity.
Qed.

Section More.
  Variable cfg : config.

  (** what a producer step can change of the histories *)
  Lemma pstep_hist i p s s' : pstep cfg i p s = Some s' ->
    cons s' = cons s /\ log s' = log s /\ ended s' = ended s /\
    ((errs s' = errs s /\ lfail s' = lfail s /\ killed s' = killed s) \/
     (exists q, rderr cfg q = true /\ errs s' = ELs q :: errs s /\ lfail s' = q :: lfail s /\ killed s' = true)).
  Proof.
    intros H. unfold pstep in H. brk8 H; inv8 H;
      try match goal with
          | Hs : send_f _ _ _ = Some _ |- _ => apply send_f_inv in Hs; destruct Hs as [[_ ->]|(_ & _ & ->)]
          | Hs : send_d _ _ _ = Some _ |- _ => apply send_d_inv in Hs; destruct Hs as [[_ ->]|(_ & _ & ->)]
          end; cbn; repeat split; auto; right; eexists; repeat split; eauto.
  Qed.

  Record InvH (s : state) : Prop := {
    h_flight : forall x, cnt x (log s) = cnt x (ended s) + cnt x (flight s);
    h_ecb : forall it, In (ECb it) (errs s) -> cberr cfg it = true /\ In it (ended s);
    h_cerr : forall it, In (CErr it) (cons s) -> cberr cfg it = true /\ In it (ended s);
    h_els : forall p, In (ELs p) (errs s) -> rderr cfg p = true /\ In p (lfail s)
  }.

  Lemma flight_repeat n : flat_map cfl (repeat C1 n) = [].
  Proof. induction n; cbn; auto. Qed.

  Lemma InvH_init base root : InvH (init cfg base root).
  Proof.
    split; cbn; try contradiction.
    - intros x. unfold flight. cbn. rewrite flight_repeat. reflexivity.
    - intros it H. apply repeat_spec in H. discriminate.
  Qed.

  Lemma InvH_ext s s' :
    cons s' = cons s -> log s' = log s -> ended s' = ended s -> errs s' = errs s -> lfail s' = lfail s ->
    InvH s -> InvH s'.
  Proof.
    intros E1 E2 E3 E4 E5 [A B C D]. split; unfold flight; rewrite ?E1, ?E2, ?E3, ?E4, ?E5; auto.
  Qed.

  Lemma InvH_step t s s' : InvH s -> step cfg t s = Some s' -> InvH s'.
  Proof.
    intros I H. destruct t as [i|i| | |]; cbn [step] in H.
    - destruct (nth_error (prods s) i) as [p|] eqn:E; [|discriminate].
      destruct (pstep_hist _ _ _ _ H) as (E1 & E2 & E3 & [(E4 & E5 & _)|(q & Rq & E4 & E5 & _)]).
      + revert I. apply InvH_ext; auto.
      + destruct I as [A B C D]. split; unfold flight; rewrite ?E1, ?E2, ?E3, ?E4, ?E5; auto.
        * intros it [Q|Q]; [discriminate|auto].
        * intros p0 [Q|Q]; [inv8 Q; split; cbn; auto|]. destruct (D _ Q). split; cbn; auto.
    - destruct (nth_error (cons s) i) as [c|] eqn:E; [|discriminate].
      destruct I as [A B C D].
      assert (FL : forall c' x, cnt x (flat_map cfl (upd i c' (cons s))) + cnt x (cfl c)
                                = cnt x (flat_map cfl (cons s)) + cnt x (cfl c')).
      { intros c' x. apply cnt_flat_upd. exact E. }
      assert (CU : forall c' it, In (CErr it) (upd i c' (cons s)) -> CErr it = c' \/ In (CErr it) (cons s)).
      { intros c' it. apply In_upd. }
      unfold cstep in H. brk8 H; inv8 H; split; unfold flight in *;
        cbn [cons log ended errs lfail setc set_cons set_log set_dq set_fq set_ended raise set_killed set_errs set_ccount];
        auto;
        try (intros x; specialize (A x);
             match goal with |- context [flat_map cfl (upd i ?c' (cons s))] => pose proof (FL c' x) as FLx end;
             unfold after in *;
             repeat match goal with Hq : context [cfl (match ?b with _ => _ end)] |- _ => destruct b end;
             cbn [cfl] in *; autorewrite with cnt in *; lia).
      all: try (intros it0 Q; apply CU in Q as [Q|Q]; [|auto]; unfold after in Q;
                repeat match type of Q with context [match ?b with _ => _ end] => destruct b end;
                try discriminate Q).
      all: try (pose proof (nth_error_In _ _ E) as InE).
      all: try (intros it0 [Q|Q]; [inv8 Q; apply C; exact InE | apply B; exact Q]).
      all: try (intros p0 [Q|Q]; [discriminate Q | apply D; exact Q]).
      all: try (intros it0 Q; destruct (B _ Q); split; cbn; auto; fail).
      all: try (inv8 Q; split; cbn; auto; fail).
      all: try (destruct (C _ Q); split; cbn; auto; fail).
    - unfold kstep in H. brk8 H; inv8 H; revert I; apply InvH_ext; reflexivity.
    - brk8 H; inv8 H; revert I; apply InvH_ext; reflexivity.
    - inv8 H; revert I; apply InvH_ext; reflexivity.
  Qed.

  Lemma InvH_run base root sched : InvH (run cfg sched (init cfg base root)).
  Proof. apply run_inv; [intros t s s'; apply InvH_step | apply InvH_init]. Qed.

  (** ---------- a kill has a reason: an entry of the error list, or a Kill event *)

  Lemma cstep_kill i c s s' : cstep cfg i c s = Some s' ->
    (killed s' = killed s /\ errs s' = errs s) \/ (exists e, errs s' = e :: errs s).
  Proof.
    intros H. unfold cstep in H. brk8 H; inv8 H; cbn; auto; right; eexists; reflexivity.
  Qed.

  Definition kreason (s : state) : Prop := killed s = true -> errs s <> [].

  Lemma kreason_step t s s' : t <> TX -> kreason s -> step cfg t s = Some s' -> kreason s'.
  Proof.
    unfold kreason. intros NX K H. destruct t as [i|i| | |]; cbn [step] in H; [| | | |congruence].
    - destruct (nth_error (prods s) i) as [p|] eqn:E; [|discriminate].
      destruct (pstep_hist _ _ _ _ H) as (_ & _ & _ & [(E4 & _ & E6)|(q & _ & E4 & _)]); rewrite E4.
      + rewrite E6. exact K.
      + discriminate.
    - destruct (nth_error (cons s) i) as [c|] eqn:E; [|discriminate].
      destruct (cstep_kill _ _ _ _ H) as [[E1 E2]|[e E2]]; rewrite E2; [rewrite E1; exact K|discriminate].
    - unfold kstep in H. brk8 H; inv8 H; exact K.
    - brk8 H; inv8 H; exact K.
  Qed.

  Lemma kreason_run sched : ~ In TX sched -> forall s, kreason s -> kreason (run cfg sched s).
  Proof.
    induction sched as [|t a IH]; intros NX s K; [exact K|]. rewrite run_cons. apply IH.
    - intros Q. apply NX. right. exact Q.
    - unfold exec. destruct (step cfg t s) as [s1|] eqn:H; auto.
      eapply kreason_step; eauto. intros ->. apply NX. left. reflexivity.
  Qed.

  (** ---------- once every consumer has exited the callback histories are final *)

  Lemma frozen_step t s s' : all_exited s = true -> step cfg t s = Some s' ->
    log s' = log s /\ ended s' = ended s /\ all_exited s' = true.
  Proof.
    intros AE H. destruct t as [i|i| | |]; cbn [step] in H.
    - destruct (nth_error (prods s) i) as [p|] eqn:E; [|discriminate].
      destruct (pstep_hist _ _ _ _ H) as (E1 & E2 & E3 & _). unfold all_exited. rewrite E1. auto.
    - destruct (nth_error (cons s) i) as [c|] eqn:E; [|discriminate]. exfalso.
      unfold all_exited in AE. rewrite forallb_forall in AE.
      pose proof (AE c (nth_error_In _ _ E)) as Q. destruct c; discriminate.
    - unfold kstep in H. brk8 H; inv8 H; auto.
    - brk8 H; inv8 H; auto.
    - inv8 H; auto.
  Qed.

  Lemma frozen_run sched : forall s, all_exited s = true ->
    log (run cfg sched s) = log s /\ ended (run cfg sched s) = ended s /\ all_exited (run cfg sched s) = true.
  Proof.
    induction sched as [|t a IH]; intros s AE; [auto|]. rewrite run_cons. unfold exec.
    destruct (step cfg t s) as [s1|] eqn:H; [|apply IH; exact AE].
    destruct (frozen_step _ _ _ AE H) as (E1 & E2 & AE1). destruct (IH s1 AE1) as (F1 & F2 & F3).
    rewrite F1, F2, E1, E2. auto.
  Qed.
End More.

(** ---------- statements in the form used by Props/C08.v *)

Lemma wait_last_full cfg base root sched :
  let s := run cfg sched (init cfg base root) in
  Permutation (log s) (ended s ++ flight s) /\ length (flight s) = running s /\
  (waited s = true ->
   flight s = [] /\ Permutation (log s) (ended s) /\
   forall sched', let s' := run cfg sched' s in
                  log s' = log s /\ ended s' = ended s /\ running s' = 0).
Proof.
  intros s. pose proof (InvH_run cfg base root sched) as [A _ _ _]. fold s in A.
  assert (P : Permutation (log s) (ended s ++ flight s)).
  { apply perm_cnt. intros x. rewrite cnt_app. apply A. }
  split; [exact P|]. split; [apply flight_length|]. intros W.
  destruct (wait_safe cfg base root sched) as (_ & Q). destruct (Q W) as [_ AE]. fold s in AE.
  pose proof (flight_exited s AE) as F. split; [exact F|]. split.
  - rewrite F, app_nil_r in P. exact P.
  - intros sched' s'. destruct (frozen_run cfg sched' s AE) as (E1 & E2 & E3). repeat split; auto.
    rewrite <- flight_length. unfold s'. rewrite (flight_exited _ E3). reflexivity.
Qed.

Lemma errors_exact_full cfg base root sched :
  let s := run cfg sched (init cfg base root) in
  (forall it, In (ECb it) (errs s) -> cberr cfg it = true /\ In it (ended s)) /\
  (forall p, In (ELs p) (errs s) -> rderr cfg p = true /\ In p (lfail s)) /\
  ((forall it, In it (ended s) -> cberr cfg it = false) -> lfail s = [] -> errs s = []) /\
  (all_exited s = true -> forall it, In it (log s) -> cberr cfg it = true -> In (ECb it) (errs s)) /\
  (~ In TX sched -> killed s = true -> errs s <> []).
Proof.
  intros s. pose proof (InvH_run cfg base root sched) as [A B _ D]. fold s in A, B, D.
  split; [exact B|]. split; [exact D|]. split; [|split].
  - intros NC NL. destruct (errs s) as [|[p|it] l] eqn:E; auto; exfalso.
    + destruct (D p) as [_ Q]; [left; reflexivity|]. rewrite NL in Q. exact Q.
    + destruct (B it) as [Q1 Q2]; [left; reflexivity|]. rewrite (NC it Q2) in Q1. discriminate.
  - intros AE it Hi CB. apply (errors_exited cfg base root sched AE it); auto.
    assert (P : Permutation (log s) (ended s)).
    { apply perm_cnt. intros x. rewrite (A x), (flight_exited s AE), cnt_nil. lia. }
    eapply Permutation_in; eauto.
  - intros NX. apply (kreason_run cfg sched NX). intros K. discriminate.
Qed.

(** What the caller gets from Loop.Errors() (lifecycle.go: the recorded errors, oldest first,
    followed by ctx.Err() when the context is cancelled or past its deadline). *)
Inductive rep := RErr (e : err) | RCancel.
Definition reported (s : state) : list rep :=
  map RErr (rev (errs s)) ++ (if killed s then [RCancel] else []).

Lemma reported_nil cfg base root sched :
  let s := run cfg sched (init cfg base root) in
  reported s = [] <-> killed s = false.
Proof.
  intros s. unfold reported. split.
  - intros H. apply app_eq_nil in H as [_ H]. destruct (killed s); [discriminate|reflexivity].
  - intros K. rewrite K. pose proof (iE _ _ _ (Inv_run cfg base root sched)) as [EK _ _]. fold s in EK.
    rewrite (EK K). reflexivity.
Qed.

Lemma no_error_exact_full cfg base root sched :
  xt cfg = ClosedThenEmpty -> 1 <= cmax cfg ->
  let s := run cfg sched (init cfg base root) in
  (waited s = true \/ all_exited s = true) ->
  (reported s = [] \/ (~ In TX sched /\ errs s = [])) ->
  killed s = false /\
  Permutation (log s) (sel_list cfg base root) /\ Permutation (ended s) (sel_list cfg base root) /\
  dq s = [] /\ fq s = [].
Proof.
  intros X C1 s WA EE.
  assert (AE : all_exited s = true).
  { destruct WA as [W|AE]; auto. destruct (wait_safe cfg base root sched) as (_ & Q). apply (Q W). }
  assert (K : killed s = false).
  { destruct EE as [EE|[NX EE]]; [apply (reported_nil cfg base root sched); exact EE|].
    destruct (killed s) eqn:K; auto. exfalso.
    destruct (errors_exact_full cfg base root sched) as (_ & _ & _ & _ & Q). apply (Q NX K). exact EE. }
  destruct (exactly_once cfg base root sched X C1 AE K) as (P & DQ & FQ & _). fold s in P, DQ, FQ.
  repeat split; auto.
  pose proof (InvH_run cfg base root sched) as [A _ _ _]. fold s in A.
  rewrite <- P. apply Permutation_sym. apply perm_cnt. intros x. rewrite (A x), (flight_exited s AE), cnt_nil. lia.
Qed.

(** ---------- C. the selected set, declaratively

    [Selected cfg base l it]: [it] is a file of the listing [l] (of the directory whose path
    prefix is [base]) with OnFile present and accepted by the file filter; or a directory of [l]
    accepted by the directory filter (no filter accepts all) with OnDir present; or selected below
    an ACCEPTED directory of [l].  Nothing below a rejected directory is selected. *)
Inductive Selected (cfg : config) : path -> list tree -> item -> Prop :=
| Sel_file base l n :
    In (File n) l -> on_file cfg = true -> ffilter cfg (base ++ n) = true ->
    Selected cfg base l (IFile (base ++ n))
| Sel_dir base l n ch :
    In (Dir n ch) l -> (has_dfilter cfg = false \/ dfilter cfg (base ++ n) = true) -> on_dir cfg = true ->
    Selected cfg base l (IDir (base ++ n))
| Sel_below base l n ch it :
    In (Dir n ch) l -> (has_dfilter cfg = false \/ dfilter cfg (base ++ n) = true) ->
    Selected cfg ((base ++ n) ++ [SLASH]) ch it ->
    Selected cfg base l it.

Lemma daccept_iff cfg p : daccept cfg p = true <-> (has_dfilter cfg = false \/ dfilter cfg p = true).
Proof.
  unfold daccept. destruct (has_dfilter cfg), (dfilter cfg p); cbn; split; auto; intros [Q|Q]; auto; discriminate.
Qed.

Lemma sel_selected cfg t : forall base it l, In t l -> In it (sel cfg base t) -> Selected cfg base l it.
Proof.
  induction t as [n|n ch IH] using tree_ind'; intros base it l Hl H.
  - rewrite sel_file in H. destruct (faccept cfg (base ++ n)) eqn:F; [|contradiction].
    destruct H as [<-|[]]. unfold faccept in F. apply andb_true_iff in F as [F1 F2].
    apply Sel_file; auto.
  - rewrite sel_dir in H. destruct (daccept cfg (base ++ n)) eqn:D; [|contradiction].
    apply daccept_iff in D. apply in_app_or in H as [H|H].
    + destruct (on_dir cfg) eqn:O; [|contradiction]. destruct H as [<-|[]]. eapply Sel_dir; eauto.
    + apply sel_list_in in H as (t & Ht & Hi). rewrite Forall_forall in IH.
      eapply Sel_below; eauto.
Qed.

Lemma selected_iff cfg base l it : In it (sel_list cfg base l) <-> Selected cfg base l it.
Proof.
  split.
  - intros H. apply sel_list_in in H as (t & Ht & Hi). eapply sel_selected; eauto.
  - induction 1 as [base l n Hl O F|base l n ch Hl D O|base l n ch it Hl D _ IH];
      unfold sel_list; apply in_flat_map.
    + exists (File n). split; auto. rewrite sel_file. unfold faccept. rewrite O, F. left; reflexivity.
    + exists (Dir n ch). split; auto. rewrite sel_dir. apply daccept_iff in D. rewrite D, O. left; reflexivity.
    + exists (Dir n ch). split; auto. rewrite sel_dir. apply daccept_iff in D. rewrite D.
      apply in_or_app. right. exact IH.
Qed.

(** ---------- D. termination under weak fairness, infinite schedules *)

Definition pre (f : nat -> tid) (n : nat) : list tid := map f (seq 0 n).
Definition seg (f : nat -> tid) (n k : nat) : list tid := map f (seq n k).

(** every thread but the environment gets a turn again and again (turns of a blocked or ended
    thread are skipped by [run]) *)
Definition fair (f : nat -> tid) : Prop := forall t n, t <> TX -> exists m, n <= m /\ f m = t.

(** weak fairness proper: no thread is enabled from some point on for ever without ever getting a
    turn - again and again it gets a turn or is disabled (blocked, ended, not started yet) *)
Definition wfair (cfg : config) (s0 : state) (f : nat -> tid) : Prop :=
  forall t n, t <> TX ->
  exists m, n <= m /\ (f m = t \/ step cfg t (run cfg (pre f m) s0) = None).

Lemma fair_wfair cfg s0 f : fair f -> wfair cfg s0 f.
Proof. intros F t n NX. destruct (F t n NX) as (m & L & E). exists m. auto. Qed.

Lemma seg_seg f n k j : seg f n (k + j) = seg f n k ++ seg f (n + k) j.
Proof. unfold seg. rewrite seq_app, map_app. reflexivity. Qed.

Lemma pre_seg f n k : pre f (n + k) = pre f n ++ seg f n k.
Proof. unfold pre. rewrite seq_app, map_app. reflexivity. Qed.

(** within [a], started in [s], thread [t] gets [c] turns or is found disabled *)
Definition turn (cfg : config) (t : tid) (c : nat) (a : list tid) (s : state) : Prop :=
  c <= count_tid t a \/ exists a1 a2, a = a1 ++ a2 /\ step cfg t (run cfg a1 s) = None.

Definition wcomplete (cfg : config) (P : nat) (a : list tid) (s : state) : Prop :=
  (forall i, i < P -> turn cfg (TP i) 1 a s) /\ turn cfg TK 1 a s /\ turn cfg TW 1 a s /\
  (forall i, i < cmax cfg -> turn cfg (TC i) POLL a s).

Lemma turn_app cfg t c a b s : turn cfg t c a s -> turn cfg t c (a ++ b) s.
Proof.
  intros [L|(a1 & a2 & -> & D)]; [left|right].
  - rewrite count_tid_app. lia.
  - exists a1, (a2 ++ b). rewrite app_assoc. auto.
Qed.

Lemma turn_seg_le cfg t c f n k k' s : k <= k' -> turn cfg t c (seg f n k) s -> turn cfg t c (seg f n k') s.
Proof.
  intros L T. replace k' with (k + (k' - k)) by lia. rewrite seg_seg. apply turn_app. exact T.
Qed.

Lemma count_tid_pos_In t a : 1 <= count_tid t a -> In t a.
Proof.
  induction a as [|u a IH]; cbn; [lia|]. destruct (tid_eqb t u) eqn:E.
  - intros _. left. symmetry. apply tid_eqb_eq. exact E.
  - intros H. right. apply IH. lia.
Qed.

Lemma tid_eqb_refl t : tid_eqb t t = true.
Proof. destruct t; cbn; auto; apply Nat.eqb_refl. Qed.

Section Fair.
  Variable cfg : config.
  Variable s0 : state.
  Variable f : nat -> tid.
  Hypothesis WF : wfair cfg s0 f.

  Lemma wfair_turn t : t <> TX -> forall c n, exists k, turn cfg t c (seg f n k) (run cfg (pre f n) s0).
  Proof.
    intros NX c n. induction c as [|c IH].
    - exists 0. left. lia.
    - destruct IH as (k & [L|R]).
      + destruct (WF t (n + k) NX) as (m & Lm & [E|D]).
        * exists (k + (m - (n + k)) + 1). left.
          rewrite (seg_seg f n (k + (m - (n + k))) 1), (seg_seg f n k (m - (n + k))), !count_tid_app.
          replace (n + (k + (m - (n + k)))) with m by lia.
          change (seg f m 1) with [f m]. cbn [count_tid]. rewrite E, tid_eqb_refl. lia.
        * exists (k + (m - (n + k))). right. exists (seg f n (k + (m - (n + k)))), []. split; [rewrite app_nil_r; reflexivity|].
          rewrite <- run_app, <- pre_seg. replace (n + (k + (m - (n + k)))) with m by lia. exact D.
      + exists k. right. exact R.
  Qed.

  Lemma wfair_turns (g : nat -> tid) c : (forall i, g i <> TX) ->
    forall P n, exists k, forall i, i < P -> turn cfg (g i) c (seg f n k) (run cfg (pre f n) s0).
  Proof.
    intros NX P n. induction P as [|P (k1 & IH)].
    - exists 0. intros i Hi. lia.
    - destruct (wfair_turn (g P) (NX P) c n) as (k2 & T2). exists (Nat.max k1 k2). intros i Hi.
      destruct (Nat.eq_dec i P) as [->|NE].
      + eapply turn_seg_le; [|exact T2]. lia.
      + eapply turn_seg_le; [|apply IH; lia]. lia.
  Qed.

  Lemma wfair_wcomplete P n : exists k, wcomplete cfg P (seg f n k) (run cfg (pre f n) s0).
  Proof.
    destruct (wfair_turns TP 1 (fun i => ltac:(discriminate)) P n) as (k1 & T1).
    destruct (wfair_turn TK ltac:(discriminate) 1 n) as (k2 & T2).
    destruct (wfair_turn TW ltac:(discriminate) 1 n) as (k3 & T3).
    destruct (wfair_turns TC POLL (fun i => ltac:(discriminate)) (cmax cfg) n) as (k4 & T4).
    exists (Nat.max (Nat.max k1 k2) (Nat.max k3 k4)). repeat split.
    - intros i Hi. eapply turn_seg_le; [|apply T1; exact Hi]. lia.
    - eapply turn_seg_le; [|exact T2]. lia.
    - eapply turn_seg_le; [|exact T3]. lia.
    - intros i Hi. eapply turn_seg_le; [|apply T4; exact Hi]. lia.
  Qed.
End Fair.

Section Progress.
  Variable cfg : config.

  Lemma cnext_not_exit x de fe cl k c c' : c <> CExit -> cnext x de fe cl k c = Some c' -> c' <> CExit.
  Proof.
    intros N H. destruct c; cbn in H; try congruence; brk8 H; inv8 H;
      repeat match goal with |- (if ?b then _ else _) <> _ => destruct b end;
      repeat match goal with |- (match ?b with _ => _ end) <> _ => destruct b end; discriminate.
  Qed.

  (** a consumer that has exited at the end of [a] had exited before, or [work] got smaller *)
  Lemma exit_dich i : forall a s,
    work (run cfg a s) < work s \/
    (nth_error (cons (run cfg a s)) i = Some CExit -> nth_error (cons s) i = Some CExit).
  Proof.
    induction a as [|t a IH]; intros s; [right; auto|]. rewrite run_cons.
    pose proof (work_run_le cfg a (exec cfg s t)) as [L _].
    unfold exec in *. destruct (step cfg t s) as [s1|] eqn:H; [|apply IH].
    destruct (work_step cfg _ _ _ H) as [D|[Q|[_ ->]]]; [left; lia| |apply IH].
    pose proof (poll_step_work cfg _ _ _ Q) as W.
    destruct (IH s1) as [D|S]; [left; lia|right].
    intros E. specialize (S E).
    destruct Q as (j & c & c' & _ & Ej & Nj & Xj & ->). cbn in S.
    destruct (Nat.eq_dec j i) as [->|NE].
    - rewrite (nth_error_upd_eq i c' c _ Ej) in S. inv8 S. exfalso.
      unfold cnext_of in Xj. eapply cnext_not_exit; eauto.
    - rewrite nth_error_upd_neq in S; auto.
  Qed.

  Lemma turn_disabled t a s :
    turn cfg t 1 a s -> (forall i, t <> TC i) -> t <> TX ->
    work (run cfg a s) < work s \/ exists s1, sim s s1 /\ step cfg t s1 = None.
  Proof.
    intros [L|(a1 & a2 & -> & D)] NC NX.
    - apply seg_disabled; auto. apply count_tid_pos_In. exact L.
    - rewrite run_app. pose proof (work_run_le cfg a2 (run cfg a1 s)) as [L2 _].
      destruct (run_dich cfg a1 s) as [Q|S]; [left; lia|right; eauto].
  Qed.

  Lemma turn_consumer i c a s :
    Reach cfg s -> hot s = true -> nth_error (cons s) i = Some c -> c <> CExit ->
    turn cfg (TC i) POLL a s -> work (run cfg a s) < work s.
  Proof.
    intros R Hh E N [L|(a1 & a2 & -> & D)].
    - exact (cons_reach cfg i a POLL s c E (hot_reach cfg s c Hh N) L).
    - rewrite run_app. pose proof (work_run_le cfg a2 (run cfg a1 s)) as [L2 _].
      destruct (exit_dich i a1 s) as [Q|Q]; [lia|]. exfalso.
      pose proof (Reach_run cfg a1 s R) as R1.
      assert (Li : i < length (cons (run cfg a1 s))).
      { rewrite (n_len _ _ (rN _ _ R1)), <- (n_len _ _ (rN _ _ R)). apply nth_error_Some. congruence. }
      apply nth_error_Some in Li. destruct (nth_error (cons (run cfg a1 s)) i) as [c1|] eqn:E1; [|congruence].
      assert (c1 = CExit).
      { destruct c1; auto; exfalso; eapply (consumer_enabled cfg (run cfg a1 s) i); eauto; discriminate. }
      subst c1. rewrite (Q eq_refl) in E. congruence.
  Qed.

  (** [seg_progress] of Proofs/LoopLive.v with turns that may be skipped turns of disabled threads *)
  Lemma seg_progress_w s P a :
    Reach cfg s -> 1 <= cmax cfg -> 1 <= dcap cfg -> 1 <= fcap cfg ->
    wcomplete cfg P a s -> length (prods s) <= P ->
    work (run cfg a s) < work s \/ ended_ok s.
  Proof.
    intros R C1 D1 F1 (HP & HK & HW & HC) LP. pose proof R as [IP IN IK IX].
    destruct (Nat.lt_ge_cases (work (run cfg a s)) (work s)) as [D|ND]; [left; exact D|right].
    assert (PB : forall i p, nth_error (prods s) i = Some p ->
                 p = PExit \/ length (dq s) >= dcap cfg \/ length (fq s) >= fcap cfg).
    { intros i p E.
      assert (Li : i < P).
      { assert (i < length (prods s)) by (apply nth_error_Some; congruence). lia. }
      destruct (turn_disabled (TP i) a s (HP i Li)) as [Q|(s1 & S & Hn)]; try discriminate; [lia|].
      apply sim_fields in S as (Sp & _ & _ & Sd & Sf & _).
      assert (Dp : p = PExit \/ p <> PExit) by (destruct p; auto; right; discriminate).
      destruct Dp as [Dp|Dp]; auto. right.
      rewrite <- Sp in E. pose proof (producer_blocked_full cfg s1 i p E Dp Hn) as Q.
      rewrite Sd, Sf in Q. exact Q. }
    assert (KB : comp s = KEnd \/ pcount s <> 0).
    { destruct (turn_disabled TK a s HK) as [Q|(s1 & S & Hn)]; try discriminate; [lia|].
      apply sim_fields in S as (_ & Sc & _ & _ & _ & _ & _ & Sk & _).
      cbn [step] in Hn. unfold kstep in Hn. rewrite Sk, Sc in Hn.
      destruct (comp s); try discriminate; auto.
      destruct (Nat.eqb_spec (pcount s) 0); [discriminate|auto]. }
    assert (WB : waited s = true \/ ccount s <> 0).
    { destruct (turn_disabled TW a s HW) as [Q|(s1 & S & Hn)]; try discriminate; [lia|].
      apply sim_fields in S as (_ & _ & Sc & _ & _ & _ & _ & _ & Sw & _).
      cbn [step] in Hn. rewrite Sw, Sc in Hn.
      destruct (waited s); auto. destruct (Nat.eqb_spec (ccount s) 0); [discriminate|auto]. }
    assert (CB : hot s = true -> forall i c, nth_error (cons s) i = Some c -> c = CExit).
    { intros Hh i c E.
      assert (Dc : c = CExit \/ c <> CExit) by (destruct c; auto; right; discriminate).
      destruct Dc as [Dc|Dc]; auto. exfalso.
      assert (Li : i < cmax cfg).
      { rewrite <- (n_len _ _ IN). apply nth_error_Some. congruence. }
      pose proof (turn_consumer i c a s R Hh E Dc (HC i Li)). lia. }
    assert (HE : hot s = true -> all_exited s = true /\ waited s = true).
    { intros Hh. assert (AE : all_exited s = true).
      { unfold all_exited. apply forallb_forall. intros c Hc. apply In_nth_error in Hc as [i Hi].
        rewrite (CB Hh i c Hi). reflexivity. }
      split; auto. destruct WB as [W|W]; auto. exfalso. apply W.
      rewrite (n_count _ _ IN). apply all_exited_count. exact AE. }
    destruct (all_pexited s) eqn:AP.
    - assert (Z : pcount s = 0) by (rewrite (p_count _ IP); apply all_pexited_count; exact AP).
      destruct KB as [KE|KE]; [|congruence].
      assert (CL : closed s = true) by (apply IK; rewrite KE; reflexivity).
      assert (Hh : hot s = true) by (unfold hot; rewrite CL; repeat rewrite orb_true_r; reflexivity).
      destruct (HE Hh) as [AE W]. split; auto.
    - apply forallb_false_ex in AP as (p & Ip & Xp). apply In_nth_error in Ip as [i Ei].
      assert (Np : p <> PExit) by (intros ->; discriminate).
      destruct (PB i p Ei) as [Q|Q]; [congruence|].
      assert (Hh : hot s = true).
      { unfold hot. destruct Q as [Q|Q].
        - destruct (dq s); cbn in *; [lia|reflexivity].
        - destruct (fq s); cbn in *; [lia|]. destruct (isnil (dq s)); reflexivity. }
      destruct (HE Hh) as [AE W]. split; auto. split; auto. intros NK. exfalso.
      destruct (InvP_prod_not_past s i p IP Ei Np) as (_ & CL & _).
      pose proof (n_len _ _ IN) as L.
      destruct (cons s) as [|c0 cs] eqn:EC; [cbn in L; lia|].
      assert (c0 = CExit) by (apply (CB Hh 0 c0); try rewrite EC; reflexivity). subst c0.
      inversion IX as [|? ? H0 _]; subst. cbn in H0. destruct H0; congruence.
  Qed.

  (** along a weakly fair infinite schedule the walk ends *)
  Lemma wfair_ends s0 f :
    1 <= cmax cfg -> 1 <= dcap cfg -> 1 <= fcap cfg -> Reach cfg s0 -> wfair cfg s0 f ->
    forall w n, work (run cfg (pre f n) s0) <= w -> exists N, n <= N /\ ended_ok (run cfg (pre f N) s0).
  Proof.
    intros C1 D1 F1 R0 WF. induction w as [|w IH]; intros n Lw.
    - exists n. split; auto. apply work0_ended. lia.
    - set (s := run cfg (pre f n) s0) in *.
      assert (R : Reach cfg s) by (apply Reach_run; exact R0).
      destruct (wfair_wcomplete cfg s0 f WF (length (prods s)) n) as (k & WC). fold s in WC.
      destruct (seg_progress_w s _ _ R C1 D1 F1 WC (le_n _)) as [D|E].
      + destruct (IH (n + k)) as (N & LN & EN).
        * rewrite pre_seg, run_app. fold s. lia.
        * exists N. split; [lia|exact EN].
      + exists n. split; auto.
  Qed.
End Progress.

Lemma fair_terminates_full cfg base root f :
  1 <= cmax cfg -> 1 <= dcap cfg -> 1 <= fcap cfg ->
  wfair cfg (init cfg base root) f ->
  exists N, forall m, N <= m ->
    let s' := run cfg (pre f m) (init cfg base root) in
    all_exited s' = true /\ waited s' = true /\
    (killed s' = false ->
     finished s' = true /\
     (xt cfg = ClosedThenEmpty ->
      Permutation (log s') (sel_list cfg base root) /\ dq s' = [] /\ fq s' = [] /\ errs s' = [])).
Proof.
  intros C1 D1 F1 WF.
  destruct (wfair_ends cfg _ f C1 D1 F1 (Reach_init cfg base root) WF _ 0 (le_n _)) as (N & _ & E).
  exists N. intros m Lm. apply ended_conclusion; auto.
  replace m with (N + (m - N)) by lia. rewrite pre_seg, run_app. apply ended_ok_run. exact E.
Qed.

(** ---------- a fair schedule exists: position n = r*r + k (k <= 2r) gives the turn to thread
    number k (0 TP 0, 1 TC 0, 2 TK, 3 TW, 4 TP 1, 5 TC 1, 6 TK, ...) *)
Definition decode (k : nat) : tid :=
  match k mod 4 with 0 => TP (k / 4) | 1 => TC (k / 4) | 2 => TK | _ => TW end.
Definition tri_sched (n : nat) : tid := decode (n - Nat.sqrt n * Nat.sqrt n).

Lemma tri_fair : fair tri_sched.
Proof.
  intros t n NX.
  assert (exists k, decode k = t) as (k & Ek).
  { destruct t as [i|i| | |]; [exists (0 + i * 4)|exists (1 + i * 4)|exists 2|exists 3|congruence];
      unfold decode; rewrite ?Nat.mod_add, ?Nat.div_add by lia; reflexivity. }
  exists ((n + k) * (n + k) + k). split; [nia|].
  unfold tri_sched. rewrite (Nat.sqrt_unique _ (n + k)) by nia.
  replace ((n + k) * (n + k) + k - (n + k) * (n + k)) with k by lia. exact Ek.
Qed.

(** ---------- what does NOT hold: the error list is final when Wait returns.

    One directory [a] whose listing fails, two producers allowed, one consumer.  The root producer
    has listed "./"; a Kill event arrives; the consumer sees it and leaves; Wait returns and the
    caller reads Errors() = [cancelled].  Only then the root producer queues "./a" and starts the
    second producer, whose ReadDir("./a/") fails: the listing error is appended to the error list
    AFTER Wait has returned.  (Producers are not waited for: C08_kill_leak_refuted.)  The list was
    not empty before, so no failure is mistaken for success. *)
Definition le_cfg : config :=
  mkCfg (fun _ => true) (fun _ => true) false true true
        (fun p => bytes_eqb p [46%N; 47%N; 97%N; 47%N]) (fun _ => false) 2 1 4 4 ClosedThenEmpty.
Definition le_base : path := [46%N; 47%N].
Definition le_root : list tree := [Dir [97%N] []].
Definition le_sched : list tid := [TP 0; TX; TC 0; TC 0; TW].
Definition le_more : list tid := [TP 0; TP 0; TP 1].

Lemma late_error_full :
  let s := run le_cfg le_sched (init le_cfg le_base le_root) in
  let s' := run le_cfg le_more s in
  waited s = true /\ all_exited s = true /\ reported s = [RCancel] /\ lfail s = [] /\
  reported s' = [RErr (ELs [46%N; 47%N; 97%N; 47%N]); RCancel] /\ lfail s' = [[46%N; 47%N; 97%N; 47%N]] /\
  log s' = [].
Proof. vm_compute. repeat split. Qed.
