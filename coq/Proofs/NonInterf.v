(** Non-interference for memfs child views (the READ half of C03): whatever operation is issued
    through a view rooted at [b], its answer and its effect below [b] depend only on the subtree
    at [b] — two parent trees that agree below [b] (and in which [b] is a directory) give equal
    answers and agree below [b] afterwards.  Nothing outside the view can be read or listed. *)
From GC Require Import Common.Base Model.Paths Model.Fs Proofs.Paths Proofs.Fs.

Definition sub (t : fs) (b : path) : fs := filter (fun qe => is_prefix b (fst qe)) t.

(** every prefix of [b], [b] included, is a directory *)
Definition anc_dirs (t : fs) (b : path) : Prop := forall a x, b = a ++ x -> is_dir_at t a = true.

Definition agree (b : path) (t1 t2 : fs) : Prop :=
  sub t1 b = sub t2 b /\ anc_dirs t1 b /\ anc_dirs t2 b.

Definition ragree (b : path) (o1 o2 : option fs) : Prop :=
  match o1, o2 with
  | Some a, Some c => agree b a c
  | None, None => True
  | _, _ => False
  end.

Lemma assoc_sub t b p : is_prefix b p = true -> assoc (sub t b) p = assoc t p.
Proof. intros H. unfold sub. rewrite (assoc_filter (fun q => is_prefix b q)). rewrite H. reflexivity. Qed.

Lemma lookup_agree b t1 t2 p : agree b t1 t2 -> is_prefix b p = true -> lookup t1 p = lookup t2 p.
Proof.
  intros [Hs _] Hp. destruct p as [|n p]; [reflexivity|]. simpl.
  rewrite <- (assoc_sub t1 b (n :: p) Hp), <- (assoc_sub t2 b (n :: p) Hp), Hs. reflexivity.
Qed.

Lemma lookup_agree_prefix b t1 t2 p : agree b t1 t2 -> is_prefix p b = true ->
  lookup t1 p = Some D /\ lookup t2 p = Some D.
Proof.
  intros (_ & A1 & A2) Hp. apply is_prefix_spec in Hp as [x Hx].
  pose proof (A1 p x Hx) as H1. pose proof (A2 p x Hx) as H2. unfold is_dir_at in *.
  destruct (lookup t1 p) as [[|]|]; try discriminate. destruct (lookup t2 p) as [[|]|]; try discriminate. auto.
Qed.

(** for a path comparable with [b] the two trees give the same lookup *)
Lemma lookup_agree_comparable b t1 t2 p : agree b t1 t2 ->
  is_prefix b p = true \/ is_prefix p b = true -> lookup t1 p = lookup t2 p.
Proof.
  intros Ha [H|H]; [eapply lookup_agree; eauto|].
  destruct (lookup_agree_prefix b t1 t2 p Ha H) as [-> ->]. reflexivity.
Qed.

Lemma children_sub t b p : is_prefix b p = true -> children (sub t b) p = children t p.
Proof.
  intros Hp. unfold sub. induction t as [|[q e] t IH]; simpl; [reflexivity|].
  destruct (is_prefix b q) eqn:Eb; simpl.
  - rewrite IH. reflexivity.
  - rewrite IH. destruct (is_prefix p q) eqn:Ep; simpl; [|reflexivity].
    rewrite (is_prefix_trans b p q Hp Ep) in Eb. discriminate.
Qed.

Lemma children_agree b t1 t2 p : agree b t1 t2 -> is_prefix b p = true -> children t1 p = children t2 p.
Proof. intros [Hs _] Hp. rewrite <- (children_sub t1 b p Hp), <- (children_sub t2 b p Hp), Hs. reflexivity. Qed.

Lemma has_children_sub t b p : is_prefix b p = true -> has_children (sub t b) p = has_children t p.
Proof.
  intros Hp. unfold sub, has_children. induction t as [|[q e] t IH]; simpl; [reflexivity|].
  destruct (is_prefix b q) eqn:Eb; simpl.
  - rewrite IH. reflexivity.
  - rewrite IH. destruct (is_prefix p q) eqn:Ep; simpl; [|reflexivity].
    rewrite (is_prefix_trans b p q Hp Ep) in Eb. discriminate.
Qed.

Lemma has_children_agree b t1 t2 p : agree b t1 t2 -> is_prefix b p = true -> has_children t1 p = has_children t2 p.
Proof. intros [Hs _] Hp. rewrite <- (has_children_sub t1 b p Hp), <- (has_children_sub t2 b p Hp), Hs. reflexivity. Qed.

Lemma sub_app t u b : sub (t ++ u) b = sub t b ++ sub u b.
Proof. unfold sub. apply filter_app. Qed.

Lemma sub_single_under b q e : is_prefix b q = true -> sub [(q, e)] b = [(q, e)].
Proof. intros H. unfold sub. simpl. rewrite H. reflexivity. Qed.

Lemma sub_delete t b p : sub (delete_subtree t p) b = delete_subtree (sub t b) p.
Proof.
  unfold sub, delete_subtree. induction t as [|[q e] t IH]; simpl; [reflexivity|].
  destruct (is_prefix p q) eqn:Ep; destruct (is_prefix b q) eqn:Eb; simpl; rewrite ?Ep, ?Eb; simpl; rewrite IH; reflexivity.
Qed.

Lemma sub_replace t b p e : is_prefix b p = true -> sub (replace_entry t p e) b = replace_entry (sub t b) p e.
Proof.
  intros Hp. unfold sub. induction t as [|[q e0] t IH]; simpl; [reflexivity|].
  destruct (path_eqb q p) eqn:Eq.
  - apply path_eqb_spec in Eq. subst q. simpl. rewrite Hp. simpl. rewrite path_eqb_refl. reflexivity.
  - simpl. destruct (is_prefix b q) eqn:Eb; simpl; [rewrite Eq, IH; reflexivity|exact IH].
Qed.

Lemma moved_sub t b src dst : is_prefix b src = true -> subtree_moved (sub t b) src dst = subtree_moved t src dst.
Proof.
  intros Hs. unfold sub, subtree_moved. induction t as [|[q e] t IH]; simpl; [reflexivity|].
  destruct (is_prefix b q) eqn:Eb; simpl.
  - rewrite IH. reflexivity.
  - rewrite IH. destruct (is_prefix src q) eqn:Es; simpl; [|reflexivity].
    rewrite (is_prefix_trans b src q Hs Es) in Eb. discriminate.
Qed.

Lemma moved_under t src dst b q e : is_prefix b dst = true -> In (q, e) (subtree_moved t src dst) -> is_prefix b q = true.
Proof.
  intros Hd Hin. apply In_moved in Hin as (x & _ & -> & _).
  eapply is_prefix_trans; [exact Hd|apply is_prefix_app].
Qed.

Lemma sub_all_under l b : (forall q e, In (q, e) l -> is_prefix b q = true) -> sub l b = l.
Proof.
  intros H. unfold sub. induction l as [|[q e] l IH]; simpl; [reflexivity|].
  rewrite (H q e (or_introl eq_refl)). f_equal. apply IH. intros q' e' Hin. apply (H q' e'). right. exact Hin.
Qed.

(** appending a node below [b] keeps the ancestors of [b] directories *)
Lemma anc_dirs_snoc t b q e : q <> [] -> lookup t q = None -> anc_dirs t b -> anc_dirs (t ++ [(q, e)]) b.
Proof. intros Hq Hn A a x Hb. apply is_dir_at_snoc; [exact Hq|exact Hn|exact (A a x Hb)]. Qed.

Lemma anc_dirs_app_fresh t b l :
  (forall q e, In (q, e) l -> forall a x, b = a ++ x -> q <> a) -> anc_dirs t b -> anc_dirs (t ++ l) b.
Proof.
  intros Hl A a x Hb. specialize (A a x Hb). unfold is_dir_at in *. rewrite lookup_app.
  destruct (lookup t a) as [[|]|]; try discriminate. reflexivity.
Qed.

Lemma agree_snoc b t1 t2 q e :
  agree b t1 t2 -> q <> [] -> is_prefix b q = true -> lookup t1 q = None -> lookup t2 q = None ->
  agree b (t1 ++ [(q, e)]) (t2 ++ [(q, e)]).
Proof.
  intros (Hs & A1 & A2) Hq Hb H1 H2. split; [|split].
  - rewrite !sub_app, Hs. reflexivity.
  - apply anc_dirs_snoc; assumption.
  - apply anc_dirs_snoc; assumption.
Qed.

(** * mkdir *)
Lemma mkdir_chain_agree b l : forall t1 t2,
  agree b t1 t2 ->
  (forall q, In q l -> q <> [] /\ (is_prefix b q = true \/ is_prefix q b = true)) ->
  ragree b (mkdir_chain t1 l) (mkdir_chain t2 l).
Proof.
  induction l as [|q l IH]; intros t1 t2 Ha Hl; simpl; [exact Ha|].
  destruct (Hl q (or_introl eq_refl)) as [Hq Hc].
  assert (Hl' : forall q', In q' l -> q' <> [] /\ (is_prefix b q' = true \/ is_prefix q' b = true))
    by (intros q' H; apply Hl; right; exact H).
  rewrite (lookup_agree_comparable b t1 t2 q Ha Hc).
  destruct (lookup t2 q) as [[d|]|] eqn:E2.
  - exact I.
  - apply IH; assumption.
  - destruct Hc as [Hc|Hc].
    + apply IH; [|exact Hl']. apply agree_snoc; auto.
      rewrite (lookup_agree_comparable b t1 t2 q Ha (or_introl Hc)). exact E2.
    + destruct (lookup_agree_prefix b t1 t2 q Ha Hc) as [_ H2]. congruence.
Qed.

Lemma prefixes_from_comparable pre p b q : is_prefix b (pre ++ p) = true \/ is_prefix (pre ++ p) b = true ->
  In q (prefixes_from pre p) -> q <> [] /\ (is_prefix b q = true \/ is_prefix q b = true).
Proof.
  intros Hc Hin. destruct (prefixes_from_In _ _ _ Hin) as (a & x & Hp & Ha & ->). subst p.
  split; [destruct pre; destruct a; try discriminate; congruence|].
  destruct Hc as [Hc|Hc].
  - (* b and pre++a are both prefixes of pre++a++x *)
    assert (Hq : is_prefix (pre ++ a) (pre ++ a ++ x) = true) by (rewrite app_assoc; apply is_prefix_app).
    destruct (is_prefix_comparable b (pre ++ a) (pre ++ a ++ x) Hc Hq); auto.
  - right. eapply is_prefix_trans; [|exact Hc]. rewrite app_assoc. apply is_prefix_app.
Qed.

Lemma mkdir_all_agree b t1 t2 p : agree b t1 t2 ->
  is_prefix b p = true \/ is_prefix p b = true ->
  ragree b (mkdir_all t1 p) (mkdir_all t2 p).
Proof.
  intros Ha Hc. unfold mkdir_all, prefixes. apply mkdir_chain_agree; [exact Ha|].
  intros q Hin. apply (prefixes_from_comparable [] p b q Hc Hin).
Qed.

(** * write *)
Lemma anc_dirs_replace_file t b p d0 e :
  lookup t p = Some (F d0) -> anc_dirs t b -> anc_dirs (replace_entry t p e) b.
Proof.
  intros Hp A a x Hb. specialize (A a x Hb). unfold is_dir_at in *.
  destruct a as [|n a]; [reflexivity|]. simpl in *. rewrite assoc_replace.
  destruct (path_eqb p (n :: a)) eqn:E; [|exact A].
  apply path_eqb_spec in E. subst p. simpl in Hp. rewrite Hp in A. discriminate.
Qed.

Lemma removelast_under b r : r <> [] -> is_prefix b (removelast (b ++ r)) = true.
Proof.
  intros Hr. destruct r as [|x r] using rev_ind; [congruence|]. clear IHr.
  rewrite app_assoc, removelast_last. apply is_prefix_app.
Qed.

Lemma write_at_agree b t1 t2 r data : agree b t1 t2 -> r <> [] ->
  ragree b (write_at t1 (b ++ r) data) (write_at t2 (b ++ r) data).
Proof.
  intros Ha Hr. unfold write_at.
  pose proof (mkdir_all_agree b t1 t2 (removelast (b ++ r)) Ha (or_introl (removelast_under b r Hr))) as Hm.
  destruct (mkdir_all t1 (removelast (b ++ r))) as [u1|]; destruct (mkdir_all t2 (removelast (b ++ r))) as [u2|];
    simpl in Hm; try contradiction; [|exact I].
  assert (Hp : is_prefix b (b ++ r) = true) by apply is_prefix_app.
  assert (Hne : b ++ r <> []) by (destruct b; destruct r; try discriminate; congruence).
  rewrite (lookup_agree b u1 u2 (b ++ r) Hm Hp).
  destruct (lookup u2 (b ++ r)) as [[d0|]|] eqn:E2; simpl.
  - destruct Hm as (Hs & A1 & A2). split; [|split].
    + rewrite !sub_replace by exact Hp. rewrite Hs. reflexivity.
    + eapply anc_dirs_replace_file; [|exact A1]. rewrite (lookup_agree b u1 u2 (b ++ r) (conj Hs (conj A1 A2)) Hp). exact E2.
    + eapply anc_dirs_replace_file; eauto.
  - exact I.
  - apply agree_snoc; auto. rewrite (lookup_agree b u1 u2 (b ++ r) Hm Hp). exact E2.
Qed.

(** * remove *)
Lemma anc_dirs_delete t b r : r <> [] -> anc_dirs t b -> anc_dirs (delete_subtree t (b ++ r)) b.
Proof.
  intros Hr A a x Hb. specialize (A a x Hb). unfold is_dir_at in *.
  rewrite lookup_delete by (destruct b; destruct r; try discriminate; congruence).
  destruct (is_prefix (b ++ r) a) eqn:E; [|exact A].
  exfalso. apply is_prefix_spec in E as [s Hs]. subst b.
  apply (f_equal (@length name)) in Hs. rewrite !app_length in Hs. destruct r; [congruence|simpl in Hs; lia].
Qed.

Lemma agree_delete b t1 t2 r : agree b t1 t2 -> r <> [] ->
  agree b (delete_subtree t1 (b ++ r)) (delete_subtree t2 (b ++ r)).
Proof.
  intros (Hs & A1 & A2) Hr. split; [|split].
  - rewrite !sub_delete, Hs. reflexivity.
  - apply anc_dirs_delete; assumption.
  - apply anc_dirs_delete; assumption.
Qed.

Lemma remove_at_agree b t1 t2 r : agree b t1 t2 -> r <> [] ->
  ragree b (remove_at t1 (b ++ r)) (remove_at t2 (b ++ r)).
Proof.
  intros Ha Hr. unfold remove_at, is_dir_at.
  assert (Hp : is_prefix b (b ++ r) = true) by apply is_prefix_app.
  rewrite (lookup_agree b t1 t2 _ Ha (removelast_under b r Hr)).
  destruct (negb match lookup t2 (removelast (b ++ r)) with Some D => true | _ => false end); [exact I|].
  rewrite (lookup_agree b t1 t2 _ Ha Hp), (has_children_agree b t1 t2 _ Ha Hp).
  destruct (lookup t2 (b ++ r)) as [[d|]|]; simpl; [apply agree_delete; assumption| |exact I].
  destruct (has_children t2 (b ++ r)); [exact I|apply agree_delete; assumption].
Qed.

Lemma remove_all_at_agree b t1 t2 r : agree b t1 t2 -> r <> [] ->
  ragree b (remove_all_at t1 (b ++ r)) (remove_all_at t2 (b ++ r)).
Proof.
  intros Ha Hr. unfold remove_all_at, is_dir_at.
  assert (Hp : is_prefix b (b ++ r) = true) by apply is_prefix_app.
  rewrite (lookup_agree b t1 t2 _ Ha (removelast_under b r Hr)).
  destruct (negb match lookup t2 (removelast (b ++ r)) with Some D => true | _ => false end); [exact I|].
  rewrite (lookup_agree b t1 t2 _ Ha Hp).
  destruct (lookup t2 (b ++ r)); simpl; [apply agree_delete; assumption|exact I].
Qed.

(** * copy *)
Lemma copy_at_agree k b t1 t2 sr dr : agree b t1 t2 -> dr <> [] ->
  ragree b (copy_at k t1 (b ++ sr) (b ++ dr)) (copy_at k t2 (b ++ sr) (b ++ dr)).
Proof.
  intros Ha Hdr. unfold copy_at.
  assert (Hs : is_prefix b (b ++ sr) = true) by apply is_prefix_app.
  assert (Hd : is_prefix b (b ++ dr) = true) by apply is_prefix_app.
  assert (Hdne : b ++ dr <> []) by (destruct b; destruct dr; try discriminate; congruence).
  rewrite (lookup_agree b t1 t2 _ Ha Hs).
  destruct (lookup t2 (b ++ sr)) as [e|]; [|exact I].
  match goal with |- context [negb ?c] => destruct (negb c) end; [exact I|].
  pose proof (mkdir_all_agree b t1 t2 (removelast (b ++ dr)) Ha (or_introl (removelast_under b dr Hdr))) as Hm.
  destruct (mkdir_all t1 (removelast (b ++ dr))) as [u1|]; destruct (mkdir_all t2 (removelast (b ++ dr))) as [u2|];
    simpl in Hm; try contradiction; [|exact I].
  rewrite (lookup_agree b u1 u2 _ Hm Hd).
  destruct (lookup u2 (b ++ dr)) eqn:E2; [exact I|].
  assert (E1 : lookup u1 (b ++ dr) = None) by (rewrite (lookup_agree b u1 u2 _ Hm Hd); exact E2).
  destruct e as [data|]; simpl.
  - apply agree_snoc; assumption.
  - destruct Hm as (Hsub & A1 & A2).
    assert (Hmv : subtree_moved u1 (b ++ sr) (b ++ dr) = subtree_moved u2 (b ++ sr) (b ++ dr)).
    { rewrite <- (moved_sub u1 b _ _ Hs), <- (moved_sub u2 b _ _ Hs), Hsub. reflexivity. }
    assert (Hunder : forall u q e, In (q, e) ((b ++ dr, D) :: subtree_moved u (b ++ sr) (b ++ dr)) -> is_prefix b q = true).
    { intros u q e [H|H]; [inversion H; subst; exact Hd|eapply moved_under; eauto]. }
    split; [|split].
    + rewrite Hmv, !sub_app, Hsub. reflexivity.
    + intros a x Hb. specialize (A1 a x Hb). unfold is_dir_at in *. rewrite lookup_app.
      destruct (lookup u1 a) as [[|]|]; try discriminate. reflexivity.
    + intros a x Hb. specialize (A2 a x Hb). unfold is_dir_at in *. rewrite lookup_app.
      destruct (lookup u2 a) as [[|]|]; try discriminate. reflexivity.
Qed.

(** * A child view is the tree operation on the prefixed path — all 16 operations *)
Definition view_tree_step (b : path) (t : fs) (o : op) : fs * out :=
  match o with
  | OCopy s d =>
    match reduce s, reduce_node d with
    | Some sr, Some dr => upd t (copy_at CAny t (b ++ sr) (b ++ dr)) | _, _ => (t, RErr) end
  | OCopyDir s d =>
    match reduce s, reduce_node d with
    | Some sr, Some dr => upd t (copy_at CDirOnly t (b ++ sr) (b ++ dr)) | _, _ => (t, RErr) end
  | OCopyFile s d =>
    match reduce_node s, reduce_node d with
    | Some sr, Some dr => upd t (copy_at CFileOnly t (b ++ sr) (b ++ dr)) | _, _ => (t, RErr) end
  | OReadDir s =>
    match reduce s with
    | Some r => if is_dir_at t (b ++ r) then (t, RList (children t (b ++ r))) else (t, RErr)
    | None => (t, RErr) end
  | OIsExist s => match reduce s with Some r => (t, RBool (exists_at t (b ++ r))) | None => (t, RBool false) end
  | OIsFile s => match reduce_node s with Some r => (t, RBool (is_file_at t (b ++ r))) | None => (t, RBool false) end
  | OIsDir s => match reduce s with Some r => (t, RBool (is_dir_at t (b ++ r))) | None => (t, RBool false) end
  | OMkdirAll s => match reduce s with Some r => upd t (mkdir_all t (b ++ r)) | None => (t, RErr) end
  | OReadFile s =>
    match reduce_node s with
    | Some r => match lookup t (b ++ r) with Some (F d) => (t, RData d) | _ => (t, RErr) end
    | None => (t, RErr) end
  | OWriteFile s data => match reduce_node s with Some r => upd t (write_at t (b ++ r) data) | None => (t, RErr) end
  | OFilespace s => match reduce s with Some _ => (t, RUnit) | None => (t, RErr) end
  | OReader s bufs =>
    match reduce_node s with
    | Some r => match lookup t (b ++ r) with Some (F d) => (t, RChunks (read_seq d bufs)) | _ => (t, RErr) end
    | None => (t, RErr) end
  | OWriter s chunks => match reduce_node s with Some r => upd t (write_at t (b ++ r) (concat chunks)) | None => (t, RErr) end
  | ORemove s => match reduce_node s with Some r => upd t (remove_at t (b ++ r)) | None => (t, RErr) end
  | ORemoveAll s => match reduce_node s with Some r => upd t (remove_all_at t (b ++ r)) | None => (t, RErr) end
  | OLstat s =>
    match reduce s with
    | Some r => match lookup t (b ++ r) with
                | Some D => (t, RStat true 0)
                | Some (F d) => (t, RStat false (N.of_nat (length d)))
                | None => (t, RErr) end
    | None => (t, RErr) end
  end.

Theorem view_step_is_tree_step b t o : good_path b = true ->
  view_step (view_base b) t o = view_tree_step b t o.
Proof.
  intros Hb. destruct o; cbv beta iota zeta delta [view_step view_tree_step fail_out];
  repeat match goal with
  | |- context [match reduce ?s with _ => _ end] => destruct (reduce s) eqn:?
  | |- context [match reduce_node ?s with _ => _ end] => destruct (reduce_node s) eqn:?
  end; try reflexivity;
  repeat match goal with
  | H : reduce_node _ = Some _ |- _ => apply reduce_node_good in H; destruct H
  | H : reduce _ = Some _ |- _ => apply reduce_good in H
  end;
  cbn [mem_step];
  rewrite ?reduce_node_wrap_view by assumption; rewrite ?reduce_wrap_view by assumption; reflexivity.
Qed.

(** * Non-interference *)
Lemma upd_agree b t1 t2 r1 r2 : agree b t1 t2 -> ragree b r1 r2 ->
  snd (upd t1 r1) = snd (upd t2 r2) /\ agree b (fst (upd t1 r1)) (fst (upd t2 r2)).
Proof. intros Ha Hr. destruct r1, r2; simpl in *; try contradiction; auto. Qed.

Theorem view_tree_noninterference b t1 t2 o : agree b t1 t2 ->
  snd (view_tree_step b t1 o) = snd (view_tree_step b t2 o) /\
  agree b (fst (view_tree_step b t1 o)) (fst (view_tree_step b t2 o)).
Proof.
  intros Ha.
  assert (Hp : forall r, is_prefix b (b ++ r) = true) by (intros; apply is_prefix_app).
  destruct o; cbv beta iota zeta delta [view_tree_step];
  repeat match goal with
  | |- context [match reduce ?s with _ => _ end] => destruct (reduce s) eqn:?
  | |- context [match reduce_node ?s with _ => _ end] => destruct (reduce_node s) eqn:?
  end; try (split; [reflexivity|exact Ha]);
  repeat match goal with
  | H : reduce_node _ = Some _ |- _ => apply reduce_node_good in H; destruct H
  end;
  try (apply upd_agree; [exact Ha|]);
  try (apply copy_at_agree; assumption);
  try (apply mkdir_all_agree; [exact Ha|left; apply Hp]);
  try (apply write_at_agree; assumption);
  try (apply remove_at_agree; assumption);
  try (apply remove_all_at_agree; assumption).
  all: unfold exists_at, is_file_at, is_dir_at;
       repeat match goal with
       | Ha' : agree ?bb ?u1 ?u2, Hp' : forall r, is_prefix ?bb (?bb ++ r) = true |- context [lookup ?u1 (?bb ++ ?r)] =>
         rewrite (lookup_agree bb u1 u2 (bb ++ r) Ha' (Hp' r))
       | Ha' : agree ?bb ?u1 ?u2, Hp' : forall r, is_prefix ?bb (?bb ++ r) = true |- context [children ?u1 (?bb ++ ?r)] =>
         rewrite (children_agree bb u1 u2 (bb ++ r) Ha' (Hp' r))
       end;
       repeat match goal with |- context [lookup ?u ?x] => destruct (lookup u x) as [[|]|] end;
       split; try reflexivity; assumption.
Qed.

(** Whatever is asked through a view rooted at [b] — any of the 16 operations with any raw
    arguments — the answer, and the tree below [b] afterwards, are functions of the tree below
    [b] only. *)
Theorem view_noninterference b t1 t2 o : good_path b = true -> agree b t1 t2 ->
  snd (view_step (view_base b) t1 o) = snd (view_step (view_base b) t2 o) /\
  agree b (fst (view_step (view_base b) t1 o)) (fst (view_step (view_base b) t2 o)).
Proof. intros Hb Ha. rewrite !view_step_is_tree_step by exact Hb. apply view_tree_noninterference. exact Ha. Qed.

(** … and along whole histories issued through the view. *)
Theorem view_noninterference_history b : good_path b = true -> forall ops t1 t2, agree b t1 t2 ->
  map snd (snd (fold_left (fun acc o => let r := view_step (view_base b) (fst acc) o in (fst r, snd acc ++ [r]))
                          ops (t1, [])))
  = map snd (snd (fold_left (fun acc o => let r := view_step (view_base b) (fst acc) o in (fst r, snd acc ++ [r]))
                            ops (t2, []))).
Proof.
  intros Hb ops.
  assert (Gen : forall l1 l2 t1 t2, agree b t1 t2 -> map snd l1 = map snd l2 ->
    map snd (snd (fold_left (fun acc o => let r := view_step (view_base b) (fst acc) o in (fst r, snd acc ++ [r])) ops (t1, l1)))
    = map snd (snd (fold_left (fun acc o => let r := view_step (view_base b) (fst acc) o in (fst r, snd acc ++ [r])) ops (t2, l2)))).
  { induction ops as [|o ops IH]; intros l1 l2 t1 t2 Ha Hl; simpl; [exact Hl|].
    destruct (view_noninterference b t1 t2 o Hb Ha) as [Ho Ha'].
    apply IH; [exact Ha'|]. rewrite !map_app, Hl. simpl. rewrite Ho. reflexivity. }
  intros t1 t2 Ha. apply Gen; [exact Ha|reflexivity].
Qed.
