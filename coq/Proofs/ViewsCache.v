(** C03 for stacks WITH cache layers: through any stack of memfs-wrapper / sub-path /
    read-only / encrypted / cache views, a raw argument is rejected or addresses [root ++ r]
    with [r] canonical.  The new ingredient is Proofs/Clean.v: path.Clean of
    [base ++ canonical path] factors through the canonical path. *)
From GC Require Import Common.Base Model.Paths Model.Fs Model.Views Model.ViewsCache
  Proofs.Paths Proofs.Fs Proofs.Views Proofs.Clean.

(** How the layers below [c'] read a string: the first one that looks at it either cleans and
    then (further down) reduces it, or reduces it straight away. *)
Definition red_under (c : chain) (s : bytes) : option path :=
  if cache_next c then cred s else reduce s.

Fixpoint cbase' (c : chain) : option path :=
  match c with
  | [] => Some []
  | LWrap b :: c' | LSub b :: c' =>
    match red_under c' b, cbase' c' with
    | Some y, Some b1 => Some (b1 ++ y)
    | _, _ => None
    end
  | _ :: c' => cbase' c'
  end.

Fixpoint cres' (nn : bool) (c : chain) (r : path) : option path :=
  match c with
  | [] => Some r
  | LWrap b :: c' =>
    if nn && match r with [] => true | _ => false end then None
    else match red_under c' b with Some y => cres' nn c' (y ++ r) | None => None end
  | LSub b :: c' =>
    match red_under c' b with Some y => cres' nn c' (y ++ r) | None => None end
  | _ :: c' => cres' nn c' r
  end.

Lemma red_under_base_join c b r : base_ok b -> good_path r = true ->
  red_under c (b ++ join r) = match red_under c b with Some y => Some (y ++ r) | None => None end.
Proof.
  intros Hb Hr. unfold red_under. destruct (cache_next c).
  - destruct Hb as [X ->]. rewrite <- app_assoc. simpl. apply cred_prefix_join. exact Hr.
  - apply reduce_base_join; assumption.
Qed.

Theorem resolve_cres' nn c : bases_ok c -> forall s,
  resolve nn c s = match red_under c s with Some r => cres' nn c r | None => None end.
Proof.
  induction c as [|l c IH]; intros Hb s.
  - unfold resolve, red_under. simpl. destruct (reduce s); reflexivity.
  - rewrite resolve_cons. destruct l as [b|b| | |].
    + (* LWrap *)
      destruct Hb as [Hbase Hb]. unfold transform1, red_under. simpl cache_next.
      destruct nn.
      * rewrite reduce_node_as_reduce. destruct (reduce s) as [[|n r]|] eqn:Es; try reflexivity.
        rewrite (IH Hb).
        rewrite (red_under_base_join c b (n :: r) Hbase) by (eapply reduce_good; eauto).
        cbn [cres' andb]. destruct (red_under c b); reflexivity.
      * destruct (reduce s) as [r|] eqn:Es; [|reflexivity].
        rewrite (IH Hb). rewrite (red_under_base_join c b r Hbase) by (eapply reduce_good; eauto).
        cbn [cres' andb]. destruct (red_under c b); reflexivity.
    + (* LSub *)
      destruct Hb as [Hbase Hb]. unfold transform1, red_under. simpl cache_next.
      destruct (reduce s) as [r|] eqn:Es; [|reflexivity].
      rewrite (IH Hb). rewrite (red_under_base_join c b r Hbase) by (eapply reduce_good; eauto).
      cbn [cres']. destruct (red_under c b); reflexivity.
    + simpl in Hb. unfold transform1. rewrite (IH Hb). reflexivity.
    + simpl in Hb. unfold transform1. rewrite (IH Hb). reflexivity.
    + (* LCache: the layers below reduce what the cache cleaned *)
      simpl in Hb. unfold transform1. rewrite (IH Hb).
      assert (E : red_under c (clean_path s) = red_under (LCache :: c) s).
      { unfold red_under. simpl cache_next. destruct (cache_next c); [apply cred_clean_path|reflexivity]. }
      rewrite E. destruct (red_under (LCache :: c) s); reflexivity.
Qed.

Lemma cres'_false c : forall r,
  cres' false c r = match cbase' c with Some b => Some (b ++ r) | None => None end.
Proof.
  induction c as [|l c IH]; intros r; simpl; [reflexivity|].
  destruct l as [b|b| | |]; simpl; try apply IH.
  - destruct (red_under c b) as [y|]; [|reflexivity]. rewrite IH.
    destruct (cbase' c); [rewrite app_assoc|]; reflexivity.
  - destruct (red_under c b) as [y|]; [|reflexivity]. rewrite IH.
    destruct (cbase' c); [rewrite app_assoc|]; reflexivity.
Qed.

Lemma cres'_true c : forall r, cres' true c r = None \/ cres' true c r = cres' false c r.
Proof.
  induction c as [|l c IH]; intros r; simpl; [right; reflexivity|].
  destruct l as [b|b| | |]; simpl; try apply IH.
  - destruct r; simpl; [left; reflexivity|]. destruct (red_under c b); [apply IH|left; reflexivity].
  - destruct (red_under c b); [apply IH|left; reflexivity].
Qed.

Lemma red_under_nil c : red_under c [] = Some [].
Proof. unfold red_under. destruct (cache_next c); reflexivity. Qed.

Lemma root_of_cbase' c : bases_ok c -> root_of c = cbase' c.
Proof.
  intros Hb. unfold root_of. rewrite resolve_cres' by assumption.
  rewrite red_under_nil, cres'_false. destruct (cbase' c); [rewrite app_nil_r|]; reflexivity.
Qed.

Lemma cred_good s p : cred s = Some p -> good_path p = true.
Proof. unfold cred. apply reduce_good. Qed.

Lemma red_under_good c s p : red_under c s = Some p -> good_path p = true.
Proof. unfold red_under. destruct (cache_next c); [apply cred_good|apply reduce_good]. Qed.

(** C03 at path level, caches included. *)
Theorem resolve_confined_cache nn c s p :
  bases_ok c -> resolve nn c s = Some p ->
  exists b r, root_of c = Some b /\ red_under c s = Some r /\ good_path r = true /\ p = b ++ r.
Proof.
  intros Hb H. rewrite resolve_cres' in H by assumption.
  destruct (red_under c s) as [r|] eqn:Es; [|discriminate].
  assert (Hf : cres' false c r = Some p).
  { destruct nn; [|exact H]. destruct (cres'_true c r) as [E|E]; congruence. }
  rewrite cres'_false in Hf. destruct (cbase' c) as [b|] eqn:Ec; [|discriminate].
  inversion Hf; subst p. exists b, r. rewrite root_of_cbase' by assumption.
  repeat split; auto. eapply red_under_good; eauto.
Qed.

(** * Stacks built by the API (with caches) satisfy the side conditions *)
Lemma cbuild_ok ks : forall c c', bases_ok c -> cbuild c ks = Some c' -> bases_ok c'.
Proof.
  induction ks as [|k ks IH]; intros c c' Hb H; simpl in H.
  - inversion H; subst. assumption.
  - destruct k as [k|].
    + destruct k as [p|b| |]; simpl in H.
      * destruct (child c p) as [c1|] eqn:E; [|discriminate]. eapply IH; [|exact H].
        eapply child_bases_ok; eauto.
      * eapply IH; [|exact H]. simpl. split; [apply base_ok_snoc|exact Hb].
      * eapply IH; [|exact H]; assumption.
      * eapply IH; [|exact H]; assumption.
    + eapply IH; [|exact H]. exact Hb.
Qed.

(** Every stack [cbuild] makes from the memfs root confines every argument. *)
Theorem cbuild_confined ks c nn s p :
  cbuild [] ks = Some c -> resolve nn c s = Some p ->
  exists b r, root_of c = Some b /\ good_path r = true /\ p = b ++ r.
Proof.
  intros Hk H. pose proof (cbuild_ok ks [] c I Hk) as Hb.
  destruct (resolve_confined_cache nn c s p Hb H) as (b & r & A & _ & B & C).
  exists b, r. auto.
Qed.
