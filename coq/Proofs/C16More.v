(** C16, proof audit: the call-stack discipline of synchronous pip:run inside a fresh context
    (at most one task of a context is live; no orphan arises; a context is failed only by its own
    live task), and what follows from it for pip:try:
    - handler submissions are never rejected (so the old premise [~ rejected_any] is void);
    - handlers begin after EVERY task of the separated context (the body and all tasks it
      spawned, transitively) has finished;
    - in final states the surrounding context is failed iff a started handler's scope failed iff a
      handler task finished failed (the converse of containment);
    - no task of the try system is ever cancelled from outside: a task that closes has executed all
      its commands unless one of its own commands failed (begins => runs);
    - deadlock freedom of the closed try system for flat bodies.
    New file; nothing in Proofs/Runner*.v or Proofs/Try.v is changed. *)
From Coq Require Import Lia ZifyBool ZifyNat ZifyN.
From GC Require Import Common.Base Model.Runner Model.Try Proofs.Runner Proofs.Runner2 Proofs.Try.
Local Open Scope nat_scope.

(** * The exact effect of one action of a runner goroutine *)

Section Trans.
Variable s : state.
Variable t : task.
Let n := t_name t.

(** [trans st' fl nw evs]: new status of the acting task, whether it puts an error into its own
    context, the task it creates, the events it logs. *)
Inductive trans : status -> bool -> list task -> list event -> Prop :=
| x_pass i u tu : t_st t = Waiting i -> nth_error (t_waits t) i = Some u -> T s u tu ->
    is_finished (t_st tu) = true -> ctx_failed (t_ctx tu) s = false -> trans (Waiting (S i)) false [] []
| x_waitfail i u : t_st t = Waiting i -> nth_error (t_waits t) i = Some u -> trans Closing true [] []
| x_begin i : t_st t = Waiting i -> nth_error (t_waits t) i = None ->
    trans (Running 0 PBefore) false [] [EBodyBegin n (t_waits t)]
| x_end pc : t_st t = Running pc PBefore -> nth_error (t_body t) pc = None -> trans Closing false [] []
| x_abort pc : t_st t = Running pc PBefore -> ctx_failed (t_ctx t) s = true -> trans Closing false [] []
| x_cmdbegin pc c : t_st t = Running pc PBefore -> nth_error (t_body t) pc = Some c ->
    trans (Running pc PIn) false [] [ECmdBegin n pc]
| x_ok pc : t_st t = Running pc PIn -> nth_error (t_body t) pc = Some COk -> ctx_failed (t_ctx t) s = false ->
    trans (Running (S pc) PBefore) false [] [ECmdEnd n pc true]
| x_cancel pc : t_st t = Running pc PIn -> nth_error (t_body t) pc = Some COk -> ctx_failed (t_ctx t) s = true ->
    trans Closing false [] [ECmdEnd n pc false]
| x_fail pc : t_st t = Running pc PIn -> nth_error (t_body t) pc = Some CFail ->
    trans Closing true [] [ECmdEnd n pc false]
| x_sprej pc nm ws b : t_st t = Running pc PIn -> nth_error (t_body t) pc = Some (CSpawn nm ws b) ->
    trans (Running pc PRejected) false [] [ESubmitted nm false]
| x_spawn pc nm ws b : t_st t = Running pc PIn -> nth_error (t_body t) pc = Some (CSpawn nm ws b) ->
    registered nm (tasks s) = false ->
    trans (Running pc (PSpawned nm)) false
          [new_task {| s_name := nm; s_waits := ws; s_body := b |} (t_ctx t) (Some n) s] [ESubmitted nm true]
| x_join pc c tc : t_st t = Running pc (PSpawned c) -> T s c tc -> is_finished (t_st tc) || t_orphan tc = true ->
    ctx_failed (t_ctx t) s = false -> trans (Running (S pc) PBefore) false [] [ECmdEnd n pc true]
| x_joinfail pc c tc : t_st t = Running pc (PSpawned c) -> T s c tc -> is_finished (t_st tc) || t_orphan tc = true ->
    ctx_failed (t_ctx t) s = true -> trans Closing false [] [ECmdEnd n pc false]
| x_rej pc : t_st t = Running pc PRejected -> trans Closing true [] [ECmdEnd n pc false]
| x_finish : t_st t = Closing ->
    trans (Finished (negb (ctx_failed (t_ctx t) s))) false [] [EFinished n (negb (ctx_failed (t_ctx t) s))].

(** The state after the action. *)
Definition post (s' : state) (st' : status) (fl : bool) (nw : list task) (evs : list event) : Prop :=
  tasks s' = upd n st' (tasks s ++ nw)
  /\ (forall c, ctx_failed c s' = ctx_failed c (if fl then fail_ctx (t_ctx t) s else s))
  /\ log s' = evs ++ log s
  /\ mroot s' = mroot s.

Lemma task_step_sum s' :
  task_step false t s = Some s' -> exists st' fl nw evs, trans st' fl nw evs /\ post s' st' fl nw evs.
Proof.
  unfold task_step. fold n. unfold post.
  destruct (t_st t) as [i | pc ph | | ok |] eqn:Est; try (intro HH; discriminate HH).
  - destruct (nth_error (t_waits t) i) as [u|] eqn:Enth.
    + destruct (find_task u (tasks s)) as [tu|] eqn:Eu.
      * destruct (is_finished (t_st tu)) eqn:Ef; [|intro HH; discriminate HH].
        destruct (ctx_failed (t_ctx tu) s) eqn:Ec; intro E; inversion E; subst s'; clear E.
        -- exists Closing, true, [], []. split; [eapply x_waitfail; eauto|].
           cbn [tasks set_st with_tasks log mroot]. rewrite fail_ctx_tasks, fail_ctx_log, fail_ctx_mroot, app_nil_r. auto.
        -- exists (Waiting (S i)), false, [], []. split; [eapply x_pass; eauto|].
           cbn [tasks set_st with_tasks log mroot]. rewrite app_nil_r. auto.
      * intro E; inversion E; subst s'; clear E.
        exists Closing, true, [], []. split; [eapply x_waitfail; eauto|].
        cbn [tasks set_st with_tasks log mroot]. rewrite fail_ctx_tasks, fail_ctx_log, fail_ctx_mroot, app_nil_r. auto.
    + intro E; inversion E; subst s'; clear E.
      exists (Running 0 PBefore), false, [], [EBodyBegin n (t_waits t)]. split; [eapply x_begin; eauto|].
      cbn [tasks set_st with_tasks emit log mroot]. rewrite app_nil_r. auto.
  - destruct ph as [| | c |].
    + destruct (nth_error (t_body t) pc) as [c|] eqn:Enth; intro E; inversion E; subst s'; clear E.
      * exists (Running pc PIn), false, [], [ECmdBegin n pc]. split; [eapply x_cmdbegin; eauto|].
        cbn [tasks set_st with_tasks emit log mroot]. rewrite app_nil_r. auto.
      * exists Closing, false, [], []. split; [eapply x_end; eauto|].
        cbn [tasks set_st with_tasks emit log mroot]. rewrite app_nil_r. auto.
    + destruct (nth_error (t_body t) pc) as [[| | nm ws b]|] eqn:Enth; try (intro HH; discriminate HH).
      * destruct (ctx_failed (t_ctx t) s) eqn:Ec; intro E; inversion E; subst s'; clear E.
        -- exists Closing, false, [], [ECmdEnd n pc false]. split; [eapply x_cancel; eauto|].
           cbn [tasks set_st with_tasks emit log mroot]. rewrite app_nil_r. auto.
        -- exists (Running (S pc) PBefore), false, [], [ECmdEnd n pc true]. split; [eapply x_ok; eauto|].
           cbn [tasks set_st with_tasks emit log mroot]. rewrite app_nil_r. auto.
      * intro E; inversion E; subst s'; clear E.
        exists Closing, true, [], [ECmdEnd n pc false]. split; [eapply x_fail; eauto|].
        cbn [tasks set_st with_tasks emit log mroot]. rewrite fail_ctx_tasks, fail_ctx_log, fail_ctx_mroot, app_nil_r. auto.
      * set (sb := {| s_name := nm; s_waits := ws; s_body := b |}).
        destruct (create_false_cases sb (t_ctx t) (Some n) s) as [Ec | (R & V & Ec)]; rewrite Ec;
          intro E; inversion E; subst s'; clear E.
        -- exists (Running pc PRejected), false, [], [ESubmitted nm false]. split; [eapply x_sprej; eauto|].
           cbn [tasks set_st with_tasks emit log mroot]. rewrite app_nil_r. auto.
        -- exists (Running pc (PSpawned nm)), false, [new_task sb (t_ctx t) (Some n) s], [ESubmitted nm true].
           split; [eapply x_spawn; eauto|].
           cbn [tasks set_st with_tasks with_counter emit log mroot]. auto.
    + destruct (find_task c (tasks s)) as [tc|] eqn:Ec'; [|intro HH; discriminate HH].
      destruct (is_finished (t_st tc) || t_orphan tc) eqn:Ef; [|intro HH; discriminate HH].
      destruct (ctx_failed (t_ctx t) s) eqn:Ec; intro E; inversion E; subst s'; clear E.
      * exists Closing, false, [], [ECmdEnd n pc false]. split; [eapply x_joinfail; eauto|].
        cbn [tasks set_st with_tasks emit log mroot]. rewrite app_nil_r. auto.
      * exists (Running (S pc) PBefore), false, [], [ECmdEnd n pc true]. split; [eapply x_join; eauto|].
        cbn [tasks set_st with_tasks emit log mroot]. rewrite app_nil_r. auto.
    + intro E; inversion E; subst s'; clear E.
      exists Closing, true, [], [ECmdEnd n pc false]. split; [eapply x_rej; eauto|].
      cbn [tasks set_st with_tasks emit log mroot]. rewrite fail_ctx_tasks, fail_ctx_log, fail_ctx_mroot, app_nil_r. auto.
  - intro E; inversion E; subst s'; clear E.
    exists (Finished (negb (ctx_failed (t_ctx t) s))), false, [], [EFinished n (negb (ctx_failed (t_ctx t) s))].
    split; [eapply x_finish; eauto|].
    cbn [tasks set_st with_tasks with_counter emit log mroot]. rewrite app_nil_r. auto.
Qed.

End Trans.

Lemma abort_sum n s s' :
  step false (LAbort n) s = Some s' ->
  exists t pc, T s n t /\ t_st t = Running pc PBefore /\ ctx_failed (t_ctx t) s = true
               /\ trans s t Closing false [] [] /\ post s t s' Closing false [] [].
Proof.
  simpl. destruct (find_task n (tasks s)) as [t|] eqn:E; [|intro HH; discriminate HH].
  destruct (t_st t) as [| pc [| | |] | | |] eqn:Est; try (intro HH; discriminate HH).
  destruct (ctx_failed (t_ctx t) s) eqn:Ec; [|intro HH; discriminate HH].
  intro H; inversion H; subst s'; clear H. exists t, pc.
  pose proof (find_task_some _ _ _ E) as [Hn _].
  split; [exact E|]. split; [exact Est|]. split; [exact Ec|]. split; [eapply x_abort; eauto|].
  unfold post. cbn [tasks set_st with_tasks log mroot]. rewrite app_nil_r, Hn. auto.
Qed.

(** [act]: the task itself executes (it is not blocked inside pip:run, not closing, not finished). *)
Definition act (st : status) : bool :=
  match st with Waiting _ | Running _ PBefore | Running _ PIn | Running _ PRejected => true | _ => false end.

(** [idle]: finished, or blocked in a pip:run whose task has not finished yet. *)
Definition idle (s : state) (x : task) : bool :=
  match t_st x with
  | Finished _ | Zombie => true
  | Running _ (PSpawned z) =>
    match find_task z (tasks s) with Some tz => negb (is_finished (t_st tz)) | None => true end
  | _ => false
  end.

Section Pi.
Variables (s : state) (t : task) (st' : status) (fl : bool) (nw : list task) (evs : list event).
Hypothesis H : trans s t st' fl nw evs.

Lemma pi_unfin : is_finished (t_st t) = false.
Proof. destruct H; match goal with E : t_st t = _ |- _ => rewrite E end; reflexivity. Qed.

Lemma pi_new :
  nw = [] \/ exists pc nm ws b,
    nw = [new_task {| s_name := nm; s_waits := ws; s_body := b |} (t_ctx t) (Some (t_name t)) s]
    /\ registered nm (tasks s) = false /\ st' = Running pc (PSpawned nm) /\ t_st t = Running pc PIn
    /\ nth_error (t_body t) pc = Some (CSpawn nm ws b).
Proof. destruct H; auto. right. exists pc, nm, ws, b. auto. Qed.

Lemma pi_blk pc z :
  st' = Running pc (PSpawned z) ->
  exists ws b, nw = [new_task {| s_name := z; s_waits := ws; s_body := b |} (t_ctx t) (Some (t_name t)) s]
               /\ registered z (tasks s) = false.
Proof. destruct H; intro E; inversion E; subst. eauto. Qed.

Lemma pi_join pc c :
  t_st t = Running pc (PSpawned c) ->
  (exists tc, T s c tc /\ is_finished (t_st tc) || t_orphan tc = true)
  /\ nw = [] /\ fl = false /\ is_finished st' = false.
Proof.
  intro E. destruct H; try congruence; rewrite E in *;
    match goal with E1 : Running _ _ = Running _ _ |- _ => inversion E1; subst end;
    (split; [eexists; split; eassumption|]); repeat split.
Qed.

Lemma pi_fl : fl = true -> act (t_st t) = true /\ st' = Closing.
Proof. destruct H; intro E; try discriminate E; match goal with E1 : t_st t = _ |- _ => rewrite E1 end; auto. Qed.

Lemma pi_fin :
  is_finished st' = true ->
  t_st t = Closing /\ st' = Finished (negb (ctx_failed (t_ctx t) s)) /\ fl = false /\ nw = [].
Proof. destruct H; intro E; try discriminate E. auto. Qed.

Lemma pi_act : act st' = true -> fl = false /\ (act (t_st t) = true \/ ctx_failed (t_ctx t) s = false).
Proof.
  destruct H; intro E; try discriminate E; (split; [reflexivity|]);
    match goal with E1 : t_st t = _ |- _ => rewrite E1 end; auto.
Qed.

Lemma pi_closing : t_st t = Closing -> st' = Finished (negb (ctx_failed (t_ctx t) s)) /\ fl = false /\ nw = [].
Proof. intro E. destruct H; try congruence. auto. Qed.

End Pi.

(** Lookup in the task table after an action. *)
Lemma find_post ts n t st' nw m :
  find_task n ts = Some t ->
  (nw = [] \/ exists nt, nw = [nt] /\ registered (t_name nt) ts = false) ->
  find_task m (upd n st' (ts ++ nw)) =
  if N.eqb m n then Some (set_status st' t)
  else match find_task m ts with
       | Some y => Some y
       | None => match nw with [nt] => if N.eqb (t_name nt) m then Some nt else None | _ => None end
       end.
Proof.
  intros Hn Hnw. destruct (N.eqb_spec m n) as [->|Hne].
  - apply find_upd_same. apply find_app_l. assumption.
  - rewrite find_upd_other by assumption. destruct Hnw as [->|(nt & -> & R)].
    + rewrite app_nil_r. destruct (find_task m ts); reflexivity.
    + destruct (find_task m ts) as [y|] eqn:E.
      * apply find_app_some. assumption.
      * apply find_app_none. assumption.
Qed.

(** * One live task per fresh context *)

(** The root task of every context of the try system. *)
Definition croots (tb : tryblock) : list (name * ctxid) :=
  (nb tb, tb_sep tb) :: map (fun p => (s_name (fst p), snd p)) (hpairs tb).

(** The separated context and the contexts of the defined handlers are fresh (scope.New): pairwise
    distinct and different from the surrounding one.  (All recorded cases use 1, 50, 51, 52, 53.) *)
Definition fresh (tb : tryblock) : Prop := NoDup (tb_par tb :: map snd (croots tb)).

Record OA (tb : tryblock) (s : state) : Prop := {
  oa_idx : forall n x, T s n x -> t_idx x < length (tasks s);
  oa_root : forall n x, T s n x ->
            exists r c, In (r, c) (croots tb) /\ t_ctx x = c /\ registered r (tasks s) = true
                        /\ (t_parent x = None -> n = r);
  oa_par : forall n x p, T s n x -> t_parent x = Some p ->
           exists tp, T s p tp /\ t_idx tp < t_idx x /\ t_ctx tp = t_ctx x
                      /\ (is_finished (t_st x) = false -> exists pc, t_st tp = Running pc (PSpawned n));
  oa_blk : forall n x pc z, T s n x -> t_st x = Running pc (PSpawned z) ->
           exists tz, T s z tz /\ t_parent tz = Some n;
  oa_orph : forall n x, T s n x -> t_orphan x = false;
  oa_uniq : forall n x m y, T s n x -> T s m y -> t_ctx x = t_ctx y ->
            idle s x = false -> idle s y = false -> n = m;
  oa_F : forall n x, T s n x -> ctx_failed (t_ctx x) s = true -> act (t_st x) = false;
  oa_F2 : forall n x pc z tz ok, T s n x -> t_st x = Running pc (PSpawned z) -> T s z tz ->
          t_st tz = Finished ok -> ctx_failed (t_ctx x) s = true -> ok = false }.

Lemma T_name s n x : T s n x -> t_name x = n.
Proof. intro H. apply find_task_some in H. tauto. Qed.

(** The acting task is live. *)
Lemma acting_live tb s t st' fl nw evs :
  OA tb s -> T s (t_name t) t -> trans s t st' fl nw evs -> idle s t = false.
Proof.
  intros HO HT Htr. unfold idle.
  destruct Htr; match goal with E : t_st t = _ |- _ => rewrite E end; try reflexivity;
    match goal with E : T s ?c ?tc |- _ => unfold T in E; rewrite E; pose proof (oa_orph _ _ HO _ _ E) as Ho end;
    rewrite Ho, orb_false_r in *;
    match goal with E : is_finished _ = true |- _ => rewrite E end; reflexivity.
Qed.

Lemma OA_act tb s s' t st' fl nw evs :
  OA tb s -> T s (t_name t) t -> trans s t st' fl nw evs -> post s t s' st' fl nw evs -> OA tb s'.
Proof.
  intros HO HT Htr (Htasks & Hcf & _ & _). set (n := t_name t) in *.
  pose proof (acting_live _ _ _ _ _ _ _ HO HT Htr) as Hlive.
  pose proof (pi_unfin _ _ _ _ _ _ Htr) as Hunf.
  assert (Hiii : forall y, nw = [y] ->
            t_ctx y = t_ctx t /\ t_parent y = Some n /\ t_orphan y = ctx_failed (t_ctx t) s
            /\ t_idx y = length (tasks s) /\ t_st y = Waiting 0
            /\ registered (t_name y) (tasks s) = false
            /\ exists pc, st' = Running pc (PSpawned (t_name y)) /\ t_st t = Running pc PIn).
  { intros y E. destruct (pi_new _ _ _ _ _ _ Htr) as [E0|(pc & nm & ws & b & E1 & R & A & B & _)]; [congruence|].
    rewrite E in E1. inversion E1; subst y. cbn. repeat split; auto. exists pc. auto. }
  assert (Hnw : nw = [] \/ exists nt, nw = [nt] /\ registered (t_name nt) (tasks s) = false).
  { destruct nw as [|y [|z r]]; auto.
    - right. exists y. split; [reflexivity|]. apply (Hiii y eq_refl).
    - destruct (pi_new _ _ _ _ _ _ Htr) as [E0|(pc & nm & ws & b & E1 & _)]; discriminate. }
  assert (Hfind : forall m, find_task m (tasks s') =
            if N.eqb m n then Some (set_status st' t)
            else match find_task m (tasks s) with
                 | Some y => Some y
                 | None => match nw with [nt] => if N.eqb (t_name nt) m then Some nt else None | _ => None end
                 end).
  { intro m. rewrite Htasks. apply find_post; assumption. }
  assert (Hcase : forall m y, T s' m y ->
            (m = n /\ y = set_status st' t) \/ (m <> n /\ T s m y)
            \/ (m <> n /\ find_task m (tasks s) = None /\ nw = [y] /\ t_name y = m)).
  { intros m y Hy. unfold T in Hy. rewrite Hfind in Hy. destruct (N.eqb_spec m n) as [->|Hne].
    - left. inversion Hy. auto.
    - right. destruct (find_task m (tasks s)) as [y0|] eqn:E0.
      + left. inversion Hy; subst. auto.
      + right. destruct nw as [|nt [|z r]]; try discriminate Hy.
        destruct (N.eqb_spec (t_name nt) m) as [E1|E1]; [|discriminate Hy]. inversion Hy; subst. auto. }
  assert (Hold : forall m y, T s m y -> m <> n -> T s' m y).
  { intros m y Hy Hne. unfold T in *. rewrite Hfind. destruct (N.eqb_spec m n); [contradiction|]. rewrite Hy. reflexivity. }
  assert (Hself : T s' n (set_status st' t)).
  { unfold T. rewrite Hfind, N.eqb_refl. reflexivity. }
  assert (Hnewne : forall y, nw = [y] -> t_name y <> n).
  { intros y E Hn. destruct (Hiii y E) as (_ & _ & _ & _ & _ & R & _). rewrite Hn in R.
    assert (registered n (tasks s) = true) by (apply registered_find; eauto). congruence. }
  assert (Hnew : forall y, nw = [y] -> T s' (t_name y) y).
  { intros y E. unfold T. rewrite Hfind. destruct (N.eqb_spec (t_name y) n) as [E1|E1]; [exfalso; eapply Hnewne; eauto|].
    destruct (Hiii y E) as (_ & _ & _ & _ & _ & R & _). apply find_task_none in R. rewrite R, E, N.eqb_refl. reflexivity. }
  assert (Hany : forall m y, T s m y -> exists y', T s' m y' /\ t_idx y' = t_idx y /\ t_ctx y' = t_ctx y
                                         /\ t_parent y' = t_parent y /\ (m <> n -> y' = y) /\ (m = n -> y' = set_status st' t)).
  { intros m y Hy. destruct (N.eq_dec m n) as [->|Hne].
    - exists (set_status st' t). unfold T in Hy, HT. rewrite HT in Hy. inversion Hy; subst y.
      repeat split; auto. intro; contradiction.
    - exists y. repeat split; auto. intro; contradiction. }
  assert (Hcf' : forall c, ctx_failed c s' = true -> ctx_failed c s = true \/ (fl = true /\ c = t_ctx t)).
  { intros c Hc. rewrite Hcf in Hc. destruct fl; [|auto]. apply ctx_failed_fail_inv in Hc as [->|Hc]; auto. }
  assert (Hcfsame : fl = false -> forall c, ctx_failed c s' = ctx_failed c s).
  { intros -> c. apply Hcf. }
  assert (Hreg : forall m, registered m (tasks s) = true -> registered m (tasks s') = true).
  { intros m Hm. rewrite Htasks, registered_upd. destruct Hnw as [->|(nt & -> & _)].
    - rewrite app_nil_r. assumption.
    - rewrite registered_app, Hm. reflexivity. }
  assert (Hlen : length (tasks s') = length (tasks s) + length nw).
  { rewrite Htasks, upd_length, app_length. reflexivity. }
  assert (Hidle : forall m y, T s m y -> m <> n -> idle s' y = false ->
            idle s y = false \/ (exists pc, t_st y = Running pc (PSpawned n)) /\ is_finished st' = true).
  { intros m y Hy Hne Hi. unfold idle in *. destruct (t_st y) as [i | pc ph | | ok |] eqn:Est; auto.
    destruct ph as [| | z |]; auto. rewrite Hfind in Hi. destruct (N.eqb_spec z n) as [->|Hz].
    - right. split; [eauto|]. simpl in Hi. destruct (is_finished st'); [reflexivity|discriminate Hi].
    - left. destruct (oa_blk _ _ HO _ _ _ _ Hy Est) as [tz [Hz' _]]. unfold T in Hz'. rewrite Hz' in *. assumption. }
  assert (HselfI : idle s' (set_status st' t) = false -> is_finished st' = false /\ nw = []).
  { intro Hi. unfold idle in Hi. cbn [t_st set_status] in Hi.
    destruct st' as [i | pc ph | | ok |]; try discriminate Hi; try (split; [reflexivity|]).
    - destruct (pi_new _ _ _ _ _ _ Htr) as [E0|(pc & nm & ws & b & _ & _ & A & _)]; [assumption|discriminate A].
    - destruct (pi_new _ _ _ _ _ _ Htr) as [E0|(pc' & nm & ws & b & E1 & _ & A & _)]; [assumption|].
      injection A as -> ->. exfalso. pose proof (Hnew _ E1) as Hn. cbn [t_name new_task s_name] in Hn.
      unfold T in Hn. rewrite Hn in Hi. discriminate Hi.
    - destruct (pi_new _ _ _ _ _ _ Htr) as [E0|(pc & nm & ws & b & _ & _ & A & _)]; [assumption|discriminate A]. }
  assert (Hblkctx : forall m y pc, T s m y -> t_st y = Running pc (PSpawned n) -> t_ctx y = t_ctx t).
  { intros m y pc Hy Est. destruct (oa_blk _ _ HO _ _ _ _ Hy Est) as [tz [Hz Hp]].
    unfold T in Hz, HT. rewrite HT in Hz. inversion Hz; subst tz.
    destruct (oa_par _ _ HO _ _ _ HT Hp) as [tp (A & _ & B & _)]. unfold T in A, Hy. rewrite Hy in A. inversion A; subst. auto. }
  split.
  - (* idx *)
    intros m y Hy. destruct (Hcase m y Hy) as [[-> ->]|[[Hne Ho]|(Hne & _ & E & _)]].
    + cbn. pose proof (oa_idx _ _ HO _ _ HT). lia.
    + pose proof (oa_idx _ _ HO _ _ Ho). lia.
    + destruct (Hiii y E) as (_ & _ & _ & Hi & _). rewrite Hlen, E, Hi. simpl. lia.
  - (* root *)
    intros m y Hy.
    assert (G : forall y0 m0, T s m0 y0 -> t_ctx y = t_ctx y0 -> (t_parent y = None -> t_parent y0 = None /\ m = m0) ->
                exists r c, In (r, c) (croots tb) /\ t_ctx y = c /\ registered r (tasks s') = true /\ (t_parent y = None -> m = r)).
    { intros y0 m0 H0 Hc Hp. destruct (oa_root _ _ HO _ _ H0) as (r & c & A & B & C & D).
      exists r, c. split; [assumption|]. split; [congruence|]. split; [auto|]. intro E. destruct (Hp E) as [E1 ->]. auto. }
    destruct (Hcase m y Hy) as [[-> ->]|[[Hne Ho]|(Hne & _ & E & _)]].
    + apply (G t n HT); cbn; auto.
    + apply (G y m Ho); auto.
    + destruct (Hiii y E) as (Hc & Hp & _). apply (G t n HT); [assumption|]. intro E1. congruence.
  - (* parent *)
    intros m y p Hy Hp. destruct (Hcase m y Hy) as [[-> ->]|[[Hne Ho]|(Hne & _ & E & En)]].
    + cbn in Hp. destruct (oa_par _ _ HO _ _ _ HT Hp) as [tp (A & B & C & D)].
      assert (p <> n). { intro; subst p. unfold T in A, HT. rewrite HT in A. inversion A; subst. lia. }
      exists tp. split; [apply Hold; assumption|]. cbn. repeat split; auto.
    + destruct (oa_par _ _ HO _ _ _ Ho Hp) as [tp (A & B & C & D)].
      destruct (Hany _ _ A) as [tp' (A' & I' & C' & _ & Hne' & Heq')].
      exists tp'. split; [assumption|]. split; [lia|]. split; [congruence|].
      intro Hf. destruct (D Hf) as [pc Est]. destruct (N.eq_dec p n) as [->|Hpn].
      * exfalso. unfold T in A, HT. rewrite HT in A. inversion A; subst tp.
        destruct (pi_join _ _ _ _ _ _ Htr _ _ Est) as ([tc [Hc Hfo]] & _).
        unfold T in Hc, Ho. rewrite Ho in Hc. inversion Hc; subst tc.
        rewrite (oa_orph _ _ HO _ _ Ho), Hf in Hfo. discriminate Hfo.
      * rewrite (Hne' Hpn). eauto.
    + destruct (Hiii y E) as (Hc & Hp' & _ & Hi & _ & _ & pc & Est' & _).
      rewrite Hp' in Hp. inversion Hp; subst p. exists (set_status st' t). split; [assumption|]. cbn.
      split; [rewrite Hi; apply (oa_idx _ _ HO _ _ HT)|]. split; [auto|]. intros _. exists pc. rewrite Est', En. reflexivity.
  - (* blocked on a registered child *)
    intros m y pc z Hy Est. destruct (Hcase m y Hy) as [[-> ->]|[[Hne Ho]|(Hne & _ & E & En)]].
    + cbn in Est. destruct (pi_blk _ _ _ _ _ _ Htr _ _ Est) as (ws & b & E & _).
      pose proof (Hnew _ E) as Hn. cbn [t_name new_task s_name] in Hn. eexists. split; [exact Hn|reflexivity].
    + destruct (oa_blk _ _ HO _ _ _ _ Ho Est) as [tz [A B]].
      destruct (Hany _ _ A) as [tz' (A' & _ & _ & P' & _)]. exists tz'. split; [assumption|congruence].
    + destruct (Hiii y E) as (_ & _ & _ & _ & Ew & _). congruence.
  - (* no orphan *)
    intros m y Hy. destruct (Hcase m y Hy) as [[-> ->]|[[Hne Ho]|(Hne & _ & E & En)]].
    + cbn. apply (oa_orph _ _ HO _ _ HT).
    + apply (oa_orph _ _ HO _ _ Ho).
    + destruct (Hiii y E) as (_ & _ & Hor & _ & _ & _ & pc & _ & Est). rewrite Hor.
      destruct (ctx_failed (t_ctx t) s) eqn:Ec; [|reflexivity].
      pose proof (oa_F _ _ HO _ _ HT Ec) as Ha. rewrite Est in Ha. discriminate Ha.
  - (* one live task per context *)
    intros m1 y1 m2 y2 H1 H2 Hc I1 I2.
    destruct (Hcase m1 y1 H1) as [[-> ->]|[[Hne1 Ho1]|(Hne1 & _ & E1 & En1)]];
      destruct (Hcase m2 y2 H2) as [[-> ->]|[[Hne2 Ho2]|(Hne2 & _ & E2 & En2)]]; try reflexivity.
    + destruct (HselfI I1) as [Hf _]. destruct (Hidle _ _ Ho2 Hne2 I2) as [J2|[_ J2]]; [|congruence].
      exfalso. apply Hne2. symmetry. apply (oa_uniq _ _ HO _ _ _ _ HT Ho2); auto.
    + destruct (HselfI I1) as [_ Hn]. congruence.
    + destruct (HselfI I2) as [Hf _]. destruct (Hidle _ _ Ho1 Hne1 I1) as [J1|[_ J1]]; [|congruence].
      exfalso. apply Hne1. apply (oa_uniq _ _ HO _ _ _ _ Ho1 HT); auto.
    + destruct (Hidle _ _ Ho1 Hne1 I1) as [J1|[[pc1 B1] F1]]; destruct (Hidle _ _ Ho2 Hne2 I2) as [J2|[[pc2 B2] F2]].
      * apply (oa_uniq _ _ HO _ _ _ _ Ho1 Ho2); auto.
      * exfalso. apply Hne1. apply (oa_uniq _ _ HO _ _ _ _ Ho1 HT); auto.
        rewrite Hc. eapply Hblkctx; eauto.
      * exfalso. apply Hne2. symmetry. apply (oa_uniq _ _ HO _ _ _ _ HT Ho2); auto.
        rewrite <- Hc. symmetry. eapply Hblkctx; eauto.
      * destruct (oa_blk _ _ HO _ _ _ _ Ho1 B1) as [tz1 [A1 P1]]. destruct (oa_blk _ _ HO _ _ _ _ Ho2 B2) as [tz2 [A2 P2]].
        unfold T in A1, A2. rewrite A1 in A2. inversion A2; subst. congruence.
    + destruct (Hiii y2 E2) as (Hc2 & _ & _ & _ & _ & _ & pc & Est' & Est).
      destruct (Hidle _ _ Ho1 Hne1 I1) as [J1|[_ F1]]; [|rewrite Est' in F1; discriminate F1].
      exfalso. apply Hne1. apply (oa_uniq _ _ HO _ _ _ _ Ho1 HT); auto. congruence.
    + destruct (HselfI I2) as [_ Hn]. congruence.
    + destruct (Hiii y1 E1) as (Hc1 & _ & _ & _ & _ & _ & pc & Est' & Est).
      destruct (Hidle _ _ Ho2 Hne2 I2) as [J2|[_ F2]]; [|rewrite Est' in F2; discriminate F2].
      exfalso. apply Hne2. symmetry. apply (oa_uniq _ _ HO _ _ _ _ HT Ho2); auto. congruence.
    + congruence.
  - (* a failed context has no executing task *)
    intros m y Hy Hc. destruct (act (t_st y)) eqn:Ea; [exfalso|reflexivity].
    destruct (Hcase m y Hy) as [[-> ->]|[[Hne Ho]|(Hne & _ & E & En)]].
    + cbn in Hc, Ea. destruct (pi_act _ _ _ _ _ _ Htr Ea) as [Hfl Hor]. rewrite (Hcfsame Hfl) in Hc.
      destruct Hor as [A|A]; [|congruence]. rewrite (oa_F _ _ HO _ _ HT Hc) in A. discriminate A.
    + destruct (Hcf' _ Hc) as [Hc0|[Hfl Hct]].
      * rewrite (oa_F _ _ HO _ _ Ho Hc0) in Ea. discriminate Ea.
      * destruct (pi_fl _ _ _ _ _ _ Htr Hfl) as [At _]. apply Hne.
        apply (oa_uniq _ _ HO _ _ _ _ Ho HT); auto.
        unfold idle. destruct (t_st y) as [i | pc [| | |] | | |]; try reflexivity; discriminate Ea.
    + destruct (Hiii y E) as (Hcy & _ & _ & _ & _ & _ & pc & Est' & Est).
      rewrite Hcy in Hc. destruct (Hcf' _ Hc) as [Hc0|[Hfl _]].
      * pose proof (oa_F _ _ HO _ _ HT Hc0) as A. rewrite Est in A. discriminate A.
      * destruct (pi_fl _ _ _ _ _ _ Htr Hfl) as [_ A]. congruence.
  - (* a pip:run that sees its context failed sees its task failed *)
    intros m y pc z tz ok Hy Est Hz Ez Hc.
    destruct (Hcase m y Hy) as [[-> ->]|[[Hne Ho]|(Hne & _ & E & En)]].
    + cbn in Est. destruct (pi_blk _ _ _ _ _ _ Htr _ _ Est) as (ws & b & E & _).
      pose proof (Hnew _ E) as Hn. cbn [t_name new_task s_name] in Hn. unfold T in Hn, Hz. rewrite Hn in Hz.
      inversion Hz; subst tz. discriminate Ez.
    + destruct (Hcase z tz Hz) as [[-> ->]|[[Hnz Hoz]|(Hnz & _ & Ez' & _)]].
      * cbn in Ez. assert (Hf : is_finished st' = true) by (rewrite Ez; reflexivity).
        destruct (pi_fin _ _ _ _ _ _ Htr Hf) as (_ & Est' & Hfl & _). rewrite Ez in Est'. inversion Est'; subst ok.
        rewrite (Hcfsame Hfl) in Hc. rewrite (Hblkctx _ _ _ Ho Est) in Hc. rewrite Hc. reflexivity.
      * destruct (Hcf' _ Hc) as [Hc0|[Hfl Hct]].
        -- eapply (oa_F2 _ _ HO _ _ _ _ _ _ Ho Est Hoz Ez Hc0).
        -- exfalso. destruct (pi_fl _ _ _ _ _ _ Htr Hfl) as [At _]. apply Hne.
           apply (oa_uniq _ _ HO _ _ _ _ Ho HT); auto.
           unfold idle. rewrite Est. unfold T in Hoz. rewrite Hoz, Ez. reflexivity.
      * destruct (Hiii tz Ez') as (_ & _ & _ & _ & Ew & _). congruence.
    + destruct (Hiii y E) as (_ & _ & _ & _ & Ew & _). congruence.
Qed.

Lemma OA_same tb s s1 :
  OA tb s -> tasks s1 = tasks s ->
  (forall n x, T s n x -> ctx_failed (t_ctx x) s1 = ctx_failed (t_ctx x) s) -> OA tb s1.
Proof.
  intros HO Ht Hc.
  assert (HT : forall n x, T s1 n x <-> T s n x) by (intros; unfold T; rewrite Ht; tauto).
  assert (Hi : forall x, idle s1 x = idle s x) by (intros; unfold idle; rewrite Ht; reflexivity).
  split.
  - intros n x Hx. rewrite Ht. apply HT in Hx. eapply oa_idx; eauto.
  - intros n x Hx. apply HT in Hx. rewrite Ht. eapply oa_root; eauto.
  - intros n x p Hx Hp. apply HT in Hx. destruct (oa_par _ _ HO _ _ _ Hx Hp) as [tp (A & B)].
    exists tp. split; [apply HT; assumption | assumption].
  - intros n x pc z Hx Est. apply HT in Hx. destruct (oa_blk _ _ HO _ _ _ _ Hx Est) as [tz (A & B)].
    exists tz. split; [apply HT; assumption | assumption].
  - intros n x Hx. apply HT in Hx. eapply oa_orph; eauto.
  - intros n x m y Hx Hy E. rewrite !Hi. apply HT in Hx. apply HT in Hy. eapply oa_uniq; eauto.
  - intros n x Hx E. apply HT in Hx. rewrite (Hc _ _ Hx) in E. eapply oa_F; eauto.
  - intros n x pc z tz ok Hx Est Hz Ez E. apply HT in Hx. apply HT in Hz. rewrite (Hc _ _ Hx) in E.
    apply (oa_F2 _ _ HO _ _ _ _ _ _ Hx Est Hz Ez E).
Qed.

Lemma nodup_snd_unique {A B} (l : list (A * B)) a b c :
  NoDup (map snd l) -> In (a, c) l -> In (b, c) l -> a = b.
Proof.
  induction l as [|[x y] l IH]; simpl; intros Hn Ha Hb; [contradiction|].
  inversion Hn as [|? ? Hni Hn']; subst.
  destruct Ha as [Ha|Ha], Hb as [Hb|Hb].
  - congruence.
  - inversion Ha; subst. exfalso. apply Hni. apply (in_map snd) in Hb. exact Hb.
  - inversion Hb; subst. exfalso. apply Hni. apply (in_map snd) in Ha. exact Ha.
  - auto.
Qed.

Lemma croots_unique tb r r' c : fresh tb -> In (r, c) (croots tb) -> In (r', c) (croots tb) -> r = r'.
Proof. intros F. apply NoDup_cons_iff in F as [_ F]. eapply nodup_snd_unique; eauto. Qed.

Lemma croots_npar tb r c : fresh tb -> In (r, c) (croots tb) -> c <> tb_par tb.
Proof.
  intros F H E. apply NoDup_cons_iff in F as [Hni _]. apply Hni. rewrite <- E.
  apply (in_map snd) in H. exact H.
Qed.

Lemma croots_body tb : In (nb tb, tb_sep tb) (croots tb).
Proof. left. reflexivity. Qed.

Lemma croots_handler tb h c : In (h, c) (hpairs tb) -> In (s_name h, c) (croots tb).
Proof. intro H. right. apply in_map_iff. exists (h, c). auto. Qed.

Lemma croots_inv tb r c :
  In (r, c) (croots tb) -> (r = nb tb /\ c = tb_sep tb) \/ exists h, In (h, c) (hpairs tb) /\ r = s_name h.
Proof.
  intros [E|H]; [inversion E; auto|]. right. apply in_map_iff in H as [[h c'] [E Hin]].
  inversion E; subst. eauto.
Qed.

(** The goroutine creates the root task of a fresh context. *)
Lemma OA_create tb s s1 sb c :
  fresh tb -> OA tb s -> In (s_name sb, c) (croots tb) -> registered (s_name sb) (tasks s) = false ->
  ctx_failed c s = false ->
  tasks s1 = tasks s ++ [new_task sb c None s] -> (forall d, ctx_failed d s1 = ctx_failed d s) -> OA tb s1.
Proof.
  intros F HO Hr R Hc Ht Hcf. set (nt := new_task sb c None s) in *.
  assert (Hnone : find_task (s_name sb) (tasks s) = None) by (apply find_task_none; assumption).
  assert (Hcase : forall m y, T s1 m y -> T s m y \/ (m = s_name sb /\ y = nt /\ find_task m (tasks s) = None)).
  { intros m y Hy. unfold T in *. rewrite Ht in Hy. destruct (find_task m (tasks s)) as [y0|] eqn:E.
    - rewrite (find_app_some _ _ _ _ E) in Hy. left. congruence.
    - rewrite (find_app_none _ _ _ E) in Hy. cbn [t_name nt new_task] in Hy.
      destruct (N.eqb_spec (s_name sb) m) as [E1|E1]; [|discriminate Hy]. inversion Hy; subst. auto. }
  assert (Hold : forall m y, T s m y -> T s1 m y).
  { intros m y Hy. unfold T in *. rewrite Ht. apply find_app_some. assumption. }
  assert (Hnew : T s1 (s_name sb) nt).
  { unfold T. rewrite Ht, (find_app_none _ _ _ Hnone). cbn [t_name nt new_task]. rewrite N.eqb_refl. reflexivity. }
  assert (Hreg : forall m, registered m (tasks s) = true -> registered m (tasks s1) = true).
  { intros m Hm. rewrite Ht, registered_app, Hm. reflexivity. }
  assert (Hi : forall m y, T s m y -> idle s1 y = idle s y).
  { intros m y Hy. unfold idle. destruct (t_st y) as [i | pc [| | z |] | | |] eqn:Est; try reflexivity.
    destruct (oa_blk _ _ HO _ _ _ _ Hy Est) as [tz [A _]]. rewrite (Hold _ _ A). unfold T in A. rewrite A. reflexivity. }
  assert (Hempty : forall m y, T s m y -> t_ctx y <> c).
  { intros m y Hy E. destruct (oa_root _ _ HO _ _ Hy) as (r & c' & A & B & C & _).
    rewrite E in B. subst c'. rewrite (croots_unique _ _ _ _ F A Hr) in C. congruence. }
  split.
  - intros m y Hy. rewrite Ht, app_length. simpl. destruct (Hcase _ _ Hy) as [Ho|(-> & -> & _)].
    + pose proof (oa_idx _ _ HO _ _ Ho). lia.
    + cbn. lia.
  - intros m y Hy. destruct (Hcase _ _ Hy) as [Ho|(-> & -> & _)].
    + destruct (oa_root _ _ HO _ _ Ho) as (r & c' & A & B & C & D). exists r, c'. auto.
    + exists (s_name sb), c. repeat split; auto. apply registered_find. eauto.
  - intros m y p Hy Hp. destruct (Hcase _ _ Hy) as [Ho|(-> & -> & _)]; [|discriminate Hp].
    destruct (oa_par _ _ HO _ _ _ Ho Hp) as [tp (A & B)]. exists tp. auto.
  - intros m y pc z Hy Est. destruct (Hcase _ _ Hy) as [Ho|(-> & -> & _)]; [|discriminate Est].
    destruct (oa_blk _ _ HO _ _ _ _ Ho Est) as [tz (A & B)]. exists tz. auto.
  - intros m y Hy. destruct (Hcase _ _ Hy) as [Ho|(-> & -> & _)]; [eapply oa_orph; eauto|]. cbn. assumption.
  - intros m1 y1 m2 y2 H1 H2 E I1 I2.
    destruct (Hcase _ _ H1) as [Ho1|(-> & -> & _)]; destruct (Hcase _ _ H2) as [Ho2|(-> & -> & _)]; try reflexivity.
    + rewrite (Hi _ _ Ho1) in I1. rewrite (Hi _ _ Ho2) in I2. eapply oa_uniq; eauto.
    + exfalso. eapply Hempty; eauto.
    + exfalso. eapply Hempty; eauto.
  - intros m y Hy E. rewrite Hcf in E. destruct (Hcase _ _ Hy) as [Ho|(-> & -> & _)]; [eapply oa_F; eauto|].
    cbn in E. congruence.
  - intros m y pc z tz ok Hy Est Hz Ez E. rewrite Hcf in E.
    destruct (Hcase _ _ Hy) as [Ho|(-> & -> & _)]; [|discriminate Est].
    destruct (Hcase _ _ Hz) as [Hoz|(-> & -> & _)]; [|discriminate Ez].
    apply (oa_F2 _ _ HO _ _ _ _ _ _ Ho Est Hoz Ez E).
Qed.

(** Synchronous pip:run: when the root task of a context has finished, every task of that context
    has (an unfinished task keeps its spawner inside pip:run, up to the root). *)
Lemma root_finished_all tb s r c x :
  fresh tb -> OA tb s -> In (r, c) (croots tb) -> T s r x -> is_finished (t_st x) = true ->
  forall m y, T s m y -> t_ctx y = c -> is_finished (t_st y) = true.
Proof.
  intros F HO Hr Hx Hfin.
  assert (G : forall k m y, t_idx y < k -> T s m y -> t_ctx y = c -> is_finished (t_st y) = true).
  { induction k as [|k IH]; intros m y Hk Hy Hc; [lia|].
    destruct (is_finished (t_st y)) eqn:Ef; [reflexivity|exfalso].
    destruct (oa_root _ _ HO _ _ Hy) as (r' & c' & A & B & _ & D).
    rewrite <- B, Hc in A. pose proof (croots_unique _ _ _ _ F A Hr) as ->.
    destruct (t_parent y) as [p|] eqn:Ep.
    - destruct (oa_par _ _ HO _ _ _ Hy Ep) as [tp (P1 & P2 & P3 & P4)]. destruct (P4 Ef) as [pc Est].
      assert (Hf : is_finished (t_st tp) = true) by (apply (IH p tp); [lia | assumption | congruence]).
      rewrite Est in Hf. discriminate Hf.
    - specialize (D eq_refl). subst m. unfold T in Hx, Hy. rewrite Hx in Hy. inversion Hy; subst. congruence. }
  intros m y Hy Hc. apply (G (S (t_idx y)) m y); auto.
Qed.

Lemma ctx_failed_fail_other c d s : c <> d -> ctx_failed c (fail_ctx d s) = ctx_failed c s.
Proof.
  intro Hne. destruct (ctx_failed c (fail_ctx d s)) eqn:E.
  - apply ctx_failed_fail_inv in E as [E|E]; [contradiction | auto].
  - destruct (ctx_failed c s) eqn:E2; [|reflexivity]. rewrite (ctx_failed_fail_mono d c s E2) in E. discriminate E.
Qed.

(** What the table, the context flags and the log look like after an action. *)
Lemma post_facts s t s' st' fl nw evs :
  T s (t_name t) t -> trans s t st' fl nw evs -> post s t s' st' fl nw evs ->
  (forall m y, T s' m y ->
     (m = t_name t /\ y = set_status st' t) \/ (m <> t_name t /\ T s m y)
     \/ (m <> t_name t /\ nw = [y] /\ t_ctx y = t_ctx t /\ t_st y = Waiting 0 /\ t_name y = m /\ t_parent y = Some (t_name t)))
  /\ (forall m y, T s m y -> m <> t_name t -> T s' m y)
  /\ T s' (t_name t) (set_status st' t)
  /\ (forall c, ctx_failed c s' = ctx_failed c s \/ (fl = true /\ c = t_ctx t)).
Proof.
  intros HT Htr (Htasks & Hcf & _ & _). set (n := t_name t) in *.
  assert (Hnw : nw = [] \/ exists nt, nw = [nt] /\ registered (t_name nt) (tasks s) = false).
  { destruct (pi_new _ _ _ _ _ _ Htr) as [E0|(pc & nm & ws & b & E1 & R & _)]; [auto|]. right. eexists. split; [exact E1|]. exact R. }
  assert (Hfind : forall m, find_task m (tasks s') =
            if N.eqb m n then Some (set_status st' t)
            else match find_task m (tasks s) with
                 | Some y => Some y
                 | None => match nw with [nt] => if N.eqb (t_name nt) m then Some nt else None | _ => None end
                 end).
  { intro m. rewrite Htasks. apply find_post; assumption. }
  split; [|split; [|split]].
  - intros m y Hy. unfold T in Hy. rewrite Hfind in Hy. destruct (N.eqb_spec m n) as [->|Hne].
    + left. inversion Hy. auto.
    + right. destruct (find_task m (tasks s)) as [y0|] eqn:E0.
      * left. inversion Hy; subst. auto.
      * right. destruct nw as [|nt [|z r]]; try discriminate Hy.
        destruct (N.eqb_spec (t_name nt) m) as [E1|E1]; [|discriminate Hy]. inversion Hy; subst.
        destruct (pi_new _ _ _ _ _ _ Htr) as [E0'|(pc & nm & ws & b & E2 & _)]; [discriminate E0'|].
        inversion E2; subst y. cbn. auto 10.
  - intros m y Hy Hne. unfold T in *. rewrite Hfind. destruct (N.eqb_spec m n); [contradiction|]. rewrite Hy. reflexivity.
  - unfold T. rewrite Hfind, N.eqb_refl. reflexivity.
  - intro c. rewrite Hcf. destruct fl; [|auto]. destruct (N.eq_dec c (t_ctx t)) as [->|Hne]; [auto|].
    left. apply ctx_failed_fail_other. assumption.
Qed.

Lemma runner_step_sum s s' :
  runner_step s s' ->
  exists t st' fl nw evs, T s (t_name t) t /\ trans s t st' fl nw evs /\ post s t s' st' fl nw evs.
Proof.
  intros [n [H|H]].
  - simpl in H. destruct (find_task n (tasks s)) as [t|] eqn:E; [|discriminate H].
    pose proof (find_task_some _ _ _ E) as [Hn _].
    destruct (task_step_sum _ _ _ H) as (st' & fl & nw & evs & A & B).
    exists t, st', fl, nw, evs. split; [unfold T; rewrite Hn; exact E | auto].
  - destruct (abort_sum _ _ _ H) as (t & pc & A & _ & _ & B & C).
    exists t, Closing, false, [], []. split; [rewrite (T_name _ _ _ A); exact A | auto].
Qed.

Lemma trans_evs s t st' fl nw evs : trans s t st' fl nw evs -> evs = [] \/ exists e, evs = [e].
Proof. intro H. destruct H; eauto. Qed.

Lemma trans_bb s t st' fl nw evs m ws :
  trans s t st' fl nw evs -> In (EBodyBegin m ws) evs -> m = t_name t.
Proof. intro H. destruct H; simpl; intro Hin; try contradiction; destruct Hin as [E|[]]; inversion E; reflexivity. Qed.

(** * The invariant of the try system built on it *)

(** Every task of the separated context registered so far finished before any handler began. *)
Definition Qsplit (tb : tryblock) (s : state) : Prop :=
  forall a h c ws b, In (h, c) (hpairs tb) -> log s = a ++ EBodyBegin (s_name h) ws :: b ->
  forall n x, T s n x -> t_ctx x = tb_sep tb -> exists ok, In (EFinished n ok) b.

Lemma Q_step tb s s' evs :
  Qsplit tb s -> log s' = evs ++ log s -> (evs = [] \/ exists e, evs = [e]) ->
  ((exists h c ws, In (h, c) (hpairs tb) /\ In (EBodyBegin (s_name h) ws) (log s)) ->
   forall n x, T s' n x -> t_ctx x = tb_sep tb -> exists x0, T s n x0 /\ t_ctx x0 = tb_sep tb) ->
  (forall h c ws, In (h, c) (hpairs tb) -> evs = [EBodyBegin (s_name h) ws] ->
   forall n x, T s' n x -> t_ctx x = tb_sep tb -> exists ok, In (EFinished n ok) (log s)) ->
  Qsplit tb s'.
Proof.
  intros HQ Hl He HA HB a h c ws b Hh E n x Hx Hc. rewrite Hl in E.
  assert (Old : forall a', log s = a' ++ EBodyBegin (s_name h) ws :: b -> exists ok, In (EFinished n ok) b).
  { intros a' E'. destruct (HA) with (n := n) (x := x) as [x0 [A B]]; auto.
    - exists h, c, ws. split; [assumption|]. rewrite E'. apply in_or_app. right. left. reflexivity.
    - eapply HQ; eauto. }
  destruct He as [->|[e ->]]; [apply (Old a); exact E|].
  destruct a as [|e' a']; simpl in E; inversion E; subst.
  - eapply HB; eauto.
  - apply (Old a'). assumption.
Qed.

Record XI (tb : tryblock) (t : tstate) : Prop := {
  xi_oa : OA tb (rs t);
  xi_st_fin : forall h, tb_finally tb = Some h -> registered (s_name h) (tasks (rs t)) = true -> 2 < stage (pc t);
  xi_st_fail : forall h, tb_fail tb = Some h -> registered (s_name h) (tasks (rs t)) = true -> 3 < stage (pc t);
  xi_st_succ : forall h, tb_success tb = Some h -> registered (s_name h) (tasks (rs t)) = true -> 4 < stage (pc t);
  xi_norej : ~ rejected_any tb (rs t);
  xi_start : pc t = TStart -> tasks (rs t) = [];
  xi_sepfin : catched t <> None ->
              forall n x, T (rs t) n x -> t_ctx x = tb_sep tb -> is_finished (t_st x) = true;
  xi_fz : forall r c x ok, In (r, c) (croots tb) -> T (rs t) r x -> t_st x = Finished ok ->
          ok = negb (ctx_failed c (rs t));
  xi_catch : forall e, catched t = Some e -> e = ctx_failed (tb_sep tb) (rs t);
  xi_coll : match pc t with
            | TCollect r => forall p, In p (subd t) -> In p r \/ (ctx_failed (snd p) (rs t) = true -> pend t = true)
            | TDone => forall p, In p (subd t) -> ctx_failed (snd p) (rs t) = true -> pend t = true
            | _ => True
            end;
  xi_q : Qsplit tb (rs t) }.

Lemma root_ctx tb co s r c x : RI tb co s -> In (r, c) (croots tb) -> T s r x -> t_ctx x = c.
Proof.
  intros HR Hr Hx. pose proof (find_task_some _ _ _ Hx) as [Hn Hin].
  destruct (ri_hw _ _ _ HR x Hin) as [A B].
  destruct (croots_inv _ _ _ Hr) as [[-> ->]|[h [Hh ->]]]; [auto|]. apply (B h c Hh Hn).
Qed.

Lemma reg_catched tb t h c :
  wf tb -> TI tb t -> In (h, c) (hpairs tb) -> registered (s_name h) (tasks (rs t)) = true -> catched t <> None.
Proof.
  intros W HI Hh R. pose proof (ti_ri _ _ HI) as HR.
  apply registered_in in R. apply in_map_iff in R as [x [En Hx]].
  assert (Hhand : In h (handlers tb)) by (eapply hpairs_handler; eauto).
  eapply allowed_handler_catched; eauto.
  rewrite <- En. apply (ri_names _ _ _ HR x Hx). rewrite En. apply handler_in_top. assumption.
Qed.

Lemma bb_catched tb t h c ws :
  wf tb -> TI tb t -> In (h, c) (hpairs tb) -> In (EBodyBegin (s_name h) ws) (log (rs t)) -> catched t <> None.
Proof.
  intros W HI Hh Hin. destruct (RI_Inv _ _ _ (ti_ri _ _ HI)) as [HInv _].
  eapply reg_catched; eauto. apply (inv_evreg _ HInv _ Hin). reflexivity.
Qed.

Lemma XI_runner tb t s' :
  wf tb -> fresh tb -> TI tb t -> XI tb t -> runner_step (rs t) s' -> XI tb (with_rs s' t).
Proof.
  intros W F HI HX Hstep. pose proof (ti_ri _ _ HI) as HR.
  destruct (RI_runner _ _ _ _ W HR Hstep) as (R1 & Hincl & Hrej & Hreg & Hregb & Hfm & Hpar).
  destruct (RI_Inv _ _ _ HR) as [HInv HInv2].
  destruct (runner_step_sum _ _ Hstep) as (t0 & st' & fl & nw & evs & HT & Htr & Hpost).
  destruct (post_facts _ _ _ _ _ _ _ HT Htr Hpost) as (Hcase & Hold & Hself & Hcf).
  pose proof (xi_oa _ _ HX) as HO. pose proof (pi_unfin _ _ _ _ _ _ Htr) as Hunf.
  assert (Hsep : catched t <> None -> t_ctx t0 <> tb_sep tb).
  { intros Hc E. rewrite (xi_sepfin _ _ HX Hc _ _ HT E) in Hunf. discriminate Hunf. }
  assert (Hsepold : catched t <> None -> forall m y, T s' m y -> t_ctx y = tb_sep tb -> T (rs t) m y).
  { intros Hc m y Hy E. destruct (Hcase m y Hy) as [[-> ->]|[[Hne Ho]|(Hne & _ & E1 & _)]]; [|assumption|].
    - exfalso. apply (Hsep Hc). exact E.
    - exfalso. apply (Hsep Hc). congruence. }
  assert (Hrootfin : forall r c x, In (r, c) (croots tb) -> T (rs t) r x -> is_finished (t_st x) = true ->
                                   t_ctx t0 <> c).
  { intros r c x Hr Hx Hf E. rewrite (root_finished_all _ _ _ _ _ F HO Hr Hx Hf _ _ HT E) in Hunf. discriminate Hunf. }
  assert (Hhreg : forall h c, In (h, c) (hpairs tb) -> registered (s_name h) (tasks s') = true ->
                              registered (s_name h) (tasks (rs t)) = true).
  { intros h c Hh R. apply Hregb; [assumption|]. apply handler_in_top. eapply hpairs_handler; eauto. }
  split; cbn [rs pc catched subd pend with_rs mk].
  - eapply OA_act; eauto.
  - intros h Eh R. apply (xi_st_fin _ _ HX h Eh). eapply Hhreg; eauto. apply in_hpairs_fin; assumption.
  - intros h Eh R. apply (xi_st_fail _ _ HX h Eh). eapply Hhreg; eauto. apply in_hpairs_fail; assumption.
  - intros h Eh R. apply (xi_st_succ _ _ HX h Eh). eapply Hhreg; eauto. apply in_hpairs_succ; assumption.
  - intro R. apply (xi_norej _ _ HX). auto.
  - intro Ep. unfold T in HT. rewrite (xi_start _ _ HX Ep) in HT. discriminate HT.
  - intros Hc m y Hy E. pose proof (Hsepold Hc m y Hy E) as Ho. apply (xi_sepfin _ _ HX Hc _ _ Ho E).
  - intros r c x ok Hr Hx Est.
    destruct (Hcase r x Hx) as [[-> ->]|[[Hne Ho]|(Hne & _ & _ & Ew & _)]]; [| |congruence].
    + cbn in Est. assert (Hf : is_finished st' = true) by (rewrite Est; reflexivity).
      destruct (pi_fin _ _ _ _ _ _ Htr Hf) as (_ & Est' & Hfl & _). rewrite Est in Est'. inversion Est'; subst ok.
      rewrite (root_ctx _ _ _ _ _ _ HR Hr HT). destruct (Hcf c) as [->|[A _]]; [reflexivity|congruence].
    + rewrite (xi_fz _ _ HX _ _ _ _ Hr Ho Est). destruct (Hcf c) as [->|[_ A]]; [reflexivity|].
      exfalso. eapply (Hrootfin r c x); eauto. rewrite Est. reflexivity.
  - intros e He. rewrite (xi_catch _ _ HX e He). destruct (Hcf (tb_sep tb)) as [->|[_ A]]; [reflexivity|].
    exfalso. apply (Hsep); [congruence | auto].
  - assert (G : forall p, In p (subd t) -> finp (rs t) (fst p) -> ctx_failed (snd p) s' = true ->
                          ctx_failed (snd p) (rs t) = true).
    { intros [hn hc] Hp (x & ok & Hx & Est) Hc. cbn [fst snd] in *.
      destruct (Hcf hc) as [<-|[_ A]]; [assumption|]. exfalso.
      destruct (ti_subd _ _ HI _ _ Hp) as [h (Hh & -> & _)].
      eapply (Hrootfin (s_name h) hc x); eauto; [apply croots_handler; assumption | rewrite Est; reflexivity]. }
    pose proof (ti_col _ _ HI) as Hcol. pose proof (xi_coll _ _ HX) as Hxc.
    destruct (pc t) as [| | c | c | c | r |]; auto.
    + destruct Hcol as [_ Hcol]. intros p Hp. destruct (Hxc p Hp) as [A|A]; [auto|].
      destruct (Hcol p Hp) as [B|B]; [auto|]. right. intro Hc. apply A. apply G; assumption.
    + intros p Hp Hc. apply (Hxc p Hp). apply G; auto.
  - destruct Hpost as (_ & _ & Hlog & _).
    apply (Q_step tb (rs t) s' evs (xi_q _ _ HX) Hlog (trans_evs _ _ _ _ _ _ Htr)).
    + intros (h & c & ws & Hh & Hin) m y Hy E.
      assert (Hc : catched t <> None) by (eapply bb_catched; eauto).
      exists y. split; [apply (Hsepold Hc); assumption | assumption].
    + intros h c ws Hh Ev m y Hy E.
      assert (En : s_name h = t_name t0).
      { eapply trans_bb; eauto. rewrite Ev. left. reflexivity. }
      assert (Hc : catched t <> None).
      { eapply reg_catched; eauto. rewrite En. apply registered_find. eauto. }
      pose proof (Hsepold Hc m y Hy E) as Ho. pose proof (xi_sepfin _ _ HX Hc _ _ Ho E) as Hf.
      pose proof (inv_tasks _ HInv _ _ Ho) as [_ Hti]. destruct (t_st y); try discriminate Hf.
      exists ok. apply Hti.
Qed.

(** * Steps of the pip:try goroutine *)

Lemma create_accepts sb c p s :
  registered (s_name sb) (tasks s) = false -> s_waits sb = [] -> ctx_failed (mroot s) s = false ->
  create false sb c p s =
  (emit (ESubmitted (s_name sb) true)
        (with_counter (S (counter s)) (with_tasks (tasks s ++ [new_task sb c p s]) s)), true).
Proof. intros R Wt M. unfold create, new_task. rewrite R, Wt, M. reflexivity. Qed.

Lemma RI_mroot tb co s : RI tb co s -> mroot s = tb_par tb.
Proof. intros HR. destruct (ri_reach _ _ _ HR) as [sched ->]. rewrite mroot_run. reflexivity. Qed.

Lemma find_app_cases ts nt m y :
  find_task m (ts ++ [nt]) = Some y ->
  find_task m ts = Some y \/ (find_task m ts = None /\ t_name nt = m /\ y = nt).
Proof.
  intro H. destruct (find_task m ts) as [y0|] eqn:E.
  - rewrite (find_app_some _ _ _ _ E) in H. auto.
  - rewrite (find_app_none _ _ _ E) in H. destruct (N.eqb_spec (t_name nt) m) as [E1|E1]; [|discriminate H].
    right. inversion H; subst. repeat split; auto.
Qed.

Lemma Q_same tb s s1 : tasks s1 = tasks s -> log s1 = log s -> Qsplit tb s -> Qsplit tb s1.
Proof. intros Ht Hl HQ a h c ws b Hh E n x Hx. unfold T in Hx. rewrite Ht in Hx. rewrite Hl in E. eapply HQ; eauto. Qed.

(** The goroutine changes its own registers, logs the rejection of the body, or reports to the
    surrounding context. *)
Lemma XI_regs tb t s1 p hd co g pd :
  wf tb -> fresh tb -> TI tb t -> XI tb t ->
  tasks s1 = tasks (rs t) ->
  (forall c, c <> tb_par tb -> ctx_failed c s1 = ctx_failed c (rs t)) ->
  (log s1 = log (rs t) \/ log s1 = ESubmitted (nb tb) false :: log (rs t)) ->
  (forall h, tb_finally tb = Some h -> registered (s_name h) (tasks (rs t)) = true -> 2 < stage p) ->
  (forall h, tb_fail tb = Some h -> registered (s_name h) (tasks (rs t)) = true -> 3 < stage p) ->
  (forall h, tb_success tb = Some h -> registered (s_name h) (tasks (rs t)) = true -> 4 < stage p) ->
  p <> TStart ->
  (co <> None -> forall n x, T (rs t) n x -> t_ctx x = tb_sep tb -> is_finished (t_st x) = true) ->
  (forall e, co = Some e -> e = ctx_failed (tb_sep tb) (rs t)) ->
  match p with
  | TCollect r => forall q, In q (subd t) -> In q r \/ (ctx_failed (snd q) (rs t) = true -> pd = true)
  | TDone => forall q, In q (subd t) -> ctx_failed (snd q) (rs t) = true -> pd = true
  | _ => True
  end ->
  XI tb (mk s1 p hd co (subd t) g pd).
Proof.
  intros W F HI HX Ht Hcf Hl S1 S2 S3 Hp Hsf Hca Hco.
  pose proof (ti_ri _ _ HI) as HR.
  assert (HT : forall n x, T s1 n x <-> T (rs t) n x) by (intros; unfold T; rewrite Ht; tauto).
  assert (Hsub : forall q, In q (subd t) -> snd q <> tb_par tb).
  { intros [hn hc] Hq. destruct (ti_subd _ _ HI _ _ Hq) as [h (A & _ & _)]. cbn. eapply wf_hctx; eauto. }
  split; cbn [rs pc catched subd pend mk].
  - apply (OA_same tb (rs t)); [apply HX | assumption |]. intros n x Hx. apply Hcf.
    apply (ri_npar _ _ _ HR). apply (find_task_some _ _ _ Hx).
  - rewrite Ht. assumption.
  - rewrite Ht. assumption.
  - rewrite Ht. assumption.
  - intros [h [A B]]. destruct Hl as [Hl|Hl]; rewrite Hl in B.
    + apply (xi_norej _ _ HX). exists h. auto.
    + destruct B as [B|B].
      * inversion B. eapply handler_not_nb; eauto.
      * apply (xi_norej _ _ HX). exists h. auto.
  - intro E. contradiction.
  - intros Hc n x Hx E. apply HT in Hx. eapply Hsf; eauto.
  - intros r c x ok Hr Hx Est. apply HT in Hx. rewrite (Hcf c (croots_npar _ _ _ F Hr)).
    apply (xi_fz _ _ HX _ _ _ _ Hr Hx Est).
  - intros e He. rewrite (Hcf _ (wf_ctx _ W)). auto.
  - destruct p; auto.
    + intros q Hq. destruct (Hco q Hq) as [A|A]; [auto|]. right. rewrite (Hcf _ (Hsub q Hq)). assumption.
    + intros q Hq. rewrite (Hcf _ (Hsub q Hq)). apply Hco. assumption.
  - destruct Hl as [Hl|Hl]; [eapply Q_same; eauto; apply HX|].
    apply (Q_step tb (rs t) s1 [ESubmitted (nb tb) false] (xi_q _ _ HX)); [assumption | eauto | |].
    + intros _ n x Hx E. apply HT in Hx. eauto.
    + intros h c ws _ Ev. discriminate Ev.
Qed.

(** An accepted submission of the root task of a fresh context by the goroutine. *)
Lemma XI_created tb t sb cx p hd l g :
  wf tb -> fresh tb -> TI tb t -> XI tb t ->
  In (s_name sb, cx) (croots tb) -> registered (s_name sb) (tasks (rs t)) = false ->
  (cx = tb_sep tb -> catched t = None) ->
  let s1 := emit (ESubmitted (s_name sb) true)
                 (with_counter (S (counter (rs t))) (with_tasks (tasks (rs t) ++ [new_task sb cx None (rs t)]) (rs t))) in
  (forall h, tb_finally tb = Some h -> registered (s_name h) (tasks (rs t)) = true \/ s_name h = s_name sb -> 2 < stage p) ->
  (forall h, tb_fail tb = Some h -> registered (s_name h) (tasks (rs t)) = true \/ s_name h = s_name sb -> 3 < stage p) ->
  (forall h, tb_success tb = Some h -> registered (s_name h) (tasks (rs t)) = true \/ s_name h = s_name sb -> 4 < stage p) ->
  p <> TStart ->
  match p with TCollect r => r = l | TDone => False | _ => True end ->
  XI tb (mk s1 p hd (catched t) l g (pend t)).
Proof.
  intros W F HI HX Hr R Hsep0 s1 S1 S2 S3 Hp Hcoll.
  pose proof (ti_ri _ _ HI) as HR. destruct (RI_Inv _ _ _ HR) as [HInv HInv2]. pose proof (xi_oa _ _ HX) as HO.
  assert (Hcase : forall m y, T s1 m y -> T (rs t) m y \/ (m = s_name sb /\ y = new_task sb cx None (rs t))).
  { intros m y Hy. unfold T in Hy. cbn [s1 tasks emit with_counter with_tasks] in Hy.
    apply find_app_cases in Hy as [A|(_ & A & B)]; [auto|]. right. cbn in A. auto. }
  assert (Hregb : forall m, registered m (tasks s1) = true -> registered m (tasks (rs t)) = true \/ m = s_name sb).
  { intros m Hm. cbn [s1 tasks emit with_counter with_tasks] in Hm. rewrite registered_app in Hm.
    apply orb_true_iff in Hm as [Hm|Hm]; [auto|]. right. cbn in Hm. apply N.eqb_eq in Hm. auto. }
  assert (Hnf : ctx_failed cx (rs t) = false).
  { destruct (ctx_failed cx (rs t)) eqn:E; [exfalso|reflexivity].
    destruct (ri_culprit _ _ _ HR cx E) as [[x (X1 & X2 & _)]|X].
    - pose proof (in_find _ _ _ (inv_nodup _ HInv2) X1 eq_refl) as Hx.
      destruct (oa_root _ _ HO _ _ Hx) as (r & c & A & B & C & _). rewrite X2 in B. subst c.
      rewrite (croots_unique _ _ _ _ F A Hr) in C. congruence.
    - eapply croots_npar; eauto. }
  assert (Hsepold : catched t <> None -> forall m y, T s1 m y -> t_ctx y = tb_sep tb -> T (rs t) m y).
  { intros Hc m y Hy E. destruct (Hcase m y Hy) as [Ho|[-> ->]]; [assumption|].
    exfalso. cbn in E. apply Hc. auto. }
  split; cbn [rs pc catched subd pend mk].
  - eapply (OA_create tb (rs t) s1 sb cx); eauto.
  - intros h Eh Rg. apply (S1 h Eh). destruct (Hregb _ Rg); auto.
  - intros h Eh Rg. apply (S2 h Eh). destruct (Hregb _ Rg); auto.
  - intros h Eh Rg. apply (S3 h Eh). destruct (Hregb _ Rg); auto.
  - intros [h [A B]]. cbn [s1 log emit with_counter with_tasks] in B. destruct B as [B|B]; [discriminate B|].
    apply (xi_norej _ _ HX). exists h. auto.
  - intro E. contradiction.
  - intros Hc m y Hy E. apply (xi_sepfin _ _ HX Hc _ _ (Hsepold Hc m y Hy E) E).
  - intros r c x ok Hrc Hx Est. destruct (Hcase r x Hx) as [Ho|[-> ->]]; [|discriminate Est].
    apply (xi_fz _ _ HX _ _ _ _ Hrc Ho Est).
  - apply (xi_catch _ _ HX).
  - destruct p; auto; try contradiction. subst. auto.
  - apply (Q_step tb (rs t) s1 [ESubmitted (s_name sb) true] (xi_q _ _ HX)); [reflexivity | eauto | |].
    + intros (h & c & ws & Hh & Hin) m y Hy E.
      assert (Hc : catched t <> None) by (eapply bb_catched; eauto).
      exists y. split; [apply (Hsepold Hc); assumption | assumption].
    + intros h c ws _ Ev. discriminate Ev.
Qed.

Lemma handler_ctx_not_sep tb h c : wf tb -> fresh tb -> In (h, c) (hpairs tb) -> c <> tb_sep tb.
Proof.
  intros W F Hh E. subst c. apply (handler_not_nb tb h W); [eapply hpairs_handler; eauto|].
  apply (croots_unique tb (s_name h) (nb tb) (tb_sep tb) F); [apply croots_handler; assumption | apply croots_body].
Qed.

Ltac stage_ob X1 X2 X3 D1 D2 D3 :=
  let h' := fresh "h'" in let Eh' := fresh "Eh'" in let HA := fresh "HA" in
  intros h' Eh' HA; simpl;
  first [ lia
        | destruct HA as [HA|HA];
          [ first [ specialize (X1 h' Eh' HA); simpl in X1; lia
                  | specialize (X2 h' Eh' HA); simpl in X2; lia
                  | specialize (X3 h' Eh' HA); simpl in X3; lia ]
          | exfalso;
            first [ eapply D1; eauto; fail | eapply D2; eauto; fail | eapply D3; eauto; fail
                  | symmetry in HA;
                    first [ eapply D1; eauto; fail | eapply D2; eauto; fail | eapply D3; eauto; fail ] ] ] ].

Ltac stage_ob2 X1 X2 X3 :=
  let h' := fresh "h'" in let Eh' := fresh "Eh'" in let HA := fresh "HA" in
  intros h' Eh' HA; simpl;
  first [ lia | discriminate Eh'
        | specialize (X1 h' Eh' HA); simpl in X1; lia
        | specialize (X2 h' Eh' HA); simpl in X2; lia
        | specialize (X3 h' Eh' HA); simpl in X3; lia ].

Lemma XI_try tb t t' :
  wf tb -> fresh tb -> TI tb t -> XI tb t -> try_step MFixed tb t = Some t' -> XI tb t'.
Proof.
  intros W F HI HX. pose proof (ti_pc _ _ HI) as Hpc. pose proof (ti_ri _ _ HI) as HR.
  destruct (names_distinct tb W) as (D1 & D2 & D3).
  pose proof (xi_st_fin _ _ HX) as X1. pose proof (xi_st_fail _ _ HX) as X2. pose proof (xi_st_succ _ _ HX) as X3.
  assert (Hsubmit : forall h cx next, In (h, cx) (hpairs tb) -> registered (s_name h) (tasks (rs t)) = false ->
            pc t <> TDone ->
            submit_handler MFixed tb h cx next t =
            mk (emit (ESubmitted (s_name h) true)
                     (with_counter (S (counter (rs t))) (with_tasks (tasks (rs t) ++ [new_task h cx None (rs t)]) (rs t))))
               (next (subd t ++ [(s_name h, cx)])) (hold t) (catched t) (subd t ++ [(s_name h, cx)]) (coll t) (pend t)).
  { intros h cx next Hh R Hnd. unfold submit_handler. cbn [hctx early].
    rewrite (create_accepts h cx None (rs t) R).
    - reflexivity.
    - apply (wf_waits _ W). eapply hpairs_handler; eauto.
    - rewrite (RI_mroot _ _ _ HR). apply (TI_healthy _ _ HI Hnd). }
  pose proof (xi_sepfin _ _ HX) as Xsf. pose proof (xi_catch _ _ HX) as Xca. pose proof (xi_coll _ _ HX) as Hco.
  unfold try_step. destruct (pc t) as [| | c | c | c | [|[hn hc] rest] |] eqn:Epc.
  - (* TStart *)
    assert (Hnp : ctx_failed (tb_par tb) (rs t) = false) by (apply (TI_healthy _ _ HI); rewrite Epc; discriminate).
    rewrite Hnp. pose proof (xi_start _ _ HX Epc) as Ht0.
    pose proof (ti_col _ _ HI) as Hsub0. rewrite Epc in Hsub0.
    assert (Hnoreg : forall m, registered m (tasks (rs t)) = true -> False) by (intro m; rewrite Ht0; discriminate).
    destruct (create_false_cases (tb_body tb) (tb_sep tb) None (rs t)) as [Ec|(R & V & Ec)]; rewrite Ec;
      intro H; inversion H; subst t'; clear H.
    + apply (XI_regs tb t (emit (ESubmitted (s_name (tb_body tb)) false) (rs t)) TDone false None (coll t) (pend t)
                     W F HI HX eq_refl (fun _ _ => eq_refl) (or_intror eq_refl));
        [ intros h _ R; exfalso; eapply Hnoreg; eauto | intros h _ R; exfalso; eapply Hnoreg; eauto
        | intros h _ R; exfalso; eapply Hnoreg; eauto | discriminate | intro E; congruence | discriminate
        | rewrite Hsub0; intros q [] ].
    + replace (@None bool) with (catched t).
      apply (XI_created tb t (tb_body tb) (tb_sep tb) TWaitBody true (subd t) (coll t) W F HI HX (croots_body tb) R);
        [ auto | | | | discriminate | exact I ].
      * intros h Eh [A|A]; exfalso; [eapply Hnoreg; eauto|].
        eapply (handler_not_nb tb h W); [eapply hpairs_handler; apply in_hpairs_fin; eauto | exact A].
      * intros h Eh [A|A]; exfalso; [eapply Hnoreg; eauto|].
        eapply (handler_not_nb tb h W); [eapply hpairs_handler; apply in_hpairs_fail; eauto | exact A].
      * intros h Eh [A|A]; exfalso; [eapply Hnoreg; eauto|].
        eapply (handler_not_nb tb h W); [eapply hpairs_handler; apply in_hpairs_succ; eauto | exact A].
  - (* TWaitBody *)
    destruct (find_task (s_name (tb_body tb)) (tasks (rs t))) as [b|] eqn:Eb; [|intro HH; discriminate HH].
    destruct (is_finished (t_st b)) eqn:Efin; [|intro HH; discriminate HH].
    intro H; inversion H; subst t'; clear H.
    apply (XI_regs tb t (rs t) _ _ _ _ _ W F HI HX eq_refl (fun _ _ => eq_refl) (or_introl eq_refl));
      [ stage_ob2 X1 X2 X3 | stage_ob2 X1 X2 X3 | stage_ob2 X1 X2 X3 | discriminate | | | exact I ].
    + intros _. apply (root_finished_all tb (rs t) (nb tb) (tb_sep tb) b F (xi_oa _ _ HX) (croots_body tb) Eb Efin).
    + intros e He. inversion He. reflexivity.
  - (* TFinally *)
    destruct (tb_finally tb) as [h|] eqn:Eh; intro H; inversion H; subst t'; clear H.
    + destruct (registered (s_name h) (tasks (rs t))) eqn:R; [specialize (X1 h eq_refl R); simpl in X1; lia|].
      rewrite (Hsubmit h (tb_cfin tb) _ (in_hpairs_fin _ _ Eh) R) by discriminate.
      apply (XI_created tb t h (tb_cfin tb) (TFail c) (hold t) _ (coll t) W F HI HX
                        (croots_handler _ _ _ (in_hpairs_fin _ _ Eh)) R);
        [ intro E; exfalso; apply (handler_ctx_not_sep tb h _ W F (in_hpairs_fin _ _ Eh) E)
        | stage_ob X1 X2 X3 D1 D2 D3 | stage_ob X1 X2 X3 D1 D2 D3 | stage_ob X1 X2 X3 D1 D2 D3
        | discriminate | exact I ].
    + unfold goto.
      apply (XI_regs tb t (rs t) _ _ _ _ _ W F HI HX eq_refl (fun _ _ => eq_refl) (or_introl eq_refl));
        [ stage_ob2 X1 X2 X3 | stage_ob2 X1 X2 X3 | stage_ob2 X1 X2 X3 | discriminate | exact Xsf | exact Xca | exact I ].
  - (* TFail *)
    assert (Hgoto : XI tb (goto (TSuccess c) t)).
    { unfold goto.
      apply (XI_regs tb t (rs t) _ _ _ _ _ W F HI HX eq_refl (fun _ _ => eq_refl) (or_introl eq_refl));
        [ stage_ob2 X1 X2 X3 | stage_ob2 X1 X2 X3 | stage_ob2 X1 X2 X3 | discriminate | exact Xsf | exact Xca | exact I ]. }
    destruct (tb_fail tb) as [h|] eqn:Eh; [destruct c|]; intro H; inversion H; subst t'; clear H; auto.
    destruct (registered (s_name h) (tasks (rs t))) eqn:R; [specialize (X2 h eq_refl R); simpl in X2; lia|].
    rewrite (Hsubmit h (tb_cfail tb) _ (in_hpairs_fail _ _ Eh) R) by discriminate.
    apply (XI_created tb t h (tb_cfail tb) (TSuccess true) (hold t) _ (coll t) W F HI HX
                      (croots_handler _ _ _ (in_hpairs_fail _ _ Eh)) R);
      [ intro E; exfalso; apply (handler_ctx_not_sep tb h _ W F (in_hpairs_fail _ _ Eh) E)
      | stage_ob X1 X2 X3 D1 D2 D3 | stage_ob X1 X2 X3 D1 D2 D3 | stage_ob X1 X2 X3 D1 D2 D3
      | discriminate | exact I ].
  - (* TSuccess *)
    assert (Hgoto : XI tb (goto (TCollect (subd t)) t)).
    { unfold goto.
      apply (XI_regs tb t (rs t) _ _ _ _ _ W F HI HX eq_refl (fun _ _ => eq_refl) (or_introl eq_refl));
        [ stage_ob2 X1 X2 X3 | stage_ob2 X1 X2 X3 | stage_ob2 X1 X2 X3 | discriminate | exact Xsf | exact Xca | auto ]. }
    destruct (tb_success tb) as [h|] eqn:Eh; [destruct c|]; intro H; inversion H; subst t'; clear H; auto.
    destruct (registered (s_name h) (tasks (rs t))) eqn:R; [specialize (X3 h eq_refl R); simpl in X3; lia|].
    rewrite (Hsubmit h (tb_csucc tb) _ (in_hpairs_succ _ _ Eh) R) by discriminate.
    apply (XI_created tb t h (tb_csucc tb) (TCollect _) (hold t) _ (coll t) W F HI HX
                      (croots_handler _ _ _ (in_hpairs_succ _ _ Eh)) R);
      [ intro E; exfalso; apply (handler_ctx_not_sep tb h _ W F (in_hpairs_succ _ _ Eh) E)
      | stage_ob X1 X2 X3 D1 D2 D3 | stage_ob X1 X2 X3 D1 D2 D3 | stage_ob X1 X2 X3 D1 D2 D3
      | discriminate | reflexivity ].
  - (* TCollect [] *)
    simpl early. simpl negb. rewrite andb_true_r.
    intro H; inversion H; subst t'; clear H.
    apply (XI_regs tb t _ TDone false (catched t) (coll t) (pend t) W F HI HX);
      [ | | | stage_ob2 X1 X2 X3 | stage_ob2 X1 X2 X3 | stage_ob2 X1 X2 X3 | discriminate | exact Xsf | exact Xca | ].
    + destruct (pend t); [apply fail_ctx_tasks | reflexivity].
    + intros c Hc. destruct (pend t); [apply ctx_failed_fail_other; assumption | reflexivity].
    + left. destruct (pend t); [apply fail_ctx_log | reflexivity].
    + intros q Hq. destruct (Hco q Hq) as [[]|A]. assumption.
  - (* TCollect (p :: rest) *)
    destruct (find_task hn (tasks (rs t))) as [x|] eqn:Ex; [|intro HH; discriminate HH].
    destruct (is_finished (t_st x)) eqn:Efin; [|intro HH; discriminate HH].
    simpl early. rewrite andb_false_r.
    intro H; inversion H; subst t'; clear H.
    apply (XI_regs tb t (rs t) _ _ _ _ _ W F HI HX eq_refl (fun _ _ => eq_refl) (or_introl eq_refl));
      [ stage_ob2 X1 X2 X3 | stage_ob2 X1 X2 X3 | stage_ob2 X1 X2 X3 | discriminate | exact Xsf | exact Xca | ].
    intros q Hq. destruct (Hco q Hq) as [[<-|A]|A]; auto.
    + right. cbn [snd]. intros ->. apply orb_true_r.
    + right. intro B. rewrite (A B). reflexivity.
  - intro HH. discriminate HH.
Qed.

Lemma XI_init tb : XI tb (tinit tb).
Proof.
  split; cbn; try (intros; discriminate); try tauto.
  - split; cbn; intros; discriminate.
  - intros [h [_ []]].
Qed.

Lemma TIXI_run tb tsched : wf tb -> fresh tb ->
  TI tb (trun MFixed tb tsched (tinit tb)) /\ XI tb (trun MFixed tb tsched (tinit tb)).
Proof.
  intros W F.
  assert (G : forall tsched t, TI tb t /\ XI tb t -> TI tb (trun MFixed tb tsched t) /\ XI tb (trun MFixed tb tsched t)).
  { clear tsched. induction tsched as [|l r IH]; intros t [HI HX]; simpl; [auto|].
    apply IH. unfold tstep_skip. destruct (tstep MFixed tb l t) as [t'|] eqn:E; [|auto].
    destruct l as [n | n |]; unfold tstep in E.
    - destruct (step false (LTask n) (rs t)) as [s|] eqn:Es; [|discriminate]. inversion E; subst.
      assert (runner_step (rs t) s) by (exists n; left; assumption).
      split; [apply TI_runner; auto | apply XI_runner; auto].
    - destruct (step false (LAbort n) (rs t)) as [s|] eqn:Es; [|discriminate]. inversion E; subst.
      assert (runner_step (rs t) s) by (exists n; right; assumption).
      split; [apply TI_runner; auto | apply XI_runner; auto].
    - split; [eapply TI_try; eauto | eapply XI_try; eauto]. }
  apply G. split; [apply TI_init | apply XI_init].
Qed.

(** * The body's outcome is what the goroutine read *)

Definition BI (tb : tryblock) (t : tstate) : Prop :=
  registered (nb tb) (tasks (rs t)) = true -> pc t = TWaitBody \/ catched t <> None.

Lemma submit_catched m tb h c next t : catched (submit_handler m tb h c next t) = catched t.
Proof.
  unfold submit_handler. destruct (create false h (hctx m tb c) None (rs t)) as [s1 acc].
  destruct acc; [reflexivity|]. destruct (early m); reflexivity.
Qed.

Lemma submit_tasks_reg m tb h c next t n :
  registered n (tasks (rs (submit_handler m tb h c next t))) = true ->
  registered n (tasks (rs t)) = true \/ n = s_name h.
Proof.
  unfold submit_handler.
  destruct (create_false_cases h (hctx m tb c) None (rs t)) as [E|(R & V & E)]; rewrite E.
  - destruct (early m); cbn [rs mk]; rewrite ?fail_ctx_tasks; auto.
  - cbn [rs mk tasks emit with_counter with_tasks]. rewrite registered_app. intro H.
    apply orb_true_iff in H as [H|H]; [auto|]. right. cbn in H. apply N.eqb_eq in H. auto.
Qed.

Lemma BI_try tb t t' : wf tb -> TI tb t -> XI tb t -> BI tb t -> try_step MFixed tb t = Some t' -> BI tb t'.
Proof.
  intros W HI HX HB. pose proof (ti_pc _ _ HI) as Hpc. unfold try_step, BI in *.
  assert (Hsub : forall h c0 c next, catched t = Some c0 -> In h (handlers tb) ->
            registered (nb tb) (tasks (rs (submit_handler MFixed tb h c next t))) = true ->
            pc (submit_handler MFixed tb h c next t) = TWaitBody \/ catched (submit_handler MFixed tb h c next t) <> None).
  { intros h c0 c next Hc _ _. right. rewrite submit_catched, Hc. discriminate. }
  destruct (pc t) as [| | c | c | c | [|[hn hc] rest] |] eqn:Epc.
  - pose proof (xi_start _ _ HX Epc) as Ht0.
    destruct (ctx_failed (tb_par tb) (rs t)).
    + intro H; inversion H; subst t'. cbn [rs mk]. rewrite Ht0. discriminate.
    + destruct (create_false_cases (tb_body tb) (tb_sep tb) None (rs t)) as [E|(R & V & E)]; rewrite E;
        intro H; inversion H; subst t'; cbn [rs mk pc catched tasks emit].
      * rewrite Ht0. discriminate.
      * auto.
  - destruct (find_task _ _) as [b|]; [|intro HH; discriminate HH].
    destruct (is_finished (t_st b)); [|intro HH; discriminate HH].
    intro H; inversion H; subst t'. cbn [catched mk]. intros _. right. discriminate.
  - destruct (tb_finally tb) as [h|] eqn:Eh; intro H; inversion H; subst t'.
    + intro R. right. rewrite submit_catched, Hpc. discriminate.
    + intros _. right. cbn. rewrite Hpc. discriminate.
  - destruct (tb_fail tb) as [h|]; [destruct c|]; intro H; inversion H; subst t'; intros _; right;
      rewrite ?submit_catched; cbn; rewrite Hpc; discriminate.
  - destruct (tb_success tb) as [h|]; [destruct c|]; intro H; inversion H; subst t'; intros _; right;
      rewrite ?submit_catched; cbn; rewrite Hpc; discriminate.
  - intro H; inversion H; subst t'. cbn [rs mk pc catched]. intro R.
    assert (R' : registered (nb tb) (tasks (rs t)) = true).
    { revert R. destruct (pend t); simpl; rewrite ?fail_ctx_tasks; auto. }
    destruct (HB R') as [A|A]; [discriminate A | auto].
  - destruct (find_task hn (tasks (rs t))) as [x|]; [|intro HH; discriminate HH].
    destruct (is_finished (t_st x)); [|intro HH; discriminate HH].
    intro H; inversion H; subst t'. cbn [rs mk pc catched]. simpl early. rewrite andb_false_r. intro R.
    destruct (HB R) as [A|A]; [discriminate A | auto].
  - intro HH; discriminate HH.
Qed.

Lemma TIXB_run tb tsched : wf tb -> fresh tb ->
  let t := trun MFixed tb tsched (tinit tb) in TI tb t /\ XI tb t /\ BI tb t.
Proof.
  intros W F.
  assert (G : forall tsched t, TI tb t /\ XI tb t /\ BI tb t ->
              TI tb (trun MFixed tb tsched t) /\ XI tb (trun MFixed tb tsched t) /\ BI tb (trun MFixed tb tsched t)).
  { clear tsched. induction tsched as [|l r IH]; intros t (HI & HX & HB); simpl; [auto|].
    apply IH. unfold tstep_skip. destruct (tstep MFixed tb l t) as [t'|] eqn:E; [|auto].
    assert (Run : forall s, runner_step (rs t) s -> TI tb (with_rs s t) /\ XI tb (with_rs s t) /\ BI tb (with_rs s t)).
    { intros s Hs. split; [apply TI_runner; auto|]. split; [apply XI_runner; auto|].
      destruct (RI_runner _ _ _ _ W (ti_ri _ _ HI) Hs) as (_ & _ & _ & _ & Hregb & _).
      intro R. apply HB. apply Hregb; [exact R | left; reflexivity]. }
    destruct l as [n | n |]; unfold tstep in E.
    - destruct (step false (LTask n) (rs t)) as [s|] eqn:Es; [|discriminate]. inversion E; subst.
      apply Run. exists n; left; assumption.
    - destruct (step false (LAbort n) (rs t)) as [s|] eqn:Es; [|discriminate]. inversion E; subst.
      apply Run. exists n; right; assumption.
    - split; [eapply TI_try; eauto|]. split; [eapply XI_try; eauto | eapply BI_try; eauto]. }
  apply G. split; [apply TI_init|]. split; [apply XI_init|]. intro R. discriminate R.
Qed.

(** * Tasks spawned (transitively) by a root task = the tasks of its context *)

Inductive desc (s : state) (r : name) : task -> Prop :=
| desc_root x : T s r x -> desc s r x
| desc_child n x p tp : T s n x -> t_parent x = Some p -> T s p tp -> desc s r tp -> desc s r x.

Lemma ctx_desc tb co s r c :
  fresh tb -> RI tb co s -> OA tb s -> In (r, c) (croots tb) ->
  forall n x, T s n x -> (t_ctx x = c <-> desc s r x).
Proof.
  intros F HR HO Hr.
  assert (G1 : forall k n x, t_idx x < k -> T s n x -> t_ctx x = c -> desc s r x).
  { induction k as [|k IH]; intros n x Hk Hx Hc; [lia|].
    destruct (oa_root _ _ HO _ _ Hx) as (r' & c' & A & B & _ & D).
    rewrite <- B, Hc in A. pose proof (croots_unique _ _ _ _ F A Hr) as ->.
    destruct (t_parent x) as [p|] eqn:Ep.
    - destruct (oa_par _ _ HO _ _ _ Hx Ep) as [tp (P1 & P2 & P3 & _)].
      eapply desc_child; eauto. apply (IH p tp); [lia | assumption | congruence].
    - specialize (D eq_refl). subst n. apply desc_root. assumption. }
  assert (G2 : forall x, desc s r x -> t_ctx x = c).
  { intros x Hd. induction Hd as [x Hx | n x p tp Hx Hp Htp Hd IH].
    - eapply root_ctx; eauto.
    - destruct (oa_par _ _ HO _ _ _ Hx Hp) as [tp' (P1 & _ & P3 & _)].
      unfold T in P1, Htp. rewrite Htp in P1. inversion P1; subst. congruence. }
  intros n x Hx. split; [apply (G1 (S (t_idx x)) n x); auto | apply G2].
Qed.

(** * The statements *)

Section Reach2.
Variable tb : tryblock.
Variable tsched : list tlabel.
Hypothesis W : wf tb.
Hypothesis F : fresh tb.
Let t := trun MFixed tb tsched (tinit tb).

Lemma never_rejected : ~ rejected_any tb (rs t).
Proof. destruct (TIXB_run tb tsched W F) as (_ & HX & _). apply (xi_norej _ _ HX). Qed.

(** [catched] is the outcome of the body task. *)
Lemma catched_outcome e :
  catched t = Some e -> exists x, T (rs t) (nb tb) x /\ t_st x = Finished (negb e).
Proof.
  intro Hc. destruct (TIXB_run tb tsched W F) as (HI & HX & _). fold t in HI, HX.
  pose proof (ti_ri _ _ HI) as HR. destruct (RI_Inv _ _ _ HR) as [HInv _].
  destruct (ri_catch _ _ _ HR) as [ok Hin]; [rewrite Hc; discriminate|].
  destruct (inv_fin _ HInv _ _ Hin) as [x [Hx Est]]. exists x. split; [assumption|].
  rewrite (xi_fz _ _ HX _ _ _ _ (croots_body tb) Hx Est), <- (xi_catch _ _ HX e Hc) in Est. assumption.
Qed.

Lemma final_catched x ok :
  tfinal t = true -> T (rs t) (nb tb) x -> t_st x = Finished ok -> catched t = Some (negb ok).
Proof.
  intros Hfin Hx Est. destruct (TIXB_run tb tsched W F) as (HI & HX & HB). fold t in HI, HX, HB.
  unfold tfinal in Hfin. destruct (pc t) eqn:Epc; try discriminate Hfin.
  destruct HB as [A|A]; [apply registered_find; eauto | congruence |].
  destruct (catched t) as [e|] eqn:Ec; [|contradiction].
  destruct (catched_outcome e Ec) as [x' [Hx' Est']]. unfold T in Hx, Hx'. rewrite Hx in Hx'. inversion Hx'; subst x'.
  rewrite Est in Est'. inversion Est'. rewrite Bool.negb_involutive. reflexivity.
Qed.

(** Handlers begin after every task of the separated context has finished ... *)
Lemma after_body_all a h c ws b :
  In (h, c) (hpairs tb) -> log (rs t) = a ++ EBodyBegin (s_name h) ws :: b ->
  forall x, In x (tasks (rs t)) -> t_ctx x = tb_sep tb -> exists ok, In (EFinished (t_name x) ok) b.
Proof.
  intros Hh E x Hx Hc. destruct (TIXB_run tb tsched W F) as (HI & HX & _). fold t in HI, HX.
  destruct (RI_Inv _ _ _ (ti_ri _ _ HI)) as [_ HInv2].
  eapply (xi_q _ _ HX); eauto. apply in_find; [apply (inv_nodup _ HInv2) | assumption | reflexivity].
Qed.

(** ... and these are exactly the body task and the tasks it spawned, transitively. *)
Lemma after_body_spawned a h c ws b :
  In (h, c) (hpairs tb) -> log (rs t) = a ++ EBodyBegin (s_name h) ws :: b ->
  forall x, desc (rs t) (nb tb) x -> exists ok, In (EFinished (t_name x) ok) b.
Proof.
  intros Hh E x Hd. destruct (TIXB_run tb tsched W F) as (HI & HX & _). fold t in HI, HX.
  assert (Hx : T (rs t) (t_name x) x).
  { destruct Hd as [x Hx | n x p tp Hx _ _ _]; rewrite (T_name _ _ _ Hx); assumption. }
  eapply after_body_all; eauto.
  - apply (find_task_some _ _ _ Hx).
  - apply (ctx_desc tb _ (rs t) (nb tb) (tb_sep tb) F (ti_ri _ _ HI) (xi_oa _ _ HX) (croots_body tb) _ x Hx). assumption.
Qed.

Lemma sep_is_spawned x :
  In x (tasks (rs t)) -> (t_ctx x = tb_sep tb <-> desc (rs t) (nb tb) x).
Proof.
  intro Hx. destruct (TIXB_run tb tsched W F) as (HI & HX & _). fold t in HI, HX.
  destruct (RI_Inv _ _ _ (ti_ri _ _ HI)) as [_ HInv2].
  apply (ctx_desc tb _ (rs t) (nb tb) (tb_sep tb) F (ti_ri _ _ HI) (xi_oa _ _ HX) (croots_body tb) (t_name x)).
  apply in_find; [apply (inv_nodup _ HInv2) | assumption | reflexivity].
Qed.

(** No task of the try system is an orphan. *)
Lemma no_orphan x : In x (tasks (rs t)) -> t_orphan x = false.
Proof.
  intro Hx. destruct (TIXB_run tb tsched W F) as (HI & HX & _). fold t in HI, HX.
  destruct (RI_Inv _ _ _ (ti_ri _ _ HI)) as [_ HInv2].
  apply (oa_orph _ _ (xi_oa _ _ HX) (t_name x)). apply in_find; [apply (inv_nodup _ HInv2) | assumption | reflexivity].
Qed.

(** Containment, both directions: once the goroutine is done the surrounding context is failed
    iff a handler task finished failed. *)
Lemma containment_iff :
  tfinal t = true ->
  (ctx_failed (tb_par tb) (rs t) = true <->
   exists h c x, In (h, c) (hpairs tb) /\ T (rs t) (s_name h) x /\ t_st x = Finished false).
Proof.
  intro Hfin. destruct (TIXB_run tb tsched W F) as (HI & HX & _). fold t in HI, HX.
  pose proof (ti_ri _ _ HI) as HR.
  assert (Epc : pc t = TDone) by (unfold tfinal in Hfin; destruct (pc t); try discriminate Hfin; reflexivity).
  split.
  - intro Hp. destruct (ti_par _ _ HI Hp) as [_ [R|(h & c & A & B & C)]]; [exfalso; apply never_rejected; assumption|].
    apply registered_find in B as [x Hx]. exists h, c, x. split; [assumption|]. split; [assumption|].
    pose proof (find_task_some _ _ _ Hx) as [_ Hin].
    unfold tfinal in Hfin. rewrite Epc in Hfin. unfold all_finished in Hfin. rewrite forallb_forall in Hfin.
    specialize (Hfin _ Hin). destruct (t_st x) as [| | |ok|] eqn:Est; try discriminate Hfin.
    rewrite (xi_fz _ _ HX _ _ _ _ (croots_handler _ _ _ A) Hx Est), C. reflexivity.
  - intros (h & c & x & A & Hx & Est).
    pose proof (xi_fz _ _ HX _ _ _ _ (croots_handler _ _ _ A) Hx Est) as E.
    assert (Hc : ctx_failed c (rs t) = true) by (destruct (ctx_failed c (rs t)); [reflexivity|discriminate E]).
    assert (R : registered (s_name h) (tasks (rs t)) = true) by (apply registered_find; eauto).
    pose proof (ti_regsub _ _ HI _ _ A R) as Hs. pose proof (xi_coll _ _ HX) as Hco. rewrite Epc in Hco.
    specialize (Hco _ Hs Hc). destruct (ti_pend _ _ HI Hco) as [[r B]|B]; [congruence|assumption].
Qed.

(** The same in terms of the handlers' scopes. *)
Lemma containment_scope_iff :
  tfinal t = true ->
  (ctx_failed (tb_par tb) (rs t) = true <->
   exists h c, In (h, c) (hpairs tb) /\ registered (s_name h) (tasks (rs t)) = true /\ ctx_failed c (rs t) = true).
Proof.
  intro Hfin. rewrite (containment_iff Hfin).
  destruct (TIXB_run tb tsched W F) as (HI & HX & _). fold t in HI, HX. split.
  - intros (h & c & x & A & Hx & Est). exists h, c. split; [assumption|]. split; [apply registered_find; eauto|].
    pose proof (xi_fz _ _ HX _ _ _ _ (croots_handler _ _ _ A) Hx Est) as E.
    destruct (ctx_failed c (rs t)); [reflexivity|discriminate E].
  - intros (h & c & A & B & C). apply registered_find in B as [x Hx]. exists h, c, x. split; [assumption|]. split; [assumption|].
    pose proof (find_task_some _ _ _ Hx) as [_ Hin].
    unfold tfinal in Hfin. destruct (pc t); try discriminate Hfin.
    unfold all_finished in Hfin. rewrite forallb_forall in Hfin.
    specialize (Hfin _ Hin). destruct (t_st x) as [| | |ok|] eqn:Est; try discriminate Hfin.
    rewrite (xi_fz _ _ HX _ _ _ _ (croots_handler _ _ _ A) Hx Est), C. reflexivity.
Qed.

(** In final states: which handlers have begun, in terms of the body task's outcome. *)
Lemma handlers_final x ok :
  tfinal t = true -> T (rs t) (nb tb) x -> t_st x = Finished ok ->
  (forall h, tb_finally tb = Some h -> In (EBodyBegin (s_name h) []) (log (rs t)))
  /\ (forall h, tb_success tb = Some h -> (In (EBodyBegin (s_name h) []) (log (rs t)) <-> ok = true))
  /\ (forall h, tb_fail tb = Some h -> (In (EBodyBegin (s_name h) []) (log (rs t)) <-> ok = false)).
Proof.
  intros Hfin Hx Est. pose proof (final_catched x ok Hfin Hx Est) as Hc. pose proof never_rejected as Hnr.
  split; [|split].
  - intros h Eh. eapply (finally_always tb tsched W); eauto.
  - intros h Eh. split.
    + intro Hin. pose proof (success_only_if tb tsched W h [] Eh Hin) as Hc'. fold t in Hc'. rewrite Hc in Hc'.
      destruct ok; [reflexivity|discriminate Hc'].
    + intros ->. apply (success_if tb tsched W h Eh Hfin Hnr Hc).
  - intros h Eh. split.
    + intro Hin. pose proof (fail_only_if tb tsched W h [] Eh Hin) as Hc'. fold t in Hc'. rewrite Hc in Hc'.
      destruct ok; [discriminate Hc'|reflexivity].
    + intros ->. apply (fail_if tb tsched W h Eh Hfin Hnr Hc).
Qed.

End Reach2.

(** * begins => runs: nobody cancels a task of the try system *)

Definition Completed (s : state) (n : name) (x : task) : Prop :=
  forall i, i < length (t_body x) -> In (ECmdBegin n i) (log s) /\ In (ECmdEnd n i true) (log s).

(** Command [i] is the first that did not end well and the failure is its own: it is a failing
    command, or a pip:run whose submission was rejected or whose task finished failed. *)
Definition OwnFail (s : state) (n : name) (x : task) : Prop :=
  exists i c, nth_error (t_body x) i = Some c /\ c <> COk
    /\ In (ECmdBegin n i) (log s) /\ In (ECmdEnd n i false) (log s)
    /\ (forall j, j < i -> In (ECmdEnd n j true) (log s))
    /\ match c with
       | CSpawn nm _ _ => In (ESubmitted nm false) (log s) \/ In (EFinished nm false) (log s)
       | _ => True
       end.

(** A prerequisite of its wait list failed (or is unknown): no command ran. *)
Definition WaitFail (s : state) (n : name) (x : task) : Prop := t_waits x <> [] /\ NoCmd n (log s).

Definition outcome (s : state) (n : name) (x : task) : Prop :=
  Completed s n x \/ OwnFail s n x \/ WaitFail s n x.

Definition OUT (s : state) : Prop :=
  forall n x, T s n x ->
  match t_st x with
  | Closing | Finished _ => outcome s n x
  | Running pc (PSpawned z) => exists ws b, nth_error (t_body x) pc = Some (CSpawn z ws b)
  | Running pc PRejected =>
    exists nm ws b, nth_error (t_body x) pc = Some (CSpawn nm ws b) /\ In (ESubmitted nm false) (log s)
  | _ => True
  end.

Lemma outcome_mono s s' n x y :
  t_body y = t_body x -> t_waits y = t_waits x ->
  (forall e, In e (log s) -> In e (log s')) ->
  (forall e, In e (log s') -> In e (log s) \/ ~ ev_cmd_of n e) ->
  outcome s n x -> outcome s' n y.
Proof.
  intros Hb Hw Hincl Hnew [H|[H|H]].
  - left. intros i Hi. rewrite Hb in Hi. destruct (H i Hi). auto.
  - right. left. destruct H as (i & c & A & B & C & D & E & G). exists i, c. rewrite Hb.
    repeat split; auto. destruct c; auto. destruct G; auto.
  - right. right. destruct H as [A B]. split; [rewrite Hw; assumption|].
    intros e He Hc. destruct (Hnew e He) as [Ho|Hn]; [eapply B; eauto | auto].
Qed.

Lemma trans_ev s t st' fl nw evs e :
  trans s t st' fl nw evs -> In e evs -> is_sub e = true \/ ev_name e = t_name t.
Proof. intro H. destruct H; simpl; intro Hin; try contradiction; destruct Hin as [<-|[]]; simpl; auto. Qed.

Lemma OUT_act tb s s' t st' fl nw evs :
  Inv s -> OA tb s -> OUT s -> T s (t_name t) t -> trans s t st' fl nw evs -> post s t s' st' fl nw evs -> OUT s'.
Proof.
  intros HInv HO HU HT Htr Hpost. set (n := t_name t) in *.
  destruct (post_facts _ _ _ _ _ _ _ HT Htr Hpost) as (Hcase & _ & _ & _).
  destruct Hpost as (_ & _ & Hlog & _).
  assert (Hincl : forall e, In e (log s) -> In e (log s')) by (intros e He; rewrite Hlog; apply in_or_app; auto).
  assert (Hnew : forall m e, m <> n -> In e (log s') -> In e (log s) \/ ~ ev_cmd_of m e).
  { intros m e Hne He. rewrite Hlog in He. apply in_app_or in He as [He|He]; [|auto]. right.
    destruct (trans_ev _ _ _ _ _ _ _ Htr He) as [A|A]; destruct e; simpl in *; try discriminate; try tauto;
      intro Hc; apply Hne; subst n; congruence. }
  assert (Hnewf : forall e, In e (log s') -> In e (log s) \/ In e evs).
  { intros e He. rewrite Hlog in He. apply in_app_or in He. tauto. }
  intros m y Hy. destruct (Hcase m y Hy) as [[-> ->]|[[Hne Ho]|(Hne & _ & _ & Ew & _)]]; [| |rewrite Ew; exact I].
  2:{ specialize (HU m y Ho). destruct (t_st y) as [i | pc [| | z |] | | ok |]; auto.
      - destruct HU as (nm & ws & b & A & B). exists nm, ws, b. auto.
      - eapply outcome_mono; eauto.
      - eapply outcome_mono; eauto. }
  pose proof (inv_tasks _ HInv _ _ HT) as [_ Hti]. specialize (HU n t HT).
  cbn [t_st set_status]. fold n in Hti.
  destruct Htr; try exact I; match goal with E : t_st t = _ |- _ => rewrite E in Hti, HU end.
  - (* wait failed *)
    right. right. split.
    + cbn. intro E. rewrite E in *. destruct i; discriminate.
    + destruct Hti as [_ Hnc]. rewrite Hlog. exact Hnc.
  - (* end of script *)
    left. destruct Hti as [_ (_ & C2 & _)]. intros j Hj. cbn in Hj. rewrite Hlog.
    match goal with E : nth_error _ _ = None |- _ => apply nth_error_None in E end. apply C2. lia.
  - (* abort: impossible *)
    exfalso. match goal with E : ctx_failed _ _ = true |- _ => pose proof (oa_F _ _ HO _ _ HT E) as A end.
    match goal with E : t_st t = _ |- _ => rewrite E in A end. discriminate A.
  - (* cancelled command: impossible *)
    exfalso. match goal with E : ctx_failed _ _ = true |- _ => pose proof (oa_F _ _ HO _ _ HT E) as A end.
    match goal with E : t_st t = _ |- _ => rewrite E in A end. discriminate A.
  - (* failing command *)
    right. left. destruct Hti as [_ (_ & C2 & _ & C4)]. exists pc, CFail. cbn [t_body set_status].
    split; [assumption|]. split; [discriminate|]. rewrite Hlog.
    split; [right; apply C4; reflexivity|]. split; [left; reflexivity|]. split; [|exact I].
    intros j Hj. right. apply C2. assumption.
  - (* rejected nested submission *)
    exists nm, ws, b. cbn [t_body set_status]. split; [assumption|]. rewrite Hlog. left. reflexivity.
  - (* accepted nested submission *)
    exists ws, b. assumption.
  - (* nested task's context failed *)
    right. left. destruct Hti as [_ (_ & C2 & _ & C4)]. destruct HU as (ws & b & Hn).
    exists pc, (CSpawn c ws b). cbn [t_body set_status].
    split; [assumption|]. split; [discriminate|]. rewrite Hlog.
    split; [right; apply C4; reflexivity|]. split; [left; reflexivity|].
    split; [intros j Hj; right; apply C2; assumption|]. right. right.
    match goal with E : T s c ?tc, E2 : _ || _ = true, E3 : ctx_failed _ _ = true |- _ =>
      rewrite (oa_orph _ _ HO _ _ E), orb_false_r in E2;
      pose proof (inv_tasks _ HInv _ _ E) as [_ Htc]; destruct (t_st tc) as [| | |ok|] eqn:Etc; try discriminate E2;
      pose proof (oa_F2 _ _ HO _ _ _ _ _ _ HT ltac:(eassumption) E Etc E3) as ->; apply Htc
    end.
  - (* after a rejected nested submission *)
    right. left. destruct Hti as [_ (_ & C2 & _ & C4)]. destruct HU as (nm & ws & b & Hn & Hs).
    exists pc, (CSpawn nm ws b). cbn [t_body set_status].
    split; [assumption|]. split; [discriminate|]. rewrite Hlog.
    split; [right; apply C4; reflexivity|]. split; [left; reflexivity|].
    split; [intros j Hj; right; apply C2; assumption|]. left. right. assumption.
  - (* finish *)
    eapply outcome_mono; eauto. intros e He. destruct (Hnewf e He) as [A|[<-|[]]]; [auto|]. right. simpl. tauto.
Qed.

(** What a step of the pip:try goroutine does to the runner state, as far as [OUT] is concerned. *)
Definition ext (s s1 : state) : Prop :=
  (forall n x, T s1 n x -> T s n x \/ t_st x = Waiting 0)
  /\ (forall e, In e (log s) -> In e (log s1))
  /\ (forall e, In e (log s1) -> In e (log s) \/ is_sub e = true).

Lemma ext_refl s : ext s s.
Proof. repeat split; auto. Qed.

Lemma ext_create sb c p s : ext s (fst (create false sb c p s)).
Proof.
  destruct (create_false_cases sb c p s) as [E|(R & V & E)]; rewrite E; cbn [fst]; repeat split; cbn; auto.
  - intros e [<-|H]; auto.
  - intros n x Hx. unfold T in Hx. cbn in Hx. apply find_app_cases in Hx as [A|(_ & _ & ->)]; auto.
  - intros e [<-|H]; auto.
Qed.

Lemma ext_fail c s : ext s (fail_ctx c s).
Proof. unfold ext, T. rewrite fail_ctx_tasks, fail_ctx_log. repeat split; auto. Qed.

Lemma OUT_ext s s1 : ext s s1 -> OUT s -> OUT s1.
Proof.
  intros (E1 & E2 & E3) HU n x Hx. destruct (E1 n x Hx) as [Ho|Ew]; [|rewrite Ew; exact I].
  specialize (HU n x Ho). destruct (t_st x) as [i | pc [| | z |] | | ok |]; auto.
  - destruct HU as (nm & ws & b & A & B). exists nm, ws, b. auto.
  - eapply outcome_mono; eauto. intros e He. destruct (E3 e He) as [A|A]; [auto|]. right. destruct e; simpl in *; try discriminate; tauto.
  - eapply outcome_mono; eauto. intros e He. destruct (E3 e He) as [A|A]; [auto|]. right. destruct e; simpl in *; try discriminate; tauto.
Qed.

Lemma try_step_ext tb t t' : try_step MFixed tb t = Some t' -> ext (rs t) (rs t').
Proof.
  assert (Hsub : forall h c next, ext (rs t) (rs (submit_handler MFixed tb h c next t))).
  { intros h c next. unfold submit_handler. cbn [hctx early].
    pose proof (ext_create h c None (rs t)) as X. destruct (create false h c None (rs t)) as [s1 acc].
    destruct acc; exact X. }
  unfold try_step. destruct (pc t) as [| | c | c | c | [|[hn hc] rest] |].
  - destruct (ctx_failed (tb_par tb) (rs t)); [intro H; inversion H; apply ext_refl|].
    pose proof (ext_create (tb_body tb) (tb_sep tb) None (rs t)) as X.
    destruct (create false (tb_body tb) (tb_sep tb) None (rs t)) as [s1 acc].
    destruct acc; intro H; inversion H; exact X.
  - destruct (find_task _ _) as [b|]; [|intro HH; discriminate HH].
    destruct (is_finished (t_st b)); [|intro HH; discriminate HH]. intro H; inversion H. apply ext_refl.
  - destruct (tb_finally tb) as [h|]; intro H; inversion H; [apply Hsub | apply ext_refl].
  - destruct (tb_fail tb) as [h|]; [destruct c|]; intro H; inversion H; [apply Hsub | apply ext_refl..].
  - destruct (tb_success tb) as [h|]; [destruct c|]; intro H; inversion H; [apply ext_refl | apply Hsub | apply ext_refl].
  - destruct (pend t && negb (early MFixed)); intro H; inversion H; cbn [rs mk]; [apply ext_fail | apply ext_refl].
  - destruct (find_task hn (tasks (rs t))) as [x|]; [|intro HH; discriminate HH].
    destruct (is_finished (t_st x)); [|intro HH; discriminate HH].
    simpl early. rewrite andb_false_r. intro H; inversion H. apply ext_refl.
  - intro HH; discriminate HH.
Qed.

(** The registered body / handler task carries the script it was submitted with. *)
Definition RB (tb : tryblock) (s : state) : Prop :=
  forall sb x, In sb (tb_body tb :: handlers tb) -> T s (s_name sb) x ->
               t_body x = s_body sb /\ t_waits x = s_waits sb.

Lemma top_unique tb sb sb' :
  wf tb -> In sb (tb_body tb :: handlers tb) -> In sb' (tb_body tb :: handlers tb) -> s_name sb = s_name sb' -> sb = sb'.
Proof.
  intros W H1 H2 E. pose proof (wf_nodup _ W) as N. unfold top_names, nb in N.
  change (s_name (tb_body tb) :: map s_name (handlers tb)) with (map s_name (tb_body tb :: handlers tb)) in N.
  revert N H1 H2 E. generalize (tb_body tb :: handlers tb). clear.
  induction l as [|a l IH]; simpl; intros N H1 H2 E; [contradiction|].
  inversion N as [|? ? Hni N']; subst. destruct H1 as [->|H1], H2 as [->|H2]; auto.
  - exfalso. apply Hni. rewrite E. apply in_map. assumption.
  - exfalso. apply Hni. rewrite <- E. apply in_map. assumption.
Qed.

Lemma RB_runner tb co s s' : wf tb -> RI tb co s -> RB tb s -> runner_step s s' -> RB tb s'.
Proof.
  intros W HR HB Hstep sb x Hsb Hx.
  destruct (runner_step_tasks _ _ Hstep) as (Htasks & _ & _).
  pose proof (find_task_some _ _ _ Hx) as [Hn Hin].
  destruct (RI_Inv _ _ _ HR) as [_ HInv2].
  assert (Htop : In (s_name sb) (top_names tb)).
  { destruct Hsb as [<-|Hsb]; [left; reflexivity | apply handler_in_top; assumption]. }
  destruct (Htasks x Hin) as [[x0 [A (B1 & B)]]|(x0 & pc & ws & A & B & _)].
  - destruct B as (B2 & B3 & _). rewrite B2, B3. apply HB; [assumption|].
    apply in_find; [apply (inv_nodup _ HInv2) | assumption | congruence].
  - exfalso. apply (wf_sep _ W _ Htop). rewrite <- Hn.
    apply (proj1 (ri_sn _ _ _ HR x0 A)). apply (proj1 (sn_nth _ _ _ _ _ B)).
Qed.

Lemma RB_create tb s sb c : wf tb -> In sb (tb_body tb :: handlers tb) -> RB tb s -> RB tb (fst (create false sb c None s)).
Proof.
  intros W Hsb HB sb' x Hsb' Hx.
  destruct (create_false_cases sb c None s) as [E|(R & V & E)]; rewrite E in Hx; cbn [fst] in Hx.
  - apply HB; assumption.
  - unfold T in Hx. cbn in Hx. apply find_app_cases in Hx as [A|(_ & A & ->)]; [apply HB; assumption|].
    cbn in A. cbn. rewrite (top_unique tb sb sb' W Hsb Hsb' A). auto.
Qed.

Lemma RB_try tb t t' : wf tb -> RB tb (rs t) -> try_step MFixed tb t = Some t' -> RB tb (rs t').
Proof.
  intros W HB.
  assert (Hsub : forall h c next, In h (handlers tb) -> RB tb (rs (submit_handler MFixed tb h c next t))).
  { intros h c next Hh. unfold submit_handler. cbn [hctx early].
    pose proof (RB_create tb (rs t) h c W (or_intror Hh) HB) as X. destruct (create false h c None (rs t)) as [s1 acc].
    destruct acc; exact X. }
  assert (Hin : forall h c, In (h, c) (hpairs tb) -> In h (handlers tb)) by (intros; eapply hpairs_handler; eauto).
  unfold try_step. destruct (pc t) as [| | c | c | c | [|[hn hc] rest] |].
  - destruct (ctx_failed (tb_par tb) (rs t)); [intro H; inversion H; assumption|].
    pose proof (RB_create tb (rs t) (tb_body tb) (tb_sep tb) W (or_introl eq_refl) HB) as X.
    destruct (create false (tb_body tb) (tb_sep tb) None (rs t)) as [s1 acc].
    destruct acc; intro H; inversion H; exact X.
  - destruct (find_task _ _) as [b|]; [|intro HH; discriminate HH].
    destruct (is_finished (t_st b)); [|intro HH; discriminate HH]. intro H; inversion H. assumption.
  - destruct (tb_finally tb) as [h|] eqn:Eh; intro H; inversion H; [|assumption].
    apply Hsub. apply (Hin _ _ (in_hpairs_fin _ _ Eh)).
  - destruct (tb_fail tb) as [h|] eqn:Eh; [destruct c|]; intro H; inversion H; try assumption.
    apply Hsub. apply (Hin _ _ (in_hpairs_fail _ _ Eh)).
  - destruct (tb_success tb) as [h|] eqn:Eh; [destruct c|]; intro H; inversion H; try assumption.
    apply Hsub. apply (Hin _ _ (in_hpairs_succ _ _ Eh)).
  - destruct (pend t && negb (early MFixed)); intro H; inversion H; cbn [rs mk]; [|assumption].
    intros sb x Hsb Hx. unfold T in Hx. rewrite fail_ctx_tasks in Hx. apply HB; assumption.
  - destruct (find_task hn (tasks (rs t))) as [x|]; [|intro HH; discriminate HH].
    destruct (is_finished (t_st x)); [|intro HH; discriminate HH].
    simpl early. rewrite andb_false_r. intro H; inversion H. assumption.
  - intro HH; discriminate HH.
Qed.

(** A command that ended with an error is a failing command or a pip:run: a plain succeeding
    command is never cut short (that is what a cancellation would look like in the log). *)
Definition NC (s : state) : Prop :=
  forall n x i, T s n x -> In (ECmdEnd n i false) (log s) -> nth_error (t_body x) i <> Some COk.

Lemma NC_act tb s s' t st' fl nw evs :
  Inv s -> OA tb s -> OUT s -> NC s -> T s (t_name t) t -> trans s t st' fl nw evs -> post s t s' st' fl nw evs -> NC s'.
Proof.
  intros HInv HO HU HN HT Htr Hpost. set (n := t_name t) in *.
  destruct (post_facts _ _ _ _ _ _ _ HT Htr Hpost) as (Hcase & _ & _ & _).
  destruct Hpost as (_ & _ & Hlog & _).
  intros m y i Hy Hin. rewrite Hlog in Hin. apply in_app_or in Hin as [Hin|Hin].
  - assert (Em : m = n).
    { destruct (trans_ev _ _ _ _ _ _ _ Htr Hin) as [A|A]; [discriminate A | exact A]. }
    subst m. destruct (Hcase n y Hy) as [[_ ->]|[[Hne _]|(Hne & _)]]; try (exfalso; apply Hne; reflexivity).
    cbn [t_body set_status].
    specialize (HU n t HT). fold n in Htr.
    destruct Htr; simpl in Hin; try contradiction; destruct Hin as [Hin|[]]; inversion Hin; subst;
      match goal with E : t_st t = _ |- _ => rewrite E in HU end.
    + exfalso. match goal with E : ctx_failed _ _ = true |- _ => pose proof (oa_F _ _ HO _ _ HT E) as A end.
      match goal with E : t_st t = _ |- _ => rewrite E in A end. discriminate A.
    + congruence.
    + destruct HU as (ws & b & Hn). congruence.
    + destruct HU as (nm & ws & b & Hn & _). congruence.
  - destruct (Hcase m y Hy) as [[-> ->]|[[Hne Ho]|(Hne & E & _ & _ & En & _)]].
    + cbn [t_body set_status]. eapply HN; eauto.
    + eapply HN; eauto.
    + exfalso. destruct (pi_new _ _ _ _ _ _ Htr) as [E0|(pc & nm & ws & b & E1 & R & _)]; [congruence|].
      rewrite E in E1. inversion E1; subst y. cbn in En. subst m.
      pose proof (inv_evreg _ HInv _ Hin eq_refl) as R'. cbn in R'. congruence.
Qed.

Lemma NC_ext s s1 : Inv s -> ext s s1 -> (forall n x, T s1 n x -> T s n x \/ registered n (tasks s) = false) -> NC s -> NC s1.
Proof.
  intros HInv (E1 & E2 & E3) Hreg HN n x i Hx Hin.
  destruct (E3 _ Hin) as [Ho|Hs]; [|discriminate Hs].
  destruct (Hreg n x Hx) as [A|A]; [eapply HN; eauto|].
  pose proof (inv_evreg _ HInv _ Ho eq_refl) as R. cbn in R. congruence.
Qed.

Lemma try_step_reg tb t t' n x :
  try_step MFixed tb t = Some t' -> T (rs t') n x -> T (rs t) n x \/ registered n (tasks (rs t)) = false.
Proof.
  assert (Hcr : forall sb c, T (fst (create false sb c None (rs t))) n x -> T (rs t) n x \/ registered n (tasks (rs t)) = false).
  { intros sb c Hx. destruct (create_false_cases sb c None (rs t)) as [E|(R & V & E)]; rewrite E in Hx; cbn [fst] in Hx; [auto|].
    unfold T in Hx. cbn in Hx. apply find_app_cases in Hx as [A|(A & _)]; [auto|]. right. apply find_task_none. assumption. }
  assert (Hsub : forall h c next, T (rs (submit_handler MFixed tb h c next t)) n x -> T (rs t) n x \/ registered n (tasks (rs t)) = false).
  { intros h c next. unfold submit_handler. cbn [hctx early].
    pose proof (Hcr h c) as X. destruct (create false h c None (rs t)) as [s1 acc].
    destruct acc; exact X. }
  unfold try_step. destruct (pc t) as [| | c | c | c | [|[hn hc] rest] |].
  - destruct (ctx_failed (tb_par tb) (rs t)); [intro H; inversion H; auto|].
    pose proof (Hcr (tb_body tb) (tb_sep tb)) as X.
    destruct (create false (tb_body tb) (tb_sep tb) None (rs t)) as [s1 acc].
    destruct acc; intro H; inversion H; exact X.
  - destruct (find_task _ _) as [b|]; [|intro HH; discriminate HH].
    destruct (is_finished (t_st b)); [|intro HH; discriminate HH]. intro H; inversion H. auto.
  - destruct (tb_finally tb) as [h|]; intro H; inversion H; [apply Hsub | auto].
  - destruct (tb_fail tb) as [h|]; [destruct c|]; intro H; inversion H; [apply Hsub | auto..].
  - destruct (tb_success tb) as [h|]; [destruct c|]; intro H; inversion H; [auto | apply Hsub | auto].
  - destruct (pend t && negb (early MFixed)); intro H; inversion H; cbn [rs mk]; [|auto].
    unfold T. rewrite fail_ctx_tasks. auto.
  - destruct (find_task hn (tasks (rs t))) as [y|]; [|intro HH; discriminate HH].
    destruct (is_finished (t_st y)); [|intro HH; discriminate HH].
    simpl early. rewrite andb_false_r. intro H; inversion H. auto.
  - intro HH; discriminate HH.
Qed.

Lemma ALL_run tb tsched : wf tb -> fresh tb ->
  let t := trun MFixed tb tsched (tinit tb) in TI tb t /\ XI tb t /\ OUT (rs t) /\ RB tb (rs t) /\ NC (rs t).
Proof.
  intros W F.
  assert (G : forall tsched t, TI tb t /\ XI tb t /\ OUT (rs t) /\ RB tb (rs t) /\ NC (rs t) ->
              let t' := trun MFixed tb tsched t in TI tb t' /\ XI tb t' /\ OUT (rs t') /\ RB tb (rs t') /\ NC (rs t')).
  { clear tsched. induction tsched as [|l r IH]; intros t (HI & HX & HU & HB & HN); simpl; [auto 6|].
    apply IH. unfold tstep_skip. destruct (tstep MFixed tb l t) as [t'|] eqn:E; [|auto 6].
    destruct (RI_Inv _ _ _ (ti_ri _ _ HI)) as [HInv _].
    assert (Run : forall s, runner_step (rs t) s ->
              TI tb (with_rs s t) /\ XI tb (with_rs s t) /\ OUT (rs (with_rs s t)) /\ RB tb (rs (with_rs s t))
              /\ NC (rs (with_rs s t))).
    { intros s Hs. split; [apply TI_runner; auto|]. split; [apply XI_runner; auto|]. cbn [rs with_rs mk].
      destruct (runner_step_sum _ _ Hs) as (t0 & st' & fl & nw & evs & HT & Htr & Hpost).
      split; [|split].
      - eapply OUT_act; eauto. apply HX.
      - eapply RB_runner; eauto. apply (ti_ri _ _ HI).
      - eapply NC_act; eauto. apply HX. }
    destruct l as [n | n |]; unfold tstep in E.
    - destruct (step false (LTask n) (rs t)) as [s|] eqn:Es; [|discriminate]. inversion E; subst.
      apply Run. exists n; left; assumption.
    - destruct (step false (LAbort n) (rs t)) as [s|] eqn:Es; [|discriminate]. inversion E; subst.
      apply Run. exists n; right; assumption.
    - split; [eapply TI_try; eauto|]. split; [eapply XI_try; eauto|]. split; [|split].
      + eapply OUT_ext; [eapply try_step_ext; eauto | assumption].
      + eapply RB_try; eauto.
      + apply (NC_ext (rs t) (rs t') HInv (try_step_ext _ _ _ E)); [|assumption].
        intros n x. apply (try_step_reg _ _ _ _ _ E). }
  apply G. split; [apply TI_init|]. split; [apply XI_init|].
  split; [intros n x Hx; discriminate Hx|]. split; [intros sb x _ Hx; discriminate Hx | intros n x i Hx; discriminate Hx].
Qed.

Section Reach3.
Variable tb : tryblock.
Variable tsched : list tlabel.
Hypothesis W : wf tb.
Hypothesis F : fresh tb.
Let t := trun MFixed tb tsched (tinit tb).

(** Every task of the try system that closes has run all its commands, unless one of its own
    commands failed or a prerequisite of its wait list did: nothing is cancelled from outside. *)
Lemma task_runs n x :
  T (rs t) n x -> (t_st x = Closing \/ exists ok, t_st x = Finished ok) -> outcome (rs t) n x.
Proof.
  intros Hx Hs. destruct (ALL_run tb tsched W F) as (_ & _ & HU & _ & _). fold t in HU.
  specialize (HU n x Hx). destruct Hs as [E|[ok E]]; rewrite E in HU; exact HU.
Qed.

(** The body task and the handler tasks carry the submitted scripts, and (empty wait list) they
    run them to the end unless one of their own commands fails. *)
Lemma root_runs sb x :
  In sb (tb_body tb :: handlers tb) -> s_waits sb = [] -> T (rs t) (s_name sb) x ->
  (t_st x = Closing \/ exists ok, t_st x = Finished ok) ->
  t_body x = s_body sb /\ (Completed (rs t) (s_name sb) x \/ OwnFail (rs t) (s_name sb) x).
Proof.
  intros Hsb Hw Hx Hs. destruct (ALL_run tb tsched W F) as (_ & _ & _ & HB & _). fold t in HB.
  destruct (HB sb x Hsb Hx) as [Eb Ew]. split; [assumption|].
  destruct (task_runs _ _ Hx Hs) as [A|[A|[A _]]]; auto. exfalso. apply A. congruence.
Qed.

Lemma handler_runs h c x :
  In (h, c) (hpairs tb) -> T (rs t) (s_name h) x -> (t_st x = Closing \/ exists ok, t_st x = Finished ok) ->
  t_body x = s_body h /\ (Completed (rs t) (s_name h) x \/ OwnFail (rs t) (s_name h) x).
Proof.
  intros Hh. assert (Hin : In h (handlers tb)) by (eapply hpairs_handler; eauto).
  apply root_runs; [right; assumption | apply (wf_waits _ W); assumption].
Qed.

(** Nothing is ever cancelled: a command that ended with an error is not a plain succeeding one ... *)
Lemma no_cancel n x i :
  T (rs t) n x -> In (ECmdEnd n i false) (log (rs t)) -> nth_error (t_body x) i <> Some COk.
Proof. destruct (ALL_run tb tsched W F) as (_ & _ & _ & _ & HN). apply HN. Qed.

(** ... and the read-execute loop of no task ever sees its context done between two commands. *)
Lemma no_abort n : step false (LAbort n) (rs t) = None.
Proof.
  destruct (ALL_run tb tsched W F) as (_ & HX & _). fold t in HX.
  simpl. destruct (find_task n (tasks (rs t))) as [x|] eqn:E; [|reflexivity].
  destruct (t_st x) as [| pc [| | |] | | |] eqn:Est; try reflexivity.
  destruct (ctx_failed (t_ctx x) (rs t)) eqn:Ec; [|reflexivity].
  pose proof (oa_F _ _ (xi_oa _ _ HX) _ _ E Ec) as A. rewrite Est in A. discriminate A.
Qed.

End Reach3.

(** * Progress: with flat bodies (nested submissions without wait lists) the try system never
    gets stuck before its final state, and every step decreases a measure *)

Definition flat_tb (tb : tryblock) : Prop :=
  forall sb, In sb (tb_body tb :: handlers tb) -> flat_body (s_body sb) = true.

Lemma no_deadlock_gen s :
  Inv s -> Inv2 s -> InvK s -> all_finished s = false -> exists n, step false (LTask n) s <> None.
Proof.
  intros HI [Ho Hnd _] HK Hnf.
  destruct (first_unfinished _ Hnf) as (a & x & b & E & Ha & Hx).
  assert (Hin : In x (tasks s)) by (rewrite E; apply in_or_app; right; left; reflexivity).
  pose proof (in_find _ _ _ Hnd Hin eq_refl) as HT.
  destruct (t_st x) as [i | pc ph | | ok |] eqn:Est.
  - destruct (nth_error (t_waits x) i) as [u|] eqn:Enth.
    + exists (t_name x). simpl. rewrite HT. unfold task_step. rewrite Est, Enth.
      destruct (Ho _ _ _ E u (nth_error_In _ _ Enth)) as [R _].
      apply registered_find in R as [tu Hu].
      pose proof (find_task_some _ _ _ Hu) as [_ Hina].
      rewrite E. rewrite (find_app_l _ _ _ _ Hu).
      rewrite forallb_forall in Ha. rewrite (Ha _ Hina). destruct (ctx_failed _ _); discriminate.
    + exists (t_name x). simpl. rewrite HT. unfold task_step. rewrite Est, Enth. discriminate.
  - eapply (descend s HI HK _ _ x HT (Nat.le_refl _)); [rewrite Est; reflexivity | rewrite Est; discriminate].
  - eapply (descend s HI HK _ _ x HT (Nat.le_refl _)); [rewrite Est; reflexivity | rewrite Est; discriminate].
  - simpl in Hx. discriminate.
  - pose proof (inv_tasks _ HI _ _ HT) as [_ Hti]. rewrite Est in Hti. contradiction.
Qed.

Lemma InvK_try tb t t' : flat_tb tb -> InvK (rs t) -> try_step MFixed tb t = Some t' -> InvK (rs t').
Proof.
  intros Hfl HK.
  assert (Hcr : forall sb c, In sb (tb_body tb :: handlers tb) -> InvK (fst (create false sb c None (rs t)))).
  { intros sb c Hsb. apply (InvK_step (LCreate sb c) (rs t)); [assumption | apply Hfl; assumption | reflexivity]. }
  assert (Hsub : forall h c next, In h (handlers tb) -> InvK (rs (submit_handler MFixed tb h c next t))).
  { intros h c next Hh. unfold submit_handler. cbn [hctx early].
    pose proof (Hcr h c (or_intror Hh)) as X. destruct (create false h c None (rs t)) as [s1 acc].
    destruct acc; exact X. }
  assert (Hin : forall h c, In (h, c) (hpairs tb) -> In h (handlers tb)) by (intros; eapply hpairs_handler; eauto).
  unfold try_step. destruct (pc t) as [| | c | c | c | [|[hn hc] rest] |].
  - destruct (ctx_failed (tb_par tb) (rs t)); [intro H; inversion H; assumption|].
    pose proof (Hcr (tb_body tb) (tb_sep tb) (or_introl eq_refl)) as X.
    destruct (create false (tb_body tb) (tb_sep tb) None (rs t)) as [s1 acc].
    destruct acc; intro H; inversion H; exact X.
  - destruct (find_task _ _) as [b|]; [|intro HH; discriminate HH].
    destruct (is_finished (t_st b)); [|intro HH; discriminate HH]. intro H; inversion H. assumption.
  - destruct (tb_finally tb) as [h|] eqn:Eh; intro H; inversion H; [|assumption].
    apply Hsub. apply (Hin _ _ (in_hpairs_fin _ _ Eh)).
  - destruct (tb_fail tb) as [h|] eqn:Eh; [destruct c|]; intro H; inversion H; try assumption.
    apply Hsub. apply (Hin _ _ (in_hpairs_fail _ _ Eh)).
  - destruct (tb_success tb) as [h|] eqn:Eh; [destruct c|]; intro H; inversion H; try assumption.
    apply Hsub. apply (Hin _ _ (in_hpairs_succ _ _ Eh)).
  - destruct (pend t && negb (early MFixed)); intro H; inversion H; cbn [rs mk]; [|assumption].
    eapply InvK_same; eauto. apply fail_ctx_tasks.
  - destruct (find_task hn (tasks (rs t))) as [x|]; [|intro HH; discriminate HH].
    destruct (is_finished (t_st x)); [|intro HH; discriminate HH].
    simpl early. rewrite andb_false_r. intro H; inversion H. assumption.
  - intro HH; discriminate HH.
Qed.

(** While the goroutine waits for the body, the body task is registered. *)
Definition BW (tb : tryblock) (t : tstate) : Prop :=
  pc t = TWaitBody -> registered (nb tb) (tasks (rs t)) = true.

Lemma BW_try tb t t' : BW tb t -> try_step MFixed tb t = Some t' -> BW tb t'.
Proof.
  intros HB. unfold BW in *.
  assert (Hsub : forall h c next, (forall l, next l <> TWaitBody) ->
            pc (submit_handler MFixed tb h c next t) = TWaitBody -> registered (nb tb) (tasks (rs (submit_handler MFixed tb h c next t))) = true).
  { intros h c next Hn. unfold submit_handler. cbn [hctx early].
    destruct (create false h c None (rs t)) as [s1 acc]. destruct acc; cbn [pc mk]; intro E; [exfalso; eapply Hn; eauto | discriminate E]. }
  unfold try_step. destruct (pc t) as [| | c | c | c | [|[hn hc] rest] |].
  - destruct (ctx_failed (tb_par tb) (rs t)); [intro H; inversion H; cbn; intro E; discriminate E|].
    destruct (create_false_cases (tb_body tb) (tb_sep tb) None (rs t)) as [E|(R & V & E)]; rewrite E;
      intro H; inversion H; cbn [pc rs mk]; intro E'; [discriminate E'|].
    cbn [tasks emit with_counter with_tasks]. rewrite registered_app. cbn. rewrite N.eqb_refl. apply orb_true_r.
  - destruct (find_task _ _) as [b|]; [|intro HH; discriminate HH].
    destruct (is_finished (t_st b)); [|intro HH; discriminate HH]. intro H; inversion H. cbn. intro E; discriminate E.
  - destruct (tb_finally tb) as [h|]; intro H; inversion H; [apply Hsub; discriminate | cbn; intro E; discriminate E].
  - destruct (tb_fail tb) as [h|]; [destruct c|]; intro H; inversion H; [apply Hsub; discriminate | cbn; intro E; discriminate E..].
  - destruct (tb_success tb) as [h|]; [destruct c|]; intro H; inversion H;
      [cbn; intro E; discriminate E | apply Hsub; discriminate | cbn; intro E; discriminate E].
  - intro H; inversion H. cbn. intro E; discriminate E.
  - destruct (find_task hn (tasks (rs t))) as [x|]; [|intro HH; discriminate HH].
    destruct (is_finished (t_st x)); [|intro HH; discriminate HH].
    intro H; inversion H. cbn. intro E; discriminate E.
  - intro HH; discriminate HH.
Qed.

Lemma PROG_run tb tsched : wf tb -> fresh tb -> flat_tb tb ->
  let t := trun MFixed tb tsched (tinit tb) in TI tb t /\ InvK (rs t) /\ BW tb t.
Proof.
  intros W F Hfl.
  assert (G : forall tsched t, TI tb t /\ InvK (rs t) /\ BW tb t ->
              let t' := trun MFixed tb tsched t in TI tb t' /\ InvK (rs t') /\ BW tb t').
  { clear tsched. induction tsched as [|l r IH]; intros t (HI & HK & HB); simpl; [auto|].
    apply IH. unfold tstep_skip. destruct (tstep MFixed tb l t) as [t'|] eqn:E; [|auto].
    assert (Run : forall lb s, match lb with LCreate _ _ => False | _ => True end -> step false lb (rs t) = Some s ->
              runner_step (rs t) s -> TI tb (with_rs s t) /\ InvK (rs (with_rs s t)) /\ BW tb (with_rs s t)).
    { intros lb s Hlb Es Hs. split; [apply TI_runner; auto|]. cbn [rs with_rs mk pc]. split.
      - apply (InvK_step lb (rs t) s HK); [destruct lb; auto; contradiction | exact Es].
      - destruct (RI_runner _ _ _ _ W (ti_ri _ _ HI) Hs) as (_ & _ & _ & Hreg & _). intro Ep. apply Hreg. apply HB. exact Ep. }
    destruct l as [n | n |]; unfold tstep in E.
    - destruct (step false (LTask n) (rs t)) as [s|] eqn:Es; [|discriminate]. inversion E; subst.
      apply (Run (LTask n)); auto. exists n; left; assumption.
    - destruct (step false (LAbort n) (rs t)) as [s|] eqn:Es; [|discriminate]. inversion E; subst.
      apply (Run (LAbort n)); auto. exists n; right; assumption.
    - split; [eapply TI_try; eauto|]. split; [eapply InvK_try; eauto | eapply BW_try; eauto]. }
  apply G. split; [apply TI_init|]. split.
  - split; simpl; try tauto; intros; discriminate.
  - intro E. discriminate E.
Qed.

Lemma try_progress tb tsched : wf tb -> fresh tb -> flat_tb tb ->
  let t := trun MFixed tb tsched (tinit tb) in
  tfinal t = false -> exists l, tstep MFixed tb l t <> None.
Proof.
  intros W F Hfl t Hnf. destruct (PROG_run tb tsched W F Hfl) as (HI & HK & HB). fold t in HI, HK, HB.
  destruct (RI_Inv _ _ _ (ti_ri _ _ HI)) as [HInv HInv2].
  destruct (all_finished (rs t)) eqn:Ha.
  - exists TLTry. unfold tstep, try_step. unfold tfinal in Hnf. pose proof (ti_col _ _ HI) as Hcol.
    assert (Hfin : forall hn, registered hn (tasks (rs t)) = true ->
              exists x, find_task hn (tasks (rs t)) = Some x /\ is_finished (t_st x) = true).
    { intros hn R. apply registered_find in R as [x Hx]. exists x. split; [assumption|].
      unfold all_finished in Ha. rewrite forallb_forall in Ha. apply Ha. apply (find_task_some _ _ _ Hx). }
    destruct (pc t) as [| | c | c | c | [|[hn hc] rest] |] eqn:Epc.
    + destruct (ctx_failed (tb_par tb) (rs t)); [discriminate|].
      destruct (create false (tb_body tb) (tb_sep tb) None (rs t)) as [s1 [|]]; discriminate.
    + destruct (Hfin _ (HB Epc)) as [x [Hx Hf]]. unfold nb in Hx. rewrite Hx, Hf. discriminate.
    + destruct (tb_finally tb); discriminate.
    + destruct (tb_fail tb); [destruct c|]; discriminate.
    + destruct (tb_success tb); [destruct c|]; discriminate.
    + discriminate.
    + destruct Hcol as [Hinc _].
      destruct (ti_subd _ _ HI hn hc (Hinc _ (or_introl eq_refl))) as [h (_ & _ & R)].
      destruct (Hfin _ R) as [x [Hx Hf]]. rewrite Hx, Hf. discriminate.
    + congruence.
  - destruct (no_deadlock_gen _ HInv HInv2 HK Ha) as [n Hn]. exists (TLTask n). unfold tstep.
    destruct (step false (LTask n) (rs t)); [discriminate | contradiction].
Qed.

(** Termination measure of the whole try system: remaining work of the runner goroutines plus what
    the pip:try goroutine still has to do and to submit. *)
Definition scost (sb : subm) : nat := subm_cost (s_waits sb) (s_body sb).
Definition ocost (o : option subm) : nat := match o with Some h => scost h | None => 0 end.
Definition gcost (tb : tryblock) (t : tstate) : nat :=
  match pc t with
  | TStart => scost (tb_body tb) + ocost (tb_finally tb) + ocost (tb_fail tb) + ocost (tb_success tb) + length (subd t) + 10
  | TWaitBody => ocost (tb_finally tb) + ocost (tb_fail tb) + ocost (tb_success tb) + length (subd t) + 9
  | TFinally _ => ocost (tb_finally tb) + ocost (tb_fail tb) + ocost (tb_success tb) + length (subd t) + 8
  | TFail _ => ocost (tb_fail tb) + ocost (tb_success tb) + length (subd t) + 6
  | TSuccess _ => ocost (tb_success tb) + length (subd t) + 4
  | TCollect r => length r + 1
  | TDone => 0
  end.
Definition tmeasure (tb : tryblock) (t : tstate) : nat := work (rs t) + gcost tb t.

Lemma work_fail_ctx c s : work (fail_ctx c s) = work s.
Proof. unfold work. rewrite fail_ctx_tasks. reflexivity. Qed.

Lemma submit_measure tb h c next t :
  let t' := submit_handler MFixed tb h c next t in
  work (rs t') <= work (rs t) + scost h
  /\ ((pc t' = next (subd t ++ [(s_name h, c)]) /\ subd t' = subd t ++ [(s_name h, c)])
      \/ (pc t' = TCollect (subd t) /\ subd t' = subd t)).
Proof.
  unfold submit_handler. cbn [hctx early]. pose proof (create_work h c None (rs t)) as Hw.
  destruct (create false h c None (rs t)) as [s1 acc]. cbn [fst] in Hw.
  destruct acc; cbn [rs pc subd mk]; (split; [exact Hw|]); auto.
Qed.

Lemma try_step_measure tb t t' : try_step MFixed tb t = Some t' -> tmeasure tb t' < tmeasure tb t.
Proof.
  unfold try_step, tmeasure, gcost.
  destruct (pc t) as [| | c | c | c | [|[hn hc] rest] |] eqn:Epc.
  - destruct (ctx_failed (tb_par tb) (rs t)); [intro H; inversion H; cbn [rs pc subd mk]; lia|].
    pose proof (create_work (tb_body tb) (tb_sep tb) None (rs t)) as Hw.
    destruct (create false (tb_body tb) (tb_sep tb) None (rs t)) as [s1 acc]. cbn [fst] in Hw. fold (scost (tb_body tb)) in Hw.
    destruct acc; intro H; inversion H; cbn [rs pc subd mk]; lia.
  - destruct (find_task _ _) as [b|]; [|intro HH; discriminate HH].
    destruct (is_finished (t_st b)); [|intro HH; discriminate HH]. intro H; inversion H. cbn [rs pc subd mk]. lia.
  - destruct (tb_finally tb) as [h|]; intro H; inversion H; subst t'.
    + destruct (submit_measure tb h (tb_cfin tb) (fun _ => TFail c) t) as [Hw [[E1 E2]|[E1 E2]]];
        rewrite E1; rewrite ?E2; cbv beta iota; cbn [ocost]; rewrite ?app_length; simpl length; lia.
    + cbn [rs pc subd mk goto ocost]. lia.
  - destruct (tb_fail tb) as [h|]; [destruct c|]; intro H; inversion H; subst t'.
    + destruct (submit_measure tb h (tb_cfail tb) (fun _ => TSuccess true) t) as [Hw [[E1 E2]|[E1 E2]]];
        rewrite E1; rewrite ?E2; cbv beta iota; cbn [ocost]; rewrite ?app_length; simpl length; lia.
    + cbn [rs pc subd mk goto ocost]. lia.
    + cbn [rs pc subd mk goto ocost]. lia.
  - destruct (tb_success tb) as [h|]; [destruct c|]; intro H; inversion H; subst t'.
    + cbn [rs pc subd mk goto ocost]. lia.
    + destruct (submit_measure tb h (tb_csucc tb) TCollect t) as [Hw [[E1 E2]|[E1 E2]]];
        rewrite E1; rewrite ?E2; cbv beta iota; cbn [ocost]; rewrite ?app_length; simpl length; lia.
    + cbn [rs pc subd mk goto ocost]. lia.
  - intro H; inversion H. cbn [rs pc subd mk].
    destruct (pend t); cbn [andb negb early]; rewrite ?work_fail_ctx; simpl length; lia.
  - destruct (find_task hn (tasks (rs t))) as [x|]; [|intro HH; discriminate HH].
    destruct (is_finished (t_st x)); [|intro HH; discriminate HH].
    simpl early. rewrite andb_false_r. intro H; inversion H. cbn [rs pc subd mk]. simpl length. lia.
  - intro HH; discriminate HH.
Qed.

Lemma tstep_measure tb l t t' :
  NoDup (map t_name (tasks (rs t))) -> tstep MFixed tb l t = Some t' -> tmeasure tb t' < tmeasure tb t.
Proof.
  intros Hnd. destruct l as [n | n |]; unfold tstep.
  - destruct (step false (LTask n) (rs t)) as [s|] eqn:Es; [|intro HH; discriminate HH]. intro H; inversion H.
    pose proof (step_work (LTask n) _ _ Hnd eq_refl Es). unfold tmeasure, gcost. cbn [rs pc subd with_rs mk]. lia.
  - destruct (step false (LAbort n) (rs t)) as [s|] eqn:Es; [|intro HH; discriminate HH]. intro H; inversion H.
    pose proof (step_work (LAbort n) _ _ Hnd eq_refl Es). unfold tmeasure, gcost. cbn [rs pc subd with_rs mk]. lia.
  - apply try_step_measure.
Qed.

(** Number of steps of a try schedule that are not skipped. *)
Fixpoint teffective (tb : tryblock) (sched : list tlabel) (t : tstate) : nat :=
  match sched with
  | [] => 0
  | l :: r => match tstep MFixed tb l t with
              | Some t' => S (teffective tb r t')
              | None => teffective tb r t
              end
  end.

Lemma try_steps_bounded tb sched :
  teffective tb sched (tinit tb) + tmeasure tb (trun MFixed tb sched (tinit tb)) <= tmeasure tb (tinit tb).
Proof.
  assert (G : forall sched t, (exists s0, rs t = run false s0 (init (tb_par tb))) ->
              teffective tb sched t + tmeasure tb (trun MFixed tb sched t) <= tmeasure tb t).
  { clear sched. induction sched as [|l r IH]; intros t Hr; simpl; [lia|].
    unfold tstep_skip. destruct (tstep MFixed tb l t) as [t'|] eqn:E; [|apply IH; assumption].
    assert (Hnd : NoDup (map t_name (tasks (rs t)))).
    { destruct Hr as [s0 ->]. apply (inv_nodup _ (Inv2_run _ _)). }
    pose proof (tstep_measure _ _ _ _ Hnd E).
    assert (Hr' : exists s0, rs t' = run false s0 (init (tb_par tb))).
    { destruct Hr as [s0 Es]. destruct (tstep_labels _ _ _ _ _ E) as [ls El]. exists (s0 ++ ls). rewrite run_app, <- Es. assumption. }
    specialize (IH t' Hr'). lia. }
  apply G. exists []. reflexivity.
Qed.

(** * Examples (non-vacuity): a body whose nested task fails, all three handlers defined, the fail
    handler spawns a nested task itself *)

Definition nest_tb : tryblock :=
  {| tb_body := {| s_name := 1%N; s_waits := []; s_body := [COk; CSpawn 10%N [] [COk; CFail]; COk] |};
     tb_finally := Some {| s_name := 2%N; s_waits := []; s_body := [COk] |};
     tb_fail := Some {| s_name := 3%N; s_waits := []; s_body := [CSpawn 11%N [] [COk]; COk] |};
     tb_success := Some {| s_name := 4%N; s_waits := []; s_body := [COk] |};
     tb_sep := 50%N; tb_par := 1%N; tb_cfin := 51%N; tb_cfail := 52%N; tb_csucc := 53%N |}.

(** A round-robin schedule (disabled steps are skipped). *)
Definition nest_sched : list tlabel :=
  concat (repeat [TLTry; TLTask 1%N; TLTask 10%N; TLTask 2%N; TLTask 3%N; TLTask 11%N; TLTask 4%N] 30).

Lemma nest_wf : wf nest_tb.
Proof.
  split.
  - vm_compute. repeat constructor; simpl; intuition discriminate.
  - vm_compute. intros x [<-|[<-|[<-|[<-|[]]]]] [H|[H|[]]]; discriminate H.
  - vm_compute. intros h [<-|[<-|[<-|[]]]]; reflexivity.
  - vm_compute. intros h c [E|[E|[E|[]]]]; inversion E; discriminate.
  - vm_compute. discriminate.
Qed.

Lemma nest_fresh : fresh nest_tb.
Proof. vm_compute. repeat constructor; simpl; intuition discriminate. Qed.

Lemma nest_flat : flat_tb nest_tb.
Proof. intros sb [<-|[<-|[<-|[<-|[]]]]]; reflexivity. Qed.

Lemma cancel_fresh : fresh cancel_tb.
Proof. vm_compute. repeat constructor; simpl; intuition discriminate. Qed.

Lemma early_fresh : fresh early_tb.
Proof. vm_compute. repeat constructor; simpl; intuition discriminate. Qed.

(** [fresh] carries weight: let two handlers share one (non-surrounding) context and the failing
    success handler cuts the finally handler short - it begins and executes none of its commands.
    ([wf] holds for this block; this is what one scope for all handlers would do, cf. F37.) *)
Definition shared_tb : tryblock :=
  {| tb_body := tb_body cancel_tb; tb_finally := tb_finally cancel_tb; tb_fail := None;
     tb_success := tb_success cancel_tb;
     tb_sep := 50%N; tb_par := 1%N; tb_cfin := 53%N; tb_cfail := 52%N; tb_csucc := 53%N |}.

Lemma shared_wf : wf shared_tb.
Proof.
  split.
  - vm_compute. repeat constructor; simpl; intuition discriminate.
  - vm_compute. intros x H. exact (fun f => f).
  - vm_compute. intros h [<-|[<-|[]]]; reflexivity.
  - vm_compute. intros h c [E|[E|[]]]; inversion E; discriminate.
  - vm_compute. discriminate.
Qed.

Lemma shared_scope_refuted :
  let t := trun MFixed shared_tb cancel_sched (tinit shared_tb) in
  wf shared_tb /\ ~ fresh shared_tb
  /\ tfinal t = true
  /\ In (EBodyBegin 2%N []) (log (rs t))
  /\ (forall i, ~ In (ECmdBegin 2%N i) (log (rs t)))
  /\ (exists x, T (rs t) 2%N x /\ t_st x = Finished false /\ length (t_body x) = 2)
  /\ step false (LAbort 2%N) (rs (trun MFixed shared_tb (firstn 15 cancel_sched) (tinit shared_tb))) <> None.
Proof.
  split; [exact shared_wf|]. split.
  - intro Hf. vm_compute in Hf. inversion Hf as [|? ? _ H1]; subst. inversion H1 as [|? ? _ H2]; subst.
    inversion H2 as [|? ? H3 _]; subst. apply H3. left. reflexivity.
  - vm_compute. repeat split; try reflexivity.
    + repeat (first [left; reflexivity | right]).
    + intros i H. repeat (destruct H as [H|H]; [discriminate|]). exact H.
    + eexists. repeat split; reflexivity.
    + discriminate.
Qed.
