(** Proofs about Model/Loop.v: invariants of the fsloop model preserved by every step of every
    thread, hence true after every schedule. *)
From GC Require Import Common.Base Model.Loop.
From Coq Require Import Permutation Lia.
Close Scope N_scope.
Open Scope nat_scope.

(** ---------- lists *)

Lemma upd_length {A} i (x : A) l : length (upd i x l) = length l.
Proof. revert i; induction l; intros [|i]; simpl; auto. Qed.

Lemma nth_error_upd_eq {A} i (x y : A) l : nth_error l i = Some y -> nth_error (upd i x l) i = Some x.
Proof. revert i; induction l; intros [|i]; simpl; try discriminate; auto. Qed.

Lemma nth_error_upd_neq {A} i j (x : A) l : i <> j -> nth_error (upd i x l) j = nth_error l j.
Proof. revert i j; induction l; intros [|i] [|j]; simpl; auto; try congruence. Qed.

Lemma Forall_upd {A} (P : A -> Prop) i x l : Forall P l -> P x -> Forall P (upd i x l).
Proof.
  intros H Hx; revert i; induction H; intros [|i]; simpl; auto.
Qed.

Lemma In_upd {A} i (x z : A) l : In z (upd i x l) -> z = x \/ In z l.
Proof.
  revert i; induction l; intros [|i]; simpl; auto; intros [H|H]; auto.
  apply IHl in H. tauto.
Qed.

Lemma In_upd_other {A} i (x y z : A) l : nth_error l i = Some y -> In z l -> z = y \/ In z (upd i x l).
Proof.
  revert i; induction l; intros [|i]; simpl; try discriminate.
  - intros E [H|H]; [left; congruence | right; auto].
  - intros E [H|H]; [right; auto|]. destruct (IHl _ E H); auto.
Qed.

Lemma In_upd_self {A} i (x y : A) l : nth_error l i = Some y -> In x (upd i x l).
Proof. revert i; induction l; intros [|i]; simpl; try discriminate; auto. Qed.

Lemma nth_error_Forall {A} (P : A -> Prop) l i x : Forall P l -> nth_error l i = Some x -> P x.
Proof. intros H E. apply nth_error_In in E. rewrite Forall_forall in H. auto. Qed.

Lemma flat_map_upd_perm {A B} (f : A -> list B) i x y a l :
  nth_error l i = Some x -> Permutation (f x) (a ++ f y) ->
  Permutation (flat_map f l) (a ++ flat_map f (upd i y l)).
Proof.
  revert i; induction l as [|z l IH]; intros [|i]; simpl; try discriminate.
  - intros E P. inversion E; subst. rewrite app_assoc. apply Permutation_app_tail. exact P.
  - intros E P. specialize (IH _ E P).
    rewrite IH. rewrite !app_assoc. apply Permutation_app_tail. apply Permutation_app_comm.
Qed.

Definition b2n (b : bool) : nat := if b then 1 else 0.

Lemma count_upd {A} (f : A -> bool) i x y l :
  nth_error l i = Some x ->
  length (filter f (upd i y l)) + b2n (f x) = length (filter f l) + b2n (f y).
Proof.
  revert i; induction l as [|z l IH]; intros [|i]; simpl; try discriminate.
  - intros E; inversion E; subst. destruct (f x), (f y); simpl; lia.
  - intros E. specialize (IH _ E). destruct (f z); simpl; lia.
Qed.

Lemma filter_length_app {A} (f : A -> bool) l1 l2 :
  length (filter f (l1 ++ l2)) = length (filter f l1) + length (filter f l2).
Proof. rewrite filter_app, app_length. reflexivity. Qed.

Lemma filter_len_le {A} (f : A -> bool) l : length (filter f l) <= length l.
Proof. induction l; simpl; auto. destruct (f a); simpl; lia. Qed.

Lemma NoDup_app_l {A} (l1 l2 : list A) : NoDup (l1 ++ l2) -> NoDup l1.
Proof.
  induction l1; simpl; intros H; [constructor|]. inversion H; subst. constructor; auto.
  intros Q. apply H2. apply in_or_app; auto.
Qed.

Lemma filter_nil_Forall {A} (f : A -> bool) l : length (filter f l) = 0 -> Forall (fun x => f x = false) l.
Proof.
  induction l; simpl; auto. destruct (f a) eqn:E; simpl; try discriminate. auto.
Qed.

(** ---------- multisets of items by counting *)

Definition item_eq_dec : forall a b : item, {a = b} + {a <> b}.
Proof. decide equality; apply (list_eq_dec N.eq_dec). Defined.

Definition cnt1 (x y : item) : nat := if item_eq_dec y x then 1 else 0.
Definition cnt (x : item) (l : list item) : nat := count_occ item_eq_dec l x.

Lemma cnt_nil x : cnt x [] = 0.
Proof. reflexivity. Qed.
Lemma cnt_cons x y l : cnt x (y :: l) = cnt1 x y + cnt x l.
Proof. unfold cnt, cnt1; simpl. destruct (item_eq_dec y x); reflexivity. Qed.
Lemma cnt_app x l1 l2 : cnt x (l1 ++ l2) = cnt x l1 + cnt x l2.
Proof. apply count_occ_app. Qed.
Lemma perm_cnt l1 l2 : Permutation l1 l2 <-> forall x, cnt x l1 = cnt x l2.
Proof. apply Permutation_count_occ. Qed.
#[global] Hint Rewrite cnt_nil cnt_cons cnt_app : cnt.
Arguments cnt : simpl never.
Arguments cnt1 : simpl never.
Arguments sel_list : simpl never.

Lemma cnt_flat_upd {A} (f : A -> list item) i x0 y l x :
  nth_error l i = Some x0 ->
  cnt x (flat_map f (upd i y l)) + cnt x (f x0) = cnt x (flat_map f l) + cnt x (f y).
Proof.
  revert i; induction l as [|z l IH]; intros [|i]; simpl; try discriminate.
  - intros E; inversion E; subst. rewrite !cnt_app. lia.
  - intros E. specialize (IH _ E). rewrite !cnt_app. lia.
Qed.

(** ---------- running a schedule *)

Section Proofs.
  Variable cfg : config.

  Lemma run_app s1 s2 s : run cfg (s1 ++ s2) s = run cfg s2 (run cfg s1 s).
  Proof. unfold run. apply fold_left_app. Qed.

  Lemma run_inv (P : state -> Prop) :
    (forall t s s', P s -> step cfg t s = Some s' -> P s') ->
    forall sched s, P s -> P (run cfg sched s).
  Proof.
    intros Hstep sched. induction sched as [|t sched IH]; simpl; auto.
    intros s Hs. apply IH. unfold exec. destruct (step cfg t s) eqn:E; eauto.
  Qed.

  (** ---------- case analysis of a step *)

  Ltac brk H :=
    repeat match type of H with
           | context [match ?x with _ => _ end] => destruct x eqn:?; try discriminate H
           end.

  Ltac inv_some H := inversion H; subst; clear H.

  (** producers and the completion goroutine *)

  Definition alive (p : pstate) : bool := negb (p_exited p).
  Definition kpast (k : kpc) : bool := match k with K1 => false | _ => true end.

  Record InvP (s : state) : Prop := {
    p_count : pcount s = length (filter alive (prods s));
    p_done : kpast (comp s) = true -> Forall (fun p => p = PExit) (prods s);
    p_closed : closed s = true \/ dclosed s = true \/ fclosed s = true -> kpast (comp s) = true;
    p_nopanic : panicked s = false
  }.

  Lemma all_exit_no_step s i p :
    Forall (fun p => p = PExit) (prods s) -> nth_error (prods s) i = Some p -> p = PExit.
  Proof. intros H E. exact (nth_error_Forall _ _ _ _ H E). Qed.

  Lemma alive_upd_same s i p p' :
    nth_error (prods s) i = Some p -> alive p = true -> alive p' = true ->
    length (filter alive (upd i p' (prods s))) = length (filter alive (prods s)).
  Proof.
    intros E A A'. pose proof (count_upd alive i p p' (prods s) E) as H.
    rewrite A, A' in H. simpl in H. lia.
  Qed.

  Lemma send_d_inv p s s' : send_d cfg p s = Some s' ->
    (dclosed s = true /\ s' = set_panicked s true) \/
    (dclosed s = false /\ length (dq s) < dcap cfg /\ s' = set_dq s (dq s ++ [p])).
  Proof.
    unfold send_d. destruct (dclosed s); [intros H; inv_some H; auto|].
    destruct (Nat.ltb_spec (length (dq s)) (dcap cfg)); intros H'; inv_some H'. right; auto.
  Qed.

  Lemma send_f_inv p s s' : send_f cfg p s = Some s' ->
    (fclosed s = true /\ s' = set_panicked s true) \/
    (fclosed s = false /\ length (fq s) < fcap cfg /\ s' = set_fq s (fq s ++ [p])).
  Proof.
    unfold send_f. destruct (fclosed s); [intros H; inv_some H; auto|].
    destruct (Nat.ltb_spec (length (fq s)) (fcap cfg)); intros H'; inv_some H'. right; auto.
  Qed.


  Lemma InvP_init base root : InvP (init cfg base root).
  Proof. split; simpl; auto; try discriminate. intros [H|[H|H]]; discriminate. Qed.

  Lemma InvP_prod_not_past s i p :
    InvP s -> nth_error (prods s) i = Some p -> p <> PExit ->
    kpast (comp s) = false /\ closed s = false /\ dclosed s = false /\ fclosed s = false.
  Proof.
    intros [Hc Hd Hcl Hp] E N.
    assert (K : kpast (comp s) = false).
    { destruct (kpast (comp s)) eqn:K; auto. exfalso. apply N. eapply all_exit_no_step; eauto. }
    split; auto.
    destruct (closed s) eqn:?, (dclosed s) eqn:?, (fclosed s) eqn:?; auto;
      rewrite Hcl in K; auto; discriminate.
  Qed.


  Lemma InvP_ext s s' :
    prods s' = prods s -> pcount s' = pcount s -> comp s' = comp s -> closed s' = closed s ->
    dclosed s' = dclosed s -> fclosed s' = fclosed s -> panicked s' = panicked s ->
    InvP s -> InvP s'.
  Proof.
    intros E1 E2 E3 E4 E5 E6 E7 [Hc Hd Hcl Hp].
    split; rewrite ?E1, ?E2, ?E3, ?E4, ?E5, ?E6, ?E7; auto.
  Qed.

  Lemma alive_ret stk : alive (ret stk) = true.
  Proof. destruct stk; reflexivity. Qed.

  Lemma InvP_setp s i p p' :
    InvP s -> nth_error (prods s) i = Some p -> p <> PExit -> alive p' = true -> InvP (setp i p' s).
  Proof.
    intros I E N A. destruct (InvP_prod_not_past _ _ _ I E N) as (K & C1 & C2 & C3).
    destruct I as [Hc Hd Hcl Hp]. split; cbn; auto.
    - assert (Ap : alive p = true) by (destruct p; auto; congruence).
      rewrite (alive_upd_same s i p p'); auto.
    - rewrite K. discriminate.
  Qed.

  Lemma InvP_setp' s s0 i p p' :
    InvP s ->
    prods s0 = prods s -> pcount s0 = pcount s -> comp s0 = comp s -> closed s0 = closed s ->
    dclosed s0 = dclosed s -> fclosed s0 = fclosed s -> panicked s0 = panicked s ->
    nth_error (prods s) i = Some p -> p <> PExit -> alive p' = true -> InvP (setp i p' s0).
  Proof.
    intros I E1 E2 E3 E4 E5 E6 E7 E N A.
    apply (InvP_setp s0 i p p'); auto; try congruence.
    eapply InvP_ext; [| | | | | | |exact I]; auto.
  Qed.

  Ltac ext_tac := apply InvP_ext; cbn; auto.

  Lemma InvP_step t s s' : InvP s -> step cfg t s = Some s' -> InvP s'.
  Proof.
    intros I H. destruct t as [i|i| | |]; simpl in H.
    - destruct (nth_error (prods s) i) as [p|] eqn:E; [|discriminate].
      assert (N : p <> PExit) by (intros ->; discriminate).
      destruct (InvP_prod_not_past _ _ _ I E N) as (K & C1 & C2 & C3).
      unfold pstep in H. brk H; inv_some H;
        try match goal with
            | Hs : send_f _ _ _ = Some _ |- _ =>
              apply send_f_inv in Hs; destruct Hs as [[Hs _]|(_ & _ & ->)]; [congruence|]
            | Hs : send_d _ _ _ = Some _ |- _ =>
              apply send_d_inv in Hs; destruct Hs as [[Hs _]|(_ & _ & ->)]; [congruence|]
            end;
        try (eapply (InvP_setp' s); eauto using alive_ret; reflexivity).
      + (* spawn *)
        destruct I as [Hc Hd Hcl Hp]. split; cbn; auto.
        * rewrite filter_length_app. cbn. rewrite (alive_upd_same s i _ (PRun PR stk) E); auto. lia.
        * rewrite K; discriminate.
      + (* Done *)
        destruct I as [Hc Hd Hcl Hp]. split; cbn; auto.
        * pose proof (count_upd alive i _ PExit _ E) as Q. cbn in Q. lia.
        * rewrite K; discriminate.
    - destruct (nth_error (cons s) i) as [c|] eqn:E; [|discriminate].
      unfold cstep in H. brk H; inv_some H; revert I; ext_tac.
    - unfold kstep in H. destruct I as [Hc Hd Hcl Hp]. brk H; inv_some H; split; cbn; auto; try discriminate;
        try (intros _; match goal with Hk : comp s = _ |- _ => rewrite Hk in Hd; apply Hd; reflexivity end).
      intros _. apply Nat.eqb_eq in Heqb. rewrite Hc in Heqb. apply filter_nil_Forall in Heqb.
      eapply Forall_impl; [|exact Heqb]. intros [] A; try discriminate; reflexivity.
    - brk H; inv_some H; revert I; ext_tac.
    - inv_some H; revert I; ext_tac.
  Qed.


  (** ---------- facts that, once true, stay true *)

  Definition cdone (cl : bool) (d f : list path) : Prop := cl = true /\ d = [] /\ f = [].

  Lemma step_stable t s s' : InvP s -> step cfg t s = Some s' ->
    (closed s = true -> closed s' = true) /\ (killed s = true -> killed s' = true) /\
    (closed s = true -> dq s = [] -> dq s' = []) /\ (closed s = true -> fq s = [] -> fq s' = []).
  Proof.
    intros I H. destruct t as [i|i| | |]; simpl in H.
    - destruct (nth_error (prods s) i) as [p|] eqn:E; [|discriminate].
      assert (N : p <> PExit) by (intros ->; discriminate).
      destruct (InvP_prod_not_past _ _ _ I E N) as (K & C1 & C2 & C3).
      unfold pstep in H. brk H; inv_some H;
        try match goal with
            | Hs : send_f _ _ _ = Some _ |- _ =>
              apply send_f_inv in Hs; destruct Hs as [[Hs _]|(_ & _ & ->)]; [congruence|]
            | Hs : send_d _ _ _ = Some _ |- _ =>
              apply send_d_inv in Hs; destruct Hs as [[Hs _]|(_ & _ & ->)]; [congruence|]
            end; cbn; repeat split; intros; auto; congruence.
    - destruct (nth_error (cons s) i) as [c|] eqn:E; [|discriminate].
      unfold cstep in H. brk H; inv_some H; cbn; repeat split; intros; auto; congruence.
    - unfold kstep in H. brk H; inv_some H; cbn; repeat split; intros; auto.
    - brk H; inv_some H; cbn; repeat split; intros; auto.
    - inv_some H; cbn; repeat split; intros; auto.
  Qed.

  (** ---------- consumers (ClosedThenEmpty) *)

  Definition cinv (cl : bool) (d f : list path) (k : bool) (c : cstate) : Prop :=
    match c with
    | C3 true => cl = true
    | C4 true => cl = true /\ d = []
    | C5 true => cdone cl d f
    | CFin | CExit => k = true \/ cdone cl d f
    | _ => True
    end.

  Definition InvC (s : state) : Prop := Forall (cinv (closed s) (dq s) (fq s) (killed s)) (cons s).

  Lemma cinv_stable s s' c :
    (closed s = true -> closed s' = true) /\ (killed s = true -> killed s' = true) /\
    (closed s = true -> dq s = [] -> dq s' = []) /\ (closed s = true -> fq s = [] -> fq s' = []) ->
    cinv (closed s) (dq s) (fq s) (killed s) c -> cinv (closed s') (dq s') (fq s') (killed s') c.
  Proof.
    intros (A & B & C & D). unfold cinv, cdone. destruct c as [| |[]|[]|[]| | | | | | | | |]; auto; try tauto.
  Qed.

  Lemma InvC_init base root : InvC (init cfg base root).
  Proof. unfold InvC; cbn. apply Forall_forall. intros c Hc. apply repeat_spec in Hc. subst; exact I. Qed.

  Lemma InvC_step t s s' :
    xt cfg = ClosedThenEmpty -> InvP s -> InvC s -> step cfg t s = Some s' -> InvC s'.
  Proof.
    intros X IP IC H. pose proof (step_stable _ _ _ IP H) as ST.
    assert (IC' : Forall (cinv (closed s') (dq s') (fq s') (killed s')) (cons s)).
    { eapply Forall_impl; [|exact IC]. intros c. apply cinv_stable. exact ST. }
    clear ST. unfold InvC.
    destruct t as [i|i| | |]; simpl in H.
    - destruct (nth_error (prods s) i) as [p|] eqn:E; [|discriminate].
      assert (Ec : cons s' = cons s).
      { unfold pstep in H. brk H; inv_some H;
        try match goal with
            | Hs : send_f _ _ _ = Some _ |- _ => apply send_f_inv in Hs; destruct Hs as [[_ ->]|(_ & _ & ->)]
            | Hs : send_d _ _ _ = Some _ |- _ => apply send_d_inv in Hs; destruct Hs as [[_ ->]|(_ & _ & ->)]
            end; reflexivity. }
      rewrite Ec; exact IC'.
    - destruct (nth_error (cons s) i) as [c|] eqn:E; [|discriminate].
      pose proof (nth_error_Forall _ _ _ _ IC E) as Hc.
      unfold cstep in H. rewrite X in H.
      brk H; inv_some H; cbn in *; apply Forall_upd; auto; unfold cinv, cdone in *; cbn; auto;
        try tauto;
        try (destruct (closed s); auto; fail);
        try (destruct cl; tauto);
        try (destruct it; exact Logic.I).
    - assert (Ec : cons s' = cons s) by (unfold kstep in H; brk H; inv_some H; reflexivity).
      rewrite Ec; exact IC'.
    - assert (Ec : cons s' = cons s) by (brk H; inv_some H; reflexivity).
      rewrite Ec; exact IC'.
    - inv_some H. exact IC'.
  Qed.


  (** ---------- accounting: every selected node is in exactly one place *)

  Lemma sel_dir base n ch :
    sel cfg base (Dir n ch) =
    if daccept cfg (base ++ n)
    then (if on_dir cfg then [IDir (base ++ n)] else []) ++ sel_list cfg ((base ++ n) ++ [SLASH]) ch
    else [].
  Proof.
    unfold sel_list. cbn [sel]. destruct (daccept cfg (base ++ n)); reflexivity.
  Qed.

  Lemma sel_file base n :
    sel cfg base (File n) = if faccept cfg (base ++ n) then [IFile (base ++ n)] else [].
  Proof. reflexivity. Qed.

  Lemma sel_list_cons base t l : sel_list cfg base (t :: l) = sel cfg base t ++ sel_list cfg base l.
  Proof. reflexivity. Qed.

  Lemma sel_list_nil base : sel_list cfg base [] = [].
  Proof. reflexivity. Qed.

  Definition ftodo (f : frame) : list item := sel_list cfg (fst f) (snd f).
  Definition stk_todo (stk : list frame) : list item := flat_map ftodo stk.
  Definition ptodo (p : pstate) : list item :=
    match p with
    | PStart b ch => sel_list cfg b ch
    | PRun pc stk => match pc with PA p ch => sel_list cfg (p ++ [SLASH]) ch | _ => [] end ++ stk_todo stk
    | _ => []
    end.
  Definition todo (s : state) : list item := flat_map ptodo (prods s).

  Lemma ptodo_ret stk : ptodo (ret stk) = stk_todo stk.
  Proof. destruct stk; reflexivity. Qed.

  Definition InvA (sel0 : list item) (s : state) : Prop :=
    exists dr,
      (forall x, cnt x (log s) + cnt x (map IDir (dq s)) + cnt x (map IFile (fq s)) + cnt x (todo s) + cnt x dr
                 = cnt x sel0) /\
      (killed s = false -> dr = []).

  Lemma InvA_init base root : InvA (sel_list cfg base root) (init cfg base root).
  Proof.
    exists []. split; auto. intros x. unfold todo, init.
    cbn [prods log dq fq map flat_map ptodo]. rewrite app_nil_r. autorewrite with cnt. lia.
  Qed.

  Ltac use_upd x E :=
    match goal with
    | |- context [flat_map ptodo (upd ?i ?p' (prods ?s))] =>
      let Q := fresh "Q" in
      pose proof (cnt_flat_upd ptodo i _ p' (prods s) x E) as Q;
      cbn [ptodo] in Q; rewrite ?ptodo_ret in Q
    end.

  Ltac acct_tac HA E :=
    let x := fresh "x" in
    intros x; specialize (HA x); unfold todo in *; cbn; use_upd x E;
    unfold stk_todo, ftodo in *; cbn [flat_map fst snd tl] in *;
    rewrite ?sel_list_cons, ?sel_list_nil, ?sel_dir, ?sel_file, ?map_app in *; cbn [map] in *;
    repeat match goal with Hq : _ = true |- _ => rewrite Hq in * end;
    repeat match goal with Hq : _ = false |- _ => rewrite Hq in * end;
    autorewrite with cnt in *; lia.

  Lemma InvA_step sel0 t s s' : InvP s -> InvA sel0 s -> step cfg t s = Some s' -> InvA sel0 s'.
  Proof.
    intros IP (dr & HA & HD) H. destruct t as [i|i| | |]; simpl in H.
    - destruct (nth_error (prods s) i) as [p|] eqn:E; [|discriminate].
      assert (N : p <> PExit) by (intros ->; discriminate).
      destruct (InvP_prod_not_past _ _ _ IP E N) as (K & C1 & C2 & C3).
      unfold pstep in H. brk H; inv_some H;
        try match goal with
            | Hs : send_f _ _ _ = Some _ |- _ =>
              apply send_f_inv in Hs; destruct Hs as [[Hs _]|(_ & _ & ->)]; [congruence|]
            | Hs : send_d _ _ _ = Some _ |- _ =>
              apply send_d_inv in Hs; destruct Hs as [[Hs _]|(_ & _ & ->)]; [congruence|]
            end.
      all: try (exists dr; split; [acct_tac HA E | cbn; auto]; fail).
      + exists (dr ++ sel_list cfg base ch). split; [acct_tac HA E | cbn; discriminate].
      + exists dr. split; [|cbn; auto]. intros x. cbn. rewrite flat_map_app. revert x. acct_tac HA E.
      + exists (dr ++ sel_list cfg (p0 ++ [SLASH]) ch ++ match stk with [] => [] | f :: _ => ftodo f end).
        split; [|cbn; discriminate]. destruct stk as [|[b r] stk]; acct_tac HA E.
      + exists (dr ++ match stk with [] => [] | f :: _ => ftodo f end).
        split; [|cbn; congruence]. destruct stk as [|[b r] stk]; acct_tac HA E.
    - destruct (nth_error (cons s) i) as [c|] eqn:E; [|discriminate].
      unfold cstep in H. brk H; inv_some H; exists dr;
        (split; [intros x; specialize (HA x); unfold todo in *; cbn;
                 repeat match goal with
                        | Hq : dq _ = _ |- _ => rewrite Hq in *; clear Hq
                        | Hq : fq _ = _ |- _ => rewrite Hq in *; clear Hq
                        end; cbn [map] in *;
                 autorewrite with cnt in *; lia
                | cbn; auto; try discriminate; try congruence]).
    - unfold kstep in H. brk H; inv_some H; exists dr; split; auto.
    - brk H; inv_some H; exists dr; split; auto.
    - inv_some H. exists dr; split; auto. cbn. discriminate.
  Qed.


  (** ---------- consumer pool, Wait, bounded concurrency *)

  Definition calive (c : cstate) : bool := negb (c_exited c).

  Record InvN (s : state) : Prop := {
    n_len : length (cons s) = cmax cfg;
    n_count : ccount s = length (filter calive (cons s));
    n_wait : waited s = true -> ccount s = 0
  }.

  Lemma InvN_init base root : InvN (init cfg base root).
  Proof.
    split; cbn; try discriminate. apply repeat_length.
    induction (cmax cfg); cbn; auto.
  Qed.

  Lemma count0_exited s i c :
    length (filter calive (cons s)) = 0 -> nth_error (cons s) i = Some c -> c = CExit.
  Proof.
    intros Z E. apply filter_nil_Forall in Z. pose proof (nth_error_Forall _ _ _ _ Z E) as Q.
    destruct c; try discriminate; reflexivity.
  Qed.

  Lemma calive_upd_same s i c c' :
    nth_error (cons s) i = Some c -> calive c = true -> calive c' = true ->
    length (filter calive (upd i c' (cons s))) = length (filter calive (cons s)).
  Proof.
    intros E A A'. pose proof (count_upd calive i c c' (cons s) E) as H.
    rewrite A, A' in H. simpl in H. lia.
  Qed.

  Lemma InvN_step t s s' : InvN s -> step cfg t s = Some s' -> InvN s'.
  Proof.
    intros [L C W] H. destruct t as [i|i| | |]; simpl in H.
    - destruct (nth_error (prods s) i) as [p|] eqn:E; [|discriminate].
      unfold pstep in H. brk H; inv_some H;
        try match goal with
            | Hs : send_f _ _ _ = Some _ |- _ => apply send_f_inv in Hs; destruct Hs as [[_ ->]|(_ & _ & ->)]
            | Hs : send_d _ _ _ = Some _ |- _ => apply send_d_inv in Hs; destruct Hs as [[_ ->]|(_ & _ & ->)]
            end; split; cbn; auto.
    - destruct (nth_error (cons s) i) as [c|] eqn:E; [|discriminate].
      assert (NW : waited s = false).
      { destruct (waited s) eqn:Wt; auto. rewrite C in W. specialize (W eq_refl).
        rewrite (count0_exited _ _ _ W E) in H. discriminate. }
      unfold cstep in H. brk H; inv_some H; split; cbn; rewrite ?upd_length; auto; try congruence;
        try (rewrite (calive_upd_same s i _ _ E); auto; unfold after;
             repeat match goal with
                    | |- calive (if ?b then _ else _) = true => destruct b
                    | |- calive (match ?b with _ => _ end) = true => destruct b
                    end; reflexivity).
      pose proof (count_upd calive i _ CExit _ E) as Q. cbn in Q. lia.
    - unfold kstep in H. brk H; inv_some H; split; cbn; auto.
    - brk H; inv_some H; split; cbn; auto. intros _. apply Nat.eqb_eq; auto.
    - inv_some H; split; cbn; auto.
  Qed.

  Lemma running_le s : InvN s -> running s <= cmax cfg.
  Proof. intros [L _ _]. unfold running. rewrite <- L. apply filter_len_le. Qed.

  Lemma count0_all_exited s : InvN s -> ccount s = 0 -> Forall (fun c => c = CExit) (cons s).
  Proof.
    intros [_ C _] Z. rewrite C in Z. apply filter_nil_Forall in Z.
    eapply Forall_impl; [|exact Z]. intros []; try discriminate; reflexivity.
  Qed.

  Lemma all_exited_running0 s : Forall (fun c => c = CExit) (cons s) -> running s = 0.
  Proof.
    unfold running. induction 1; cbn; auto. subst; cbn; auto.
  Qed.


  (** ---------- errors *)

  Definition ecb (es : list err) (cs : list cstate) (it : item) : Prop :=
    cberr cfg it = true -> In (ECb it) es \/ In (CErr it) cs.

  Record InvE (s : state) : Prop := {
    e_kill : killed s = false -> errs s = [];
    e_cb : Forall (ecb (errs s) (cons s)) (ended s);
    e_ls : Forall (fun p => In (ELs p) (errs s)) (lfail s)
  }.

  Lemma InvE_init base root : InvE (init cfg base root).
  Proof. split; cbn; auto. Qed.

  Lemma ecb_mono es es' cs l :
    (forall e, In e es -> In e es') -> Forall (ecb es cs) l -> Forall (ecb es' cs) l.
  Proof.
    intros M. apply Forall_impl. intros it H B. destruct (H B); auto.
  Qed.

  Lemma ecb_upd es es' cs i c c' l :
    nth_error cs i = Some c -> (forall e, In e es -> In e es') ->
    (forall it, c = CErr it -> In (ECb it) es') ->
    Forall (ecb es cs) l -> Forall (ecb es' (upd i c' cs)) l.
  Proof.
    intros E M Hc. apply Forall_impl. intros it H B. destruct (H B) as [Q|Q]; auto.
    destruct (In_upd_other i c' c _ cs E Q) as [R|R]; [left; apply Hc; auto | right; auto].
  Qed.

  Lemma ls_mono es es' (l : list path) :
    (forall e, In e es -> In e es') -> Forall (fun p => In (ELs p) es) l -> Forall (fun p => In (ELs p) es') l.
  Proof. intros M. apply Forall_impl. auto. Qed.

  Lemma InvE_step t s s' : InvE s -> step cfg t s = Some s' -> InvE s'.
  Proof.
    intros [EK EC EL] H. destruct t as [i|i| | |]; simpl in H.
    - destruct (nth_error (prods s) i) as [p|] eqn:E; [|discriminate].
      unfold pstep in H. brk H; inv_some H;
        try match goal with
            | Hs : send_f _ _ _ = Some _ |- _ => apply send_f_inv in Hs; destruct Hs as [[_ ->]|(_ & _ & ->)]
            | Hs : send_d _ _ _ = Some _ |- _ => apply send_d_inv in Hs; destruct Hs as [[_ ->]|(_ & _ & ->)]
            end; split; cbn; auto; try discriminate;
        try (eapply ecb_mono; [|exact EC]; cbn; auto);
        try (constructor; [left; reflexivity|]; eapply Forall_impl; [|exact EL]; cbn; auto);
        try (intros; congruence).
    - destruct (nth_error (cons s) i) as [c|] eqn:E; [|discriminate].
      unfold cstep in H. brk H; inv_some H; split; cbn; auto; try discriminate; try congruence;
        try (eapply ls_mono; [|exact EL]; cbn; auto; fail);
        try (eapply ecb_upd; [exact E| | |exact EC]; cbn; auto; try discriminate;
             intros ? Q; inv_some Q; auto; fail).
      + constructor.
        * intros _. right. eapply In_upd_self; eauto.
        * eapply ecb_upd; [exact E| | |exact EC]; auto. discriminate.
      + constructor.
        * intros B. congruence.
        * eapply ecb_upd; [exact E| | |exact EC]; auto. discriminate.
      + eapply Forall_impl; [|exact EL]; cbn; auto.
    - unfold kstep in H. brk H; inv_some H; split; auto.
    - brk H; inv_some H; split; auto.
    - inv_some H; split; cbn; auto. discriminate.
  Qed.

  Lemma step_errs_mono t s s' : step cfg t s = Some s' -> exists more, errs s' = more ++ errs s.
  Proof.
    intros H. destruct t as [i|i| | |]; simpl in H.
    - destruct (nth_error (prods s) i) as [p|] eqn:E; [|discriminate].
      unfold pstep in H. brk H; inv_some H;
        try match goal with
            | Hs : send_f _ _ _ = Some _ |- _ => apply send_f_inv in Hs; destruct Hs as [[_ ->]|(_ & _ & ->)]
            | Hs : send_d _ _ _ = Some _ |- _ => apply send_d_inv in Hs; destruct Hs as [[_ ->]|(_ & _ & ->)]
            end; cbn; solve [exists []; reflexivity | eexists [_]; reflexivity].
    - destruct (nth_error (cons s) i) as [c|] eqn:E; [|discriminate].
      unfold cstep in H. brk H; inv_some H; cbn; solve [exists []; reflexivity | eexists [_]; reflexivity].
    - unfold kstep in H. brk H; inv_some H; exists []; reflexivity.
    - brk H; inv_some H; exists []; reflexivity.
    - inv_some H; exists []; reflexivity.
  Qed.

  Lemma run_errs_mono sched s : exists more, errs (run cfg sched s) = more ++ errs s.
  Proof.
    revert s. induction sched as [|t sched IH]; intros s; simpl.
    - exists []; reflexivity.
    - unfold exec. destruct (step cfg t s) eqn:E; auto.
      destruct (step_errs_mono _ _ _ E) as [m1 E1]. destruct (IH s0) as [m2 E2].
      exists (m2 ++ m1). rewrite E2, E1, app_assoc. reflexivity.
  Qed.

  (** ---------- queue capacities *)

  Definition InvQ (s : state) : Prop := length (dq s) <= dcap cfg /\ length (fq s) <= fcap cfg.

  Lemma InvQ_step t s s' : InvQ s -> step cfg t s = Some s' -> InvQ s'.
  Proof.
    intros [Qd Qf] H. destruct t as [i|i| | |]; simpl in H.
    - destruct (nth_error (prods s) i) as [p|] eqn:E; [|discriminate].
      unfold pstep in H. brk H; inv_some H;
        try match goal with
            | Hs : send_f _ _ _ = Some _ |- _ => apply send_f_inv in Hs; destruct Hs as [[_ ->]|(_ & ? & ->)]
            | Hs : send_d _ _ _ = Some _ |- _ => apply send_d_inv in Hs; destruct Hs as [[_ ->]|(_ & ? & ->)]
            end; split; cbn; rewrite ?app_length; cbn; auto; lia.
    - destruct (nth_error (cons s) i) as [c|] eqn:E; [|discriminate].
      unfold cstep in H. brk H; inv_some H; split; cbn; auto;
        repeat match goal with
               | Hq : dq _ = _ |- _ => rewrite Hq in *; clear Hq
               | Hq : fq _ = _ |- _ => rewrite Hq in *; clear Hq
               end; cbn in *; lia.
    - unfold kstep in H. brk H; inv_some H; split; auto.
    - brk H; inv_some H; split; auto.
    - inv_some H; split; auto.
  Qed.


  (** ---------- everything together, after any schedule *)

  Record Inv (sel0 : list item) (s : state) : Prop := {
    iP : InvP s; iA : InvA sel0 s; iN : InvN s; iE : InvE s; iQ : InvQ s
  }.

  Lemma Inv_run base root sched : Inv (sel_list cfg base root) (run cfg sched (init cfg base root)).
  Proof.
    apply run_inv.
    - intros t s s' [P A N E Q] H. split.
      + eapply InvP_step; eauto.
      + eapply InvA_step; eauto.
      + eapply InvN_step; eauto.
      + eapply InvE_step; eauto.
      + eapply InvQ_step; eauto.
    - split.
      + apply InvP_init.
      + apply InvA_init.
      + apply InvN_init.
      + apply InvE_init.
      + split; cbn; lia.
  Qed.

  Lemma InvC_run base root sched :
    xt cfg = ClosedThenEmpty ->
    let s := run cfg sched (init cfg base root) in InvP s /\ InvC s.
  Proof.
    intros X. apply (run_inv (fun s => InvP s /\ InvC s)).
    - intros t s s' [P C] H. split; [eapply InvP_step | eapply InvC_step]; eauto.
    - split; [apply InvP_init | apply InvC_init].
  Qed.

  Lemma at_most_once base root sched :
    let s := run cfg sched (init cfg base root) in
    exists rest, Permutation (log s ++ rest) (sel_list cfg base root).
  Proof.
    intros s. destruct (iA _ _ (Inv_run base root sched)) as (dr & HA & _). fold s in HA.
    exists (map IDir (dq s) ++ map IFile (fq s) ++ todo s ++ dr).
    apply perm_cnt. intros x. specialize (HA x). autorewrite with cnt. lia.
  Qed.

  Lemma log_incl base root sched x :
    In x (log (run cfg sched (init cfg base root))) -> In x (sel_list cfg base root).
  Proof.
    intros H. destruct (at_most_once base root sched) as [rest P].
    eapply Permutation_in; [exact P|]. apply in_or_app; auto.
  Qed.

  Lemma log_nodup base root sched :
    NoDup (sel_list cfg base root) -> NoDup (log (run cfg sched (init cfg base root))).
  Proof.
    intros H. destruct (at_most_once base root sched) as [rest P].
    apply Permutation_sym in P. eapply Permutation_NoDup in P; [|exact H].
    eapply NoDup_app_l; eauto.
  Qed.

  Lemma forallb_exited s : all_exited s = true -> Forall (fun c => c = CExit) (cons s).
  Proof.
    unfold all_exited. rewrite forallb_forall, Forall_forall. intros H c Hc.
    specialize (H c Hc). destruct c; try discriminate; reflexivity.
  Qed.

  Lemma exactly_once base root sched :
    xt cfg = ClosedThenEmpty -> 1 <= cmax cfg ->
    let s := run cfg sched (init cfg base root) in
    all_exited s = true -> killed s = false ->
    Permutation (log s) (sel_list cfg base root) /\ dq s = [] /\ fq s = [] /\ errs s = [].
  Proof.
    intros X C1 s AE NK.
    pose proof (Inv_run base root sched) as [P A N E Q]. fold s in P, A, N, E, Q.
    destruct (InvC_run base root sched X) as [_ IC]. fold s in IC.
    apply forallb_exited in AE.
    (* some consumer exists and has exited: it saw Closed, then both queues empty *)
    destruct (cons s) as [|c cs] eqn:EC.
    { pose proof (n_len _ N) as L. rewrite EC in L. simpl in L. lia. }
    assert (Hc : c = CExit) by (inversion AE; auto). subst c.
    unfold InvC in IC. rewrite EC in IC. inversion IC as [|? ? H1 _]; subst.
    cbn in H1. destruct H1 as [K|(CL & DQ & FQ)]; [congruence|].
    (* closed: every producer has exited *)
    assert (PD : Forall (fun p => p = PExit) (prods s)).
    { apply (p_done _ P). apply (p_closed _ P). auto. }
    assert (TD : todo s = []).
    { unfold todo. clear -PD. induction PD; cbn; auto. subst; cbn; auto. }
    destruct A as (dr & HA & HD). rewrite (HD NK) in HA.
    repeat split; auto; [|apply (e_kill _ E NK)].
    apply perm_cnt. intros x. specialize (HA x). rewrite DQ, FQ, TD in HA. cbn in HA.
    autorewrite with cnt in HA. lia.
  Qed.

  Lemma bounded base root sched : running (run cfg sched (init cfg base root)) <= cmax cfg.
  Proof. apply running_le. apply (iN _ _ (Inv_run base root sched)). Qed.

  Lemma wait_enabled s : step cfg TW s <> None <-> (waited s = false /\ ccount s = 0).
  Proof.
    cbn. destruct (waited s); [split; [congruence|intros [? _]; discriminate]|].
    destruct (Nat.eqb_spec (ccount s) 0); split; try congruence; try tauto.
  Qed.

  Lemma wait_safe base root sched :
    let s := run cfg sched (init cfg base root) in
    (ccount s = 0 -> running s = 0 /\ all_exited s = true) /\
    (waited s = true -> running s = 0 /\ all_exited s = true).
  Proof.
    intros s. pose proof (iN _ _ (Inv_run base root sched)) as N. fold s in N.
    assert (A : ccount s = 0 -> running s = 0 /\ all_exited s = true).
    { intros Z. pose proof (count0_all_exited _ N Z) as F. split.
      - apply all_exited_running0; auto.
      - unfold all_exited. apply forallb_forall. rewrite Forall_forall in F. intros c Hc.
        rewrite (F c Hc). reflexivity. }
    split; auto. intros W. apply A. apply (n_wait _ N W).
  Qed.

  Lemma errors_inv base root sched :
    let s := run cfg sched (init cfg base root) in
    (forall it, In it (ended s) -> cberr cfg it = true -> In (ECb it) (errs s) \/ In (CErr it) (cons s)) /\
    (forall p, In p (lfail s) -> In (ELs p) (errs s)) /\
    (errs s <> [] -> killed s = true).
  Proof.
    intros s. pose proof (iE _ _ (Inv_run base root sched)) as [K C L]. fold s in K, C, L.
    rewrite Forall_forall in C, L. split; [|split].
    - intros it Hi B. apply (C it Hi B).
    - auto.
    - intros NE. destruct (killed s); auto.
  Qed.

  Lemma errors_exited base root sched :
    let s := run cfg sched (init cfg base root) in
    all_exited s = true -> forall it, In it (ended s) -> cberr cfg it = true -> In (ECb it) (errs s).
  Proof.
    intros s AE it Hi B. destruct (errors_inv base root sched) as (C & _ & _). fold s in C.
    destruct (C it Hi B) as [Q|Q]; auto.
    apply forallb_exited in AE. rewrite Forall_forall in AE. specialize (AE _ Q). discriminate.
  Qed.

  (** consumers never block; a blocked producer faces a full queue; the completion goroutine
      waits only for live producers *)
  Lemma consumer_enabled s i c : nth_error (cons s) i = Some c -> c <> CExit -> step cfg (TC i) s <> None.
  Proof.
    intros E N. cbn. rewrite E. unfold cstep.
    destruct c; try congruence; repeat match goal with |- context [match ?x with _ => _ end] => destruct x end; discriminate.
  Qed.

  Lemma some_consumer_enabled s : all_exited s = false -> exists i, step cfg (TC i) s <> None.
  Proof.
    unfold all_exited. intros H.
    assert (exists c, In c (cons s) /\ c <> CExit) as (c & Hc & N).
    { induction (cons s) as [|c l IH]; cbn in H; [discriminate|].
      destruct (c_exited c) eqn:X; cbn in H.
      - destruct (IH H) as (c' & ? & ?). exists c'; cbn; auto.
      - exists c; split; cbn; auto. intros ->; discriminate. }
    apply In_nth_error in Hc as [i Hi]. exists i. eapply consumer_enabled; eauto.
  Qed.

  Lemma producer_blocked_full s i p :
    nth_error (prods s) i = Some p -> p <> PExit -> step cfg (TP i) s = None ->
    length (dq s) >= dcap cfg \/ length (fq s) >= fcap cfg.
  Proof.
    intros E N H. cbn in H. rewrite E in H. unfold pstep in H.
    destruct p as [b ch|pc stk| |]; try congruence.
    - destruct (rderr cfg b); discriminate.
    - destruct pc.
      + destruct stk as [|[b [|[n|n ch] rest]] stk]; try discriminate.
        * destruct (faccept cfg (b ++ n)); [|discriminate]. unfold send_f in H.
          destruct (fclosed s); [discriminate|].
          destruct (Nat.ltb_spec (length (fq s)) (fcap cfg)); [discriminate|right; lia].
        * destruct (daccept cfg (b ++ n)); [|discriminate]. destruct (on_dir cfg); [|discriminate].
          unfold send_d in H. destruct (dclosed s); [discriminate|].
          destruct (Nat.ltb_spec (length (dq s)) (dcap cfg)); [discriminate|left; lia].
      + destruct (Nat.ltb (pcount s) (pmax cfg)); [discriminate|]. destruct (rderr cfg p); discriminate.
      + discriminate.
      + destruct (killed s); discriminate.
  Qed.

  Lemma completion_blocked s :
    InvP s -> comp s <> KEnd -> step cfg TK s = None -> exists i p, nth_error (prods s) i = Some p /\ p <> PExit.
  Proof.
    intros P N H. cbn in H. unfold kstep in H. destruct (comp s) eqn:K; try discriminate; try congruence.
    destruct (Nat.eqb_spec (pcount s) 0); [discriminate|].
    rewrite (p_count _ P) in n.
    destruct (filter alive (prods s)) as [|q l] eqn:F; [cbn in n; lia|].
    assert (In q (filter alive (prods s))) as Hq by (rewrite F; left; auto).
    apply filter_In in Hq as [Hq A]. apply In_nth_error in Hq as [i Hi].
    exists i, q. split; auto. intros ->. discriminate.
  Qed.

End Proofs.

(** ---------- statements in the form used by Props/C08.v *)

Lemma at_most_once_full cfg base root sched :
  let s := run cfg sched (init cfg base root) in
  (exists rest, Permutation (log s ++ rest) (sel_list cfg base root)) /\
  (forall x, In x (log s) -> In x (sel_list cfg base root)) /\
  (NoDup (sel_list cfg base root) -> NoDup (log s)).
Proof.
  intros s. split; [apply at_most_once|split].
  - intros x. apply log_incl.
  - apply log_nodup.
Qed.

Lemma wait_full cfg base root sched :
  let s := run cfg sched (init cfg base root) in
  (step cfg TW s <> None <-> (waited s = false /\ ccount s = 0)) /\
  (ccount s = 0 -> running s = 0 /\ all_exited s = true) /\
  (waited s = true -> running s = 0 /\ all_exited s = true).
Proof. intros s. split; [apply wait_enabled | apply wait_safe]. Qed.

Lemma errors_full cfg base root sched :
  let s := run cfg sched (init cfg base root) in
  (forall it, In it (ended s) -> cberr cfg it = true -> In (ECb it) (errs s) \/ In (CErr it) (cons s)) /\
  (all_exited s = true -> forall it, In it (ended s) -> cberr cfg it = true -> In (ECb it) (errs s)) /\
  (forall p, In p (lfail s) -> In (ELs p) (errs s)) /\
  (errs s <> [] -> killed s = true) /\
  (forall sched', exists more, errs (run cfg sched' s) = more ++ errs s).
Proof.
  intros s. destruct (errors_inv cfg base root sched) as (A & B & C).
  split; [exact A|]. split; [apply errors_exited|]. split; [exact B|]. split; [exact C|].
  intros sched'. apply run_errs_mono.
Qed.

Lemma no_stuck_full cfg base root sched :
  let s := run cfg sched (init cfg base root) in
  (forall i c, nth_error (cons s) i = Some c -> c <> CExit -> step cfg (TC i) s <> None) /\
  (all_exited s = false -> exists i, step cfg (TC i) s <> None) /\
  (forall i p, nth_error (prods s) i = Some p -> p <> PExit -> step cfg (TP i) s = None ->
               length (dq s) >= dcap cfg \/ length (fq s) >= fcap cfg) /\
  (comp s <> KEnd -> step cfg TK s = None -> exists i p, nth_error (prods s) i = Some p /\ p <> PExit) /\
  panicked s = false /\ length (dq s) <= dcap cfg /\ length (fq s) <= fcap cfg.
Proof.
  intros s. pose proof (Inv_run cfg base root sched) as [P _ _ _ [Q1 Q2]]. fold s in P, Q1, Q2.
  split; [apply consumer_enabled|]. split; [apply some_consumer_enabled|].
  split; [apply producer_blocked_full|]. split; [apply completion_blocked; auto|].
  split; [apply (p_nopanic _ P)|]. auto.
Qed.

(** ---------- well-formed trees select every item once (no duplicate paths) *)

Lemma tree_ind' (P : tree -> Prop) :
  (forall n, P (File n)) -> (forall n ch, Forall P ch -> P (Dir n ch)) -> forall t, P t.
Proof.
  intros HF HD. fix IH 1. intros [n|n ch]; [apply HF|]. apply HD.
  induction ch as [|x l IHl]; constructor; auto.
Qed.

Definition item_path (it : item) : path := match it with IDir p => p | IFile p => p end.
Definition tailok (r : path) : Prop := r = [] \/ exists r', r = SLASH :: r'.
Definition under (pre : path) (it : item) : Prop := exists r, item_path it = pre ++ r /\ tailok r.

Lemma wf_dir n ch : wf_tree (Dir n ch) = true ->
  good_name n = true /\ forallb wf_tree ch = true /\ uniq (map tname ch) = true.
Proof.
  cbn [wf_tree]. intros H. apply andb_true_iff in H as [H U]. apply andb_true_iff in H as [G F].
  repeat split; auto.
Qed.

Lemma slash_split n1 : forall n2 r1 r2,
  good_name n1 = true -> good_name n2 = true -> tailok r1 -> tailok r2 ->
  n1 ++ r1 = n2 ++ r2 -> n1 = n2.
Proof.
  unfold good_name. induction n1 as [|c1 n1 IH]; intros [|c2 n2] r1 r2 G1 G2 T1 T2 E; cbn in *; auto.
  - destruct T1 as [->|[r' ->]]; [discriminate|]. inversion E; subst.
    cbn in G2. discriminate.
  - destruct T2 as [->|[r' ->]]; [discriminate|]. inversion E; subst.
    cbn in G1. discriminate.
  - inversion E; subst. f_equal.
    apply negb_true_iff in G1, G2. apply orb_false_iff in G1 as [_ G1], G2 as [_ G2].
    apply (IH n2 r1 r2); auto; apply negb_true_iff; auto.
Qed.

Section ND.
  Variable cfg : config.

  Lemma sel_list_in base l it : In it (sel_list cfg base l) -> exists t, In t l /\ In it (sel cfg base t).
  Proof. unfold sel_list. rewrite in_flat_map. auto. Qed.

  Lemma sel_under t : forall base it, In it (sel cfg base t) -> under (base ++ tname t) it.
  Proof.
    induction t as [n|n ch IH] using tree_ind'; intros base it H.
    - rewrite sel_file in H. destruct (faccept cfg (base ++ n)); [|contradiction].
      destruct H as [<-|[]]. exists []. cbn. rewrite app_nil_r. split; auto. left; auto.
    - rewrite sel_dir in H. destruct (daccept cfg (base ++ n)); [|contradiction].
      apply in_app_or in H as [H|H].
      + destruct (on_dir cfg); [|contradiction]. destruct H as [<-|[]].
        exists []. cbn. rewrite app_nil_r. split; auto. left; auto.
      + apply sel_list_in in H as (t & Ht & Hi). rewrite Forall_forall in IH.
        destruct (IH t Ht _ _ Hi) as (r & E & _).
        exists (SLASH :: tname t ++ r). split; [|right; eauto].
        rewrite E. cbn [tname]. rewrite <- !app_assoc. reflexivity.
  Qed.

  Lemma NoDup_app' {A} (l1 l2 : list A) :
    NoDup l1 -> NoDup l2 -> (forall x, In x l1 -> ~ In x l2) -> NoDup (l1 ++ l2).
  Proof.
    induction 1; cbn; auto. intros N2 D. constructor.
    - intros Q. apply in_app_or in Q as [Q|Q]; auto. revert Q. apply D. cbn; auto.
    - apply IHNoDup; auto.
  Qed.

  Lemma wf_good t : wf_tree t = true -> good_name (tname t) = true.
  Proof. destruct t; [auto|]. intros H. apply wf_dir in H. tauto. Qed.

  Lemma mem_path_In p l : mem_path p l = true <-> In p l.
  Proof.
    induction l; cbn; [split; [discriminate|contradiction]|].
    rewrite orb_true_iff, IHl, bytes_eqb_spec. split; intros [H|H]; auto.
  Qed.

  Lemma sel_list_nodup l : forall base,
    Forall (fun t => forall base, wf_tree t = true -> NoDup (sel cfg base t)) l ->
    forallb wf_tree l = true -> uniq (map tname l) = true -> NoDup (sel_list cfg base l).
  Proof.
    induction l as [|t l IH]; intros base F W U.
    - constructor.
    - rewrite sel_list_cons. cbn in W, U. apply andb_true_iff in W as [Wt Wl]. apply andb_true_iff in U as [Ut Ul].
      inversion F as [|? ? Ft Fl]; subst.
      apply NoDup_app'; auto.
      intros it H1 H2. apply sel_list_in in H2 as (t' & Ht' & H2).
      apply sel_under in H1. apply sel_under in H2.
      destruct H1 as (r1 & E1 & T1). destruct H2 as (r2 & E2 & T2).
      rewrite E1 in E2. rewrite <- !app_assoc in E2. apply app_inv_head in E2.
      apply slash_split in E2; auto.
      + apply negb_true_iff in Ut. assert (mem_path (tname t) (map tname l) = true); [|congruence].
        apply mem_path_In. rewrite E2. apply in_map. auto.
      + apply wf_good; auto.
      + apply wf_good. rewrite forallb_forall in Wl. auto.
  Qed.

  Lemma sel_nodup t : forall base, wf_tree t = true -> NoDup (sel cfg base t).
  Proof.
    induction t as [n|n ch IH] using tree_ind'; intros base W.
    - rewrite sel_file. destruct (faccept cfg (base ++ n)); repeat constructor. intros [].
    - rewrite sel_dir. destruct (daccept cfg (base ++ n)); [|constructor].
      apply wf_dir in W as (G & F & U).
      apply NoDup_app'.
      + destruct (on_dir cfg); repeat constructor. intros [].
      + apply sel_list_nodup; auto.
      + intros it H1 H2. destruct (on_dir cfg); [|contradiction]. destruct H1 as [<-|[]].
        apply sel_list_in in H2 as (t & Ht & H2). apply sel_under in H2 as (r & E & _).
        cbn in E. apply (f_equal (@length _)) in E. rewrite !app_length in E. cbn in E. lia.
  Qed.

  Lemma wf_sel_nodup base l : wf_list l = true -> NoDup (sel_list cfg base l).
  Proof.
    unfold wf_list. intros H. apply andb_true_iff in H as [W U].
    apply sel_list_nodup; auto. apply Forall_forall. intros t _ b. apply sel_nodup.
  Qed.
End ND.

Lemma log_nodup_wf cfg base root sched :
  wf_list root = true -> NoDup (log (run cfg sched (init cfg base root))).
Proof. intros W. apply log_nodup. apply wf_sel_nodup. exact W. Qed.
