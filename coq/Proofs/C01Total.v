(** C01, functional strength of the mutating operations.

    Proofs/Fs.v characterises every mutation GIVEN that it succeeded.  That is safety only: a
    model in which every mutation fails would satisfy those statements.  Here every tree-level
    mutation is characterised completely: it succeeds EXACTLY when a condition on the lookups
    of the old tree holds, and then the lookup function of the new tree is given in closed form
    for EVERY path.  The same is lifted to the 16 operations on raw strings ([mem_ok]). *)
From GC Require Import Common.Base Model.Paths Model.Fs Proofs.Paths Proofs.Fs.

(** some non-root prefix of [p] ([p] included) is bound to a file *)
Definition file_on_way (t : fs) (p : path) : bool := existsb (is_file_at t) (prefixes p).

Lemma existsb_ext_in {A} (f g : A -> bool) l :
  (forall x, In x l -> f x = g x) -> existsb f l = existsb g l.
Proof.
  induction l as [|x l IH]; intros H; simpl; [reflexivity|].
  rewrite (H x (or_introl eq_refl)), IH; [reflexivity|]. intros y Hy. apply H. right. exact Hy.
Qed.

Lemma prefixes_from_spec pre p q : In q (prefixes_from pre p) <->
  exists a b, p = a ++ b /\ a <> [] /\ q = pre ++ a.
Proof.
  split; [apply prefixes_from_In|].
  revert pre; induction p as [|n p IH]; intros pre (a & b & Hp & Ha & Hq).
  - destruct a; [congruence|discriminate].
  - destruct a as [|m a]; [congruence|]. simpl in Hp. inversion Hp; subst m p. simpl.
    destruct a as [|m a].
    + left. exact (eq_sym Hq).
    + right. apply IH. exists (m :: a), b. split; [reflexivity|]. split; [discriminate|].
      rewrite Hq. rewrite <- app_assoc. reflexivity.
Qed.

Lemma file_on_way_spec t p : file_on_way t p = true <->
  exists a b d, p = a ++ b /\ a <> [] /\ lookup t a = Some (F d).
Proof.
  unfold file_on_way, prefixes. rewrite existsb_exists. split.
  - intros (q & Hin & Hf). apply prefixes_from_spec in Hin as (a & b & Hp & Ha & Hq).
    simpl in Hq. subst q. unfold is_file_at in Hf.
    destruct (lookup t a) as [[d|]|] eqn:E; try discriminate. exists a, b, d. auto.
  - intros (a & b & d & Hp & Ha & Hl). exists a. split.
    + apply prefixes_from_spec. exists a, b. auto.
    + unfold is_file_at. rewrite Hl. reflexivity.
Qed.

(** * mkdir *)
Lemma mkdir_chain_fails p : forall pre t,
  mkdir_chain t (prefixes_from pre p) = None <-> existsb (is_file_at t) (prefixes_from pre p) = true.
Proof.
  induction p as [|n p IH]; intros pre t; cbn [prefixes_from mkdir_chain existsb].
  - split; discriminate.
  - unfold is_file_at at 1. destruct (lookup t (pre ++ [n])) as [[d|]|] eqn:El.
    + simpl. split; reflexivity.
    + simpl. apply IH.
    + simpl. rewrite IH.
      rewrite (existsb_ext_in (is_file_at (t ++ [(pre ++ [n], D)])) (is_file_at t)); [reflexivity|].
      intros q Hin. apply prefixes_from_In in Hin as (a & b & _ & Ha & ->).
      unfold is_file_at. rewrite lookup_snoc by (auto using snoc_not_nil).
      replace (path_eqb (pre ++ [n]) ((pre ++ [n]) ++ a)) with false; [reflexivity|].
      symmetry. apply path_eqb_false. intros E. apply (f_equal (@length name)) in E.
      rewrite !app_length in E. destruct a; [congruence|simpl in E; lia].
Qed.

Lemma mkdir_all_fails t p : mkdir_all t p = None <-> file_on_way t p = true.
Proof. apply mkdir_chain_fails. Qed.

(** in a well-formed tree every prefix of a directory is a directory *)
Lemma WF_dir_prefix t a p : WF t -> is_dir_at t p = true -> is_prefix a p = true -> lookup t a = Some D.
Proof.
  intros HWF Hd Ha. apply is_prefix_spec in Ha as [s ->].
  assert (H : is_dir_at t a = true).
  { destruct s as [|x s]; [rewrite app_nil_r in Hd; exact Hd|].
    apply (WF_prefix_dir t HWF (x :: s) a); [discriminate|].
    unfold exists_at. unfold is_dir_at in Hd. destruct (lookup t (a ++ x :: s)); [reflexivity|discriminate]. }
  unfold is_dir_at in H. destruct (lookup t a) as [[|]|]; try discriminate. reflexivity.
Qed.

Lemma mkdir_all_lookup t p t' : WF t -> good_path p = true -> mkdir_all t p = Some t' ->
  forall q, lookup t' q = if is_prefix q p then Some D else lookup t q.
Proof.
  intros HWF Hg H q. destruct (mkdir_all_spec _ _ _ HWF Hg H) as (W & Dp & P1 & N1).
  destruct (is_prefix q p) eqn:E.
  - eapply WF_dir_prefix; eauto.
  - destruct (lookup t q) as [e|] eqn:El; [apply P1; exact El|].
    destruct (lookup t' q) eqn:El'; [|reflexivity].
    destruct (N1 q El) as [_ C]; [rewrite El'; discriminate|]. congruence.
Qed.

(** mkdir, completely: it fails exactly when a file is in the way; otherwise the new tree is
    the old one with every prefix of [p] a directory. *)
Theorem mkdir_all_total t p : WF t -> good_path p = true ->
  match mkdir_all t p with
  | None => file_on_way t p = true
  | Some t' => file_on_way t p = false /\ WF t' /\
               forall q, lookup t' q = if is_prefix q p then Some D else lookup t q
  end.
Proof.
  intros HWF Hg. destruct (mkdir_all t p) as [t'|] eqn:E.
  - split; [|split].
    + destruct (file_on_way t p) eqn:Ef; [|reflexivity]. apply mkdir_all_fails in Ef. congruence.
    + apply (mkdir_all_spec _ _ _ HWF Hg E).
    + apply mkdir_all_lookup; assumption.
  - apply mkdir_all_fails. exact E.
Qed.

(** * write *)
Lemma is_prefix_length p q : is_prefix p q = true -> (length p <= length q)%nat.
Proof. intros H. apply is_prefix_spec in H as [s ->]. rewrite app_length. lia. Qed.

Lemma length_removelast {A} (p : list A) : p <> [] -> S (length (removelast p)) = length p.
Proof.
  intros H. destruct p as [|x p']; [congruence|].
  pose proof (app_removelast_last x H) as E. apply (f_equal (@length A)) in E.
  rewrite app_length in E. cbn [length] in E. cbn [length]. lia.
Qed.

Lemma not_prefix_of_parent p : p <> [] -> is_prefix p (removelast p) = false.
Proof.
  intros H. destruct (is_prefix p (removelast p)) eqn:E; [|reflexivity].
  apply is_prefix_length in E. pose proof (length_removelast p H). lia.
Qed.

Lemma proper_prefix_parent q p : is_prefix q p = true -> q <> p -> is_prefix q (removelast p) = true.
Proof.
  intros H Hne. apply is_prefix_spec in H as [s ->].
  destruct s as [|x s] using rev_ind; [rewrite app_nil_r in Hne; congruence|]. clear IHs.
  rewrite app_assoc, removelast_last. apply is_prefix_app.
Qed.

Lemma good_path_parent p : good_path p = true -> good_path (removelast p) = true.
Proof.
  intros Hg. destruct p as [|x p'] eqn:E; [reflexivity|]. rewrite <- E in *.
  assert (Hne : p <> []) by (rewrite E; discriminate).
  rewrite (app_removelast_last [] Hne) in Hg. apply good_path_app in Hg. tauto.
Qed.

Definition write_pre (t : fs) (p : path) : bool :=
  negb (file_on_way t (removelast p)) && negb (is_dir_at t p).

(** write, completely: it fails exactly when a file is on the way to the parent or the target is
    a directory; otherwise the target holds the data, every proper prefix is a directory and
    every other path answers as before. *)
Theorem write_at_total t p data : WF t -> good_path p = true -> p <> [] ->
  match write_at t p data with
  | None => write_pre t p = false
  | Some t' => write_pre t p = true /\ WF t' /\
      forall q, lookup t' q =
        if path_eqb q p then Some (F data) else if is_prefix q p then Some D else lookup t q
  end.
Proof.
  intros HWF Hg Hne. pose proof (good_path_parent p Hg) as Hgp.
  destruct (write_at t p data) as [t'|] eqn:E.
  - destruct (write_at_spec _ _ _ _ HWF Hg Hne E) as (W & Lp & Dpar & P & N).
    unfold write_at in E. pose proof (mkdir_all_total t (removelast p) HWF Hgp) as Hm.
    destruct (mkdir_all t (removelast p)) as [t1|]; [|discriminate].
    destruct Hm as (Hf & W1 & L1).
    assert (Hp1 : lookup t1 p = lookup t p) by (rewrite L1, not_prefix_of_parent by exact Hne; reflexivity).
    split; [|split; [exact W|]].
    + unfold write_pre, is_dir_at. rewrite Hf, <- Hp1. destruct (lookup t1 p) as [[|]|]; [reflexivity|discriminate|reflexivity].
    + intros q. destruct (path_eqb q p) eqn:Eq.
      * apply path_eqb_spec in Eq. subst q. exact Lp.
      * apply path_eqb_false in Eq. destruct (is_prefix q p) eqn:Epre.
        -- eapply WF_dir_prefix; [exact W|exact Dpar|]. apply proper_prefix_parent; assumption.
        -- destruct (lookup t q) as [e|] eqn:El.
           ++ rewrite (P q Eq) by congruence. exact El.
           ++ destruct (lookup t' q) eqn:El'; [|reflexivity].
              destruct (N q Eq El) as [_ C]; [rewrite El'; discriminate|].
              apply is_prefix_removelast_l in C; [congruence|exact Hne].
  - unfold write_at in E. pose proof (mkdir_all_total t (removelast p) HWF Hgp) as Hm.
    unfold write_pre. destruct (mkdir_all t (removelast p)) as [t1|].
    + destruct Hm as (Hf & W1 & L1).
      assert (Hp1 : lookup t1 p = lookup t p) by (rewrite L1, not_prefix_of_parent by exact Hne; reflexivity).
      unfold is_dir_at. rewrite <- Hp1. destruct (lookup t1 p) as [[|]|]; try discriminate.
      rewrite andb_false_r. reflexivity.
    + rewrite Hm. reflexivity.
Qed.

(** * remove, recursive remove *)
Lemma WF_parent_dir t p : WF t -> p <> [] -> exists_at t p = true -> is_dir_at t (removelast p) = true.
Proof.
  intros HWF Hne He. rewrite (app_removelast_last [] Hne) in He.
  apply (WF_prefix_dir t HWF [last p []] (removelast p)); [discriminate|exact He].
Qed.

Definition remove_pre (t : fs) (p : path) : bool :=
  is_file_at t p || (is_dir_at t p && negb (has_children t p)).

(** remove is a total function of the old tree: a file or an empty directory goes, anything else
    is refused. *)
Theorem remove_at_total t p : WF t -> p <> [] ->
  remove_at t p = if remove_pre t p then Some (delete_subtree t p) else None.
Proof.
  intros HWF Hne. unfold remove_at, remove_pre, is_file_at.
  destruct (lookup t p) as [e|] eqn:El.
  - assert (Hpar : is_dir_at t (removelast p) = true)
      by (apply WF_parent_dir; auto; unfold exists_at; rewrite El; reflexivity).
    rewrite Hpar. simpl. unfold is_dir_at. rewrite El. destruct e as [d|]; simpl; [reflexivity|].
    destruct (has_children t p); reflexivity.
  - unfold is_dir_at at 2. rewrite El. simpl. destruct (negb (is_dir_at t (removelast p))); reflexivity.
Qed.

Theorem remove_all_at_total t p : WF t -> p <> [] ->
  remove_all_at t p = if exists_at t p then Some (delete_subtree t p) else None.
Proof.
  intros HWF Hne. unfold remove_all_at. destruct (exists_at t p) eqn:Ee.
  - rewrite (WF_parent_dir t p HWF Hne Ee). simpl. unfold exists_at in Ee.
    destruct (lookup t p); [reflexivity|discriminate].
  - unfold exists_at in Ee. destruct (lookup t p); [discriminate|].
    destruct (negb (is_dir_at t (removelast p))); reflexivity.
Qed.

(** [has_children] in terms of lookups: some path strictly below is bound. *)
Lemma has_children_lookup t p : WF t ->
  (has_children t p = true <-> exists x, x <> [] /\ lookup t (p ++ x) <> None).
Proof.
  intros HWF. rewrite has_children_spec. split.
  - intros (q & e & Hin & Hp & Hl). apply is_prefix_spec in Hp as [x ->]. exists x. split.
    + intros ->. rewrite app_nil_r in Hl. congruence.
    + rewrite (In_lookup t _ e HWF Hin). discriminate.
  - intros (x & Hx & Hl). destruct (lookup t (p ++ x)) as [e|] eqn:E; [|congruence].
    exists (p ++ x), e. split; [|split].
    + apply lookup_In; [|exact E]. destruct p; destruct x; try discriminate; congruence.
    + apply is_prefix_app.
    + rewrite app_length. destruct x; [congruence|simpl; lia].
Qed.

(** a directory has children iff its listing is non-empty *)
Lemma has_children_listing t p : WF t ->
  has_children t p = match children t p with [] => false | _ => true end.
Proof.
  intros HWF. destruct (children t p) as [|[n d] l] eqn:Ec.
  - destruct (has_children t p) eqn:Eh; [|reflexivity]. exfalso.
    apply (has_children_lookup t p HWF) in Eh as (x & Hx & Hl).
    destruct x as [|n x]; [congruence|].
    assert (Hd : exists_at t (p ++ [n]) = true).
    { destruct x as [|m x].
      - unfold exists_at. destruct (lookup t (p ++ [n])); [reflexivity|congruence].
      - assert (H : is_dir_at t (p ++ [n]) = true).
        { apply (WF_prefix_dir t HWF (m :: x) (p ++ [n])); [discriminate|].
          rewrite <- app_assoc. simpl. unfold exists_at. destruct (lookup t (p ++ n :: m :: x)); [reflexivity|congruence]. }
        unfold exists_at. unfold is_dir_at in H. destruct (lookup t (p ++ [n])); [reflexivity|discriminate]. }
    unfold exists_at in Hd. destruct (lookup t (p ++ [n])) as [e|] eqn:El; [|discriminate].
    assert (Hin : In (n, match e with D => true | F _ => false end) (children t p))
      by (apply listing_agrees; [exact HWF|]; exists e; auto).
    rewrite Ec in Hin. destruct Hin.
  - assert (Hin : In (n, d) (children t p)) by (rewrite Ec; left; reflexivity).
    apply (listing_agrees t p n d HWF) in Hin as (e & Hl & _).
    apply (has_children_lookup t p HWF). exists [n]. split; [discriminate|]. rewrite Hl. discriminate.
Qed.

(** * copy *)
Definition kind_ok (k : copy_kind) (e : entry) : bool :=
  match k, e with
  | CAny, _ => true | CDirOnly, D => true | CFileOnly, F _ => true | _, _ => false
  end.

Definition copy_pre (k : copy_kind) (t : fs) (src dst : path) : bool :=
  match lookup t src with Some e => kind_ok k e | None => false end &&
  negb (file_on_way t (removelast dst)) && negb (exists_at t dst).

(** the tree after the destination's parents were made *)
Definition with_parents (t : fs) (dst q : path) : option entry :=
  if is_prefix q (removelast dst) then Some D else lookup t q.

(** copy, completely: it succeeds exactly when the source exists with the demanded kind, no
    file is on the way to the destination's parent and the destination name is free; then the
    destination subtree answers as the source subtree did (after the parents were made, which
    matters when the source contains them) and every path outside the destination answers as
    before, the destination's ancestors being directories. *)
Theorem copy_at_total k t src dst : WF t -> good_path dst = true -> dst <> [] ->
  match copy_at k t src dst with
  | None => copy_pre k t src dst = false
  | Some t' => copy_pre k t src dst = true /\ WF t' /\
      (forall x, lookup t' (dst ++ x) =
                 match x with [] => lookup t src | _ => with_parents t dst (src ++ x) end) /\
      (forall q, is_prefix dst q = false -> lookup t' q = with_parents t dst q)
  end.
Proof.
  intros HWF Hg Hne. pose proof (good_path_parent dst Hg) as Hgp.
  pose proof (mkdir_all_total t (removelast dst) HWF Hgp) as Hm.
  destruct (copy_at k t src dst) as [t'|] eqn:E.
  - destruct (copy_at_spec _ _ _ _ _ HWF Hg Hne E) as (t1 & Em & Ed & Es & W & Lin & Lout).
    rewrite Em in Hm. destruct Hm as (Hf & W1 & L1).
    split; [|split; [exact W|split]].
    + unfold copy_pre. rewrite Hf. unfold copy_at in E.
      destruct (lookup t src) as [e|]; [|discriminate].
      assert (Hk : kind_ok k e = true).
      { destruct k, e; try reflexivity; simpl in E; discriminate. }
      rewrite Hk. simpl. unfold exists_at.
      rewrite L1, not_prefix_of_parent in Ed by exact Hne. rewrite Ed. reflexivity.
    + intros x. rewrite Lin. destruct x; [reflexivity|]. unfold with_parents. apply L1.
    + intros q Hq. rewrite (Lout q Hq). unfold with_parents. apply L1.
  - unfold copy_at in E. unfold copy_pre.
    destruct (lookup t src) as [e|]; [|reflexivity].
    destruct (kind_ok k e) eqn:Hk.
    2:{ reflexivity. }
    assert (Hn : negb match k, e with
                      | CAny, _ => true | CDirOnly, D => true | CFileOnly, F _ => true | _, _ => false
                      end = false) by (destruct k, e; try reflexivity; discriminate).
    rewrite Hn in E.
    destruct (mkdir_all t (removelast dst)) as [t1|].
    + destruct Hm as (Hf & W1 & L1). rewrite Hf. simpl. unfold exists_at.
      specialize (L1 dst). rewrite not_prefix_of_parent in L1 by exact Hne. rewrite <- L1.
      destruct (lookup t1 dst); [reflexivity|]. destruct e; discriminate.
    + rewrite Hm. reflexivity.
Qed.

(** * The raw operations: which of them report plain success *)

(** [mem_ok t o]: the condition, in terms of [reduce] and lookups of the old tree only, under
    which operation [o] reports plain success. *)
Definition mem_ok (t : fs) (o : op) : bool :=
  match o with
  | OCopy s d =>
    match reduce s, reduce_node d with Some sp, Some dp => copy_pre CAny t sp dp | _, _ => false end
  | OCopyDir s d =>
    match reduce s, reduce_node d with Some sp, Some dp => copy_pre CDirOnly t sp dp | _, _ => false end
  | OCopyFile s d =>
    match reduce_node s, reduce_node d with Some sp, Some dp => copy_pre CFileOnly t sp dp | _, _ => false end
  | OMkdirAll s => match reduce s with Some p => negb (file_on_way t p) | None => false end
  | OWriteFile s _ | OWriter s _ => match reduce_node s with Some p => write_pre t p | None => false end
  | ORemove s => match reduce_node s with Some p => remove_pre t p | None => false end
  | ORemoveAll s => match reduce_node s with Some p => exists_at t p | None => false end
  | OFilespace s => match reduce s with Some _ => true | None => false end
  | _ => false
  end.

Theorem mem_step_ok t o : WF t -> (snd (mem_step t o) = RUnit <-> mem_ok t o = true).
Proof.
  intros HWF. destruct o; cbn [mem_step mem_ok];
  repeat match goal with
  | |- context [match reduce ?s with _ => _ end] => destruct (reduce s) eqn:?
  | |- context [match reduce_node ?s with _ => _ end] => destruct (reduce_node s) eqn:?
  end; cbn [snd]; try (split; discriminate); try (split; reflexivity).
  all: repeat match goal with
  | H : reduce_node _ = Some _ |- _ => apply reduce_node_good in H; destruct H
  | H : reduce _ = Some _ |- _ => apply reduce_good in H
  end.
  all: try match goal with
  | |- context [copy_at ?k ?t ?s ?d] =>
    let H := fresh in
    pose proof (copy_at_total k t s d HWF ltac:(assumption) ltac:(assumption)) as H;
    destruct (copy_at k t s d); cbn [upd snd];
    [destruct H as [-> _]; split; reflexivity|rewrite H; split; discriminate]
  | |- context [mkdir_all ?t ?p] =>
    let H := fresh in
    pose proof (mkdir_all_total t p HWF ltac:(assumption)) as H;
    destruct (mkdir_all t p); cbn [upd snd];
    [destruct H as [-> _]; split; reflexivity|rewrite H; split; discriminate]
  | |- context [write_at ?t ?p ?d] =>
    let H := fresh in
    pose proof (write_at_total t p d HWF ltac:(assumption) ltac:(assumption)) as H;
    destruct (write_at t p d); cbn [upd snd];
    [destruct H as [-> _]; split; reflexivity|rewrite H; split; discriminate]
  | |- context [remove_at ?t ?p] =>
    rewrite (remove_at_total t p HWF ltac:(assumption));
    destruct (remove_pre t p); cbn [upd snd]; split; (reflexivity || discriminate)
  | |- context [remove_all_at ?t ?p] =>
    rewrite (remove_all_at_total t p HWF ltac:(assumption));
    destruct (exists_at t p); cbn [upd snd]; split; (reflexivity || discriminate)
  end.
  all: repeat match goal with
  | |- context [if is_dir_at ?tt ?x then _ else _] => destruct (is_dir_at tt x)
  | |- context [match lookup ?tt ?x with _ => _ end] => destruct (lookup tt x) as [[|]|]
  end; cbn [snd]; split; discriminate.
Qed.
