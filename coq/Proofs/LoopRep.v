(** LoopRep.v - the relation of the correspondence case [CRep] (Model/LoopRep.v: what a caller is
    told by the pair "callbacks made, Loop.Errors()" after Wait) holds of the model's own
    observables on EVERY schedule, Kill events of the environment at any point included.

    [reported_decides]: once Wait has returned, [rep_ok] holds of (length (reported s)), "a failure
    was returned to the loop", [log s] and the selected set.  Read from the caller's side: an empty
    Loop.Errors() after Wait decides that the walk visited every selected node once; a walk that
    was ended early - by whatever - cannot come with an empty list. *)
From GC Require Import Common.Base Model.Loop Model.LoopLive Model.LoopRep Proofs.Loop Proofs.LoopLive Proofs.C08More.
From Coq Require Import Permutation Lia Arith.
Close Scope N_scope.
Open Scope nat_scope.

Lemma item_eqb_spec a b : item_eqb a b = true <-> a = b.
Proof.
  destruct a as [p|p], b as [q|q]; simpl; split; intros H; try discriminate; try (inversion H; subst; apply bytes_eqb_refl);
    apply bytes_eqb_spec in H; subst; reflexivity.
Qed.

Lemma remove1_Some x : forall l r, remove1 x l = Some r -> Permutation l (x :: r).
Proof.
  induction l as [|y l IH]; simpl; intros r H; [discriminate|].
  destruct (item_eqb x y) eqn:E.
  - apply item_eqb_spec in E. subst. inversion H; subst. apply Permutation_refl.
  - destruct (remove1 x l) as [r'|] eqn:R; [|discriminate]. inversion H; subst.
    eapply perm_trans; [apply perm_skip; apply IH; reflexivity|apply perm_swap].
Qed.

Lemma remove1_In x : forall l, In x l -> exists r, remove1 x l = Some r.
Proof.
  induction l as [|y l IH]; simpl; intros H; [contradiction|].
  destruct (item_eqb x y) eqn:E; [eexists; reflexivity|].
  destruct H as [H|H].
  - subst. assert (item_eqb x x = true) by (apply item_eqb_spec; reflexivity). congruence.
  - destruct (IH H) as (r & R). rewrite R. eexists; reflexivity.
Qed.

Lemma within_b_complete : forall a rest b, Permutation (a ++ rest) b -> within_b a b = true.
Proof.
  induction a as [|x a IH]; simpl; intros rest b P; [reflexivity|].
  assert (I : In x b) by (eapply Permutation_in; [exact P|left; reflexivity]).
  destruct (remove1_In x b I) as (r & R). rewrite R.
  apply (IH rest). apply remove1_Some in R.
  eapply Permutation_cons_inv. eapply perm_trans; [exact P|exact R].
Qed.

Lemma perm_b_complete : forall a b, Permutation a b -> perm_b a b = true.
Proof.
  induction a as [|x a IH]; simpl; intros b P.
  - apply Permutation_nil in P. subst. reflexivity.
  - assert (I : In x b) by (eapply Permutation_in; [exact P|left; reflexivity]).
    destruct (remove1_In x b I) as (r & R). rewrite R.
    apply IH. apply remove1_Some in R.
    eapply Permutation_cons_inv. eapply perm_trans; [exact P|exact R].
Qed.

Lemma perm_b_sound : forall a b, perm_b a b = true -> Permutation a b.
Proof.
  induction a as [|x a IH]; simpl; intros b H.
  - destruct b; [apply perm_nil|discriminate].
  - destruct (remove1 x b) as [r|] eqn:R; [|discriminate].
    apply remove1_Some in R. eapply perm_trans; [apply perm_skip; apply IH; exact H|apply Permutation_sym; exact R].
Qed.

(** a callback or listing failure was returned to the loop *)
Definition failed_b (cfg : config) (s : state) : bool :=
  negb (match lfail s with [] => true | _ => false end) || existsb (cberr cfg) (ended s).

Lemma reported_decides cfg base root sched :
  xt cfg = ClosedThenEmpty -> 1 <= cmax cfg ->
  let s := run cfg sched (init cfg base root) in
  waited s = true ->
  rep_ok (length (reported s)) (failed_b cfg s) (log s) (sel_list cfg base root) = true.
Proof.
  intros X C1 s W. destruct (reported s) as [|r0 rl] eqn:R; simpl.
  - destruct (no_error_exact_full cfg base root sched X C1) as (K & P & _); [left; exact W|left; exact R|].
    fold s in K, P.
    assert (E : errs s = []).
    { unfold reported in R. apply app_eq_nil in R as [R _]. apply map_eq_nil in R.
      destruct (errs s) as [|e l]; [reflexivity|]. simpl in R. apply app_eq_nil in R as [_ R]. discriminate. }
    destruct (errors_full cfg base root sched) as (_ & B & C & _). fold s in B, C.
    destruct (wait_full cfg base root sched) as (_ & _ & WS). fold s in WS. destruct (WS W) as [_ AE].
    assert (F : failed_b cfg s = false).
    { unfold failed_b. apply Bool.orb_false_iff. split.
      - destruct (lfail s) as [|p l] eqn:L; [reflexivity|]. exfalso.
        specialize (C p (or_introl eq_refl)). rewrite E in C. exact C.
      - destruct (existsb (cberr cfg) (ended s)) eqn:Ex; [|reflexivity]. exfalso.
        apply existsb_exists in Ex as (it & I & CB). specialize (B AE it I CB). rewrite E in B. exact B. }
    rewrite F. simpl. apply perm_b_complete. exact P.
  - destruct (at_most_once_full cfg base root sched) as ((rest & P) & _). fold s in P.
    eapply within_b_complete. exact P.
Qed.

(** the converse reading: what an accepted case with an empty error list says *)
Lemma rep_ok_empty failed obs sel : rep_ok 0 failed obs sel = true -> failed = false /\ Permutation obs sel.
Proof.
  simpl. intros H. apply Bool.andb_true_iff in H as [F P]. split.
  - destruct failed; [discriminate|reflexivity].
  - apply perm_b_sound. exact P.
Qed.
