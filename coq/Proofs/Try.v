(** Proofs about the pip:try model (Model/Try.v). *)
From Coq Require Import Lia ZifyBool ZifyNat ZifyN.
From GC Require Import Common.Base Model.Runner Model.Try Proofs.Runner Proofs.Runner2.
Local Open Scope nat_scope.

(** * Every run of the try system is a run of the open runner system *)

Lemma run_app q a b s : run q (a ++ b) s = run q b (run q a s).
Proof. unfold run. apply fold_left_app. Qed.

Lemma run_one l s s' : step false l s = Some s' -> run false [l] s = s'.
Proof. intro H. simpl. unfold step_skip. rewrite H. reflexivity. Qed.

Lemma submit_handler_labels sh tb h c next t :
  exists ls, rs (submit_handler sh tb h c next t) = run false ls (rs t).
Proof.
  unfold submit_handler. destruct (create false h (hctx sh tb c) None (rs t)) as [s1 acc] eqn:E.
  assert (E1 : run false [LCreate h (hctx sh tb c)] (rs t) = s1).
  { apply run_one. simpl. rewrite E. reflexivity. }
  destruct acc; simpl.
  - exists [LCreate h (hctx sh tb c)]. congruence.
  - destruct (early sh); simpl.
    + exists ([LCreate h (hctx sh tb c)] ++ [LFailCtx (tb_par tb)]). rewrite run_app, E1. reflexivity.
    + exists [LCreate h (hctx sh tb c)]. congruence.
Qed.

Lemma try_step_labels sh tb t t' :
  try_step sh tb t = Some t' -> exists ls, rs t' = run false ls (rs t).
Proof.
  unfold try_step. destruct (pc t) as [| | c | c | c | [|[hn hc] rest] |] eqn:Epc.
  - destruct (ctx_failed (tb_par tb) (rs t)); [intro H; inversion H; exists []; reflexivity|].
    destruct (create false (tb_body tb) (tb_sep tb) None (rs t)) as [s1 acc] eqn:E.
    assert (E1 : run false [LCreate (tb_body tb) (tb_sep tb)] (rs t) = s1).
    { apply run_one. simpl. rewrite E. reflexivity. }
    destruct acc; intro H; inversion H; exists [LCreate (tb_body tb) (tb_sep tb)]; simpl rs; congruence.
  - destruct (find_task _ _) as [b|]; [|intro HH; discriminate HH].
    destruct (is_finished (t_st b)); [|intro HH; discriminate HH].
    intro H; inversion H; exists []; reflexivity.
  - destruct (tb_finally tb) as [h|]; intro H; inversion H.
    + apply submit_handler_labels.
    + exists []; reflexivity.
  - destruct (tb_fail tb) as [h|]; [destruct c|]; intro H; inversion H.
    + apply submit_handler_labels.
    + exists []; reflexivity.
    + exists []; reflexivity.
  - destruct (tb_success tb) as [h|]; [destruct c|]; intro H; inversion H.
    + exists []; reflexivity.
    + apply submit_handler_labels.
    + exists []; reflexivity.
  - destruct (pend t && negb (early sh)); intro H; inversion H; simpl rs.
    + exists [LFailCtx (tb_par tb)]. reflexivity.
    + exists []. reflexivity.
  - destruct (find_task hn (tasks (rs t))) as [x|]; [|intro HH; discriminate HH].
    destruct (is_finished (t_st x)); [|intro HH; discriminate HH].
    destruct (ctx_failed hc (rs t) && early sh); intro H; inversion H; simpl rs.
    + exists [LFailCtx (tb_par tb)]. reflexivity.
    + exists []. reflexivity.
  - intro HH; discriminate HH.
Qed.

Lemma tstep_labels sh tb l t t' : tstep sh tb l t = Some t' -> exists ls, rs t' = run false ls (rs t).
Proof.
  destruct l as [n | n |]; unfold tstep.
  - destruct (step false (LTask n) (rs t)) as [s|] eqn:E; [|intro HH; discriminate HH].
    intro H; inversion H. exists [LTask n]. simpl rs. symmetry. apply run_one. exact E.
  - destruct (step false (LAbort n) (rs t)) as [s|] eqn:E; [|intro HH; discriminate HH].
    intro H; inversion H. exists [LAbort n]. simpl rs. symmetry. apply run_one. exact E.
  - apply try_step_labels.
Qed.

(** The try system only does what the open runner system can do: every C14 theorem applies to the
    body task, the tasks it spawns and the handlers. *)
Lemma try_sim sh tb tsched :
  exists sched, rs (trun sh tb tsched (tinit tb)) = run false sched (init (tb_par tb)).
Proof.
  assert (G : forall tsched t, (exists sched, rs t = run false sched (init (tb_par tb))) ->
                               exists sched, rs (trun sh tb tsched t) = run false sched (init (tb_par tb))).
  { clear. induction tsched as [|l r IH]; intros t H; simpl; [assumption|].
    apply IH. unfold tstep_skip. destruct (tstep sh tb l t) as [t'|] eqn:E; [|assumption].
    destruct H as [sched Hs]. destruct (tstep_labels _ _ _ _ _ E) as [ls Hl].
    exists (sched ++ ls). rewrite run_app, <- Hs. assumption. }
  apply G. exists []. reflexivity.
Qed.

(** * Names spawned by bodies *)

Fixpoint sn_cmd (c : cmd) : list name :=
  match c with
  | CSpawn nm _ b => nm :: (fix f (l : list cmd) : list name := match l with [] => [] | x :: r => sn_cmd x ++ f r end) b
  | _ => []
  end.
Definition sn_body (b : list cmd) : list name := flat_map sn_cmd b.

Lemma sn_inner b :
  (fix f (l : list cmd) : list name := match l with [] => [] | x :: r => sn_cmd x ++ f r end) b = sn_body b.
Proof. induction b as [|x r IH]; simpl; [reflexivity | rewrite IH; reflexivity]. Qed.

Lemma sn_nth b pc nm ws b' :
  nth_error b pc = Some (CSpawn nm ws b') -> In nm (sn_body b) /\ incl (sn_body b') (sn_body b).
Proof.
  intro H. apply nth_error_In in H. unfold sn_body at 1 3. split.
  - apply in_flat_map. exists (CSpawn nm ws b'). split; [assumption | left; reflexivity].
  - intros x Hx. apply in_flat_map. exists (CSpawn nm ws b'). split; [assumption|].
    simpl. right. rewrite sn_inner. assumption.
Qed.

(** * What a runner step does (facts used by the try invariant) *)

Definition runner_step (s s' : state) : Prop :=
  exists n, step false (LTask n) s = Some s' \/ step false (LAbort n) s = Some s'.

Definition same_static4 (x x' : task) : Prop :=
  t_name x' = t_name x /\ t_body x' = t_body x /\ t_waits x' = t_waits x /\ t_ctx x' = t_ctx x.

Lemma runner_step_tasks s s' :
  runner_step s s' ->
  (forall x', In x' (tasks s') ->
     (exists x, In x (tasks s) /\ same_static4 x x')
     \/ (exists x pc ws, In x (tasks s) /\ nth_error (t_body x) pc = Some (CSpawn (t_name x') ws (t_body x'))
                         /\ t_ctx x' = t_ctx x))
  /\ (forall m, registered m (tasks s) = true -> registered m (tasks s') = true)
  /\ tasks s <> [].
Proof.
  intros [n [H|H]]; simpl in H.
  - destruct (find_task n (tasks s)) as [t|] eqn:E; [|discriminate].
    pose proof (find_task_some _ _ _ E) as [Hn Hin].
    assert (HT : T s (t_name t) t) by (unfold T; rewrite Hn; exact E).
    assert (Hne : tasks s <> []) by (intro Z; rewrite Z in Hin; exact Hin).
    destruct (task_step_shape t s s' HT H) as [(st & Ht & _) | (pc & nm & ws & b & Hst & Hnth & R & Ht)].
    + split; [|split; [|assumption]].
      * intros x' Hx'. rewrite Ht in Hx'. apply in_upd_inv in Hx' as [x0 [H0 [->|[-> _]]]]; left; exists x0; repeat split; auto.
      * intros m Hm. rewrite Ht, registered_upd. assumption.
    + split; [|split; [|assumption]].
      * intros x' Hx'. rewrite Ht in Hx'. apply in_upd_inv in Hx' as [x0 [H0 Hc]].
        assert (Hx0 : (exists x, In x (tasks s) /\ same_static4 x x0)
                      \/ (exists x pc ws, In x (tasks s) /\ nth_error (t_body x) pc = Some (CSpawn (t_name x0) ws (t_body x0)) /\ t_ctx x0 = t_ctx x)).
        { apply in_app_or in H0 as [H0|[<-|[]]].
          - left. exists x0. repeat split; auto.
          - right. exists t, pc, ws. simpl. auto. }
        destruct Hc as [->|[-> _]]; [assumption|].
        destruct Hx0 as [[x [A (B1 & B2 & B3 & B4)]]|[x [pc' [ws' (A & B & C)]]]].
        -- left. exists x. repeat split; simpl; auto.
        -- right. exists x, pc', ws'. simpl. auto.
      * intros m Hm. rewrite Ht, registered_upd, registered_app, Hm. reflexivity.
  - destruct (find_task n (tasks s)) as [t|] eqn:E; [|discriminate].
    pose proof (find_task_some _ _ _ E) as [Hn Hin].
    destruct (t_st t) as [| pc [| | |] | | |]; try discriminate.
    destruct (ctx_failed (t_ctx t) s); [|discriminate]. inversion H; subst s'. simpl.
    split; [|split].
    + intros x' Hx'. apply in_upd_inv in Hx' as [x0 [H0 [->|[-> _]]]]; left; exists x0; repeat split; auto.
    + intros m Hm. rewrite registered_upd. assumption.
    + intro Z; rewrite Z in Hin; exact Hin.
Qed.

(** New log entries of a task step. *)
Lemma task_step_log t s s' :
  T s (t_name t) t -> task_step false t s = Some s' ->
  log s' = log s \/
  exists e, log s' = e :: log s /\
            (is_sub e = false \/ exists pc ws b, nth_error (t_body t) pc = Some (CSpawn (ev_name e) ws b)).
Proof.
  intros HT. unfold task_step. set (n := t_name t).
  destruct (t_st t) as [i | pc ph | | ok |] eqn:Est; try (intro HH; discriminate HH).
  - destruct (nth_error (t_waits t) i) as [u|].
    + destruct (find_task u (tasks s)) as [tu|].
      * destruct (is_finished (t_st tu)); [|intro HH; discriminate HH].
        destruct (ctx_failed (t_ctx tu) s); intro E; inversion E; subst; simpl; rewrite ?fail_ctx_log; auto.
      * intro E; inversion E; subst; simpl; rewrite ?fail_ctx_log; auto.
    + intro E; inversion E; subst; simpl. right. eexists. split; [reflexivity|]. left. reflexivity.
  - destruct ph as [| | c |].
    + destruct (nth_error (t_body t) pc) eqn:Enth; intro E; inversion E; subst; simpl; auto.
      right. eexists. split; [reflexivity|]. left. reflexivity.
    + destruct (nth_error (t_body t) pc) as [[| | nm ws b]|] eqn:Enth; try (intro HH; discriminate HH).
      * destruct (ctx_failed (t_ctx t) s); intro E; inversion E; subst; simpl;
          right; eexists; (split; [reflexivity|]); left; reflexivity.
      * intro E; inversion E; subst; simpl. rewrite fail_ctx_log.
        right; eexists; (split; [reflexivity|]); left; reflexivity.
      * set (sb := {| s_name := nm; s_waits := ws; s_body := b |}).
        destruct (create_false_cases sb (t_ctx t) (Some n) s) as [Ec | (R & V & Ec)]; rewrite Ec;
          intro E; inversion E; subst; simpl;
          right; eexists; (split; [reflexivity|]); right; simpl; eauto.
    + destruct (find_task c (tasks s)) as [tc|]; [|intro HH; discriminate HH].
      destruct (is_finished (t_st tc) || t_orphan tc); [|intro HH; discriminate HH].
      destruct (ctx_failed (t_ctx t) s); intro E; inversion E; subst; simpl;
        right; eexists; (split; [reflexivity|]); left; reflexivity.
    + intro E; inversion E; subst; simpl. rewrite fail_ctx_log.
      right; eexists; (split; [reflexivity|]); left; reflexivity.
  - intro E; inversion E; subst; simpl. right; eexists; (split; [reflexivity|]); left; reflexivity.
Qed.

Lemma runner_step_log s s' :
  runner_step s s' ->
  log s' = log s \/
  exists e, log s' = e :: log s /\
            (is_sub e = false \/ exists x pc ws b, In x (tasks s) /\ nth_error (t_body x) pc = Some (CSpawn (ev_name e) ws b)).
Proof.
  intros [n [H|H]]; simpl in H.
  - destruct (find_task n (tasks s)) as [t|] eqn:E; [|discriminate].
    pose proof (find_task_some _ _ _ E) as [Hn Hin].
    assert (HT : T s (t_name t) t) by (unfold T; rewrite Hn; exact E).
    destruct (task_step_log t s s' HT H) as [A|[e [A [B|(pc & ws & b & B)]]]]; [auto | right; eauto | right].
    exists e. split; [assumption|]. right. exists t, pc, ws, b. auto.
  - destruct (find_task n (tasks s)) as [t|] eqn:E; [|discriminate].
    destruct (t_st t) as [| pc [| | |] | | |]; try discriminate.
    destruct (ctx_failed (t_ctx t) s); [|discriminate]. inversion H; subst s'. left. reflexivity.
Qed.

Lemma runner_step_tr2 s s' : runner_step s s' -> tr2 false s s'.
Proof. intros [n [H|H]]; eapply step_tr_gen; eauto; exact I. Qed.

Lemma tr_fmono x s s' : tr x s s' -> fmono s s'.
Proof.
  intro H. destruct H; try (apply fmono_refl; reflexivity); try apply fmono_fail;
    intros d Hd; rewrite ?cf_emit, ?cf_set_st; apply ctx_failed_fail_mono; assumption.
Qed.

Lemma runner_step_fmono s s' : runner_step s s' -> fmono s s'.
Proof.
  intro H. apply runner_step_tr2 in H. destruct H as [H|s1 H1 H2].
  - eapply tr_fmono; eauto.
  - intros c Hc. eapply tr_fmono; [exact H2|]. eapply tr_fmono; eauto.
Qed.


Lemma task_step_failed t s s' c :
  task_step false t s = Some s' -> ctx_failed c s' = true -> ctx_failed c s = true \/ c = t_ctx t.
Proof.
  unfold task_step. set (n := t_name t).
  destruct (t_st t) as [i | pc ph | | ok |] eqn:Est; try (intro HH; discriminate HH).
  - destruct (nth_error (t_waits t) i) as [u|].
    + destruct (find_task u (tasks s)) as [tu|].
      * destruct (is_finished (t_st tu)); [|intro HH; discriminate HH].
        destruct (ctx_failed (t_ctx tu) s); intro E; inversion E; subst; rewrite ?cf_set_st; auto.
        intro H. apply ctx_failed_fail_inv in H. tauto.
      * intro E; inversion E; subst; rewrite ?cf_set_st. intro H. apply ctx_failed_fail_inv in H. tauto.
    + intro E; inversion E; subst; rewrite ?cf_emit, ?cf_set_st; auto.
  - destruct ph as [| | c0 |].
    + destruct (nth_error (t_body t) pc) eqn:Enth; intro E; inversion E; subst; rewrite ?cf_emit, ?cf_set_st; auto.
    + destruct (nth_error (t_body t) pc) as [[| | nm ws b]|] eqn:Enth; try (intro HH; discriminate HH).
      * destruct (ctx_failed (t_ctx t) s); intro E; inversion E; subst; rewrite ?cf_emit, ?cf_set_st; auto.
      * intro E; inversion E; subst; rewrite ?cf_emit, ?cf_set_st. intro H. apply ctx_failed_fail_inv in H. tauto.
      * set (sb := {| s_name := nm; s_waits := ws; s_body := b |}).
        destruct (create_false_cases sb (t_ctx t) (Some n) s) as [Ec | (R & V & Ec)]; rewrite Ec;
          intro E; inversion E; subst; rewrite ?cf_set_st, ?cf_emit, ?cf_with_counter, ?cf_with_tasks; auto.
    + destruct (find_task c0 (tasks s)) as [tc|]; [|intro HH; discriminate HH].
      destruct (is_finished (t_st tc) || t_orphan tc); [|intro HH; discriminate HH].
      destruct (ctx_failed (t_ctx t) s); intro E; inversion E; subst; rewrite ?cf_emit, ?cf_set_st; auto.
    + intro E; inversion E; subst; rewrite ?cf_emit, ?cf_set_st. intro H. apply ctx_failed_fail_inv in H. tauto.
  - intro E; inversion E; subst; rewrite ?cf_emit, ?cf_with_counter, ?cf_set_st; auto.
Qed.

Lemma runner_step_failed s s' c :
  runner_step s s' -> ctx_failed c s' = true ->
  ctx_failed c s = true \/ exists x, In x (tasks s) /\ t_ctx x = c.
Proof.
  intros [n [H|H]] Hc; simpl in H.
  - destruct (find_task n (tasks s)) as [t|] eqn:E; [|discriminate].
    pose proof (find_task_some _ _ _ E) as [Hn Hin].
    destruct (task_step_failed _ _ _ _ H Hc) as [A| ->]; [auto | right; eauto].
  - destruct (find_task n (tasks s)) as [t|] eqn:E; [|discriminate].
    destruct (t_st t) as [| pc [| | |] | | |]; try discriminate.
    destruct (ctx_failed (t_ctx t) s); [|discriminate]. inversion H; subst s'. left. exact Hc.
Qed.

(** * The try invariant (repaired code: [shared = false]) *)

Definition opt_pair (o : option subm) (c : ctxid) : list (subm * ctxid) :=
  match o with Some h => [(h, c)] | None => [] end.
Definition hpairs (tb : tryblock) : list (subm * ctxid) :=
  opt_pair (tb_finally tb) (tb_cfin tb) ++ opt_pair (tb_fail tb) (tb_cfail tb)
  ++ opt_pair (tb_success tb) (tb_csucc tb).
Definition handlers (tb : tryblock) : list subm := map fst (hpairs tb).
Definition nb (tb : tryblock) : name := s_name (tb_body tb).
Definition top_names (tb : tryblock) : list name := nb tb :: map s_name (handlers tb).
Definition SN (tb : tryblock) : list name :=
  sn_body (s_body (tb_body tb)) ++ flat_map (fun h => sn_body (s_body h)) (handlers tb).

(** Well-formed block (what the namespaces of pip:try and scope.New guarantee): the names
    "…:body", "…:finally", "…:fail", "…:success" are distinct and differ from every name spawned
    inside the bodies; the handlers have no wait list; the separated and the handler contexts are
    not the surrounding one. *)
Record wf (tb : tryblock) : Prop := {
  wf_nodup : NoDup (top_names tb);
  wf_sep : forall x, In x (top_names tb) -> ~ In x (SN tb);
  wf_waits : forall h, In h (handlers tb) -> s_waits h = [];
  wf_hctx : forall h c, In (h, c) (hpairs tb) -> c <> tb_par tb;
  wf_ctx : tb_sep tb <> tb_par tb }.

Definition opt_name (o : option subm) : list name := match o with Some h => [s_name h] | None => [] end.
Definition allowed (tb : tryblock) (c : option bool) : list name :=
  match c with
  | None => [nb tb]
  | Some e => nb tb :: opt_name (tb_finally tb) ++ (if e then opt_name (tb_fail tb) else opt_name (tb_success tb))
  end.

Definition rejected_any (tb : tryblock) (s : state) : Prop :=
  exists h, In h (handlers tb) /\ In (ESubmitted (s_name h) false) (log s).

(** A handler's body begins only after the body task finished. *)
Definition Ph (tb : tryblock) (e : event) (b : list event) : Prop :=
  forall h ws, In h (handlers tb) -> e = EBodyBegin (s_name h) ws -> exists ok, In (EFinished (nb tb) ok) b.

(** The part of the invariant that talks about the runner state only. *)
Record RI (tb : tryblock) (co : option bool) (s : state) : Prop := {
  ri_reach : exists sched, s = run false sched (init (tb_par tb));
  ri_names : forall x, In x (tasks s) -> In (t_name x) (top_names tb) -> In (t_name x) (allowed tb co);
  ri_sn : forall x, In x (tasks s) ->
          incl (sn_body (t_body x)) (SN tb) /\ (In (t_name x) (top_names tb) \/ In (t_name x) (SN tb));
  ri_catch : co <> None -> exists ok, In (EFinished (nb tb) ok) (log s);
  ri_hw : forall x, In x (tasks s) ->
          (t_name x = nb tb -> t_ctx x = tb_sep tb) /\
          (forall h c, In (h, c) (hpairs tb) -> t_name x = s_name h -> t_waits x = [] /\ t_ctx x = c);
  ri_npar : forall x, In x (tasks s) -> t_ctx x <> tb_par tb;
  ri_culprit : CulpritX (fun c => c = tb_par tb) s;
  ri_hist : hist (Ph tb) (log s) }.

Lemma RI_Inv tb co s : RI tb co s -> Inv s /\ Inv2 s.
Proof. intros [[sched E] _ _ _ _ _ _ _]. rewrite E. split; [apply Inv_run | apply Inv2_run]. Qed.

Lemma handler_in_top tb h : In h (handlers tb) -> In (s_name h) (top_names tb).
Proof. intro H. right. apply in_map. assumption. Qed.

Lemma hpairs_handler tb h c : In (h, c) (hpairs tb) -> In h (handlers tb).
Proof. intro H. unfold handlers. apply in_map_iff. exists (h, c). auto. Qed.

Lemma handler_not_nb tb h : wf tb -> In h (handlers tb) -> s_name h <> nb tb.
Proof.
  intros W H E. pose proof (wf_nodup _ W) as N. unfold top_names in N. inversion N as [|? ? Hni _]; subst.
  apply Hni. rewrite <- E. apply in_map. assumption.
Qed.

Lemma allowed_handler_catched tb co h :
  wf tb -> In h (handlers tb) -> In (s_name h) (allowed tb co) -> co <> None.
Proof.
  intros W Hh Hin. destruct co; [discriminate|]. simpl in Hin. destruct Hin as [E|[]].
  exfalso. eapply handler_not_nb; eauto.
Qed.

(** Runner steps preserve the runner part. *)
Lemma RI_runner tb co s s' :
  wf tb -> RI tb co s -> runner_step s s' ->
  RI tb co s'
  /\ (forall e, In e (log s) -> In e (log s'))
  /\ (rejected_any tb s' -> rejected_any tb s)
  /\ (forall m, registered m (tasks s) = true -> registered m (tasks s') = true)
  /\ (forall m, registered m (tasks s') = true -> In m (top_names tb) -> registered m (tasks s) = true)
  /\ fmono s s'
  /\ (ctx_failed (tb_par tb) s' = true -> ctx_failed (tb_par tb) s = true).
Proof.
  intros W HI Hstep. pose proof (RI_Inv _ _ _ HI) as [HInv HInv2].
  destruct (runner_step_tasks _ _ Hstep) as (Htasks & Hreg & Hne).
  pose proof (runner_step_log _ _ Hstep) as Hlog.
  pose proof (runner_step_fmono _ _ Hstep) as Hfm.
  assert (Hreach : exists sched, s' = run false sched (init (tb_par tb))).
  { destruct (ri_reach _ _ _ HI) as [sched E]. destruct Hstep as [n [H|H]].
    - exists (sched ++ [LTask n]). rewrite run_app, <- E. symmetry. apply run_one. assumption.
    - exists (sched ++ [LAbort n]). rewrite run_app, <- E. symmetry. apply run_one. assumption. }
  assert (Hincl : forall e, In e (log s) -> In e (log s')).
  { destruct Hlog as [->|[e [-> _]]]; simpl; auto. }
  assert (Hsubnew : forall nm a, In (ESubmitted nm a) (log s') -> In (ESubmitted nm a) (log s) \/ In nm (SN tb)).
  { intros nm a Hin. destruct Hlog as [E|[e [E [Hs|(x & pc0 & ws & b & Hx & Hn)]]]]; rewrite E in Hin; auto.
    - destruct Hin as [Heq|Hin]; [subst e; simpl in Hs; discriminate Hs|auto].
    - destruct Hin as [Heq|Hin]; [|auto]. subst e. right. simpl in Hn.
      apply (proj1 (ri_sn _ _ _ HI x Hx)). apply (proj1 (sn_nth _ _ _ _ _ Hn)). }
  assert (Hrej : rejected_any tb s' -> rejected_any tb s).
  { intros [h [A B]]. destruct (Hsubnew _ _ B) as [B'|B']; [exists h; auto|].
    exfalso. eapply (wf_sep _ W); [apply handler_in_top; exact A | exact B']. }
  assert (Hnew : forall x', In x' (tasks s') ->
                 (exists x, In x (tasks s) /\ same_static4 x x') \/
                 (In (t_name x') (SN tb) /\ incl (sn_body (t_body x')) (SN tb)
                  /\ exists x, In x (tasks s) /\ t_ctx x' = t_ctx x)).
  { intros x' Hx'. destruct (Htasks x' Hx') as [A|(x & pc0 & ws & Hx & Hn & Hc)]; [left; assumption|right].
    destruct (sn_nth _ _ _ _ _ Hn) as [S1 S2]. pose proof (proj1 (ri_sn _ _ _ HI x Hx)) as S3.
    split; [apply S3; assumption | split; [intros y Hy; apply S3, S2; assumption | eauto]]. }
  assert (Hregback : forall m, registered m (tasks s') = true -> In m (top_names tb) -> registered m (tasks s) = true).
  { intros m Hm Htop. apply registered_in in Hm. apply in_map_iff in Hm as [x' [En Hx']].
    destruct (Hnew x' Hx') as [[x [A (B1 & _)]]|[S1 _]].
    - apply registered_in. apply in_map_iff. exists x. split; [congruence|assumption].
    - exfalso. eapply (wf_sep _ W); [exact Htop | rewrite <- En; exact S1]. }
  assert (Hpar : ctx_failed (tb_par tb) s' = true -> ctx_failed (tb_par tb) s = true).
  { intro Hc. destruct (runner_step_failed _ _ _ Hstep Hc) as [A|[x [A B]]]; [assumption|].
    exfalso. eapply (ri_npar _ _ _ HI); eauto. }
  split; [|repeat split; assumption].
  split.
  - assumption.
  - intros x' Hx' Htop. destruct (Hnew x' Hx') as [[x [A (B1 & _)]]|[S1 _]].
    + rewrite B1 in *. eapply ri_names; eauto.
    + exfalso. eapply (wf_sep _ W); eauto.
  - intros x' Hx'. destruct (Hnew x' Hx') as [[x [A (B1 & B2 & _)]]|[S1 [S2 _]]].
    + rewrite B1, B2. apply (ri_sn _ _ _ HI x A).
    + auto.
  - intro Hc. destruct (ri_catch _ _ _ HI Hc) as [ok H]. exists ok. auto.
  - intros x' Hx'. destruct (Hnew x' Hx') as [[x [A (B1 & B2 & B3 & B4)]]|[S1 _]].
    + rewrite B1, B3, B4. apply (ri_hw _ _ _ HI x A).
    + split.
      * intro E. exfalso. eapply (wf_sep _ W); [left; reflexivity | rewrite <- E; exact S1].
      * intros h c Hh E. exfalso.
        eapply (wf_sep _ W); [apply handler_in_top; eapply hpairs_handler; exact Hh | rewrite <- E; exact S1].
  - intros x' Hx'. destruct (Hnew x' Hx') as [[x [A (_ & _ & _ & B4)]]|[_ [_ [x [A B]]]]].
    + rewrite B4. apply (ri_npar _ _ _ HI x A).
    + rewrite B. apply (ri_npar _ _ _ HI x A).
  - assert (H3 : Inv3X (fun c => c = tb_par tb) s).
    { split; [assumption|]. split; [assumption|]. apply (ri_culprit _ _ _ HI). }
    apply runner_step_tr2 in Hstep. destruct Hstep as [H|s1 H1 H2].
    + apply (tr_inv3X _ _ _ H3 H).
    + apply (tr_inv3X _ _ _ (tr_inv3X _ _ _ H3 H1) H2).
  - destruct Hlog as [El|[e [El Hs]]]; rewrite El; [apply (ri_hist _ _ _ HI)|].
    split; [|apply (ri_hist _ _ _ HI)]. intros h ws Hh E. subst e.
    destruct Hreach as [sched Es'].
    assert (HInv' : Inv s') by (rewrite Es'; apply Inv_run).
    assert (R : registered (s_name h) (tasks s') = true).
    { apply (inv_evreg _ HInv' (EBodyBegin (s_name h) ws)); [rewrite El; left; reflexivity | reflexivity]. }
    apply Hregback in R; [|apply handler_in_top; assumption].
    apply registered_in in R. apply in_map_iff in R as [x [En Hx]].
    apply (ri_catch _ _ _ HI). eapply allowed_handler_catched; eauto.
    rewrite <- En. apply (ri_names _ _ _ HI x Hx). rewrite En. apply handler_in_top. assumption.
Qed.

Lemma RI_weaken tb s c :
  RI tb None s -> (exists ok, In (EFinished (nb tb) ok) (log s)) -> RI tb (Some c) s.
Proof.
  intros [A B C D E F G H] Hfin. split; auto.
  intros x Hx Htop. specialize (B x Hx Htop). simpl in *. destruct B as [B|[]]. left. assumption.
Qed.

Lemma RI_create tb co s sb c s1 acc :
  wf tb -> RI tb co s -> create false sb c None s = (s1, acc) ->
  In (s_name sb) (top_names tb) -> In (s_name sb) (allowed tb co) ->
  incl (sn_body (s_body sb)) (SN tb) -> c <> tb_par tb ->
  (s_name sb = nb tb -> c = tb_sep tb) ->
  (forall h c', In (h, c') (hpairs tb) -> s_name sb = s_name h -> s_waits sb = [] /\ c = c') ->
  RI tb co s1
  /\ log s1 = ESubmitted (s_name sb) acc :: log s
  /\ (forall m, registered m (tasks s) = true -> registered m (tasks s1) = true)
  /\ (acc = true -> registered (s_name sb) (tasks s1) = true)
  /\ (forall m, registered m (tasks s1) = true -> registered m (tasks s) = true \/ m = s_name sb)
  /\ (forall d, ctx_failed d s1 = ctx_failed d s).
Proof.
  intros W HI Ecr Htop Hal Hsn Hc Hnb Hh.
  pose proof (RI_Inv _ _ _ HI) as [HInv HInv2].
  assert (Hreach : exists sched, s1 = run false sched (init (tb_par tb))).
  { destruct (ri_reach _ _ _ HI) as [sched E]. exists (sched ++ [LCreate sb c]).
    rewrite run_app, <- E. symmetry. apply run_one. simpl. rewrite Ecr. reflexivity. }
  assert (Htr : tr false s s1).
  { destruct (create_false_cases sb c None s) as [E|(R & V & E)]; rewrite E in Ecr; inversion Ecr; subst.
    - apply tr_rej.
    - apply tr_acc; assumption. }
  assert (Hcul : CulpritX (fun c0 => c0 = tb_par tb) s1).
  { assert (H3 : Inv3X (fun c0 => c0 = tb_par tb) s).
    { split; [assumption|]. split; [assumption|]. apply (ri_culprit _ _ _ HI). }
    apply (tr_inv3X _ _ _ H3 Htr). }
  destruct (create_false_cases sb c None s) as [E|(R & V & E)]; rewrite E in Ecr; inversion Ecr; subst s1 acc; clear Ecr.
  - (* rejected *)
    split; [| split; [reflexivity | split; [auto | split; [discriminate | split; [auto | reflexivity]]]]].
    destruct HI as [A B C D E0 F G H]. split; simpl; auto.
    + intro Hco. destruct (D Hco) as [ok Hk]. exists ok. right. assumption.
    + split; [|assumption]. intros h ws _ Hx. discriminate Hx.
  - (* accepted *)
    set (nt := new_task sb c None s).
    split; [| split; [reflexivity | split; [ | split; [ | split; [ | reflexivity]]]]].
    + destruct HI as [A B C D E0 F G H]. split; simpl; auto.
      * intros x Hx Ht. apply in_app_or in Hx as [Hx|[<-|[]]]; [apply B; assumption | exact Hal].
      * intros x Hx. apply in_app_or in Hx as [Hx|[<-|[]]]; [apply C; assumption | split; [exact Hsn | left; exact Htop]].
      * intro Hco. destruct (D Hco) as [ok Hk]. exists ok. right. assumption.
      * intros x Hx. apply in_app_or in Hx as [Hx|[<-|[]]]; [apply E0; assumption | simpl; split; auto].
      * intros x Hx. apply in_app_or in Hx as [Hx|[<-|[]]]; [apply F; assumption | simpl; assumption].
      * split; [|assumption]. intros h ws _ Hx. discriminate Hx.
    + intros m Hm. simpl. rewrite registered_app, Hm. reflexivity.
    + intros _. simpl. rewrite registered_app. simpl. rewrite N.eqb_refl. apply orb_true_r.
    + intros m Hm. simpl in Hm. rewrite registered_app in Hm. apply orb_true_iff in Hm as [Hm|Hm]; [auto|].
      right. simpl in Hm. apply N.eqb_eq in Hm. auto.
Qed.

Lemma RI_failpar tb co s : RI tb co s -> RI tb co (fail_ctx (tb_par tb) s).
Proof.
  intros [A B C D E F G H]. split; rewrite ?fail_ctx_tasks, ?fail_ctx_log; auto.
  - destruct A as [sched Es]. exists (sched ++ [LFailCtx (tb_par tb)]). rewrite run_app, <- Es. reflexivity.
  - intros c Hc. apply ctx_failed_fail_inv in Hc as [->|Hc]; [right; reflexivity|].
    destruct (G c Hc) as [[x (X1 & X2 & X3)]|X]; [left; exists x; rewrite fail_ctx_tasks; auto | right; assumption].
Qed.

Definition Pk (o : option subm) (g : bool) (s : state) : Prop :=
  forall h, o = Some h -> g = true -> registered (s_name h) (tasks s) = true.

Definition stage (p : tpc) : nat :=
  match p with TStart => 0 | TWaitBody => 1 | TFinally _ => 2 | TFail _ => 3 | TSuccess _ => 4
          | TCollect _ => 5 | TDone => 5 end.

(** [hn] is registered and has finished. *)
Definition finp (s : state) (hn : name) : Prop := exists x ok, T s hn x /\ t_st x = Finished ok.

Definition hfailed (tb : tryblock) (s : state) : Prop :=
  exists h c, In (h, c) (hpairs tb) /\ registered (s_name h) (tasks s) = true /\ ctx_failed c s = true.

Record TI (tb : tryblock) (t : tstate) : Prop := {
  ti_ri : RI tb (catched t) (rs t);
  ti_pc : match pc t with
          | TStart | TWaitBody => catched t = None
          | TFinally c | TFail c | TSuccess c => catched t = Some c
          | _ => True end;
  ti_pend : pend t = true -> (exists r, pc t = TCollect r) \/ ctx_failed (tb_par tb) (rs t) = true;
  ti_rej : rejected_any tb (rs t) -> pend t = true \/ ctx_failed (tb_par tb) (rs t) = true;
  ti_pendsrc : pend t = true -> rejected_any tb (rs t) \/ hfailed tb (rs t);
  ti_par : ctx_failed (tb_par tb) (rs t) = true ->
           pc t = TDone /\ (rejected_any tb (rs t) \/ hfailed tb (rs t));
  ti_subd : forall hn hc, In (hn, hc) (subd t) ->
            exists h, In (h, hc) (hpairs tb) /\ hn = s_name h /\ registered hn (tasks (rs t)) = true;
  ti_regsub : forall h c, In (h, c) (hpairs tb) -> registered (s_name h) (tasks (rs t)) = true ->
              In (s_name h, c) (subd t);
  ti_col : match pc t with
           | TStart | TWaitBody => subd t = []
           | TCollect r => incl r (subd t) /\ forall p, In p (subd t) -> In p r \/ finp (rs t) (fst p)
           | TDone => forall p, In p (subd t) -> finp (rs t) (fst p)
           | _ => True end;
  ti_prog : forall c, catched t = Some c ->
            rejected_any tb (rs t) \/
            ((2 < stage (pc t) -> Pk (tb_finally tb) true (rs t)) /\
             (3 < stage (pc t) -> Pk (tb_fail tb) c (rs t)) /\
             (4 < stage (pc t) -> Pk (tb_success tb) (negb c) (rs t))) }.

Lemma TI_init tb : TI tb (tinit tb).
Proof.
  split; simpl; try tauto; try (intros; discriminate).
  - split; simpl; try tauto.
    + exists []. reflexivity.
    + intros c H. discriminate.
  - intros [h [_ []]].
Qed.

Lemma rejected_any_mono tb s s' :
  (forall e, In e (log s) -> In e (log s')) -> rejected_any tb s -> rejected_any tb s'.
Proof. intros H [h [A B]]. exists h. auto. Qed.

Lemma hfailed_mono tb s s' :
  (forall m, registered m (tasks s) = true -> registered m (tasks s') = true) -> fmono s s' ->
  hfailed tb s -> hfailed tb s'.
Proof. intros Hr Hf (h & c & A & B & C). exists h, c. auto. Qed.

Lemma finp_stable s s' hn :
  Inv s -> Inv s' -> (forall e, In e (log s) -> In e (log s')) -> finp s hn -> finp s' hn.
Proof.
  intros HI HI' Hincl (x & ok & HT & Hst).
  pose proof (inv_tasks _ HI _ _ HT) as [_ Hti]. rewrite Hst in Hti. destruct Hti as [Hin _].
  destruct (inv_fin _ HI' _ _ (Hincl _ Hin)) as [tu [A B]]. exists tu, ok. auto.
Qed.

(** Runner steps preserve the whole invariant. *)
Lemma TI_runner tb t s' :
  wf tb -> TI tb t -> runner_step (rs t) s' -> TI tb (with_rs s' t).
Proof.
  intros W HI Hstep.
  destruct (RI_runner _ _ _ _ W (ti_ri _ _ HI) Hstep) as (R1 & Hincl & Hrej & Hreg & Hregb & Hfm & Hpar).
  destruct (RI_Inv _ _ _ (ti_ri _ _ HI)) as [HInv _]. destruct (RI_Inv _ _ _ R1) as [HInv' _].
  assert (Hfin : forall hn, finp (rs t) hn -> finp s' hn) by (intros hn; apply finp_stable; assumption).
  split; simpl.
  - assumption.
  - apply (ti_pc _ _ HI).
  - intro Hp. destruct (ti_pend _ _ HI Hp); auto.
  - intro R. destruct (ti_rej _ _ HI (Hrej R)); auto.
  - intro Hp. destruct (ti_pendsrc _ _ HI Hp) as [R|Hh].
    + left. eapply rejected_any_mono; eauto.
    + right. eapply hfailed_mono; eauto.
  - intro Hc. destruct (ti_par _ _ HI (Hpar Hc)) as [A [R|Hh]]; split; auto.
    + left. eapply rejected_any_mono; eauto.
    + right. eapply hfailed_mono; eauto.
  - intros hn hc Hin. destruct (ti_subd _ _ HI _ _ Hin) as [h (A & B & C)]. exists h. auto.
  - intros h c Hh Hr. apply (ti_regsub _ _ HI h c Hh). apply Hregb; [assumption|].
    apply handler_in_top. eapply hpairs_handler; eauto.
  - pose proof (ti_col _ _ HI) as Hcol. destruct (pc t); auto.
    destruct Hcol as [A B]. split; [assumption|]. intros p Hp. destruct (B p Hp); auto.
  - intros c Hc. destruct (ti_prog _ _ HI c Hc) as [R|(P1 & P2 & P3)].
    + left. eapply rejected_any_mono; eauto.
    + right. unfold Pk in *. repeat split; intros Hs h Hh Hg; apply Hreg; eauto.
Qed.

Lemma hpairs_sn tb h c : In (h, c) (hpairs tb) -> incl (sn_body (s_body h)) (SN tb).
Proof.
  intros H x Hx. unfold SN. apply in_or_app. right. apply in_flat_map. exists h.
  split; [eapply hpairs_handler; eauto | assumption].
Qed.

Lemma hpairs_unique tb h c h' c' :
  wf tb -> In (h, c) (hpairs tb) -> In (h', c') (hpairs tb) -> s_name h = s_name h' -> h = h' /\ c = c'.
Proof.
  intros W H1 H2 E. pose proof (wf_nodup _ W) as N. unfold top_names in N. inversion N as [|? ? _ N']; subst.
  unfold handlers in N'. rewrite map_map in N'.
  assert (G : forall (l : list (subm * ctxid)) p q, NoDup (map (fun x => s_name (fst x)) l) ->
              In p l -> In q l -> s_name (fst p) = s_name (fst q) -> p = q).
  { clear. induction l as [|a l IH]; simpl; intros p q Hn Hp Hq E; [contradiction|].
    inversion Hn as [|? ? Hni Hn']; subst. destruct Hp as [->|Hp], Hq as [->|Hq]; auto.
    - exfalso. apply Hni. rewrite E. apply (in_map (fun x => s_name (fst x))). assumption.
    - exfalso. apply Hni. rewrite <- E. apply (in_map (fun x => s_name (fst x))). assumption. }
  pose proof (G _ (h, c) (h', c') N' H1 H2 E) as X. inversion X. auto.
Qed.

Lemma finp_create sb c p s hn : finp s hn -> finp (fst (create false sb c p s)) hn.
Proof. intros (x & ok & A & B). exists x, ok. split; [apply T_after_create; assumption | assumption]. Qed.

(** Submission of a handler by the goroutine (current code). *)
Lemma TI_submit tb t h cx c0 next :
  wf tb -> TI tb t -> catched t = Some c0 -> In (h, cx) (hpairs tb) ->
  In (s_name h) (allowed tb (Some c0)) -> ctx_failed (tb_par tb) (rs t) = false -> pend t = false ->
  let t' := submit_handler MFixed tb h cx next t in
  RI tb (Some c0) (rs t') /\ catched t' = Some c0
  /\ ctx_failed (tb_par tb) (rs t') = false
  /\ (forall hn hc, In (hn, hc) (subd t') ->
      exists h0, In (h0, hc) (hpairs tb) /\ hn = s_name h0 /\ registered hn (tasks (rs t')) = true)
  /\ (forall h0 c, In (h0, c) (hpairs tb) -> registered (s_name h0) (tasks (rs t')) = true -> In (s_name h0, c) (subd t'))
  /\ (forall e, In e (log (rs t)) -> In e (log (rs t')))
  /\ (forall m, registered m (tasks (rs t)) = true -> registered m (tasks (rs t')) = true)
  /\ (forall hn, finp (rs t) hn -> finp (rs t') hn)
  /\ ((pc t' = next (subd t') /\ pend t' = false /\ registered (s_name h) (tasks (rs t')) = true
       /\ (rejected_any tb (rs t') -> rejected_any tb (rs t)))
      \/ (pc t' = TCollect (subd t) /\ subd t' = subd t /\ pend t' = true /\ rejected_any tb (rs t'))).
Proof.
  intros W HI Hc Hh Hal Hnp Hpd t'. unfold t', submit_handler. simpl hctx. simpl early. cbv iota.
  pose proof (finp_create h cx None (rs t)) as Hfinp.
  destruct (create false h cx None (rs t)) as [s1 acc] eqn:Ecr. simpl in Hfinp.
  assert (HR : RI tb (Some c0) (rs t)) by (rewrite <- Hc; apply (ti_ri _ _ HI)).
  assert (Hhand : In h (handlers tb)) by (eapply hpairs_handler; eauto).
  destruct (RI_create tb (Some c0) (rs t) h cx s1 acc W HR Ecr) as (R1 & Hlog & Hreg & Hacc & Hregb & Hcf).
  { apply handler_in_top. assumption. }
  { assumption. }
  { eapply hpairs_sn; eauto. }
  { eapply wf_hctx; eauto. }
  { intro E. exfalso. eapply handler_not_nb; eauto. }
  { intros h' c' Hh' E. destruct (hpairs_unique _ _ _ _ _ W Hh Hh' E) as [<- <-].
    split; [apply (wf_waits _ W); assumption | reflexivity]. }
  assert (Hincl : forall e, In e (log (rs t)) -> In e (log s1)) by (intros e He; rewrite Hlog; right; assumption).
  destruct acc; simpl.
  - (* accepted *)
    assert (Hrejb : rejected_any tb s1 -> rejected_any tb (rs t)).
    { intros [h' [A B]]. rewrite Hlog in B. destruct B as [B|B]; [discriminate|]. exists h'. auto. }
    split; [assumption|]. split; [assumption|]. split; [rewrite Hcf; assumption|].
    split; [|split; [|split; [assumption|split; [assumption|split; [assumption|]]]]].
    + intros hn hc Hin. apply in_app_or in Hin as [Hin|[Hin|[]]].
      * destruct (ti_subd _ _ HI _ _ Hin) as [h0 (A & B & C)]. exists h0. auto.
      * inversion Hin; subst. exists h. auto.
    + intros h0 c Hh0 Hr. apply in_or_app. destruct (Hregb _ Hr) as [Hr'|E].
      * left. apply (ti_regsub _ _ HI); assumption.
      * right. destruct (hpairs_unique _ _ _ _ _ W Hh0 Hh E) as [-> ->]. left. reflexivity.
    + left. auto.
  - (* rejected *)
    assert (Et : tasks s1 = tasks (rs t)).
    { destruct (create_false_cases h cx None (rs t)) as [E0|(R & V & E0)]; rewrite E0 in Ecr; inversion Ecr; reflexivity. }
    assert (Rj : rejected_any tb s1).
    { exists h. split; [assumption|]. rewrite Hlog. left. reflexivity. }
    split; [assumption|]. split; [assumption|]. split; [rewrite Hcf; assumption|].
    split; [|split; [|split; [assumption|split; [assumption|split; [assumption|]]]]].
    + intros hn hc Hin. destruct (ti_subd _ _ HI _ _ Hin) as [h0 (A & B & C)]. exists h0. rewrite Et. auto.
    + intros h0 c Hh0 Hr. rewrite Et in Hr. apply (ti_regsub _ _ HI); assumption.
    + right. auto.
Qed.

Lemma Pk_mono o g s s' :
  (forall m, registered m (tasks s) = true -> registered m (tasks s') = true) -> Pk o g s -> Pk o g s'.
Proof. intros H P h Hh Hg. apply H. apply P; assumption. Qed.

Lemma in_hpairs_fin tb h : tb_finally tb = Some h -> In (h, tb_cfin tb) (hpairs tb).
Proof. intro E. unfold hpairs. rewrite E. left. reflexivity. Qed.
Lemma in_hpairs_fail tb h : tb_fail tb = Some h -> In (h, tb_cfail tb) (hpairs tb).
Proof. intro E. unfold hpairs. rewrite E. apply in_or_app. right. apply in_or_app. left. left. reflexivity. Qed.
Lemma in_hpairs_succ tb h : tb_success tb = Some h -> In (h, tb_csucc tb) (hpairs tb).
Proof. intro E. unfold hpairs. rewrite E. apply in_or_app. right. apply in_or_app. right. left. reflexivity. Qed.

Lemma TI_healthy tb t : TI tb t -> pc t <> TDone -> ctx_failed (tb_par tb) (rs t) = false.
Proof.
  intros HI Hp. destruct (ctx_failed (tb_par tb) (rs t)) eqn:E; [|reflexivity].
  destruct (ti_par _ _ HI E) as [A _]. contradiction.
Qed.

Lemma TI_nopend tb t :
  TI tb t -> pc t <> TDone -> (forall r, pc t <> TCollect r) -> pend t = false.
Proof.
  intros HI Hp Hc. destruct (pend t) eqn:E; [|reflexivity].
  destruct (ti_pend _ _ HI E) as [[r A]|A]; [exfalso; eapply Hc; eauto|].
  rewrite (TI_healthy _ _ HI Hp) in A. discriminate.
Qed.

(** Assembling the invariant after a handler submission. *)
Lemma TI_after_submit tb t h cx c0 next :
  wf tb -> TI tb t -> catched t = Some c0 -> In (h, cx) (hpairs tb) ->
  In (s_name h) (allowed tb (Some c0)) -> pc t <> TDone -> (forall r, pc t <> TCollect r) ->
  (forall l, match next l with TFail c | TSuccess c => c = c0 | TCollect r => r = l | _ => False end) ->
  (* progress obligations of the new stage, given monotonicity and the registration of h *)
  (forall t', (forall m, registered m (tasks (rs t)) = true -> registered m (tasks (rs t')) = true) ->
              registered (s_name h) (tasks (rs t')) = true -> pc t' = next (subd t') ->
              (rejected_any tb (rs t) \/
               ((2 < stage (pc t') -> Pk (tb_finally tb) true (rs t')) /\
                (3 < stage (pc t') -> Pk (tb_fail tb) c0 (rs t')) /\
                (4 < stage (pc t') -> Pk (tb_success tb) (negb c0) (rs t'))))) ->
  TI tb (submit_handler MFixed tb h cx next t).
Proof.
  intros W HI Hc Hh Hal Hnd Hnc Hnext Hprog.
  pose proof (TI_healthy _ _ HI Hnd) as Hnp. pose proof (TI_nopend _ _ HI Hnd Hnc) as Hpd.
  destruct (TI_submit tb t h cx c0 next W HI Hc Hh Hal Hnp Hpd)
    as (R1 & Hc' & Hnp' & Hsub & Hregsub & Hincl & Hreg & Hfin & Hcase).
  set (t' := submit_handler MFixed tb h cx next t) in *.
  assert (Hnorej : rejected_any tb (rs t) -> False).
  { intro R. destruct (ti_rej _ _ HI R) as [A|A]; congruence. }
  split.
  - rewrite Hc'. assumption.
  - destruct Hcase as [(Ep & _)|(Ep & _)]; rewrite Ep; [|exact I].
    specialize (Hnext (subd t')). destruct (next (subd t')); try contradiction; subst; auto.
  - intro Hp. destruct Hcase as [(_ & Ep & _)|(Ep & _)]; [congruence | left; eauto].
  - intro R. destruct Hcase as [(_ & _ & _ & Hb)|(_ & _ & Ep & _)]; [exfalso; auto | left; assumption].
  - intro Hp. destruct Hcase as [(_ & Ep & _)|(_ & _ & _ & Rj)]; [congruence | left; assumption].
  - intro Hp. congruence.
  - assumption.
  - assumption.
  - destruct Hcase as [(Ep & _)|(Ep & Es & _)]; rewrite Ep.
    + specialize (Hnext (subd t')). destruct (next (subd t')); try contradiction; auto.
      subst. split; [apply incl_refl | auto].
    + rewrite Es. split; [apply incl_refl | auto].
  - intros c Hcc. rewrite Hc' in Hcc. inversion Hcc; subst c.
    destruct Hcase as [(Ep & _ & Hr & _)|(_ & _ & _ & Rj)]; [|left; assumption].
    destruct (Hprog t' Hreg Hr Ep) as [R|P]; [exfalso; auto | right; assumption].
Qed.

Lemma TI_goto tb t p :
  TI tb t ->
  match p with TFail c | TSuccess c => catched t = Some c | TCollect r => r = subd t | _ => False end ->
  (forall c, catched t = Some c ->
     rejected_any tb (rs t) \/
     ((2 < stage p -> Pk (tb_finally tb) true (rs t)) /\
      (3 < stage p -> Pk (tb_fail tb) c (rs t)) /\
      (4 < stage p -> Pk (tb_success tb) (negb c) (rs t)))) ->
  (pend t = true -> ctx_failed (tb_par tb) (rs t) = true \/ exists r, p = TCollect r) ->
  pc t <> TDone ->
  TI tb (goto p t).
Proof.
  intros HI Hp Hprog Hpend Hnd. split; simpl; try apply HI.
  - destruct p; try contradiction; auto.
  - intro E. destruct (Hpend E) as [A|[r A]]; [auto | left; eauto].
  - intro E. destruct (ti_par _ _ HI E) as [A _]. contradiction.
  - destruct p; try contradiction; auto. subst. split; [apply incl_refl | auto].
  - assumption.
Qed.

Lemma TI_try tb t t' : wf tb -> TI tb t -> try_step MFixed tb t = Some t' -> TI tb t'.
Proof.
  intros W HI. pose proof (ti_pc _ _ HI) as Hpc. unfold try_step.
  destruct (pc t) as [| | c | c | c | [|[hn hc] rest] |] eqn:Epc.
  - (* TStart *)
    assert (Hnp : ctx_failed (tb_par tb) (rs t) = false) by (apply (TI_healthy _ _ HI); rewrite Epc; discriminate).
    assert (Hpd : pend t = false) by (apply (TI_nopend _ _ HI); rewrite Epc; intros; discriminate).
    pose proof (ti_col _ _ HI) as Hsub0. rewrite Epc in Hsub0.
    rewrite Hnp.
    pose proof (fun hn => finp_create (tb_body tb) (tb_sep tb) None (rs t) hn) as Hfinp.
    destruct (create false (tb_body tb) (tb_sep tb) None (rs t)) as [s1 acc] eqn:Ecr. simpl in Hfinp.
    assert (HR : RI tb None (rs t)) by (rewrite <- Hpc; apply (ti_ri _ _ HI)).
    destruct (RI_create tb None (rs t) (tb_body tb) (tb_sep tb) s1 acc W HR Ecr) as (R1 & Hlog & Hreg & Hacc & Hregb & Hcf).
    { left. reflexivity. }
    { left. reflexivity. }
    { unfold SN. apply incl_appl. apply incl_refl. }
    { apply (wf_ctx _ W). }
    { reflexivity. }
    { intros h c' Hh E. exfalso. eapply (handler_not_nb tb h W); [eapply hpairs_handler; eauto | symmetry; exact E]. }
    assert (Hrejb : rejected_any tb s1 -> False).
    { intros [h' [A B]]. rewrite Hlog in B. destruct B as [B|B].
      - inversion B. eapply (handler_not_nb tb h' W); eauto.
      - destruct (ti_rej _ _ HI (ex_intro _ h' (conj A B))); congruence. }
    assert (Gen : forall p hd, match p with TWaitBody | TDone => True | _ => False end ->
                               TI tb (mk s1 p hd None (subd t) (coll t) (pend t))).
    { intros p hd Hp. split; simpl.
      - assumption.
      - destruct p; try contradiction; auto.
      - congruence.
      - intro R. exfalso. auto.
      - congruence.
      - intro E. rewrite Hcf in E. congruence.
      - rewrite Hsub0. intros ? ? [].
      - intros h c Hh Hr. exfalso. destruct (Hregb _ Hr) as [Hr'|E].
        + pose proof (ti_regsub _ _ HI h c Hh Hr') as X. rewrite Hsub0 in X. exact X.
        + eapply (handler_not_nb tb h W); [eapply hpairs_handler; eauto | exact E].
      - destruct p; try contradiction; auto. rewrite Hsub0. intros ? [].
      - intros c H. discriminate. }
    destruct acc; intro H; inversion H; apply Gen; exact I.
  - (* TWaitBody *)
    destruct (find_task (s_name (tb_body tb)) (tasks (rs t))) as [b|] eqn:Eb; [|intro HH; discriminate HH].
    destruct (is_finished (t_st b)) eqn:Efin; [|intro HH; discriminate HH].
    intro H; inversion H; subst t'; clear H.
    assert (HR : RI tb None (rs t)) by (rewrite <- Hpc; apply (ti_ri _ _ HI)).
    destruct (RI_Inv _ _ _ HR) as [HInv _].
    assert (Hf : exists ok, In (EFinished (nb tb) ok) (log (rs t))).
    { pose proof (inv_tasks _ HInv _ _ Eb) as [_ Hti]. destruct (t_st b); try discriminate.
      exists ok. apply Hti. }
    assert (Hpd : pend t = false) by (apply (TI_nopend _ _ HI); rewrite Epc; intros; discriminate).
    split; simpl; try apply HI.
    + apply RI_weaken; assumption.
    + reflexivity.
    + congruence.
    + intro E. destruct (ti_par _ _ HI E) as [A _]. congruence.
    + exact I.
    + intros c Hc. right. repeat split; intro Hs; simpl in Hs; lia.
  - (* TFinally *)
    destruct (tb_finally tb) as [h|] eqn:Eh; intro H; inversion H; subst t'; clear H.
    + apply (TI_after_submit tb t h (tb_cfin tb) c (fun _ => TFail c) W HI Hpc (in_hpairs_fin _ _ Eh)).
      * simpl. rewrite Eh. right. left. reflexivity.
      * rewrite Epc; discriminate.
      * rewrite Epc; intros; discriminate.
      * intros l. reflexivity.
      * intros t' Hreg Hr Ep. right. rewrite Ep. simpl. repeat split; intro Hs; try lia.
        intros h' Hh' _. rewrite Eh in Hh'. inversion Hh'; subst. assumption.
    + apply TI_goto; auto.
      * intros c' Hc'. right. simpl. repeat split; intro Hs; try lia. intros h' Hh'. rewrite Eh in Hh'. discriminate Hh'.
      * intro E. rewrite (TI_nopend _ _ HI) in E; [discriminate | rewrite Epc; discriminate | rewrite Epc; intros; discriminate].
      * rewrite Epc; discriminate.
  - (* TFail *)
    assert (Hold : forall c', catched t = Some c' -> rejected_any tb (rs t) \/ Pk (tb_finally tb) true (rs t)).
    { intros c' Hc'. destruct (ti_prog _ _ HI c' Hc') as [R|(P1 & _)]; [auto|]. right. apply P1. rewrite Epc. simpl. lia. }
    assert (Hnd : pc t <> TDone) by (rewrite Epc; discriminate).
    assert (Hnc : forall r, pc t <> TCollect r) by (rewrite Epc; intros; discriminate).
    destruct (tb_fail tb) as [h|] eqn:Eh; [destruct c|]; intro H; inversion H; subst t'; clear H.
    + apply (TI_after_submit tb t h (tb_cfail tb) true (fun _ => TSuccess true) W HI Hpc (in_hpairs_fail _ _ Eh));
        [ | exact Hnd | exact Hnc | intros l; reflexivity | ].
      * simpl. right. apply in_or_app. right. rewrite Eh. left. reflexivity.
      * intros t' Hreg Hr Ep. destruct (Hold true Hpc) as [R|P1]; [left; assumption|right].
        rewrite Ep. simpl. repeat split; intro Hs; try lia.
        -- eapply Pk_mono; eauto.
        -- intros h' Hh' _. rewrite Eh in Hh'. inversion Hh'; subst. assumption.
    + apply TI_goto; auto.
      * intros c' Hc'. rewrite Hpc in Hc'. inversion Hc'; subst c'.
        destruct (Hold false Hpc) as [R|P1]; [left; assumption|right].
        simpl. repeat split; intro Hs; try lia; [assumption|]. intros h' _ Hg. discriminate Hg.
      * intro E. rewrite (TI_nopend _ _ HI Hnd Hnc) in E. discriminate.
    + apply TI_goto; auto.
      * intros c' Hc'. destruct (Hold c' Hc') as [R|P1]; [left; assumption|right].
        simpl. repeat split; intro Hs; try lia; [assumption|]. intros h' Hh'. rewrite Eh in Hh'. discriminate Hh'.
      * intro E. rewrite (TI_nopend _ _ HI Hnd Hnc) in E. discriminate.
  - (* TSuccess *)
    assert (Hold : forall c', catched t = Some c' ->
              rejected_any tb (rs t) \/ (Pk (tb_finally tb) true (rs t) /\ Pk (tb_fail tb) c' (rs t))).
    { intros c' Hc'. destruct (ti_prog _ _ HI c' Hc') as [R|(P1 & P2 & _)]; [auto|]. right.
      split; [apply P1 | apply P2]; rewrite Epc; simpl; lia. }
    assert (Hnd : pc t <> TDone) by (rewrite Epc; discriminate).
    assert (Hnc : forall r, pc t <> TCollect r) by (rewrite Epc; intros; discriminate).
    destruct (tb_success tb) as [h|] eqn:Eh; [destruct c|]; intro H; inversion H; subst t'; clear H.
    + apply TI_goto; auto.
      * intros c' Hc'. rewrite Hpc in Hc'. inversion Hc'; subst c'.
        destruct (Hold true Hpc) as [R|[P1 P2]]; [left; assumption|right].
        simpl. repeat split; intro Hs; try assumption. intros h' _ Hg. discriminate Hg.
      * intro E. right. eauto.
    + apply (TI_after_submit tb t h (tb_csucc tb) false TCollect W HI Hpc (in_hpairs_succ _ _ Eh));
        [ | exact Hnd | exact Hnc | intros l; reflexivity | ].
      * simpl. right. apply in_or_app. right. rewrite Eh. left. reflexivity.
      * intros t' Hreg Hr Ep. destruct (Hold false Hpc) as [R|[P1 P2]]; [left; assumption|right].
        rewrite Ep. simpl. repeat split; intro Hs.
        -- eapply Pk_mono; eauto.
        -- eapply Pk_mono; eauto.
        -- intros h' Hh' _. rewrite Eh in Hh'. inversion Hh'; subst. assumption.
    + apply TI_goto; auto.
      * intros c' Hc'. destruct (Hold c' Hc') as [R|[P1 P2]]; [left; assumption|right].
        simpl. repeat split; intro Hs; try assumption. intros h' Hh'. rewrite Eh in Hh'. discriminate Hh'.
      * intro E. right. eauto.
  - (* TCollect [] : the one step that reports to the surrounding scope *)
    pose proof (ti_col _ _ HI) as Hcol. rewrite Epc in Hcol. destruct Hcol as [_ Hall].
    simpl early. simpl negb. rewrite andb_true_r.
    assert (Hnp : ctx_failed (tb_par tb) (rs t) = false) by (apply (TI_healthy _ _ HI); rewrite Epc; discriminate).
    destruct (pend t) eqn:Epd; intro H; inversion H; subst t'; clear H.
    + split; simpl.
      * apply RI_failpar. apply (ti_ri _ _ HI).
      * exact I.
      * intros _. right. apply ctx_failed_fail_same.
      * intros _. right. apply ctx_failed_fail_same.
      * intros _. destruct (ti_pendsrc _ _ HI Epd) as [R|Hh].
        -- left. destruct R as [h' [A B]]. exists h'. rewrite fail_ctx_log. auto.
        -- right. destruct Hh as (h & c & A & B & C). exists h, c. rewrite fail_ctx_tasks.
           split; [assumption|]. split; [assumption|]. apply ctx_failed_fail_mono. assumption.
      * intros _. split; [reflexivity|]. destruct (ti_pendsrc _ _ HI Epd) as [R|Hh].
        -- left. destruct R as [h' [A B]]. exists h'. rewrite fail_ctx_log. auto.
        -- right. destruct Hh as (h & c & A & B & C). exists h, c. rewrite fail_ctx_tasks.
           split; [assumption|]. split; [assumption|]. apply ctx_failed_fail_mono. assumption.
      * intros hn hc Hin. destruct (ti_subd _ _ HI _ _ Hin) as [h0 (A & B & C)]. exists h0. rewrite fail_ctx_tasks. auto.
      * intros h c Hh Hr. rewrite fail_ctx_tasks in Hr. apply (ti_regsub _ _ HI); assumption.
      * intros p Hp. destruct (Hall p Hp) as [[]|(x & ok & A & B)]. exists x, ok. unfold T in *. rewrite fail_ctx_tasks. auto.
      * intros c' Hc'. destruct (ti_prog _ _ HI c' Hc') as [R|P].
        -- left. destruct R as [h' [A B]]. exists h'. rewrite fail_ctx_log. auto.
        -- right. rewrite Epc in P. unfold Pk in *. rewrite fail_ctx_tasks. exact P.
    + split; simpl; try apply HI.
      * exact I.
      * congruence.
      * intro R. destruct (ti_rej _ _ HI R) as [A|A]; [congruence | auto].
      * congruence.
      * intro E. congruence.
      * intros p Hp. destruct (Hall p Hp) as [[]|X]. assumption.
      * intros c' Hc'. destruct (ti_prog _ _ HI c' Hc') as [R|P]; [left; assumption|right].
        rewrite Epc in P. exact P.
  - (* TCollect (p :: rest) *)
    destruct (find_task hn (tasks (rs t))) as [x|] eqn:Ex; [|intro HH; discriminate HH].
    destruct (is_finished (t_st x)) eqn:Efin; [|intro HH; discriminate HH].
    pose proof (ti_col _ _ HI) as Hcol. rewrite Epc in Hcol. destruct Hcol as [Hinc Hall].
    simpl early. rewrite andb_false_r.
    intro H; inversion H; subst t'; clear H.
    split; simpl; try apply HI.
    + exact I.
    + intros _. left. eauto.
    + intro R. destruct (ti_rej _ _ HI R) as [A|A]; [left; rewrite A; reflexivity | auto].
    + intro E. apply orb_true_iff in E as [E|E]; [apply (ti_pendsrc _ _ HI E)|]. right.
      destruct (ti_subd _ _ HI hn hc) as [h0 (A & B & C)]; [apply Hinc; left; reflexivity|].
      exists h0, hc. split; [assumption|]. split; [rewrite <- B; assumption | assumption].
    + intro E. destruct (ti_par _ _ HI E) as [A _]. congruence.
    + split; [intros p Hp; apply Hinc; right; assumption|].
      intros p Hp. destruct (Hall p Hp) as [[<-|A]|A]; auto.
      right. simpl. destruct (t_st x) eqn:Est; try discriminate. exists x, ok. auto.
    + intros c' Hc'. destruct (ti_prog _ _ HI c' Hc') as [R|P]; [left; assumption|right].
      rewrite Epc in P. exact P.
  - intro HH; discriminate HH.
Qed.

Lemma TI_run tb tsched : wf tb -> TI tb (trun MFixed tb tsched (tinit tb)).
Proof.
  intro W.
  assert (G : forall tsched t, TI tb t -> TI tb (trun MFixed tb tsched t)).
  { clear tsched. induction tsched as [|l r IH]; intros t HI; simpl; [assumption|].
    apply IH. unfold tstep_skip. destruct (tstep MFixed tb l t) as [t'|] eqn:E; [|assumption].
    destruct l as [n | n |]; unfold tstep in E.
    - destruct (step false (LTask n) (rs t)) as [s|] eqn:Es; [|discriminate]. inversion E; subst.
      apply TI_runner; auto. exists n. left. assumption.
    - destruct (step false (LAbort n) (rs t)) as [s|] eqn:Es; [|discriminate]. inversion E; subst.
      apply TI_runner; auto. exists n. right. assumption.
    - eapply TI_try; eauto. }
  apply G. apply TI_init.
Qed.

(** A task without wait list that left the waiting state has begun its body. *)
Definition W0 (s : state) : Prop :=
  forall n t, T s n t -> t_waits t = [] -> (exists i, t_st t = Waiting i) \/ In (EBodyBegin n []) (log s).

Lemma W0_tr x s s' : W0 s -> tr x s s' -> W0 s'.
Proof.
  intros HW Htr.
  assert (Hact : forall n0 t0 st evs sx,
             T s n0 t0 -> tasks sx = tasks s ->
             tasks s' = upd n0 st (tasks sx) -> log s' = evs ++ log s ->
             (t_waits t0 = [] -> (exists i, st = Waiting i) \/ In (EBodyBegin n0 []) (evs ++ log s)) ->
             W0 s').
  { intros n0 t0 st evs sx HT0 Hsx Ht Hl Hnew n t HT Hw. unfold T in HT. rewrite Ht, Hsx in HT.
    destruct (N.eq_dec n n0) as [->|Hne].
    - rewrite (find_upd_same _ _ _ _ HT0) in HT. inversion HT; subst t. simpl in *. rewrite Hl. auto.
    - rewrite find_upd_other in HT by assumption. destruct (HW _ _ HT Hw) as [A|A]; [auto|].
      right. rewrite Hl. apply in_or_app. auto. }
  destruct Htr.
  - intros n0 t HT Hw. destruct (HW _ _ HT Hw); auto. right. right. assumption.
  - intros n0 t HT Hw. unfold T in HT. simpl in HT.
    destruct (find_task n0 (tasks s)) as [t0|] eqn:E0.
    + rewrite (find_app_some _ _ _ _ E0) in HT. inversion HT; subst. destruct (HW _ _ E0 Hw); auto. right. right. assumption.
    + rewrite (find_app_none _ _ _ E0) in HT. destruct (N.eqb _ _); [|discriminate]. inversion HT; subst. left. exists 0. reflexivity.
  - intros n0 t HT Hw. unfold T in HT. rewrite fail_ctx_tasks in HT. rewrite fail_ctx_log. auto.
  - eapply (Hact n t (Waiting (S i)) [] s); eauto; try reflexivity.
    all: try (intros _; left; eauto).
  - eapply (Hact n t Closing [] (fail_ctx (t_ctx t) s)); eauto; try reflexivity; [apply fail_ctx_tasks | simpl; rewrite fail_ctx_log; reflexivity|].
    all: try (intro Hw; rewrite Hw in H1; simpl in H1; lia).
  - eapply (Hact n t (Running 0 PBefore) [EBodyBegin n (t_waits t)] s); eauto; try reflexivity.
    all: try (intro Hw; right; rewrite Hw; left; reflexivity).
  - eapply (Hact n t Closing [] s); eauto; try reflexivity.
    all: try (intro Hw; destruct (HW _ _ H Hw) as [[i0 Hi]|A]; [congruence|auto]).
  - eapply (Hact n t (Running pc PIn) [ECmdBegin n pc] s); eauto; try reflexivity.
    all: try (intro Hw; destruct (HW _ _ H Hw) as [[i0 Hi]|A]; [congruence|right; right; assumption]).
  - eapply (Hact n t (Running pc ph) [] s); eauto; try reflexivity.
    all: try (intro Hw; destruct (HW _ _ H Hw) as [[i0 Hi]|A]; [congruence|auto]).
  - eapply (Hact n t (Running (S pc) PBefore) [ECmdEnd n pc true] s); eauto; try reflexivity.
    all: try (intro Hw; destruct (HW _ _ H Hw) as [[i0 Hi]|A]; [congruence|right; right; assumption]).
  - eapply (Hact n t Closing [ECmdEnd n pc false] s); eauto; try reflexivity.
    all: try (intro Hw; destruct (HW _ _ H Hw) as [[i0 Hi]|A]; [congruence|right; right; assumption]).
  - eapply (Hact n t Closing [ECmdEnd n pc false] (fail_ctx (t_ctx t) s)); eauto; try reflexivity; [apply fail_ctx_tasks | simpl; rewrite fail_ctx_log; reflexivity|].
    all: try (intro Hw; destruct (HW _ _ H Hw) as [[i0 Hi]|A]; [congruence|right; right; assumption]).
  - eapply (Hact n t (Finished (negb (ctx_failed (t_ctx t) s))) [EFinished n (negb (ctx_failed (t_ctx t) s))] s); eauto; try reflexivity.
    all: try (intro Hw; destruct (HW _ _ H Hw) as [[i0 Hi]|A]; [congruence|right; right; assumption]).
Qed.

Lemma W0_run root sched : W0 (run false sched (init root)).
Proof. apply run_inv; [apply W0_tr | intros n t H; discriminate]. Qed.

(** * The C16 statements *)

Lemma names_distinct tb : wf tb ->
  (forall a b, tb_finally tb = Some a -> tb_fail tb = Some b -> s_name a <> s_name b) /\
  (forall a b, tb_finally tb = Some a -> tb_success tb = Some b -> s_name a <> s_name b) /\
  (forall a b, tb_fail tb = Some a -> tb_success tb = Some b -> s_name a <> s_name b).
Proof.
  intro W. pose proof (wf_nodup _ W) as N. unfold top_names, handlers, hpairs in N.
  repeat split; intros a b Ea Eb E; rewrite ?Ea, ?Eb in N; simpl in N;
    destruct (tb_finally tb), (tb_fail tb), (tb_success tb); simpl in N;
    try discriminate; inversion Ea; inversion Eb; subst;
    repeat match goal with H : NoDup (_ :: _) |- _ => inversion H; clear H; subst end;
    simpl in *; rewrite E in *; tauto.
Qed.

Lemma mroot_run sched s : mroot (run false sched s) = mroot s.
Proof.
  revert s. induction sched as [|l r IH]; intros s; [reflexivity|].
  change (run false (l :: r) s) with (run false r (step_skip false s l)). rewrite IH. unfold step_skip.
  destruct (step false l s) as [s'|] eqn:E; [|reflexivity]. apply step_tr in E.
  assert (P : forall x a b, tr x a b -> mroot b = mroot a).
  { clear. intros x a b H. destruct H; simpl; rewrite ?fail_ctx_mroot; reflexivity. }
  destruct E as [E|s1 E1 E2]; [eapply P; eauto | rewrite (P _ _ _ E2); eapply P; eauto].
Qed.

Section Reach.
Variable tb : tryblock.
Variable tsched : list tlabel.
Hypothesis W : wf tb.
Let t := trun MFixed tb tsched (tinit tb).

Lemma handler_begin_allowed h c ws :
  In (h, c) (hpairs tb) -> In (EBodyBegin (s_name h) ws) (log (rs t)) ->
  In (s_name h) (allowed tb (catched t)).
Proof.
  intros Hh Hin. pose proof (TI_run tb tsched W) as HI. fold t in HI.
  pose proof (ti_ri _ _ HI) as HR. destruct (RI_Inv _ _ _ HR) as [HInv _].
  assert (R : registered (s_name h) (tasks (rs t)) = true).
  { apply (inv_evreg _ HInv _ Hin). reflexivity. }
  apply registered_in in R. apply in_map_iff in R as [x [En Hx]].
  rewrite <- En. apply (ri_names _ _ _ HR x Hx). rewrite En. apply handler_in_top. eapply hpairs_handler; eauto.
Qed.

(** success handler begins  ==>  the body's scope had no error *)
Lemma success_only_if h ws :
  tb_success tb = Some h -> In (EBodyBegin (s_name h) ws) (log (rs t)) -> catched t = Some false.
Proof.
  intros Eh Hin. pose proof (handler_begin_allowed h _ ws (in_hpairs_succ _ _ Eh) Hin) as Ha.
  destruct (names_distinct tb W) as (D1 & D2 & D3).
  assert (Hh : In h (handlers tb)) by (eapply hpairs_handler; apply in_hpairs_succ; eauto).
  destruct (catched t) as [[|]|]; simpl in Ha; [exfalso|reflexivity|exfalso].
  - destruct Ha as [E|Ha]; [eapply handler_not_nb; eauto|].
    apply in_app_or in Ha as [Ha|Ha].
    + destruct (tb_finally tb) as [a|] eqn:Ea; simpl in Ha; [|contradiction]. destruct Ha as [E|[]]. eapply D2; eauto.
    + destruct (tb_fail tb) as [a|] eqn:Ea; simpl in Ha; [|contradiction]. destruct Ha as [E|[]]. eapply D3; eauto.
  - destruct Ha as [E|[]]. eapply handler_not_nb; eauto.
Qed.

(** fail handler begins  ==>  the body's scope had an error *)
Lemma fail_only_if h ws :
  tb_fail tb = Some h -> In (EBodyBegin (s_name h) ws) (log (rs t)) -> catched t = Some true.
Proof.
  intros Eh Hin. pose proof (handler_begin_allowed h _ ws (in_hpairs_fail _ _ Eh) Hin) as Ha.
  destruct (names_distinct tb W) as (D1 & D2 & D3).
  assert (Hh : In h (handlers tb)) by (eapply hpairs_handler; apply in_hpairs_fail; eauto).
  destruct (catched t) as [[|]|]; simpl in Ha; [reflexivity|exfalso|exfalso].
  - destruct Ha as [E|Ha]; [eapply handler_not_nb; eauto|].
    apply in_app_or in Ha as [Ha|Ha].
    + destruct (tb_finally tb) as [a|] eqn:Ea; simpl in Ha; [|contradiction]. destruct Ha as [E|[]].
      eapply D1; eauto.
    + destruct (tb_success tb) as [a|] eqn:Ea; simpl in Ha; [|contradiction]. destruct Ha as [E|[]].
      eapply D3; eauto.
  - destruct Ha as [E|[]]. eapply handler_not_nb; eauto.
Qed.

(** every handler's body begins after the body task finished (log order) *)
Lemma after_body a h c ws b :
  In (h, c) (hpairs tb) -> log (rs t) = a ++ EBodyBegin (s_name h) ws :: b ->
  exists ok, In (EFinished (nb tb) ok) b.
Proof.
  intros Hh E. pose proof (TI_run tb tsched W) as HI. fold t in HI.
  pose proof (ri_hist _ _ _ (ti_ri _ _ HI)) as H. rewrite E in H. apply hist_app in H.
  eapply H; [eapply hpairs_handler; eauto | reflexivity].
Qed.

(** final state, no rejected handler submission: a defined handler whose guard holds has begun *)
Lemma handler_begins h c (g : bool -> bool) e :
  In (h, c) (hpairs tb) -> tfinal t = true -> ~ rejected_any tb (rs t) -> catched t = Some e ->
  (2 < stage (pc t) -> Pk (Some h) (g e) (rs t)) -> g e = true ->
  In (EBodyBegin (s_name h) []) (log (rs t)).
Proof.
  intros Hh Hfin Hnr Hc HP Hg. pose proof (TI_run tb tsched W) as HI. fold t in HI.
  pose proof (ti_ri _ _ HI) as HR. destruct (RI_Inv _ _ _ HR) as [HInv HInv2].
  unfold tfinal in Hfin. destruct (pc t) eqn:Epc; try discriminate.
  assert (R : registered (s_name h) (tasks (rs t)) = true) by (apply HP; simpl; auto; lia).
  apply registered_find in R as [x Hx].
  pose proof (find_task_some _ _ _ Hx) as [Hn Hin].
  destruct (ri_hw _ _ _ HR x Hin) as [_ Hw]. destruct (Hw h c Hh Hn) as [Hw0 _].
  destruct (ri_reach _ _ _ HR) as [sched Es].
  pose proof (W0_run (tb_par tb) sched) as HW0. rewrite <- Es in HW0.
  destruct (HW0 _ _ Hx Hw0) as [[i Hi]|A]; [|assumption].
  unfold all_finished in Hfin. rewrite forallb_forall in Hfin. specialize (Hfin _ Hin). rewrite Hi in Hfin. discriminate.
Qed.

Lemma final_prog e :
  tfinal t = true -> ~ rejected_any tb (rs t) -> catched t = Some e ->
  Pk (tb_finally tb) true (rs t) /\ Pk (tb_fail tb) e (rs t) /\ Pk (tb_success tb) (negb e) (rs t).
Proof.
  intros Hfin Hnr Hc. pose proof (TI_run tb tsched W) as HI. fold t in HI.
  unfold tfinal in Hfin. destruct (pc t) eqn:Epc; try discriminate.
  destruct (ti_prog _ _ HI e Hc) as [R|(P1 & P2 & P3)]; [contradiction|].
  rewrite Epc in *. simpl in *. repeat split; [apply P1 | apply P2 | apply P3]; lia.
Qed.

Lemma finally_always h e :
  tb_finally tb = Some h -> tfinal t = true -> ~ rejected_any tb (rs t) -> catched t = Some e ->
  In (EBodyBegin (s_name h) []) (log (rs t)).
Proof.
  intros Eh Hfin Hnr Hc. destruct (final_prog e Hfin Hnr Hc) as (P1 & _ & _).
  apply (handler_begins h _ (fun _ => true) e (in_hpairs_fin _ _ Eh) Hfin Hnr Hc); [|reflexivity].
  intros _ h' Hh' _. inversion Hh'; subst. apply P1; auto.
Qed.

Lemma success_if h :
  tb_success tb = Some h -> tfinal t = true -> ~ rejected_any tb (rs t) -> catched t = Some false ->
  In (EBodyBegin (s_name h) []) (log (rs t)).
Proof.
  intros Eh Hfin Hnr Hc. destruct (final_prog false Hfin Hnr Hc) as (_ & _ & P3).
  apply (handler_begins h _ negb false (in_hpairs_succ _ _ Eh) Hfin Hnr Hc); [|reflexivity].
  intros _ h' Hh' _. inversion Hh'; subst. apply P3; auto.
Qed.

Lemma fail_if h :
  tb_fail tb = Some h -> tfinal t = true -> ~ rejected_any tb (rs t) -> catched t = Some true ->
  In (EBodyBegin (s_name h) []) (log (rs t)).
Proof.
  intros Eh Hfin Hnr Hc. destruct (final_prog true Hfin Hnr Hc) as (_ & P2 & _).
  apply (handler_begins h _ (fun x => x) true (in_hpairs_fail _ _ Eh) Hfin Hnr Hc); [|reflexivity].
  intros _ h' Hh' _. inversion Hh'; subst. apply P2; auto.
Qed.

(** [catched] is what the goroutine read from the separated scope when the body task had finished *)
Lemma catched_body e : catched t = Some e -> exists ok, In (EFinished (nb tb) ok) (log (rs t)).
Proof.
  intro Hc. pose proof (TI_run tb tsched W) as HI. fold t in HI.
  apply (ri_catch _ _ _ (ti_ri _ _ HI)). rewrite Hc. discriminate.
Qed.

(** containment: the surrounding context gets an error only from a rejected handler submission or
    from a handler scope in which a task finished failed — never from the body's scope *)
Lemma containment_only_if :
  tfinal t = true -> ctx_failed (tb_par tb) (rs t) = true ->
  rejected_any tb (rs t) \/
  exists h c x, In (h, c) (hpairs tb) /\ registered (s_name h) (tasks (rs t)) = true
                /\ In x (tasks (rs t)) /\ t_ctx x = c /\ t_st x = Finished false.
Proof.
  intros Hfin Hp. pose proof (TI_run tb tsched W) as HI. fold t in HI.
  destruct (ti_par _ _ HI Hp) as [_ [R|(h & c & A & B & C)]]; [left; assumption|right].
  destruct (ri_culprit _ _ _ (ti_ri _ _ HI) c C) as [[x (X1 & X2 & X3)]|X].
  - exists h, c, x. repeat split; auto. destruct X3 as [X3|X3]; [|assumption].
    unfold tfinal in Hfin. destruct (pc t); try discriminate.
    unfold all_finished in Hfin. rewrite forallb_forall in Hfin. specialize (Hfin _ X1). rewrite X3 in Hfin. discriminate.
  - exfalso. eapply (wf_hctx _ W); eauto.
Qed.

Lemma containment_rejected :
  tfinal t = true -> rejected_any tb (rs t) -> ctx_failed (tb_par tb) (rs t) = true.
Proof.
  intros Hfin R. pose proof (TI_run tb tsched W) as HI. fold t in HI.
  unfold tfinal in Hfin. destruct (pc t) eqn:Epc; try discriminate.
  destruct (ti_rej _ _ HI R) as [A|A]; [|assumption].
  destruct (ti_pend _ _ HI A) as [[r B]|B]; [congruence | assumption].
Qed.

(** The surrounding context is failed by the try block only when the goroutine is done, and then
    every started (registered) handler has finished. *)
Lemma surrounding_fails_last :
  ctx_failed (tb_par tb) (rs t) = true ->
  pc t = TDone /\
  forall h c, In (h, c) (hpairs tb) -> registered (s_name h) (tasks (rs t)) = true ->
              exists x ok, find_task (s_name h) (tasks (rs t)) = Some x /\ t_st x = Finished ok.
Proof.
  intro Hp. pose proof (TI_run tb tsched W) as HI. fold t in HI.
  destruct (ti_par _ _ HI Hp) as [Epc _]. split; [assumption|].
  intros h c Hh Hr. pose proof (ti_regsub _ _ HI h c Hh Hr) as Hin.
  pose proof (ti_col _ _ HI) as Hcol. rewrite Epc in Hcol. exact (Hcol _ Hin).
Qed.

(** Hence a submission made while some handler is still running is never refused because of the
    surrounding context: the manager's root context is healthy. *)
Lemma handler_running_root_healthy h c x :
  In (h, c) (hpairs tb) -> find_task (s_name h) (tasks (rs t)) = Some x -> is_finished (t_st x) = false ->
  ctx_failed (mroot (rs t)) (rs t) = false.
Proof.
  intros Hh Hx Hnf. pose proof (TI_run tb tsched W) as HI. fold t in HI.
  assert (Em : mroot (rs t) = tb_par tb).
  { destruct (ri_reach _ _ _ (ti_ri _ _ HI)) as [sched Es]. rewrite Es. rewrite mroot_run. reflexivity. }
  rewrite Em. destruct (ctx_failed (tb_par tb) (rs t)) eqn:E; [|reflexivity]. exfalso.
  destruct (surrounding_fails_last E) as [_ Hall].
  destruct (Hall h c Hh) as (x' & ok & A & B); [apply registered_find; eauto|].
  rewrite Hx in A. inversion A; subst. rewrite B in Hnf. discriminate.
Qed.

(** the body task and everything it spawns live in the separated context, the handlers and
    everything they spawn in their own contexts; no task runs in the surrounding context *)
Lemma body_separated :
  forall x, In x (tasks (rs t)) -> t_ctx x <> tb_par tb /\ (t_name x = nb tb -> t_ctx x = tb_sep tb).
Proof.
  intros x Hx. pose proof (TI_run tb tsched W) as HI. fold t in HI.
  split; [apply (ri_npar _ _ _ (ti_ri _ _ HI) x Hx) | apply (proj1 (ri_hw _ _ _ (ti_ri _ _ HI) x Hx))].
Qed.

End Reach.

(** * b825941: with the handlers on the surrounding scope (flag [true]) a failing success
    handler cancels the finally handler *)

Definition cancel_tb : tryblock :=
  {| tb_body := {| s_name := 1%N; s_waits := []; s_body := [COk] |};
     tb_finally := Some {| s_name := 2%N; s_waits := []; s_body := [COk; COk] |};
     tb_fail := None;
     tb_success := Some {| s_name := 3%N; s_waits := []; s_body := [CFail] |};
     tb_sep := 50%N; tb_par := 1%N; tb_cfin := 51%N; tb_cfail := 52%N; tb_csucc := 53%N |}.

Definition cancel_sched : list tlabel :=
  [TLTry] ++ repeat (TLTask 1%N) 5 ++ [TLTry; TLTry; TLTry; TLTry]
  ++ repeat (TLTask 3%N) 4 ++ [TLTask 2%N; TLAbort 2%N; TLTask 2%N; TLTask 2%N; TLTask 2%N; TLTask 2%N; TLTask 2%N; TLTask 2%N]
  ++ [TLTry; TLTry; TLTry; TLTry].

Lemma cancel_wf : wf cancel_tb.
Proof.
  split.
  - vm_compute. repeat constructor; simpl; intuition discriminate.
  - vm_compute. intros x H. exact (fun f => f).
  - vm_compute. intros h [<-|[<-|[]]]; reflexivity.
  - vm_compute. intros h c [E|[E|[]]]; inversion E; discriminate.
  - vm_compute. discriminate.
Qed.

Lemma handler_cancel_refuted :
  let t := trun MShared cancel_tb cancel_sched (tinit cancel_tb) in
  tfinal t = true
  /\ In (EBodyBegin 2%N []) (log (rs t))                 (* the finally task was started ... *)
  /\ (forall i, ~ In (ECmdBegin 2%N i) (log (rs t)))     (* ... but executed none of its two commands *)
  /\ map (fun x => (t_name x, t_st x)) (tasks (rs t))
     = [(1%N, Finished true); (2%N, Finished false); (3%N, Finished false)].
Proof.
  vm_compute. repeat split; try reflexivity.
  - repeat (first [left; reflexivity | right]).
  - intros i H. repeat (destruct H as [H|H]; [discriminate|]). exact H.
Qed.

(** The same schedule on the repaired model: the finally handler runs both commands. *)
Lemma handler_cancel_fixed :
  let t := trun MFixed cancel_tb cancel_sched (tinit cancel_tb) in
  tfinal t = true
  /\ In (ECmdEnd 2%N 1 true) (log (rs t))
  /\ map (fun x => (t_name x, t_st x)) (tasks (rs t))
     = [(1%N, Finished true); (2%N, Finished true); (3%N, Finished false)]
  /\ ctx_failed 1%N (rs t) = true.
Proof.
  vm_compute. repeat split; try reflexivity. repeat (first [left; reflexivity | right]).
Qed.

(** * 3f81e38: with the errors reported early (b825941, mode [MEarly]) a failing finally handler makes
    the still-running success handler's nested submission be refused *)

Definition early_tb : tryblock :=
  {| tb_body := {| s_name := 1%N; s_waits := []; s_body := [COk] |};
     tb_finally := Some {| s_name := 2%N; s_waits := []; s_body := [CFail] |};
     tb_fail := None;
     tb_success := Some {| s_name := 3%N; s_waits := []; s_body := [COk; CSpawn 4%N [] [COk]; COk] |};
     tb_sep := 50%N; tb_par := 1%N; tb_cfin := 51%N; tb_cfail := 52%N; tb_csucc := 53%N |}.

Definition early_sched : list tlabel :=
  [TLTry] ++ repeat (TLTask 1%N) 5 ++ [TLTry; TLTry; TLTry; TLTry]
  ++ repeat (TLTask 3%N) 3            (* success: body begins, first command runs *)
  ++ repeat (TLTask 2%N) 4            (* finally: fails and finishes *)
  ++ [TLTry]                          (* the goroutine waits for finally's scope (and, early mode, reports) *)
  ++ repeat (TLTask 3%N) 6            (* success: pip:run ... *)
  ++ repeat (TLTask 4%N) 6 ++ repeat (TLTask 3%N) 6 ++ [TLTry; TLTry; TLTry].

Lemma early_wf : wf early_tb.
Proof.
  split.
  - vm_compute. repeat constructor; simpl; intuition discriminate.
  - vm_compute. intros x [<-|[<-|[<-|[]]]] [H|[]]; discriminate H.
  - vm_compute. intros h [<-|[<-|[]]]; reflexivity.
  - vm_compute. intros h c [E|[E|[]]]; inversion E; discriminate.
  - vm_compute. discriminate.
Qed.

Lemma early_report_refuted :
  let t := trun MEarly early_tb early_sched (tinit early_tb) in
  tfinal t = true
  /\ In (ESubmitted 4%N false) (log (rs t))          (* the success handler's pip:run was refused *)
  /\ ~ In (ECmdBegin 3%N 2) (log (rs t))             (* and its last command never ran *)
  /\ map (fun x => (t_name x, t_st x)) (tasks (rs t))
     = [(1%N, Finished true); (2%N, Finished false); (3%N, Finished false)].
Proof.
  vm_compute. repeat split; try reflexivity.
  - repeat (first [left; reflexivity | right]).
  - intro H. repeat (destruct H as [H|H]; [discriminate|]). exact H.
Qed.

Lemma early_report_fixed :
  let t := trun MFixed early_tb early_sched (tinit early_tb) in
  tfinal t = true
  /\ In (ESubmitted 4%N true) (log (rs t)) /\ In (ECmdEnd 3%N 2 true) (log (rs t))
  /\ map (fun x => (t_name x, t_st x)) (tasks (rs t))
     = [(1%N, Finished true); (2%N, Finished false); (3%N, Finished true); (4%N, Finished true)]
  /\ ctx_failed 1%N (rs t) = true.
Proof.
  vm_compute. repeat split; try reflexivity; repeat (first [left; reflexivity | right]).
Qed.
