(** Proofs about the pip:try model (Model/Try.v). *)
From Coq Require Import Lia ZifyBool ZifyNat ZifyN.
From GC Require Import Common.Base Model.Runner Model.Try Proofs.Runner Proofs.Runner2.
Local Open Scope nat_scope.

(** * Every run of the try system is a run of the open runner system *)

Lemma run_app q a b s : run q (a ++ b) s = run q b (run q a s).
Proof. unfold run. apply fold_left_app. Qed.

Lemma run_one l s s' : step false l s = Some s' -> run false [l] s = s'.
Proof. intro H. simpl. unfold step_skip. rewrite H. reflexivity. Qed.

Lemma submit_handler_labels tb h next t :
  exists ls, rs (submit_handler tb h next t) = run false ls (rs t)
             /\ (forall l, In l ls -> l = LCreate h (tb_par tb) \/ l = LFailCtx (tb_par tb)).
Proof.
  unfold submit_handler. destruct (create false h (tb_par tb) None (rs t)) as [s1 acc] eqn:E.
  assert (E1 : run false [LCreate h (tb_par tb)] (rs t) = s1).
  { apply run_one. simpl. rewrite E. reflexivity. }
  destruct acc; simpl.
  - exists [LCreate h (tb_par tb)]. split; [congruence|]. intros l [<-|[]]; auto.
  - exists [LCreate h (tb_par tb); LFailCtx (tb_par tb)]. split.
    + change [LCreate h (tb_par tb); LFailCtx (tb_par tb)] with ([LCreate h (tb_par tb)] ++ [LFailCtx (tb_par tb)]).
      rewrite run_app, E1. reflexivity.
    + intros l [<-|[<-|[]]]; auto.
Qed.

Lemma try_step_labels tb t t' :
  try_step tb t = Some t' -> exists ls, rs t' = run false ls (rs t).
Proof.
  unfold try_step. destruct (pc t) eqn:Epc.
  - destruct (ctx_failed (tb_par tb) (rs t)); [intro H; inversion H; exists []; reflexivity|].
    destruct (create false (tb_body tb) (tb_sep tb) None (rs t)) as [s1 acc] eqn:E.
    assert (E1 : run false [LCreate (tb_body tb) (tb_sep tb)] (rs t) = s1).
    { apply run_one. simpl. rewrite E. reflexivity. }
    destruct acc; intro H; inversion H; exists [LCreate (tb_body tb) (tb_sep tb)]; simpl rs; congruence.
  - destruct (find_task _ _) as [b|]; [|intro HH; discriminate HH]. destruct (is_finished (t_st b)); [|intro HH; discriminate HH].
    intro H; inversion H; exists []; reflexivity.
  - destruct (tb_finally tb) as [h|]; intro H; inversion H.
    + destruct (submit_handler_labels tb h (TFail catch) t) as [ls [A _]]. eauto.
    + exists []; reflexivity.
  - destruct (tb_fail tb) as [h|]; [destruct catch|]; intro H; inversion H.
    + destruct (submit_handler_labels tb h (TSuccess true) t) as [ls [A _]]. eauto.
    + exists []; reflexivity.
    + exists []; reflexivity.
  - destruct (tb_success tb) as [h|]; [destruct catch|]; intro H; inversion H.
    + exists []; reflexivity.
    + destruct (submit_handler_labels tb h TRelease t) as [ls [A _]]. eauto.
    + exists []; reflexivity.
  - intro H; inversion H; exists []; reflexivity.
  - intro HH; discriminate HH.
Qed.

Lemma tstep_labels tb l t t' : tstep tb l t = Some t' -> exists ls, rs t' = run false ls (rs t).
Proof.
  destruct l as [n | n |]; unfold tstep.
  - destruct (step false (LTask n) (rs t)) as [s|] eqn:E; [|intro HH; discriminate HH].
    intro H; inversion H. exists [LTask n]. simpl rs. symmetry. apply run_one. exact E.
  - destruct (step false (LAbort n) (rs t)) as [s|] eqn:E; [|intro HH; discriminate HH].
    intro H; inversion H. exists [LAbort n]. simpl rs. symmetry. apply run_one. exact E.
  - apply try_step_labels.
Qed.

(** The try system only does what the open runner system can do: every C14 theorem applies to the
    body task, the tasks it spawns and the handlers. *)
Lemma try_sim tb tsched :
  exists sched, rs (trun tb tsched (tinit tb)) = run false sched (init (tb_par tb)).
Proof.
  assert (G : forall tsched t, (exists sched, rs t = run false sched (init (tb_par tb))) ->
                               exists sched, rs (trun tb tsched t) = run false sched (init (tb_par tb))).
  { clear. induction tsched as [|l r IH]; intros t H; simpl; [assumption|].
    apply IH. unfold tstep_skip. destruct (tstep tb l t) as [t'|] eqn:E; [|assumption].
    destruct H as [sched Hs]. destruct (tstep_labels _ _ _ _ E) as [ls Hl].
    exists (sched ++ ls). rewrite run_app, <- Hs. assumption. }
  apply G. exists []. reflexivity.
Qed.

(** * Names spawned by bodies *)

Fixpoint sn_cmd (c : cmd) : list name :=
  match c with
  | CSpawn nm _ b => nm :: (fix f (l : list cmd) : list name := match l with [] => [] | x :: r => sn_cmd x ++ f r end) b
  | _ => []
  end.
Definition sn_body (b : list cmd) : list name := flat_map sn_cmd b.

Lemma sn_inner b :
  (fix f (l : list cmd) : list name := match l with [] => [] | x :: r => sn_cmd x ++ f r end) b = sn_body b.
Proof. induction b as [|x r IH]; simpl; [reflexivity | rewrite IH; reflexivity]. Qed.

Lemma sn_nth b pc nm ws b' :
  nth_error b pc = Some (CSpawn nm ws b') -> In nm (sn_body b) /\ incl (sn_body b') (sn_body b).
Proof.
  intro H. apply nth_error_In in H. unfold sn_body at 1 3. split.
  - apply in_flat_map. exists (CSpawn nm ws b'). split; [assumption | left; reflexivity].
  - intros x Hx. apply in_flat_map. exists (CSpawn nm ws b'). split; [assumption|].
    simpl. right. rewrite sn_inner. assumption.
Qed.

(** * What a runner step does (facts used by the try invariant) *)

Definition runner_step (s s' : state) : Prop :=
  exists n, step false (LTask n) s = Some s' \/ step false (LAbort n) s = Some s'.

Definition same_static4 (x x' : task) : Prop :=
  t_name x' = t_name x /\ t_body x' = t_body x /\ t_waits x' = t_waits x /\ t_ctx x' = t_ctx x.

Lemma runner_step_tasks s s' :
  runner_step s s' ->
  (forall x', In x' (tasks s') ->
     (exists x, In x (tasks s) /\ same_static4 x x')
     \/ (exists x pc ws, In x (tasks s) /\ nth_error (t_body x) pc = Some (CSpawn (t_name x') ws (t_body x'))
                         /\ t_ctx x' = t_ctx x))
  /\ (forall m, registered m (tasks s) = true -> registered m (tasks s') = true)
  /\ tasks s <> [].
Proof.
  intros [n [H|H]]; simpl in H.
  - destruct (find_task n (tasks s)) as [t|] eqn:E; [|discriminate].
    pose proof (find_task_some _ _ _ E) as [Hn Hin].
    assert (HT : T s (t_name t) t) by (unfold T; rewrite Hn; exact E).
    assert (Hne : tasks s <> []) by (intro Z; rewrite Z in Hin; exact Hin).
    destruct (task_step_shape t s s' HT H) as [(st & Ht & _) | (pc & nm & ws & b & Hst & Hnth & R & Ht)].
    + split; [|split; [|assumption]].
      * intros x' Hx'. rewrite Ht in Hx'. apply in_upd_inv in Hx' as [x0 [H0 [->|[-> _]]]]; left; exists x0; repeat split; auto.
      * intros m Hm. rewrite Ht, registered_upd. assumption.
    + split; [|split; [|assumption]].
      * intros x' Hx'. rewrite Ht in Hx'. apply in_upd_inv in Hx' as [x0 [H0 Hc]].
        assert (Hx0 : (exists x, In x (tasks s) /\ same_static4 x x0)
                      \/ (exists x pc ws, In x (tasks s) /\ nth_error (t_body x) pc = Some (CSpawn (t_name x0) ws (t_body x0)) /\ t_ctx x0 = t_ctx x)).
        { apply in_app_or in H0 as [H0|[<-|[]]].
          - left. exists x0. repeat split; auto.
          - right. exists t, pc, ws. simpl. auto. }
        destruct Hc as [->|[-> _]]; [assumption|].
        destruct Hx0 as [[x [A (B1 & B2 & B3 & B4)]]|[x [pc' [ws' (A & B & C)]]]].
        -- left. exists x. repeat split; simpl; auto.
        -- right. exists x, pc', ws'. simpl. auto.
      * intros m Hm. rewrite Ht, registered_upd, registered_app, Hm. reflexivity.
  - destruct (find_task n (tasks s)) as [t|] eqn:E; [|discriminate].
    pose proof (find_task_some _ _ _ E) as [Hn Hin].
    destruct (t_st t) as [| pc [| | |] | | |]; try discriminate.
    destruct (ctx_failed (t_ctx t) s); [|discriminate]. inversion H; subst s'. simpl.
    split; [|split].
    + intros x' Hx'. apply in_upd_inv in Hx' as [x0 [H0 [->|[-> _]]]]; left; exists x0; repeat split; auto.
    + intros m Hm. rewrite registered_upd. assumption.
    + intro Z; rewrite Z in Hin; exact Hin.
Qed.

(** New log entries of a task step. *)
Lemma task_step_log t s s' :
  T s (t_name t) t -> task_step false t s = Some s' ->
  log s' = log s \/
  exists e, log s' = e :: log s /\
            (is_sub e = false \/ exists pc ws b, nth_error (t_body t) pc = Some (CSpawn (ev_name e) ws b)).
Proof.
  intros HT. unfold task_step. set (n := t_name t).
  destruct (t_st t) as [i | pc ph | | ok |] eqn:Est; try (intro HH; discriminate HH).
  - destruct (nth_error (t_waits t) i) as [u|].
    + destruct (find_task u (tasks s)) as [tu|].
      * destruct (is_finished (t_st tu)); [|intro HH; discriminate HH].
        destruct (ctx_failed (t_ctx tu) s); intro E; inversion E; subst; simpl; rewrite ?fail_ctx_log; auto.
      * intro E; inversion E; subst; simpl; rewrite ?fail_ctx_log; auto.
    + intro E; inversion E; subst; simpl. right. eexists. split; [reflexivity|]. left. reflexivity.
  - destruct ph as [| | c |].
    + destruct (nth_error (t_body t) pc) eqn:Enth; intro E; inversion E; subst; simpl; auto.
      right. eexists. split; [reflexivity|]. left. reflexivity.
    + destruct (nth_error (t_body t) pc) as [[| | nm ws b]|] eqn:Enth; try (intro HH; discriminate HH).
      * destruct (ctx_failed (t_ctx t) s); intro E; inversion E; subst; simpl;
          right; eexists; (split; [reflexivity|]); left; reflexivity.
      * intro E; inversion E; subst; simpl. rewrite fail_ctx_log.
        right; eexists; (split; [reflexivity|]); left; reflexivity.
      * set (sb := {| s_name := nm; s_waits := ws; s_body := b |}).
        destruct (create_false_cases sb (t_ctx t) (Some n) s) as [Ec | (R & V & Ec)]; rewrite Ec;
          intro E; inversion E; subst; simpl;
          right; eexists; (split; [reflexivity|]); right; simpl; eauto.
    + destruct (find_task c (tasks s)) as [tc|]; [|intro HH; discriminate HH].
      destruct (is_finished (t_st tc) || t_orphan tc); [|intro HH; discriminate HH].
      destruct (ctx_failed (t_ctx t) s); intro E; inversion E; subst; simpl;
        right; eexists; (split; [reflexivity|]); left; reflexivity.
    + intro E; inversion E; subst; simpl. rewrite fail_ctx_log.
      right; eexists; (split; [reflexivity|]); left; reflexivity.
  - intro E; inversion E; subst; simpl. right; eexists; (split; [reflexivity|]); left; reflexivity.
Qed.

Lemma runner_step_log s s' :
  runner_step s s' ->
  log s' = log s \/
  exists e, log s' = e :: log s /\
            (is_sub e = false \/ exists x pc ws b, In x (tasks s) /\ nth_error (t_body x) pc = Some (CSpawn (ev_name e) ws b)).
Proof.
  intros [n [H|H]]; simpl in H.
  - destruct (find_task n (tasks s)) as [t|] eqn:E; [|discriminate].
    pose proof (find_task_some _ _ _ E) as [Hn Hin].
    assert (HT : T s (t_name t) t) by (unfold T; rewrite Hn; exact E).
    destruct (task_step_log t s s' HT H) as [A|[e [A [B|(pc & ws & b & B)]]]]; [auto | right; eauto | right].
    exists e. split; [assumption|]. right. exists t, pc, ws, b. auto.
  - destruct (find_task n (tasks s)) as [t|] eqn:E; [|discriminate].
    destruct (t_st t) as [| pc [| | |] | | |]; try discriminate.
    destruct (ctx_failed (t_ctx t) s); [|discriminate]. inversion H; subst s'. left. reflexivity.
Qed.

Lemma runner_step_tr2 s s' : runner_step s s' -> tr2 false s s'.
Proof. intros [n [H|H]]; eapply step_tr_gen; eauto; exact I. Qed.

Lemma tr_fmono x s s' : tr x s s' -> fmono s s'.
Proof.
  intro H. destruct H; try (apply fmono_refl; reflexivity); try apply fmono_fail;
    intros d Hd; rewrite ?cf_emit, ?cf_set_st; apply ctx_failed_fail_mono; assumption.
Qed.

Lemma runner_step_fmono s s' : runner_step s s' -> fmono s s'.
Proof.
  intro H. apply runner_step_tr2 in H. destruct H as [H|s1 H1 H2].
  - eapply tr_fmono; eauto.
  - intros c Hc. eapply tr_fmono; [exact H2|]. eapply tr_fmono; eauto.
Qed.

(** * The try invariant *)

Definition opt_list (o : option subm) : list subm := match o with Some h => [h] | None => [] end.
Definition handlers (tb : tryblock) : list subm :=
  opt_list (tb_finally tb) ++ opt_list (tb_fail tb) ++ opt_list (tb_success tb).
Definition nb (tb : tryblock) : name := s_name (tb_body tb).
Definition top_names (tb : tryblock) : list name := nb tb :: map s_name (handlers tb).
Definition SN (tb : tryblock) : list name :=
  sn_body (s_body (tb_body tb)) ++ flat_map (fun h => sn_body (s_body h)) (handlers tb).

(** Well-formed block (what the namespaces of pip:try guarantee): the names "…:body", "…:finally",
    "…:fail", "…:success" are distinct and differ from every name spawned inside the bodies; the
    handlers have no wait list; the separated context is not the surrounding one. *)
Record wf (tb : tryblock) : Prop := {
  wf_nodup : NoDup (top_names tb);
  wf_sep : forall x, In x (top_names tb) -> ~ In x (SN tb);
  wf_waits : forall h, In h (handlers tb) -> s_waits h = [];
  wf_ctx : tb_sep tb <> tb_par tb }.

Definition allowed (tb : tryblock) (c : option bool) : list name :=
  match c with
  | None => [nb tb]
  | Some e => nb tb :: map s_name (opt_list (tb_finally tb))
              ++ map s_name (if e then opt_list (tb_fail tb) else opt_list (tb_success tb))
  end.

Definition rejected_any (tb : tryblock) (s : state) : Prop :=
  exists h, In h (handlers tb) /\ In (ESubmitted (s_name h) false) (log s).

Definition Pk (o : option subm) (g : bool) (s : state) : Prop :=
  forall h, o = Some h -> g = true -> registered (s_name h) (tasks s) = true.

Definition stage (p : tpc) : nat :=
  match p with TStart => 0 | TWaitBody => 1 | TFinally _ => 2 | TFail _ => 3 | TSuccess _ => 4
          | TRelease => 5 | TDone => 5 end.

Record TI (tb : tryblock) (t : tstate) : Prop := {
  ti_reach : exists sched, rs t = run false sched (init (tb_par tb));
  ti_names : forall x, In x (tasks (rs t)) -> In (t_name x) (top_names tb) ->
             In (t_name x) (allowed tb (catched t));
  ti_sn : forall x, In x (tasks (rs t)) ->
          incl (sn_body (t_body x)) (SN tb) /\ (In (t_name x) (top_names tb) \/ In (t_name x) (SN tb));
  ti_catch : forall c, catched t = Some c -> exists ok, In (EFinished (nb tb) ok) (log (rs t));
  ti_pc : match pc t with
          | TStart | TWaitBody => catched t = None
          | TFinally c | TFail c | TSuccess c => catched t = Some c
          | _ => True end;
  ti_hw : forall x, In x (tasks (rs t)) ->
          (t_name x = nb tb -> t_ctx x = tb_sep tb) /\
          (forall h, In h (handlers tb) -> t_name x = s_name h -> t_waits x = [] /\ t_ctx x = tb_par tb);
  ti_rej : rejected_any tb (rs t) -> ctx_failed (tb_par tb) (rs t) = true;
  ti_culprit : CulpritX (fun c => c = tb_par tb /\ rejected_any tb (rs t)) (rs t);
  ti_prog : forall c, catched t = Some c ->
            rejected_any tb (rs t) \/
            ((2 < stage (pc t) -> Pk (tb_finally tb) true (rs t)) /\
             (3 < stage (pc t) -> Pk (tb_fail tb) c (rs t)) /\
             (4 < stage (pc t) -> Pk (tb_success tb) (negb c) (rs t))) }.

Lemma TI_init tb : TI tb (tinit tb).
Proof.
  split; simpl; try tauto.
  - exists []. reflexivity.
  - intros c H. discriminate.
  - intros [h [_ []]].
  - intros c H. discriminate.
  - intros c H. discriminate.
Qed.

Lemma TI_Inv tb t : TI tb t -> Inv (rs t) /\ Inv2 (rs t).
Proof. intros [[sched E] _ _ _ _ _ _ _ _]. rewrite E. split; [apply Inv_run | apply Inv2_run]. Qed.

Lemma rejected_any_mono tb s s' :
  (forall e, In e (log s) -> In e (log s')) -> rejected_any tb s -> rejected_any tb s'.
Proof. intros H [h [A B]]. exists h. auto. Qed.

Lemma handler_in_top tb h : In h (handlers tb) -> In (s_name h) (top_names tb).
Proof. intro H. right. apply in_map. assumption. Qed.

Lemma handler_not_nb tb h : wf tb -> In h (handlers tb) -> s_name h <> nb tb.
Proof.
  intros W H E. pose proof (wf_nodup _ W) as N. unfold top_names in N. inversion N as [|? ? Hni _]; subst.
  apply Hni. rewrite <- E. apply in_map. assumption.
Qed.

Lemma CulpritX_weaken (X Y : ctxid -> Prop) s : (forall c, X c -> Y c) -> CulpritX X s -> CulpritX Y s.
Proof. intros H HC c Hc. destruct (HC c Hc); auto. Qed.

(** Runner steps preserve the invariant. *)
Lemma TI_runner tb t s' :
  wf tb -> TI tb t -> runner_step (rs t) s' -> TI tb (mk s' (pc t) (hold t) (catched t)).
Proof.
  intros W HI Hstep. pose proof (TI_Inv _ _ HI) as [HInv HInv2].
  destruct (runner_step_tasks _ _ Hstep) as (Htasks & Hreg & Hne).
  pose proof (runner_step_log _ _ Hstep) as Hlog.
  pose proof (runner_step_fmono _ _ Hstep) as Hfm.
  assert (Hincl : forall e, In e (log (rs t)) -> In e (log s')).
  { destruct Hlog as [->|[e [-> _]]]; simpl; auto. }
  assert (Hsubnew : forall nm a, In (ESubmitted nm a) (log s') -> In (ESubmitted nm a) (log (rs t)) \/ In nm (SN tb)).
  { intros nm a Hin. destruct Hlog as [E|[e [E [Hs|(x & pc0 & ws & b & Hx & Hn)]]]]; rewrite E in Hin; auto.
    - destruct Hin as [<-|Hin]; [discriminate|auto].
    - destruct Hin as [<-|Hin]; [|auto]. right. simpl in Hn.
      apply (proj1 (ti_sn _ _ HI x Hx)). eapply sn_nth; eauto. }
  assert (Hrej : rejected_any tb s' -> rejected_any tb (rs t)).
  { intros [h [A B]]. destruct (Hsubnew _ _ B) as [B'|B']; [exists h; auto|].
    exfalso. eapply (wf_sep _ W); [apply handler_in_top; exact A | exact B']. }
  assert (Hnew : forall x', In x' (tasks s') ->
                 (exists x, In x (tasks (rs t)) /\ same_static4 x x') \/
                 (In (t_name x') (SN tb) /\ incl (sn_body (t_body x')) (SN tb))).
  { intros x' Hx'. destruct (Htasks x' Hx') as [A|(x & pc0 & ws & Hx & Hn & Hc)]; [left; assumption|right].
    destruct (sn_nth _ _ _ _ _ Hn) as [S1 S2]. pose proof (proj1 (ti_sn _ _ HI x Hx)) as S3.
    split; [apply S3; assumption | intros y Hy; apply S3, S2; assumption]. }
  split; simpl.
  - destruct (ti_reach _ _ HI) as [sched E]. destruct Hstep as [n [H|H]].
    + exists (sched ++ [LTask n]). rewrite run_app, <- E. symmetry. apply run_one. assumption.
    + exists (sched ++ [LAbort n]). rewrite run_app, <- E. symmetry. apply run_one. assumption.
  - intros x' Hx' Htop. destruct (Hnew x' Hx') as [[x [A (B1 & _)]]|[S1 _]].
    + rewrite B1 in *. eapply ti_names; eauto.
    + exfalso. eapply (wf_sep _ W); eauto.
  - intros x' Hx'. destruct (Hnew x' Hx') as [[x [A (B1 & B2 & _)]]|[S1 S2]].
    + rewrite B1, B2. apply (ti_sn _ _ HI x A).
    + auto.
  - intros c Hc. destruct (ti_catch _ _ HI c Hc) as [ok H]. exists ok. auto.
  - apply (ti_pc _ _ HI).
  - intros x' Hx'. destruct (Hnew x' Hx') as [[x [A (B1 & B2 & B3 & B4)]]|[S1 _]].
    + rewrite B1, B3, B4. apply (ti_hw _ _ HI x A).
    + split.
      * intro E. exfalso. eapply (wf_sep _ W); [left; reflexivity | rewrite <- E; exact S1].
      * intros h Hh E. exfalso. eapply (wf_sep _ W); [apply handler_in_top; exact Hh | rewrite <- E; exact S1].
  - intro R. apply Hfm. apply (ti_rej _ _ HI). apply Hrej. assumption.
  - apply (CulpritX_weaken (fun c => c = tb_par tb /\ rejected_any tb (rs t))).
    + intros c [A B]. split; [assumption|]. eapply rejected_any_mono; eauto.
    + assert (H3 : Inv3X (fun c => c = tb_par tb /\ rejected_any tb (rs t)) (rs t)).
      { split; [assumption|]. split; [assumption|]. apply (ti_culprit _ _ HI). }
      apply runner_step_tr2 in Hstep. destruct Hstep as [H|s1 H1 H2].
      * apply (tr_inv3X _ _ _ H3 H).
      * apply (tr_inv3X _ _ _ (tr_inv3X _ _ _ H3 H1) H2).
  - intros c Hc. destruct (ti_prog _ _ HI c Hc) as [R|(P1 & P2 & P3)].
    + left. eapply rejected_any_mono; eauto.
    + right. unfold Pk in *. repeat split; intros Hs h Hh Hg; apply Hreg; eauto.
Qed.
