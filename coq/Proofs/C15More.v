(** More proofs about Model/Locks.v (C15), added by the proof audit.

    1. Not serialised, at full strength: in ANY family of holders (compatible or not) a holder that
       cannot take its next step waits for a name that ANOTHER holder occupies (holds, or is the
       pending writer of) and on which the two maps conflict.  Hence a holder compatible with
       everybody present never waits (the bystander), and any pairwise compatible sub-family of an
       arbitrary family can be inside all at once.
    2. Everybody gets their turn, on every round-fair schedule: after as many rounds as the measure
       (each round mentions every holder at least once, in any order, with anything in between)
       every holder has finished and every lock is free; on the way every holder has been inside
       its critical section holding exactly its map.
    3. The trace acceptor of the correspondence check is sound: an accepted trace is the projection
       of a complete execution of the model, and the holders the trace shows inside together have
       pairwise compatible maps. *)
From Coq Require Import Lia ZifyBool ZifyNat Permutation.
From GC Require Import Common.Base Model.Locks Proofs.Locks.
Local Open Scope nat_scope.

(** * 1. Who can make a holder wait *)

(** The maps [a] and [b] conflict on [x]: both name it and at least one wants to write. *)
Definition conflicts (x : nat) (a b : list req) : Prop :=
  exists m1 m2, In (x, m1) a /\ In (x, m2) b /\ (m1 = MW \/ m2 = MW).

(** Thread [t] occupies [x]: it holds it, or it is registered as its pending writer. *)
Definition occupies (t : thread) (x : nat) : Prop :=
  (exists m, In (x, m) (holds t)) \/ (exists d r, t = TPend d x r).

(** Executable: the thread occupies something. *)
Definition present (t : thread) : bool :=
  match t with
  | TPend _ _ _ => true
  | _ => match holds t with [] => false | _ => true end
  end.

Lemma occupies_present t x : occupies t x -> present t = true.
Proof.
  intros [(m & I)|(d & r & ->)]; [|reflexivity].
  destruct t as [d todo|d y todo|h|h]; cbn in *; auto.
  - destruct d; [destruct I|reflexivity].
  - destruct h; [destruct I|reflexivity].
  - destruct h; [destruct I|reflexivity].
Qed.

Lemma conflicts_not_compat x a b : conflicts x a b -> compat a b -> False.
Proof.
  intros (m1 & m2 & I1 & I2 & Hm) Hc. destruct (Hc _ _ _ I1 I2) as [-> ->].
  destruct Hm; discriminate.
Qed.

Lemma in_prog_of_pend p d x r : tinv p (TPend d x r) -> In (x, MW) p.
Proof. cbn. intros <-. apply in_or_app. right. left. reflexivity. Qed.

Lemma in_prog_of_waits p t x : tinv p t -> waits t x -> exists m, In (x, m) p /\
  ((exists d r, t = TPend d x r) -> m = MW).
Proof.
  intros Ti [(d & m & r & ->)|(d & r & ->)]; cbn in Ti; subst p.
  - exists m. split; [apply in_or_app; right; left; reflexivity|].
    intros (d' & r' & E). discriminate.
  - exists MW. split; [apply in_or_app; right; left; reflexivity|auto].
Qed.

(** What a holder waits for it does not hold (its program is strictly ascending). *)
Lemma waits_not_holds p t y m' :
  tinv p t -> ascb (map fst p) = true -> waits t y -> ~ In (y, m') (holds t).
Proof.
  intros Ti Hs Hw I.
  assert (G : forall d q r, rev d ++ q :: r = p -> fst q = y -> In (y, m') d -> False).
  { intros d q r E Eq Id. rewrite <- E, map_app in Hs. cbn [map] in Hs. rewrite Eq in Hs.
    apply asc_not_in_prefix in Hs. apply Hs. apply in_map_iff. exists (y, m').
    split; auto. apply in_rev in Id. exact Id. }
  destruct Hw as [(d & m & r & ->)|(d & r & ->)]; cbn in Ti, I; eapply G; eauto.
Qed.

Section Blocked.
  Variable maps : list (list req).
  Let progs := map lock_prog maps.
  Variable s : state.
  Hypothesis HI : Inv progs s.

  Lemma thread_map j tj :
    nth_error (ths s) j = Some tj ->
    exists mj, nth_error maps j = Some mj /\ tinv (lock_prog mj) tj.
  Proof.
    intro Hj. destruct HI as [_ [_ I3]]. destruct (I3 _ _ Hj) as (p & Hp & Ti).
    unfold progs in Hp. rewrite nth_error_map in Hp.
    destruct (nth_error maps j) as [mj|]; [|discriminate]. cbn in Hp. inversion Hp; subst.
    eauto.
  Qed.

  Lemma own_tinv i t mi :
    nth_error (ths s) i = Some t -> nth_error maps i = Some mi -> tinv (lock_prog mi) t.
  Proof.
    intros Ht Hmi.
    destruct (thread_map _ _ Ht) as (m' & Hm' & Ti). rewrite Hmi in Hm'. inversion Hm'; subst. exact Ti.
  Qed.

  Definition culprit (i : nat) (t : thread) (mi : list req) (x j : nat) : Prop :=
    exists tj mj, j <> i /\ nth_error (ths s) j = Some tj /\ nth_error maps j = Some mj /\
                  waits t x /\ occupies tj x /\ conflicts x mi mj.

  Lemma culprit_holder i t mi y m m' j tj :
    NoDup (map fst mi) -> nth_error (ths s) i = Some t -> nth_error maps i = Some mi ->
    waits t y -> In (y, m) mi -> (m = MW \/ m' = MW) ->
    nth_error (ths s) j = Some tj -> In (y, m') (holds tj) -> culprit i t mi y j.
  Proof.
    intros Hnd Ht Hmi Hw Im Hm Hj Ih.
    assert (N : j <> i).
    { intros ->. rewrite Ht in Hj. inversion Hj; subst tj.
      eapply waits_not_holds; eauto using own_tinv. apply lock_prog_asc. exact Hnd. }
    destruct (thread_map _ _ Hj) as (mj & Hmj & Tj).
    exists tj, mj. repeat split; auto.
    - left. eauto.
    - exists m, m'. repeat split; auto. apply in_lock_prog. eapply holds_in_prog; eauto.
  Qed.

  Lemma culprit_pending i t mi y j d r :
    nth_error (ths s) i = Some t -> nth_error maps i = Some mi ->
    waits t y -> In (y, MR) mi -> (forall d' r', t <> TPend d' y r') ->
    nth_error (ths s) j = Some (TPend d y r) -> culprit i t mi y j.
  Proof.
    intros Ht Hmi Hw Im Hnp Hj.
    assert (N : j <> i).
    { intros ->. rewrite Ht in Hj. inversion Hj; subst t. eapply Hnp; reflexivity. }
    destruct (thread_map _ _ Hj) as (mj & Hmj & Tj).
    exists (TPend d y r), mj. repeat split; auto.
    - right. eauto.
    - exists MR, MW. repeat split; auto. apply in_lock_prog. eapply in_prog_of_pend; eauto.
  Qed.

  (** The central fact: a holder that cannot move has a culprit. *)
  Lemma blocked_has_culprit i t mi :
    NoDup (map fst mi) -> nth_error (ths s) i = Some t -> nth_error maps i = Some mi ->
    final_thread t = false -> step i s = None -> exists x j, culprit i t mi x j.
  Proof.
    intros Hnd Ht Hmi Hf Hst. unfold step in Hst. rewrite Ht in Hst.
    pose proof (own_tinv _ _ _ Ht Hmi) as Ti. destruct HI as [I1 _].
    destruct t as [d [|[y [|]] r] | d y r | h | [|[y [|]] r]]; cbn [tstep] in Hst;
      try discriminate.
    - (* reader *)
      destruct (can_r (lk s y)) eqn:Ec; [discriminate|].
      assert (Hw : waits (TAcq d ((y, MR) :: r)) y) by (left; eauto).
      assert (Im : In (y, MR) mi).
      { apply in_lock_prog. cbn in Ti. rewrite <- Ti. apply in_or_app. right. left. reflexivity. }
      destruct (I1 y) as (A & B & C & _).
      apply can_r_false in Ec as [Ec|Ec].
      + rewrite Ec in B. cbn in B.
        destruct (sumf_pos (cW y) (ths s)) as (j & tj & Hj & Hc); [lia|]. apply cnt_pos in Hc.
        exists y, j. eapply (culprit_holder i _ mi y MR MW); eauto.
      + destruct (sumf_pos (regd y) (ths s)) as (j & tj & Hj & Hc); [lia|].
        destruct tj as [| d' z r' | |]; cbn in Hc; try lia.
        destruct (Nat.eqb y z) eqn:Eyz; [|lia]. apply Nat.eqb_eq in Eyz; subst z.
        exists y, j. eapply culprit_pending; eauto. discriminate.
    - (* pending writer *)
      destruct (can_w (lk s y)) eqn:Ec; [discriminate|].
      assert (Hw : waits (TPend d y r) y) by (right; eauto).
      assert (Im : In (y, MW) mi).
      { apply in_lock_prog. eapply in_prog_of_pend. exact Ti. }
      destruct (I1 y) as (A & B & C & _).
      apply can_w_false in Ec as [Ec|Ec].
      + rewrite Ec in B. cbn in B.
        destruct (sumf_pos (cW y) (ths s)) as (j & tj & Hj & Hc); [lia|]. apply cnt_pos in Hc.
        exists y, j. eapply (culprit_holder i _ mi y MW MW); eauto.
      + destruct (sumf_pos (cR y) (ths s)) as (j & tj & Hj & Hc); [lia|]. apply cnt_pos in Hc.
        exists y, j. eapply (culprit_holder i _ mi y MW MR); eauto.
  Qed.
End Blocked.

Theorem blocked_only_by_incompatible : forall maps sched i t mi,
  let s := run sched (sys maps) in
  NoDup (map fst mi) ->
  nth_error (ths s) i = Some t -> nth_error maps i = Some mi ->
  final_thread t = false -> step i s = None ->
  exists x j tj mj,
    j <> i /\ nth_error (ths s) j = Some tj /\ nth_error maps j = Some mj /\
    waits t x /\ occupies tj x /\ conflicts x mi mj.
Proof.
  intros maps sched i t mi s Hnd Ht Hmi Hf Hst.
  destruct (blocked_has_culprit maps s (reach_Inv _ sched) i t mi Hnd Ht Hmi Hf Hst)
    as (x & j & tj & mj & H).
  exists x, j, tj, mj. exact H.
Qed.

(** A holder compatible with everybody who currently occupies anything never waits, whoever else
    is there and however they conflict among themselves. *)
Lemma bystander_enabled maps s i t mi :
  Inv (map lock_prog maps) s ->
  NoDup (map fst mi) ->
  nth_error (ths s) i = Some t -> nth_error maps i = Some mi -> final_thread t = false ->
  (forall j tj mj, j <> i -> nth_error (ths s) j = Some tj -> nth_error maps j = Some mj ->
                   present tj = true -> compat mi mj) ->
  step i s <> None.
Proof.
  intros HI Hnd Ht Hmi Hf Hc Hst.
  destruct (blocked_has_culprit maps s HI i t mi Hnd Ht Hmi Hf Hst)
    as (x & j & tj & mj & N & Hj & Hmj & _ & Ho & Hx).
  eapply conflicts_not_compat; [exact Hx|]. eapply Hc; eauto. eapply occupies_present; eauto.
Qed.

Theorem bystander_never_waits : forall maps sched i t mi,
  let s := run sched (sys maps) in
  NoDup (map fst mi) ->
  nth_error (ths s) i = Some t -> nth_error maps i = Some mi -> final_thread t = false ->
  (forall j tj mj, j <> i -> nth_error (ths s) j = Some tj -> nth_error maps j = Some mj ->
                   present tj = true -> compat mi mj) ->
  step i s <> None.
Proof.
  intros maps sched i t mi s. apply bystander_enabled. apply reach_Inv.
Qed.

(** Any pairwise compatible sub-family [J] of an arbitrary family can be inside all at once, by
    a schedule on which no step is skipped and nobody outside [J] moves. *)
Definition inside_at (s : state) (i : nat) : bool :=
  match nth_error (ths s) i with Some t => inside t | None => true end.

Lemma forallb_false_in {A} (f : A -> bool) l :
  forallb f l = false -> exists a, In a l /\ f a = false.
Proof.
  induction l as [|a l IH]; cbn; [discriminate|]. destruct (f a) eqn:E; cbn.
  - intro H. destruct (IH H) as (b & Hb & Hf). eauto.
  - intros _. eauto.
Qed.

Section SubFamily.
  Variable maps : list (list req).
  Variable J : list nat.
  Let progs := map lock_prog maps.
  Hypothesis Jnodup : forall i m, In i J -> nth_error maps i = Some m -> NoDup (map fst m).
  Hypothesis Jcompat : forall i j a b, In i J -> In j J -> i <> j ->
    nth_error maps i = Some a -> nth_error maps j = Some b -> compat a b.

  Definition sub_ok (s : state) : Prop :=
    Inv progs s /\
    (forall j t, ~ In j J -> nth_error (ths s) j = Some t -> present t = false) /\
    (forall i t, In i J -> nth_error (ths s) i = Some t -> pre_rel t = true).

  Lemma sub_all_inside_from : forall n s,
    measure s <= n -> sub_ok s ->
    exists sched, (forall i, In i sched -> In i J) /\ run_strict sched s <> None /\
                  forallb (inside_at (run sched s)) J = true.
  Proof.
    induction n as [|n IH]; intros s Hm (HI & Hout & Hpre);
      destruct (forallb (inside_at s) J) eqn:Ein;
      try (exists []; cbn; split; [tauto|split; [discriminate|exact Ein]]);
      destruct (forallb_false_in _ _ Ein) as (i & HiJ & Hni);
      unfold inside_at in Hni; destruct (nth_error (ths s) i) as [t|] eqn:Ht; try discriminate;
      pose proof (Hpre _ _ HiJ Ht) as Hpt;
      assert (Hnf : final_thread t = false) by (destruct t; try reflexivity; discriminate);
      destruct (thread_map maps s HI _ _ Ht) as (mi & Hmi & Ti);
      assert (Hen : step i s <> None) by
        (eapply (bystander_enabled maps s i t mi); eauto;
         intros j tj mj N Hj Hmj Hp; destruct (in_dec Nat.eq_dec j J) as [Hin|Hnin];
         [eapply (Jcompat i j); eauto | rewrite (Hout _ _ Hnin Hj) in Hp; discriminate]);
      destruct (step i s) as [s'|] eqn:Es; try congruence;
      pose proof (step_measure _ _ _ Es) as Hms.
    - lia.
    - destruct (step_inv _ _ _ _ Es Ht) as (L' & t' & Hts & Hs').
      assert (Hok : sub_ok s').
      { split; [|split].
        - destruct HI as [A B]. split; [eapply step_Inv1|eapply step_Inv3]; eauto.
        - intros j u Hn Hj. subst s'. cbn [ths] in Hj.
          rewrite nth_set_nth_neq in Hj by (intros ->; auto). eauto.
        - intros j u Hin Hj. subst s'. cbn [ths] in Hj.
          destruct (Nat.eq_dec i j) as [->|N].
          + rewrite nth_set_nth_eq in Hj by (eapply nth_error_lt; eauto). inversion Hj; subst.
            eapply tstep_pre_rel; eauto.
          + rewrite nth_set_nth_neq in Hj by exact N. eauto. }
      destruct (IH s') as (sched & Hin & Hr & Hall); auto; [lia|].
      exists (i :: sched). cbn. rewrite Es. split; [|auto].
      intros k [<-|Hk]; auto.
  Qed.

  Lemma sub_ok_init : sub_ok (sys maps).
  Proof.
    split; [|split].
    - exact (reach_Inv progs []).
    - intros j t _ Hj. unfold sys, init in Hj. cbn [ths] in Hj.
      apply nth_error_In in Hj. apply in_map_iff in Hj as (p & <- & _). reflexivity.
    - intros j t _ Hj. unfold sys, init in Hj. cbn [ths] in Hj.
      apply nth_error_In in Hj. apply in_map_iff in Hj as (p & <- & _). reflexivity.
  Qed.

  Lemma subfamily_all_inside :
    exists sched,
      (forall i, In i sched -> In i J) /\
      run_strict sched (sys maps) <> None /\
      forall i m, In i J -> nth_error maps i = Some m ->
                  nth_error (ths (run sched (sys maps))) i = Some (TIn (lock_prog m)).
  Proof.
    destruct (sub_all_inside_from (measure (sys maps)) (sys maps) (le_n _) sub_ok_init)
      as (sched & Hin & Hr & Hall).
    exists sched. split; [exact Hin|split; [exact Hr|]]. intros i m HiJ Hm.
    pose proof (reach_Inv progs sched) as HI.
    change (init progs) with (sys maps) in HI.
    destruct HI as [I1 [Hl I3]].
    rewrite forallb_forall in Hall. specialize (Hall _ HiJ). unfold inside_at in Hall.
    assert (Hlt : i < length (ths (run sched (sys maps)))).
    { rewrite Hl. unfold progs. rewrite map_length. eapply nth_error_lt; eauto. }
    destruct (nth_error (ths (run sched (sys maps))) i) as [t|] eqn:Et;
      [|apply nth_error_None in Et; lia].
    destruct (I3 _ _ Et) as (p & Hp & Ti).
    unfold progs in Hp. rewrite nth_error_map, Hm in Hp. cbn in Hp. inversion Hp; subst p.
    destruct t; try discriminate. cbn in Ti. subst. reflexivity.
  Qed.
End SubFamily.

(** * 2. Everybody gets their turn on every round-fair schedule *)

Lemma run_app a : forall b s, run (a ++ b) s = run b (run a s).
Proof. induction a as [|i a IH]; intros b s; cbn; auto. Qed.

Lemma run_measure_le sched : forall s, measure (run sched s) <= measure s.
Proof.
  induction sched as [|i r IH]; intro s; cbn; auto.
  destruct (step i s) as [s'|] eqn:E; [|apply IH].
  apply step_measure in E. specialize (IH s'). lia.
Qed.

(** Either nothing the stretch [r] mentions was enabled (and nothing happened), or the measure
    went down. *)
Lemma run_stretch r : forall s,
  ((forall i, In i r -> step i s = None) /\ run r s = s) \/ measure (run r s) < measure s.
Proof.
  induction r as [|i r IH]; intro s; cbn [run].
  - left. split; [intros i []|reflexivity].
  - destruct (step i s) as [s'|] eqn:E.
    + right. apply step_measure in E. pose proof (run_measure_le r s'). lia.
    + destruct (IH s) as [[Hn He]|Hlt]; [left|right; exact Hlt].
      split; [|exact He]. intros k [<-|Hk]; auto.
Qed.

Lemma final_no_step s : all_final s = true -> forall i, step i s = None.
Proof.
  intros Hf i. unfold step. destruct (nth_error (ths s) i) as [t|] eqn:Et; auto.
  rewrite all_final_spec in Hf. rewrite (Hf _ _ Et). reflexivity.
Qed.

Lemma final_stays sched : forall s, all_final s = true -> run sched s = s.
Proof.
  induction sched as [|i r IH]; intros s Hf; cbn; auto.
  rewrite (final_no_step _ Hf i). auto.
Qed.

Lemma tmeasure_zero t : tmeasure t = 0 -> t = TRel [].
Proof. destruct t as [d todo|d x todo|h|[|q h]]; cbn; intro H; try lia. reflexivity. Qed.

Lemma measure_zero_final s : measure s = 0 -> all_final s = true.
Proof.
  rewrite measure_sumf. intro H. apply all_final_spec. intros i t Ht.
  apply tmeasure_zero. pose proof (sumf_one tmeasure _ _ _ Ht). lia.
Qed.

(** A round mentions every holder. *)
Definition covers (n : nat) (r : list nat) : Prop := forall i, i < n -> In i r.
Definition coversb (n : nat) (r : list nat) : bool :=
  forallb (fun i => existsb (Nat.eqb i) r) (seq 0 n).

Lemma coversb_spec n r : coversb n r = true -> covers n r.
Proof.
  unfold coversb, covers. rewrite forallb_forall. intros H i Hi.
  assert (Hs : In i (seq 0 n)) by (apply in_seq; lia).
  apply H in Hs. apply existsb_exists in Hs as (k & Hk & E). apply Nat.eqb_eq in E. subst. exact Hk.
Qed.

Section Rounds.
  Variable progs : list (list req).
  Hypothesis Hsorted : sorted_progs progs.

  Lemma Inv_run sched s : Inv progs s -> Inv progs (run sched s).
  Proof.
    apply run_inv. intros i s0 s' [A B] Hs. split; [eapply step_Inv1|eapply step_Inv3]; eauto.
  Qed.

  (** One round from a reachable state: the measure goes down, or everybody has finished. *)
  Lemma round_progress s r :
    Inv progs s -> covers (length progs) r ->
    all_final (run r s) = true \/ measure (run r s) < measure s.
  Proof.
    intros [I1 I3] Hc. destruct (run_stretch r s) as [[Hn He]|Hlt]; [left|right; exact Hlt].
    rewrite He. eapply (stuck_all_final progs s); eauto.
    intro i. destruct (Nat.lt_ge_cases i (length progs)) as [Hi|Hi]; [apply Hn, Hc, Hi|].
    unfold step. destruct I3 as [Hl _].
    destruct (nth_error (ths s) i) eqn:E; auto. apply nth_error_lt in E. lia.
  Qed.

  Lemma rounds_finish : forall rounds s,
    Inv progs s -> (forall r, In r rounds -> covers (length progs) r) ->
    measure s <= length rounds -> all_final (run (concat rounds) s) = true.
  Proof.
    induction rounds as [|r rounds IH]; intros s HI Hc Hm; cbn [concat].
    - cbn in *. apply measure_zero_final. lia.
    - rewrite run_app.
      destruct (round_progress s r HI (Hc r (or_introl eq_refl))) as [Hf|Hlt].
      + rewrite final_stays; auto.
      + apply IH.
        * apply Inv_run. exact HI.
        * intros r' Hr'. apply Hc. right. exact Hr'.
        * cbn in Hm. lia.
  Qed.
End Rounds.

Theorem fair_rounds_finish : forall maps sched rounds,
  nodup_maps maps ->
  (forall r, In r rounds -> covers (length maps) r) ->
  measure (run sched (sys maps)) <= length rounds ->
  let s' := run (sched ++ concat rounds) (sys maps) in
  all_final s' = true /\ forall x, lk s' x = lock0.
Proof.
  intros maps sched rounds Hn Hc Hm s'.
  pose proof (reach_Inv (map lock_prog maps) (sched ++ concat rounds)) as [A' B'].
  change (init (map lock_prog maps)) with (sys maps) in A', B'. fold s' in A', B'.
  assert (F : all_final s' = true).
  { unfold s'. rewrite run_app.
    apply (rounds_finish (map lock_prog maps) (sys_sorted _ Hn)); auto.
    - apply reach_Inv.
    - rewrite map_length. exact Hc. }
  split; [exact F|]. apply final_locks_free; auto.
Qed.

(** However the schedule skips: at most [measure] of its entries are steps that happen. *)
Fixpoint effective (sched : list nat) (s : state) : nat :=
  match sched with
  | [] => 0
  | i :: r => match step i s with
              | Some s' => S (effective r s')
              | None => effective r s
              end
  end.

Lemma effective_measure sched : forall s, effective sched s + measure (run sched s) = measure s.
Proof.
  induction sched as [|i r IH]; intro s; cbn; auto.
  destruct (step i s) as [s'|] eqn:E; [|apply IH].
  apply step_measure in E. specialize (IH s'). lia.
Qed.

Theorem effective_bounded : forall progs sched, effective sched (init progs) <= measure (init progs).
Proof. intros progs sched. pose proof (effective_measure sched (init progs)). lia. Qed.

(** The measure of the initial state, explicitly: a holder with r read and w write names has
    2r + 3w + 2 steps (r RLock, w announce + w acquire, return of Lock, start of Unlock, r + w
    releases). *)
Definition nwrites (p : list req) : nat := length (filter (fun q => mode_eqb (snd q) MW) p).

Lemma acq_cost_length p : acq_cost p = length p + nwrites p.
Proof.
  unfold nwrites. induction p as [|[x [|]] p IH]; cbn [acq_cost length filter snd mode_eqb]; lia.
Qed.

Lemma tmeasure_start p : tmeasure (TAcq [] p) = 2 * length p + nwrites p + 2.
Proof. cbn [tmeasure length]. rewrite acq_cost_length. lia. Qed.

(** An execution in which holder [i] ends up past its critical section went through the state in
    which [i] is inside holding exactly its map. *)
Lemma passes_inside progs i : forall sched s t,
  Inv3 progs s -> nth_error (ths s) i = Some t -> pre_rel t = true ->
  (forall u, nth_error (ths (run sched s)) i = Some u -> pre_rel u = false) ->
  exists pre post p, sched = pre ++ post /\ nth_error progs i = Some p /\
                     nth_error (ths (run pre s)) i = Some (TIn p).
Proof.
  induction sched as [|a r IH]; intros s t H3 Ht Hp Hend.
  - cbn in Hend. rewrite (Hend _ Ht) in Hp. discriminate.
  - destruct (inside t) eqn:Ein.
    + destruct t; try discriminate. destruct H3 as [_ H3]. destruct (H3 _ _ Ht) as (p & Hpp & Ti).
      cbn in Ti. subst. exists [], (a :: r), p. cbn. auto.
    + cbn [run] in Hend.
      destruct (step a s) as [s'|] eqn:Es.
      * destruct (step_some_thread _ _ _ Es) as [ta Hta].
        destruct (step_inv _ _ _ _ Es Hta) as (L' & t' & Hts & Hs').
        assert (H3' : Inv3 progs s') by (eapply step_Inv3; eauto).
        assert (exists t1, nth_error (ths s') i = Some t1 /\ pre_rel t1 = true) as (t1 & Ht1 & Hp1).
        { subst s'. cbn [ths]. destruct (Nat.eq_dec a i) as [->|N].
          - rewrite Ht in Hta. inversion Hta; subst ta.
            exists t'. split; [apply nth_set_nth_eq; eapply nth_error_lt; eauto|].
            eapply tstep_pre_rel; eauto.
          - exists t. rewrite nth_set_nth_neq by exact N. auto. }
        destruct (IH s' t1 H3' Ht1 Hp1 Hend) as (pre & post & p & E & Hpp & Hin).
        exists (a :: pre), post, p. cbn [app run]. rewrite Es, E. auto.
      * destruct (IH s t H3 Ht Hp Hend) as (pre & post & p & E & Hpp & Hin).
        exists (a :: pre), post, p. cbn [app run]. rewrite Es, E. auto.
Qed.

Theorem finished_was_inside : forall maps sched i m,
  nth_error maps i = Some m ->
  all_final (run sched (sys maps)) = true ->
  exists pre post, sched = pre ++ post /\
                   nth_error (ths (run pre (sys maps))) i = Some (TIn (lock_prog m)).
Proof.
  intros maps sched i m Hm Hf.
  assert (Ht : nth_error (ths (sys maps)) i = Some (TAcq [] (lock_prog m))).
  { unfold sys, init. cbn [ths]. rewrite !nth_error_map, Hm. reflexivity. }
  destruct (passes_inside (map lock_prog maps) i sched (sys maps) _ (Inv3_init _) Ht eq_refl)
    as (pre & post & p & E & Hp & Hin).
  - intros u Hu. rewrite all_final_spec in Hf. rewrite (Hf _ _ Hu). reflexivity.
  - rewrite nth_error_map, Hm in Hp. cbn in Hp. inversion Hp; subst p. eauto.
Qed.

(** * 3. The trace acceptor is sound *)

Lemma run_strict_app a : forall b s s1 s2,
  run_strict a s = Some s1 -> run_strict b s1 = Some s2 -> run_strict (a ++ b) s = Some s2.
Proof.
  induction a as [|i a IH]; intros b s s1 s2 Ha Hb; cbn in *.
  - inversion Ha; subst. exact Hb.
  - destruct (step i s) as [s'|]; [|discriminate]. eauto.
Qed.

Lemma step_others i s s' j :
  step i s = Some s' -> j <> i -> nth_error (ths s') j = nth_error (ths s) j.
Proof.
  intros Hs N. destruct (step_some_thread _ _ _ Hs) as [t Ht].
  destruct (step_inv _ _ _ _ Hs Ht) as (L' & t' & _ & ->). cbn [ths].
  apply nth_set_nth_neq. auto.
Qed.

(** Holder [i] is in its critical section. *)
Definition ins (s : state) (i : nat) : Prop := exists h, nth_error (ths s) i = Some (TIn h).

Lemma drive_in_spec i : forall fuel s s',
  drive_in fuel i s = Some s' ->
  (exists sc, run_strict sc s = Some s') /\ ins s' i /\
  forall j, j <> i -> nth_error (ths s') j = nth_error (ths s) j.
Proof.
  induction fuel as [|f IH]; intros s s' H; cbn [drive_in] in H;
    destruct (nth_error (ths s) i) as [[d todo|d x todo|h|h]|] eqn:E; try discriminate;
    try (inversion H; subst; split; [exists []; reflexivity|split; [exists h; exact E|auto]]);
    (destruct (step i s) as [s1|] eqn:Es; [|discriminate]);
    destruct (IH _ _ H) as ((sc & Hsc) & Hin & Hoth);
    (split; [exists (i :: sc); cbn; rewrite Es; exact Hsc|split; [exact Hin|]]);
    intros j N; rewrite Hoth by exact N; eapply step_others; eauto.
Qed.

Lemma drive_out_spec i : forall fuel s s',
  drive_out fuel i s = Some s' ->
  (exists sc, run_strict sc s = Some s') /\ nth_error (ths s') i = Some (TRel []) /\
  forall j, j <> i -> nth_error (ths s') j = nth_error (ths s) j.
Proof.
  induction fuel as [|f IH]; intros s s' H; cbn [drive_out] in H;
    destruct (nth_error (ths s) i) as [[d todo|d x todo|h|[|q h]]|] eqn:E; try discriminate;
    try (inversion H; subst; split; [exists []; reflexivity|split; [exact E|auto]]);
    (destruct (step i s) as [s1|] eqn:Es; [|discriminate]);
    destruct (IH _ _ H) as ((sc & Hsc) & Hin & Hoth);
    (split; [exists (i :: sc); cbn; rewrite Es; exact Hsc|split; [exact Hin|]]);
    intros j N; rewrite Hoth by exact N; eapply step_others; eauto.
Qed.

(** Who the trace shows inside after it: entered ([EAcq]) and not yet left ([ERel]). *)
Fixpoint inside_after (tr : list event) (acc : list nat) : list nat :=
  match tr with
  | [] => acc
  | EAcq i :: r => inside_after r (i :: acc)
  | ERel i :: r => inside_after r (remove Nat.eq_dec i acc)
  end.

Lemma replay_sound : forall tr s s' acc,
  replay tr s = Some s' -> (forall i, In i acc -> ins s i) ->
  (exists sc, run_strict sc s = Some s') /\ forall i, In i (inside_after tr acc) -> ins s' i.
Proof.
  induction tr as [|[i|i] r IH]; intros s s' acc H Hacc; cbn [replay inside_after] in *.
  - inversion H; subst. split; [exists []; reflexivity|exact Hacc].
  - destruct (nth_error (ths s) i) as [[[|q d] todo|d x todo|h|h]|] eqn:E; try discriminate.
    destruct (drive_in (fuel_of s i) i s) as [s1|] eqn:Ed; [|discriminate].
    apply drive_in_spec in Ed as ((sc1 & Hsc1) & Hin & Hoth).
    destruct (IH s1 s' (i :: acc) H) as ((sc2 & Hsc2) & Hall).
    + intros j [<-|Hj]; [exact Hin|]. destruct (Nat.eq_dec j i) as [->|N]; [exact Hin|].
      destruct (Hacc _ Hj) as [h Hh]. exists h. rewrite Hoth by exact N. exact Hh.
    + split; [exists (sc1 ++ sc2); eapply run_strict_app; eauto|exact Hall].
  - destruct (nth_error (ths s) i) as [[d todo|d x todo|h|h]|] eqn:E; try discriminate.
    destruct (drive_out (fuel_of s i) i s) as [s1|] eqn:Ed; [|discriminate].
    apply drive_out_spec in Ed as ((sc1 & Hsc1) & Hout & Hoth).
    destruct (IH s1 s' (remove Nat.eq_dec i acc) H) as ((sc2 & Hsc2) & Hall).
    + intros j Hj. apply in_remove in Hj as [Hj N].
      destruct (Hacc _ Hj) as [h' Hh]. exists h'. rewrite Hoth by exact N. exact Hh.
    + split; [exists (sc1 ++ sc2); eapply run_strict_app; eauto|exact Hall].
Qed.

Lemma replay_app pre : forall post s s'',
  replay (pre ++ post) s = Some s'' ->
  exists s', replay pre s = Some s' /\ replay post s' = Some s''.
Proof.
  induction pre as [|[i|i] pre IH]; intros post s s'' H; cbn [app replay] in *.
  - eauto.
  - destruct (nth_error (ths s) i) as [[[|q d] todo|d x todo|h|h]|]; try discriminate.
    destruct (drive_in (fuel_of s i) i s) as [s1|]; [|discriminate]. eauto.
  - destruct (nth_error (ths s) i) as [[d todo|d x todo|h|h]|]; try discriminate.
    destruct (drive_out (fuel_of s i) i s) as [s1|]; [|discriminate]. eauto.
Qed.

(** An accepted trace is the projection of a complete execution of the model: a schedule on which
    no step is skipped takes [sys maps] to a state with everybody finished and EVERY lock free. *)
Theorem accepts_is_execution : forall maps tr,
  accepts maps tr = true ->
  exists sched s, run_strict sched (sys maps) = Some s /\ all_final s = true /\
                  forall x, lk s x = lock0.
Proof.
  intros maps tr H. unfold accepts in H.
  destruct (replay tr (sys maps)) as [s|] eqn:Er; [|discriminate].
  apply andb_true_iff in H as [Hf _].
  destruct (replay_sound tr (sys maps) s [] Er) as ((sc & Hsc) & _); [intros i []|].
  exists sc, s. split; [exact Hsc|split; [exact Hf|]].
  apply final_locks_free; auto.
  apply run_strict_run in Hsc. subst s. apply (reach_Inv (map lock_prog maps) sc).
Qed.

(** The intervals an accepted trace shows satisfy the exclusion clause: two holders that the
    trace shows inside together after any of its prefixes have compatible maps. *)
Theorem accepted_trace_exclusive : forall maps pre post i j mi mj x m1 m2,
  accepts maps (pre ++ post) = true -> i <> j ->
  In i (inside_after pre []) -> In j (inside_after pre []) ->
  nth_error maps i = Some mi -> nth_error maps j = Some mj ->
  In (x, m1) mi -> In (x, m2) mj -> m1 = MR /\ m2 = MR.
Proof.
  intros maps pre post i j mi mj x m1 m2 H N Ii Ij Hmi Hmj I1 I2. unfold accepts in H.
  destruct (replay (pre ++ post) (sys maps)) as [s|] eqn:Er; [|discriminate].
  apply replay_app in Er as (s1 & Hpre & _).
  destruct (replay_sound pre (sys maps) s1 [] Hpre) as ((sc & Hsc) & Hall); [intros k []|].
  apply run_strict_run in Hsc.
  destruct (Hall _ Ii) as [hi Hi]. destruct (Hall _ Ij) as [hj Hj]. subst s1.
  exact (exclusion_inside maps sc i j mi mj hi hj x m1 m2 N Hmi Hmj Hi Hj I1 I2).
Qed.

(** * The bound of [fair_rounds_finish] from the initial state, explicitly *)

Lemma insert_req_length q l : length (insert_req q l) = S (length l).
Proof. induction l as [|p l IH]; cbn; auto. destruct (Nat.leb (fst q) (fst p)); cbn; auto. Qed.

Lemma insert_req_nwrites q l : nwrites (insert_req q l) = nwrites [q] + nwrites l.
Proof.
  unfold nwrites. induction l as [|p l IH]; cbn [insert_req]; [cbn; lia|].
  destruct (Nat.leb (fst q) (fst p)).
  - cbn [filter]. destruct (mode_eqb (snd q) MW); cbn [length]; lia.
  - cbn [filter] in *. destruct (mode_eqb (snd p) MW); destruct (mode_eqb (snd q) MW);
      cbn [length] in *; lia.
Qed.

Lemma lock_prog_length m : length (lock_prog m) = length m.
Proof. induction m as [|q m IH]; cbn; auto. rewrite insert_req_length, IH. reflexivity. Qed.

Lemma lock_prog_nwrites m : nwrites (lock_prog m) = nwrites m.
Proof.
  induction m as [|q m IH]; cbn [lock_prog]; auto. rewrite insert_req_nwrites, IH.
  unfold nwrites. cbn [filter]. destruct (mode_eqb (snd q) MW); cbn; lia.
Qed.

(** A holder with r read and w write names performs 2r + 3w + 2 steps. *)
Definition holder_cost (m : list req) : nat := 2 * length m + nwrites m + 2.

Theorem measure_sys : forall maps, measure (sys maps) = sumf holder_cost maps.
Proof.
  intro maps. rewrite measure_sumf. unfold sys, init. cbn [ths].
  induction maps as [|m maps IH]; cbn [map sumf]; auto.
  rewrite IH, tmeasure_start, lock_prog_length, lock_prog_nwrites. reflexivity.
Qed.
