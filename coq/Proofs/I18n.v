(** Proofs about Model/I18n.v: the loader corollary. *)
From GC Require Import Common.Base Model.PlainMap Model.Json Model.I18n Proofs.PlainMap.
From Coq Require Import Lia Permutation.

Lemma FOP_perm {A} (R : A -> A -> Prop) : (forall x y, R x y -> R y x) ->
  forall l l', Permutation l l' -> ForallOrdPairs R l -> ForallOrdPairs R l'.
Proof.
  intros Hsym l l' P. induction P as [|x l l' P IH|x y l|l l' l'' P1 IH1 P2 IH2]; intro H.
  - exact H.
  - inversion H as [|? ? Hx Hl]; subst. constructor; [|apply IH; exact Hl].
    eapply Permutation_Forall; eassumption.
  - inversion H as [|? ? Hy Hl]; subst. inversion Hl as [|? ? Hx Hl']; subst.
    inversion Hy as [|? ? Hyx Hyl]; subst.
    constructor; [constructor; [apply Hsym; exact Hyx|exact Hx]|]. constructor; assumption.
  - auto.
Qed.

Lemma disjoint_files_sym f g : disjoint_files f g -> disjoint_files g f.
Proof. intros H k [A B]. apply (H k). split; assumption. Qed.

(** all callbacks succeed and the final store is the concatenation of the logs *)
Lemma run_callbacks_ok : forall order store,
  (forall f, In f order -> file_log f <> None) ->
  exists logs, Forall2 (fun f log => file_log f = Some log) order logs /\
               run_callbacks order store = Some (store ++ concat logs).
Proof.
  induction order as [|f r IH]; intros store Hp.
  - exists []. split; [constructor|]. cbn. rewrite app_nil_r. reflexivity.
  - cbn [run_callbacks]. destruct (file_log f) as [log|] eqn:E; [|exfalso; apply (Hp f); [left; reflexivity|exact E]].
    destruct (IH (i18_set store log)) as (logs & HF & Hr); [intros g Hg; apply Hp; right; exact Hg|].
    exists (log :: logs). split; [constructor; assumption|]. rewrite Hr. unfold i18_set. cbn [concat].
    rewrite <- app_assoc. reflexivity.
Qed.

Lemma lookup_last_concat_none k : forall (order : list file) logs,
  Forall2 (fun f log => file_log f = Some log) order logs ->
  (forall g, In g order -> ~ defines k g) -> lookup_last k (concat logs) = None.
Proof.
  induction 1 as [|f log order logs Hf HF IH]; intro Hnd; [reflexivity|].
  cbn [concat]. rewrite lookup_last_app. rewrite IH by (intros g Hg; apply Hnd; right; exact Hg).
  destruct (lookup_last k log) as [v|] eqn:E; [|reflexivity].
  exfalso. apply (Hnd f); [left; reflexivity|]. exists log, v. split; assumption.
Qed.

Lemma translate_after_run k v : forall (order : list file) logs store f log,
  Forall2 (fun f log => file_log f = Some log) order logs ->
  ForallOrdPairs disjoint_files order ->
  In f order -> file_log f = Some log -> lookup_last k log = Some v ->
  translate k (store ++ concat logs) = Some v.
Proof.
  unfold translate. induction order as [|g r IH]; intros logs store f log HF HD Hin Hf Hk; [contradiction|].
  inversion HF as [|? glog ? rlogs Hg HF']; subst. inversion HD as [|? ? Hgr HD']; subst.
  cbn [concat]. destruct Hin as [->|Hin].
  - assert (glog = log) by congruence. subst glog.
    rewrite app_assoc, lookup_last_app.
    rewrite (lookup_last_concat_none k r rlogs HF').
    + rewrite lookup_last_app, Hk. reflexivity.
    + intros g0 Hg0 Hdef. rewrite Forall_forall in Hgr. apply (Hgr g0 Hg0 k). split; [|exact Hdef].
      exists log, v. split; assumption.
  - rewrite app_assoc. eapply IH; eassumption.
Qed.

(** C20_loader *)
Theorem loader : forall (files order : list file),
  Permutation order (filter selected files) ->
  ForallOrdPairs disjoint_files (filter selected files) ->
  (forall f, In f files -> selected f = true -> file_log f <> None) ->
  exists store, run_callbacks order [] = Some store /\
    forall f log k v, In f files -> selected f = true -> file_log f = Some log ->
                      lookup_last k log = Some v -> translate k store = Some v.
Proof.
  intros files order P HD Hparse.
  assert (Hin : forall f, In f order <-> In f files /\ selected f = true).
  { intro f. rewrite <- filter_In. split; apply Permutation_in; [exact P|apply Permutation_sym; exact P]. }
  destruct (run_callbacks_ok order []) as (logs & HF & Hr).
  { intros f Hf. apply Hin in Hf as [H1 H2]. apply Hparse; assumption. }
  exists ([] ++ concat logs). split; [exact Hr|].
  intros f log k v Hf Hs Hl Hk. eapply translate_after_run; try eassumption.
  - eapply FOP_perm; [apply disjoint_files_sym|apply Permutation_sym; exact P|exact HD].
  - apply Hin. split; assumption.
Qed.
