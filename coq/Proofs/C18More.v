(** C18 - additions of the proof audit (definitions beside the model, lemmas).

    1. Histories.  The verbatim theorems of Proofs/Shell.v take an association list [e] with the
       hypotheses "every key is valid" and "the keys are pairwise distinct".  Here: every list
       that ANY sequence of Set / SetAll calls on one Environments object can hand to a script
       builder (in any iteration order of the Go map) satisfies both, and it carries, for every
       name, the value of the LAST ACCEPTED write ([ref_lookup]: a reference that does not look at
       the store at all).  End to end: history -> store -> script -> shell.
    2. The iteration order of the Go map does not matter for the shell state.
    3. Names.  The verbatim theorems need only "the key is a shell Name" (the accepted pattern lies
       strictly inside); and the name check is NECESSARY: keys that Set rejects, if they reached
       the builders, rebind another variable / run a command (computed witnesses).
    4. dcmd: the builder never panics and fails exactly when one half of the certificate is
       missing, whatever the environment is. *)
From GC Require Import Common.Base Model.Shell Proofs.Shell.
From Coq Require Import Lia Permutation.

(** * 1. Histories of Set / SetAll on one Environments object *)

Inductive env_op :=
| OSet (k v : bytes)
| OSetAll (kvs : env).      (* the Go map argument, in the order SetAll's range loop visits it *)

(** A refused call returns an error and leaves the object as it was (Corr/C18.v [CSetAll] compares
    All() after a refused SetAll with the store before it). *)
Definition env_apply (m : env) (o : env_op) : env :=
  match o with
  | OSet k v => match env_set m k v with Ok m' => m' | _ => m end
  | OSetAll kvs => match env_set_all m kvs with Ok m' => m' | _ => m end
  end.
Definition env_run (h : list env_op) (m : env) : env := fold_left env_apply h m.

(** The reference: what the history says, without any store.  A call is accepted iff all its
    names match the pattern; an accepted call writes its pairs (within one SetAll argument the
    pair visited last wins - a Go map has no duplicate keys, the model does not need that). *)
Definition op_accepted (o : env_op) : bool :=
  match o with
  | OSet k _ => valid_key k
  | OSetAll kvs => forallb (fun kv => valid_key (fst kv)) kvs
  end.
Definition op_write (o : env_op) (k : bytes) : option bytes :=
  if op_accepted o then
    match o with
    | OSet k' v => if bytes_eqb k k' then Some v else None
    | OSetAll kvs => lookup k (rev kvs)
    end
  else None.
Definition or_else (a b : option bytes) : option bytes := match a with Some v => Some v | None => b end.
Fixpoint ref_from (cur : option bytes) (h : list env_op) (k : bytes) : option bytes :=
  match h with
  | [] => cur
  | o :: h' => ref_from (or_else (op_write o k) cur) h' k
  end.
Definition ref_lookup (h : list env_op) (k : bytes) : option bytes := ref_from None h k.

Definition store_ok (m : env) : Prop :=
  Forall (fun kv => valid_key (fst kv) = true) m /\ NoDup (map fst m).

(** ** remove_key / put keep the store well formed *)
Lemma in_remove_key kv k m : In kv (remove_key k m) -> In kv m /\ fst kv <> k.
Proof.
  induction m as [|[k' v] m IH]; cbn [remove_key]; [intros []|].
  destruct (bytes_eqb k k') eqn:E.
  - intro H. destruct (IH H) as [H1 H2]. split; [right; exact H1|exact H2].
  - intros [H|H].
    + subst kv. split; [left; reflexivity|]. cbn [fst]. intro Heq. subst k'.
      rewrite bytes_eqb_refl in E. discriminate.
    + destruct (IH H) as [H1 H2]. split; [right; exact H1|exact H2].
Qed.

Lemma in_keys_remove_key x k m : In x (map fst (remove_key k m)) -> In x (map fst m) /\ x <> k.
Proof.
  intro H. apply in_map_iff in H as (kv & Hf & Hin). destruct (in_remove_key _ _ _ Hin) as [H1 H2].
  subst x. split; [apply in_map; exact H1|exact H2].
Qed.

Lemma nodup_remove_key k m : NoDup (map fst m) -> NoDup (map fst (remove_key k m)).
Proof.
  induction m as [|[k' v] m IH]; cbn [remove_key map fst]; intro H; [constructor|].
  inversion H as [|? ? Hni Hnd]; subst.
  destruct (bytes_eqb k k'); [exact (IH Hnd)|].
  cbn [map fst]. constructor; [|exact (IH Hnd)].
  intro Hin. apply in_keys_remove_key in Hin as [Hin _]. exact (Hni Hin).
Qed.

Lemma put_ok k v m : valid_key k = true -> store_ok m -> store_ok (put k v m).
Proof.
  intros Hk [Hv Hnd]. unfold put. split.
  - constructor; [exact Hk|]. apply Forall_forall. intros kv Hin.
    apply in_remove_key in Hin as [Hin _]. exact (proj1 (Forall_forall _ _) Hv _ Hin).
  - cbn [map fst]. constructor; [|exact (nodup_remove_key _ _ Hnd)].
    intro Hin. apply in_keys_remove_key in Hin as [_ Hne]. exact (Hne eq_refl).
Qed.

Lemma put_all_ok kvs m :
  forallb (fun kv => valid_key (fst kv)) kvs = true -> store_ok m -> store_ok (put_all kvs m).
Proof.
  revert m. induction kvs as [|[k v] kvs IH]; intros m Hk Hm; [exact Hm|].
  cbn [forallb fst] in Hk. apply andb_true_iff in Hk as [Hk1 Hk2].
  change (put_all ((k, v) :: kvs) m) with (put_all kvs (put k v m)).
  apply IH; [exact Hk2|apply put_ok; assumption].
Qed.

Lemma env_apply_ok m o : store_ok m -> store_ok (env_apply m o).
Proof.
  intro Hm. destruct o as [k v|kvs]; cbn [env_apply].
  - unfold env_set. destruct (valid_key k) eqn:E; [apply put_ok; assumption|exact Hm].
  - unfold env_set_all. destruct (forallb _ kvs) eqn:E; [apply put_all_ok; assumption|exact Hm].
Qed.

(** Invariant of the Environments object over ALL histories: only names that match the pattern,
    no name twice.  These are the first two hypotheses of the verbatim theorems. *)
Lemma env_run_ok h m : store_ok m -> store_ok (env_run h m).
Proof.
  revert m. induction h as [|o h IH]; intros m Hm; [exact Hm|].
  cbn [env_run fold_left]. apply IH. apply env_apply_ok. exact Hm.
Qed.
Lemma store_ok_nil : store_ok [].
Proof. split; constructor. Qed.

(** ** The store is the reference map *)
Lemma lookup_app k a b : lookup k (a ++ b) = or_else (lookup k a) (lookup k b).
Proof.
  induction a as [|[k' v] a IH]; [reflexivity|]. cbn [app lookup].
  destruct (bytes_eqb k k'); [reflexivity|exact IH].
Qed.

Lemma lookup_put k k' v m : lookup k (put k' v m) = if bytes_eqb k k' then Some v else lookup k m.
Proof.
  destruct (bytes_eqb k k') eqn:E.
  - apply bytes_eqb_spec in E. subst k'. apply lookup_put_same.
  - apply lookup_put_other. intro Heq. subst k'. rewrite bytes_eqb_refl in E. discriminate.
Qed.

Lemma lookup_put_all k kvs m : lookup k (put_all kvs m) = or_else (lookup k (rev kvs)) (lookup k m).
Proof.
  revert m. induction kvs as [|[k1 v1] kvs IH]; intro m; [reflexivity|].
  change (put_all ((k1, v1) :: kvs) m) with (put_all kvs (put k1 v1 m)).
  rewrite IH. cbn [rev]. rewrite lookup_app, lookup_put.
  destruct (lookup k (rev kvs)); [reflexivity|]. cbn [or_else lookup].
  destruct (bytes_eqb k k1); reflexivity.
Qed.

Lemma lookup_env_apply k m o : lookup k (env_apply m o) = or_else (op_write o k) (lookup k m).
Proof.
  destruct o as [k' v|kvs]; unfold env_apply, op_write, op_accepted.
  - unfold env_set. destruct (valid_key k'); [|reflexivity].
    rewrite lookup_put. destruct (bytes_eqb k k'); reflexivity.
  - unfold env_set_all. destruct (forallb _ kvs); [|reflexivity]. apply lookup_put_all.
Qed.

Lemma lookup_env_run k h m : lookup k (env_run h m) = ref_from (lookup k m) h k.
Proof.
  revert m. induction h as [|o h IH]; intro m; [reflexivity|].
  cbn [env_run fold_left ref_from]. change (fold_left env_apply h (env_apply m o)) with (env_run h (env_apply m o)).
  rewrite IH, lookup_env_apply. reflexivity.
Qed.

(** A refused call changes nothing - neither the store nor the reference. *)
Lemma env_apply_refused m o : op_accepted o = false -> env_apply m o = m /\ forall k, op_write o k = None.
Proof.
  intro H. split.
  - destruct o as [k v|kvs]; cbn [op_accepted] in H; cbn [env_apply]; unfold env_set, env_set_all; rewrite H; reflexivity.
  - intro k. unfold op_write. rewrite H. reflexivity.
Qed.

(** ** lookup against membership (pairwise distinct keys) *)
Lemma lookup_some_in k v m : lookup k m = Some v -> In (k, v) m.
Proof.
  induction m as [|[k' v'] m IH]; cbn [lookup]; [discriminate|].
  destruct (bytes_eqb k k') eqn:E.
  - intro H. apply bytes_eqb_spec in E. left. congruence.
  - intro H. right. exact (IH H).
Qed.
Lemma lookup_none_keys k m : lookup k m = None <-> ~ In k (map fst m).
Proof.
  induction m as [|[k' v'] m IH]; cbn [lookup map fst]; [split; [intros _ []|reflexivity]|].
  destruct (bytes_eqb k k') eqn:E.
  - apply bytes_eqb_spec in E. subst k'. split; [discriminate|]. intro H. exfalso. apply H. left. reflexivity.
  - rewrite IH. split.
    + intros Hni [Heq|Hin]; [subst k'; rewrite bytes_eqb_refl in E; discriminate|exact (Hni Hin)].
    + intros Hni Hin. apply Hni. right. exact Hin.
Qed.
Lemma in_lookup_nodup k v m : NoDup (map fst m) -> In (k, v) m -> lookup k m = Some v.
Proof.
  induction m as [|[k' v'] m IH]; cbn [map fst lookup]; intros Hnd Hin; [destruct Hin|].
  inversion Hnd as [|? ? Hni Hnd']; subst. destruct Hin as [Heq|Hin].
  - inversion Heq; subst. rewrite bytes_eqb_refl. reflexivity.
  - destruct (bytes_eqb k k') eqn:E; [|exact (IH Hnd' Hin)].
    apply bytes_eqb_spec in E. subst k'. exfalso. apply Hni.
    exact (in_map fst _ _ Hin).
Qed.

(** ** Any iteration order of the map *)
Lemma perm_store_ok e m : Permutation e m -> store_ok m -> store_ok e.
Proof.
  intros Hp [Hv Hnd]. split.
  - apply Forall_forall. intros kv Hin. exact (proj1 (Forall_forall _ _) Hv _ (Permutation_in _ Hp Hin)).
  - apply (Permutation_NoDup (Permutation_sym (Permutation_map fst Hp))). exact Hnd.
Qed.

Lemma perm_lookup e m k : Permutation e m -> NoDup (map fst m) -> lookup k e = lookup k m.
Proof.
  intros Hp Hnd.
  assert (Hnde : NoDup (map fst e)) by (apply (Permutation_NoDup (Permutation_sym (Permutation_map fst Hp))); exact Hnd).
  destruct (lookup k m) as [v|] eqn:E.
  - apply in_lookup_nodup; [exact Hnde|]. apply (Permutation_in _ (Permutation_sym Hp)). apply lookup_some_in. exact E.
  - apply lookup_none_keys. intro Hin. apply lookup_none_keys in E. apply E.
    exact (Permutation_in _ (Permutation_map fst Hp) Hin).
Qed.

(** ** The shell state after the environment section, pointwise *)
Lemma after_env_exact_pointwise e s :
  NoDup (map fst e) ->
  sh_effects (after_env_exact e s) = sh_effects s /\
  (forall k, lookup k (sh_store (after_env_exact e s)) = or_else (lookup k e) (lookup k (sh_store s))) /\
  (forall k, In k (sh_exported (after_env_exact e s)) <-> lookup k e <> None \/ In k (sh_exported s)).
Proof.
  intro Hnd. destruct (after_env_with_spec (fun v => v) e s Hnd) as (He & Hin & Hout).
  split; [exact He|]. split.
  - intro k. destruct (lookup k e) as [v|] eqn:E; cbn [or_else].
    + exact (proj1 (Hin k v (lookup_some_in _ _ _ E))).
    + apply lookup_none_keys in E. exact (proj1 (Hout k E)).
  - intro k. unfold after_env_exact. rewrite after_env_exported.
    assert (Hk : In k (map fst e) <-> lookup k e <> None).
    { split.
      - intros Hi Hn. apply lookup_none_keys in Hn. exact (Hn Hi).
      - intro Hn. destruct (in_dec (list_eq_dec N.eq_dec) k (map fst e)) as [Hi|Hni]; [exact Hi|].
        exfalso. apply Hn. apply lookup_none_keys. exact Hni. }
    rewrite Hk. reflexivity.
Qed.

(** * 3 (used by 1). The environment section needs only shell Names *)
Lemma env_block_sq_run_name k v tail s :
  is_name k = true ->
  run_lines (split_lines (env_block_sq (k, v) ++ tail)) (Top, s)
  = run_lines (split_lines tail) (Top, add_export k (bind k v s)).
Proof.
  intro Hn. destruct (is_name_chars _ Hn) as [_ Hc].
  unfold env_block_sq, sq_word. cbn [fst snd].
  replace ((k ++ EQS :: (SQ :: sq_escape v ++ [SQ]) ++ NL :: EXPORT_SP ++ k ++ [NL]) ++ tail)
    with (k ++ EQS :: SQ :: (sq_escape v ++ SQ :: NL :: (EXPORT_SP ++ k) ++ NL :: tail)).
  2:{ repeat (rewrite <- ?app_assoc; cbn [app]). reflexivity. }
  rewrite (top_sq_open _ _ _ Hn), insq_value. cbn [rev app].
  rewrite split_lines_app_nl, split_lines_no_nl.
  2:{ rewrite no_nl_app, (name_chars_no_nl _ Hc). reflexivity. }
  cbn [app run_lines fold_left step]. rewrite (step_top_export _ _ Hn). reflexivity.
Qed.

Lemma env_section_sq_run_name e tail s :
  Forall (fun kv => is_name (fst kv) = true) e ->
  run_lines (split_lines (env_section_sq e ++ tail)) (Top, s)
  = run_lines (split_lines tail) (Top, after_env_exact e s).
Proof.
  revert s. induction e as [|[k v] e IH]; intros s Hk; [reflexivity|].
  inversion Hk; subst. unfold env_section_sq in *. cbn [flat_map].
  rewrite <- app_assoc, env_block_sq_run_name by assumption.
  rewrite IH by assumption. reflexivity.
Qed.

Lemma ssh_run_name e entry s :
  Forall (fun kv => is_name (fst kv) = true) e ->
  sh_run s (ssh_script e entry) = sh_run (after_env_exact e s) (entry ++ [NL]).
Proof.
  intro Hk. unfold sh_run, ssh_script.
  rewrite (header_run (env_section_sq e ++ entry ++ [NL]) s), (env_section_sq_run_name e (entry ++ [NL]) s Hk).
  reflexivity.
Qed.

Lemma dcmd_run_name e tag pub sec script s :
  Forall (fun kv => is_name (fst kv) = true) e ->
  dcmd_script e tag pub sec = Ok script ->
  exists tail, cert_tail tag pub sec = Ok tail /\ sh_run s script = sh_run (after_env_exact e s) tail.
Proof.
  intros Hk Hs. unfold dcmd_script in Hs. destruct (cert_tail tag pub sec) as [t| |]; try discriminate.
  assert (Hsc : script = HEADER ++ env_section_sq e ++ t) by congruence. clear Hs. subst script.
  exists t. split; [reflexivity|]. unfold sh_run.
  rewrite (header_run (env_section_sq e ++ t) s), (env_section_sq_run_name e t s Hk). reflexivity.
Qed.

(** Both builders, keys = any shell Names (letters, digits, underscores, not starting with a
    digit), state after the section characterised pointwise.  Weaker hypotheses and the same
    conclusions as [verbatim_ssh] / [verbatim_dcmd] ([valid_key_is_name]). *)
Theorem verbatim_names_ssh : forall (e : env) (entry : bytes) (s : shst),
  Forall (fun kv => is_name (fst kv) = true) e ->
  NoDup (map fst e) ->
  Forall (fun kv => no_nul (snd kv) = true) e ->
  sh_run s (ssh_script e entry) = sh_run (after_env_exact e s) (entry ++ [NL]) /\
  sh_effects (after_env_exact e s) = sh_effects s /\
  (forall k v, In (k, v) e -> lookup k (sh_store (after_env_exact e s)) = Some v /\ In k (sh_exported (after_env_exact e s))) /\
  (forall k, ~ In k (map fst e) ->
             lookup k (sh_store (after_env_exact e s)) = lookup k (sh_store s) /\
             (In k (sh_exported (after_env_exact e s)) <-> In k (sh_exported s))).
Proof.
  intros e entry s Hk Hnd _. split; [exact (ssh_run_name e entry s Hk)|].
  exact (after_env_with_spec (fun v => v) e s Hnd).
Qed.

Theorem verbatim_names_dcmd : forall (e : env) (tag pub sec script : bytes) (s : shst),
  Forall (fun kv => is_name (fst kv) = true) e ->
  NoDup (map fst e) ->
  Forall (fun kv => no_nul (snd kv) = true) e ->
  dcmd_script e tag pub sec = Ok script ->
  (exists tail, cert_tail tag pub sec = Ok tail /\ sh_run s script = sh_run (after_env_exact e s) tail) /\
  (is_nil pub && is_nil sec = true -> sh_run s script = Done (after_env_exact e s)) /\
  sh_effects (after_env_exact e s) = sh_effects s /\
  (forall k v, In (k, v) e -> lookup k (sh_store (after_env_exact e s)) = Some v /\ In k (sh_exported (after_env_exact e s))) /\
  (forall k, ~ In k (map fst e) ->
             lookup k (sh_store (after_env_exact e s)) = lookup k (sh_store s) /\
             (In k (sh_exported (after_env_exact e s)) <-> In k (sh_exported s))).
Proof.
  intros e tag pub sec script s Hk Hnd _ Hs.
  pose proof (dcmd_run_name e tag pub sec script s Hk Hs) as Hrun.
  split; [exact Hrun|]. split; [|exact (after_env_with_spec (fun v => v) e s Hnd)].
  intro Hnil. destruct Hrun as (tail & Hc & Hr). unfold cert_tail in Hc. rewrite Hnil in Hc.
  inversion Hc; subst. rewrite Hr. reflexivity.
Qed.

Lemma valid_keys_names (e : env) :
  Forall (fun kv => valid_key (fst kv) = true) e -> Forall (fun kv => is_name (fst kv) = true) e.
Proof. apply Forall_impl. intros kv H. apply valid_key_is_name. exact H. Qed.

(** The accepted pattern lies STRICTLY inside the shell Names. *)
Lemma valid_key_strictly_inside :
  (forall k, valid_key k = true -> is_name k = true) /\
  (exists k, is_name k = true /\ valid_key k = false).
Proof. split; [exact valid_key_is_name|]. exists [95; 65; 49]. split; reflexivity. Qed.

(** * 1 (continued). End to end: history -> store -> script -> shell *)

(** For EVERY sequence of Set / SetAll calls on a fresh Environments object (accepted or refused,
    any names, any values), EVERY order [e] in which the Go map iteration hands the resulting
    store to the builder, every entrypoint and every initial shell state: feeding the sshsb
    script to the shell is feeding the entrypoint to the shell in a state [s'] that differs from
    [s] exactly by: every name whose last accepted write was [v] is bound to [v] and exported;
    every other variable and the effects are as before.  The only hypothesis left is the
    validity domain of the shell model (no NUL byte in a stored value). *)
Theorem history_ssh : forall (h : list env_op) (e : env) (entry : bytes) (s : shst),
  Permutation e (env_run h []) ->
  Forall (fun kv => no_nul (snd kv) = true) e ->
  exists s',
    sh_run s (ssh_script e entry) = sh_run s' (entry ++ [NL]) /\
    sh_effects s' = sh_effects s /\
    (forall k, lookup k (sh_store s') = or_else (ref_lookup h k) (lookup k (sh_store s))) /\
    (forall k, In k (sh_exported s') <-> ref_lookup h k <> None \/ In k (sh_exported s)).
Proof.
  intros h e entry s Hp _.
  pose proof (env_run_ok h [] store_ok_nil) as Hm.
  destruct (perm_store_ok _ _ Hp Hm) as [Hv Hnd].
  exists (after_env_exact e s). split; [exact (ssh_run_name e entry s (valid_keys_names _ Hv))|].
  destruct (after_env_exact_pointwise e s Hnd) as (He & Hl & Hx).
  assert (Hlk : forall k, lookup k e = ref_lookup h k).
  { intro k. rewrite (perm_lookup _ _ k Hp (proj2 Hm)), lookup_env_run. reflexivity. }
  split; [exact He|]. split; intro k; rewrite <- Hlk; [apply Hl|apply Hx].
Qed.

Theorem history_dcmd : forall (h : list env_op) (e : env) (tag pub sec script : bytes) (s : shst),
  Permutation e (env_run h []) ->
  Forall (fun kv => no_nul (snd kv) = true) e ->
  dcmd_script e tag pub sec = Ok script ->
  exists s',
    (exists tail, cert_tail tag pub sec = Ok tail /\ sh_run s script = sh_run s' tail) /\
    (is_nil pub && is_nil sec = true -> sh_run s script = Done s') /\
    sh_effects s' = sh_effects s /\
    (forall k, lookup k (sh_store s') = or_else (ref_lookup h k) (lookup k (sh_store s))) /\
    (forall k, In k (sh_exported s') <-> ref_lookup h k <> None \/ In k (sh_exported s)).
Proof.
  intros h e tag pub sec script s Hp _ Hs.
  pose proof (env_run_ok h [] store_ok_nil) as Hm.
  destruct (perm_store_ok _ _ Hp Hm) as [Hv Hnd].
  exists (after_env_exact e s).
  pose proof (dcmd_run_name e tag pub sec script s (valid_keys_names _ Hv) Hs) as Hrun.
  split; [exact Hrun|]. split.
  { intro Hnil. destruct Hrun as (tail & Hc & Hr). unfold cert_tail in Hc. rewrite Hnil in Hc.
    inversion Hc; subst. rewrite Hr. reflexivity. }
  destruct (after_env_exact_pointwise e s Hnd) as (He & Hl & Hx).
  assert (Hlk : forall k, lookup k e = ref_lookup h k).
  { intro k. rewrite (perm_lookup _ _ k Hp (proj2 Hm)), lookup_env_run. reflexivity. }
  split; [exact He|]. split; intro k; rewrite <- Hlk; [apply Hl|apply Hx].
Qed.

(** The object itself over all histories: invariant, reference semantics, refused calls. *)
Theorem history_store : forall (h : list env_op),
  store_ok (env_run h []) /\
  (forall k, lookup k (env_run h []) = ref_lookup h k) /\
  (forall k v, In (k, v) (env_run h []) <-> ref_lookup h k = Some v) /\
  (forall o, op_accepted o = false -> env_run (h ++ [o]) [] = env_run h []).
Proof.
  intro h. pose proof (env_run_ok h [] store_ok_nil) as Hm.
  assert (Hl : forall k, lookup k (env_run h []) = ref_lookup h k) by (intro k; apply lookup_env_run).
  split; [exact Hm|]. split; [exact Hl|]. split.
  - intros k v. rewrite <- Hl. split; [apply in_lookup_nodup; exact (proj2 Hm)|apply lookup_some_in].
  - intros o Ho. unfold env_run. rewrite fold_left_app. cbn [fold_left].
    exact (proj1 (env_apply_refused _ o Ho)).
Qed.

(** The reference is what it should be: the last accepted write wins, a refused call is skipped. *)
Lemma ref_from_app cur h1 h2 k : ref_from cur (h1 ++ h2) k = ref_from (ref_from cur h1 k) h2 k.
Proof. revert cur. induction h1 as [|o h1 IH]; intro cur; [reflexivity|]. cbn [app ref_from]. apply IH. Qed.

Theorem ref_lookup_last : forall h o k,
  ref_lookup (h ++ [o]) k = or_else (op_write o k) (ref_lookup h k).
Proof. intros h o k. unfold ref_lookup. rewrite ref_from_app. reflexivity. Qed.

Theorem ref_lookup_set : forall h k v k',
  ref_lookup (h ++ [OSet k v]) k' =
  if valid_key k && bytes_eqb k' k then Some v else ref_lookup h k'.
Proof.
  intros h k v k'. rewrite ref_lookup_last. unfold op_write. cbn [op_accepted].
  destruct (valid_key k); [|reflexivity]. destruct (bytes_eqb k' k); reflexivity.
Qed.

(** * 2. The iteration order of the Go map is irrelevant *)
Theorem order_irrelevant : forall (e e' : env) (s : shst),
  Permutation e e' -> NoDup (map fst e) ->
  sh_effects (after_env_exact e s) = sh_effects (after_env_exact e' s) /\
  (forall k, lookup k (sh_store (after_env_exact e s)) = lookup k (sh_store (after_env_exact e' s))) /\
  (forall k, In k (sh_exported (after_env_exact e s)) <-> In k (sh_exported (after_env_exact e' s))).
Proof.
  intros e e' s Hp Hnd.
  assert (Hnd' : NoDup (map fst e')) by (apply (Permutation_NoDup (Permutation_map fst Hp)); exact Hnd).
  destruct (after_env_exact_pointwise e s Hnd) as (He & Hl & Hx).
  destruct (after_env_exact_pointwise e' s Hnd') as (He' & Hl' & Hx').
  assert (Hlk : forall k, lookup k e = lookup k e') by (intro k; apply perm_lookup; assumption).
  split; [congruence|]. split; intro k.
  - rewrite Hl, Hl', Hlk. reflexivity.
  - rewrite Hx, Hx', Hlk. reflexivity.
Qed.

(** * 3. The name check is necessary (computed witnesses) *)
Definition BADK_ASSIGN : bytes := [66;61;39;112;119;110;39;10;116;114;117;101].  (* B='pwn' NL true *)
Definition BADK_SUBST : bytes :=
  [65;61;36;40;99;97;116;32;60;60;84;10;84;10] ++ V_PWN ++ [10;41;10;67].      (* A=$(cat <<T NL T NL : > canary NL ) NL C *)
Definition V_OLD : bytes := [111;108;100].
Definition V_PWNED : bytes := [112;119;110].
Definition sh_b : shst := mkSh [(KEY_B, V_OLD)] [] [].

(** Set and SetAll refuse both names; had they reached a builder (same builders, same shell):
    the first rebinds B, a variable that is not configured at all; the second runs a command. *)
Lemma bad_name_witness :
  valid_key BADK_ASSIGN = false /\ valid_key BADK_SUBST = false /\
  env_set [] BADK_ASSIGN [118] = Err /\ env_set_all [] [(KEY_A, [118]); (BADK_SUBST, [118])] = Err /\
  (exists s', sh_run sh_b (ssh_script [(BADK_ASSIGN, [118])] []) = Done s' /\
              ~ In KEY_B (map fst [(BADK_ASSIGN, [118])]) /\
              lookup KEY_B (sh_store sh_b) = Some V_OLD /\ lookup KEY_B (sh_store s') = Some V_PWNED) /\
  (exists script s', dcmd_script [(BADK_SUBST, [118])] TAGA [] [] = Ok script /\
              sh_run sh_b script = Done s' /\ In (Exec V_PWN) (sh_effects s')).
Proof.
  split; [vm_compute; reflexivity|]. split; [vm_compute; reflexivity|].
  split; [vm_compute; reflexivity|]. split; [vm_compute; reflexivity|]. split.
  - eexists. split; [vm_compute; reflexivity|]. split.
    + cbn [map fst]. intros [H|[]]. vm_compute in H. discriminate H.
    + split; vm_compute; reflexivity.
  - eexists. eexists. split; [vm_compute; reflexivity|]. split; [vm_compute; reflexivity|].
    cbn [sh_effects]. left. reflexivity.
Qed.

(** * 4. dcmd: total, fails only on half a certificate *)
Theorem dcmd_total : forall (e : env) (tag pub sec : bytes),
  dcmd_script e tag pub sec <> Panic /\
  (dcmd_script e tag pub sec = Err <-> is_nil pub <> is_nil sec) /\
  (is_nil pub = is_nil sec ->
   exists tail, cert_tail tag pub sec = Ok tail /\
                dcmd_script e tag pub sec = Ok (HEADER ++ env_section_sq e ++ tail)).
Proof.
  intros e tag pub sec. unfold dcmd_script, cert_tail.
  destruct pub as [|p pub], sec as [|q sec]; cbn [is_nil andb].
  - split; [discriminate|]. split; [split; [discriminate|intro H; exfalso; apply H; reflexivity]|].
    intros _. eexists. split; reflexivity.
  - split; [discriminate|]. split; [split; [discriminate|reflexivity]|]. discriminate.
  - split; [discriminate|]. split; [split; [discriminate|reflexivity]|]. discriminate.
  - split; [discriminate|]. split; [split; [discriminate|intro H; exfalso; apply H; reflexivity]|].
    intros _. eexists. split; reflexivity.
Qed.

(** * Examples (non-vacuity) *)

(** One object: an accepted Set with a hostile value, a refused Set, a refused SetAll (second name
    has a digit), an accepted SetAll that overwrites A, a Set of a third name. *)
Definition H_EX : list env_op :=
  [ OSet KEY_A (V_SUBST ++ [NL]);
    OSet [65;49] V_PWN;
    OSetAll [(KEY_B, V_DHOME); ([66;45], [120])];
    OSetAll [(KEY_B, SQ :: V_DHOME ++ [BQ; BSL; NL; NL]); (KEY_A, V_EACUTE)];
    OSet [67;95;100] [] ].

Lemma history_example :
  env_run H_EX [] = [([67;95;100], []); (KEY_A, V_EACUTE); (KEY_B, SQ :: V_DHOME ++ [BQ; BSL; NL; NL])] /\
  map op_accepted H_EX = [true; false; false; true; true] /\
  ref_lookup H_EX KEY_A = Some V_EACUTE /\
  ref_lookup H_EX KEY_B = Some (SQ :: V_DHOME ++ [BQ; BSL; NL; NL]) /\
  ref_lookup H_EX [65;49] = None /\ ref_lookup H_EX [66;45] = None /\
  (* another iteration order than the store's own, through both builders *)
  let e := [(KEY_B, SQ :: V_DHOME ++ [BQ; BSL; NL; NL]); ([67;95;100], []); (KEY_A, V_EACUTE)] in
  Permutation e (env_run H_EX []) /\
  Forall (fun kv => no_nul (snd kv) = true) e /\
  (exists s', sh_run sh0 (ssh_script e [115;104]) = Done s' /\
              lookup KEY_B (sh_store s') = Some (SQ :: V_DHOME ++ [BQ; BSL; NL; NL]) /\
              lookup KEY_A (sh_store s') = Some V_EACUTE /\
              lookup HOME_K (sh_store s') = Some HOME_V /\
              sh_effects s' = [Cmd [115;104]]) /\
  (exists script s', dcmd_script e TAGA [112] [115] = Ok script /\
              sh_run sh0 script = Done s' /\
              lookup KEY_B (sh_store s') = Some (SQ :: V_DHOME ++ [BQ; BSL; NL; NL]) /\
              existsb is_exec (sh_effects s') = false).
Proof.
  split; [vm_compute; reflexivity|]. split; [vm_compute; reflexivity|].
  split; [vm_compute; reflexivity|]. split; [vm_compute; reflexivity|].
  split; [vm_compute; reflexivity|]. split; [vm_compute; reflexivity|].
  cbv zeta. split.
  - replace (env_run H_EX []) with [([67;95;100], []); (KEY_A, V_EACUTE); (KEY_B, SQ :: V_DHOME ++ [BQ; BSL; NL; NL])]
      by (vm_compute; reflexivity).
    exact (Permutation_cons_app [([67;95;100], []); (KEY_A, V_EACUTE)] [] _ (Permutation_refl _)).
  - split; [repeat constructor|]. split.
    + eexists. split; [vm_compute; reflexivity|]. repeat split.
    + eexists. eexists. split; [vm_compute; reflexivity|]. split; [vm_compute; reflexivity|]. repeat split.
Qed.

(** Keys that are shell Names but not accepted names, through the builder (instance of
    [verbatim_names_ssh]); and the order theorem on two orders of one map. *)
Lemma names_example :
  let e := [([95;65;49], V_DHOME); ([120;50], V_SUBST)] in
  Forall (fun kv => is_name (fst kv) = true) e /\ NoDup (map fst e) /\
  Forall (fun kv => no_nul (snd kv) = true) e /\
  map valid_key (map fst e) = [false; false] /\
  exists s', sh_run sh0 (ssh_script e []) = Done s' /\
             lookup [95;65;49] (sh_store s') = Some V_DHOME /\ lookup [120;50] (sh_store s') = Some V_SUBST /\
             existsb is_exec (sh_effects s') = false.
Proof.
  cbv zeta. split; [repeat constructor|].
  split; [repeat constructor; [intros [H|[]]; discriminate H|intros []]|].
  split; [repeat constructor|]. split; [vm_compute; reflexivity|].
  eexists. split; [vm_compute; reflexivity|]. repeat split.
Qed.

Lemma order_example :
  let e := [(KEY_A, V_DHOME); (KEY_B, V_SUBST)] in
  let e' := [(KEY_B, V_SUBST); (KEY_A, V_DHOME)] in
  Permutation e e' /\ NoDup (map fst e) /\
  sh_store (after_env_exact e sh0) <> sh_store (after_env_exact e' sh0) /\
  map (fun k => lookup k (sh_store (after_env_exact e sh0))) [KEY_A; KEY_B; HOME_K]
  = map (fun k => lookup k (sh_store (after_env_exact e' sh0))) [KEY_A; KEY_B; HOME_K].
Proof.
  cbv zeta. split; [apply perm_swap|].
  split; [repeat constructor; [intros [H|[]]; discriminate H|intros []]|].
  split; [vm_compute; discriminate|vm_compute; reflexivity].
Qed.

(** Names the shells reserve ARE plain identifiers: the pattern accepts them (open finding K-C18b;
    the mini-sh treats every name alike, so the theorems above say nothing about what a real
    shell does when one of THESE names is assigned). *)
Definition RESERVED_NAMES : list bytes :=
  [ [79;80;84;73;78;68];            (* OPTIND *)
    [82;65;78;68;79;77];            (* RANDOM *)
    [83;82;65;78;68;79;77];         (* SRANDOM *)
    [72;73;83;84;67;77;68];         (* HISTCMD *)
    [83;69;67;79;78;68;83];         (* SECONDS *)
    [76;73;78;69;78;79];            (* LINENO *)
    [85;73;68];                     (* UID *)
    [80;80;73;68];                  (* PPID *)
    [83;72;69;76;76;79;80;84;83];   (* SHELLOPTS *)
    [73;70;83];                     (* IFS *)
    [80;65;84;72] ].                (* PATH *)
Lemma reserved_names_accepted : forallb valid_key RESERVED_NAMES = true.
Proof. vm_compute. reflexivity. Qed.

Lemma dcmd_total_example :
  dcmd_script [(KEY_A, V_SUBST)] TAGA [112] [] = Err /\ dcmd_script [(KEY_A, V_SUBST)] TAGA [] [115] = Err /\
  (exists sc, dcmd_script [(KEY_A, V_SUBST)] TAGA [112] [115] = Ok sc) /\
  (exists sc, dcmd_script [(KEY_A, V_SUBST)] TAGA [] [] = Ok sc).
Proof. repeat split; try (vm_compute; reflexivity); eexists; vm_compute; reflexivity. Qed.
