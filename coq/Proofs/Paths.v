(** Proofs about Model/Paths.v: ReduceAbsPath yields canonical component lists, is the identity
    on canonical input, and the string concatenation done by child views composes as expected. *)
From GC Require Import Common.Base Model.Paths.

Lemma path_eqb_spec a b : path_eqb a b = true <-> a = b.
Proof.
  revert b; induction a as [|x a IH]; intros [|y b]; simpl; split; intro H;
    try reflexivity; try discriminate.
  - apply andb_true_iff in H as [H1 H2]. apply bytes_eqb_spec in H1. apply IH in H2. congruence.
  - inversion H; subst. rewrite bytes_eqb_refl. simpl. apply IH. reflexivity.
Qed.

Lemma path_eqb_refl a : path_eqb a a = true.
Proof. apply path_eqb_spec. reflexivity. Qed.

Lemma path_eqb_false a b : path_eqb a b = false <-> a <> b.
Proof.
  split.
  - intros H E. apply path_eqb_spec in E. congruence.
  - intros H. destruct (path_eqb a b) eqn:E; [|reflexivity]. apply path_eqb_spec in E. contradiction.
Qed.

Lemma path_eqb_sym a b : path_eqb a b = path_eqb b a.
Proof.
  destruct (path_eqb a b) eqn:E.
  - apply path_eqb_spec in E. subst. symmetry. apply path_eqb_refl.
  - symmetry. apply path_eqb_false. apply path_eqb_false in E. congruence.
Qed.

Lemma is_prefix_spec p q : is_prefix p q = true <-> exists s, q = p ++ s.
Proof.
  revert q; induction p as [|x p IH]; intros q; simpl.
  - split; [intros _; exists q; reflexivity|reflexivity].
  - destruct q as [|y q].
    + split; [discriminate|]. intros [s Hs]. discriminate.
    + split.
      * intros H. apply andb_true_iff in H as [H1 H2]. apply bytes_eqb_spec in H1.
        apply IH in H2 as [s Hs]. exists s. simpl. congruence.
      * intros [s Hs]. simpl in Hs. inversion Hs; subst. rewrite bytes_eqb_refl. simpl.
        apply IH. exists s. reflexivity.
Qed.

Lemma is_prefix_refl p : is_prefix p p = true.
Proof. apply is_prefix_spec. exists []. rewrite app_nil_r. reflexivity. Qed.

Lemma is_prefix_app p s : is_prefix p (p ++ s) = true.
Proof. apply is_prefix_spec. exists s. reflexivity. Qed.

Lemma is_prefix_trans a b c : is_prefix a b = true -> is_prefix b c = true -> is_prefix a c = true.
Proof.
  rewrite !is_prefix_spec. intros [s ->] [u ->]. exists (s ++ u). rewrite app_assoc. reflexivity.
Qed.

(** * split_slash *)

Lemma split_slash_app x y : split_slash (x ++ SLASH :: y) = split_slash x ++ split_slash y.
Proof.
  induction x as [|c x IH]; simpl.
  - reflexivity.
  - destruct (N.eqb c SLASH) eqn:E.
    + simpl. f_equal. exact IH.
    + rewrite IH. destruct (split_slash x) as [|h t] eqn:Ex.
      * exfalso. destruct x; simpl in Ex; [discriminate|].
        destruct (N.eqb b SLASH); [discriminate|]. destruct (split_slash x); discriminate.
      * reflexivity.
Qed.

Lemma split_slash_nonempty s : split_slash s <> [].
Proof.
  destruct s as [|c s]; simpl; [discriminate|].
  destruct (N.eqb c SLASH); [discriminate|]. destruct (split_slash s); discriminate.
Qed.

Lemma split_slash_no_slash s : forallb no_slash (split_slash s) = true.
Proof.
  induction s as [|c s IH]; simpl; [reflexivity|].
  destruct (N.eqb c SLASH) eqn:E; simpl; [exact IH|].
  destruct (split_slash s) as [|h t]; simpl in *; [rewrite E; reflexivity|].
  rewrite E. simpl. exact IH.
Qed.

Lemma split_slash_single n : no_slash n = true -> split_slash n = [n].
Proof.
  induction n as [|c n IH]; simpl; [reflexivity|].
  intros H. apply andb_true_iff in H as [Hc Hn]. apply negb_true_iff in Hc. rewrite Hc.
  rewrite (IH Hn). reflexivity.
Qed.

(** * reduce *)

Lemma good_name_facts n : good_name n = true ->
  is_empty n = false /\ no_slash n = true /\ is_dot n = false /\ is_dotdot n = false.
Proof.
  unfold good_name. intros H.
  apply andb_true_iff in H as [H H4]. apply andb_true_iff in H as [H H3].
  apply andb_true_iff in H as [H1 H2].
  apply negb_true_iff in H1, H3, H4. auto.
Qed.

(** Components that the reduction loop either drops (empty) or keeps (good names). *)
Definition harmless (v : bytes) : bool := is_empty v || good_name v.

Lemma reduce_comps_harmless l : forall acc,
  forallb harmless l = true ->
  reduce_comps acc l = Some (rev acc ++ filter (fun v => negb (is_empty v)) l).
Proof.
  induction l as [|v l IH]; intros acc H; simpl.
  - rewrite app_nil_r. reflexivity.
  - simpl in H. apply andb_true_iff in H as [Hv Hl]. unfold harmless in Hv.
    destruct (is_empty v) eqn:Ee; simpl.
    + apply IH. exact Hl.
    + simpl in Hv. destruct (good_name_facts _ Hv) as (_ & _ & Hd & Hdd).
      rewrite Hd, Hdd. rewrite IH by exact Hl. simpl. rewrite <- app_assoc. reflexivity.
Qed.

Lemma good_path_harmless p : good_path p = true -> forallb harmless p = true.
Proof.
  unfold good_path. rewrite !forallb_forall. intros H v Hv. unfold harmless.
  rewrite (H v Hv). apply orb_true_r.
Qed.

Lemma good_path_filter p : good_path p = true -> filter (fun v => negb (is_empty v)) p = p.
Proof.
  induction p as [|v p IH]; simpl; [reflexivity|].
  intros H. apply andb_true_iff in H as [Hv Hp].
  destruct (good_name_facts _ Hv) as (He & _). rewrite He. simpl. f_equal. apply IH. exact Hp.
Qed.

(** The result of a successful reduction is canonical. *)
Lemma reduce_comps_good l : forall acc p,
  forallb no_slash l = true -> forallb good_name acc = true ->
  reduce_comps acc l = Some p -> good_path p = true.
Proof.
  induction l as [|v l IH]; intros acc p Hns Hacc H; simpl in H.
  - inversion H; subst. unfold good_path. rewrite forallb_forall. intros x Hx.
    apply in_rev in Hx. rewrite forallb_forall in Hacc. auto.
  - simpl in Hns. apply andb_true_iff in Hns as [Hv Hl].
    destruct (is_empty v || is_dot v) eqn:E1; [eapply IH; eauto|].
    destruct (is_dotdot v) eqn:E2.
    + destruct acc as [|a acc]; [discriminate|].
      simpl in Hacc. apply andb_true_iff in Hacc as [_ Hacc]. eapply IH; eauto.
    + apply orb_false_iff in E1 as [Ee Ed].
      eapply IH; [exact Hl| |exact H]. simpl. rewrite Hacc.
      unfold good_name. rewrite Ee, Hv, Ed, E2. reflexivity.
Qed.

Theorem reduce_good s p : reduce s = Some p -> good_path p = true.
Proof.
  unfold reduce. apply reduce_comps_good; [apply split_slash_no_slash|reflexivity].
Qed.

Lemma split_join p : good_path p = true -> p <> [] -> split_slash (join p) = p.
Proof.
  induction p as [|a p IH]; intros Hg Hne; [congruence|].
  simpl in Hg. apply andb_true_iff in Hg as [Ha Hp].
  destruct (good_name_facts _ Ha) as (_ & Hns & _).
  destruct p as [|b p].
  - simpl. apply split_slash_single. exact Hns.
  - change (join (a :: b :: p)) with (a ++ SLASH :: join (b :: p)).
    rewrite split_slash_app. rewrite (split_slash_single _ Hns).
    rewrite IH by (auto; discriminate). reflexivity.
Qed.

Lemma split_join_harmless p : good_path p = true ->
  forallb harmless (split_slash (join p)) = true /\
  filter (fun v => negb (is_empty v)) (split_slash (join p)) = p.
Proof.
  intros Hg. destruct p as [|a p].
  - simpl. split; reflexivity.
  - rewrite split_join by (auto; discriminate). split.
    + apply good_path_harmless. exact Hg.
    + apply good_path_filter. exact Hg.
Qed.

(** Reduction is the identity on the join of a canonical path. *)
Theorem reduce_join p : good_path p = true -> reduce (join p) = Some p.
Proof.
  intros Hg. unfold reduce. destruct (split_join_harmless p Hg) as [H1 H2].
  rewrite reduce_comps_harmless by exact H1. simpl. rewrite H2. reflexivity.
Qed.

Theorem reduce_idempotent s p : reduce s = Some p -> reduce (join p) = Some p.
Proof. intros H. apply reduce_join. eapply reduce_good; eauto. Qed.

(** What a child view hands to its parent: base string ++ reduced argument. *)
Theorem reduce_wrap b r : good_path b = true -> good_path r = true ->
  reduce (join b ++ SLASH :: join r) = Some (b ++ r).
Proof.
  intros Hb Hr. unfold reduce. rewrite split_slash_app.
  destruct (split_join_harmless b Hb) as [B1 B2]. destruct (split_join_harmless r Hr) as [R1 R2].
  rewrite reduce_comps_harmless by (rewrite forallb_app, B1, R1; reflexivity).
  simpl. rewrite filter_app, B2, R2. reflexivity.
Qed.

(** A path climbs above the root exactly when [reduce] fails; reduction never yields "." or
    ".." or an empty component (so nothing outside the root can be addressed). *)
Corollary reduce_no_dotdot s p : reduce s = Some p -> ~ In [DOT; DOT] p /\ ~ In [DOT] p /\ ~ In [] p.
Proof.
  intros H. apply reduce_good in H. unfold good_path in H. rewrite forallb_forall in H.
  repeat split; intros Hin; apply H in Hin; discriminate.
Qed.
