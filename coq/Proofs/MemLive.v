(** Deadlock freedom and weak termination of Model/MemConc.v (interleaving model of memfs), for
    ALL thread programs, ALL schedules, current flavour.

    Part A: lock-holder invariant  (a held directory lock L / file data lock belongs to a thread
            whose program counter is inside the corresponding critical region, and conversely).
    Part B: the heap is a forest with private snapshots (rank function; unique parent; removed
            directories are unlinked), which bounds the depth of the deep copy by its fuel.
    Part C: no deadlock.      Part D: every reachable state can be driven to a final state. *)
From GC Require Import Common.Base Model.Paths Model.Fs Model.MemConc Proofs.Paths Proofs.Fs Proofs.MemConc.
From Coq Require Import Lia.
Open Scope nat_scope.

(** * Views of a heap list that treat a missing object like a neutral one *)
Definition view {A B} (g : A -> B) (z : B) (l : list A) (j : nat) : B :=
  match nth_error l j with Some o => g o | None => z end.

Lemma view_upd_keep {A B} (g : A -> B) z l i f j :
  (forall x, g (f x) = g x) -> view g z (list_upd l i f) j = view g z l j.
Proof.
  intros Hk. unfold view. destruct (Nat.eq_dec i j) as [->|Hn].
  - destruct (nth_error l j) as [x|] eqn:E.
    + rewrite (nth_list_upd_eq _ _ _ _ E). apply Hk.
    + assert (E' : nth_error (list_upd l j f) j = None).
      { apply nth_error_None. rewrite list_upd_length. apply nth_error_None. exact E. }
      rewrite E'. reflexivity.
  - rewrite nth_list_upd_neq; auto.
Qed.

Lemma view_upd_set {A B} (g : A -> B) z l i f j v :
  i < length l -> (forall x, g (f x) = v) ->
  view g z (list_upd l i f) j = if Nat.eqb i j then v else view g z l j.
Proof.
  intros Hi Hv. unfold view. destruct (Nat.eqb_spec i j) as [->|Hn].
  - destruct (nth_error l j) as [x|] eqn:E.
    + rewrite (nth_list_upd_eq _ _ _ _ E). apply Hv.
    + apply nth_error_None in E. lia.
  - rewrite nth_list_upd_neq; auto.
Qed.

Lemma view_app {A B} (g : A -> B) z l l' j :
  Forall (fun x => g x = z) l' -> view g z (l ++ l') j = view g z l j.
Proof.
  intros Hf. unfold view. destruct (Nat.lt_ge_cases j (length l)) as [Hl|Hl].
  - rewrite nth_error_app1; auto.
  - rewrite nth_error_app2; auto. rewrite (proj2 (nth_error_None l j) Hl).
    destruct (nth_error l' (j - length l)) as [x|] eqn:E; auto.
    rewrite Forall_forall in Hf. apply Hf. eapply nth_error_In; eauto.
Qed.

Definition Lof (s : shared) : nat -> option nat := view d_L None (dirs s).
Definition Hof (s : shared) : nat -> option nat := view f_holder None (files s).
Definition dch (s : shared) : nat -> list (name * ref) := view d_ch [] (dirs s).
Definition rm (s : shared) : nat -> bool := view d_removed false (dirs s).

Lemma Lof_get s d o : nth_error (dirs s) d = Some o -> Lof s d = d_L o.
Proof. unfold Lof, view. intros ->. reflexivity. Qed.
Lemma Hof_get s f o : nth_error (files s) f = Some o -> Hof s f = f_holder o.
Proof. unfold Hof, view. intros ->. reflexivity. Qed.
Lemma dch_get s d o : nth_error (dirs s) d = Some o -> dch s d = d_ch o.
Proof. unfold dch, view. intros ->. reflexivity. Qed.
Lemma rm_get s d o : nth_error (dirs s) d = Some o -> rm s d = d_removed o.
Proof. unfold rm, view. intros ->. reflexivity. Qed.

(** * The deep copy: what it appends
    [CP L nd]: the directories [nd] appended at index [L] are lock-free and unremoved, the
    directory children of the i-th lie in [L, L+i) (children are allocated before their parent),
    and no appended directory is referenced twice. *)
Lemma nth_app_inv {A} (a b : list A) i x :
  nth_error (a ++ b) i = Some x ->
  (i < length a /\ nth_error a i = Some x) \/ (length a <= i /\ nth_error b (i - length a) = Some x).
Proof.
  intros H. destruct (Nat.lt_ge_cases i (length a)) as [Hl|Hl].
  - left. rewrite nth_error_app1 in H; auto.
  - right. rewrite nth_error_app2 in H; auto.
Qed.

Lemma drefs_app a b : drefs (a ++ b) = drefs a ++ drefs b.
Proof. unfold drefs. apply flat_map_app. Qed.
Lemma drefs_In ch c : In c (drefs ch) <-> exists nm, In (nm, RDir c) ch.
Proof.
  unfold drefs. rewrite in_flat_map. split.
  - intros ([nm r] & Hin & Hc). destruct r as [c'|f]; simpl in Hc; [|contradiction].
    destruct Hc as [->|[]]. eauto.
  - intros (nm & Hin). exists (nm, RDir c). simpl. auto.
Qed.

Definition CP (L : nat) (nd : list dirobj) : Prop :=
  (forall i o, nth_error nd i = Some o ->
     d_L o = None /\ d_removed o = false /\ NoDup (drefs (d_ch o)) /\
     forall nm c, In (nm, RDir c) (d_ch o) -> L <= c < L + i) /\
  (forall i1 i2 o1 o2 n1 n2 c, nth_error nd i1 = Some o1 -> nth_error nd i2 = Some o2 ->
     In (n1, RDir c) (d_ch o1) -> In (n2, RDir c) (d_ch o2) -> i1 = i2).
Definition root_ok (L : nat) (nd : list dirobj) (r : ref) : Prop :=
  match r with RDir x => nd <> [] /\ x = L + length nd - 1 | RFile _ => nd = [] end.
Definition OUT (L : nat) (nd : list dirobj) (out : list (name * ref)) : Prop :=
  (forall nm x, In (nm, RDir x) out ->
     L <= x < L + length nd /\ forall i o n', nth_error nd i = Some o -> ~ In (n', RDir x) (d_ch o)) /\
  NoDup (drefs out).

Lemma CP_nil L : CP L [].
Proof. split; intros; destruct i + destruct i1; discriminate. Qed.

Lemma CP_app L a b : CP L a -> CP (L + length a) b -> CP L (a ++ b).
Proof.
  intros [A1 A2] [B1 B2]. split.
  - intros i o E. apply nth_app_inv in E as [[Hi E]|[Hi E]].
    + apply A1; auto.
    + destruct (B1 _ _ E) as (H1 & H2 & H3 & H4). repeat split; auto; apply H4 in H; lia.
  - intros i1 i2 o1 o2 n1 n2 c E1 E2 I1 I2.
    apply nth_app_inv in E1 as [[Hi1 E1]|[Hi1 E1]]; apply nth_app_inv in E2 as [[Hi2 E2]|[Hi2 E2]].
    + eapply A2; eauto.
    + destruct (A1 _ _ E1) as (_ & _ & _ & Ha). destruct (B1 _ _ E2) as (_ & _ & _ & Hb).
      apply Ha in I1. apply Hb in I2. lia.
    + destruct (A1 _ _ E2) as (_ & _ & _ & Ha). destruct (B1 _ _ E1) as (_ & _ & _ & Hb).
      apply Ha in I2. apply Hb in I1. lia.
    + pose proof (B2 _ _ _ _ _ _ _ E1 E2 I1 I2). lia.
Qed.

Lemma CP_snoc L a o :
  CP L a -> d_L o = None -> d_removed o = false -> NoDup (drefs (d_ch o)) ->
  (forall nm c, In (nm, RDir c) (d_ch o) -> L <= c < L + length a) ->
  (forall nm c, In (nm, RDir c) (d_ch o) -> forall i o' n', nth_error a i = Some o' -> ~ In (n', RDir c) (d_ch o')) ->
  CP L (a ++ [o]).
Proof.
  intros [A1 A2] HL Hr Hu Hc Hnp. split.
  - intros i o1 E. apply nth_app_inv in E as [[Hi E]|[Hi E]]; [apply A1; auto|].
    destruct (i - length a) as [|k] eqn:Ek; [|destruct k; discriminate]. inv E.
    repeat split; auto; apply Hc in H; lia.
  - intros i1 i2 o1 o2 n1 n2 c E1 E2 I1 I2.
    apply nth_app_inv in E1 as [[Hi1 E1]|[Hi1 E1]]; apply nth_app_inv in E2 as [[Hi2 E2]|[Hi2 E2]].
    + eapply A2; eauto.
    + destruct (i2 - length a) as [|k] eqn:Ek; [|destruct k; discriminate]. inv E2.
      exfalso. eapply Hnp; eauto.
    + destruct (i1 - length a) as [|k] eqn:Ek; [|destruct k; discriminate]. inv E1.
      exfalso. eapply Hnp; eauto.
    + destruct (i1 - length a) as [|k] eqn:Ek; [|destruct k; discriminate].
      destruct (i2 - length a) as [|k2] eqn:Ek2; [|destruct k2; discriminate]. lia.
Qed.

Arguments copy_ref : simpl nomatch.
Lemma copy_ref_post : forall n s r s' r', copy_ref n s r = Some (s', r') ->
  exists nd nf, dirs s' = dirs s ++ nd /\ files s' = files s ++ nf /\
    Forall (fun o => f_holder o = None) nf /\ CP (length (dirs s)) nd /\ root_ok (length (dirs s)) nd r'.
Proof.
  induction n as [|n IH]; intros s r s' r' H; [unfold copy_ref in H; discriminate|].
  unfold copy_ref in H; fold copy_ref in H. destruct r as [d|f].
  - destruct (nth_error (dirs s) d) as [o|] eqn:Eo; [|discriminate].
    fold (copy_step n) in H. set (L := length (dirs s)).
    assert (Hgen : forall l s0 out s1 ch1 nda nfa,
               dirs s0 = dirs s ++ nda -> files s0 = files s ++ nfa ->
               Forall (fun o => f_holder o = None) nfa -> CP L nda -> OUT L nda out ->
               fold_left (copy_step n) l (Some (s0, out)) = Some (s1, ch1) ->
               exists nd' nf', dirs s1 = dirs s ++ nd' /\ files s1 = files s ++ nf' /\
                 Forall (fun o => f_holder o = None) nf' /\ CP L nd' /\ OUT L nd' ch1).
    { induction l as [|e l IHl]; intros s0 out s1 ch1 nda nfa Ed Ef Hnf Hcp Hout Hf; simpl in Hf.
      - inv Hf. exists nda, nfa. auto.
      - destruct (copy_ref n s0 (snd e)) as [[s2 r2]|] eqn:Ec; [|rewrite copy_fold_None in Hf; discriminate].
        destruct (IH _ _ _ _ Ec) as (nd2 & nf2 & Ed2 & Ef2 & Hnf2 & Hcp2 & Hr2).
        assert (EL : length (dirs s0) = L + length nda) by (rewrite Ed, app_length; reflexivity).
        rewrite EL in Hcp2, Hr2.
        apply (IHl s2 (out ++ [(fst e, r2)]) s1 ch1 (nda ++ nd2) (nfa ++ nf2)); auto.
        + rewrite Ed2, Ed, app_assoc. reflexivity.
        + rewrite Ef2, Ef, app_assoc. reflexivity.
        + apply Forall_app; auto.
        + apply CP_app; auto.
        + destruct Hout as [O1 O2]. destruct Hcp as [A1 _]. destruct Hcp2 as [B1 _]. split.
          * intros nm x Hin. apply in_app_or in Hin as [Hin|[Hin|[]]].
            -- destruct (O1 _ _ Hin) as [Hx Hnp]. rewrite app_length. split; [lia|].
               intros i o' n' E Hc. apply nth_app_inv in E as [[Hi E]|[Hi E]].
               ++ eapply Hnp; eauto.
               ++ destruct (B1 _ _ E) as (_ & _ & _ & Hb). apply Hb in Hc. lia.
            -- inv Hin. simpl in Hr2. destruct Hr2 as [Hne ->]. rewrite app_length.
               assert (0 < length nd2) by (destruct nd2; [congruence|simpl; lia]).
               split; [lia|]. intros i o' n' E Hc. apply nth_app_inv in E as [[Hi E]|[Hi E]].
               ++ destruct (A1 _ _ E) as (_ & _ & _ & Ha). apply Ha in Hc. lia.
               ++ destruct (B1 _ _ E) as (_ & _ & _ & Hb). apply Hb in Hc.
                  assert (i - length nda < length nd2) by (apply nth_error_Some; congruence). lia.
          * rewrite drefs_app. destruct r2 as [x2|f2]; simpl; [|rewrite app_nil_r; exact O2].
            apply NoDup_app_snoc; auto. intros Hin. apply drefs_In in Hin as (nm & Hin).
            apply O1 in Hin as [Hx _]. simpl in Hr2. destruct Hr2 as [Hne Hx2].
            assert (0 < length nd2) by (destruct nd2; [congruence|simpl; lia]). lia. }
    destruct (fold_left (copy_step n) (d_ch o) (Some (s, []))) as [[s1 ch1]|] eqn:Ef; [|discriminate].
    apply (Hgen _ _ _ _ _ [] []) in Ef as (nd' & nf' & Ed & Efl & Hnf & Hcp & [O1 O2]);
      try (rewrite app_nil_r; reflexivity); auto using CP_nil.
    2: { split; [intros; contradiction|constructor]. }
    inv H. exists (nd' ++ [mkDir ch1 false None]), nf'. cbn [alloc_dir dirs files].
    rewrite Ed, Efl, <- app_assoc. split; [reflexivity|]. split; [reflexivity|]. split; [exact Hnf|]. split.
    + apply CP_snoc; auto; cbn.
      * intros nm c Hin. apply O1 in Hin as [Hin _]. exact Hin.
      * intros nm c Hin. apply O1 in Hin as [_ Hin]. exact Hin.
    + split; [destruct nd'; discriminate|]. rewrite !app_length. simpl. fold L. lia.
  - destruct (nth_error (files s) f) as [fo|] eqn:Efo; [|discriminate].
    destruct (f_holder fo) eqn:Eh; [discriminate|]. inv H.
    exists [], [mkFile (f_data fo) None]. cbn. rewrite app_nil_r.
    split; [reflexivity|]. split; [reflexivity|]. split; [auto|]. split; [apply CP_nil|reflexivity].
Qed.
Arguments copy_ref : simpl never.

Lemma CP_locks L nd : CP L nd -> Forall (fun o => d_L o = None) nd /\ Forall (fun o => d_removed o = false) nd.
Proof.
  intros [A1 _]. split; apply Forall_forall; intros o Hin; apply In_nth_error in Hin as [i E];
    destruct (A1 _ _ E) as (H1 & H2 & _ & _); auto.
Qed.

(** the deep copy does not touch any lock *)
Lemma copy_ref_locks n s r s' r' : copy_ref n s r = Some (s', r') ->
  (forall d, Lof s' d = Lof s d) /\ (forall f, Hof s' f = Hof s f).
Proof.
  intros H. apply copy_ref_post in H as (nd & nf & Ed & Ef & Hnf & Hcp & _).
  apply CP_locks in Hcp as [HL _]. unfold Lof, Hof. rewrite Ed, Ef.
  split; intros; apply view_app; auto.
Qed.

(** * Part A: who holds which lock *)
Definition pcL (p : pcs) : option nat :=
  match p with PInL _ d _ _ _ => Some d | PWriterAcq d _ _ => Some d | _ => None end.
Definition pcF (p : pcs) : option nat :=
  match p with PReaderClose f => Some f | PWriting f _ => Some f | _ => None end.
Definition nxL (n : next) : option nat := match n with NPc p => pcL p | NRet _ => None end.
Definition nxF (n : next) : option nat := match n with NPc p => pcF p | NRet _ => None end.

Definition upd_opt (o : option nat) (v : option nat) (g : nat -> option nat) (d : nat) : option nat :=
  match o with Some d' => if Nat.eqb d' d then v else g d | None => g d end.

Lemma Lof_upd_keep s d g d0 : (forall o, d_L (g o) = d_L o) -> Lof (upd_dir s d g) d0 = Lof s d0.
Proof. intros H. unfold Lof. simpl. apply view_upd_keep. exact H. Qed.
Lemma Lof_set_L s d h d0 : d < length (dirs s) ->
  Lof (upd_dir s d (set_L h)) d0 = if Nat.eqb d d0 then h else Lof s d0.
Proof. intros H. unfold Lof. simpl. apply view_upd_set; auto. Qed.
Lemma Lof_snoc s o fs d0 : d_L o = None -> Lof (mkSh (dirs s ++ [o]) fs) d0 = Lof s d0.
Proof. intros H. unfold Lof. simpl. apply view_app. auto. Qed.
Lemma Hof_upd_keep s f g f0 : (forall o, f_holder (g o) = f_holder o) -> Hof (upd_file s f g) f0 = Hof s f0.
Proof. intros H. unfold Hof. simpl. apply view_upd_keep. exact H. Qed.
Lemma Hof_set s f g h f0 : f < length (files s) -> (forall o, f_holder (g o) = h) ->
  Hof (upd_file s f g) f0 = if Nat.eqb f f0 then h else Hof s f0.
Proof. intros H Hg. unfold Hof. simpl. apply view_upd_set; auto. Qed.
Lemma Hof_snoc s o ds f0 : Hof (mkSh ds (files s ++ [o])) f0 = if Nat.eqb (length (files s)) f0 then f_holder o else Hof s f0.
Proof.
  unfold Hof, view. simpl. destruct (Nat.eqb_spec (length (files s)) f0) as [<-|Hn].
  - rewrite nth_error_app2, Nat.sub_diag by lia. reflexivity.
  - destruct (Nat.lt_ge_cases f0 (length (files s))).
    + rewrite nth_error_app1; auto.
    + rewrite nth_error_app2 by lia. destruct (f0 - length (files s)) as [|k] eqn:E; [lia|].
      simpl. rewrite (proj2 (nth_error_None (files s) f0)) by lia. destruct k; reflexivity.
Qed.

Lemma nth_lt {A} (l : list A) i x : nth_error l i = Some x -> i < length l.
Proof. intros H. apply nth_error_Some. congruence. Qed.

Lemma vL_set l i h j : i < length l ->
  view d_L None (list_upd l i (set_L h)) j = if Nat.eqb i j then h else view d_L None l j.
Proof. intros. apply view_upd_set; auto. Qed.
Lemma vH_set_holder l i h j : i < length l ->
  view f_holder None (list_upd l i (set_holder h)) j = if Nat.eqb i j then h else view f_holder None l j.
Proof. intros. apply view_upd_set; auto. Qed.
Lemma vH_const l i o j : i < length l ->
  view f_holder None (list_upd l i (fun _ => o)) j = if Nat.eqb i j then f_holder o else view f_holder None l j.
Proof. intros. apply view_upd_set; auto. Qed.
Lemma vH_snoc l o j :
  view f_holder None (l ++ [o]) j = if Nat.eqb (length l) j then f_holder o else view f_holder None l j.
Proof. apply (Hof_snoc (mkSh [] l) o []). Qed.

Ltac len :=
  rewrite ?list_upd_length, ?app_length;
  repeat match goal with H : nth_error _ _ = Some _ |- _ => apply nth_lt in H end;
  simpl; lia.
Ltac lk :=
  unfold Lof, Hof, release_L in *; cbn [dirs files upd_dir upd_file alloc_dir alloc_file fst snd];
  repeat first [ rewrite vL_set by len | rewrite vH_set_holder by len | rewrite vH_const by len
               | rewrite vH_snoc | rewrite view_upd_keep by (intros; reflexivity)
               | rewrite view_app by (repeat constructor) ].
Ltac eqbs :=
  repeat match goal with |- context [Nat.eqb ?a ?b] => destruct (Nat.eqb_spec a b); subst end.

Lemma nx_after_mk full d a : nxL (after_mk full d a) = None /\ nxF (after_mk full d a) = None.
Proof. destruct a; simpl; auto. Qed.
Lemma nx_goto_mk full c rest a : nxL (goto_mk full c rest a) = None /\ nxF (goto_mk full c rest a) = None.
Proof. destruct rest; simpl; auto using nx_after_mk. Qed.
Lemma nx_after_res r a : nxL (after_res r a) = None /\ nxF (after_res r a) = None.
Proof. destruct a, r; simpl; auto; destruct k; simpl; auto using nx_goto_mk. Qed.
Lemma nx_goto_res r rest a : nxL (goto_res r rest a) = None /\ nxF (goto_res r rest a) = None.
Proof. destruct rest; simpl; auto using nx_after_res. Qed.
Lemma nx_start o : nxL (start o) = None /\ nxF (start o) = None.
Proof.
  destruct o; simpl; repeat match goal with |- context [match ?x with _ => _ end] => destruct x end;
    simpl; auto using nx_goto_mk, nx_goto_res, nx_after_res.
Qed.
Ltac nx_rw :=
  rewrite ?(proj1 (nx_after_mk _ _ _)), ?(proj2 (nx_after_mk _ _ _)),
          ?(proj1 (nx_goto_mk _ _ _ _)), ?(proj2 (nx_goto_mk _ _ _ _)),
          ?(proj1 (nx_after_res _ _)), ?(proj2 (nx_after_res _ _)),
          ?(proj1 (nx_goto_res _ _ _)), ?(proj2 (nx_goto_res _ _ _)).

Lemma step_pc_locks ar t s p s' n :
  SP3 s -> pc_refs s p ->
  (forall d, pcL p = Some d -> Lof s d = Some t) ->
  (forall f, pcF p = Some f -> Hof s f = Some t) ->
  step_pc ar t s p = Some (s', n) ->
  (forall d, Lof s' d = upd_opt (nxL n) (Some t) (upd_opt (pcL p) None (Lof s)) d) /\
  (forall f, Hof s' f = upd_opt (nxF n) (Some t) (upd_opt (pcF p) None (Hof s)) f) /\
  (forall d, nxL n = Some d -> Lof s d = None \/ Lof s d = Some t) /\
  (forall f, nxF n = Some f -> Hof s f = None \/ Hof s f = Some t).
Proof.
  intros HS Hp HL HF H. pose proof HS as [H0 _].
  destruct p; simpl in H; try discriminate; simpl in Hp; unfold dok, fok in *.
  all: brk H; inv H.
  all: try (exfalso; repeat match goal with H : nth_error _ _ = None |- _ => apply nth_None_ge in H end;
            simpl in *; intuition lia).
  all: try pose proof (HL _ eq_refl) as HL1; try pose proof (HF _ eq_refl) as HF1; clear HL HF.
  all: unfold upd_opt.
  all: repeat match goal with |- _ /\ _ => split end; intros x.
  all: nx_rw; cbn [nxL nxF pcL pcF]; lk; eqbs; try reflexivity; try discriminate; try congruence; auto.
  all: try (intros E; inv E).
  all: try (unfold view; rewrite (proj2 (nth_error_None _ _)) by lia; reflexivity).
  all: try (unfold view;
            repeat match goal with H : nth_error ?l ?i = Some _ |- context [nth_error ?l ?i] => rewrite H end;
            auto; fail).
  all: try match goal with H : copy_ref _ _ _ = Some _ |- _ => apply copy_ref_locks in H as [Ha Hb] end.
  all: unfold Lof, Hof in *; auto.
  all: left; unfold view; rewrite (proj2 (nth_error_None _ _)) by lia; reflexivity.
Qed.

Definition owns (g : nat -> option nat) (pcX : pcs -> option nat) (ths : list local) : Prop :=
  forall d t, g d = Some t <-> exists l, nth_error ths t = Some l /\ pcX (pc l) = Some d.

Lemma owns_update g g' pcX ths t l l' :
  nth_error ths t = Some l -> owns g pcX ths ->
  (forall d, g' d = upd_opt (pcX (pc l')) (Some t) (upd_opt (pcX (pc l)) None g) d) ->
  (forall d, pcX (pc l') = Some d -> g d = None \/ g d = Some t) ->
  owns g' pcX (list_upd ths t (fun _ => l')).
Proof.
  intros El Ho Hg Hfree d t'. rewrite Hg. unfold upd_opt.
  assert (Hnth : forall l0, nth_error (list_upd ths t (fun _ => l')) t' = Some l0 <->
                            (t' = t /\ l0 = l') \/ (t' <> t /\ nth_error ths t' = Some l0)).
  { intros l0. destruct (Nat.eq_dec t t') as [<-|Hn].
    - rewrite (nth_list_upd_eq _ _ _ _ El). split; [intros E; inv E; auto|intros [[_ ->]|[Hx _]]; congruence].
    - rewrite nth_list_upd_neq by auto. split; [auto|intros [[Hx _]|[_ Hx]]; congruence]. }
  assert (Hold : forall d0, g d0 = Some t <-> pcX (pc l) = Some d0).
  { intros d0. rewrite (Ho d0 t). split; [intros (l0 & E & Hp); congruence|eauto]. }
  split.
  - intros Hv.
    destruct (pcX (pc l')) as [d1|] eqn:E1.
    + destruct (Nat.eqb_spec d1 d) as [->|Hn1].
      * inv Hv. exists l'. split; [apply Hnth; auto|auto].
      * destruct (pcX (pc l)) as [d0|] eqn:E0.
        -- destruct (Nat.eqb_spec d0 d) as [->|Hn0]; [discriminate|].
           destruct (Nat.eq_dec t' t) as [->|Hnt]; [apply Hold in Hv; congruence|].
           apply Ho in Hv as (l0 & E & Hp). exists l0. split; auto. apply Hnth; auto.
        -- destruct (Nat.eq_dec t' t) as [->|Hnt]; [apply Hold in Hv; congruence|].
           apply Ho in Hv as (l0 & E & Hp). exists l0. split; auto. apply Hnth; auto.
    + destruct (pcX (pc l)) as [d0|] eqn:E0.
      * destruct (Nat.eqb_spec d0 d) as [->|Hn0]; [discriminate|].
        destruct (Nat.eq_dec t' t) as [->|Hnt]; [apply Hold in Hv; congruence|].
        apply Ho in Hv as (l0 & E & Hp). exists l0. split; auto. apply Hnth; auto.
      * destruct (Nat.eq_dec t' t) as [->|Hnt]; [apply Hold in Hv; congruence|].
        apply Ho in Hv as (l0 & E & Hp). exists l0. split; auto. apply Hnth; auto.
  - intros (l0 & E & Hp). apply Hnth in E as [[-> ->]|[Hnt E]].
    + rewrite Hp. rewrite Nat.eqb_refl. reflexivity.
    + assert (Hv : g d = Some t') by (apply Ho; eauto).
      destruct (pcX (pc l')) as [d1|] eqn:E1.
      * destruct (Nat.eqb_spec d1 d) as [->|Hn1].
        -- destruct (Hfree _ eq_refl); congruence.
        -- destruct (pcX (pc l)) as [d0|] eqn:E0; auto.
           destruct (Nat.eqb_spec d0 d) as [->|Hn0]; auto.
           assert (g d = Some t) by (apply Hold; auto). congruence.
      * destruct (pcX (pc l)) as [d0|] eqn:E0; auto.
        destruct (Nat.eqb_spec d0 d) as [->|Hn0]; auto.
        assert (g d = Some t) by (apply Hold; auto). congruence.
Qed.

Definition LH (st : state) : Prop :=
  owns (Lof (sh st)) pcL (ths st) /\ owns (Hof (sh st)) pcF (ths st).

Lemma pc_apply_next l n : pc (apply_next l n) = match n with NPc p => p | NRet _ => PIdle end.
Proof. destruct n; simpl; auto. unfold finish. destruct (prog l); reflexivity. Qed.
Lemma pcL_apply_next l n : pcL (pc (apply_next l n)) = nxL n.
Proof. rewrite pc_apply_next. destruct n; reflexivity. Qed.
Lemma pcF_apply_next l n : pcF (pc (apply_next l n)) = nxF n.
Proof. rewrite pc_apply_next. destruct n; reflexivity. Qed.

Lemma step_local_inv ar t s l s' l' : step_local ar t s l = Some (s', l') ->
  (pc l = PIdle /\ exists o rest, prog l = o :: rest /\ s' = s /\ l' = apply_next l (start o)) \/
  (pc l <> PIdle /\ exists n, step_pc ar t s (pc l) = Some (s', n) /\ l' = apply_next l n).
Proof.
  unfold step_local. intros H. destruct (pc l) eqn:Ep.
  1: { left. destruct (prog l) as [|o rest]; [discriminate|]. inv H. eauto 6. }
  all: right; split; [discriminate|];
    match type of H with context [step_pc ?a ?b ?c ?p] =>
      destruct (step_pc a b c p) as [[s1 n]|] eqn:Esp; [|discriminate]; inv H; eauto end.
Qed.

Lemma step_inv ar t st st' : step ar t st = Some st' ->
  exists l s' l', nth_error (ths st) t = Some l /\ step_local ar t (sh st) l = Some (s', l') /\
                  st' = mkSt s' (list_upd (ths st) t (fun _ => l')).
Proof.
  unfold step. intros H. destruct (nth_error (ths st) t) as [l|] eqn:El; [|discriminate].
  destruct (step_local ar t (sh st) l) as [[s' l']|] eqn:Es; [|discriminate]. inv H. eauto 6.
Qed.

Lemma LH_step ar t st st' : I3 st -> LH st -> step ar t st = Some st' -> LH st'.
Proof.
  intros [HS HLoc] [HL HF] Hst. apply step_inv in Hst as (l & s' & l' & El & Es & ->).
  pose proof (HLoc _ _ El) as Hrefs. unfold LP3 in Hrefs.
  assert (Hgen : exists n, l' = apply_next l n /\
    (forall d, Lof s' d = upd_opt (nxL n) (Some t) (upd_opt (pcL (pc l)) None (Lof (sh st))) d) /\
    (forall f, Hof s' f = upd_opt (nxF n) (Some t) (upd_opt (pcF (pc l)) None (Hof (sh st))) f) /\
    (forall d, nxL n = Some d -> Lof (sh st) d = None \/ Lof (sh st) d = Some t) /\
    (forall f, nxF n = Some f -> Hof (sh st) f = None \/ Hof (sh st) f = Some t)).
  { apply step_local_inv in Es as [(Ep & o & rest & Eo & -> & ->)|(Ep & n & Esp & ->)].
    - exists (start o). destruct (nx_start o) as [-> ->]. rewrite Ep. simpl.
      repeat split; auto; intros; discriminate.
    - exists n. split; [reflexivity|]. apply (step_pc_locks _ _ _ _ _ _ HS Hrefs) in Esp; auto.
      + intros x Hx. apply HL. eauto.
      + intros x Hx. apply HF. eauto. }
  destruct Hgen as (n & -> & G1 & G2 & G3 & G4). split; simpl.
  - eapply owns_update; eauto; rewrite pcL_apply_next; auto.
  - eapply owns_update; eauto; rewrite pcF_apply_next; auto.
Qed.

Lemma LH_boot s progs : good_shared s = true -> LH (boot s progs).
Proof.
  intros Hg. unfold good_shared in Hg. repeat (apply andb_true_iff in Hg as [Hg ?]).
  rewrite forallb_forall in H, H0.
  split; intros d t; simpl; split.
  - unfold Lof, view. destruct (nth_error (dirs s) d) as [o|] eqn:E; [|intros X; discriminate X].
    apply nth_error_In in E. apply H0 in E. destruct (d_L o); [discriminate E|intros X; discriminate X].
  - intros (l & E & Hp). apply (boot_nth s) in E as (p & _ & ->). discriminate Hp.
  - unfold Hof, view. destruct (nth_error (files s) d) as [o|] eqn:E; [|intros X; discriminate X].
    apply nth_error_In in E. apply H in E. destruct (f_holder o); [discriminate E|intros X; discriminate X].
  - intros (l & E & Hp). apply (boot_nth s) in E as (p & _ & ->). discriminate Hp.
Qed.

Lemma I3_boot s progs : good_shared s = true -> I3 (boot s progs).
Proof.
  intros Hs. split; [apply good_shared_SP3; auto|].
  intros t' l' E'. apply boot_nth in E' as (p & _ & ->). exact I.
Qed.

(** * Part B: the heap is a forest; snapshots are private until attached
    [rk]: a rank that decreases along every directory edge (acyclicity).  [pv x = Some t]: the
    directory object x belongs to a snapshot that thread t has taken and not yet attached;
    [pv x = None]: x is public.  Edges stay inside one class. *)
Definition pub (pv : nat -> option nat) (r : ref) : Prop :=
  match r with RDir x => pv x = None | RFile _ => True end.
Definition noparent (s : shared) (x : nat) : Prop := forall d nm, ~ In (nm, RDir x) (dch s d).
Definition mine (s : shared) (pv : nat -> option nat) (t : nat) (r : ref) : Prop :=
  match r with RDir x => pv x = Some t /\ noparent s x /\ rm s x = false | RFile _ => True end.
Definition amk_pv (s : shared) pv (t : nat) (a : amk) : Prop :=
  match a with MSnap r _ => pub pv r | MAdd r _ => mine s pv t r | _ => True end.
Definition pc_pv (s : shared) pv (t : nat) (p : pcs) : Prop :=
  match p with
  | PRes cur _ _ => pub pv cur
  | PRemGap d _ _ => pv d = None
  | PMk _ cur _ _ a => pv cur = None /\ amk_pv s pv t a
  | PSnap _ d src _ => pv d = None /\ pub pv src
  | PAdd _ d snap _ => pv d = None /\ mine s pv t snap
  | _ => True
  end.
Definition next_pv (s : shared) pv (t : nat) (n : next) : Prop :=
  match n with NPc p => pc_pv s pv t p | NRet _ => True end.

Record forest (s : shared) (rk : nat -> nat) (pv : nat -> option nat) : Prop := mkForest {
  f_edge : forall d nm c, In (nm, RDir c) (dch s d) -> rk c < rk d /\ pv c = pv d;
  f_root : pv ROOT = None;
  f_nodup : forall d, NoDup (drefs (dch s d));
  f_uniq : forall d1 n1 d2 n2 c, In (n1, RDir c) (dch s d1) -> In (n2, RDir c) (dch s d2) -> d1 = d2;
  f_noroot : forall d nm, ~ In (nm, RDir ROOT) (dch s d);
  f_rm : forall d nm c, In (nm, RDir c) (dch s d) -> rm s c = false;
  f_rmroot : rm s ROOT = false }.

Lemma forest_shrink s s' rk pv :
  (forall d n c, In (n, RDir c) (dch s' d) -> In (n, RDir c) (dch s d)) ->
  (forall d, NoDup (drefs (dch s d)) -> NoDup (drefs (dch s' d))) ->
  (forall x, rm s' x = true -> rm s x = true \/
             ((exists d n, In (n, RDir x) (dch s d)) /\ forall d n, ~ In (n, RDir x) (dch s' d))) ->
  forest s rk pv -> forest s' rk pv /\ forall t p, pc_pv s pv t p -> pc_pv s' pv t p.
Proof.
  intros Hsub Hnd Hrm F. split.
  - constructor.
    + intros d nm c Hin. eapply f_edge; eauto.
    + eapply f_root; eauto.
    + intros d. apply Hnd. eapply f_nodup; eauto.
    + intros d1 n1 d2 n2 c H1 H2. eapply (f_uniq _ _ _ F); eauto.
    + intros d nm Hin. eapply f_noroot; eauto.
    + intros d nm c Hin. destruct (rm s' c) eqn:E; auto. apply Hrm in E as [E|[_ E]].
      * rewrite (f_rm _ _ _ F _ _ _ (Hsub _ _ _ Hin)) in E. discriminate.
      * exfalso. eapply E; eauto.
    + destruct (rm s' ROOT) eqn:E; auto. apply Hrm in E as [E|[(d & n & E) _]].
      * rewrite (f_rmroot _ _ _ F) in E. discriminate.
      * exfalso. eapply f_noroot; eauto.
  - assert (Hm : forall t r, mine s pv t r -> mine s' pv t r).
    { intros t [x|f]; simpl; auto. intros (H1 & H2 & H3). split; auto. split.
      - intros d nm Hin. eapply H2; eauto.
      - destruct (rm s' x) eqn:E; auto. apply Hrm in E as [E|[(d & n & E) _]]; [congruence|].
        exfalso. eapply H2; eauto. }
    intros t p. destruct p; simpl; auto.
    + intros [H1 H2]. split; auto. destruct a; simpl in *; auto.
    + intros [H1 H2]. split; auto.
Qed.

Lemma forest_same s s' rk pv :
  (forall d, dch s' d = dch s d) -> (forall d, rm s' d = rm s d) ->
  forest s rk pv -> forest s' rk pv /\ forall t p, pc_pv s pv t p -> pc_pv s' pv t p.
Proof.
  intros Hd Hr. apply forest_shrink.
  - intros d n c. rewrite Hd. auto.
  - intros d. rewrite Hd. auto.
  - intros x. rewrite Hr. auto.
Qed.

Lemma forest_addfile s s' rk pv d nm f :
  (forall d0, dch s' d0 = if Nat.eqb d d0 then dch s d ++ [(nm, RFile f)] else dch s d0) ->
  (forall d0, rm s' d0 = rm s d0) ->
  forest s rk pv -> forest s' rk pv /\ forall t p, pc_pv s pv t p -> pc_pv s' pv t p.
Proof.
  intros Hd Hr. apply forest_shrink.
  - intros d0 n c. rewrite Hd. destruct (Nat.eqb_spec d d0) as [->|]; auto.
    intros Hin. apply in_app_or in Hin as [Hin|[Hin|[]]]; [auto|discriminate].
  - intros d0. rewrite Hd. destruct (Nat.eqb_spec d d0) as [->|]; auto.
    rewrite drefs_app. simpl. rewrite app_nil_r. auto.
  - intros x. rewrite Hr. auto.
Qed.

(** unlinking the first entry of a name *)
Lemma drefs_cons e l : drefs (e :: l) = match snd e with RDir c => [c] | RFile _ => [] end ++ drefs l.
Proof. reflexivity. Qed.
Lemma unlink_drefs ch nm :
  match lookup_ch ch nm with
  | Some (RDir c) => exists a b, drefs ch = a ++ c :: b /\ drefs (unlink_ch ch nm) = a ++ b
  | _ => drefs (unlink_ch ch nm) = drefs ch
  end.
Proof.
  induction ch as [|e ch IH]; [reflexivity|]. rewrite lookup_ch_cons. cbn [unlink_ch].
  destruct (bytes_eqb (fst e) nm) eqn:E.
  - rewrite drefs_cons. destruct (snd e) as [c|f]; simpl; auto. exists [], (drefs ch). auto.
  - rewrite !drefs_cons. destruct (lookup_ch ch nm) as [[c|f]|].
    + destruct IH as (a & b & E1 & E2). rewrite E1, E2.
      exists (match snd e with RDir c0 => [c0] | RFile _ => [] end ++ a), b.
      rewrite <- !app_assoc. auto.
    + rewrite IH. reflexivity.
    + rewrite IH. reflexivity.
Qed.

Lemma NoDup_remove_mid {A} (a b : list A) x : NoDup (a ++ x :: b) -> NoDup (a ++ b) /\ ~ In x (a ++ b).
Proof. apply NoDup_remove. Qed.

Lemma forest_unlink s s' rk pv d nm r :
  lookup_ch (dch s d) nm = Some r ->
  (forall d0, dch s' d0 = if Nat.eqb d d0 then unlink_ch (dch s d) nm else dch s d0) ->
  (forall x, rm s' x = true -> rm s x = true \/ r = RDir x) ->
  forest s rk pv -> forest s' rk pv /\ forall t p, pc_pv s pv t p -> pc_pv s' pv t p.
Proof.
  intros Hl Hd Hr F. apply forest_shrink; auto.
  - intros d0 n c. rewrite Hd. destruct (Nat.eqb_spec d d0) as [->|]; auto. apply unlink_incl.
  - intros d0. rewrite Hd. destruct (Nat.eqb_spec d d0) as [->|]; auto.
    pose proof (unlink_drefs (dch s d0) nm) as Hu. rewrite Hl in Hu. destruct r as [c|f].
    + destruct Hu as (a & b & E1 & E2). rewrite E1, E2. intros Hn. apply NoDup_remove in Hn. tauto.
    + rewrite Hu. auto.
  - intros x Hx. apply Hr in Hx as [Hx | ->]; auto. right. split.
    + exists d, nm. apply lookup_ch_In. exact Hl.
    + intros d0 n Hin. rewrite Hd in Hin. destruct (Nat.eqb_spec d d0) as [<-|Hn].
      * pose proof (unlink_drefs (dch s d) nm) as Hu. rewrite Hl in Hu.
        destruct Hu as (a & b & E1 & E2). pose proof (f_nodup _ _ _ F d) as Hnd.
        rewrite E1 in Hnd. apply NoDup_remove in Hnd as [_ Hnd]. apply Hnd. rewrite <- E2.
        apply drefs_In. eauto.
      * apply lookup_ch_In in Hl. pose proof (f_uniq _ _ _ F _ _ _ _ _ Hl Hin). congruence.
Qed.

Lemma view_app_split {A B} (g : A -> B) z l l' j :
  view g z (l ++ l') j = if Nat.ltb j (length l) then view g z l j else view g z l' (j - length l).
Proof.
  unfold view. destruct (Nat.ltb_spec j (length l)).
  - rewrite nth_error_app1; auto.
  - rewrite nth_error_app2; auto.
Qed.

(** pc_pv only looks at the directory references of a program counter *)
Lemma pc_pv_frame s s' pv pv' t p :
  (forall x, rin s (RDir x) -> pv' x = pv x) ->
  (forall x, rin s (RDir x) -> mine s pv t (RDir x) -> mine s' pv' t (RDir x)) ->
  pc_refs s p -> pc_pv s pv t p -> pc_pv s' pv' t p.
Proof.
  intros Hpv Hm Hr. 
  assert (Hpub : forall r, rin s r -> pub pv r -> pub pv' r).
  { intros [x|f]; simpl; auto. intros Hx Hp. rewrite (Hpv x); auto. }
  assert (Hmine : forall r, rin s r -> mine s pv t r -> mine s' pv' t r).
  { intros [x|f]; auto. }
  destruct p; simpl in *; unfold dok in *; auto.
  - intros H1. rewrite Hpv; auto.
  - intros [H1 H2]. destruct Hr as [Hr1 Hr2]. split; [rewrite Hpv; auto|].
    destruct a; simpl in *; auto.
  - intros [H1 H2]. destruct Hr as [Hr1 Hr2]. split; [rewrite Hpv; auto|auto].
  - intros [H1 H2]. destruct Hr as [Hr1 Hr2]. split; [rewrite Hpv; auto|auto].
Qed.

Lemma forest_mkdir s s' rk pv cur nm c :
  c = length (dirs s) -> cur < c -> 0 < c ->
  (forall d n x, In (n, RDir x) (dch s d) -> x < c) ->
  pv cur = None ->
  (forall d0, dch s' d0 = if Nat.eqb cur d0 then dch s cur ++ [(nm, RDir c)] else dch s d0) ->
  (forall d0, rm s' d0 = rm s d0) ->
  forest s rk pv ->
  exists rk' pv', forest s' rk' pv' /\ pv' c = None /\ (forall x, x < c -> pv' x = pv x) /\
    forall t p, pc_refs s p -> pc_pv s pv t p -> pc_pv s' pv' t p.
Proof.
  intros Ec Hcur H0 Hold Hpc Hd Hr F.
  assert (Hempty : dch s c = []).
  { unfold dch, view. rewrite (proj2 (nth_error_None _ _)); [reflexivity|lia]. }
  assert (Hrmc : rm s c = false).
  { unfold rm, view. rewrite (proj2 (nth_error_None _ _)); [reflexivity|lia]. }
  assert (Hfresh : forall d n, ~ In (n, RDir c) (dch s d)) by (intros d n Hin; apply Hold in Hin; lia).
  set (rk' := fun x => if Nat.eqb x c then 0 else S (rk x)).
  set (pv' := fun x => if Nat.eqb x c then None else pv x).
  assert (Hedge : forall d0 n x, In (n, RDir x) (dch s' d0) ->
             (In (n, RDir x) (dch s d0) /\ x <> c /\ d0 <> c) \/ (d0 = cur /\ x = c /\ n = nm)).
  { intros d0 n x. rewrite Hd. destruct (Nat.eqb_spec cur d0) as [<-|Hn].
    - intros Hin. apply in_app_or in Hin as [Hin|[Hin|[]]].
      + left. split; auto. split; [apply Hold in Hin|]; lia.
      + inv Hin. auto.
    - intros Hin. left. split; auto. split; [apply Hold in Hin; lia|].
      intros ->. rewrite Hempty in Hin. destruct Hin. }
  exists rk', pv'. split; [|split; [|split]].
  - constructor.
    + intros d0 n x Hin. apply Hedge in Hin as [(Hin & Hx & Hd0)|(-> & -> & ->)]; unfold rk', pv'.
      * destruct (f_edge _ _ _ F _ _ _ Hin). destruct (Nat.eqb_spec x c); [lia|]. destruct (Nat.eqb_spec d0 c); [lia|].
        split; [lia|auto].
      * rewrite Nat.eqb_refl. destruct (Nat.eqb_spec cur c); [lia|]. split; [lia|auto].
    + unfold pv'. destruct (Nat.eqb_spec ROOT c); [unfold ROOT in *; lia|]. eapply f_root; eauto.
    + intros d0. rewrite Hd. destruct (Nat.eqb_spec cur d0) as [<-|Hn]; [|eapply f_nodup; eauto].
      rewrite drefs_app. simpl. apply NoDup_app_snoc; [eapply f_nodup; eauto|].
      intros Hin. apply drefs_In in Hin as (n & Hin). eapply Hfresh; eauto.
    + intros d1 n1 d2 n2 x H1 H2.
      apply Hedge in H1 as [(H1 & Hx1 & _)|(-> & -> & ->)]; apply Hedge in H2 as [(H2 & Hx2 & _)|(-> & Hx2 & ->)]; try congruence.
      eapply (f_uniq _ _ _ F); eauto.
    + intros d0 n Hin. apply Hedge in Hin as [(Hin & _)|(_ & Hx & _)].
      * eapply f_noroot; eauto.
      * unfold ROOT in *. lia.
    + intros d0 n x Hin. rewrite Hr. apply Hedge in Hin as [(Hin & _)|(_ & -> & _)]; auto.
      eapply f_rm; eauto.
    + rewrite Hr. eapply f_rmroot; eauto.
  - unfold pv'. rewrite Nat.eqb_refl. reflexivity.
  - intros x Hx. unfold pv'. destruct (Nat.eqb_spec x c); [lia|reflexivity].
  - intros t p. apply pc_pv_frame.
    + intros x Hx. simpl in Hx. unfold pv'. destruct (Nat.eqb_spec x c); [lia|reflexivity].
    + intros x Hx (H1 & H2 & H3). simpl in Hx. split; [|split].
      * unfold pv'. destruct (Nat.eqb_spec x c); [lia|auto].
      * intros d0 n Hin. apply Hedge in Hin as [(Hin & _)|(_ & Hxc & _)]; [eapply H2; eauto|lia].
      * rewrite Hr. auto.
Qed.

Definition is_t (o : option nat) (t : nat) : bool :=
  match o with Some t' => Nat.eqb t' t | None => false end.
Lemma is_t_spec o t : is_t o t = true <-> o = Some t.
Proof.
  destruct o as [t'|]; simpl; [|split; discriminate].
  rewrite Nat.eqb_eq. split; congruence.
Qed.

Lemma forest_attach s s' rk pv t d nm x :
  pv d = None -> mine s pv t (RDir x) ->
  (forall d0, dch s' d0 = if Nat.eqb d d0 then dch s d ++ [(nm, RDir x)] else dch s d0) ->
  (forall d0, rm s' d0 = rm s d0) ->
  forest s rk pv ->
  exists rk' pv', forest s' rk' pv' /\
    forall t' p, t' <> t -> pc_pv s pv t' p -> pc_pv s' pv' t' p.
Proof.
  intros Hpd (Hpx & Hnp & Hrx) Hd Hr F.
  set (rk' := fun y => if is_t (pv y) t then rk y else rk y + S (rk x)).
  set (pv' := fun y => if is_t (pv y) t then None else pv y).
  assert (Hedge : forall d0 n y, In (n, RDir y) (dch s' d0) ->
             In (n, RDir y) (dch s d0) \/ (d0 = d /\ y = x)).
  { intros d0 n y. rewrite Hd. destruct (Nat.eqb_spec d d0) as [<-|Hn]; auto.
    intros Hin. apply in_app_or in Hin as [Hin|[Hin|[]]]; auto. inv Hin. auto. }
  assert (Htx : is_t (pv x) t = true) by (apply is_t_spec; auto).
  assert (Htd : is_t (pv d) t = false) by (rewrite Hpd; reflexivity).
  exists rk', pv'. split.
  - constructor.
    + intros d0 n y Hin. apply Hedge in Hin as [Hin|[-> ->]]; unfold rk', pv'.
      * destruct (f_edge _ _ _ F _ _ _ Hin) as [H1 H2]. rewrite H2.
        destruct (is_t (pv d0) t); split; auto; lia.
      * rewrite Htx, Htd. split; [lia|auto].
    + unfold pv'. rewrite (f_root _ _ _ F). reflexivity.
    + intros d0. rewrite Hd. destruct (Nat.eqb_spec d d0) as [<-|Hn]; [|eapply f_nodup; eauto].
      rewrite drefs_app. simpl. apply NoDup_app_snoc; [eapply f_nodup; eauto|].
      intros Hin. apply drefs_In in Hin as (n & Hin). eapply Hnp; eauto.
    + intros d1 n1 d2 n2 y H1 H2.
      apply Hedge in H1 as [H1|[-> ->]]; apply Hedge in H2 as [H2|[-> Hy]]; subst; auto.
      * eapply (f_uniq _ _ _ F); eauto.
      * exfalso. eapply Hnp; eauto.
      * exfalso. eapply Hnp; eauto.
    + intros d0 n Hin. apply Hedge in Hin as [Hin|[_ Hy]].
      * eapply f_noroot; eauto.
      * subst x. rewrite (f_root _ _ _ F) in Hpx. discriminate.
    + intros d0 n y Hin. rewrite Hr. apply Hedge in Hin as [Hin|[_ ->]]; auto. eapply f_rm; eauto.
    + rewrite Hr. eapply f_rmroot; eauto.
  - intros t' p Hne.
    assert (Hpub : forall r, pub pv r -> pub pv' r).
    { intros [y|f]; simpl; auto. unfold pv'. intros ->. reflexivity. }
    assert (Hkeep : forall y, pv y = None -> pv' y = None) by (intros y Hy; unfold pv'; rewrite Hy; reflexivity).
    assert (Hmine : forall r, mine s pv t' r -> mine s' pv' t' r).
    { intros [y|f]; simpl; auto. intros (H1 & H2 & H3). split; [|split].
      - unfold pv'. rewrite H1. simpl. destruct (Nat.eqb_spec t' t); [contradiction|reflexivity].
      - intros d0 n Hin. apply Hedge in Hin as [Hin|[_ Hy]]; [eapply H2; eauto|]. subst y. congruence.
      - rewrite Hr. exact H3. }
    destruct p; simpl; auto.
    + intros [H1 H2]. split; auto. destruct a; simpl in *; auto.
    + intros [H1 H2]. auto.
    + intros [H1 H2]. auto.
Qed.

Lemma forest_copy s s' rk pv t nd :
  dirs s' = dirs s ++ nd -> CP (length (dirs s)) nd -> 0 < length (dirs s) ->
  (forall d n x, In (n, RDir x) (dch s d) -> x < length (dirs s)) ->
  forest s rk pv ->
  exists rk' pv', forest s' rk' pv' /\
    (forall x, x < length (dirs s) -> pv' x = pv x) /\
    (forall r, root_ok (length (dirs s)) nd r -> mine s' pv' t r) /\
    forall t' p, pc_refs s p -> pc_pv s pv t' p -> pc_pv s' pv' t' p.
Proof.
  intros Ed [C1 C2] H0 Hold F. set (L := length (dirs s)) in *.
  set (rk' := fun y => if Nat.ltb y L then rk y else y).
  set (pv' := fun y => if Nat.ltb y L then pv y else Some t).
  assert (Hdch : forall d0, dch s' d0 = if Nat.ltb d0 L then dch s d0 else view d_ch [] nd (d0 - L)).
  { intros d0. unfold dch. rewrite Ed. apply view_app_split. }
  assert (Hrm : forall d0, rm s' d0 = if Nat.ltb d0 L then rm s d0 else false).
  { intros d0. unfold rm. rewrite Ed, view_app_split. fold L. destruct (Nat.ltb d0 L); auto.
    unfold view. destruct (nth_error nd (d0 - L)) as [o|] eqn:E; auto. apply C1 in E. tauto. }
  assert (Hedge : forall d0 n y, In (n, RDir y) (dch s' d0) ->
            (d0 < L /\ y < L /\ In (n, RDir y) (dch s d0)) \/
            (L <= d0 /\ L <= y < d0 /\ exists o, nth_error nd (d0 - L) = Some o /\ In (n, RDir y) (d_ch o))).
  { intros d0 n y. rewrite Hdch. destruct (Nat.ltb_spec d0 L).
    - intros Hin. left. split; auto. split; auto. eapply Hold; eauto.
    - unfold view. destruct (nth_error nd (d0 - L)) as [o|] eqn:E; [|intros []].
      intros Hin. right. split; auto. destruct (C1 _ _ E) as (_ & _ & _ & Hc). apply Hc in Hin as Hy.
      split; [lia|eauto]. }
  exists rk', pv'. split; [|split; [|split]].
  - constructor.
    + intros d0 n y Hin. unfold rk', pv'. apply Hedge in Hin as [(H1 & H2 & Hin)|(H1 & H2 & _)].
      * rewrite (proj2 (Nat.ltb_lt _ _) H1), (proj2 (Nat.ltb_lt _ _) H2). eapply f_edge; eauto.
      * rewrite (proj2 (Nat.ltb_ge d0 L)), (proj2 (Nat.ltb_ge y L)) by lia. split; [lia|auto].
    + unfold pv'. rewrite (proj2 (Nat.ltb_lt ROOT L)) by (unfold ROOT; lia). eapply f_root; eauto.
    + intros d0. rewrite Hdch. destruct (Nat.ltb_spec d0 L); [eapply f_nodup; eauto|].
      unfold view. destruct (nth_error nd (d0 - L)) as [o|] eqn:E; [|constructor]. apply C1 in E. tauto.
    + intros d1 n1 d2 n2 y H1 H2.
      apply Hedge in H1 as [(A1 & A2 & A3)|(A1 & A2 & o1 & A3 & A4)];
        apply Hedge in H2 as [(B1 & B2 & B3)|(B1 & B2 & o2 & B3 & B4)]; try lia.
      * eapply (f_uniq _ _ _ F); eauto.
      * pose proof (C2 _ _ _ _ _ _ _ A3 B3 A4 B4). lia.
    + intros d0 n Hin. apply Hedge in Hin as [(_ & _ & Hin)|(_ & Hy & _)].
      * eapply f_noroot; eauto.
      * unfold ROOT in *. lia.
    + intros d0 n y Hin. rewrite Hrm. apply Hedge in Hin as [(_ & H2 & Hin)|(_ & H2 & _)].
      * rewrite (proj2 (Nat.ltb_lt _ _) H2). eapply f_rm; eauto.
      * rewrite (proj2 (Nat.ltb_ge y L)) by lia. reflexivity.
    + rewrite Hrm. rewrite (proj2 (Nat.ltb_lt ROOT L)) by (unfold ROOT; lia). eapply f_rmroot; eauto.
  - intros x Hx. unfold pv'. rewrite (proj2 (Nat.ltb_lt _ _) Hx). reflexivity.
  - intros [x|f]; simpl; auto. intros [Hne ->].
    assert (Hlen : 0 < length nd) by (destruct nd; [congruence|simpl; lia]).
    split; [|split].
    + unfold pv'. rewrite (proj2 (Nat.ltb_ge _ L)) by lia. reflexivity.
    + intros d0 n Hin. apply Hedge in Hin as [(_ & H2 & _)|(H1 & H2 & o & E & _)]; [lia|].
      apply nth_lt in E. lia.
    + rewrite Hrm. rewrite (proj2 (Nat.ltb_ge _ L)) by lia. reflexivity.
  - intros t' p. apply pc_pv_frame.
    + intros x Hx. simpl in Hx. fold L in Hx. unfold pv'. rewrite (proj2 (Nat.ltb_lt _ _) Hx). reflexivity.
    + intros x Hx (H1 & H2 & H3). simpl in Hx. fold L in Hx. split; [|split].
      * unfold pv'. rewrite (proj2 (Nat.ltb_lt _ _) Hx). auto.
      * intros d0 n Hin. apply Hedge in Hin as [(_ & _ & Hin)|(_ & Hy & _)]; [eapply H2; eauto|lia].
      * rewrite Hrm. rewrite (proj2 (Nat.ltb_lt _ _) Hx). auto.
Qed.

Lemma SP3_edges s : SP3 s -> forall d n x, In (n, RDir x) (dch s d) -> x < length (dirs s).
Proof.
  intros HS d n x. unfold dch, view. destruct (nth_error (dirs s) d) as [o|] eqn:E; [|intros []].
  intros Hin. pose proof (SP3_get _ _ _ HS E) as Ho. unfold obj_refs in Ho. rewrite Forall_forall in Ho.
  apply (in_map snd) in Hin. apply Ho in Hin. exact Hin.
Qed.

Lemma after_mk_pv s pv t full d a : pv d = None -> amk_pv s pv t a -> next_pv s pv t (after_mk full d a).
Proof. destruct a; simpl; auto. Qed.
Lemma goto_mk_pv s pv t full c rest a : pv c = None -> amk_pv s pv t a -> next_pv s pv t (goto_mk full c rest a).
Proof. destruct rest; simpl; auto using after_mk_pv. Qed.
Lemma after_res_pv s pv t r a : pv ROOT = None -> pub pv r -> next_pv s pv t (after_res r a).
Proof.
  intros H0 Hr. destruct a, r; simpl; auto; destruct k; simpl; auto; apply goto_mk_pv; simpl; auto.
Qed.
Lemma goto_res_pv s pv t r rest a : pv ROOT = None -> pub pv r -> next_pv s pv t (goto_res r rest a).
Proof. destruct rest; simpl; auto using after_res_pv. Qed.
Lemma start_pv s pv t o : pv ROOT = None -> next_pv s pv t (start o).
Proof.
  intros H0. destruct o; simpl;
    repeat match goal with |- context [match ?x with _ => _ end] => destruct x end;
    simpl; auto; try (apply goto_mk_pv; simpl; auto); try (apply goto_res_pv; simpl; auto);
    try (apply after_res_pv; simpl; auto).
Qed.

Lemma vC_set l i ch j : i < length l ->
  view d_ch [] (list_upd l i (set_ch ch)) j = if Nat.eqb i j then ch else view d_ch [] l j.
Proof. intros. apply view_upd_set; auto. Qed.
Lemma vR_set l i j : i < length l ->
  view d_removed false (list_upd l i set_removed) j = if Nat.eqb i j then true else view d_removed false l j.
Proof. intros. apply view_upd_set; auto. Qed.
Ltac shp :=
  unfold dch, rm, release_L in *; cbn [dirs files upd_dir upd_file alloc_dir alloc_file fst snd];
  repeat first [ rewrite vC_set by len | rewrite vR_set by len
               | rewrite view_upd_keep by (intros; reflexivity)
               | rewrite view_app by (repeat constructor) ].

Lemma next_pv_mono s s' pv t n :
  (forall t p, pc_pv s pv t p -> pc_pv s' pv t p) -> next_pv s pv t n -> next_pv s' pv t n.
Proof. intros H. destruct n; simpl; auto. Qed.

Lemma child_pub s rk pv d o n r :
  forest s rk pv -> nth_error (dirs s) d = Some o -> lookup_ch (d_ch o) n = Some r -> pv d = None -> pub pv r.
Proof.
  intros F Eo El Hd. destruct r as [c|f]; simpl; auto.
  apply lookup_ch_In in El. rewrite <- (dch_get _ _ _ Eo) in El.
  destruct (f_edge _ _ _ F _ _ _ El) as [_ H]. congruence.
Qed.

Lemma step_pc_forest t s p s' n rk pv :
  SP3 s -> pc_refs s p -> forest s rk pv -> pc_pv s pv t p -> step_pc cur t s p = Some (s', n) ->
  exists rk' pv', forest s' rk' pv' /\ next_pv s' pv' t n /\
    (forall t' p', t' <> t -> pc_refs s p' -> pc_pv s pv t' p' -> pc_pv s' pv' t' p').
Proof.
  intros HS Hp F Hv H. pose proof HS as [H0 _]. pose proof (SP3_edges _ HS) as Hold.
  pose proof (f_root _ _ _ F) as Hroot.
  destruct p; simpl in H; try discriminate; simpl in Hp, Hv; unfold dok, fok in *.
  all: brk H; injection H as <- <-.
  all: try (exfalso; repeat match goal with H : nth_error _ _ = None |- _ => apply nth_None_ge in H end;
            simpl in *; intuition lia).
  all: try solve [match goal with |- exists _ _, forest ?s' _ _ /\ _ =>
        destruct (forest_same s s' rk pv) as [F' Hmono];
          [intros; shp; reflexivity | intros; shp; reflexivity | exact F |];
          exists rk, pv; split; [exact F'|split; [apply (next_pv_mono s); [exact Hmono|]|intros; apply Hmono; auto]];
          repeat match goal with H : _ /\ _ |- _ => destruct H end;
          simpl; auto using after_res_pv, after_mk_pv, goto_mk_pv
      end].
  - (* PRes: descend *)
    exists rk, pv. split; [exact F|split; [|auto]]. apply goto_res_pv; auto. eapply child_pub; eauto.
  - (* Remove of a directory *)
    match goal with Eo : nth_error (dirs s) ?d = Some ?o, El : lookup_ch (d_ch ?o) ?nm = Some ?r
                    |- exists _ _, forest ?s' _ _ /\ _ =>
      destruct (forest_unlink s s' rk pv d nm r) as [F' Hmono];
        [rewrite (dch_get _ _ _ Eo); exact El
        |intros x; shp; eqbs; try reflexivity; unfold view; rewrite Eo; reflexivity
        |intros x; shp; eqbs; auto | exact F | ] end.
    exists rk, pv. split; [exact F'|split; [exact I|intros; apply Hmono; auto]].
  - (* RemoveAll of a directory, code before 8463491 only: not reachable in cur *)
    match goal with Eo : nth_error (dirs s) ?d = Some ?o, El : lookup_ch (d_ch ?o) ?nm = Some ?r
                    |- exists _ _, forest ?s' _ _ /\ _ =>
      destruct (forest_unlink s s' rk pv d nm r) as [F' Hmono];
        [rewrite (dch_get _ _ _ Eo); exact El
        |intros x; shp; eqbs; try reflexivity; unfold view; rewrite Eo; reflexivity
        |intros x; shp; eqbs; auto | exact F | ] end.
    exists rk, pv. split; [exact F'|split; [exact I|intros; apply Hmono; auto]].
  - match goal with Eo : nth_error (dirs s) ?d = Some ?o, El : lookup_ch (d_ch ?o) ?nm = Some ?r
                    |- exists _ _, forest ?s' _ _ /\ _ =>
      destruct (forest_unlink s s' rk pv d nm r) as [F' Hmono];
        [rewrite (dch_get _ _ _ Eo); exact El
        |intros x; shp; eqbs; try reflexivity; unfold view; rewrite Eo; reflexivity
        |intros x; shp; eqbs; auto | exact F | ] end.
    exists rk, pv. split; [exact F'|split; [exact I|intros; apply Hmono; auto]].
  - (* PMk: descend *)
    destruct Hv as [Hv1 Hv2]. exists rk, pv. split; [exact F|split; [|auto]]. apply goto_mk_pv; auto.
    match goal with El : lookup_ch _ _ = Some (RDir ?c) |- _ =>
      apply (child_pub s rk pv cur _ _ (RDir c) F) in El; auto end.
  - (* PMk: create the directory *)
    destruct Hv as [Hv1 Hv2]. destruct Hp as [Hp1 Hp2].
    match goal with Eo : nth_error (dirs s) cur = Some ?o |- exists _ _, forest ?s' _ _ /\ _ =>
      destruct (forest_mkdir s s' rk pv cur n0 (length (dirs s))) as (rk' & pv' & F' & Hc & Hlt & Hfr);
        [reflexivity | lia | lia | exact Hold | exact Hv1
        |intros x; shp; eqbs; try reflexivity; unfold view; rewrite Eo; reflexivity
        |intros x; shp; reflexivity | exact F | ] end.
    exists rk', pv'. split; [exact F'|split; [|intros; apply Hfr; auto]].
    apply goto_mk_pv; auto.
    assert (Hown : pc_pv s pv t (PMk full cur (n0 :: p) true a)) by (simpl; auto).
    apply Hfr in Hown; [|simpl; auto]. simpl in Hown. tauto.
  - (* PInL: new file, WriteFile *)
    match goal with Eo : nth_error (dirs s) d = Some ?o |- exists _ _, forest ?s' _ _ /\ _ =>
      destruct (forest_addfile s s' rk pv d nm (length (files s))) as [F' Hmono];
        [intros x; shp; eqbs; try reflexivity; unfold view; rewrite Eo; reflexivity
        |intros x; shp; reflexivity | exact F | ] end.
    exists rk, pv. split; [exact F'|split; [exact I|intros; apply Hmono; auto]].
  - (* PInL: new file, Writer *)
    match goal with Eo : nth_error (dirs s) d = Some ?o |- exists _ _, forest ?s' _ _ /\ _ =>
      destruct (forest_addfile s s' rk pv d nm (length (files s))) as [F' Hmono];
        [intros x; shp; eqbs; try reflexivity; unfold view; rewrite Eo; reflexivity
        |intros x; shp; reflexivity | exact F | ] end.
    exists rk, pv. split; [exact F'|split; [exact I|intros; apply Hmono; auto]].
  - (* PSnap *)
    destruct Hv as [Hv1 Hv2]. destruct Hp as [Hp1 Hp2].
    match goal with Ec : copy_ref _ _ _ = Some _ |- _ =>
      apply copy_ref_post in Ec as (nd & nf & Ed & Ef & Hnf & Hcp & Hroot') end.
    destruct (forest_copy s s0 rk pv t nd Ed Hcp H0 Hold F) as (rk' & pv' & F' & Hlt & Hm & Hfr).
    exists rk', pv'. split; [exact F'|split; [|intros; apply Hfr; auto]].
    simpl. split; [rewrite Hlt; auto|auto].
  - (* PAdd: attach *)
    destruct Hv as [Hv1 Hv2]. destruct snap as [x|f].
    + match goal with Eo : nth_error (dirs s) d = Some ?o |- exists _ _, forest ?s' _ _ /\ _ =>
        destruct (forest_attach s s' rk pv t d nm x Hv1 Hv2) as (rk' & pv' & F' & Hfr);
          [intros y; shp; eqbs; try reflexivity; unfold view; rewrite Eo; reflexivity
          |intros y; shp; reflexivity | exact F | ] end.
      exists rk', pv'. split; [exact F'|split; [exact I|intros; apply Hfr; auto]].
    + match goal with Eo : nth_error (dirs s) d = Some ?o |- exists _ _, forest ?s' _ _ /\ _ =>
        destruct (forest_addfile s s' rk pv d nm f) as [F' Hmono];
          [intros y; shp; eqbs; try reflexivity; unfold view; rewrite Eo; reflexivity
          |intros y; shp; reflexivity | exact F | ] end.
      exists rk, pv. split; [exact F'|split; [exact I|intros; apply Hmono; auto]].
Qed.

Definition FOREST (st : state) : Prop :=
  exists rk pv, forest (sh st) rk pv /\ forall t l, nth_error (ths st) t = Some l -> pc_pv (sh st) pv t (pc l).

Lemma FOREST_step t st st' : I3 st -> FOREST st -> step cur t st = Some st' -> FOREST st'.
Proof.
  intros [HS HLoc] (rk & pv & F & HT) Hst. apply step_inv in Hst as (l & s' & l' & El & Es & ->).
  pose proof (HLoc _ _ El) as Hrefs. unfold LP3 in Hrefs.
  apply step_local_inv in Es as [(Ep & o & rest & Eo & -> & ->)|(Ep & n & Esp & ->)].
  - exists rk, pv. split; [exact F|]. simpl. intros t' l0 E.
    apply nth_list_upd in E as [[Hn E]|[<- (x & E & ->)]]; [apply HT; auto|].
    rewrite pc_apply_next. pose proof (start_pv (sh st) pv t o (f_root _ _ _ F)) as Hs.
    destruct (start o); simpl in *; auto.
  - destruct (step_pc_forest _ _ _ _ _ _ _ HS Hrefs F (HT _ _ El) Esp) as (rk' & pv' & F' & Hn & Hfr).
    exists rk', pv'. split; [exact F'|]. simpl. intros t' l0 E.
    apply nth_list_upd in E as [[Hne E]|[<- (x & E & ->)]].
    + apply Hfr; auto. apply (HLoc _ _ E).
    + rewrite pc_apply_next. destruct n; simpl in *; auto.
Qed.

Definition heap_forest (s : shared) : Prop := exists rk, forest s rk (fun _ => None).

Lemma FOREST_boot s progs : heap_forest s -> FOREST (boot s progs).
Proof.
  intros [rk F]. exists rk, (fun _ => None). split; [exact F|].
  intros t l E. apply (boot_nth s) in E as (p & _ & ->). exact I.
Qed.

(** * The fuel of the deep copy suffices in a forest *)
Inductive fits (s : shared) : nat -> ref -> Prop :=
| fits_file n f : f < length (files s) -> fits s (S n) (RFile f)
| fits_dir n d : d < length (dirs s) -> (forall nm r, In (nm, r) (dch s d) -> fits s n r) -> fits s (S n) (RDir d).

Lemma SP3_dch s : SP3 s -> forall d nm r, In (nm, r) (dch s d) -> rin s r.
Proof.
  intros HS d n r. unfold dch, view. destruct (nth_error (dirs s) d) as [o|] eqn:E; [|intros []].
  intros Hin. pose proof (SP3_get _ _ _ HS E) as Ho. unfold obj_refs in Ho. rewrite Forall_forall in Ho.
  apply (in_map snd) in Hin. apply Ho in Hin. exact Hin.
Qed.

Lemma NoDup_lt_length (l : list nat) n : NoDup l -> (forall x, In x l -> x < n) -> length l <= n.
Proof.
  intros Hnd Hlt. rewrite <- (seq_length n 0). apply NoDup_incl_length; auto.
  intros x Hx. apply in_seq. apply Hlt in Hx. lia.
Qed.

Lemma fits_forest s rk pv : forest s rk pv -> SP3 s ->
  forall k path d, d < length (dirs s) -> NoDup (d :: path) ->
    (forall x, In x path -> x < length (dirs s) /\ rk d < rk x) ->
    length (d :: path) + k >= length (dirs s) -> fits s (S (S k)) (RDir d).
Proof.
  intros F HS. induction k as [|k IH]; intros path d Hd Hnd Hpath Hlen.
  - apply fits_dir; auto. intros nm [c|f] Hin.
    + exfalso. destruct (f_edge _ _ _ F _ _ _ Hin) as [Hrk _].
      pose proof (SP3_dch _ HS _ _ _ Hin) as Hc. simpl in Hc.
      assert (Hnd' : NoDup (c :: d :: path)).
      { constructor; auto. intros [->|Hx]; [lia|]. apply Hpath in Hx. lia. }
      apply (NoDup_lt_length _ (length (dirs s))) in Hnd'.
      * simpl in *. lia.
      * intros x [<-|[<-|Hx]]; auto. apply Hpath in Hx. tauto.
    + apply fits_file. apply (SP3_dch _ HS _ _ _ Hin).
  - apply fits_dir; auto. intros nm [c|f] Hin.
    + destruct (f_edge _ _ _ F _ _ _ Hin) as [Hrk _].
      pose proof (SP3_dch _ HS _ _ _ Hin) as Hc. simpl in Hc.
      apply (IH (d :: path)); auto.
      * constructor; auto. intros [->|Hx]; [lia|]. apply Hpath in Hx. lia.
      * intros x [<-|Hx]; [split; auto|]. apply Hpath in Hx. split; [tauto|lia].
      * simpl in *. lia.
    + apply fits_file. apply (SP3_dch _ HS _ _ _ Hin).
Qed.

Lemma fits_fuel s rk pv r : forest s rk pv -> SP3 s -> rin s r -> fits s (copy_fuel s) r.
Proof.
  intros F HS Hr. unfold copy_fuel. destruct r as [d|f].
  - apply (fits_forest s rk pv F HS (length (dirs s)) [] d); auto;
      try (intros x []); try (simpl; lia); try (constructor; [intros []|constructor]).
  - apply fits_file. exact Hr.
Qed.

Lemma fits_inv s n r : fits s n r ->
  exists n', n = S n' /\
    match r with
    | RFile f => f < length (files s)
    | RDir d => d < length (dirs s) /\ forall nm r', In (nm, r') (dch s d) -> fits s n' r'
    end.
Proof. intros H. inv H; eauto. Qed.

Lemma fits_grow s s' nd nf : dirs s' = dirs s ++ nd -> files s' = files s ++ nf ->
  forall n r, fits s n r -> fits s' n r.
Proof.
  intros Ed Ef. induction n as [|n IH]; intros r H; apply fits_inv in H as (n' & En & H); [discriminate|].
  inv En. destruct r as [d|f].
  - destruct H as [Hd Hch]. apply fits_dir; [rewrite Ed, app_length; lia|].
    intros nm r Hin. apply IH. apply (Hch nm). unfold dch in *. rewrite Ed, view_app_split in Hin.
    rewrite (proj2 (Nat.ltb_lt _ _) Hd) in Hin. exact Hin.
  - apply fits_file. rewrite Ef, app_length. lia.
Qed.

Arguments copy_ref : simpl nomatch.
Lemma copy_ref_fits : forall n s r, fits s n r -> (forall f, Hof s f = None) ->
  exists s' r', copy_ref n s r = Some (s', r').
Proof.
  induction n as [|n IH]; intros s r Hfit Hfree; apply fits_inv in Hfit as (n' & En & H); [discriminate|].
  inv En. destruct r as [d|f].
  - destruct H as [Hd Hch].
    unfold copy_ref; fold copy_ref. destruct (nth_error (dirs s) d) as [o|] eqn:E; [|apply nth_error_None in E; lia].
    fold (copy_step n'). rewrite (dch_get _ _ _ E) in Hch.
    assert (Hgen : forall l s0 out, (forall e, In e l -> fits s0 n' (snd e)) -> (forall f, Hof s0 f = None) ->
               exists s1 ch1, fold_left (copy_step n') l (Some (s0, out)) = Some (s1, ch1)).
    { induction l as [|e l IHl]; intros s0 out Hl Hf0; simpl; [eauto|].
      destruct (IH s0 (snd e)) as (s2 & r2 & Ec); auto; [apply Hl; left; auto|]. rewrite Ec.
      pose proof (copy_ref_locks _ _ _ _ _ Ec) as [_ Hh].
      apply copy_ref_post in Ec as (nd & nf & Ed & Ef & _).
      apply IHl.
      - intros e' He'. eapply fits_grow; eauto. apply Hl. right; auto.
      - intros f. rewrite Hh. auto. }
    destruct (Hgen (d_ch o) s []) as (s1 & ch1 & Ef); auto.
    + intros [nm r] Hin. simpl. eapply Hch; eauto.
    + rewrite Ef. simpl. eauto.
  - unfold copy_ref. destruct (nth_error (files s) f) as [fo|] eqn:E; [|apply nth_error_None in E; lia].
    pose proof (Hfree f) as Hf. rewrite (Hof_get _ _ _ E) in Hf. rewrite Hf. simpl. eauto.
Qed.
Arguments copy_ref : simpl never.

Lemma view_holder_dec (l : list fileobj) :
  (forall j, view f_holder None l j = None) \/ exists j t, view f_holder None l j = Some t.
Proof.
  induction l as [|x l IH].
  - left. intros [|j]; reflexivity.
  - destruct (f_holder x) as [t|] eqn:E.
    + right. exists 0, t. exact E.
    + destruct IH as [IH|(j & t & IH)].
      * left. intros [|j]; [exact E|apply IH].
      * right. exists (S j), t. exact IH.
Qed.

(** * Part C: no deadlock *)
Lemma blocked_cases t s p rk pv :
  SP3 s -> pc_refs s p -> forest s rk pv -> p <> PIdle -> step_pc cur t s p = None ->
  (exists f t', Hof s f = Some t') \/ (exists d t', Lof s d = Some t' /\ pcL p = None).
Proof.
  intros HS Hp F Hni H.
  destruct p; simpl in H; simpl in Hp; unfold dok, fok in *; try congruence; try contradiction.
  all: brk H.
  all: try (left; match goal with E : nth_error (files _) ?f = Some ?fo, Eh : f_holder ?fo = Some ?t' |- _ =>
              exists f, t'; rewrite (Hof_get _ _ _ E); exact Eh end).
  - right. match goal with E : nth_error (dirs s) ?d = Some ?o, Eh : d_L ?o = Some ?t' |- _ =>
              exists d, t'; rewrite (Lof_get _ _ _ E); auto end.
  - destruct (view_holder_dec (files s)) as [Hfree|(f & t' & Hh)]; [|left; exists f, t'; exact Hh].
    exfalso. destruct Hp as [_ Hr].
    destruct (copy_ref_fits (copy_fuel s) s src) as (s' & r' & Ec); auto.
    + eapply fits_fuel; eauto.
    + match goal with E : copy_ref _ _ _ = None |- _ => rewrite E in Ec end. discriminate.
Qed.

Lemma holder_enabled ar t s p f :
  SP3 s -> pc_refs s p -> pcF p = Some f -> exists s' n, step_pc ar t s p = Some (s', n).
Proof.
  intros HS Hp Hf. destruct p; simpl in Hf; try discriminate; simpl in *; unfold fok in *.
  - destruct (nth_error (files s) f0) eqn:E; [eauto|]. apply nth_error_None in E. lia.
  - destruct (nth_error (files s) f0) eqn:E; [|apply nth_error_None in E; lia].
    destruct chunks; eauto.
Qed.

Lemma step_None_inv ar t st l : nth_error (ths st) t = Some l -> step ar t st = None ->
  (pc l = PIdle /\ prog l = []) \/ (pc l <> PIdle /\ step_pc ar t (sh st) (pc l) = None).
Proof.
  intros El H. unfold step in H. rewrite El in H. unfold step_local in H.
  destruct (pc l) eqn:Ep.
  1: { left. destruct (prog l); [auto|discriminate]. }
  all: right; split; [discriminate|];
    match type of H with context [step_pc ?a ?b ?c ?p] =>
      destruct (step_pc a b c p) as [[s1 n]|] eqn:Esp; [discriminate|reflexivity] end.
Qed.

Lemma step_Some_intro ar t st l s' n : nth_error (ths st) t = Some l -> pc l <> PIdle ->
  step_pc ar t (sh st) (pc l) = Some (s', n) -> exists st', step ar t st = Some st'.
Proof.
  intros El Hni Hs. unfold step. rewrite El. unfold step_local.
  destruct (pc l) eqn:Ep; [congruence|..]; rewrite Hs; eauto.
Qed.

Definition Inv (st : state) : Prop := I3 st /\ LH st /\ FOREST st.

Lemma Inv_step t st st' : Inv st -> step cur t st = Some st' -> Inv st'.
Proof.
  intros (H3 & HL & HF) Hs. split; [eapply I3_step; eauto|].
  split; [eapply LH_step; eauto|eapply FOREST_step; eauto].
Qed.
Lemma Inv_boot s progs : good_shared s = true -> heap_forest s -> Inv (boot s progs).
Proof. intros Hg Hf. split; [apply I3_boot; auto|]. split; [apply LH_boot; auto|apply FOREST_boot; auto]. Qed.
Lemma Inv_run s progs sched : good_shared s = true -> heap_forest s -> Inv (run cur sched (boot s progs)).
Proof. intros. apply run_inv; [intros; eapply Inv_step; eauto|apply Inv_boot; auto]. Qed.

(** a thread that is not finished and has no enabled step waits for a lock; the holder of that
    lock, or the holder of the lock the holder waits for, is inside a critical region or a
    stream session and has an enabled step *)
Definition in_region (p : pcs) : Prop := pcL p <> None \/ pcF p <> None.

Lemma blocked_has_enabled st t l :
  Inv st -> nth_error (ths st) t = Some l -> done l = false -> step cur t st = None ->
  exists t' l' s' n, nth_error (ths st) t' = Some l' /\ in_region (pc l') /\
                     step_pc cur t' (sh st) (pc l') = Some (s', n).
Proof.
  intros ([HS HLoc] & [HL HF] & (rk & pv & F & _)) El Hd Hn.
  assert (Hfile : forall f t', Hof (sh st) f = Some t' ->
            exists t' l' s' n, nth_error (ths st) t' = Some l' /\ in_region (pc l') /\
                               step_pc cur t' (sh st) (pc l') = Some (s', n)).
  { intros f t' Hh. apply HF in Hh as (l' & El' & Hp).
    destruct (holder_enabled cur t' (sh st) (pc l') f HS (HLoc _ _ El') Hp) as (s' & n & Hs).
    exists t', l', s', n. split; auto. split; [right; congruence|auto]. }
  apply (step_None_inv _ _ _ _ El) in Hn as [[Hp Hq]|[Hp Hb]].
  { unfold done in Hd. rewrite Hq, Hp in Hd. discriminate. }
  destruct (blocked_cases _ _ _ _ _ HS (HLoc _ _ El) F Hp Hb) as [(f & t' & Hh)|(d & t' & Hh & _)]; [eauto|].
  apply HL in Hh as (l' & El' & Hp').
  destruct (step cur t' st) as [st'|] eqn:Es'.
  - apply step_inv in Es' as (l0 & s' & l1 & El0 & Es & _). rewrite El' in El0. inv El0.
    apply step_local_inv in Es as [(Ep0 & _)|(Ep0 & n & Esp & _)]; [rewrite Ep0 in Hp'; discriminate|].
    exists t', l0, s', n. split; auto. split; [left; congruence|auto].
  - apply (step_None_inv _ _ _ _ El') in Es' as [[Hp0 _]|[Hp0 Hb0]]; [rewrite Hp0 in Hp'; discriminate|].
    destruct (blocked_cases _ _ _ _ _ HS (HLoc _ _ El') F Hp0 Hb0) as [(f & t'' & Hh)|(d' & t'' & _ & Hc)]; [eauto|].
    congruence.
Qed.

Theorem no_deadlock s0 progs sched :
  good_shared s0 = true -> heap_forest s0 ->
  let st := run cur sched (boot s0 progs) in
  (forall t, step cur t st = None) -> final st = true.
Proof.
  intros Hg Hf st Hn. pose proof (Inv_run s0 progs sched Hg Hf) as HI. fold st in HI.
  unfold final. apply forallb_forall. intros l Hin. apply In_nth_error in Hin as [t El].
  destruct (done l) eqn:Hd; auto. exfalso.
  destruct (blocked_has_enabled st t l HI El Hd (Hn t)) as (t' & l' & s' & n & El' & Hr & Hs).
  assert (Hni : pc l' <> PIdle) by (intros E; rewrite E in Hr; destruct Hr as [Hr|Hr]; apply Hr; reflexivity).
  destruct (step_Some_intro _ _ _ _ _ _ El' Hni Hs) as [st' Hst]. rewrite Hn in Hst. discriminate.
Qed.

(** * Part D: every reachable state can be driven to a final state
    [pcm s p]: an upper bound on the number of steps the thread needs to finish its current
    operation when it runs without interference, including ONE restart from the root if the
    directory it stands on has been removed (after the restart it walks from the root, which is
    never removed, through linked directories, which are never removed). *)
Definition wkw (w : wk) : nat := match w with WData _ => 0 | WStream c => S (length c) end.
Definition amk_of_w (nm : name) (w : wk) : amk :=
  match w with WData d => MWrite nm d | WStream c => MWriter nm c end.
Definition aft (a : amk) : nat :=
  match a with MDone => 0 | MWrite _ _ => 2 | MWriter _ c => 3 + length c | MSnap _ _ => 2 | MAdd _ _ => 1 end.
Definition Wk (full : path) (a : amk) : nat := 2 + 2 * length full + aft a.
Definition Rs (s : shared) (d : nat) (full : path) (a : amk) : nat := if rm s d then S (Wk full a) else 0.
Definition ares_cost (a : ares) : nat :=
  match a with
  | ARead => 1 | AReader => 2 | AList => 1 | AExist => 0 | ARemove _ _ => 2
  | ACopy _ dp _ => 4 + 2 * length dp
  end.
Definition pcm (s : shared) (p : pcs) : nat :=
  match p with
  | PIdle => 0
  | PPanic => 1
  | PRes _ rest a => 1 + length rest + ares_cost a
  | PReadData _ => 1
  | PListDir _ => 1
  | PReaderOpen _ => 2
  | PReaderClose _ => 1
  | PRemGap _ _ _ => 2
  | PRemOld _ _ => 1
  | PMk full cur rest second a => 2 + 2 * length rest - (if second then 1 else 0) + aft a + Rs s cur full a
  | PLockL full d nm w => 2 + wkw w + Rs s d full (amk_of_w nm w)
  | PInL full d nm _ w => 1 + wkw w + Rs s d full (amk_of_w nm w)
  | PWriterAcq _ _ c => 2 + length c
  | PWriting _ c => 1 + length c
  | PSnap full d _ nm => 2 + Rs s d full (MAdd (RFile 0) nm)
  | PAdd full d snap nm => 1 + Rs s d full (MAdd snap nm)
  end.
Definition nxm (s : shared) (n : next) (bound : nat) : Prop :=
  match n with NPc p => p <> PIdle /\ pcm s p <= bound | NRet _ => True end.

Lemma after_mk_m s full d a : nxm s (after_mk full d a) (aft a + Rs s d full a).
Proof.
  destruct a; simpl; auto; (split; [discriminate|]); unfold Rs, Wk; simpl; destruct (rm s d); lia.
Qed.
Lemma goto_mk_m s full c rest a : nxm s (goto_mk full c rest a) (2 + 2 * length rest + aft a + Rs s c full a).
Proof.
  destruct rest as [|x rest]; simpl.
  - pose proof (after_mk_m s full c a) as H. destruct (after_mk full c a); simpl in *; auto.
    destruct H; split; auto; try lia.
  - split; [discriminate|lia].
Qed.
Lemma after_res_m s r a : rm s ROOT = false -> nxm s (after_res r a) (ares_cost a).
Proof.
  intros H0. destruct a, r; simpl; auto; try (split; [discriminate|lia]).
  all: destruct k; simpl; auto.
  all: pose proof (goto_mk_m s dp ROOT dp (MSnap (RDir d) nm)) as H + pose proof (goto_mk_m s dp ROOT dp (MSnap (RFile f) nm)) as H.
  all: unfold Rs in H; rewrite H0 in H; simpl in H.
  all: match goal with |- nxm _ ?x _ => destruct x; simpl in *; auto end.
  all: destruct H; split; auto; lia.
Qed.
Lemma goto_res_m s r rest a : rm s ROOT = false -> nxm s (goto_res r rest a) (1 + length rest + ares_cost a).
Proof.
  intros H0. destruct rest as [|x rest]; simpl.
  - pose proof (after_res_m s r a H0) as H. destruct (after_res r a); simpl in *; auto.
    destruct H; split; auto; try lia.
  - split; [discriminate|lia].
Qed.

Lemma copy_ref_rm n s r s' r' : copy_ref n s r = Some (s', r') -> forall x, rm s' x = rm s x.
Proof.
  intros H x. apply copy_ref_post in H as (nd & nf & Ed & _ & _ & Hcp & _).
  apply CP_locks in Hcp as [_ Hr]. unfold rm. rewrite Ed. apply view_app. exact Hr.
Qed.

Lemma child_not_removed s rk pv d o n c :
  forest s rk pv -> nth_error (dirs s) d = Some o -> lookup_ch (d_ch o) n = Some (RDir c) -> rm s c = false.
Proof.
  intros F Eo El. apply lookup_ch_In in El. rewrite <- (dch_get _ _ _ Eo) in El. eapply f_rm; eauto.
Qed.

Lemma step_pc_measure t s p s' n rk pv :
  SP3 s -> pc_refs s p -> forest s rk pv -> step_pc cur t s p = Some (s', n) ->
  exists b, b < pcm s p /\ nxm s' n b.
Proof.
  intros HS Hp F H. pose proof HS as [H0 _]. pose proof (f_rmroot _ _ _ F) as Hroot.
  destruct p; simpl in H; try discriminate; simpl in Hp; unfold dok, fok in *.
  all: brk H; injection H as <- <-.
  all: try (exfalso; repeat match goal with H : nth_error _ _ = None |- _ => apply nth_None_ge in H end;
            simpl in *; intuition lia).
  all: try solve [exists 0; split; [simpl; unfold Rs; lia | exact I]].
  all: try solve [eexists; split; [|split; [discriminate|apply le_n]]; simpl; unfold Rs; shp; simpl; lia].
  - exists (ares_cost a). split; [simpl; lia|apply after_res_m; auto].
  - exists (1 + length p + ares_cost a). split; [simpl; lia|apply goto_res_m; auto].
  - exists (aft a + Rs s cur full a). split; [simpl; destruct second; lia|apply after_mk_m].
  - match goal with Eo : nth_error (dirs s) cur = Some _, El : lookup_ch _ _ = Some (RDir ?c) |- _ =>
      pose proof (child_not_removed _ _ _ _ _ _ _ F Eo El) as Hc end.
    exists (2 + 2 * length p + aft a + Rs s d0 full a). split; [|apply goto_mk_m].
    unfold Rs at 1. rewrite Hc. simpl. destruct second; lia.
  - destruct second; try discriminate.
    eexists; split; [|split; [discriminate|apply le_n]]. simpl. lia.
  - match goal with Eo : nth_error (dirs s) cur = Some ?o, Er : d_removed ?o = true |- _ =>
      assert (Hc : rm s cur = true) by (rewrite (rm_get _ _ _ Eo); exact Er) end.
    exists (2 + 2 * length full + aft a + Rs s ROOT full a). split; [|apply goto_mk_m].
    simpl. unfold Rs. rewrite Hroot, Hc. unfold Wk. simpl. destruct second; lia.
  - match goal with |- exists b, _ /\ nxm ?s' _ _ =>
      assert (Hc : rm s' (length (dirs s)) = false) end.
    { shp. unfold view. rewrite (proj2 (nth_error_None _ _)); [reflexivity|lia]. }
    exists (2 + 2 * length p + aft a + 0). split; [simpl; destruct second; lia|].
    match goal with |- nxm ?s' _ _ => pose proof (goto_mk_m s' full (length (dirs s)) p a) as G end.
    unfold Rs in G at 1. rewrite Hc in G. exact G.
  - match goal with Eo : nth_error (dirs s) d = Some ?o, Er : d_removed ?o = true |- _ =>
      assert (Hc : rm s d = true) by (rewrite (rm_get _ _ _ Eo); exact Er) end.
    assert (Hr : rm (release_L s d) ROOT = false) by (shp; exact Hroot).
    exists (2 + 2 * length full + aft (MWrite nm data) + 0). split.
    + simpl. unfold Rs. rewrite Hc. unfold Wk. simpl. lia.
    + pose proof (goto_mk_m (release_L s d) full ROOT full (MWrite nm data)) as G.
      unfold Rs in G at 1. rewrite Hr in G. exact G.
  - match goal with Eo : nth_error (dirs s) d = Some ?o, Er : d_removed ?o = true |- _ =>
      assert (Hc : rm s d = true) by (rewrite (rm_get _ _ _ Eo); exact Er) end.
    assert (Hr : rm (release_L s d) ROOT = false) by (shp; exact Hroot).
    exists (2 + 2 * length full + aft (MWriter nm chunks) + 0). split.
    + simpl. unfold Rs. rewrite Hc. unfold Wk. simpl. lia.
    + pose proof (goto_mk_m (release_L s d) full ROOT full (MWriter nm chunks)) as G.
      unfold Rs in G at 1. rewrite Hr in G. exact G.
  - match goal with Ec : copy_ref _ _ _ = Some _ |- _ => pose proof (copy_ref_rm _ _ _ _ _ Ec) as Hrm end.
    eexists; split; [|split; [discriminate|apply le_n]]. simpl. unfold Rs, Wk. rewrite Hrm. simpl. destruct (rm s d); lia.
  - match goal with Eo : nth_error (dirs s) d = Some ?o, Er : d_removed ?o = true |- _ =>
      assert (Hc : rm s d = true) by (rewrite (rm_get _ _ _ Eo); exact Er) end.
    exists (2 + 2 * length full + aft (MAdd snap nm) + Rs s ROOT full (MAdd snap nm)). split; [|apply goto_mk_m].
    simpl. unfold Rs. rewrite Hroot, Hc. unfold Wk. simpl. lia.
Qed.

Definition opcost (o : cop) : nat :=
  match o with
  | CWrite p _ => 4 + 2 * length p
  | CWriter p c => 5 + 2 * length p + length c
  | CMkdir p => 2 + 2 * length p
  | CRead p | CReader p | CList p | CExist p | CRemove p _ => 3 + length p
  | CCopy _ src dst => 5 + length src + 2 * length dst
  end.

Lemma split_last_length p dp nm : split_last p = Some (dp, nm) -> length p = S (length dp).
Proof.
  revert dp nm. induction p as [|n p IH]; intros dp nm; simpl; [discriminate|].
  destruct p as [|n' p'].
  - intros H; inv H. reflexivity.
  - destruct (split_last (n' :: p')) as [[dp' l]|] eqn:E; [|discriminate].
    intros H; inv H. simpl. f_equal. eapply IH. reflexivity.
Qed.

Lemma nxm_le s n b b' : b <= b' -> nxm s n b -> nxm s n b'.
Proof. intros Hb. destruct n; simpl; auto. intros [H1 H2]. split; auto. lia. Qed.

Lemma start_m s o : rm s ROOT = false -> nxm s (start o) (opcost o).
Proof.
  intros H0.
  assert (Hmk : forall dp a b, 2 + 2 * length dp + aft a <= b -> nxm s (goto_mk dp ROOT dp a) b).
  { intros dp a b Hb. eapply nxm_le; [|apply goto_mk_m]. unfold Rs. rewrite H0. lia. }
  assert (Hres : forall p a b, 1 + length p + ares_cost a <= b -> nxm s (goto_res (RDir ROOT) p a) b).
  { intros p a b Hb. eapply nxm_le; [|apply goto_res_m; auto]. lia. }
  destruct o; simpl.
  - destruct (split_last p) as [[dp nm]|] eqn:E; simpl; auto. apply split_last_length in E.
    apply Hmk. simpl. lia.
  - destruct (split_last p) as [[dp nm]|] eqn:E; simpl; auto. apply split_last_length in E.
    apply Hmk. simpl. lia.
  - apply Hmk. simpl. lia.
  - destruct p as [|x p]; simpl; auto. apply (Hres (x :: p)). simpl. lia.
  - destruct p as [|x p]; simpl; auto. apply (Hres (x :: p)). simpl. lia.
  - apply Hres. simpl. lia.
  - apply Hres. simpl. lia.
  - destruct (split_last p) as [[dp nm]|] eqn:E; simpl; auto. apply split_last_length in E.
    apply Hres. simpl. lia.
  - destruct (split_last dst) as [[dp nm]|] eqn:E; simpl; auto. apply split_last_length in E.
    destruct k, src; simpl; auto; try (split; [discriminate|lia]).
    all: apply Hmk; simpl; lia.
Qed.

Definition osum (l : list cop) : nat := fold_right (fun o acc => S (opcost o) + acc) 0 l.
Definition mu (s : shared) (l : local) : nat :=
  pcm s (pc l) + match pc l with PIdle => osum (prog l) | _ => osum (tl (prog l)) end.

Lemma mu_next s l p : p <> PIdle -> mu s (mkLocal (prog l) p (log l)) = pcm s p + osum (tl (prog l)).
Proof. intros Hp. unfold mu. simpl. destruct p; congruence. Qed.
Lemma mu_finish s l r : mu s (finish l r) = osum (tl (prog l)).
Proof. unfold mu, finish. destruct (prog l); reflexivity. Qed.

Lemma step_local_measure t s l s' l' rk pv :
  SP3 s -> pc_refs s (pc l) -> forest s rk pv ->
  step_local cur t s l = Some (s', l') -> mu s' l' < mu s l.
Proof.
  intros HS Hp F H.
  apply step_local_inv in H as [(Ep & o & rest & Eo & -> & ->)|(Ep & n & Esp & ->)].
  - pose proof (start_m s o (f_rmroot _ _ _ F)) as Hs. unfold mu at 2. rewrite Ep, Eo. simpl.
    destruct (start o) as [p|r]; simpl in *.
    + destruct Hs as [Hn Hb]. rewrite mu_next by auto. rewrite Eo. simpl. lia.
    + rewrite mu_finish, Eo. simpl. lia.
  - destruct (step_pc_measure _ _ _ _ _ _ _ HS Hp F Esp) as (b & Hb & Hn).
    assert (Hmu : mu s l = pcm s (pc l) + osum (tl (prog l))).
    { unfold mu. destruct (pc l); congruence. }
    rewrite Hmu. destruct n as [p|r]; simpl in *.
    + destruct Hn as [Hn Hle]. rewrite mu_next by auto. lia.
    + rewrite mu_finish. lia.
Qed.

(** region steps of other threads do not change what [mu] looks at *)
Lemma pcm_ext s s' p : (forall x, rm s' x = rm s x) -> pcm s' p = pcm s p.
Proof. intros H. destruct p; simpl; unfold Rs; rewrite ?H; reflexivity. Qed.

Lemma region_step_rm t s p s' n :
  SP3 s -> pc_refs s p -> in_region p -> step_pc cur t s p = Some (s', n) -> forall x, rm s' x = rm s x.
Proof.
  intros HS Hp Hr H x. destruct p; simpl in H; try discriminate; simpl in Hp; unfold dok, fok in *;
    try (destruct Hr as [Hr|Hr]; simpl in Hr; congruence).
  all: brk H; injection H as <- <-; try reflexivity.
  all: try (exfalso; repeat match goal with H : nth_error _ _ = None |- _ => apply nth_None_ge in H end;
            simpl in *; intuition lia).
  all: shp; reflexivity.
Qed.

Definition bw (p : pcs) : nat :=
  match p with
  | PReaderClose _ => 1
  | PWriting _ c => 1 + length c
  | PInL _ _ _ _ w => 2 + wkw w
  | PWriterAcq _ _ c => 3 + length c
  | _ => 0
  end.
Definition nbw (n : next) : nat := match n with NPc p => bw p | NRet _ => 0 end.
Lemma bw_goto_mk full c rest a : nbw (goto_mk full c rest a) = 0.
Proof. destruct rest; simpl; auto. destruct a; reflexivity. Qed.

Lemma region_step_bw t s p s' n :
  in_region p -> step_pc cur t s p = Some (s', n) -> nbw n < bw p.
Proof.
  intros Hr H. destruct p; simpl in H; try discriminate;
    try (destruct Hr as [Hr|Hr]; simpl in Hr; congruence).
  all: brk H; injection H as <- <-; rewrite ?bw_goto_mk; simpl; lia.
Qed.

Definition Bsum (ths : list local) : nat := fold_right (fun l acc => bw (pc l) + acc) 0 ths.
Lemma Bsum_upd ths t l l' : nth_error ths t = Some l ->
  Bsum (list_upd ths t (fun _ => l')) + bw (pc l) = Bsum ths + bw (pc l').
Proof.
  revert t. induction ths as [|x ths IH]; intros [|t]; simpl; try discriminate.
  - intros H; inv H. lia.
  - intros H. apply IH in H. lia.
Qed.

Lemma run_cons ar t sched st st' : step ar t st = Some st' -> run ar (t :: sched) st = run ar sched st'.
Proof. intros H. unfold run. simpl. unfold step_or_stay. rewrite H. reflexivity. Qed.

Lemma step_other ar t st st' t' : step ar t st = Some st' -> t' <> t ->
  nth_error (ths st') t' = nth_error (ths st) t'.
Proof.
  intros H Hn. apply step_inv in H as (l & s' & l' & _ & _ & ->). simpl.
  apply nth_list_upd_neq. auto.
Qed.

Lemma step_length ar t st st' : step ar t st = Some st' -> length (ths st') = length (ths st).
Proof. intros H. apply step_inv in H as (l & s' & l' & _ & _ & ->). simpl. apply list_upd_length. Qed.
Lemma run_length ar sched st : length (ths (run ar sched st)) = length (ths st).
Proof.
  revert st. induction sched as [|t sched IH]; intros st; [reflexivity|].
  change (run ar (t :: sched) st) with (run ar sched (step_or_stay ar st t)). rewrite IH.
  unfold step_or_stay. destruct (step ar t st) eqn:E; auto. eapply step_length; eauto.
Qed.

Lemma done_no_step ar t st l : nth_error (ths st) t = Some l -> done l = true -> step ar t st = None.
Proof.
  intros El Hd. unfold step. rewrite El. unfold step_local, done in *.
  destruct (prog l); [|discriminate]. destruct (pc l); try discriminate. reflexivity.
Qed.

Lemma done_stable ar sched st t l : nth_error (ths st) t = Some l -> done l = true ->
  nth_error (ths (run ar sched st)) t = Some l.
Proof.
  revert st. induction sched as [|t' sched IH]; intros st El Hd; [exact El|].
  change (run ar (t' :: sched) st) with (run ar sched (step_or_stay ar st t')).
  apply IH; auto. unfold step_or_stay. destruct (step ar t' st) as [st'|] eqn:E; auto.
  destruct (Nat.eq_dec t t') as [->|Hn].
  - rewrite (done_no_step _ _ _ _ El Hd) in E. discriminate.
  - rewrite (step_other _ _ _ _ _ E Hn). exact El.
Qed.

Lemma Inv_run_from sched st : Inv st -> Inv (run cur sched st).
Proof. apply run_inv. intros; eapply Inv_step; eauto. Qed.

(** one thread can always be driven to the end of its program: when it is blocked we step a
    thread that is inside a critical region or a stream session (that decreases [Bsum] and leaves
    [mu] of our thread alone), otherwise we step the thread itself (that decreases its [mu]) *)
Lemma finish_one t : forall m b st l,
  Inv st -> nth_error (ths st) t = Some l -> mu (sh st) l = m -> Bsum (ths st) = b ->
  exists sched l', nth_error (ths (run cur sched st)) t = Some l' /\ done l' = true.
Proof.
  induction m as [m IHm] using lt_wf_ind. induction b as [b IHb] using lt_wf_ind.
  intros st l HI El Hm Hb.
  destruct (done l) eqn:Hd; [exists [], l; auto|].
  destruct (step cur t st) as [st'|] eqn:Es.
  - pose proof (Inv_step _ _ _ HI Es) as HI'.
    destruct HI as ([HS HLoc] & _ & (rk & pv & F & _)).
    apply step_inv in Es as Hs. destruct Hs as (l0 & s' & l' & El0 & Esl & ->). rewrite El in El0. inv El0.
    pose proof (step_local_measure _ _ _ _ _ _ _ HS (HLoc _ _ El) F Esl) as Hlt.
    destruct (IHm (mu s' l') Hlt (Bsum (list_upd (ths st) t (fun _ => l'))) _ l' HI') as (sched & l1 & E1 & D1); auto.
    { simpl. apply nth_list_upd_eq with (f := fun _ => l') in El. exact El. }
    exists (t :: sched), l1. rewrite (run_cons _ _ _ _ _ Es). auto.
  - destruct (blocked_has_enabled st t l HI El Hd Es) as (t' & l' & s' & n & El' & Hr & Hs).
    assert (Hni : pc l' <> PIdle) by (intros E; rewrite E in Hr; destruct Hr as [Hr|Hr]; apply Hr; reflexivity).
    destruct (step_Some_intro _ _ _ _ _ _ El' Hni Hs) as [st' Hst].
    assert (Hne : t <> t') by (intros ->; congruence).
    pose proof (Inv_step _ _ _ HI Hst) as HI'.
    destruct HI as ([HS HLoc] & _ & _).
    apply step_inv in Hst as Hs'. destruct Hs' as (l0 & s1 & l1 & El0 & Esl & Est). rewrite El' in El0. inv El0.
    apply step_local_inv in Esl as [(Ep & _)|(_ & n1 & Esp & ->)]; [congruence|].
    rewrite Hs in Esp. inv Esp.
    pose proof (region_step_rm _ _ _ _ _ HS (HLoc _ _ El') Hr Hs) as Hrm.
    pose proof (region_step_bw _ _ _ _ _ Hr Hs) as Hbw.
    assert (Elt : nth_error (ths (mkSt s1 (list_upd (ths st) t' (fun _ => apply_next l0 n1)))) t = Some l).
    { simpl. rewrite nth_list_upd_neq; auto. }
    assert (Hmu : mu s1 l = mu (sh st) l).
    { unfold mu. rewrite (pcm_ext _ _ _ Hrm). reflexivity. }
    assert (HB : Bsum (list_upd (ths st) t' (fun _ => apply_next l0 n1)) < Bsum (ths st)).
    { pose proof (Bsum_upd _ _ _ (apply_next l0 n1) El') as E. rewrite pc_apply_next in E.
      destruct n1; unfold nbw in Hbw; [|change (bw PIdle) with 0 in E]; lia. }
    destruct (IHb _ HB _ l HI' Elt Hmu eq_refl) as (sched & l2 & E2 & D2).
    exists (t' :: sched), l2. rewrite (run_cons _ _ _ _ _ Hst). auto.
Qed.

Lemma finish_upto : forall k st, Inv st -> k <= length (ths st) ->
  exists sched, forall t l, t < k -> nth_error (ths (run cur sched st)) t = Some l -> done l = true.
Proof.
  induction k as [|k IH]; intros st HI Hk.
  - exists []. intros t l Ht. lia.
  - destruct (IH st HI) as (sched1 & H1); [lia|].
    set (st1 := run cur sched1 st) in *.
    assert (HI1 : Inv st1) by (apply Inv_run_from; auto).
    destruct (nth_error (ths st1) k) as [lk|] eqn:Ek.
    2: { apply nth_error_None in Ek. unfold st1 in Ek. rewrite run_length in Ek. lia. }
    destruct (finish_one k _ _ st1 lk HI1 Ek eq_refl eq_refl) as (sched2 & lk' & E2 & D2).
    exists (sched1 ++ sched2). rewrite run_app. fold st1. intros t l Ht El.
    destruct (Nat.eq_dec t k) as [->|Hn]; [congruence|].
    destruct (nth_error (ths st1) t) as [lt0|] eqn:Et.
    + assert (Htk : t < k) by lia. pose proof (H1 t lt0 Htk Et) as Hd.
      rewrite (done_stable cur sched2 st1 t lt0 Et Hd) in El. inv El. exact Hd.
    + apply nth_error_None in Et. assert (nth_error (ths (run cur sched2 st1)) t <> None) by congruence.
      apply nth_error_Some in H. rewrite run_length in H. lia.
Qed.

Theorem can_finish s0 progs sched :
  good_shared s0 = true -> heap_forest s0 ->
  exists sched', final (run cur (sched ++ sched') (boot s0 progs)) = true.
Proof.
  intros Hg Hf. pose proof (Inv_run s0 progs sched Hg Hf) as HI.
  destruct (finish_upto (length (ths (run cur sched (boot s0 progs)))) _ HI (le_n _)) as (sched' & H).
  exists sched'. rewrite run_app. unfold final. apply forallb_forall. intros l Hin.
  apply In_nth_error in Hin as [t El]. apply (H t l); auto.
  rewrite <- (run_length cur sched' (run cur sched (boot s0 progs))). apply nth_lt in El. exact El.
Qed.

(** * The executable check [tree_shared] implies [heap_forest] *)
Lemma nat_in_spec x l : nat_in x l = true <-> In x l.
Proof.
  unfold nat_in. rewrite existsb_exists. split.
  - intros (y & Hy & E). apply Nat.eqb_eq in E. subst. exact Hy.
  - intros H. exists x. split; auto. apply Nat.eqb_refl.
Qed.
Lemma nodupb_spec l : nodupb l = true -> NoDup l.
Proof.
  induction l as [|x l IH]; simpl; [constructor|]. intros H. apply andb_true_iff in H as [H1 H2].
  constructor; auto. intros Hin. apply nat_in_spec in Hin. rewrite Hin in H1. discriminate.
Qed.
Lemma kids_dch s d : kids s d = drefs (dch s d).
Proof. unfold kids, dch, view. destruct (nth_error (dirs s) d); reflexivity. Qed.
Lemma is_removed_rm s d : is_removed s d = rm s d.
Proof. reflexivity. Qed.

Lemma tree_shared_forest s : tree_shared s = true -> heap_forest s.
Proof.
  unfold tree_shared. intros H. apply andb_true_iff in H as [Hall Hroot].
  set (rk := fun x => nth x (heights s) 0). fold rk in Hall.
  rewrite forallb_forall in Hall.
  assert (Hedge : forall d nm c, In (nm, RDir c) (dch s d) ->
            d < length (dirs s) /\ In c (kids s d) /\ NoDup (kids s d) /\
            c <> ROOT /\ rm s c = false /\ rk c < rk d /\
            forall d2, d2 < length (dirs s) -> In c (kids s d2) -> d = d2).
  { intros d nm c Hin.
    assert (Hd : d < length (dirs s)).
    { unfold dch, view in Hin. destruct (nth_error (dirs s) d) eqn:E; [eapply nth_lt; eauto|destruct Hin]. }
    assert (Hc : In c (kids s d)) by (rewrite kids_dch; apply drefs_In; eauto).
    specialize (Hall d). rewrite in_seq in Hall. specialize (Hall ltac:(lia)).
    apply andb_true_iff in Hall as [Hnd Hk]. rewrite forallb_forall in Hk. specialize (Hk c Hc).
    repeat (apply andb_true_iff in Hk as [Hk ?]).
    split; auto. split; auto. split; [apply nodupb_spec; auto|].
    split; [intros ->; rewrite Nat.eqb_refl in Hk; discriminate|].
    split; [rewrite <- is_removed_rm; destruct (is_removed s c); auto; discriminate|].
    split; [apply Nat.ltb_lt; auto|].
    intros d2 Hd2 Hin2. rewrite forallb_forall in H. specialize (H d2). rewrite in_seq in H.
    specialize (H ltac:(lia)). apply orb_true_iff in H as [H|H]; [apply Nat.eqb_eq; auto|].
    apply nat_in_spec in Hin2. rewrite Hin2 in H. discriminate. }
  exists rk. constructor.
  - intros d nm c Hin. apply Hedge in Hin. tauto.
  - reflexivity.
  - intros d. destruct (dch s d) as [|[nm r] ch] eqn:E; [constructor|].
    destruct (Nat.lt_ge_cases d (length (dirs s))) as [Hd|Hd].
    + specialize (Hall d). rewrite in_seq in Hall. specialize (Hall ltac:(lia)).
      apply andb_true_iff in Hall as [Hnd _]. rewrite kids_dch, E in Hnd. apply nodupb_spec. exact Hnd.
    + unfold dch, view in E. rewrite (proj2 (nth_error_None _ _) Hd) in E. discriminate.
  - intros d1 n1 d2 n2 c H1 H2. apply Hedge in H1 as (_ & _ & _ & _ & _ & _ & Hu).
    apply Hedge in H2 as (Hd2 & Hc2 & _). apply Hu; auto.
  - intros d nm Hin. apply Hedge in Hin as (_ & _ & _ & Hc & _). congruence.
  - intros d nm c Hin. apply Hedge in Hin. tauto.
  - rewrite <- is_removed_rm. destruct (is_removed s ROOT); auto; discriminate.
Qed.

Lemma empty_forest : heap_forest empty_shared.
Proof. apply tree_shared_forest. reflexivity. Qed.

(** every state reachable from a tree-shaped heap is again good for the theorems *)
Theorem no_deadlock_tree s0 progs sched :
  good_shared s0 = true -> tree_shared s0 = true ->
  let st := run cur sched (boot s0 progs) in
  (forall t, step cur t st = None) -> final st = true.
Proof. intros Hg Ht. apply no_deadlock; auto using tree_shared_forest. Qed.

Theorem can_finish_tree s0 progs sched :
  good_shared s0 = true -> tree_shared s0 = true ->
  exists sched', final (run cur (sched ++ sched') (boot s0 progs)) = true.
Proof. intros Hg Ht. apply can_finish; auto using tree_shared_forest. Qed.

(** * Why [good_shared] alone is not enough (artefacts of initial heaps that the memfs API cannot
    build; the theorems above therefore ask for a tree-shaped initial heap) *)
(** a cyclic heap (the root links to itself): the deep copy of Copy "/" -> "/x" runs out of fuel
    in the model (in Go: unbounded recursion), the only thread is stuck for ever *)
Definition s_cyclic : shared := mkSh [mkDir [(nA, RDir 0)] false None] [].
Definition st_cyclic : state := run cur [0; 0] (boot s_cyclic [[CCopy CAny [] [nX]]]).
Lemma one_thread_others ar st t : length (ths st) = 1 -> step ar (S t) st = None.
Proof.
  intros H. unfold step. destruct (nth_error (ths st) (S t)) eqn:E; auto. apply nth_lt in E. lia.
Qed.
Theorem cyclic_heap_deadlock :
  good_shared s_cyclic = true /\ tree_shared s_cyclic = false /\
  (forall t, step cur t st_cyclic = None) /\ final st_cyclic = false.
Proof.
  split; [reflexivity|]. split; [reflexivity|]. split; [|vm_compute; reflexivity].
  intros [|t]; [vm_compute; reflexivity|]. apply one_thread_others. vm_compute. reflexivity.
Qed.

(** a directory object linked under two names: after Remove "a" the object carries the removed
    mark but is still reachable as "d"; MkdirAll "d/x" then restarts from the root for ever *)
Definition s_shared_dir : shared :=
  mkSh [mkDir [(nA, RDir 1); (nD, RDir 1)] false None; mkDir [] false None] [].
Definition st_loop0 : state := run cur (repeat 0 6) (boot s_shared_dir [[CRemove [nA] false; CMkdir [nD; nX]]]).
Definition st_loop1 : state := run cur [0] st_loop0.
Definition st_loop2 : state := run cur [0; 0] st_loop0.
Theorem shared_dir_livelock :
  good_shared s_shared_dir = true /\ tree_shared s_shared_dir = false /\
  forall sched, final (run cur sched st_loop0) = false.
Proof.
  split; [reflexivity|]. split; [reflexivity|].
  assert (J : forall sched st, st = st_loop0 \/ st = st_loop1 \/ st = st_loop2 -> final (run cur sched st) = false).
  { induction sched as [|t sched IH]; intros st Hst.
    - destruct Hst as [->|[->| ->]]; vm_compute; reflexivity.
    - change (run cur (t :: sched) st) with (run cur sched (step_or_stay cur st t)). apply IH.
      unfold step_or_stay. destruct t as [|t].
      + destruct Hst as [->|[->| ->]].
        * right; left. vm_compute. reflexivity.
        * right; right. vm_compute. reflexivity.
        * left. vm_compute. reflexivity.
      + rewrite one_thread_others; auto. destruct Hst as [->|[->| ->]]; vm_compute; reflexivity. }
  intros sched. apply J. auto.
Qed.

(** * Nested sessions (outside the program space of the theorems): a goroutine that holds a
    Writer session on x and calls ReadFile x waits for itself; two goroutines that each hold a
    session and read the other's file wait for each other.  The real memfs does the same
    (sync.RWMutex is not reentrant); this is by design, see DESIGN.md. *)
Lemma step_nested_plain ar t st : step_nested (fun _ => None) ar t st = step ar t st.
Proof. unfold step_nested. destruct (nth_error (ths st) t); reflexivity. Qed.

Definition dep_self (t : nat) : option nat := match t with 0 => Some 1 | _ => None end.
Definition st_nested_self : state :=
  run_nested dep_self cur [0; 0; 0; 1; 1]
    (boot (setup [CWrite [nX] [9%N]]) [[CWriter [nX] []]; [CRead [nX]]]).
Definition dep_cross (t : nat) : option nat := match t with 0 => Some 2 | 1 => Some 3 | _ => None end.
Definition st_nested_cross : state :=
  run_nested dep_cross cur [0; 0; 0; 1; 1; 1; 2; 2; 3; 3]
    (boot (setup [CWrite [nX] [9%N]; CWrite [nY] [8%N]])
          [[CWriter [nX] []]; [CWriter [nY] []]; [CRead [nY]]; [CRead [nX]]]).

Lemma few_threads_others ar dep st n t : length (ths st) = n -> n <= t -> step_nested dep ar t st = None.
Proof.
  intros H Hle. unfold step_nested, step.
  destruct (nth_error (ths st) t) eqn:E; auto. apply nth_lt in E. lia.
Qed.

Theorem nested_session_deadlock :
  ((forall t, step_nested dep_self cur t st_nested_self = None) /\ final st_nested_self = false /\
   map pc (ths st_nested_self) = [PWriting 0 []; PReadData 0]) /\
  ((forall t, step_nested dep_cross cur t st_nested_cross = None) /\ final st_nested_cross = false /\
   map pc (ths st_nested_cross) = [PWriting 0 []; PWriting 1 []; PReadData 1; PReadData 0]).
Proof.
  split; (split; [|split; vm_compute; reflexivity]).
  - intros [|[|t]]; try (vm_compute; reflexivity).
    apply (few_threads_others _ _ _ 2); [vm_compute; reflexivity|lia].
  - intros [|[|[|[|t]]]]; try (vm_compute; reflexivity).
    apply (few_threads_others _ _ _ 4); [vm_compute; reflexivity|lia].
Qed.

(** the lock-holder progress invariant, stated over reachable states *)
Definition holds_lock (p : pcs) : bool :=
  match p with PInL _ _ _ _ _ | PWriterAcq _ _ _ | PWriting _ _ | PReaderClose _ => true | _ => false end.
Lemma in_region_holds p : in_region p -> holds_lock p = true.
Proof. destruct p; simpl; auto; intros [H|H]; exfalso; apply H; reflexivity. Qed.

Theorem lock_holder_progress s0 progs sched t l :
  good_shared s0 = true -> tree_shared s0 = true ->
  let st := run cur sched (boot s0 progs) in
  nth_error (ths st) t = Some l -> done l = false -> step cur t st = None ->
  exists t' l' st', nth_error (ths st) t' = Some l' /\ holds_lock (pc l') = true /\
                    step cur t' st = Some st'.
Proof.
  intros Hg Ht st El Hd Hn.
  pose proof (Inv_run s0 progs sched Hg (tree_shared_forest _ Ht)) as HI. fold st in HI.
  destruct (blocked_has_enabled st t l HI El Hd Hn) as (t' & l' & s' & n & El' & Hr & Hs).
  assert (Hni : pc l' <> PIdle) by (intros E; rewrite E in Hr; destruct Hr as [Hr|Hr]; apply Hr; reflexivity).
  destruct (step_Some_intro _ _ _ _ _ _ El' Hni Hs) as [st' Hst].
  exists t', l', st'. auto using in_region_holds.
Qed.
