(** Proofs about Model/PlainMap.v: association lists, split/join, [ins], flatten as the list of
    leaf paths, and the two round trips. *)
From GC Require Import Common.Base Model.PlainMap.
From Coq Require Import Lia ZifyBool ZifyNat ZifyN Permutation.

Local Open Scope N_scope.

(** * equality tests *)

Lemma bytes_eqb_false a b : bytes_eqb a b = false <-> a <> b.
Proof.
  split.
  - intros H E. subst. rewrite bytes_eqb_refl in H. discriminate.
  - intro H. destruct (bytes_eqb a b) eqn:E; [|reflexivity]. apply bytes_eqb_spec in E. contradiction.
Qed.

Lemma bytes_eqb_sym a b : bytes_eqb a b = bytes_eqb b a.
Proof.
  destruct (bytes_eqb a b) eqn:E.
  - apply bytes_eqb_spec in E. subst. symmetry. apply bytes_eqb_refl.
  - symmetry. apply bytes_eqb_false. apply bytes_eqb_false in E. congruence.
Qed.

Lemma path_eqb_spec p q : path_eqb p q = true <-> p = q.
Proof.
  unfold path_eqb. revert q; induction p as [|a p IH]; intros [|b q]; cbn [list_eqb]; split; intro H;
    try reflexivity; try discriminate.
  - apply andb_true_iff in H as [H1 H2]. apply bytes_eqb_spec in H1. apply IH in H2. congruence.
  - inversion H; subst. rewrite bytes_eqb_refl. apply IH. reflexivity.
Qed.

Lemma path_eqb_refl p : path_eqb p p = true.
Proof. apply path_eqb_spec. reflexivity. Qed.

Lemma path_eqb_false p q : path_eqb p q = false <-> p <> q.
Proof.
  split.
  - intros H E. subst. rewrite path_eqb_refl in H. discriminate.
  - intro H. destruct (path_eqb p q) eqn:E; [|reflexivity]. apply path_eqb_spec in E. contradiction.
Qed.

(** * association lists *)

Section Assoc.
  Context {V : Type}.
  Implicit Types l : list (bytes * V).

  Lemma lookup_set_same k (v : V) l : lookup k (set k v l) = Some v.
  Proof.
    induction l as [|[k' v'] l IH]; cbn [set lookup].
    - rewrite bytes_eqb_refl. reflexivity.
    - destruct (bytes_eqb k k') eqn:E; cbn [lookup]; [rewrite bytes_eqb_refl; reflexivity|].
      rewrite E. exact IH.
  Qed.

  Lemma lookup_set_other k k' (v : V) l : k' <> k -> lookup k' (set k v l) = lookup k' l.
  Proof.
    intro Hne. induction l as [|[k2 v2] l IH]; cbn [set lookup].
    - replace (bytes_eqb k' k) with false by (symmetry; apply bytes_eqb_false; assumption). reflexivity.
    - destruct (bytes_eqb k k2) eqn:E; cbn [lookup].
      + apply bytes_eqb_spec in E. subst k2.
        replace (bytes_eqb k' k) with false by (symmetry; apply bytes_eqb_false; assumption). reflexivity.
      + rewrite IH. reflexivity.
  Qed.

  Lemma lookup_none_set k k' (v : V) l : lookup k' l = None -> k' <> k -> lookup k' (set k v l) = None.
  Proof. intros H Hne. rewrite lookup_set_other; assumption. Qed.

  Lemma nodup_keys_set k (v : V) l : nodup_keys l = true -> nodup_keys (set k v l) = true.
  Proof.
    induction l as [|[k' v'] l IH]; cbn [set nodup_keys]; intro H; [reflexivity|].
    destruct (lookup k' l) eqn:E; [discriminate|].
    destruct (bytes_eqb k k') eqn:Ek; cbn [nodup_keys].
    - apply bytes_eqb_spec in Ek. subst k'. rewrite E. exact H.
    - rewrite lookup_none_set; [apply IH; exact H|exact E|]. apply bytes_eqb_false in Ek. congruence.
  Qed.

  Lemma forallb_set (f : bytes * V -> bool) k v l :
    forallb f l = true -> f (k, v) = true -> forallb f (set k v l) = true.
  Proof.
    intros Hl Hf. induction l as [|[k' v'] l IH]; cbn [set forallb]; [rewrite Hf; reflexivity|].
    cbn [forallb] in Hl. apply andb_true_iff in Hl as [H1 H2].
    destruct (bytes_eqb k k'); cbn [forallb]; [rewrite Hf, H2; reflexivity|rewrite H1, IH by assumption; reflexivity].
  Qed.

  Lemma set_nonempty k (v : V) l : set k v l <> [].
  Proof. destruct l as [|[k' v'] l]; cbn [set]; [discriminate|]. destruct (bytes_eqb k k'); discriminate. Qed.

  Lemma lookup_In k (v : V) l : lookup k l = Some v -> In (k, v) l.
  Proof.
    induction l as [|[k' v'] l IH]; cbn [lookup]; [discriminate|].
    destruct (bytes_eqb k k') eqn:E.
    - intro H. inversion H; subst. apply bytes_eqb_spec in E. subst. left. reflexivity.
    - intro H. right. apply IH. exact H.
  Qed.

  Lemma lookup_None_notin k l : lookup k l = None -> forall v, ~ In (k, v) l.
  Proof.
    induction l as [|[k' v'] l IH]; cbn [lookup]; intros H v Hin; [exact Hin|].
    destruct (bytes_eqb k k') eqn:E; [discriminate|].
    destruct Hin as [Hin|Hin]; [inversion Hin; subst; rewrite bytes_eqb_refl in E; discriminate|].
    eapply IH; eassumption.
  Qed.

  Lemma In_lookup_nodup k (v : V) l : nodup_keys l = true -> In (k, v) l -> lookup k l = Some v.
  Proof.
    induction l as [|[k' v'] l IH]; cbn [nodup_keys lookup]; intros H Hin; [contradiction|].
    destruct (lookup k' l) eqn:E; [discriminate|].
    destruct Hin as [Hin|Hin].
    - inversion Hin; subst. rewrite bytes_eqb_refl. reflexivity.
    - destruct (bytes_eqb k k') eqn:Ek.
      + apply bytes_eqb_spec in Ek. subst k'. exfalso. eapply lookup_None_notin; eassumption.
      + apply IH; assumption.
  Qed.

  Lemma lookup_last_In k (v : V) l : lookup_last k l = Some v -> In (k, v) l.
  Proof.
    revert v. induction l as [|[k' v'] l IH]; cbn [lookup_last]; intros v; [discriminate|].
    destruct (lookup_last k l) eqn:E.
    - intro H. inversion H; subst. right. apply IH. reflexivity.
    - destruct (bytes_eqb k k') eqn:Ek; [|discriminate]. intro H. inversion H; subst.
      apply bytes_eqb_spec in Ek. subst. left. reflexivity.
  Qed.

  Lemma lookup_last_None_notin k l : lookup_last k l = None -> forall v, ~ In (k, v) l.
  Proof.
    induction l as [|[k' v'] l IH]; cbn [lookup_last]; intros H v Hin; [exact Hin|].
    destruct (lookup_last k l) eqn:E; [discriminate|].
    destruct (bytes_eqb k k') eqn:Ek; [discriminate|].
    destruct Hin as [Hin|Hin]; [inversion Hin; subst; rewrite bytes_eqb_refl in Ek; discriminate|].
    eapply IH; eauto.
  Qed.

  Lemma lookup_last_app k l1 l2 :
    lookup_last k (l1 ++ l2) = match lookup_last k l2 with Some x => Some x | None => lookup_last k l1 end.
  Proof.
    induction l1 as [|[k' v'] l1 IH]; cbn [app lookup_last].
    - destruct (lookup_last k l2); reflexivity.
    - rewrite IH. destruct (lookup_last k l2); reflexivity.
  Qed.

  (** a list in which every key has at most one value denotes a map that only depends on its
      set of entries *)
  Definition functional l : Prop := forall k v w, In (k, v) l -> In (k, w) l -> v = w.

  Lemma lookup_last_functional k (v : V) l : functional l -> In (k, v) l -> lookup_last k l = Some v.
  Proof.
    intros F Hin. destruct (lookup_last k l) as [w|] eqn:E.
    - f_equal. eapply F; [|eassumption]. apply lookup_last_In. exact E.
    - exfalso. eapply lookup_last_None_notin; eassumption.
  Qed.

  Lemma functional_perm_lookup_last l1 l2 : functional l1 -> Permutation l1 l2 ->
    forall k, lookup_last k l1 = lookup_last k l2.
  Proof.
    intros F P k.
    assert (F2 : functional l2).
    { intros k0 v w H1 H2. eapply F; eapply Permutation_in; try eassumption; apply Permutation_sym; exact P. }
    destruct (lookup_last k l1) as [v|] eqn:E.
    - symmetry. apply lookup_last_functional; [exact F2|]. eapply Permutation_in; [exact P|].
      apply lookup_last_In. exact E.
    - destruct (lookup_last k l2) as [w|] eqn:E2; [|reflexivity]. exfalso.
      eapply lookup_last_None_notin; [exact E|]. eapply Permutation_in; [apply Permutation_sym; exact P|].
      apply lookup_last_In. exact E2.
  Qed.

  Lemma nodup_functional l : nodup_keys l = true -> functional l.
  Proof.
    intros H k v w H1 H2. apply (In_lookup_nodup _ _ _ H) in H1. apply (In_lookup_nodup _ _ _ H) in H2. congruence.
  Qed.
End Assoc.

(** * Split and Join *)

Definition dots (p : list bytes) : bytes := flat_map (cons DOT) p.

Lemma split_dot_nonnil s : split_dot s <> [].
Proof.
  induction s as [|c s IH]; cbn [split_dot]; [discriminate|].
  destruct (N.eqb c DOT); [discriminate|]. destruct (split_dot s); [contradiction|discriminate].
Qed.

Lemma join_dot_cons k p : join_dot (k :: p) = k ++ dots p.
Proof.
  revert k; induction p as [|s r IH]; intro k.
  - cbn [join_dot dots flat_map]. rewrite app_nil_r. reflexivity.
  - change (join_dot (k :: s :: r)) with (k ++ DOT :: join_dot (s :: r)).
    rewrite IH. reflexivity.
Qed.

Lemma join_split s : join_dot (split_dot s) = s.
Proof.
  induction s as [|c s IH]; [reflexivity|]. cbn [split_dot].
  destruct (N.eqb c DOT) eqn:E.
  - apply N.eqb_eq in E. subst c. rewrite join_dot_cons. cbn [app].
    destruct (split_dot s) as [|seg r] eqn:Es; [exfalso; eapply split_dot_nonnil; eassumption|].
    rewrite join_dot_cons in IH. cbn [dots flat_map app]. fold (dots r). rewrite IH. reflexivity.
  - destruct (split_dot s) as [|seg r] eqn:Es; [exfalso; eapply split_dot_nonnil; eassumption|].
    rewrite join_dot_cons in *. cbn [app]. rewrite IH. reflexivity.
Qed.

Lemma split_dot_inj a b : split_dot a = split_dot b -> a = b.
Proof. intro H. rewrite <- (join_split a), <- (join_split b), H. reflexivity. Qed.

Lemma split_dotfree s : dotfree s = true -> split_dot s = [s].
Proof.
  induction s as [|c s IH]; [reflexivity|]. unfold dotfree in *. cbn [forallb split_dot]. intro H.
  apply andb_true_iff in H as [Hc Hs]. apply negb_true_iff in Hc. rewrite Hc, IH by assumption. reflexivity.
Qed.

Lemma split_app_dot s x : dotfree s = true -> split_dot (s ++ DOT :: x) = s :: split_dot x.
Proof.
  induction s as [|c s IH]; intro H.
  - cbn [app split_dot]. rewrite N.eqb_refl. reflexivity.
  - unfold dotfree in *. cbn [forallb] in H. apply andb_true_iff in H as [Hc Hs]. apply negb_true_iff in Hc.
    cbn [app split_dot]. rewrite Hc, IH by assumption. reflexivity.
Qed.

Lemma split_join p : p <> [] -> Forall (fun s => dotfree s = true) p -> split_dot (join_dot p) = p.
Proof.
  induction p as [|s r IH]; intros Hne HF; [contradiction|].
  inversion HF as [|? ? Hs Hr]; subst.
  destruct r as [|s' r']; [apply split_dotfree; assumption|].
  change (join_dot (s :: s' :: r')) with (s ++ DOT :: join_dot (s' :: r')).
  rewrite split_app_dot by assumption. rewrite IH; [reflexivity|discriminate|assumption].
Qed.

Lemma split_dot_dotfree s : Forall (fun x => dotfree x = true) (split_dot s).
Proof.
  induction s as [|c s IH]; cbn [split_dot]; [repeat constructor|].
  destruct (N.eqb c DOT) eqn:E; [constructor; [reflexivity|assumption]|].
  destruct (split_dot s) as [|seg r]; [repeat constructor; unfold dotfree; cbn; rewrite E; reflexivity|].
  inversion IH; subst. constructor; [|assumption]. unfold dotfree in *. cbn [forallb]. rewrite E. assumption.
Qed.

Lemma join_dot_nonempty k p : k <> [] -> join_dot (k :: p) <> [].
Proof. intro H. rewrite join_dot_cons. destruct k; [contradiction|discriminate]. Qed.

(** * induction on nested maps *)

Lemma jt_ind2 (P : jt -> Prop) :
  (forall v, P (Leaf v)) ->
  (forall l, Forall (fun kc => P (snd kc)) l -> P (Obj l)) ->
  forall t, P t.
Proof.
  intros HL HO. fix IH 1. intros [v|l]; [apply HL|]. apply HO.
  induction l as [|[k c] l IHl]; constructor; [apply IH|exact IHl].
Qed.

Lemma wf_t_obj l : wf_t (Obj l) = true ->
  l <> [] /\ nodup_keys l = true /\ forall k c, In (k, c) l -> dotfree k = true /\ wf_t c = true.
Proof.
  cbn [wf_t]. intro H. apply andb_true_iff in H as [H H3]. apply andb_true_iff in H as [H1 H2].
  split; [destruct l; [discriminate|discriminate]|]. split; [exact H2|].
  intros k c Hin. rewrite forallb_forall in H3. specialize (H3 _ Hin). cbn [fst snd] in H3.
  apply andb_true_iff in H3. exact H3.
Qed.

Lemma wf_children_spec l : wf_children l = true ->
  nodup_keys l = true /\ forall k c, In (k, c) l -> dotfree k = true /\ wf_t c = true.
Proof.
  unfold wf_children. intro H. apply andb_true_iff in H as [H2 H3]. split; [exact H2|].
  intros k c Hin. rewrite forallb_forall in H3. specialize (H3 _ Hin). cbn [fst snd] in H3.
  apply andb_true_iff in H3. exact H3.
Qed.

(** * leaves: the (path, value) pairs of a nested map, depth first *)

Fixpoint leaves_t (t : jt) : list (list bytes * bytes) :=
  match t with
  | Leaf v => [([], v)]
  | Obj l => flat_map (fun kc => map (fun pv => (fst kc :: fst pv, snd pv)) (leaves_t (snd kc))) l
  end.

Lemma map_flat_map {A B C} (f : B -> C) (g : A -> list B) l :
  map f (flat_map g l) = flat_map (fun x => map f (g x)) l.
Proof. induction l as [|x l IH]; [reflexivity|]. cbn [flat_map]. rewrite map_app, IH. reflexivity. Qed.

Lemma flat_map_ext_Forall {A B} (f g : A -> list B) l :
  Forall (fun x => f x = g x) l -> flat_map f l = flat_map g l.
Proof. induction 1 as [|x l Hx _ IH]; [reflexivity|]. cbn [flat_map]. rewrite Hx, IH. reflexivity. Qed.

(** L1: flatten = join the leaf paths *)
Lemma flat_t_leaves t : forall key,
  flat_t key t = map (fun pv => (key ++ dots (fst pv), snd pv)) (leaves_t t).
Proof.
  induction t as [v|l IH] using jt_ind2; intro key.
  - cbn [flat_t leaves_t map fst snd dots flat_map]. rewrite app_nil_r. reflexivity.
  - cbn [flat_t leaves_t]. rewrite map_flat_map. apply flat_map_ext_Forall.
    eapply Forall_impl; [|exact IH]. intros [k c] Hc. cbn [fst snd] in *.
    rewrite Hc, map_map. apply map_ext. intros [p v]. cbn [fst snd dots flat_map].
    rewrite <- app_assoc. reflexivity.
Qed.

Lemma flatten_leaves l :
  flatten l = map (fun pv => (join_dot (fst pv), snd pv)) (leaves_t (Obj l)).
Proof.
  unfold flatten. cbn [leaves_t]. rewrite map_flat_map. apply flat_map_ext_Forall.
  apply Forall_forall. intros [k c] _. cbn [fst snd]. rewrite flat_t_leaves, map_map.
  apply map_ext. intros [p v]. cbn [fst snd]. rewrite join_dot_cons. reflexivity.
Qed.

(** hereditarily unique keys *)
Inductive nodup_t : jt -> Prop :=
| nd_leaf v : nodup_t (Leaf v)
| nd_obj l : nodup_keys l = true -> (forall k c, In (k, c) l -> nodup_t c) -> nodup_t (Obj l).

Lemma wf_nodup_t t : wf_t t = true -> nodup_t t.
Proof.
  induction t as [v|l IH] using jt_ind2; intro H; [constructor|].
  apply wf_t_obj in H as (_ & Hn & Hc). constructor; [exact Hn|].
  intros k c Hin. rewrite Forall_forall in IH. apply (IH (k, c) Hin). apply (Hc k c Hin).
Qed.

Lemma wf_children_nodup_t l : wf_children l = true -> nodup_t (Obj l).
Proof.
  intro H. apply wf_children_spec in H as [Hn Hc]. constructor; [exact Hn|].
  intros k c Hin. apply wf_nodup_t. apply (Hc k c Hin).
Qed.

(** L3: membership in the leaves = leafat *)
Lemma leaves_leafat t : nodup_t t -> forall p v, In (p, v) (leaves_t t) <-> leafat_t p t = Some v.
Proof.
  induction t as [v0|l IH] using jt_ind2; intros Hnd p v.
  - cbn [leaves_t In]. destruct p as [|k rest]; cbn [leafat_t]; split; intro H.
    + destruct H as [H|[]]. inversion H. reflexivity.
    + inversion H. left. reflexivity.
    + destruct H as [H|[]]. inversion H.
    + discriminate.
  - inversion Hnd as [|? Hn Hc]; subst. cbn [leaves_t]. rewrite in_flat_map. split.
    + intros ([k c] & Hin & Hp). cbn [fst snd] in Hp. apply in_map_iff in Hp as ([p' v'] & E & Hp').
      cbn [fst snd] in E. inversion E; subst. cbn [leafat_t].
      rewrite (In_lookup_nodup _ _ _ Hn Hin). rewrite Forall_forall in IH.
      apply (IH (k, c) Hin (Hc k c Hin)). exact Hp'.
    + destruct p as [|k rest]; cbn [leafat_t]; [discriminate|].
      destruct (lookup k l) as [c|] eqn:E; [|discriminate]. intro H.
      apply lookup_In in E. exists (k, c). split; [exact E|]. cbn [fst snd].
      apply in_map_iff. exists (rest, v). split; [reflexivity|].
      rewrite Forall_forall in IH. apply (IH (k, c) E (Hc k c E)). exact H.
Qed.

(** a leaf path has no other leaf path as prefix *)
Lemma leafat_prefix : forall p q t v w,
  leafat_t p t = Some v -> leafat_t q t = Some w -> path_prefix p q = true -> p = q.
Proof.
  induction p as [|k p IH]; intros q t v w Hp Hq Hpre.
  - destruct t; cbn [leafat_t] in Hp; [|discriminate]. destruct q; [reflexivity|]. discriminate.
  - destruct q as [|k' q]; [discriminate|]. cbn [path_prefix] in Hpre.
    apply andb_true_iff in Hpre as [Hk Hpre]. apply bytes_eqb_spec in Hk. subst k'.
    destruct t as [|l]; [discriminate|]. cbn [leafat_t] in *.
    destruct (lookup k l) as [c|]; [|discriminate]. f_equal. eapply IH; eassumption.
Qed.

(** L2: paths of a well-formed map are non-empty lists of dot-free segments *)
Lemma leaves_dotfree t : wf_t t = true -> forall p v, In (p, v) (leaves_t t) -> Forall (fun s => dotfree s = true) p.
Proof.
  induction t as [v0|l IH] using jt_ind2; intros H p v Hin.
  - destruct Hin as [E|[]]. inversion E. constructor.
  - apply wf_t_obj in H as (_ & _ & Hc). cbn [leaves_t] in Hin. apply in_flat_map in Hin as ([k c] & Hkc & Hp).
    cbn [fst snd] in Hp. apply in_map_iff in Hp as ([p' v'] & E & Hp'). cbn [fst snd] in E. inversion E; subst.
    destruct (Hc k c Hkc) as [Hk Hwc]. constructor; [exact Hk|].
    rewrite Forall_forall in IH. eapply (IH (k, c) Hkc Hwc). exact Hp'.
Qed.

Lemma leaves_children_paths l : wf_children l = true -> forall p v, In (p, v) (leaves_t (Obj l)) ->
  Forall (fun s => dotfree s = true) p /\ exists k r, p = k :: r /\ exists c, In (k, c) l.
Proof.
  intros H p v Hin. apply wf_children_spec in H as [_ Hc].
  cbn [leaves_t] in Hin. apply in_flat_map in Hin as ([k c] & Hkc & Hp).
  cbn [fst snd] in Hp. apply in_map_iff in Hp as ([p' v'] & E & Hp'). cbn [fst snd] in E. inversion E; subst.
  destruct (Hc k c Hkc) as [Hk Hwc]. split.
  - constructor; [exact Hk|]. eapply leaves_dotfree; eassumption.
  - exists k, p'. split; [reflexivity|]. exists c. exact Hkc.
Qed.

(** * ins: one assignment of ToRecursiveMap *)

Lemma leafat_t_empty q : leafat_t q (Obj []) = None.
Proof. destruct q; reflexivity. Qed.

(** what the tree looks like after a successful [ins] *)
Lemma ins_leafat : forall p v node node', ins p v node = Some node' ->
  forall q, leafat q node' =
            if path_eqb q p then Some v else if path_prefix p q then None else leafat q node.
Proof.
  unfold leafat.
  induction p as [|k p IH]; intros v node node' H q; [discriminate|].
  cbn [ins] in H. destruct p as [|k2 p2].
  - inversion H; subst node'. clear H IH.
    destruct q as [|k' rest]; [reflexivity|]. cbn [leafat_t path_prefix]. unfold path_eqb. cbn [list_eqb].
    destruct (bytes_eqb k' k) eqn:E.
    + apply bytes_eqb_spec in E. subst k'. rewrite lookup_set_same, bytes_eqb_refl. cbn [andb].
      destruct rest; reflexivity.
    + rewrite lookup_set_other by (apply bytes_eqb_false; exact E). rewrite bytes_eqb_sym, E. reflexivity.
  - assert (G : forall c c', ins (k2 :: p2) v c = Some c' -> (forall rest, leafat_t rest (Obj c) = match lookup k node with Some t => leafat_t rest t | None => None end) ->
                 node' = set k (Obj c') node ->
                 leafat_t q (Obj node') =
                 if path_eqb q (k :: k2 :: p2) then Some v else if path_prefix (k :: k2 :: p2) q then None else leafat_t q (Obj node)).
    { intros c c' Hc Hsame ->. destruct q as [|k' rest]; [reflexivity|].
      cbn [leafat_t]. unfold path_eqb. cbn [list_eqb]. cbn [path_prefix].
      destruct (bytes_eqb k' k) eqn:E.
      - apply bytes_eqb_spec in E. subst k'. rewrite lookup_set_same, bytes_eqb_refl. cbn [andb].
        rewrite (IH v c c' Hc rest). unfold path_eqb. rewrite Hsame. reflexivity.
      - rewrite lookup_set_other by (apply bytes_eqb_false; exact E). rewrite bytes_eqb_sym, E. reflexivity. }
    destruct (lookup k node) as [[lv|c]|] eqn:El; [discriminate| |].
    + destruct (ins (k2 :: p2) v c) as [c'|] eqn:Ec; [|discriminate]. inversion H; subst node'.
      eapply G; [exact Ec| |reflexivity]. intro rest. reflexivity.
    + destruct (ins (k2 :: p2) v []) as [c'|] eqn:Ec; [|discriminate]. inversion H; subst node'.
      eapply G; [exact Ec| |reflexivity]. intro rest. apply leafat_t_empty.
Qed.

(** [ins] succeeds when no strict prefix of the path is a leaf *)
Lemma ins_succeeds : forall p v node, p <> [] ->
  (forall q, q <> [] -> proper_prefix q p = true -> leafat q node = None) ->
  exists node', ins p v node = Some node'.
Proof.
  unfold leafat.
  induction p as [|k p IH]; intros v node Hne Hq; [contradiction|].
  cbn [ins]. destruct p as [|k2 p2]; [eexists; reflexivity|].
  assert (Hsub : forall c, (forall rest, leafat_t rest (Obj c) = match lookup k node with Some t => leafat_t rest t | None => None end) ->
                 exists c', ins (k2 :: p2) v c = Some c').
  { intros c Hsame. apply IH; [discriminate|]. intros q Hqne Hpp. rewrite Hsame.
    specialize (Hq (k :: q)). cbn [leafat_t] in Hq. apply Hq; [discriminate|].
    unfold proper_prefix, path_eqb in *. cbn [path_prefix list_eqb]. rewrite bytes_eqb_refl. exact Hpp. }
  destruct (lookup k node) as [[lv|c]|] eqn:El.
  - exfalso. specialize (Hq [k]). cbn [leafat_t] in Hq. rewrite El in Hq.
    assert (X : Some lv = None); [|discriminate]. apply Hq; [discriminate|].
    unfold proper_prefix, path_eqb. cbn [path_prefix list_eqb]. rewrite bytes_eqb_refl. reflexivity.
  - destruct (Hsub c) as [c' Hc']; [intro; reflexivity|]. rewrite Hc'. eexists; reflexivity.
  - destruct (Hsub []) as [c' Hc']; [intro; apply leafat_t_empty|]. rewrite Hc'. eexists; reflexivity.
Qed.

Lemma ins_nonempty p v node node' : ins p v node = Some node' -> node' <> [].
Proof.
  destruct p as [|k p]; [discriminate|]. cbn [ins]. destruct p as [|k2 p2].
  - intro H. inversion H. apply set_nonempty.
  - destruct (lookup k node) as [[lv|c]|]; [discriminate| |].
    + destruct (ins (k2 :: p2) v c); [|discriminate]. intro H. inversion H. apply set_nonempty.
    + destruct (ins (k2 :: p2) v []); [|discriminate]. intro H. inversion H. apply set_nonempty.
Qed.

Definition wfc_entry (kc : bytes * jt) : bool := dotfree (fst kc) && wf_t (snd kc).

Lemma wf_children_unfold l : wf_children l = nodup_keys l && forallb wfc_entry l.
Proof. reflexivity. Qed.

Lemma wf_t_obj_children c : c <> [] -> wf_children c = true -> wf_t (Obj c) = true.
Proof.
  intros Hne H. cbn [wf_t]. rewrite wf_children_unfold in H. apply andb_true_iff in H as [H1 H2].
  destruct c; [contradiction|]. cbn [negb andb]. rewrite H1. exact H2.
Qed.

Lemma lookup_wf k l t : wf_children l = true -> lookup k l = Some t -> wf_t t = true.
Proof.
  intros H E. apply lookup_In in E. apply wf_children_spec in H as [_ Hc]. apply (Hc k t E).
Qed.

Lemma wf_t_obj_inv c : wf_t (Obj c) = true -> wf_children c = true.
Proof.
  cbn [wf_t]. intro H. apply andb_true_iff in H as [H H3]. apply andb_true_iff in H as [_ H2].
  rewrite wf_children_unfold, H2. exact H3.
Qed.

Lemma ins_wf : forall p v node node', Forall (fun s => dotfree s = true) p -> wf_children node = true ->
  ins p v node = Some node' -> wf_children node' = true.
Proof.
  induction p as [|k p IH]; intros v node node' HF Hwf H; [discriminate|].
  inversion HF as [|? ? Hk Hp]; subst. cbn [ins] in H.
  assert (Hset : forall t, wf_t t = true -> wf_children (set k t node) = true).
  { intros t Ht. rewrite wf_children_unfold in *. apply andb_true_iff in Hwf as [H1 H2].
    rewrite nodup_keys_set by assumption. apply forallb_set; [assumption|].
    unfold wfc_entry. cbn [fst snd]. rewrite Hk, Ht. reflexivity. }
  destruct p as [|k2 p2].
  - inversion H; subst. apply Hset. reflexivity.
  - destruct (lookup k node) as [[lv|c]|] eqn:El; [discriminate| |].
    + destruct (ins (k2 :: p2) v c) as [c'|] eqn:Ec; [|discriminate]. inversion H; subst.
      apply Hset. apply wf_t_obj_children; [eapply ins_nonempty; eassumption|].
      eapply IH; [exact Hp| |exact Ec]. apply wf_t_obj_inv. eapply lookup_wf; eassumption.
    + destruct (ins (k2 :: p2) v []) as [c'|] eqn:Ec; [|discriminate]. inversion H; subst.
      apply Hset. apply wf_t_obj_children; [eapply ins_nonempty; eassumption|].
      eapply IH; [exact Hp| |exact Ec]. reflexivity.
Qed.

(** * path-keyed logs *)

Fixpoint plookup_last (q : list bytes) (l : list (list bytes * bytes)) : option bytes :=
  match l with
  | [] => None
  | (p, v) :: l' =>
    match plookup_last q l' with
    | Some x => Some x
    | None => if path_eqb q p then Some v else None
    end
  end.

Lemma plookup_last_app q l1 l2 :
  plookup_last q (l1 ++ l2) = match plookup_last q l2 with Some x => Some x | None => plookup_last q l1 end.
Proof.
  induction l1 as [|[p v] l1 IH]; cbn [app plookup_last].
  - destruct (plookup_last q l2); reflexivity.
  - rewrite IH. destruct (plookup_last q l2); reflexivity.
Qed.

Lemma plookup_last_In q v l : plookup_last q l = Some v -> In (q, v) l.
Proof.
  revert v. induction l as [|[p w] l IH]; cbn [plookup_last]; intro v; [discriminate|].
  destruct (plookup_last q l) eqn:E.
  - intro H. inversion H; subst. right. apply IH. reflexivity.
  - destruct (path_eqb q p) eqn:Ek; [|discriminate]. intro H. inversion H; subst.
    apply path_eqb_spec in Ek. subst. left. reflexivity.
Qed.

Lemma plookup_last_None_notin q l : plookup_last q l = None -> forall v, ~ In (q, v) l.
Proof.
  induction l as [|[p w] l IH]; cbn [plookup_last]; intros H v Hin; [exact Hin|].
  destruct (plookup_last q l) eqn:E; [discriminate|].
  destruct (path_eqb q p) eqn:Ek; [discriminate|].
  destruct Hin as [Hin|Hin]; [inversion Hin; subst; rewrite path_eqb_refl in Ek; discriminate|].
  eapply IH; eauto.
Qed.

Definition pm (m : flatmap) : list (list bytes * bytes) := map (fun kv => (split_dot (fst kv), snd kv)) m.

Lemma pm_In p v m : In (p, v) (pm m) <-> exists k, In (k, v) m /\ split_dot k = p.
Proof.
  unfold pm. rewrite in_map_iff. split.
  - intros ([k w] & E & Hin). cbn [fst snd] in E. inversion E; subst. exists k. split; [exact Hin|reflexivity].
  - intros (k & Hin & E). exists (k, v). split; [cbn [fst snd]; rewrite E; reflexivity|exact Hin].
Qed.

(** * unflatten on prefix-free maps, for every order of the entries *)

Lemma unflatten_from_ok : forall m done acc,
  wf_children acc = true ->
  (forall q, leafat q acc = plookup_last q done) ->
  (forall kv, In kv m -> fst kv <> []) ->
  (forall p q, In p (map fst (done ++ pm m)) -> In q (map fst (done ++ pm m)) -> proper_prefix p q = false) ->
  exists t, unflatten_from m acc = Ok t /\ wf_children t = true /\
            forall q, leafat q t = plookup_last q (done ++ pm m).
Proof.
  induction m as [|[k v] m IH]; intros done acc Hwf Hinv Hne Hpf.
  - exists acc. cbn [unflatten_from pm map]. rewrite app_nil_r. auto.
  - cbn [unflatten_from].
    destruct k as [|c0 k0]; [exfalso; apply (Hne ([], v)); [left; reflexivity|reflexivity]|].
    set (k := c0 :: k0) in *. set (p := split_dot k).
    assert (Hp_in : In p (map fst (done ++ pm ((k, v) :: m)))).
    { rewrite map_app. apply in_or_app. right. left. reflexivity. }
    destruct (ins_succeeds p v acc (split_dot_nonnil k)) as [node' Hins].
    { intros q Hq Hpp. rewrite Hinv. destruct (plookup_last q done) as [w|] eqn:E; [|reflexivity].
      exfalso. apply plookup_last_In in E.
      assert (Hq_in : In q (map fst (done ++ pm ((k, v) :: m)))).
      { rewrite map_app. apply in_or_app. left. apply in_map_iff. exists (q, w). auto. }
      rewrite (Hpf q p Hq_in Hp_in) in Hpp. discriminate. }
    fold p. rewrite Hins.
    assert (E : done ++ pm ((k, v) :: m) = (done ++ [(p, v)]) ++ pm m) by (rewrite <- app_assoc; reflexivity).
    rewrite E in *. apply IH.
    + eapply ins_wf; [apply split_dot_dotfree|exact Hwf|exact Hins].
    + intro q. rewrite (ins_leafat _ _ _ _ Hins q), plookup_last_app. cbn [plookup_last].
      destruct (path_eqb q p) eqn:Eq; [reflexivity|].
      destruct (path_prefix p q) eqn:Epre; [|apply Hinv].
      destruct (plookup_last q done) as [w|] eqn:Ed; [|reflexivity]. exfalso.
      apply plookup_last_In in Ed.
      assert (Hq_in : In q (map fst ((done ++ [(p, v)]) ++ pm m))).
      { rewrite !map_app. apply in_or_app. left. apply in_or_app. left. apply in_map_iff. exists (q, w). auto. }
      pose proof (Hpf p q Hp_in Hq_in) as X. unfold proper_prefix in X. rewrite Epre in X.
      assert (Y : path_eqb p q = false) by (apply path_eqb_false; apply path_eqb_false in Eq; congruence).
      rewrite Y in X. discriminate.
    + intros kv Hin. apply Hne. right. exact Hin.
    + exact Hpf.
Qed.

Lemma unflatten_ok m :
  (forall kv, In kv m -> fst kv <> []) ->
  (forall p q, In p (map fst (pm m)) -> In q (map fst (pm m)) -> proper_prefix p q = false) ->
  exists t, unflatten m = Ok t /\ wf_children t = true /\ forall q, leafat q t = plookup_last q (pm m).
Proof.
  intros Hne Hpf. apply (unflatten_from_ok m [] []); [reflexivity|intro q; apply leafat_t_empty|exact Hne|exact Hpf].
Qed.

(** * flatten of a well-formed map, entry by entry *)

Lemma flatten_In l k v : wf_children l = true ->
  (In (k, v) (flatten l) <-> exists p, k = join_dot p /\ split_dot k = p /\ leafat p l = Some v).
Proof.
  intro Hwf. rewrite flatten_leaves, in_map_iff. unfold leafat. split.
  - intros ([p w] & E & Hin). cbn [fst snd] in E. inversion E; subst.
    destruct (leaves_children_paths l Hwf p v Hin) as [HF (k0 & r & -> & _)].
    exists (k0 :: r). split; [reflexivity|]. split; [apply split_join; [discriminate|exact HF]|].
    apply leaves_leafat; [apply wf_children_nodup_t; exact Hwf|exact Hin].
  - intros (p & -> & _ & Hl). exists (p, v). split; [reflexivity|].
    apply leaves_leafat; [apply wf_children_nodup_t; exact Hwf|exact Hl].
Qed.

Lemma flatten_functional l : wf_children l = true -> functional (flatten l).
Proof.
  intros Hwf k v w H1 H2. apply (flatten_In l k v Hwf) in H1 as (p1 & _ & E1 & L1).
  apply (flatten_In l k w Hwf) in H2 as (p2 & _ & E2 & L2). congruence.
Qed.

Lemma functional_same_entries (a b : flatmap) : functional a -> functional b ->
  (forall k v, In (k, v) a <-> In (k, v) b) -> flat_equiv a b.
Proof.
  intros Fa Fb H k. destruct (lookup_last k a) as [v|] eqn:E.
  - symmetry. apply lookup_last_functional; [exact Fb|]. apply H. apply lookup_last_In. exact E.
  - destruct (lookup_last k b) as [w|] eqn:E2; [|reflexivity]. exfalso.
    eapply lookup_last_None_notin; [exact E|]. apply H. apply lookup_last_In. exact E2.
Qed.

Lemma prefix_free_spec paths : prefix_free paths = true ->
  forall p q, In p paths -> In q paths -> proper_prefix p q = false.
Proof.
  unfold prefix_free. intros H p q Hp Hq. rewrite forallb_forall in H. specialize (H p Hp).
  rewrite forallb_forall in H. specialize (H q Hq). apply negb_true_iff in H. exact H.
Qed.

Lemma pm_fst m : map fst (pm m) = map (fun kv => split_dot (fst kv)) m.
Proof. unfold pm. rewrite map_map. reflexivity. Qed.

(** * the two round trips *)

(** flatten then unflatten, whatever order the flat map is iterated in *)
Theorem flatten_unflatten : forall t m',
  wf_children t = true -> forallb (fun kc => nonempty (fst kc)) t = true ->
  Permutation m' (flatten t) ->
  exists t', unflatten m' = Ok t' /\ wf_children t' = true /\ forall p, leafat p t' = leafat p t.
Proof.
  intros t m' Hwf Hne P.
  assert (Hin : forall k v, In (k, v) m' <-> In (k, v) (flatten t)).
  { intros k v. split; apply Permutation_in; [exact P|apply Permutation_sym; exact P]. }
  destruct (unflatten_ok m') as (t' & Hu & Hwf' & Hl).
  - intros [k v] Hkv. cbn [fst]. apply Hin in Hkv. rewrite flatten_leaves in Hkv.
    apply in_map_iff in Hkv as ([p w] & E & Hp). cbn [fst snd] in E. inversion E; subst.
    destruct (leaves_children_paths t Hwf p v Hp) as [_ (k0 & r & -> & c & Hc)].
    apply join_dot_nonempty. rewrite forallb_forall in Hne. specialize (Hne _ Hc). cbn [fst] in Hne.
    destruct k0; [cbn in Hne; discriminate Hne|discriminate].
  - intros p q Hp Hq. apply in_map_iff in Hp as ([p1 v1] & <- & Hp). apply in_map_iff in Hq as ([q1 w1] & <- & Hq).
    cbn [fst]. apply pm_In in Hp as (k1 & Hk1 & E1). apply pm_In in Hq as (k2 & Hk2 & E2).
    apply Hin in Hk1. apply Hin in Hk2.
    apply (flatten_In t _ _ Hwf) in Hk1 as (pp & _ & Ep & Lp). apply (flatten_In t _ _ Hwf) in Hk2 as (qq & _ & Eq & Lq).
    rewrite <- Ep, E1 in Lp. rewrite <- Eq, E2 in Lq.
    unfold proper_prefix. destruct (path_prefix p1 q1) eqn:Epre; [|reflexivity].
    rewrite (leafat_prefix _ _ _ _ _ Lp Lq Epre), path_eqb_refl. reflexivity.
  - exists t'. split; [exact Hu|]. split; [exact Hwf'|]. intro q. rewrite Hl.
    destruct (plookup_last q (pm m')) as [v|] eqn:E.
    + apply plookup_last_In in E. apply pm_In in E as (k & Hk & Ek). apply Hin in Hk.
      apply (flatten_In t _ _ Hwf) in Hk as (pp & _ & Ep & Lp). symmetry. congruence.
    + destruct (leafat q t) as [v|] eqn:El; [|reflexivity]. exfalso.
      eapply plookup_last_None_notin; [exact E|]. apply pm_In.
      assert (Hfl : In (join_dot q, v) (flatten t)).
      { rewrite flatten_leaves. apply in_map_iff. exists (q, v). split; [reflexivity|].
        apply leaves_leafat; [apply wf_children_nodup_t; exact Hwf|exact El]. }
      exists (join_dot q). split; [apply Hin; exact Hfl|].
      apply (flatten_In t _ _ Hwf) in Hfl as (pp & Ej & Ep & Lp).
      destruct (leaves_children_paths t Hwf q v) as [HF (k0 & r & -> & _)].
      { apply leaves_leafat; [apply wf_children_nodup_t; exact Hwf|exact El]. }
      apply split_join; [discriminate|exact HF].
Qed.

(** unflatten then flatten, whatever order the rebuilt nested map is iterated in (any
    well-formed [t'] with the same leaves as the model's result) *)
Theorem unflatten_flatten : forall m, good_flat m = true ->
  exists t, unflatten m = Ok t /\ wf_children t = true /\
    forall t', wf_children t' = true -> (forall p, leafat p t' = leafat p t) ->
      flat_equiv (flatten t') m /\ functional (flatten t').
Proof.
  intros m Hg. unfold good_flat in Hg. apply andb_true_iff in Hg as [Hg Hpf]. apply andb_true_iff in Hg as [Hne Hnd].
  destruct (unflatten_ok m) as (t & Hu & Hwf & Hl).
  - intros kv Hkv. rewrite forallb_forall in Hne. specialize (Hne kv Hkv). destruct kv as [k v]. cbn [fst] in *. destruct k; [cbn in Hne; discriminate Hne|discriminate].
  - rewrite pm_fst. apply prefix_free_spec. exact Hpf.
  - exists t. split; [exact Hu|]. split; [exact Hwf|]. intros t' Hwf' Hsame.
    split; [|apply flatten_functional; exact Hwf'].
    apply functional_same_entries; [apply flatten_functional; exact Hwf'|apply nodup_functional; exact Hnd|].
    intros k v. rewrite (flatten_In t' k v Hwf'). split.
    + intros (p & Ej & Es & Lp). rewrite Hsame, Hl in Lp. apply plookup_last_In in Lp.
      apply pm_In in Lp as (k' & Hk' & Ek'). assert (k' = k) by (apply split_dot_inj; congruence). subst k'. exact Hk'.
    + intro Hin. exists (split_dot k). split; [symmetry; apply join_split|]. split; [reflexivity|].
      rewrite Hsame, Hl.
      destruct (plookup_last (split_dot k) (pm m)) as [w|] eqn:E.
      * apply plookup_last_In in E. apply pm_In in E as (k' & Hk' & Ek').
        assert (k' = k) by (apply split_dot_inj; exact Ek'). subst k'.
        f_equal. eapply (nodup_functional _ Hnd); eassumption.
      * exfalso. eapply (plookup_last_None_notin _ _ E v). apply pm_In. exists k. split; [exact Hin|reflexivity].
Qed.
