(** C12More.v - lemmas added by the proof audit of C12 (Props/C12.v, second half).
    Model: Model/Scope.v, unchanged.  Everything here is about [run cf sched (init progs)] for
    arbitrary programs and schedules.

    A. the done channel is never closed twice, whatever the programs do (no hypothesis);
    B. a completed AppendError/Kill is reported by Err, Wait and Close from then on;
    C. done fires only for a reason: a completed signalling call of a caller, a listener error
       appended by Close, or (isolated context) the end of the parent;
    D. no panic at all for programs that also close scopes, as long as every scope is closed at
       most once and the scopes that are closed are not signalled directly;
    E. signalling calls are wait-free: never blocked, finished after a bounded number of their
       own micro-steps whatever the other threads do. *)
From GC Require Import Common.Base Model.Scope Model.ScopeLive Proofs.Scope Proofs.ScopeClose Proofs.ScopeLive.
From Coq Require Import ZArith Lia Permutation.
Local Open Scope nat_scope.

(** * Generic: an invariant of what the threads have observed *)
Lemma outs_step cf n b st st' (P : obs -> Prop) :
  (forall th, In th (ths st) -> Forall P (t_out th)) ->
  step cf (n, b) st = Some st' ->
  (forall th i rest todo k, nth_error (ths st) n = Some th ->
     view (sh st) th = Some (i, rest, todo) -> exec cf b i (sh st) = XPanic k -> P (OPanic k)) ->
  (forall o, is_panic o = false -> P o) ->
  forall th, In th (ths st') -> Forall P (t_out th).
Proof.
  intros O H HP HN.
  apply step_inv in H as (th & i & rest & todo & Hn & V & [(k & X & ->)|(sh1 & p & o & a & sp & X & ->)]);
    intros th' Hin; simpl in Hin.
  - apply in_upd in Hin as [Hin|(x & Hx & ->)]; auto. simpl.
    apply Forall_app; split. apply O. eapply nth_error_In; eauto.
    repeat constructor. eapply HP; eauto.
  - apply in_app_or in Hin as [Hin|Hin].
    + apply in_upd in Hin as [Hin|(x & Hx & ->)]; auto. simpl.
      apply Forall_app; split. apply O. eapply nth_error_In; eauto.
      eapply Forall_impl; [|eapply exec_out_nopanic; eauto]. auto.
    + apply in_map_iff in Hin as (cur & <- & _). simpl. auto.
Qed.

(** * A. The done channel is closed at most once: no [PChan] for ANY programs *)
Definition chan_panic (o : obs) : bool := match o with OPanic PChan => true | _ => false end.

Lemma close_step_panic cf sh s k : close_step cf sh s = XPanic k -> k = PNegWG.
Proof.
  unfold close_step, xok. intros H.
  destruct (s_pc (gets sh s)); try des_trig; repeat des_if; try discriminate.
  destruct (s_reg (gets sh s)); repeat des_if; try discriminate. inversion H; auto.
Qed.

Lemma exec_chan cf b i sh : exec cf b i sh = XPanic PChan -> exists c es, i = ICClose c es.
Proof.
  intros H. destruct i; unfold exec, xok, xpush in H; try des_trig; repeat des_if; try discriminate; eauto.
  - destruct (close_step cf sh s) eqn:CS; try discriminate. apply close_step_panic in CS. congruence.
  - destruct (c_iso (getc sh c)); repeat des_if; discriminate.
  - destruct (c_iso (getc sh c)); repeat des_if; discriminate.
  - destruct (c_iso (getc sh c)); repeat des_if; discriminate.
Qed.

Definition chanI (cf : cfg) (st : state) : Prop :=
  shapes cf st /\ forall th, In th (ths st) -> Forall (fun o => chan_panic o = false) (t_out th).

Lemma chanI_step cf t st st' :
  stop_atomic cf = true -> chanI cf st -> step cf t st = Some st' -> chanI cf st'.
Proof.
  intros AT [S O] H. split. eapply shapes_step; eauto. destruct t as [n b].
  eapply outs_step; eauto.
  - intros th i rest todo k Hn V X. destruct k; auto. exfalso.
    apply exec_chan in X as (c & es & ->).
    destruct (view_shape _ _ _ _ _ _ (S th (nth_error_In _ _ Hn)) V) as [_ [Hi _]]. congruence.
  - intros [[]| | |]; simpl; auto; discriminate.
Qed.

Lemma never_closed_twice cf progs sched th :
  stop_atomic cf = true ->
  In th (ths (run cf sched (init progs))) -> Forall (fun o => chan_panic o = false) (t_out th).
Proof.
  intros AT. assert (I : chanI cf (run cf sched (init progs))).
  { apply (run_inv cf (chanI cf)). intros; eapply chanI_step; eauto.
    split. apply shapes_init. intros th0 Hin. apply in_map_iff in Hin as (ops & <- & _). simpl. auto. }
  apply I.
Qed.

(** * B. Completed calls stay completed; what they appended is reported from then on *)
Definition thext (th th' : thread) : Prop :=
  (exists a, t_acks th' = t_acks th ++ a) /\ (exists o, t_out th' = t_out th ++ o).

Lemma thext_refl th : thext th th.
Proof. split; exists []; now rewrite app_nil_r. Qed.
Lemma thext_trans a b c : thext a b -> thext b c -> thext a c.
Proof.
  intros [[x1 A1] [y1 B1]] [[x2 A2] [y2 B2]]. split.
  exists (x1 ++ x2). rewrite A2, A1. now rewrite app_assoc.
  exists (y1 ++ y2). rewrite B2, B1. now rewrite app_assoc.
Qed.

Lemma step_thext cf t st st' m th :
  step cf t st = Some st' -> nth_error (ths st) m = Some th ->
  exists th', nth_error (ths st') m = Some th' /\ thext th th'.
Proof.
  destruct t as [n b]. intros H Hm.
  assert (Lm : m < length (ths st)) by (apply nth_error_Some; congruence).
  apply step_inv in H as (th0 & i & rest & todo & Hn & V & [(k & X & ->)|(sh1 & p & o & a & sp & X & ->)]);
    simpl.
  - destruct (Nat.eq_dec n m) as [->|N].
    + rewrite (nth_error_upd_eq _ _ _ _ Hn). eexists. split; eauto.
      assert (th0 = th) by congruence. subst. split; simpl; eauto. exists []. now rewrite app_nil_r.
    + rewrite nth_error_upd_neq by auto. eauto using thext_refl.
  - rewrite nth_error_app1 by (rewrite upd_length; auto).
    destruct (Nat.eq_dec n m) as [->|N].
    + rewrite (nth_error_upd_eq _ _ _ _ Hn). eexists. split; eauto.
      assert (th0 = th) by congruence. subst. split; simpl; eauto.
    + rewrite nth_error_upd_neq by auto. eauto using thext_refl.
Qed.

Lemma run_thext cf sched : forall st m th,
  nth_error (ths st) m = Some th ->
  exists th', nth_error (ths (run cf sched st)) m = Some th' /\ thext th th'.
Proof.
  induction sched as [|t sched IH]; intros st m th Hm; simpl. eauto using thext_refl.
  unfold step_or_skip. destruct (step cf t st) as [st1|] eqn:E; [|apply IH; auto].
  destruct (step_thext _ _ _ _ _ _ E Hm) as (th1 & H1 & X1).
  destruct (IH st1 m th1 H1) as (th2 & H2 & X2). eauto using thext_trans.
Qed.

Lemma reported progs s1 s2 n th c es e :
  nth_error (ths (run cfg_current s1 (init progs))) n = Some th ->
  In (c, es) (t_acks th) -> In e es ->
  let st := run cfg_current (s1 ++ s2) (init progs) in
  (exists th', nth_error (ths st) n = Some th' /\ thext th th') /\
  In e (c_errors (getc (sh st) c)) /\
  (forall b, exec cfg_current b (IErr c) (sh st) = XOk (sh st) [] [OBool true] [] []) /\
  (forall b s, valids (sh st) s = true -> s_ctx (gets (sh st) s) = c -> s_wg (gets (sh st) s) = 0%Z ->
     exec cfg_current b (IWait s) (sh st) = xpush (sh st) [IErr c]) /\
  (forall s, s_ctx (gets (sh st) s) = c -> s_pc (gets (sh st) s) = CRet ->
     close_step cfg_current (sh st) s = XOk (set_pc (sh st) s CFinished) [] [OClosed s true] [] []).
Proof.
  intros Hn Ha He st.
  destruct (run_thext cfg_current s2 _ _ _ Hn) as (th' & Hn' & X). rewrite <- run_app in Hn'. fold st in Hn'.
  split; eauto.
  assert (Ha' : In (c, es) (t_acks th')).
  { destruct X as [[a Ea] _]. rewrite Ea. apply in_or_app; auto. }
  assert (Hth' : In th' (ths st)) by (eapply nth_error_In; eauto).
  assert (Hin : In e (c_errors (getc (sh st) c))).
  { pose proof (retained cfg_current progs (s1 ++ s2) c eq_refl) as P. fold st in P.
    eapply Permutation_in. symmetry. exact P.
    apply in_or_app. right. apply in_or_app. left. eapply acked_in_completed; eauto. }
  assert (NN : negb (isnil (c_errors (getc (sh st) c))) = true).
  { destruct (c_errors (getc (sh st) c)); [elim Hin|reflexivity]. }
  split; auto. split; [|split].
  - intros b. simpl. rewrite NN. reflexivity.
  - intros b s V Hc W. simpl. rewrite V, W, Hc. reflexivity.
  - intros s Hc P. unfold close_step. rewrite P, Hc, NN. reflexivity.
Qed.

(** * C. Done fires only for a reason *)
Definition sysext (sh sh' : shared) : Prop :=
  forall c, exists d, c_sys (getc sh' c) = c_sys (getc sh c) ++ d.

Lemma sysext_refl sh : sysext sh sh.
Proof. intros c. exists []. now rewrite app_nil_r. Qed.

Lemma sysext_upd sh c f : (forall x, exists d, c_sys (f x) = c_sys x ++ d) -> sysext sh (upd_ctx sh c f).
Proof.
  intros H c'. rewrite getc_upd_ctx. destruct (_ && _); auto. exists []. now rewrite app_nil_r.
Qed.

Lemma sysext_new sh sh' o : ctxs sh' = ctxs sh ++ [new_ctx o] -> sysext sh sh'.
Proof.
  intros E c. unfold getc. rewrite E. destruct (nth_new_ctx (ctxs sh) o c) as (_ & -> & _).
  exists []. now rewrite app_nil_r.
Qed.

Lemma sysext_same sh sh' : ctxs sh' = ctxs sh -> sysext sh sh'.
Proof. intros E c. unfold getc. rewrite E. exists []. now rewrite app_nil_r. Qed.

Lemma exec_sysext cf b i sh sh' p o a sp :
  exec cf b i sh = XOk sh' p o a sp -> sysext sh sh'.
Proof.
  intros H. destruct i; unfold exec, xok, xpush in H;
    try (destruct (close_step cf sh s) eqn:CS; try discriminate; inv_x;
         apply close_step_acct in CS as [_ CS]; intros c0; destruct (CS c0) as (d & _ & E); eauto; fail);
    try des_trig; repeat des_if; try inv_x;
    try apply sysext_refl;
    try (apply sysext_same; simpl; congruence);
    try (apply sysext_upd; intros x; exists []; simpl; now rewrite app_nil_r);
    try (eapply sysext_new; simpl; reflexivity).
  all: destruct (c_iso (getc sh c)); repeat des_if; inv_x; apply sysext_refl.
Qed.

Lemma sysext_ne sh sh' c : sysext sh sh' -> c_sys (getc sh c) <> [] -> c_sys (getc sh' c) <> [].
Proof. intros H N. destruct (H c) as [d ->]. destruct (c_sys (getc sh c)); [now elim N|discriminate]. Qed.

(** every scope has a context that exists; a Close about to stop its context has appended a
    listener error to it *)
Definition needs_sys (p : cpc) : bool := match p with CErrS _ | CErr2S _ => true | _ => false end.
Definition sysP (cs : list ctxrec) (x : scoperec) : Prop :=
  s_ctx x < length cs /\ (needs_sys (s_pc x) = true -> c_sys (nth (s_ctx x) cs dctx) <> []).
Definition sysI (sh : shared) : Prop := Forall (sysP (ctxs sh)) (scopes sh).

Lemma sysP_mono cs cs' x :
  length cs <= length cs' ->
  (forall c, c < length cs -> c_sys (nth c cs dctx) <> [] -> c_sys (nth c cs' dctx) <> []) ->
  sysP cs x -> sysP cs' x.
Proof. intros L M [A B]. split. lia. auto. Qed.

Lemma sysI_ctx sh sh' :
  scopes sh' = scopes sh -> length (ctxs sh) <= length (ctxs sh') -> sysext sh sh' -> sysI sh -> sysI sh'.
Proof.
  intros E L X I. unfold sysI in *. rewrite E. eapply Forall_impl; [|exact I].
  intros x. apply sysP_mono; auto. intros c _. apply (sysext_ne sh sh' c X).
Qed.

Lemma sysI_get sh s : sysI sh -> valids sh s = true -> sysP (ctxs sh) (gets sh s).
Proof.
  intros I V. unfold sysI in I. rewrite Forall_forall in I. apply I. apply nth_In. unfold valids in V. lia.
Qed.

Lemma sysP_samepc cs x y : s_ctx y = s_ctx x -> s_pc y = s_pc x -> sysP cs x -> sysP cs y.
Proof. unfold sysP. intros -> ->. auto. Qed.

Lemma Forall_upd_nth {A} (P : A -> Prop) n f l d :
  Forall P l -> (n < length l -> P (nth n l d) -> P (f (nth n l d))) -> Forall P (upd n f l).
Proof.
  intros H. revert n; induction H as [|x l Hx Hl IH]; intros [|n] F; simpl in *; auto.
  - constructor; auto. apply F; auto. lia.
  - constructor; auto. apply IH. intros L. apply F. lia.
Qed.

Lemma sysI_setpc sh s p :
  sysI sh -> (needs_sys p = true -> c_sys (getc sh (s_ctx (gets sh s))) <> []) ->
  sysI (upd_scope sh s (s_set_pc p)).
Proof.
  intros I N. unfold sysI, upd_scope. simpl. apply Forall_upd_nth with (d := dscope); auto.
  intros L [A B]. split; auto.
Qed.

Lemma sysI_scope_same sh s f :
  sysI sh -> (forall x, s_ctx (f x) = s_ctx x /\ s_pc (f x) = s_pc x) -> sysI (upd_scope sh s f).
Proof.
  intros I N. unfold sysI, upd_scope. simpl. apply Forall_upd; auto.
  intros x. destruct (N x). apply sysP_samepc; auto.
Qed.

Lemma sysI_trig sh sh1 : ctxs sh1 = ctxs sh -> scopes sh1 = scopes sh -> sysI sh -> sysI sh1.
Proof. unfold sysI. intros -> ->. auto. Qed.

Lemma sysI_upd_ctx sh c f : (forall x, exists d, c_sys (f x) = c_sys x ++ d) -> sysI sh -> sysI (upd_ctx sh c f).
Proof.
  intros H. apply sysI_ctx; auto. unfold upd_ctx; simpl. rewrite upd_length; auto.
  apply sysext_upd; auto.
Qed.

Lemma needs_sys_next e : needs_sys (next_pc e) = false.
Proof. destruct e; reflexivity. Qed.

Lemma sys_app_sys x : forall y, exists d, c_sys (c_append_sys [x] y) = c_sys y ++ d.
Proof. intros y. simpl. eauto. Qed.
Lemma sys_close : forall y, exists d, c_sys (c_close y) = c_sys y ++ d.
Proof. intros y. exists []. simpl. now rewrite app_nil_r. Qed.
Lemma sys_append es : forall y, exists d, c_sys (c_append es y) = c_sys y ++ d.
Proof. intros y. exists []. simpl. now rewrite app_nil_r. Qed.

Lemma close_step_sys cf sh s sh' p o a sp :
  sysI sh -> close_step cf sh s = XOk sh' p o a sp -> sysI sh'.
Proof.
  unfold close_step, xok, set_pc. intros I H.
  destruct (s_pc (gets sh s)) eqn:PC; try des_trig; repeat des_if; try inv_x; auto.
  all: try (apply sysI_setpc; [|rewrite ?needs_sys_next; simpl; try discriminate];
            try (eapply sysI_trig; eauto; fail); auto; fail).
  - (* CErrA *) apply sysI_setpc. apply sysI_upd_ctx; auto using sys_app_sys. intros _.
    assert (V : valids sh s = true) by (apply pc_valid; rewrite PC; discriminate).
    destruct (sysI_get sh s I V) as [A _]. rewrite gets_upd_ctx, getc_upd_ctx, Nat.eqb_refl.
    assert (validc sh (s_ctx (gets sh s)) = true) as -> by (unfold validc; apply Nat.ltb_lt; exact A).
    cbn [andb c_append_sys c_sys]. intros E. apply app_eq_nil in E as [_ E]. discriminate.
  - apply sysI_setpc; [|discriminate]. apply sysI_upd_ctx; auto using sys_close.
  - (* CErr2A *) apply sysI_setpc. apply sysI_upd_ctx; auto using sys_app_sys. intros _.
    assert (V : valids sh s = true) by (apply pc_valid; rewrite PC; discriminate).
    destruct (sysI_get sh s I V) as [A _]. rewrite gets_upd_ctx, getc_upd_ctx, Nat.eqb_refl.
    assert (validc sh (s_ctx (gets sh s)) = true) as -> by (unfold validc; apply Nat.ltb_lt; exact A).
    cbn [andb c_append_sys c_sys]. intros E. apply app_eq_nil in E as [_ E]. discriminate.
  - apply sysI_setpc; [|rewrite needs_sys_next; discriminate]. apply sysI_upd_ctx; auto using sys_close.
  - apply sysI_setpc; [|discriminate]. apply sysI_scope_same; auto.
  - destruct (s_reg (gets sh s)); repeat des_if; inv_x; apply sysI_setpc; try discriminate; auto.
    repeat apply sysI_scope_same; auto.
Qed.

Lemma sysI_new_ctx sh o : sysI sh -> sysI (set_ctxs sh (ctxs sh ++ [new_ctx o])).
Proof.
  apply sysI_ctx; simpl; auto. rewrite app_length; lia. eapply sysext_new; reflexivity.
Qed.

Lemma sysI_new_scope sh x : sysI sh -> s_ctx x < length (ctxs sh) -> s_pc x = CNone ->
  sysI (set_scopes sh (scopes sh ++ [x])).
Proof.
  intros I L P. unfold sysI. simpl. apply Forall_app. split; auto. repeat constructor; auto.
  rewrite P. discriminate.
Qed.

Lemma sysI_newboth sh x o : sysI sh -> s_ctx x <= length (ctxs sh) -> s_pc x = CNone ->
  sysI (set_scopes (set_ctxs sh (ctxs sh ++ [new_ctx o])) (scopes sh ++ [x])).
Proof.
  intros I L P. apply (sysI_new_scope (set_ctxs sh (ctxs sh ++ [new_ctx o]))); auto.
  apply sysI_new_ctx; auto. simpl. rewrite app_length. simpl. lia.
Qed.

Lemma exec_sys cf b i sh sh' p o a sp :
  sysI sh -> exec cf b i sh = XOk sh' p o a sp -> sysI sh'.
Proof.
  intros I H. destruct i; unfold exec, xok, xpush in H;
    try (destruct (close_step cf sh s) eqn:CS; try discriminate; inv_x; eapply close_step_sys; eauto; fail);
    try des_trig; repeat des_if; try inv_x; auto;
    try (eapply sysI_trig; eauto; fail);
    try (apply sysI_upd_ctx; auto using sys_close, sys_append; fail);
    try (apply sysI_scope_same; auto; fail);
    try (apply sysI_new_ctx; auto; fail).
  - apply sysI_newboth; auto.
  - apply (sysI_newboth (upd_scope sh p0 (s_add_wg 1 0))); auto. apply sysI_scope_same; auto.
  - apply (sysI_newboth (upd_scope sh p0 (s_add_wg 1 0))); auto. apply sysI_scope_same; auto.
  - apply sysI_newboth; auto.
  - apply sysI_newboth; auto.
  - apply andb_prop in Heqb0 as [V _]. destruct (sysI_get sh p0 I V) as [A _].
    apply (sysI_new_scope (upd_scope sh p0 (s_add_wg 1 0))); auto. apply sysI_scope_same; auto.
  - apply andb_prop in Heqb0 as [V _]. destruct (sysI_get sh p0 I V) as [A _].
    apply (sysI_new_scope (upd_scope sh p0 (s_add_wg 1 0))); auto. apply sysI_scope_same; auto.
  - apply andb_prop in Heqb0 as [V _]. destruct (sysI_get sh p0 I V) as [A _].
    apply sysI_new_scope; auto.
  - apply andb_prop in Heqb0 as [V _]. destruct (sysI_get sh p0 I V) as [A _].
    apply sysI_new_scope; auto.
  - apply sysI_setpc; auto. discriminate.
  - destruct (c_iso (getc sh c)); repeat des_if; inv_x; auto.
  - destruct (c_iso (getc sh c)); repeat des_if; inv_x; auto.
  - destruct (c_iso (getc sh c)); repeat des_if; inv_x; auto.
Qed.

Lemma sysI_init progs : sysI (sh (init progs)).
Proof. constructor. Qed.

Lemma sysI_reach cf progs sched : sysI (sh (run cf sched (init progs))).
Proof. apply (run_shared_inv cf sysI). intros; eapply exec_sys; eauto. apply sysI_init. Qed.

(** which step can switch done on *)
Lemma done_upd_same sh c0 f c :
  (forall x, c_done (f x) = c_done x) -> c_done (getc (upd_ctx sh c0 f) c) = c_done (getc sh c).
Proof. intros H. rewrite getc_upd_ctx. destruct (_ && _); auto. Qed.

Lemma getc_same sh sh' c : ctxs sh' = ctxs sh -> getc sh' c = getc sh c.
Proof. unfold getc. now intros ->. Qed.

Lemma getc_new sh0 sh o c : ctxs sh0 = ctxs sh ++ [new_ctx o] ->
  c_done (getc sh0 c) = c_done (getc sh c) /\ c_sys (getc sh0 c) = c_sys (getc sh c).
Proof. unfold getc. intros ->. destruct (nth_new_ctx (ctxs sh) o c) as (_ & -> & ->). auto. Qed.

Lemma close_step_done_cause cf sh s sh' p o a sp c :
  sysI sh -> close_step cf sh s = XOk sh' p o a sp -> c_done (getc sh' c) = true ->
  c_done (getc sh c) = true \/ c_sys (getc sh' c) <> [].
Proof.
  unfold close_step, xok, set_pc. intros I H.
  destruct (s_pc (gets sh s)) eqn:PC; try des_trig; repeat des_if; try inv_x; auto;
    rewrite ?getc_upd_scope; try (rewrite (getc_same sh sh1) by auto; auto; fail);
    try (rewrite done_upd_same by reflexivity; auto; fail).
  1,2: assert (V : valids sh s = true) by (apply pc_valid; rewrite PC; discriminate);
    destruct (sysI_get sh s I V) as [_ B]; rewrite PC in B; specialize (B eq_refl);
    rewrite getc_upd_ctx; destruct (Nat.eqb_spec (s_ctx (gets sh s)) c) as [<-|]; simpl; auto;
    destruct (validc sh (s_ctx (gets sh s))); simpl; auto.
  destruct (s_reg (gets sh s)); repeat des_if; inv_x; rewrite ?getc_upd_scope; auto.
Qed.

Lemma exec_done_cause cf b i sh sh' p o a sp c :
  stop_atomic cf = true -> sysI sh -> exec cf b i sh = XOk sh' p o a sp ->
  c_done (getc sh' c) = true ->
  c_done (getc sh c) = true \/ (exists es, In (c, es) a) \/ c_sys (getc sh' c) <> [].
Proof.
  intros AT I H. destruct i; unfold exec, xok, xpush in H;
    try (destruct (close_step cf sh s) eqn:CS; try discriminate; inv_x; intros D;
         destruct (close_step_done_cause _ _ _ _ _ _ _ _ c I CS D); auto; fail);
    try des_trig; repeat des_if; try inv_x; auto; try congruence;
    unfold set_pc; rewrite ?getc_upd_scope; try (rewrite (getc_same sh sh1) by auto; auto; fail);
    try (rewrite done_upd_same by reflexivity; auto; fail).
  1: match goal with |- c_done (getc (upd_ctx sh ?x c_close) ?y) = true -> _ =>
              rewrite getc_upd_ctx; destruct (Nat.eqb_spec x y) as [<-|]; simpl; auto;
              intros _; right; left; eexists; left; reflexivity end.
  1: rewrite getc_upd_ctx; destruct (Nat.eqb_spec c0 c) as [<-|]; simpl; auto.
  1: intros _; right; left; exists es; left; reflexivity.
  all: try (destruct es; inv_x; rewrite ?done_upd_same by reflexivity; auto; fail).
  all: try (match goal with HH : ctxs ?x = ctxs sh |- _ => rewrite (getc_same sh x c HH); auto end; fail).
  all: try (match goal with |- c_done (getc ?S _) = true -> _ =>
              destruct (getc_new S sh _ c eq_refl) as [-> ->]; auto end; fail).
  all: try (rewrite (getc_same sh sh' c) by assumption; auto; fail).
  all: destruct (c_iso (getc sh c0)); repeat des_if; inv_x; auto.
Qed.

(** Isolated contexts: the watcher goroutine signals its context only after the parent's end. *)
Definition pdone (sh : shared) (c : nat) : Prop :=
  validc sh c = true /\ exists p, c_iso (getc sh c) = Some p /\ c_done (getc sh p) = true.

Lemma pdone_cext sh sh' c : cext sh sh' -> pdone sh c -> pdone sh' c.
Proof.
  intros CE (V & p & Ip & D). split. eapply cext_valid; eauto.
  exists p. split. rewrite (cext_iso _ _ _ CE V). auto. eapply cext_done; eauto.
Qed.

Definition wj (sh : shared) (i : instr) : Prop :=
  match i with
  | IWatch c => validc sh c = true
  | IWatchRead c | ICStop c _ | ICAppend c _ => pdone sh c
  | _ => False
  end.

Lemma wj_cext sh sh' i : cext sh sh' -> wj sh i -> wj sh' i.
Proof. intros CE. destruct i; simpl; eauto using pdone_cext, cext_valid. Qed.

Lemma exec_wj cf b i sh sh' p o a sp :
  stop_atomic cf = true -> wj sh i -> exec cf b i sh = XOk sh' p o a sp ->
  Forall (wj sh') p /\ (forall c es, In (c, es) a -> pdone sh' c).
Proof.
  intros AT W H. pose proof (exec_cext _ _ _ _ _ _ _ _ _ H) as CE.
  destruct i; simpl in W; try tauto; unfold exec, xok, xpush in H.
  - destruct (validc sh c); [destruct es|]; inv_x; (split; [|intros ? ? []]); auto.
    constructor; auto. simpl. eapply pdone_cext; eauto.
  - rewrite AT in H. destruct (validc sh c); inv_x; split; auto.
    + intros c1 es1 [E|[]]. inversion E; subst. eapply pdone_cext; eauto.
    + intros ? ? [].
  - destruct (c_iso (getc sh c)) as [q|] eqn:Iq; repeat des_if; inv_x; (split; [|intros ? ? []]); auto.
    constructor; auto. simpl. split; auto. exists q. split; auto. apply andb_prop in Heqb0 as [D _]. auto.
  - destruct (c_iso (getc sh c)) as [q|] eqn:Iq; repeat des_if; inv_x; (split; [|intros ? ? []]); auto.
Qed.

Lemma exec_spawn_valid cf b i sh sh' p o a sp :
  exec cf b i sh = XOk sh' p o a sp ->
  Forall (fun cur => exists c, cur = [IWatch c] /\ validc sh' c = true) sp.
Proof.
  intros H. destruct i; unfold exec, xok, xpush in H;
    try (destruct (close_step cf sh s) eqn:CS; try discriminate; inv_x; constructor);
    try des_trig; repeat des_if; try inv_x; repeat constructor.
  all: try (eexists; split; [reflexivity|]; unfold validc; simpl; rewrite app_length; simpl;
            apply Nat.ltb_lt; lia).
  all: destruct (c_iso (getc sh c)); repeat des_if; inv_x; constructor.
Qed.

Lemma step_nth n (thn : thread) l sp m th' :
  nth_error (upd n (fun _ => thn) l ++ map spawned sp) m = Some th' ->
  (m = n /\ m < length l /\ th' = thn) \/ (m <> n /\ nth_error l m = Some th') \/
  (length l <= m /\ exists cur, In cur sp /\ th' = spawned cur).
Proof.
  intros H. destruct (Nat.lt_ge_cases m (length l)) as [L|L].
  - rewrite nth_error_app1 in H by (rewrite upd_length; auto).
    destruct (Nat.eq_dec n m) as [->|N].
    + left. split; auto. split; auto.
      destruct (nth_error l m) as [x|] eqn:E; [|apply nth_error_None in E; lia].
      rewrite (nth_error_upd_eq _ _ _ _ E) in H. congruence.
    + right; left. rewrite nth_error_upd_neq in H by auto. auto.
  - right; right. split; auto. rewrite nth_error_app2 in H by (rewrite upd_length; auto).
    apply nth_error_In in H. apply in_map_iff in H as (cur & <- & Hc). eauto.
Qed.

Definition doneI (k : nat) (st : state) : Prop :=
  sysI (sh st) /\
  (forall m th, k <= m -> nth_error (ths st) m = Some th ->
     t_todo th = [] /\ Forall (wj (sh st)) (t_cur th) /\
     forall c es, In (c, es) (t_acks th) -> pdone (sh st) c) /\
  (forall c, c_done (getc (sh st) c) = true ->
     (exists m th es, m < k /\ nth_error (ths st) m = Some th /\ In (c, es) (t_acks th)) \/
     c_sys (getc (sh st) c) <> [] \/ pdone (sh st) c).

Lemma doneI_step cf k t st st' :
  stop_atomic cf = true -> doneI k st -> step cf t st = Some st' -> doneI k st'.
Proof.
  intros AT (SI & WI & DI) H. pose proof (step_cext _ _ _ _ H) as CE.
  assert (TX := fun m th => step_thext cf t st st' m th H).
  destruct t as [n b].
  apply step_inv in H as (th & i & rest & todo & En & V & H).
  assert (WH : k <= n -> todo = [] /\ wj (sh st) i /\ Forall (wj (sh st)) rest).
  { intros Hn. destruct (WI n th Hn En) as (T & C & _).
    apply view_inv in V as [[E1 E2]|[E1 (o & E2 & _)]]; [|congruence].
    rewrite E1 in C. inversion C; subst. auto. }
  destruct H as [(kk & X & ->)|(sh1 & p & o & a & sp & X & ->)]; simpl in *.
  - (* panic: shared state unchanged *)
    split; auto. split.
    + intros m th' Hm E. simpl in E.
      match type of E with nth_error (upd _ (fun _ => ?T) _) _ = _ =>
        pose proof (step_nth n T (ths st) [] m th') as SN end. simpl in SN. rewrite app_nil_r in SN.
      destruct (SN E) as [(-> & _ & ->)|[(N & E')|(_ & cur & [] & _)]]; simpl; eauto.
      destruct (WH Hm) as (-> & _ & _). destruct (WI n th Hm En) as (_ & _ & A). auto.
    + intros c D. simpl in D |- *. destruct (DI c D) as [(m & th0 & es & Hm & E0 & A)|R]; auto.
      left. destruct (TX m th0 E0) as (th1 & E1 & [[a' Ea] _]). exists m, th1, es.
      repeat split; auto. rewrite Ea. apply in_or_app; auto.
  - assert (SX : sysext (sh st) sh1) by (eapply exec_sysext; eauto).
    split; [eapply exec_sys; eauto|]. split.
    + intros m th' Hm E. simpl in E.
      destruct (step_nth _ _ _ _ _ _ E) as [(-> & _ & ->)|[(N & E')|(_ & cur & Hc & ->)]]; simpl.
      * destruct (WH Hm) as (-> & Wi & Wr). destruct (WI n th Hm En) as (_ & _ & A).
        destruct (exec_wj _ _ _ _ _ _ _ _ _ AT Wi X) as [Wp Wa].
        split; auto. split.
        -- apply Forall_app. split; auto. eapply Forall_impl; [|exact Wr]. intros j. apply wj_cext; auto.
        -- intros c es Hin. apply in_app_or in Hin as [Hin|Hin]; eauto using pdone_cext.
      * destruct (WI m th' Hm E') as (T & C & A). split; auto. split.
        -- eapply Forall_impl; [|exact C]. intros j. apply wj_cext; auto.
        -- intros c es Hin. eapply pdone_cext; eauto.
      * pose proof (exec_spawn_valid _ _ _ _ _ _ _ _ _ X) as SV. rewrite Forall_forall in SV.
        destruct (SV cur Hc) as (c & -> & Vc). simpl.
        split; [reflexivity|]. split; [repeat constructor; exact Vc|intros ? ? []].
    + intros c D. simpl in D |- *.
      assert (KEEP : (exists m th es, m < k /\ nth_error (ths st) m = Some th /\ In (c, es) (t_acks th)) \/
                     c_sys (getc (sh st) c) <> [] \/ pdone (sh st) c ->
                     (exists m th2 es, m < k /\
                        nth_error (upd n (fun _ => {| t_cur := p ++ rest; t_todo := todo; t_out := t_out th ++ o;
                                                      t_acks := t_acks th ++ a |}) (ths st) ++ map spawned sp) m = Some th2 /\
                        In (c, es) (t_acks th2)) \/
                     c_sys (getc sh1 c) <> [] \/ pdone sh1 c).
      { intros [(m & th0 & es & Hm & E0 & A)|[R|R]].
        - left. destruct (TX m th0 E0) as (th1 & E1 & [[a' Ea] _]). exists m, th1, es.
          repeat split; auto. rewrite Ea. apply in_or_app; auto.
        - right; left. eapply sysext_ne; eauto.
        - right; right. eapply pdone_cext; eauto. }
      destruct (exec_done_cause _ _ _ _ _ _ _ _ _ c AT SI X D) as [D0|[(es & Hin)|R]]; auto.
      destruct (Nat.lt_ge_cases n k) as [Hn|Hn].
      * left. destruct (TX n th En) as (th1 & E1 & _). simpl in E1.
        rewrite nth_error_app1 in E1 by (rewrite upd_length; apply nth_error_Some; congruence).
        rewrite (nth_error_upd_eq _ _ _ _ En) in E1. inversion E1; subst.
        eexists n, _, es. split; auto. split.
        rewrite nth_error_app1 by (rewrite upd_length; apply nth_error_Some; congruence).
        apply nth_error_upd_eq; eauto. simpl. apply in_or_app; auto.
      * right; right. destruct (WH Hn) as (_ & Wi & _).
        destruct (exec_wj _ _ _ _ _ _ _ _ _ AT Wi X) as [_ Wa]. eauto.
Qed.

Lemma doneI_init progs : doneI (length progs) (init progs).
Proof.
  split. apply sysI_init. split.
  - intros m th Hm E. simpl in E. assert (L : m < length (map mk_thread progs)) by (apply nth_error_Some; congruence).
    rewrite map_length in L. lia.
  - intros c D. simpl in D. unfold getc in D. simpl in D. destruct c; discriminate.
Qed.

Lemma done_cause progs sched c :
  let st := run cfg_current sched (init progs) in
  c_done (getc (sh st) c) = true ->
  (exists m th es, m < length progs /\ nth_error (ths st) m = Some th /\ In (c, es) (t_acks th)) \/
  c_sys (getc (sh st) c) <> [] \/
  (exists p, c_iso (getc (sh st) c) = Some p /\ c_done (getc (sh st) p) = true).
Proof.
  intros st D.
  assert (I : doneI (length progs) st).
  { apply (run_inv cfg_current (doneI (length progs))). intros; eapply doneI_step; eauto. reflexivity.
    apply doneI_init. }
  destruct I as (_ & _ & DI). destruct (DI c D) as [X|[X|[_ X]]]; auto.
Qed.

(** * D. No panic at all with Close in the programs.
    Discipline: no DoneTask (the task protocol is C11's subject); every scope is closed at most once;
    a scope that some program closes is signalled (AppendError/Kill/Stop), given listeners or
    children only by the thread that closes it, earlier in that thread's program.  Everything else
    is free: any number of threads signal scopes that are never closed (and bare contexts) while
    children sharing those contexts are created and closed. *)
Definition close_of (o : op) : list nat := match o with OClose s => [s] | _ => [] end.
Definition closes (progs : list (list op)) : list nat := flat_map (flat_map close_of) progs.
Definition inC (C : list nat) (s : nat) : bool := existsb (Nat.eqb s) C.
(** the scope an operation signals, registers on or hangs a child under *)
Definition target (o : op) : option nat :=
  match o with
  | OAppendError s _ | OKill s | OStop s | OOn s _ _ _ | ONewChild s _ => Some s
  | _ => None
  end.
Fixpoint ord_ok (C : list nat) (prog : list op) : bool :=
  match prog with
  | [] => true
  | o :: r =>
    match target o with
    | Some s => negb (inC C s) || existsb (is_close s) r
    | None => true
    end && ord_ok C r
  end.
Definition disciplined (progs : list (list op)) : Prop :=
  NoDup (closes progs) /\
  Forall (fun prog => forallb op_nodone prog && ord_ok (closes progs) prog = true) progs.

Lemma inC_In C s : inC C s = true <-> In s C.
Proof.
  unfold inC. rewrite existsb_exists. split.
  - intros (x & Hx & E). apply Nat.eqb_eq in E. now subst.
  - intros H. exists s. split; auto. apply Nat.eqb_refl.
Qed.

(** continuation micro-steps: the guards and the first step of Close are never kept for later *)
Definition cont (i : instr) : bool :=
  match i with IChkClosed _ | IC0 _ | IOn _ _ _ _ => false | _ => true end.

Lemma cur_ok_cont i : cur_ok i = true -> cont i = true.
Proof. destruct i; simpl; auto; discriminate. Qed.

Definition pc1 (s : nat) (th : thread) : nat := length (filter (is_close s) (t_todo th)).
Definition pend (s : nat) (st : state) : nat := list_sum (map (pc1 s) (ths st)).
Definition close_in (C : list nat) (o : op) : bool := match o with OClose s => inC C s | _ => true end.

Definition tdisc (C : list nat) (th : thread) : Prop :=
  forallb cont (t_cur th) = true /\ ord_ok C (t_todo th) = true /\ forallb (close_in C) (t_todo th) = true.

Definition discI (C : list nat) (st : state) : Prop :=
  (forall th, In th (ths st) -> tdisc C th) /\
  (forall s, s_pc (gets (sh st) s) <> CNone -> In s C) /\
  (forall s, pend s st + (if closing (gets (sh st) s) then 1 else 0) <= 1).

(** where the by-design panics come from *)
Lemma exec_panic_src cf b i sh k :
  exec cf b i sh = XPanic k -> by_design k = true ->
  (exists s, i = IChkClosed s /\ s_pc (gets sh s) <> CNone) \/
  (exists s, i = IC0 s /\ closing (gets sh s) = true) \/
  (exists s e l f, i = IOn s e l f /\ s_pc (gets sh s) <> CNone).
Proof.
  intros H BD. destruct i; unfold exec, xok, xpush in H; try des_trig; repeat des_if; try inv_x;
    try discriminate BD.
  - left. exists s. split; auto. unfold closed in Heqb0. destruct (s_pc (gets sh s)); congruence.
  - right; right. exists s, e, lid, f. split; auto. unfold nil_fields in *.
    destruct (s_pc (gets sh s)); congruence.
  - right; left. eauto.
  - destruct (close_step cf sh s) eqn:CS; try discriminate. inv_x.
    apply close_step_panic in CS. subst. discriminate.
  - destruct (c_iso (getc sh c)); repeat des_if; discriminate.
  - destruct (c_iso (getc sh c)); repeat des_if; discriminate.
  - destruct (c_iso (getc sh c)); repeat des_if; discriminate.
Qed.

(** the head of an operation's expansion *)
Lemma expand_chk sh o s rest : expand sh o = IChkClosed s :: rest -> target o = Some s.
Proof.
  destruct o; simpl; repeat des_if; try (destruct (nonnil es)); intros E; inversion E; subst; auto.
Qed.
Lemma expand_on sh o s e l f rest : expand sh o = IOn s e l f :: rest -> target o = Some s.
Proof.
  destruct o; simpl; repeat des_if; try (destruct (nonnil es)); intros E; inversion E; subst; auto.
Qed.
Lemma expand_c0 sh o s rest : expand sh o = IC0 s :: rest -> o = OClose s.
Proof.
  destruct o; simpl; repeat des_if; try (destruct (nonnil es)); intros E; inversion E; subst; auto.
Qed.
Lemma expand_close sh s : expand sh (OClose s) = [IC0 s].
Proof. reflexivity. Qed.
Lemma expand_tail_cont sh o : forallb cont (tl (expand sh o)) = true.
Proof.
  apply forallb_forall. intros j Hj. pose proof (expand_rest sh o) as R. rewrite Forall_forall in R.
  apply cur_ok_cont. apply R. auto.
Qed.

Lemma pend_spawned s sp : list_sum (map (pc1 s) (map spawned sp)) = 0.
Proof. induction sp; simpl; auto. Qed.

Lemma pend_lists s l1 th l2 thn sp :
  list_sum (map (pc1 s) ((l1 ++ thn :: l2) ++ map spawned sp)) + pc1 s th =
  list_sum (map (pc1 s) (l1 ++ th :: l2)) + pc1 s thn.
Proof. rewrite map_app, list_sum_app, pend_spawned, !list_sum_mid. lia. Qed.

Lemma closing_pc x : closing x = true <-> s_pc x <> CNone.
Proof. unfold closing. destruct (s_pc x); split; congruence. Qed.

Lemma discI_step cf C t st st' :
  discI C st -> step cf t st = Some st' -> discI C st'.
Proof.
  intros (TD & CC & PD) H. destruct t as [n b].
  apply step_inv in H as (th & i & rest & todo & En & V & H).
  destruct (upd_split' n (ths st) th En) as (l1 & l2 & E1 & E2).
  assert (Hth : In th (ths st)) by (eapply nth_error_In; eauto).
  destruct (TD th Hth) as (Tc & Tn & Tl).
  (* the stepping thread afterwards, whatever it pushes *)
  assert (NT : forall cur out acks, forallb cont cur = true ->
               tdisc C {| t_cur := cur ++ rest; t_todo := todo; t_out := out; t_acks := acks |} /\
               tdisc C {| t_cur := []; t_todo := todo; t_out := out; t_acks := acks |}).
  { intros cur out acks Hc. apply view_inv in V as [[Ec Et]|[Ec (o & Et & Ee)]].
    - rewrite Ec in Tc. simpl in Tc. apply andb_prop in Tc as [_ Tc]. rewrite Et in *.
      split; repeat split; simpl; auto. rewrite forallb_app, Hc, Tc. auto.
    - rewrite Et in *. simpl in Tn, Tl.
      apply andb_prop in Tn as [_ Tn]. apply andb_prop in Tl as [_ Tl].
      pose proof (expand_tail_cont (sh st) o) as X. rewrite Ee in X. simpl in X.
      split; repeat split; simpl; auto. rewrite forallb_app, Hc, X. auto. }
  (* how the pending-close count of the stepping thread changes *)
  assert (PC1 : forall s cur out acks, exists d,
            pc1 s th = pc1 s {| t_cur := cur; t_todo := todo; t_out := out; t_acks := acks |} + d /\
            (i = IC0 s -> d = 1 /\ In s C)).
  { intros s cur out acks. unfold pc1. simpl. apply view_inv in V as [[Ec Et]|[Ec (o & Et & Ee)]].
    - exists 0. rewrite Et. split; [lia|]. intros ->. rewrite Ec in Tc. simpl in Tc. discriminate.
    - rewrite Et. simpl. destruct (is_close s o) eqn:IC; simpl.
      + exists 1. split; [lia|]. intros ->. split; auto. apply expand_c0 in Ee. subst o. rewrite Et in Tl.
        simpl in Tl. apply andb_prop in Tl as [Tl _]. apply inC_In; auto.
      + exists 0. split; [lia|]. intros ->. apply expand_c0 in Ee. subst o. simpl in IC.
        rewrite Nat.eqb_refl in IC. discriminate. }
  destruct H as [(kk & X & ->)|(sh1 & p & o & a & sp & X & ->)]; simpl.
  - (* panic *)
    split; [|split]; simpl; auto.
    + intros th' Hin. apply in_upd in Hin as [Hin|(x & _ & ->)]; auto. apply (NT [] _ _ eq_refl).
    + intros s. specialize (PD s).
      unfold pend in *. simpl. rewrite E1 in PD. rewrite E2.
      pose proof (pend_lists s l1 th l2 {| t_cur := []; t_todo := todo; t_out := t_out th ++ [OPanic kk]; t_acks := t_acks th |} []) as PS.
      simpl in PS. rewrite app_nil_r in PS.
      destruct (PC1 s [] (t_out th ++ [OPanic kk]) (t_acks th)) as (d & P1 & _). lia.
  - split; [|split]; simpl.
    + intros th' Hin. apply in_app_or in Hin as [Hin|Hin].
      * apply in_upd in Hin as [Hin|(x & _ & ->)]; auto. apply NT.
        apply forallb_forall. intros j Hj. apply cur_ok_cont.
        pose proof (exec_push_cur _ _ _ _ _ _ _ _ _ X) as PC. rewrite Forall_forall in PC. auto.
      * apply in_map_iff in Hin as (cur & <- & Hc).
        pose proof (exec_spawn_watch _ _ _ _ _ _ _ _ _ X) as SW. rewrite Forall_forall in SW.
        destruct (SW cur Hc) as [c ->]. repeat split.
    + intros s N. destruct (cpc_eq_dec (s_pc (gets sh1 s)) (s_pc (gets (sh st) s))) as [E|E].
      * apply CC. congruence.
      * destruct (exec_pc_change _ _ _ _ _ _ _ _ _ _ X E) as [[-> _]|[_ IP]].
        -- destruct (PC1 s [] [] []) as (d & _ & P2). apply P2; auto.
        -- apply CC. apply in_progress_not_none; auto.
    + intros s. specialize (PD s).
      unfold pend in *. simpl. rewrite E1 in PD. rewrite E2.
      pose proof (pend_lists s l1 th l2 {| t_cur := p ++ rest; t_todo := todo; t_out := t_out th ++ o; t_acks := t_acks th ++ a |} sp) as PS.
      destruct (PC1 s (p ++ rest) (t_out th ++ o) (t_acks th ++ a)) as (d & P1 & P2).
      destruct (closing (gets sh1 s)) eqn:C1; [|lia].
      destruct (closing (gets (sh st) s)) eqn:C0; [lia|].
      assert (E : s_pc (gets sh1 s) <> s_pc (gets (sh st) s)).
      { apply closing_pc in C1. unfold closing in C0. destruct (s_pc (gets (sh st) s)); try discriminate. auto. }
      destruct (exec_pc_change _ _ _ _ _ _ _ _ _ _ X E) as [[-> _]|[_ IP]].
      * destruct (P2 eq_refl) as [-> _]. lia.
      * apply in_progress_not_none in IP. apply closing_pc in IP. congruence.
Qed.

Lemma pc1_le_pend s st th : In th (ths st) -> pc1 s th <= pend s st.
Proof.
  intros Hin. apply in_split in Hin as (l1 & l2 & E). unfold pend. rewrite E, list_sum_mid. lia.
Qed.

Lemma existsb_filter {A} (f : A -> bool) l : existsb f l = true -> 1 <= length (filter f l).
Proof.
  induction l as [|x l IH]; simpl; [discriminate|]. destruct (f x); simpl; auto. lia.
Qed.

Definition closeI (cf : cfg) (C : list nat) (st : state) : Prop :=
  codI cf st /\ discI C st /\ no_panic_out st.

Lemma closeI_step cf C t st st' :
  stop_atomic cf = true -> remember_reg cf = true ->
  closeI cf C st -> step cf t st = Some st' -> closeI cf C st'.
Proof.
  intros AT RR (CO & DI & NP) H.
  split; [eapply codI_step; eauto|]. split; [eapply discI_step; eauto|].
  destruct t as [n b]. unfold no_panic_out. eapply outs_step; eauto.
  intros th i rest todo k En V X. exfalso.
  destruct CO as (S & W & T & Y & _). destruct DI as (TD & CC & PD).
  assert (Hin : In th (ths st)) by (eapply nth_error_In; eauto).
  destruct (Y th Hin) as [A B].
  destruct (syn_view i_nodone (fun o => op_nodone o = true) _ _ _ _ _
                     (fun sh o => expand_nodone sh o) I A B V) as (Pi & _ & _).
  destruct (view_shape _ _ _ _ _ _ (S th Hin) V) as [_ Hi].
  pose proof (exec_panic_kind _ _ _ _ _ X AT Hi Pi W T) as BD.
  destruct (TD th Hin) as (Tc & Tn & Tl).
  apply view_inv in V as [[Ec Et]|[Ec (o & Et & Ee)]].
  - rewrite Ec in Tc. simpl in Tc. apply andb_prop in Tc as [Tc _].
    destruct (exec_panic_src _ _ _ _ _ X BD) as [(s & -> & _)|[(s & -> & _)|(s & e & l & f & -> & _)]];
      discriminate.
  - assert (ORD : forall s, target o = Some s -> s_pc (gets (sh st) s) <> CNone -> False).
    { intros s Ht N. rewrite Et in Tn. simpl in Tn. rewrite Ht in Tn. apply andb_prop in Tn as [Tn _].
      pose proof (CC s N) as HC. apply inC_In in HC. rewrite HC in Tn. simpl in Tn.
      apply existsb_filter in Tn. specialize (PD s). apply closing_pc in N. rewrite N in PD.
      pose proof (pc1_le_pend s st th Hin) as L. unfold pc1 in L. rewrite Et in L. simpl in L.
      destruct (is_close s o); simpl in L; lia. }
    destruct (exec_panic_src _ _ _ _ _ X BD) as [(s & -> & N)|[(s & -> & N)|(s & e & l & f & -> & N)]].
    + eapply ORD; eauto. eapply expand_chk; eauto.
    + apply expand_c0 in Ee. subst o. specialize (PD s). rewrite N in PD.
      pose proof (pc1_le_pend s st th Hin) as L. unfold pc1 in L. rewrite Et in L. simpl in L.
      rewrite Nat.eqb_refl in L. simpl in L. lia.
    + eapply ORD; eauto. eapply expand_on; eauto.
Qed.

(** the initial state of disciplined programs *)
Lemma filter_close s prog :
  length (filter (is_close s) prog) = length (filter (fun x => Nat.eqb x s) (flat_map close_of prog)).
Proof.
  induction prog as [|o r IH]; simpl; auto. rewrite filter_app, app_length, <- IH.
  destruct o; simpl; auto. destruct (Nat.eqb s0 s); simpl; lia.
Qed.

Lemma pend_init s progs :
  pend s (init progs) = length (filter (fun x => Nat.eqb x s) (closes progs)).
Proof.
  unfold pend, closes. simpl. induction progs as [|prog r IH]; simpl; auto.
  rewrite filter_app, app_length, <- IH. unfold pc1 at 1. simpl. rewrite filter_close. reflexivity.
Qed.

Lemma nodup_filter_le s l : NoDup l -> length (filter (fun x => Nat.eqb x s) l) <= 1.
Proof.
  induction 1 as [|x l Hx Hl IH]; simpl; auto. destruct (Nat.eqb_spec x s) as [->|]; auto. simpl.
  assert (E : filter (fun x => Nat.eqb x s) l = []).
  { clear -Hx. induction l as [|y l IH]; simpl; auto. destruct (Nat.eqb_spec y s) as [->|].
    - elim Hx. left; auto.
    - apply IH. intros H. apply Hx. right; auto. }
  rewrite E. simpl. lia.
Qed.

Lemma discI_init progs : disciplined progs -> discI (closes progs) (init progs).
Proof.
  intros [ND D]. split; [|split].
  - intros th Hin. simpl in Hin. apply in_map_iff in Hin as (prog & <- & Hp).
    rewrite Forall_forall in D. specialize (D prog Hp). apply andb_prop in D as [D1 D2].
    split; [reflexivity|]. split; simpl; auto. apply forallb_forall. intros o Ho. destruct o; simpl; auto.
    apply inC_In. unfold closes. apply in_flat_map. exists prog. split; auto.
    apply in_flat_map. exists (OClose s). split; simpl; auto.
  - intros s N. elim N. simpl. unfold gets. simpl. destruct s; reflexivity.
  - intros s. assert (E : closing (gets (sh (init progs)) s) = false).
    { unfold gets. simpl. destruct s; reflexivity. }
    rewrite E, pend_init. pose proof (nodup_filter_le s _ ND). lia.
Qed.

Lemma no_panic_out_all st : no_panic_out st -> all_panics st = [].
Proof.
  unfold all_panics, no_panic_out. intros O.
  induction (ths st) as [|th l IH]; simpl; auto.
  rewrite IH by (intros; apply O; right; auto). rewrite app_nil_r.
  specialize (O th (or_introl eq_refl)). unfold panics_of. induction O; simpl; auto.
  rewrite H. auto.
Qed.

Lemma no_panic_closing cf progs sched :
  stop_atomic cf = true -> remember_reg cf = true -> disciplined progs ->
  let st := run cf sched (init progs) in
  all_panics st = [] /\
  (forall th o r s, In th (ths st) -> t_cur th = [] -> t_todo th = o :: r -> target o = Some s ->
     s_pc (gets (sh st) s) = CNone).
Proof.
  intros AT RR D st.
  assert (ND : Forall (Forall (fun o => op_nodone o = true)) progs).
  { destruct D as [_ D]. eapply Forall_impl; [|exact D]. intros prog H. apply andb_prop in H as [H _].
    apply Forall_forall. intros o Ho. rewrite forallb_forall in H. auto. }
  assert (I : closeI cf (closes progs) st).
  { apply (run_inv cf (closeI cf (closes progs))). intros; eapply closeI_step; eauto.
    split. apply codI_init; auto. split. apply discI_init; auto.
    intros th Hin. apply in_map_iff in Hin as (ops & <- & _). simpl. auto. }
  destruct I as (_ & (TD & CC & PD) & O). split.
  - apply no_panic_out_all; auto.
  - intros th o r s Hin Ec Et Ht. destruct (TD th Hin) as (_ & Tn & _). rewrite Et in Tn. simpl in Tn.
    rewrite Ht in Tn. apply andb_prop in Tn as [Tn _].
    destruct (cpc_eq_dec (s_pc (gets (sh st) s)) CNone) as [|N]; auto. exfalso.
    apply Bool.orb_true_iff in Tn as [Tn|Tn].
    + apply CC in N. apply inC_In in N. rewrite N in Tn. discriminate.
    + apply existsb_filter in Tn. specialize (PD s). apply closing_pc in N. rewrite N in PD.
      pose proof (pc1_le_pend s st th Hin) as L. unfold pc1 in L. rewrite Et in L. simpl in L.
      destruct (is_close s o); simpl in L; lia.
Qed.

(** * E. Signalling calls are wait-free.
    A thread whose remaining program contains no Close and no Wait is never blocked, every one of its
    micro-steps brings its own weight [thw] down, and nothing another thread does touches it: under
    ANY schedule it has finished once it has been scheduled [thw] times - from ANY state, reachable
    or not, whatever the other threads (Close, Wait, watchers included) are doing. *)
Definition free_op (o : op) : bool := match o with OClose _ | OWait _ => false | _ => true end.
Definition free_i (i : instr) : bool :=
  match i with IRunClose _ | IC0 _ | IWait _ | IWatch _ => false | _ => true end.
Definition free_thread (th : thread) : bool := forallb free_i (t_cur th) && forallb free_op (t_todo th).

Lemma expand_free sh o : free_op o = true -> forallb free_i (expand sh o) = true.
Proof.
  destruct o; simpl; intros H; try discriminate; repeat des_if; auto. destruct (nonnil es); reflexivity.
Qed.

Lemma exec_free cf b i sh sh' p o a sp :
  free_i i = true -> exec cf b i sh = XOk sh' p o a sp -> forallb free_i p = true /\ wsum p < wi i.
Proof.
  intros F H. destruct i; try discriminate F; unfold exec, xok, xpush in H;
    try des_trig; repeat des_if; try inv_x; unfold wsum; simpl; split; auto; try lia.
  all: destruct (c_iso (getc sh c)); repeat des_if; inv_x; simpl; auto; lia.
Qed.

Lemma free_not_blocked cf b i sh : free_i i = true -> exec cf b i sh <> XBlocked.
Proof.
  intros F H. apply blocked_only in H as [(s & -> & _)|[(s & -> & _)|(c & p & -> & _)]]; discriminate.
Qed.

Lemma thw_zero th : thw th = 0 <-> finished th = true.
Proof.
  unfold thw, finished, wsum, osum. split.
  - destruct (t_cur th) as [|i r]; destruct (t_todo th) as [|o r']; simpl; auto;
      try (pose proof (wi_pos i)); try (pose proof (wo_pos o)); lia.
  - destruct (t_cur th), (t_todo th); simpl; auto; discriminate.
Qed.

(** one micro-step of a free thread *)
Lemma free_step cf n b st th :
  nth_error (ths st) n = Some th -> free_thread th = true -> finished th = false ->
  exists st' th', step cf (n, b) st = Some st' /\ nth_error (ths st') n = Some th' /\
                  free_thread th' = true /\ thw th' < thw th.
Proof.
  intros En F NF. destruct (view_some (sh st) th NF) as (i & rest & todo & V).
  unfold free_thread in F. apply andb_prop in F as [Fc Ft].
  assert (G : free_i i = true /\ forallb free_i rest = true /\ forallb free_op todo = true /\
              wi i + wsum rest + osum todo <= thw th).
  { pose proof V as V'. apply view_inv in V' as [[Ec Et]|[Ec (o & Et & Ee)]]; unfold thw.
    - rewrite Ec in *. simpl in Fc. apply andb_prop in Fc as [A B]. rewrite Et in *.
      repeat split; auto; unfold wsum; simpl; lia.
    - rewrite Ec, Et in *. simpl in Ft. apply andb_prop in Ft as [A B].
      pose proof (expand_free (sh st) o A) as X. rewrite Ee in X. simpl in X. apply andb_prop in X as [X1 X2].
      repeat split; auto. destruct (expand_weight (sh st) o) as [W _]. rewrite Ee in W.
      unfold wsum, osum in *. simpl in *. lia. }
  destruct G as (Fi & Fr & Fo & W).
  assert (L : n < length (ths st)) by (apply nth_error_Some; congruence).
  unfold step. rewrite En, V.
  destruct (exec cf b i (sh st)) as [|k|sh1 p o a sp] eqn:X.
  - exfalso. eapply free_not_blocked; eauto.
  - eexists _, _. split; [reflexivity|]. simpl. split; [apply nth_error_upd_eq; eauto|].
    unfold free_thread. simpl. rewrite Fo. split; auto. pose proof (wi_pos i). unfold thw in *. simpl. lia.
  - destruct (exec_free _ _ _ _ _ _ _ _ _ Fi X) as [Fp Wp].
    eexists _, _. split; [reflexivity|]. simpl. split.
    + rewrite nth_error_app1 by (rewrite upd_length; auto). apply nth_error_upd_eq; eauto.
    + unfold free_thread, thw in *. simpl. rewrite forallb_app, Fp, Fr, Fo, wsum_app. split; auto. lia.
Qed.

(** ... and the steps of the others leave it alone *)
Lemma other_step cf m b st st' n th :
  step cf (m, b) st = Some st' -> m <> n -> nth_error (ths st) n = Some th ->
  nth_error (ths st') n = Some th.
Proof.
  intros H N En. assert (L : n < length (ths st)) by (apply nth_error_Some; congruence).
  apply step_inv in H as (th0 & i & rest & todo & _ & _ & [(k & _ & ->)|(sh1 & p & o & a & sp & _ & ->)]); simpl.
  - rewrite nth_error_upd_neq; auto.
  - rewrite nth_error_app1 by (rewrite upd_length; auto). rewrite nth_error_upd_neq; auto.
Qed.

Fixpoint occ (n : nat) (sched : list tid) : nat :=
  match sched with
  | [] => 0
  | (m, _) :: r => (if Nat.eqb m n then 1 else 0) + occ n r
  end.

Lemma free_run cf sched : forall st n th,
  nth_error (ths st) n = Some th -> free_thread th = true ->
  exists th', nth_error (ths (run cf sched st)) n = Some th' /\ free_thread th' = true /\
              thw th' <= thw th - occ n sched.
Proof.
  induction sched as [|[m b] r IH]; intros st n th En F; simpl.
  - exists th. repeat split; auto. lia.
  - unfold step_or_skip. destruct (Nat.eqb_spec m n) as [->|N].
    + destruct (finished th) eqn:NF.
      * apply thw_zero in NF. destruct (step cf (n, b) st) as [st1|] eqn:E.
        -- (* a finished thread has no step *)
           apply thw_zero in NF. apply finished_nil in NF as [A B].
           unfold step in E. rewrite En in E. unfold view in E. rewrite A, B in E. discriminate.
        -- destruct (IH st n th En F) as (th' & E' & F' & W'). exists th'. repeat split; auto. lia.
      * destruct (free_step cf n b st th En F NF) as (st1 & th1 & E & E1 & F1 & W1). rewrite E.
        destruct (IH st1 n th1 E1 F1) as (th' & E' & F' & W'). exists th'. repeat split; auto. lia.
    + destruct (step cf (m, b) st) as [st1|] eqn:E.
      * pose proof (other_step _ _ _ _ _ _ _ E N En) as E1.
        destruct (IH st1 n th E1 F) as (th' & E' & F' & W'). exists th'. repeat split; auto.
      * destruct (IH st n th En F) as (th' & E' & F' & W'). exists th'. repeat split; auto.
Qed.

Lemma free_weight ops : forallb free_op ops = true -> osum ops <= 12 * length ops.
Proof.
  unfold osum. induction ops as [|o r IH]; simpl; auto. intros H. apply andb_prop in H as [A B].
  specialize (IH B). destruct o; simpl in *; try discriminate; lia.
Qed.

Lemma wait_free cf sched st n th :
  nth_error (ths st) n = Some th -> free_thread th = true -> thw th <= occ n sched ->
  exists th', nth_error (ths (run cf sched st)) n = Some th' /\ finished th' = true.
Proof.
  intros En F W. destruct (free_run cf sched st n th En F) as (th' & E' & _ & W').
  exists th'. split; auto. apply thw_zero. lia.
Qed.

(** Programs without Close and DoneTask (the class of C12_no_panic) are disciplined. *)
Lemma safe_closes prog : Forall (fun o => op_safe o = true) prog -> flat_map close_of prog = [].
Proof. induction 1 as [|o r Ho Hr IH]; simpl; auto. rewrite IH. destruct o; simpl in *; auto; discriminate. Qed.

Lemma ord_ok_nil prog : ord_ok [] prog = true.
Proof. induction prog as [|o r IH]; simpl; auto. rewrite IH. destruct (target o); reflexivity. Qed.

Lemma safe_disciplined progs :
  Forall (Forall (fun o => op_safe o = true)) progs -> disciplined progs.
Proof.
  intros H. assert (E : closes progs = []).
  { unfold closes. induction H as [|prog r Hp Hr IH]; simpl; auto. rewrite IH, (safe_closes prog Hp). reflexivity. }
  split; rewrite E. constructor.
  eapply Forall_impl; [|exact H]. intros prog Hp. rewrite ord_ok_nil, Bool.andb_true_r.
  apply forallb_forall. rewrite Forall_forall in Hp. intros o Ho. specialize (Hp o Ho).
  destruct o; simpl in *; auto; discriminate.
Qed.
