(** Composition of the tree copy with the fsloop walk (C08): whatever the schedule of the walk,
    when it ends with an empty error list the callbacks it made are a permutation of the selected
    set (Proofs.Loop.exactly_once), hence the copy theorem applies to the callback log. *)
From GC Require Import Common.Base Model.Paths Model.Fs Model.Stream Model.Copy Proofs.Fs Proofs.Copy.
From GC Require Model.Loop Proofs.Loop.
From Coq Require Import Permutation.

(** The callback argument of the walk (a Go string such as "./a/b") as a relative path. *)
Definition cb_of_item (it : Model.Loop.item) : cb :=
  match it with
  | Model.Loop.IDir p => CbDir (match reduce p with Some x => x | None => [] end)
  | Model.Loop.IFile p => CbFile (match reduce p with Some x => x | None => [] end)
  end.

(** fshelper.Copy's walk: no filters, both callbacks, no listing/callback failure, one producer,
    one consumer, queues of 1000. *)
Definition copy_walk_cfg : Model.Loop.config :=
  Model.Loop.mkCfg (fun _ => true) (fun _ => true) false true true (fun _ => false) (fun _ => false)
                   1%nat 1%nat 1000%nat 1000%nat Model.Loop.ClosedThenEmpty.

Lemma treecopy_any_schedule :
  forall (cfg : Model.Loop.config) base root sched (f : Model.Loop.item -> cb) k src s d dst t,
    Model.Loop.xt cfg = Model.Loop.ClosedThenEmpty -> (1 <= Model.Loop.cmax cfg)%nat ->
    let st := Model.Loop.run cfg sched (Model.Loop.init cfg base root) in
    Model.Loop.all_exited st = true -> Model.Loop.killed st = false ->
    Permutation (map f (Model.Loop.sel_list cfg base root)) (cbs_of src s) ->
    (1 <= cc_buf k)%nat -> WF src -> WF dst -> good_path d = true ->
    tree_copy k src s d dst (map f (Model.Loop.log st)) = (COk, t) ->
    WF t /\ forall x e, x <> [] -> lookup src (s ++ x) = Some e -> lookup t (d ++ x) = Some e.
Proof.
  intros cfg base root sched f k src s d dst t Hxt Hc st Hex Hk Hsel HB HWFs HWF Hgd H.
  destruct (Proofs.Loop.exactly_once cfg base root sched Hxt Hc Hex Hk) as [Hp _].
  assert (Hperm : Permutation (map f (Model.Loop.log st)) (cbs_of src s)).
  { eapply perm_trans; [apply Permutation_map; exact Hp|exact Hsel]. }
  destruct (treecopy_ok_complete k src s d dst _ t HB HWFs HWF Hgd Hperm H) as (W & E & _).
  split; assumption.
Qed.
